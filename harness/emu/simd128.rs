//! Software emulation of the WebAssembly simd128 intrinsics the memchr crate
//! uses, written from the WebAssembly SIMD specification. Used only to EXECUTE
//! the wasm32 code paths on this x86_64 host; part of the trusted base.
#![allow(non_camel_case_types, missing_docs, dead_code)]

#[derive(Clone, Copy, Debug)]
#[repr(C, align(16))]
pub struct v128(pub [u8; 16]);

#[inline(always)]
pub fn u8x16_splat(b: u8) -> v128 {
    v128([b; 16])
}
#[inline(always)]
pub unsafe fn v128_load(p: *const v128) -> v128 {
    v128(core::ptr::read_unaligned(p as *const [u8; 16]))
}
/// i8x16.bitmask: bit i = most significant bit of lane i.
#[inline(always)]
pub fn u8x16_bitmask(a: v128) -> u16 {
    let mut m = 0u16;
    for i in 0..16 {
        if a.0[i] & 0x80 != 0 {
            m |= 1 << i;
        }
    }
    m
}
#[inline(always)]
pub fn u8x16_eq(a: v128, b: v128) -> v128 {
    let mut r = [0u8; 16];
    for i in 0..16 {
        r[i] = if a.0[i] == b.0[i] { 0xFF } else { 0 };
    }
    v128(r)
}
#[inline(always)]
pub fn v128_and(a: v128, b: v128) -> v128 {
    let mut r = [0u8; 16];
    for i in 0..16 {
        r[i] = a.0[i] & b.0[i];
    }
    v128(r)
}
#[inline(always)]
pub fn v128_or(a: v128, b: v128) -> v128 {
    let mut r = [0u8; 16];
    for i in 0..16 {
        r[i] = a.0[i] | b.0[i];
    }
    v128(r)
}
