//! Software emulation of the 12 AArch64 NEON intrinsics the memchr crate uses,
//! written from the Arm Architecture Reference Manual pseudo-code (little-endian
//! lane order). Used only to EXECUTE the aarch64 code paths on this x86_64 host;
//! whether it matches the hardware is part of the trusted base.
#![allow(non_camel_case_types, missing_docs, dead_code)]

#[derive(Clone, Copy, Debug)]
#[repr(C)]
pub struct uint8x16_t(pub [u8; 16]);
#[derive(Clone, Copy, Debug)]
#[repr(C)]
pub struct uint16x8_t(pub [u16; 8]);
#[derive(Clone, Copy, Debug)]
#[repr(C)]
pub struct uint8x8_t(pub [u8; 8]);
#[derive(Clone, Copy, Debug)]
#[repr(C)]
pub struct uint64x1_t(pub [u64; 1]);
#[derive(Clone, Copy, Debug)]
#[repr(C)]
pub struct uint64x2_t(pub [u64; 2]);

#[inline(always)]
pub unsafe fn vdupq_n_u8(b: u8) -> uint8x16_t {
    uint8x16_t([b; 16])
}
#[inline(always)]
pub unsafe fn vld1q_u8(p: *const u8) -> uint8x16_t {
    uint8x16_t(core::ptr::read_unaligned(p as *const [u8; 16]))
}
#[inline(always)]
pub unsafe fn vreinterpretq_u16_u8(a: uint8x16_t) -> uint16x8_t {
    let mut r = [0u16; 8];
    for i in 0..8 {
        r[i] = (a.0[2 * i] as u16) | ((a.0[2 * i + 1] as u16) << 8);
    }
    uint16x8_t(r)
}
/// SHRN: shift each 16-bit lane right by n and keep the low 8 bits.
#[inline(always)]
pub unsafe fn vshrn_n_u16(a: uint16x8_t, n: i32) -> uint8x8_t {
    let mut r = [0u8; 8];
    for i in 0..8 {
        r[i] = (a.0[i] >> n) as u8;
    }
    uint8x8_t(r)
}
#[inline(always)]
pub unsafe fn vreinterpret_u64_u8(a: uint8x8_t) -> uint64x1_t {
    uint64x1_t([u64::from_le_bytes(a.0)])
}
#[inline(always)]
pub unsafe fn vget_lane_u64(a: uint64x1_t, lane: i32) -> u64 {
    a.0[lane as usize]
}
#[inline(always)]
pub unsafe fn vceqq_u8(a: uint8x16_t, b: uint8x16_t) -> uint8x16_t {
    let mut r = [0u8; 16];
    for i in 0..16 {
        r[i] = if a.0[i] == b.0[i] { 0xFF } else { 0 };
    }
    uint8x16_t(r)
}
#[inline(always)]
pub unsafe fn vandq_u8(a: uint8x16_t, b: uint8x16_t) -> uint8x16_t {
    let mut r = [0u8; 16];
    for i in 0..16 {
        r[i] = a.0[i] & b.0[i];
    }
    uint8x16_t(r)
}
#[inline(always)]
pub unsafe fn vorrq_u8(a: uint8x16_t, b: uint8x16_t) -> uint8x16_t {
    let mut r = [0u8; 16];
    for i in 0..16 {
        r[i] = a.0[i] | b.0[i];
    }
    uint8x16_t(r)
}
/// UMAXP: pairwise maximum of adjacent lanes of the concatenation a:b.
#[inline(always)]
pub unsafe fn vpmaxq_u8(a: uint8x16_t, b: uint8x16_t) -> uint8x16_t {
    let mut r = [0u8; 16];
    for i in 0..8 {
        r[i] = core::cmp::max(a.0[2 * i], a.0[2 * i + 1]);
        r[8 + i] = core::cmp::max(b.0[2 * i], b.0[2 * i + 1]);
    }
    uint8x16_t(r)
}
#[inline(always)]
pub unsafe fn vreinterpretq_u64_u8(a: uint8x16_t) -> uint64x2_t {
    let mut lo = [0u8; 8];
    let mut hi = [0u8; 8];
    lo.copy_from_slice(&a.0[..8]);
    hi.copy_from_slice(&a.0[8..]);
    uint64x2_t([u64::from_le_bytes(lo), u64::from_le_bytes(hi)])
}
#[inline(always)]
pub unsafe fn vgetq_lane_u64(a: uint64x2_t, lane: i32) -> u64 {
    a.0[lane as usize]
}
