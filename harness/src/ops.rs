//! The operations a case file can request.
use crate::arena::{Arena, Flush};
use crate::{opt, Case};
use std::panic::{catch_unwind, AssertUnwindSafe};

use memchr::arch::all;

pub struct Ctx {
    pub hay: Arena,
    pub needle: Arena,
}

impl Ctx {
    pub fn new() -> Ctx {
        Ctx { hay: Arena::new(24), needle: Arena::new(8) }
    }

    /// Make both arenas large enough for the operands of this case (the big
    /// cases of the cost property need megabytes; the default stays small so
    /// that guard pages are close to everything else).
    pub fn reserve(&mut self, c: &Case) {
        let page = crate::arena::PAGE;
        let hexlen = |k: &str| c.str(k).len() / 2;
        let hay_need = hexlen("h").max(hexlen("x").max(hexlen("y"))) + 3 * page;
        let needle_need = hexlen("x").max(hexlen("y")).max(hexlen("fx")) + 3 * page;
        if hay_need > self.hay.capacity() {
            self.hay = Arena::new(hay_need / page + 2);
        }
        if needle_need > self.needle.capacity() && hexlen("fx") == 0 {
            self.needle = Arena::new(needle_need / page + 2);
        }
    }
}

fn flush_of(n: usize) -> Flush {
    match n {
        1 => Flush::Left,
        2 => Flush::Right,
        _ => Flush::None,
    }
}

/// Max events printed verbatim; longer traces are printed as count + digest.
const VERBATIM: usize = 96;

#[cfg(memchr_verif)]
pub fn fmt_trace(rec: &memchr::verif::Recording, regions: [(usize, usize); 2]) -> String {
    use memchr::verif::Event;
    let mut toks: Vec<String> = Vec::with_capacity(rec.events.len());
    let mut bad = Vec::new();
    for ev in rec.events.iter() {
        match *ev {
            Event::Load { region, off, width, aligned } => {
                let base = regions[region as usize].0;
                if aligned && width > 0 && (base + off) % width != 0 {
                    bad.push(format!("MISALIGNED(r{}+{}:{})", region, off, width));
                }
                toks.push(format!(
                    "L{}{}:{}{}",
                    if region == 0 { 'H' } else { 'N' },
                    off,
                    width,
                    if aligned { 'a' } else { 'u' }
                ));
            }
            Event::Oob { addr, width, .. } => {
                // report relative to the haystack for readability
                let rel = addr as i128 - regions[0].0 as i128;
                bad.push(format!("OOB(hay{:+}:{})", rel, width));
                toks.push(format!("X{}", width));
            }
            Event::Tick(k) => toks.push(format!("T{}", k)),
            Event::Label(l) => toks.push(format!("B{}", l)),
        }
    }
    // labels survive digesting (the cost oracle needs the strategy)
    let labels: Vec<&str> = toks.iter().filter(|t| t.starts_with('B')).map(|t| t.as_str()).collect();
    let lab = if labels.is_empty() { String::new() } else { format!(":{}", labels.join(",")) };
    // steps = loads + ticks (labels are not steps)
    let steps = rec.count as usize - labels.len();
    let mut s = if rec.count as usize != rec.events.len() {
        format!("#{}:capped{}", steps, lab)
    } else if toks.len() > VERBATIM {
        let mut h: u64 = 0xcbf29ce484222325;
        for t in toks.iter() {
            for &b in t.as_bytes() {
                h ^= b as u64;
                h = h.wrapping_mul(0x100000001b3);
            }
            h ^= b',' as u64;
            h = h.wrapping_mul(0x100000001b3);
        }
        format!("#{}:{:016x}{}", steps, h, lab)
    } else if toks.is_empty() {
        "-".to_string()
    } else {
        toks.join(",")
    };
    if !bad.is_empty() {
        s.push_str(" !");
        s.push_str(&bad[..bad.len().min(4)].join(";"));
    }
    s
}

fn region(s: &[u8]) -> (usize, usize) {
    (s.as_ptr() as usize, s.len())
}

/// Run `f` with recording armed on the given regions, catching panics.
fn record<F: FnOnce() -> String>(hay: &[u8], needle: &[u8], f: F) -> (String, String) {
    #[cfg(memchr_verif)]
    {
        memchr::verif::start(region(hay), region(needle), 1 << 16);
        let r = catch_unwind(AssertUnwindSafe(f));
        let rec = memchr::verif::stop();
        let t = fmt_trace(&rec, [region(hay), region(needle)]);
        (r.unwrap_or_else(|_| "Panic".to_string()), t)
    }
    #[cfg(not(memchr_verif))]
    {
        let _ = (region(hay), region(needle));
        let r = catch_unwind(AssertUnwindSafe(f));
        (r.unwrap_or_else(|_| "Panic".to_string()), "?".to_string())
    }
}

pub struct Ranker(pub [u8; 256]);
impl all::packedpair::HeuristicFrequencyRank for Ranker {
    fn rank(&self, byte: u8) -> u8 {
        self.0[byte as usize]
    }
}

pub fn ranker(spec: &str) -> Option<Ranker> {
    let mut t = [0u8; 256];
    match spec {
        "" | "default" => return None,
        "const0" => {}
        "const255" => t = [255u8; 256],
        "id" => {
            for i in 0..256 {
                t[i] = i as u8
            }
        }
        "rev" => {
            for i in 0..256 {
                t[i] = 255 - i as u8
            }
        }
        s if s.starts_with("tbl:") => {
            let b = crate::unhex(&s[4..]);
            assert_eq!(256, b.len());
            t.copy_from_slice(&b);
        }
        _ => panic!("unknown ranker {}", spec),
    }
    Some(Ranker(t))
}

pub fn run(ctx: &mut Ctx, c: &Case) -> (String, String) {
    match c.op {
        // ---- C18
        "iseq" | "ispre" | "issuf" => {
            let x = c.bytes("x");
            let y = c.bytes("y");
            let xs = ctx.hay.place(&x, c.num("ax"), flush_of(c.num("fx")));
            if !c.str("al").is_empty() {
                // aliasing operands: y is the sub-slice of x's own buffer starting at offset `al`
                // (the case line still spells y out for the model and the oracle). The two regions
                // overlap, so the load trace is not attributed to operands: results only.
                let off = c.num("al");
                if off + y.len() > xs.len() || xs[off..off + y.len()] != y[..] {
                    return ("BadCase".to_string(), "-".to_string());
                }
                let ys = &xs[off..off + y.len()];
                let b = catch_unwind(AssertUnwindSafe(|| match c.op {
                    "iseq" => all::is_equal(xs, ys),
                    "ispre" => all::is_prefix(xs, ys),
                    _ => all::is_suffix(xs, ys),
                }));
                return (b.map(|b| b.to_string()).unwrap_or("Panic".to_string()), "?".to_string());
            }
            let ys = ctx.needle.place(&y, c.num("ay"), flush_of(c.num("fy")));
            record(xs, ys, || {
                let b = match c.op {
                    "iseq" => all::is_equal(xs, ys),
                    "ispre" => all::is_prefix(xs, ys),
                    _ => all::is_suffix(xs, ys),
                };
                b.to_string()
            })
        }
        // ---- C19
        "pair" => {
            let x = c.bytes("x");
            let r = ranker(c.str("rank"));
            record(&[], &[], || {
                let p = match r {
                    None => all::packedpair::Pair::new(&x),
                    Some(r) => all::packedpair::Pair::with_ranker(&x, r),
                };
                match p {
                    None => "None".to_string(),
                    Some(p) => format!("Some({},{})", p.index1(), p.index2()),
                }
            })
        }
        "pairidx" => {
            let x = c.bytes("x");
            let (i1, i2) = (c.num("i1") as u8, c.num("i2") as u8);
            record(&[], &[], || match all::packedpair::Pair::with_indices(&x, i1, i2) {
                None => "None".to_string(),
                Some(p) => format!("Some({},{})", p.index1(), p.index2()),
            })
        }
        // ---- C01 / C02 / C07: one backend, one-shot
        "find" | "rfind" | "count" => {
            let ns = c.bytes("ns");
            let h = c.bytes("h");
            let hs = ctx.hay.place(&h, c.num("a"), flush_of(c.num("fl")));
            let be = c.str("be").to_string();
            let op = c.op.to_string();
            if c.num("raw") == 1 {
                // raw-pointer forms: start = base + so, end = base + eo (so > eo is allowed: must give None / 0)
                let (so, eo) = (c.num("so"), c.num("eo"));
                if so > hs.len() || eo > hs.len() {
                    return ("BadCase".to_string(), "-".to_string());
                }
                let sub: &[u8] = if so <= eo { &hs[so..eo] } else { &hs[so..so] };
                let base = hs.as_ptr();
                return record(sub, &[], || memchr_raw_op(&op, &be, &ns, base, so, eo));
            }
            record(hs, &[], || memchr_op(&op, &be, &ns, hs))
        }
        // is the backend reported available under the (possibly forced) CPU detection outcome?
        #[cfg(all(target_arch = "x86_64", not(any(memchr_emu = "neon", memchr_emu = "simd128"))))]
        "avail" => {
            use memchr::arch::x86_64::{avx2, sse2};
            let r = match c.str("isa") {
                "avx2" => format!(
                    "{}{}{}{}",
                    avx2::memchr::One::new(1).is_some() as u8,
                    avx2::memchr::Two::new(1, 2).is_some() as u8,
                    avx2::memchr::Three::new(1, 2, 3).is_some() as u8,
                    avx2::packedpair::Finder::new(b"ab").is_some() as u8
                ),
                "sse2" => format!(
                    "{}{}{}{}",
                    sse2::memchr::One::new(1).is_some() as u8,
                    sse2::memchr::Two::new(1, 2).is_some() as u8,
                    sse2::memchr::Three::new(1, 2, 3).is_some() as u8,
                    sse2::packedpair::Finder::new(b"ab").is_some() as u8
                ),
                _ => "BadBackend".to_string(),
            };
            (r, "-".to_string())
        }
        "pppair" => {
            let x = c.bytes("x");
            let (i1, i2) = (c.num("i1") as u8, c.num("i2") as u8);
            let isa = c.str("isa").to_string();
            record(&[], &[], || pp_pair_op(&isa, &x, i1, i2))
        }
        // ---- C06 / C07: iterator histories
        "iter" => {
            let ns = c.bytes("ns");
            let h = c.bytes("h");
            let hs = ctx.hay.place(&h, c.num("a"), flush_of(c.num("fl")));
            let be = c.str("be").to_string();
            let ops = c.str("ops").to_string();
            if c.num("rev") == 1 {
                // memrchr{,2,3}_iter: the Rev adaptor around the same iterators
                return record(hs, &[], || match ns.len() {
                    1 => drive(memchr::memrchr_iter(ns[0], hs), &ops, false),
                    2 => drive(memchr::memrchr2_iter(ns[0], ns[1], hs), &ops, false),
                    3 => drive(memchr::memrchr3_iter(ns[0], ns[1], ns[2], hs), &ops, false),
                    _ => "BadCase".to_string(),
                });
            }
            record(hs, &[], || iter_op(&be, &ns, hs, &ops))
        }
        // ---- C12: building blocks
        "rkfind" | "rkrfind" => {
            let x = c.bytes("x");
            let h = c.bytes("h");
            let nx = if c.str("nx").is_empty() { x.clone() } else { c.bytes("nx") };
            let hs = ctx.hay.place(&h, c.num("a"), flush_of(c.num("fl")));
            let xs = ctx.needle.place(&x, c.num("an"), flush_of(c.num("fln")));
            let fwd = c.op == "rkfind";
            record(hs, xs, || {
                if fwd {
                    opt(all::rabinkarp::Finder::new(&nx).find(hs, xs))
                } else {
                    opt(all::rabinkarp::FinderRev::new(&nx).rfind(hs, xs))
                }
            })
        }
        #[cfg(feature = "alloc")]
        "sofind" => {
            let x = c.bytes("x");
            let h = c.bytes("h");
            let hs = ctx.hay.place(&h, c.num("a"), flush_of(c.num("fl")));
            record(hs, &[], || match all::shiftor::Finder::new(&x) {
                None => "Unsupported".to_string(),
                Some(f) => opt(f.find(hs)),
            })
        }
        "ppfind" | "ppprefilter" => {
            let x = c.bytes("x");
            let h = c.bytes("h");
            let fx = if c.str("fx").is_empty() { x.clone() } else { c.bytes("fx") };
            let low = if c.num("low") == 1 { crate::arena::LowPage::new() } else { None };
            if c.num("low") == 1 && low.is_none() {
                return ("SkipLowMapUnavailable".to_string(), "-".to_string());
            }
            let hs = match low.as_ref() {
                Some(lp) => lp.place(&h),
                None => ctx.hay.place(&h, c.num("a"), flush_of(c.num("fl"))),
            };
            let fxv;
            let xs: &[u8] = if fx.len() + 2 * crate::arena::PAGE <= ctx.needle.capacity() {
                ctx.needle.place(&fx, c.num("an"), flush_of(c.num("fln")))
            } else {
                fxv = fx.clone();
                &fxv
            };
            let (i1, i2) = (c.num("i1") as u8, c.num("i2") as u8);
            let isa = c.str("isa").to_string();
            let find = c.op == "ppfind";
            record(hs, xs, || pp_op(&isa, &x, i1, i2, hs, xs, find))
        }
        "pfprefilter" => {
            let x = c.bytes("x");
            let h = c.bytes("h");
            let hs = ctx.hay.place(&h, c.num("a"), flush_of(c.num("fl")));
            let (i1, i2) = (c.num("i1") as u8, c.num("i2") as u8);
            record(hs, &[], || match all::packedpair::Pair::with_indices(&x, i1, i2) {
                None => "NoPair".to_string(),
                Some(p) => match all::packedpair::Finder::with_pair(&x, p) {
                    None => "Unavailable".to_string(),
                    Some(f) => opt(f.find_prefilter(hs)),
                },
            })
        }
        // ---- Rabin-Karp constructors: the needle hash and the factor 2^(n-1), as Debug prints them
        "rknew" | "rkrnew" => {
            let x = c.bytes("x");
            let fwd = c.op == "rknew";
            record(&[], &[], || {
                if fwd {
                    format!("{:?}", all::rabinkarp::Finder::new(&x))
                } else {
                    format!("{:?}", all::rabinkarp::FinderRev::new(&x))
                }
            })
        }
        // ---- Two-Way building block
        "twnew" | "twrnew" => {
            let x = c.bytes("x");
            let xs = ctx.needle.place(&x, c.num("an"), flush_of(c.num("fln")));
            let fwd = c.op == "twnew";
            record(&[], xs, || {
                if fwd {
                    format!("{:?}", all::twoway::Finder::new(xs))
                } else {
                    format!("{:?}", all::twoway::FinderRev::new(xs))
                }
            })
        }
        "twfind" | "twrfind" => {
            let x = c.bytes("x");
            let h = c.bytes("h");
            let fx = if c.str("fx").is_empty() { x.clone() } else { c.bytes("fx") };
            let hs = ctx.hay.place(&h, c.num("a"), flush_of(c.num("fl")));
            let xs = ctx.needle.place(&x, c.num("an"), flush_of(c.num("fln")));
            let fwd = c.op == "twfind";
            let foreign = !c.str("fx").is_empty();
            record(hs, xs, || {
                if fwd {
                    let f = all::twoway::Finder::new(xs);
                    opt(if foreign { f.find(hs, &fx) } else { f.find(hs, xs) })
                } else {
                    let f = all::twoway::FinderRev::new(xs);
                    opt(if foreign { f.rfind(hs, &fx) } else { f.rfind(hs, xs) })
                }
            })
        }
        // ---- C14: PrefilterState transitions from an arbitrary state
        #[cfg(memchr_verif)]
        "prestate" => {
            let skips = c.num("skips") as u32;
            let skipped = c.num("skipped") as u32;
            let ops: Vec<Option<usize>> = c
                .str("ops")
                .split(',')
                .filter(|s| !s.is_empty())
                .map(|s| if s == "E" { None } else { Some(s[1..].parse::<usize>().unwrap()) })
                .collect();
            let r = catch_unwind(AssertUnwindSafe(|| {
                let (outs, (a, b)) = memchr::memmem::verif_prefilter_state_sim(skips, skipped, &ops);
                let o: String = outs.iter().map(|&x| if x { 't' } else { 'f' }).collect();
                format!("{}|{},{}", o, a, b)
            }));
            (r.unwrap_or_else(|_| "Panic".to_string()), "-".to_string())
        }
        // ---- C16: histories over finders and iterators (reuse, clone, as_ref, into_owned)
        #[cfg(feature = "alloc")]
        "hist" => {
            let r = catch_unwind(AssertUnwindSafe(|| hist_op(c)));
            (r.unwrap_or_else(|_| "Panic".to_string()), "-".to_string())
        }
        // ---- C17: allocation probe
        "alloc" => {
            let r = catch_unwind(AssertUnwindSafe(|| alloc_op(ctx, c)));
            (r.unwrap_or_else(|_| "Panic".to_string()), "-".to_string())
        }
        // ---- memmem
        "mm" => {
            let x = c.bytes("x");
            let h = c.bytes("h");
            let hs = ctx.hay.place(&h, c.num("a"), flush_of(c.num("fl")));
            let f = c.str("f").to_string();
            let cfg = c.str("cfg").to_string();
            let rk = ranker(c.str("rank"));
            if !c.str("al").is_empty() {
                // the needle is a sub-slice of the haystack itself (results only, see iseq)
                let off = c.num("al");
                if off + x.len() > hs.len() || hs[off..off + x.len()] != x[..] {
                    return ("BadCase".to_string(), "-".to_string());
                }
                let xs = &hs[off..off + x.len()];
                let r = catch_unwind(AssertUnwindSafe(|| match f.as_str() {
                    "top" => opt(memchr::memmem::find(hs, xs)),
                    "rtop" => opt(memchr::memmem::rfind(hs, xs)),
                    "find" => opt(build_finder(&cfg, rk, xs).find(hs)),
                    "rfind" => opt(memchr::memmem::FinderRev::new(xs).rfind(hs)),
                    _ => "BadCase".to_string(),
                }));
                return (r.unwrap_or("Panic".to_string()), "?".to_string());
            }
            let xs = ctx.needle.place(&x, c.num("an"), flush_of(c.num("fln")));
            record(hs, xs, || match f.as_str() {
                "top" => opt(memchr::memmem::find(hs, xs)),
                "rtop" => opt(memchr::memmem::rfind(hs, xs)),
                "find" => opt(build_finder(&cfg, rk, xs).find(hs)),
                "rfind" => opt(memchr::memmem::FinderRev::new(xs).rfind(hs)),
                _ => "BadCase".to_string(),
            })
        }
        "mmiter" => {
            let x = c.bytes("x");
            let h = c.bytes("h");
            let hs = ctx.hay.place(&h, c.num("a"), flush_of(c.num("fl")));
            let xs = ctx.needle.place(&x, c.num("an"), flush_of(c.num("fln")));
            let cfg = c.str("cfg").to_string();
            let rk = ranker(c.str("rank"));
            let k = c.num("k");
            let rev = c.str("dir") == "r";
            // with own=<j> the needle is copied to the heap by into_owned(): its loads are not attributable to the
            // registered needle slice, so such cases are compared by results only (trace "?")
            let plain = !c.str("own").is_empty();
            let body = || {
                let mut outs: Vec<String> = Vec::new();
                // own=<j>: after j calls the iterator is converted with into_owned() (or cloned, in builds without
                // alloc) and the traversal continues on the converted iterator
                let own = if c.str("own").is_empty() { usize::MAX } else { c.num("own") };
                if rev {
                    let f = memchr::memmem::FinderRev::new(xs);
                    let mut it = f.rfind_iter(hs);
                    for j in 0..k {
                        if j == own {
                            #[cfg(feature = "alloc")]
                            {
                                let mut o = it.into_owned();
                                for _ in j..k {
                                    outs.push(opt(o.next()));
                                }
                                break;
                            }
                            #[cfg(not(feature = "alloc"))]
                            {
                                it = it.clone();
                            }
                        }
                        outs.push(opt(it.next()));
                    }
                } else {
                    let f = build_finder(&cfg, rk, xs);
                    let mut it = f.find_iter(hs);
                    for j in 0..k {
                        if j == own {
                            #[cfg(feature = "alloc")]
                            {
                                let mut o = it.into_owned();
                                for _ in j..k {
                                    let (lo, hi) = o.size_hint();
                                    let hi = hi.map(|x| x.to_string()).unwrap_or("inf".to_string());
                                    outs.push(format!("{}-{}:{}", lo, hi, opt(o.next())));
                                }
                                break;
                            }
                            #[cfg(not(feature = "alloc"))]
                            {
                                it = it.clone();
                            }
                        }
                        let (lo, hi) = it.size_hint();
                        let hi = hi.map(|x| x.to_string()).unwrap_or("inf".to_string());
                        outs.push(format!("{}-{}:{}", lo, hi, opt(it.next())));
                    }
                }
                outs.join(";")
            };
            if plain {
                let r = catch_unwind(AssertUnwindSafe(body));
                (r.unwrap_or_else(|_| "Panic".to_string()), "?".to_string())
            } else {
                record(hs, xs, body)
            }
        }
        _ => {
            let _ = opt(None);
            ("UnknownOp".to_string(), "-".to_string())
        }
    }
}

macro_rules! arity {
    ($m:path, $op:expr, $ns:expr, $hs:expr, $new:ident, $unwrap:expr) => {{
        use $m as be;
        match ($op, $ns.len()) {
            ("find", 1) => opt($unwrap(be::One::$new($ns[0])).find($hs)),
            ("find", 2) => opt($unwrap(be::Two::$new($ns[0], $ns[1])).find($hs)),
            ("find", 3) => opt($unwrap(be::Three::$new($ns[0], $ns[1], $ns[2])).find($hs)),
            ("rfind", 1) => opt($unwrap(be::One::$new($ns[0])).rfind($hs)),
            ("rfind", 2) => opt($unwrap(be::Two::$new($ns[0], $ns[1])).rfind($hs)),
            ("rfind", 3) => opt($unwrap(be::Three::$new($ns[0], $ns[1], $ns[2])).rfind($hs)),
            ("count", 1) => $unwrap(be::One::$new($ns[0])).count($hs).to_string(),
            _ => "BadCase".to_string(),
        }
    }};
}

fn ident<T>(x: T) -> T {
    x
}
fn unwrap_avail<T>(x: Option<T>) -> T {
    x.expect("backend not available")
}

macro_rules! arity_raw {
    ($m:path, $op:expr, $ns:expr, $base:expr, $so:expr, $eo:expr, $new:ident, $unwrap:expr) => {{
        use $m as be;
        let (s, e) = unsafe { ($base.add($so), $base.add($eo)) };
        let idx = |p: Option<*const u8>| opt(p.map(|p| p as usize - $base as usize));
        unsafe {
            match ($op, $ns.len()) {
                ("find", 1) => idx($unwrap(be::One::$new($ns[0])).find_raw(s, e)),
                ("find", 2) => idx($unwrap(be::Two::$new($ns[0], $ns[1])).find_raw(s, e)),
                ("find", 3) => idx($unwrap(be::Three::$new($ns[0], $ns[1], $ns[2])).find_raw(s, e)),
                ("rfind", 1) => idx($unwrap(be::One::$new($ns[0])).rfind_raw(s, e)),
                ("rfind", 2) => idx($unwrap(be::Two::$new($ns[0], $ns[1])).rfind_raw(s, e)),
                ("rfind", 3) => idx($unwrap(be::Three::$new($ns[0], $ns[1], $ns[2])).rfind_raw(s, e)),
                ("count", 1) => $unwrap(be::One::$new($ns[0])).count_raw(s, e).to_string(),
                _ => "BadCase".to_string(),
            }
        }
    }};
}

pub fn memchr_raw_op(op: &str, be: &str, ns: &[u8], base: *const u8, so: usize, eo: usize) -> String {
    match be {
        "swar" => arity_raw!(memchr::arch::all::memchr, op, ns, base, so, eo, new, ident),
        #[cfg(all(target_arch = "x86_64", not(any(memchr_emu = "neon", memchr_emu = "simd128"))))]
        "sse2" => arity_raw!(memchr::arch::x86_64::sse2::memchr, op, ns, base, so, eo, new, unwrap_avail),
        #[cfg(all(target_arch = "x86_64", not(any(memchr_emu = "neon", memchr_emu = "simd128"))))]
        "avx2" => arity_raw!(memchr::arch::x86_64::avx2::memchr, op, ns, base, so, eo, new, unwrap_avail),
        #[cfg(memchr_emu = "neon")]
        "neon" => arity_raw!(memchr::arch::aarch64::neon::memchr, op, ns, base, so, eo, new, unwrap_avail),
        #[cfg(memchr_emu = "simd128")]
        "simd128" => arity_raw!(memchr::arch::wasm32::simd128::memchr, op, ns, base, so, eo, new, unwrap_avail),
        _ => "BadBackend".to_string(),
    }
}

macro_rules! pp_pair_isa {
    ($m:path, $x:expr, $i1:expr, $i2:expr) => {{
        use $m as pp;
        if $i1 == 255 && $i2 == 255 {
            // Finder::new: the pair chosen by Pair::new (default ranker)
            return match pp::Finder::new($x) {
                None => "NoPair".to_string(),
                Some(f) => format!("Some({},{})", f.pair().index1(), f.pair().index2()),
            };
        }
        match memchr::arch::all::packedpair::Pair::with_indices($x, $i1, $i2) {
            None => "NoPair".to_string(),
            Some(p) => match pp::Finder::with_pair($x, p) {
                None => "Unavailable".to_string(),
                Some(f) => format!("Some({},{})", f.pair().index1(), f.pair().index2()),
            },
        }
    }};
}

/// `Finder::with_pair(..).pair()` of every packed-pair finder (C19: finders report the pair they were given)
pub fn pp_pair_op(isa: &str, x: &[u8], i1: u8, i2: u8) -> String {
    match isa {
        "portable" => pp_pair_isa!(memchr::arch::all::packedpair, x, i1, i2),
        #[cfg(all(target_arch = "x86_64", not(any(memchr_emu = "neon", memchr_emu = "simd128"))))]
        "sse2" => pp_pair_isa!(memchr::arch::x86_64::sse2::packedpair, x, i1, i2),
        #[cfg(all(target_arch = "x86_64", not(any(memchr_emu = "neon", memchr_emu = "simd128"))))]
        "avx2" => pp_pair_isa!(memchr::arch::x86_64::avx2::packedpair, x, i1, i2),
        #[cfg(memchr_emu = "neon")]
        "neon" => pp_pair_isa!(memchr::arch::aarch64::neon::packedpair, x, i1, i2),
        #[cfg(memchr_emu = "simd128")]
        "simd128" => pp_pair_isa!(memchr::arch::wasm32::simd128::packedpair, x, i1, i2),
        _ => "BadIsa".to_string(),
    }
}

pub fn memchr_op(op: &str, be: &str, ns: &[u8], hs: &[u8]) -> String {
    match be {
        "swar" => arity!(memchr::arch::all::memchr, op, ns, hs, new, ident),
        #[cfg(all(target_arch = "x86_64", not(any(memchr_emu = "neon", memchr_emu = "simd128"))))]
        "sse2" => arity!(memchr::arch::x86_64::sse2::memchr, op, ns, hs, new, unwrap_avail),
        #[cfg(all(target_arch = "x86_64", not(any(memchr_emu = "neon", memchr_emu = "simd128"))))]
        "avx2" => arity!(memchr::arch::x86_64::avx2::memchr, op, ns, hs, new, unwrap_avail),
        #[cfg(memchr_emu = "neon")]
        "neon" => arity!(memchr::arch::aarch64::neon::memchr, op, ns, hs, new, unwrap_avail),
        #[cfg(memchr_emu = "simd128")]
        "simd128" => arity!(memchr::arch::wasm32::simd128::memchr, op, ns, hs, new, unwrap_avail),
        "top" => match (op, ns.len()) {
            ("find", 1) => opt(memchr::memchr(ns[0], hs)),
            ("find", 2) => opt(memchr::memchr2(ns[0], ns[1], hs)),
            ("find", 3) => opt(memchr::memchr3(ns[0], ns[1], ns[2], hs)),
            ("rfind", 1) => opt(memchr::memrchr(ns[0], hs)),
            ("rfind", 2) => opt(memchr::memrchr2(ns[0], ns[1], hs)),
            ("rfind", 3) => opt(memchr::memrchr3(ns[0], ns[1], ns[2], hs)),
            ("count", 1) => memchr::memchr_iter(ns[0], hs).count().to_string(),
            _ => "BadCase".to_string(),
        },
        _ => "BadBackend".to_string(),
    }
}

fn drive<I: DoubleEndedIterator<Item = usize> + Clone>(mut it: I, ops: &str, can_count: bool) -> String {
    let mut outs: Vec<String> = Vec::new();
    for ch in ops.chars() {
        match ch {
            'N' => outs.push(opt(it.next())),
            'B' => outs.push(opt(it.next_back())),
            'S' => {
                let (lo, hi) = it.size_hint();
                outs.push(format!("{}-{}", lo, hi.map(|x| x.to_string()).unwrap_or("inf".to_string())));
            }
            'C' => {
                if can_count {
                    outs.push(it.clone().count().to_string())
                } else {
                    outs.push("BadCase".to_string())
                }
            }
            _ => outs.push("BadOp".to_string()),
        }
    }
    if outs.is_empty() {
        "-".to_string()
    } else {
        outs.join(";")
    }
}

macro_rules! iter_arity {
    ($m:path, $ns:expr, $hs:expr, $ops:expr, $new:ident, $unwrap:expr) => {{
        use $m as be;
        match $ns.len() {
            1 => {
                let s = $unwrap(be::One::$new($ns[0]));
                drive(s.iter($hs), $ops, true)
            }
            2 => {
                let s = $unwrap(be::Two::$new($ns[0], $ns[1]));
                drive(s.iter($hs), $ops, false)
            }
            3 => {
                let s = $unwrap(be::Three::$new($ns[0], $ns[1], $ns[2]));
                drive(s.iter($hs), $ops, false)
            }
            _ => "BadCase".to_string(),
        }
    }};
}

pub fn iter_op(be: &str, ns: &[u8], hs: &[u8], ops: &str) -> String {
    match be {
        "swar" => iter_arity!(memchr::arch::all::memchr, ns, hs, ops, new, ident),
        #[cfg(all(target_arch = "x86_64", not(any(memchr_emu = "neon", memchr_emu = "simd128"))))]
        "sse2" => iter_arity!(memchr::arch::x86_64::sse2::memchr, ns, hs, ops, new, unwrap_avail),
        #[cfg(all(target_arch = "x86_64", not(any(memchr_emu = "neon", memchr_emu = "simd128"))))]
        "avx2" => iter_arity!(memchr::arch::x86_64::avx2::memchr, ns, hs, ops, new, unwrap_avail),
        #[cfg(memchr_emu = "neon")]
        "neon" => iter_arity!(memchr::arch::aarch64::neon::memchr, ns, hs, ops, new, unwrap_avail),
        #[cfg(memchr_emu = "simd128")]
        "simd128" => iter_arity!(memchr::arch::wasm32::simd128::memchr, ns, hs, ops, new, unwrap_avail),
        "top" => match ns.len() {
            1 => drive(memchr::memchr_iter(ns[0], hs), ops, true),
            2 => drive(memchr::memchr2_iter(ns[0], ns[1], hs), ops, false),
            3 => drive(memchr::memchr3_iter(ns[0], ns[1], ns[2], hs), ops, false),
            _ => "BadCase".to_string(),
        },
        _ => "BadBackend".to_string(),
    }
}

macro_rules! pp_isa {
    ($m:path, $x:expr, $i1:expr, $i2:expr, $hs:expr, $xs:expr, $find:expr) => {{
        use $m as pp;
        match memchr::arch::all::packedpair::Pair::with_indices($x, $i1, $i2) {
            None => "NoPair".to_string(),
            Some(p) => match pp::Finder::with_pair($x, p) {
                None => "Unavailable".to_string(),
                Some(f) => {
                    let min = f.min_haystack_len();
                    let r = if $find { f.find($hs, $xs) } else { f.find_prefilter($hs) };
                    format!("min={}:{}", min, opt(r))
                }
            },
        }
    }};
}

pub fn pp_op(isa: &str, x: &[u8], i1: u8, i2: u8, hs: &[u8], xs: &[u8], find: bool) -> String {
    match isa {
        #[cfg(all(target_arch = "x86_64", not(any(memchr_emu = "neon", memchr_emu = "simd128"))))]
        "sse2" => pp_isa!(memchr::arch::x86_64::sse2::packedpair, x, i1, i2, hs, xs, find),
        #[cfg(all(target_arch = "x86_64", not(any(memchr_emu = "neon", memchr_emu = "simd128"))))]
        "avx2" => pp_isa!(memchr::arch::x86_64::avx2::packedpair, x, i1, i2, hs, xs, find),
        #[cfg(memchr_emu = "neon")]
        "neon" => pp_isa!(memchr::arch::aarch64::neon::packedpair, x, i1, i2, hs, xs, find),
        #[cfg(memchr_emu = "simd128")]
        "simd128" => pp_isa!(memchr::arch::wasm32::simd128::packedpair, x, i1, i2, hs, xs, find),
        _ => "BadIsa".to_string(),
    }
}

pub fn build_finder<'n>(cfg: &str, rk: Option<Ranker>, x: &'n [u8]) -> memchr::memmem::Finder<'n> {
    use memchr::memmem::{FinderBuilder, Prefilter};
    let mut b = FinderBuilder::new();
    if cfg == "none" {
        b.prefilter(Prefilter::None);
    } else if cfg == "auto" {
        b.prefilter(Prefilter::Auto);
    }
    match rk {
        None => b.build_forward(x),
        Some(r) => b.build_forward_with_ranker(r, x),
    }
}

/// A history of operations on one Finder / FinderRev and their iterators.
/// The needle lives in a leaked buffer; once every live object is owned
/// (after `O`/`W`/`V`) the buffer is overwritten, so an implementation that
/// kept borrowing it would change its answers.
#[cfg(feature = "alloc")]
pub fn hist_op(c: &Case) -> String {
    use memchr::memmem::{FindIter, FindRevIter, Finder, FinderRev};
    let x = c.bytes("x");
    let hs: Vec<Vec<u8>> = c.str("hs").split(',').map(|s| crate::unhex(s)).collect();
    let hs: &'static Vec<Vec<u8>> = Box::leak(Box::new(hs));
    let buf: &'static mut [u8] = Box::leak(x.clone().into_boxed_slice());
    let bufptr = buf.as_mut_ptr();
    let buflen = buf.len();
    let needle: &'static [u8] = unsafe { core::slice::from_raw_parts(bufptr, buflen) };
    let rk = ranker(c.str("rank"));
    let mut finder: Finder<'static> = build_finder(c.str("cfg"), rk, needle);
    let mut rfinder: FinderRev<'static> = FinderRev::new(needle);
    let mut finder_owned = false;
    let mut fit: Option<(FindIter<'static, 'static>, bool)> = None; // (iterator, owned)
    let mut rit: Option<(FindRevIter<'static, 'static>, bool)> = None;
    let mut outs: Vec<String> = Vec::new();
    let arg = |t: &str| -> usize { t[1..].parse::<usize>().unwrap() };
    // one scratch buffer that is refilled with hs[i] before the searches P<i> / Q<i>: the same
    // address holds different haystacks during the life of one finder (a reused read buffer)
    let mut scratch: Vec<u8> = vec![0u8; hs.iter().map(|h| h.len()).max().unwrap_or(0)];
    for t in c.str("ops").split(',').filter(|s| !s.is_empty()) {
        match t.as_bytes()[0] {
            b'P' | b'Q' => {
                let h = &hs[arg(t)];
                scratch[..h.len()].copy_from_slice(h);
                if t.as_bytes()[0] == b'P' {
                    outs.push(opt(finder.find(&scratch[..h.len()])));
                } else {
                    outs.push(opt(rfinder.rfind(&scratch[..h.len()])));
                }
            }
            b'F' => outs.push(opt(finder.find(&hs[arg(t)]))),
            b'A' => outs.push(opt(finder.as_ref().find(&hs[arg(t)]))),
            b'R' => outs.push(opt(rfinder.rfind(&hs[arg(t)]))),
            b'C' => {
                finder = finder.clone();
                rfinder = rfinder.clone();
            }
            b'O' => {
                finder = finder.into_owned();
                rfinder = rfinder.into_owned();
                finder_owned = true;
            }
            b'D' => outs.push((finder.needle() == &x[..] && rfinder.needle() == &x[..]).to_string()),
            b'I' => {
                // the iterator borrows the finder's needle: make it independent of `finder` being replaced
                let it = finder.find_iter(&hs[arg(t)]);
                let it: FindIter<'static, 'static> = if finder_owned {
                    it.into_owned()
                } else {
                    unsafe { core::mem::transmute(it) }
                };
                fit = Some((it, finder_owned));
            }
            b'J' => {
                let it = rfinder.rfind_iter(&hs[arg(t)]);
                let it: FindRevIter<'static, 'static> = if finder_owned {
                    it.into_owned()
                } else {
                    unsafe { core::mem::transmute(it) }
                };
                rit = Some((it, finder_owned));
            }
            b'N' => match fit.as_mut() {
                None => outs.push("NoIter".to_string()),
                Some((it, _)) => outs.push(opt(it.next())),
            },
            b'S' => match fit.as_ref() {
                None => outs.push("NoIter".to_string()),
                Some((it, _)) => {
                    let (lo, hi) = it.size_hint();
                    outs.push(format!("{}-{}", lo, hi.map(|v| v.to_string()).unwrap_or("inf".to_string())));
                }
            },
            b'K' => {
                if let Some((it, o)) = fit.take() {
                    fit = Some((it.clone(), o));
                }
            }
            b'W' => {
                if let Some((it, _)) = fit.take() {
                    fit = Some((it.into_owned(), true));
                }
            }
            b'M' => match rit.as_mut() {
                None => outs.push("NoIter".to_string()),
                Some((it, _)) => outs.push(opt(it.next())),
            },
            b'L' => {
                if let Some((it, o)) = rit.take() {
                    rit = Some((it.clone(), o));
                }
            }
            b'V' => {
                if let Some((it, _)) = rit.take() {
                    rit = Some((it.into_owned(), true));
                }
            }
            _ => outs.push("BadOp".to_string()),
        }
        // the original needle buffer "goes away" as soon as nothing may borrow it any more
        let all_owned = finder_owned
            && fit.as_ref().map(|(_, o)| *o).unwrap_or(true)
            && rit.as_ref().map(|(_, o)| *o).unwrap_or(true);
        if all_owned {
            unsafe { core::ptr::write_bytes(bufptr, 0xEE, buflen) };
        }
    }
    outs.join(";")
}

/// `alloc what=<kind> x=.. h=..`: prints `<allocations>:<result>`.
pub fn alloc_op(ctx: &mut Ctx, c: &Case) -> String {
    use crate::probe::count;
    use memchr::memmem;
    let x = c.bytes("x");
    let h = c.bytes("h");
    let hs = ctx.hay.place(&h, c.num("a"), Flush::None);
    let xs = ctx.needle.place(&x, 0, Flush::None);
    let rk = ranker(c.str("rank"));
    let cfg = c.str("cfg").to_string();
    let b1 = x.get(0).copied().unwrap_or(0);
    let b2 = x.get(1).copied().unwrap_or(1);
    let b3 = x.get(2).copied().unwrap_or(2);
    // warm up lazily initialised state (dispatch pointers, thread locals) outside the measured region
    let _ = memchr::memchr(b1, hs);
    let _ = memchr::memrchr(b1, hs);
    let _ = memchr::memchr2(b1, b2, hs);
    let _ = memchr::memrchr2(b1, b2, hs);
    let _ = memchr::memchr3(b1, b2, b3, hs);
    let _ = memchr::memrchr3(b1, b2, b3, hs);
    let _ = memchr::memchr_iter(b1, hs).count();
    let fmt = |n: usize, r: usize| format!("{}:{}", n, r);
    let enc = |o: Option<usize>| o.map(|v| v + 1).unwrap_or(0);
    match c.str("what") {
        "memchr" => { let (n, r) = count(|| enc(memchr::memchr(b1, hs))); fmt(n, r) }
        "memrchr" => { let (n, r) = count(|| enc(memchr::memrchr(b1, hs))); fmt(n, r) }
        "memchr2" => { let (n, r) = count(|| enc(memchr::memchr2(b1, b2, hs))); fmt(n, r) }
        "memrchr2" => { let (n, r) = count(|| enc(memchr::memrchr2(b1, b2, hs))); fmt(n, r) }
        "memchr3" => { let (n, r) = count(|| enc(memchr::memchr3(b1, b2, b3, hs))); fmt(n, r) }
        "memrchr3" => { let (n, r) = count(|| enc(memchr::memrchr3(b1, b2, b3, hs))); fmt(n, r) }
        "iter" => {
            let (n, r) = count(|| {
                let mut it = memchr::memchr2_iter(b1, b2, hs);
                let mut acc = 0usize;
                while let Some(i) = it.next() { acc = acc.wrapping_add(i); if let Some(j) = it.next_back() { acc ^= j; } }
                acc.wrapping_add(memchr::memchr_iter(b1, hs).count())
            });
            fmt(n, r)
        }
        "mm_find" => { let (n, r) = count(|| enc(memmem::find(hs, xs))); fmt(n, r) }
        "mm_rfind" => { let (n, r) = count(|| enc(memmem::rfind(hs, xs))); fmt(n, r) }
        "mm_find_iter" => { let (n, r) = count(|| memmem::find_iter(hs, xs).fold(0usize, |a, i| a.wrapping_add(i + 1))); fmt(n, r) }
        "mm_rfind_iter" => { let (n, r) = count(|| memmem::rfind_iter(hs, xs).fold(0usize, |a, i| a.wrapping_add(i + 1))); fmt(n, r) }
        "finder_new_find" => {
            // construction from a borrowed needle + search, both measured
            let (n, r) = count(|| {
                let f = build_finder(&cfg, rk, xs);
                let r1 = enc(f.find(hs));
                let r2 = f.find_iter(hs).count();
                r1.wrapping_mul(31).wrapping_add(r2)
            });
            fmt(n, r)
        }
        "rfinder_new_rfind" => {
            let (n, r) = count(|| {
                let f = memmem::FinderRev::new(xs);
                let r1 = enc(f.rfind(hs));
                let r2 = f.rfind_iter(hs).count();
                r1.wrapping_mul(31).wrapping_add(r2)
            });
            fmt(n, r)
        }
        #[cfg(feature = "alloc")]
        "into_owned_borrowed" => {
            let f = memmem::Finder::new(xs);
            let (n, f2) = count(|| f.into_owned());
            fmt(n, enc(f2.find(hs)))
        }
        #[cfg(feature = "alloc")]
        "owned_then_search" => {
            // an owned finder searches and iterates without further allocation
            let f = memmem::Finder::new(xs).into_owned();
            let fr = memmem::FinderRev::new(xs).into_owned();
            let (n, r) = count(|| enc(f.find(hs)).wrapping_add(f.find_iter(hs).count()).wrapping_add(enc(fr.rfind(hs))));
            fmt(n, r)
        }
        #[cfg(feature = "alloc")]
        "shiftor_new" => {
            let (n, f) = count(|| all::shiftor::Finder::new(xs));
            fmt(n, f.map(|f| enc(f.find(hs))).unwrap_or(usize::MAX))
        }
        #[cfg(feature = "alloc")]
        "shiftor_find" => match all::shiftor::Finder::new(xs) {
            None => "0:unsupported".to_string(),
            Some(f) => { let (n, r) = count(|| enc(f.find(hs))); fmt(n, r) }
        },
        "blocks" => {
            // Two-Way, Rabin-Karp, packed pair: construction and search
            let (n, r) = count(|| {
                let tw = all::twoway::Finder::new(xs);
                let twr = all::twoway::FinderRev::new(xs);
                let rk = all::rabinkarp::Finder::new(xs);
                let rkr = all::rabinkarp::FinderRev::new(xs);
                let mut acc = enc(tw.find(hs, xs)) ^ enc(twr.rfind(hs, xs)) ^ enc(rk.find(hs, xs)) ^ enc(rkr.rfind(hs, xs));
                if let Some(p) = all::packedpair::Finder::new(xs) { acc ^= enc(p.find_prefilter(hs)); }
                acc
            });
            fmt(n, r)
        }
        _ => "BadCase".to_string(),
    }
}
