//! Correspondence harness: runs the real memchr crate (built from /repo's
//! working tree) on the cases of a case file and prints one canonical line per
//! case: `<index>\t<result>\t<trace>`.
mod arena;
mod ops;
mod probe;

#[global_allocator]
static GLOBAL: probe::Counting = probe::Counting;

use std::collections::HashMap;
use std::io::{BufRead, Write};

pub struct Case<'a> {
    pub op: &'a str,
    pub kv: HashMap<&'a str, &'a str>,
}

impl<'a> Case<'a> {
    pub fn parse(line: &'a str) -> Case<'a> {
        let mut it = line.split_ascii_whitespace();
        let op = it.next().unwrap_or("");
        let mut kv = HashMap::new();
        for tok in it {
            if let Some(i) = tok.find('=') {
                kv.insert(&tok[..i], &tok[i + 1..]);
            }
        }
        Case { op, kv }
    }
    pub fn bytes(&self, k: &str) -> Vec<u8> {
        let s = self.kv.get(k).copied().unwrap_or("");
        unhex(s)
    }
    pub fn num(&self, k: &str) -> usize {
        self.kv.get(k).map(|s| s.parse::<usize>().expect("number")).unwrap_or(0)
    }
    pub fn num_or(&self, k: &str, d: usize) -> usize {
        self.kv.get(k).map(|s| s.parse::<usize>().expect("number")).unwrap_or(d)
    }
    pub fn str(&self, k: &str) -> &str {
        self.kv.get(k).copied().unwrap_or("")
    }
}

pub fn unhex(s: &str) -> Vec<u8> {
    let b = s.as_bytes();
    assert!(b.len() % 2 == 0, "odd hex");
    let d = |c: u8| -> u8 {
        match c {
            b'0'..=b'9' => c - b'0',
            b'a'..=b'f' => c - b'a' + 10,
            b'A'..=b'F' => c - b'A' + 10,
            _ => panic!("bad hex"),
        }
    };
    (0..b.len() / 2).map(|i| d(b[2 * i]) * 16 + d(b[2 * i + 1])).collect()
}

pub fn opt(o: Option<usize>) -> String {
    match o {
        None => "None".to_string(),
        Some(i) => format!("Some({})", i),
    }
}

fn main() {
    let args: Vec<String> = std::env::args().collect();
    if args.len() < 2 {
        eprintln!("usage: mv-harness <casefile> [start-index]");
        std::process::exit(2);
    }
    // panics are results, not noise
    std::panic::set_hook(Box::new(|_| {}));
    let f = std::fs::File::open(&args[1]).expect("case file");
    let skip: usize = args.get(2).map(|s| s.parse().unwrap()).unwrap_or(0);
    let out = std::io::stdout();
    let mut out = out.lock();
    let mut ctx = ops::Ctx::new();
    for (i, line) in std::io::BufReader::new(f).lines().enumerate() {
        let line = line.unwrap();
        if i < skip {
            continue;
        }
        let line = line.trim();
        if line.is_empty() || line.starts_with('#') {
            writeln!(out, "{}\t#\t-", i).unwrap();
            continue;
        }
        let case = Case::parse(line);
        let (res, trace) = ops::run(&mut ctx, &case);
        writeln!(out, "{}\t{}\t{}", i, res, trace).unwrap();
        out.flush().unwrap();
    }
}
