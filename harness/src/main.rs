//! Correspondence harness: runs the real memchr crate (built from /repo's
//! working tree) on the cases of a case file and prints one canonical line per
//! case: `<index>\t<result>\t<trace>`.
mod arena;
mod ops;
mod probe;

#[global_allocator]
static GLOBAL: probe::Counting = probe::Counting;

use std::collections::HashMap;
use std::io::{BufRead, Write};

pub struct Case<'a> {
    pub op: &'a str,
    pub kv: HashMap<&'a str, &'a str>,
}

impl<'a> Case<'a> {
    pub fn parse(line: &'a str) -> Case<'a> {
        let mut it = line.split_ascii_whitespace();
        let op = it.next().unwrap_or("");
        let mut kv = HashMap::new();
        for tok in it {
            if let Some(i) = tok.find('=') {
                kv.insert(&tok[..i], &tok[i + 1..]);
            }
        }
        Case { op, kv }
    }
    pub fn bytes(&self, k: &str) -> Vec<u8> {
        let s = self.kv.get(k).copied().unwrap_or("");
        unhex(s)
    }
    pub fn num(&self, k: &str) -> usize {
        self.kv.get(k).map(|s| s.parse::<usize>().expect("number")).unwrap_or(0)
    }
    pub fn num_or(&self, k: &str, d: usize) -> usize {
        self.kv.get(k).map(|s| s.parse::<usize>().expect("number")).unwrap_or(d)
    }
    pub fn str(&self, k: &str) -> &str {
        self.kv.get(k).copied().unwrap_or("")
    }
}

pub fn unhex(s: &str) -> Vec<u8> {
    let b = s.as_bytes();
    assert!(b.len() % 2 == 0, "odd hex");
    let d = |c: u8| -> u8 {
        match c {
            b'0'..=b'9' => c - b'0',
            b'a'..=b'f' => c - b'a' + 10,
            b'A'..=b'F' => c - b'A' + 10,
            _ => panic!("bad hex"),
        }
    };
    (0..b.len() / 2).map(|i| d(b[2 * i]) * 16 + d(b[2 * i + 1])).collect()
}

pub fn opt(o: Option<usize>) -> String {
    match o {
        None => "None".to_string(),
        Some(i) => format!("Some({})", i),
    }
}

fn main() {
    let args: Vec<String> = std::env::args().collect();
    if args.len() < 2 {
        eprintln!("usage: mv-harness <casefile> [start-index]");
        std::process::exit(2);
    }
    // panics are results, not noise
    std::panic::set_hook(Box::new(|_| {}));
    if args[1] == "--conc" {
        conc(&args[2], args[3].parse().unwrap());
        return;
    }
    let f = std::fs::File::open(&args[1]).expect("case file");
    let skip: usize = args.get(2).map(|s| s.parse().unwrap()).unwrap_or(0);
    let out = std::io::stdout();
    let mut out = out.lock();
    let mut ctx = ops::Ctx::new();
    for (i, line) in std::io::BufReader::new(f).lines().enumerate() {
        let line = line.unwrap();
        if i < skip {
            continue;
        }
        let line = line.trim();
        if line.is_empty() || line.starts_with('#') {
            writeln!(out, "{}\t#\t-", i).unwrap();
            continue;
        }
        let case = Case::parse(line);
        ctx.reserve(&case);
        let (res, trace) = ops::run(&mut ctx, &case);
        writeln!(out, "{}\t{}\t{}", i, res, trace).unwrap();
        out.flush().unwrap();
    }
}

/// Concurrent mode (C15): the process is fresh, so the dispatch cell still holds
/// `detect`. `n` threads are released by a barrier; thread t runs the cases
/// whose index is congruent to t modulo n. A case file may start with a line
/// `sharedneedle x=<hex>`: then `sfind h=..` / `srfind h=..` search with ONE
/// Finder / FinderRev shared by all threads, and `siter h=.. k=..` iterates a
/// clone of one shared FindIter prototype.
#[cfg(verif_nothreads)]
fn conc(_path: &str, _n: usize) {
    // fallback build for the failing-input search when the finders are no longer Send + Sync
    // (the normal build then fails to compile, which is itself reported)
    eprintln!("concurrent mode is not available in a verif_nothreads build");
    std::process::exit(3);
}

#[cfg(not(verif_nothreads))]
fn conc(path: &str, n: usize) {
    use std::sync::{Arc, Barrier, Mutex};
    let text = std::fs::read_to_string(path).expect("case file");
    let lines: Vec<String> = text.lines().map(|l| l.trim().to_string()).collect();
    let lines = Arc::new(lines);
    let mut needle: Vec<u8> = Vec::new();
    if let Some(first) = lines.get(0) {
        let c = Case::parse(first);
        if c.op == "sharedneedle" {
            needle = c.bytes("x");
        }
    }
    let needle: &'static [u8] = Box::leak(needle.into_boxed_slice());
    let finder = Arc::new(memchr::memmem::Finder::new(needle));
    let rfinder = Arc::new(memchr::memmem::FinderRev::new(needle));
    let results: Arc<Mutex<Vec<Option<(String, String)>>>> = Arc::new(Mutex::new(vec![None; lines.len()]));
    let barrier = Arc::new(Barrier::new(n));
    let mut handles = Vec::new();
    for t in 0..n {
        let lines = lines.clone();
        let results = results.clone();
        let barrier = barrier.clone();
        let finder = finder.clone();
        let rfinder = rfinder.clone();
        handles.push(std::thread::spawn(move || {
            let mut ctx = ops::Ctx::new();
            let mut local: Vec<(usize, (String, String))> = Vec::new();
            barrier.wait();
            for (i, line) in lines.iter().enumerate() {
                if i % n != t {
                    continue;
                }
                if line.is_empty() || line.starts_with('#') || line.starts_with("sharedneedle") {
                    local.push((i, ("#".to_string(), "-".to_string())));
                    continue;
                }
                let case = Case::parse(line);
                let r = match case.op {
                    "sfind" => {
                        let h = case.bytes("h");
                        (opt(finder.find(&h)), "-".to_string())
                    }
                    "srfind" => {
                        let h = case.bytes("h");
                        (opt(rfinder.rfind(&h)), "-".to_string())
                    }
                    "siter" if case.num("own") == 1 => {
                        // a partially consumed iterator is converted with into_owned() and handed to ANOTHER
                        // thread, which drains it (forward, or the reverse iterator with dir=r)
                        let h = case.bytes("h");
                        let k = case.num("k");
                        let mut outs: Vec<String> = Vec::new();
                        #[cfg(feature = "alloc")]
                        {
                            if case.str("dir") == "r" {
                                let mut it = rfinder.rfind_iter(&h);
                                for _ in 0..k / 2 {
                                    outs.push(opt(it.next()));
                                }
                                let mut owned = it.into_owned();
                                let rest: Vec<String> = std::thread::scope(|s| {
                                    s.spawn(move || (k / 2..k).map(|_| opt(owned.next())).collect()).join().unwrap()
                                });
                                outs.extend(rest);
                            } else {
                                let mut it = finder.find_iter(&h);
                                for _ in 0..k / 2 {
                                    outs.push(opt(it.next()));
                                }
                                let mut owned = it.into_owned();
                                let rest: Vec<String> = std::thread::scope(|s| {
                                    s.spawn(move || (k / 2..k).map(|_| opt(owned.next())).collect()).join().unwrap()
                                });
                                outs.extend(rest);
                            }
                        }
                        (outs.join(";"), "-".to_string())
                    }
                    "siter" => {
                        let h = case.bytes("h");
                        let k = case.num("k");
                        let mut it = finder.find_iter(&h);
                        let mut outs: Vec<String> = Vec::new();
                        for j in 0..k {
                            if j == k / 2 {
                                it = it.clone();
                            }
                            outs.push(opt(it.next()));
                        }
                        (outs.join(";"), "-".to_string())
                    }
                    _ => ops::run(&mut ctx, &case),
                };
                local.push((i, r));
            }
            let mut g = results.lock().unwrap();
            for (i, r) in local {
                g[i] = Some(r);
            }
        }));
    }
    for h in handles {
        h.join().unwrap();
    }
    let out = std::io::stdout();
    let mut out = out.lock();
    let g = results.lock().unwrap();
    for (i, r) in g.iter().enumerate() {
        let (a, b) = r.clone().unwrap_or(("MISSING".to_string(), "-".to_string()));
        writeln!(out, "{}\t{}\t{}", i, a, b).unwrap();
    }
}
