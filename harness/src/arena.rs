//! Page-granular placement of byte strings: any alignment, or flush against a
//! PROT_NONE guard page on either side.
use std::os::raw::{c_int, c_long, c_void};

extern "C" {
    fn mmap(addr: *mut c_void, len: usize, prot: c_int, flags: c_int, fd: c_int, off: c_long) -> *mut c_void;
    fn mprotect(addr: *mut c_void, len: usize, prot: c_int) -> c_int;
    fn munmap(addr: *mut c_void, len: usize) -> c_int;
}
const PROT_NONE: c_int = 0;
const PROT_READ: c_int = 1;
const PROT_WRITE: c_int = 2;
const MAP_PRIVATE: c_int = 2;
const MAP_ANONYMOUS: c_int = 0x20;
pub const PAGE: usize = 4096;

pub struct Arena {
    base: *mut u8,
    total: usize,
    /// first usable byte
    lo: *mut u8,
    /// one past the last usable byte
    hi: *mut u8,
}

#[derive(Clone, Copy, Debug, PartialEq, Eq)]
pub enum Flush {
    None,
    Left,
    Right,
}

impl Arena {
    /// An arena with `pages` usable pages between two guard pages.
    pub fn new(pages: usize) -> Arena {
        let total = (pages + 2) * PAGE;
        unsafe {
            let p = mmap(core::ptr::null_mut(), total, PROT_READ | PROT_WRITE, MAP_PRIVATE | MAP_ANONYMOUS, -1, 0);
            assert!(p as isize != -1, "mmap failed");
            let base = p as *mut u8;
            assert_eq!(0, mprotect(base as *mut c_void, PAGE, PROT_NONE));
            assert_eq!(0, mprotect(base.add(total - PAGE) as *mut c_void, PAGE, PROT_NONE));
            Arena { base, total, lo: base.add(PAGE), hi: base.add(total - PAGE) }
        }
    }

    pub fn capacity(&self) -> usize {
        self.hi as usize - self.lo as usize
    }

    /// Copy `bytes` into the arena. `align` is the requested start address
    /// modulo 4096 (ignored for flush placements, which are dictated by the
    /// guard pages). Returns the slice.
    pub fn place<'a>(&'a self, bytes: &[u8], align: usize, flush: Flush) -> &'a [u8] {
        let n = bytes.len();
        assert!(n + 2 * PAGE <= self.capacity(), "arena too small for {} bytes", n);
        unsafe {
            let start = match flush {
                Flush::Left => self.lo,
                Flush::Right => self.hi.sub(n),
                Flush::None => self.lo.add(PAGE + (align % PAGE)),
            };
            // poison the neighbourhood so that stray reads of stale data are unlikely to look plausible
            core::ptr::copy_nonoverlapping(bytes.as_ptr(), start, n);
            core::slice::from_raw_parts(start, n)
        }
    }

    /// fill the whole usable area with a byte
    pub fn fill(&self, b: u8) {
        unsafe { core::ptr::write_bytes(self.lo, b, self.capacity()) }
    }
}

impl Drop for Arena {
    fn drop(&mut self) {
        unsafe {
            munmap(self.base as *mut c_void, self.total);
        }
    }
}

/// One read/write page at a low fixed address (0x10000), with the following page
/// unmapped. A haystack placed here has a numerically small end address, which
/// is what it takes to make `end.sub(n)` wrap for a large `n`.
pub struct LowPage {
    base: *mut u8,
}

const MAP_FIXED_NOREPLACE: c_int = 0x100000;
pub const LOW_ADDR: usize = 0x10000;

impl LowPage {
    pub fn new() -> Option<LowPage> {
        unsafe {
            let p = mmap(LOW_ADDR as *mut c_void, PAGE, PROT_READ | PROT_WRITE,
                         MAP_PRIVATE | MAP_ANONYMOUS | MAP_FIXED_NOREPLACE, -1, 0);
            if p as isize == -1 || p as usize != LOW_ADDR {
                if p as isize != -1 {
                    munmap(p, PAGE);
                }
                return None;
            }
            Some(LowPage { base: p as *mut u8 })
        }
    }
    pub fn place<'a>(&'a self, bytes: &[u8]) -> &'a [u8] {
        assert!(bytes.len() <= PAGE);
        unsafe {
            core::ptr::copy_nonoverlapping(bytes.as_ptr(), self.base, bytes.len());
            core::slice::from_raw_parts(self.base, bytes.len())
        }
    }
}

impl Drop for LowPage {
    fn drop(&mut self) {
        unsafe {
            munmap(self.base as *mut c_void, PAGE);
        }
    }
}
