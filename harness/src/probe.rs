//! Allocation probe (C17): a counting global allocator, armed on the calling
//! thread around exactly one API call whose inputs were built beforehand and
//! whose result is stored in plain locals.
use std::alloc::{GlobalAlloc, Layout, System};
use std::cell::Cell;
use std::sync::atomic::{AtomicUsize, Ordering};

pub struct Counting;

static COUNT: AtomicUsize = AtomicUsize::new(0);
thread_local! {
    static ARMED: Cell<bool> = const { Cell::new(false) };
}

unsafe impl GlobalAlloc for Counting {
    unsafe fn alloc(&self, l: Layout) -> *mut u8 {
        if ARMED.try_with(|a| a.get()).unwrap_or(false) {
            COUNT.fetch_add(1, Ordering::Relaxed);
        }
        System.alloc(l)
    }
    unsafe fn dealloc(&self, p: *mut u8, l: Layout) {
        System.dealloc(p, l)
    }
    unsafe fn realloc(&self, p: *mut u8, l: Layout, n: usize) -> *mut u8 {
        if ARMED.try_with(|a| a.get()).unwrap_or(false) {
            COUNT.fetch_add(1, Ordering::Relaxed);
        }
        System.realloc(p, l, n)
    }
    unsafe fn alloc_zeroed(&self, l: Layout) -> *mut u8 {
        if ARMED.try_with(|a| a.get()).unwrap_or(false) {
            COUNT.fetch_add(1, Ordering::Relaxed);
        }
        System.alloc_zeroed(l)
    }
}

/// number of allocations made by `f` on this thread
pub fn count<T, F: FnOnce() -> T>(f: F) -> (usize, T) {
    let before = COUNT.load(Ordering::Relaxed);
    ARMED.with(|a| a.set(true));
    let r = f();
    ARMED.with(|a| a.set(false));
    (COUNT.load(Ordering::Relaxed) - before, r)
}
