(* Tie between the TRANSLATED source of PrefilterState (Gen/CodePrefilter.v,
   regenerated from src/memmem/searcher.rs on every run) and the hand-written
   model Sub/Prefilter.v, for every state and argument. *)
From Memchr Require Import Base.Res Params Gen.Ops Gen.CodePrefilter Sub.Prefilter.
From Coq Require Import Lia.
Local Open Scope N_scope.

Definition ps_of (s : PrefilterState) : prestate :=
  {| ps_skips := PrefilterState_skips s; ps_skipped := PrefilterState_skipped s |}.

Lemma tmax32 : tmax 32 = u32max. Proof. reflexivity. Qed.

Theorem tie_prestate_new : rmap ps_of rs_PrefilterState_new = Ok prestate_new.
Proof. reflexivity. Qed.

Theorem tie_pre_skips s : rs_PrefilterState_skips s = Ok (pre_skips (ps_of s)).
Proof. reflexivity. Qed.

Theorem tie_pre_update s (n : nat) :
  rmap (fun r => ps_of (snd r)) (rs_PrefilterState_update s (N.of_nat n)) = Ok (pre_update (ps_of s) n).
Proof.
  unfold rs_PrefilterState_update, pre_update, ps_of, sat_add. rewrite tmax32. cbn [PrefilterState_skips PrefilterState_skipped ps_skips ps_skipped].
  destruct (N.leb_spec (N.of_nat n) u32max) as [Hle|Hgt].
  - assert (Hlt : (u32max <? N.of_nat n) = false) by (apply N.ltb_ge; exact Hle).
    rewrite Hlt. reflexivity.
  - assert (Hlt : (u32max <? N.of_nat n) = true) by (apply N.ltb_lt; exact Hgt).
    rewrite Hlt. reflexivity.
Qed.

Theorem tie_pre_is_effective s :
  rmap (fun r => (fst r, ps_of (snd r))) (rs_PrefilterState_is_effective s) = pre_is_effective (ps_of s).
Proof.
  unfold rs_PrefilterState_is_effective, rs_PrefilterState_is_inert, rs_PrefilterState_skips, pre_is_effective, pre_skips, ps_of, sat_mul, sat_sub.
  cbn [rbind PrefilterState_skips PrefilterState_skipped ps_skips ps_skipped].
  change pre_min_skips with 50. change pre_min_skip_bytes with 8. change pre_mul_saturating with true.
  rewrite tmax32.
  destruct (PrefilterState_skips s =? 0); [reflexivity|].
  destruct (PrefilterState_skips s - 1 <? 50); [reflexivity|].
  destruct (N.min (8 * (PrefilterState_skips s - 1)) u32max <=? PrefilterState_skipped s); reflexivity.
Qed.

(* Statements about the translated code itself *)

(* C14: with overflow checks compiled in, no method of PrefilterState panics, from any state *)
Theorem code_prefilter_never_panics s n :
  (exists r, rs_PrefilterState_update s n = Ok r) /\ (exists r, rs_PrefilterState_is_effective s = Ok r).
Proof.
  split.
  - unfold rs_PrefilterState_update. destruct (n <=? tmax 32); eexists; reflexivity.
  - unfold rs_PrefilterState_is_effective, rs_PrefilterState_is_inert, rs_PrefilterState_skips. cbn [rbind].
    destruct (_ =? 0); [eexists; reflexivity|].
    destruct (_ <? 50); [eexists; reflexivity|].
    destruct (_ <=? _); eexists; reflexivity.
Qed.

(* C10/C16: u32 range is preserved (counters never leave [0, u32::MAX]) *)
Theorem code_prefilter_range s n :
  PrefilterState_skips s <= u32max -> PrefilterState_skipped s <= u32max ->
  forall r, rs_PrefilterState_update s n = Ok r ->
  PrefilterState_skips (snd r) <= u32max /\ PrefilterState_skipped (snd r) <= u32max.
Proof.
  intros H1 H2 r. unfold rs_PrefilterState_update, sat_add. rewrite tmax32.
  destruct (n <=? u32max); cbn [rbind]; intros Hr; inversion Hr; subst; cbn; split; apply N.le_min_r || lia.
Qed.

Print Assumptions tie_prestate_new.
Print Assumptions tie_pre_skips.
Print Assumptions tie_pre_update.
Print Assumptions tie_pre_is_effective.
Print Assumptions code_prefilter_never_panics.
Print Assumptions code_prefilter_range.
