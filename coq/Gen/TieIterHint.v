(* Tie: translated size_hint of memmem::FindIter (src/memmem/mod.rs) and of the generic
   byte-search Iter (src/arch/generic/memchr.rs) = models Sub/FindIter.v, Mem/Iter.v *)
From Memchr Require Import Base.Res Gen.Ops Gen.CodeIterHint Sub.FindIter Mem.Iter.
From Coq Require Import Lia ZifyNat ZifyN ZifyBool.
Local Open Scope N_scope.

Definition hint_of (r : N * option N) : nat * option nat := (N.to_nat (fst r), option_map N.to_nat (snd r)).

(* a slice is never longer than isize::MAX, so len + 1 does not reach usize::MAX *)
Theorem tie_fiter_size_hint (f : finder) (h : list N) (it : fiter) :
  N.of_nat (length h) < tmax 64 ->
  rmap hint_of (rs_FindIter_size_hint (mkFindIter h (N.of_nat (fi_pos it)) (f_needle f)))
  = Ok (let sh := fiter_size_hint f h it in (fst sh, Some (snd sh))).
Proof.
  intros Hlen. destruct it as [pos pre]. destruct f as [x sr]. cbn [fi_pos f_needle]. unfold rs_FindIter_size_hint, fiter_size_hint, chk_sub_opt, chk_add_opt, sat_add, div_chk, hint_of.
  cbn [fi_pos f_needle FindIter_haystack FindIter_pos FindIter_needle].
  destruct (N.leb_spec (N.of_nat pos) (N.of_nat (length h))) as [Hp|Hp];
    destruct (Nat.ltb_spec (length h) pos) as [Hp'|Hp']; try lia; [|reflexivity].
  destruct (length x) as [|n] eqn:Ex.
  - cbn [N.of_nat N.eqb].
    assert (H1 : (N.of_nat (length h) - N.of_nat pos + 1 <=? tmax 64) = true) by (apply N.leb_le; lia).
    rewrite H1. cbn [rmap fst snd option_map]. f_equal. f_equal; [|f_equal].
    + rewrite N.min_l by lia. lia.
    + lia.
  - assert (H0 : (N.of_nat (S n) =? 0) = false) by (apply N.eqb_neq; lia).
    rewrite H0. cbn [rbind rmap fst snd option_map]. f_equal. f_equal. f_equal.
    rewrite <- Nat2N.inj_sub, <- Nat2N.inj_div. apply Nat2N.id.
Qed.

Theorem tie_iter_size_hint (s e : nat) :
  rmap hint_of (rs_Iter_size_hint (mkIter (N.of_nat s) (N.of_nat e)))
  = Ok (let sh := iter_size_hint {| it_start := s; it_end := e |} in (fst sh, Some (snd sh))).
Proof.
  unfold rs_Iter_size_hint, iter_size_hint, hint_of, sat_sub. cbn. f_equal. f_equal. f_equal. lia.
Qed.

(* C14: size_hint never trips an overflow or division check, at any position (also past the end) *)
Theorem code_size_hint_never_panics it : exists r, rs_FindIter_size_hint it = Ok r.
Proof.
  unfold rs_FindIter_size_hint, div_chk. destruct (chk_sub_opt _ _); [|eexists; reflexivity].
  destruct (N.of_nat (length (FindIter_needle it)) =? 0) eqn:E; [eexists; reflexivity|].
  eexists; reflexivity.
Qed.

(* C08: the bounds bracket: lower <= upper whenever both are reported *)
Theorem code_size_hint_bracket it lo hi : rs_FindIter_size_hint it = Ok (lo, Some hi) -> lo <= hi.
Proof.
  unfold rs_FindIter_size_hint, div_chk, chk_add_opt, sat_add.
  destruct (chk_sub_opt _ _) as [r|]; [|intros H; inversion H; lia].
  destruct (N.of_nat (length (FindIter_needle it)) =? 0) eqn:E.
  - destruct (r + 1 <=? tmax 64) eqn:E1; intros H; inversion H. apply N.le_min_l.
  - cbn [rbind]. intros H; inversion H. lia.
Qed.

Print Assumptions tie_fiter_size_hint.
Print Assumptions tie_iter_size_hint.
Print Assumptions code_size_hint_never_panics.
Print Assumptions code_size_hint_bracket.
