(* Tie: the translated reverse meta searcher memmem::searcher::SearcherRev::{new, rfind}
   (src/memmem/searcher.rs) = the model's rsearcher_new / rsearcher_rfind (Sub/Searcher.v).
   `new` calls the translated twoway::FinderRev::new and rabinkarp::FinderRev::new; in `rfind` the three
   searches it routes to (memrchr, Rabin-Karp, Two-Way) are oracles, the ROUTING is the source text. *)
From Memchr Require Import Base.Res Base.ListX Gen.Ops Gen.CodeSearcherRev Gen.TieShift Gen.TieTwoWayNew Gen.TieRabinKarp
  Sub.RabinKarp Sub.TwoWay Sub.Searcher.
From Memchr Require Gen.CodeTwoWayNew Gen.CodeRabinKarp.
From Coq Require Import Lia ZifyNat ZifyN ZifyBool.
Local Open Scope N_scope.

Definition rstrat_of (k : SearcherRevKind) : rstrategy :=
  match k with
  | SearcherRevKind_Empty => REmpty
  | SearcherRevKind_OneByte b => ROneByte b
  | SearcherRevKind_TwoWay f => RTwoWay (tw_of (CodeTwoWayNew.FinderRev_0 f))
  end.
Definition rs_of (s : SearcherRev) : rsearcher :=
  {| r_strat := rstrat_of (SearcherRev_kind s); r_rk := rfin_of (SearcherRev_rabinkarp s) |}.
Definition on (o : option N) : option nat := option_map N.to_nat o.

Theorem tie_rsearcher_new (x : list N) :
  N.of_nat (length x) < 2 ^ 62 ->
  res_sim (rmap rs_of (rs_SearcherRev_new (2 * length x + 2) x)) (fst (rsearcher_new x)).
Proof.
  intros Hbig. unfold rs_SearcherRev_new, rsearcher_new.
  pose proof (tie_rk_new_rev x) as Hrk.
  destruct (CodeRabinKarp.rs_FinderRev_new x) as [rkf|p] eqn:Erk; [|discriminate]. cbn in Hrk. injection Hrk as Hrk.
  destruct (N.leb_spec (N.of_nat (length x)) 1) as [Hl|Hl];
    destruct (Nat.leb_spec (length x) 1) as [Hl'|Hl']; try lia.
  - destruct x as [|b [|c t]]; cbn in Hl'; try lia.
    + cbn. unfold rs_of. cbn. f_equal. exact Hrk.
    + cbn. unfold rs_of. cbn. f_equal. exact Hrk.
  - pose proof (tie_twoway_new_rev x Hbig) as Htw. rewrite !fst_bind.
    destruct (CodeTwoWayNew.rs_FinderRev_new (2 * length x + 2) x) as [twf|p]; cbn [rmap] in Htw.
    + destruct (fst (tw_new_rev x)) as [tw|p]; cbn in Htw; [|contradiction].
      cbn. unfold rs_of. cbn. f_equal; [f_equal; exact Htw|exact Hrk].
    + destruct (fst (tw_new_rev x)); cbn in Htw; [contradiction|]. cbn. exact I.
Qed.

Section Rfind.
Variables (ar : arch) (a : nat) (x : list N).
Variables (o_m : N -> list N -> option N) (o_rk o_tw : list N -> option N) (s : SearcherRev).
Hypothesis Hm : forall b hay, fst (backend_rfind [b] a hay (arch_memchr ar)) = Ok (on (o_m b hay)).
Hypothesis Hrk : forall hay, fst (rk_rfind (r_rk (rs_of s)) x hay) = Ok (on (o_rk hay)).
Hypothesis Htw : forall tw hay, r_strat (rs_of s) = RTwoWay tw -> fst (tw_rfind tw hay x) = Ok (on (o_tw hay)).

Theorem tie_rsearcher_rfind (h : list N) :
  rmap on (rs_SearcherRev_rfind o_m o_rk o_tw s h x) = fst (rsearcher_rfind ar (rs_of s) a h x).
Proof.
  unfold rs_SearcherRev_rfind, rsearcher_rfind.
  destruct (N.ltb_spec (N.of_nat (length h)) (N.of_nat (length x))) as [Hl|Hl];
    destruct (Nat.ltb_spec (length h) (length x)) as [Hl'|Hl']; try lia; [reflexivity|].
  destruct s as [k rkf]. cbn [SearcherRev_kind rs_of r_strat] in *.
  destruct k as [|b|f]; cbn [rstrat_of].
  - cbn. rewrite Nat2N.id. reflexivity.
  - cbn [rmap]. rewrite Hm. reflexivity.
  - rewrite tie_rk_is_fast. cbn [rbind rmap].
    destruct (rk_is_fast h).
    + rewrite Hrk. reflexivity.
    + rewrite (Htw _ h eq_refl). reflexivity.
Qed.
End Rfind.

Print Assumptions tie_rsearcher_new.
Print Assumptions tie_rsearcher_rfind.
