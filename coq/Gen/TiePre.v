(* Tie: translated Pre::find / Pre::is_effective (src/memmem/searcher.rs: a prefilter together with its
   effectiveness state) = the bookkeeping of the model's pre_step (Sub/TwoWay.v): the state is updated with
   the number of bytes skipped, or with the whole remaining length when the prefilter finds nothing.
   The prefilter itself is an oracle. *)
From Memchr Require Import Base.Res Gen.Ops Gen.CodePrefilter Gen.CodePre Gen.TiePrefilter Sub.Prefilter.
From Coq Require Import Lia.
Local Open Scope N_scope.

Theorem tie_pre_find (o : list N -> option N) (st : PrefilterState) (hay : list N) :
  (forall c, o hay = Some c -> exists n, c = N.of_nat n) ->
  exists st', rs_Pre_find o (mkPre st) hay = Ok (o hay, mkPre st') /\
    ps_of st' = pre_update (ps_of st) (match o hay with Some c => N.to_nat c | None => length hay end).
Proof.
  intros _. unfold rs_Pre_find. cbn [Pre_prestate].
  set (n := match o hay with Some v_ => v_ | None => N.of_nat (length hay) end).
  pose proof (tie_pre_update st (N.to_nat n)) as T. rewrite N2Nat.id in T.
  destruct (rs_PrefilterState_update st n) as [[u st']|p]; [|discriminate]. cbn [rmap snd] in T.
  apply (f_equal (fun r => match r with Ok v => v | Panic _ => ps_of st' end)) in T. cbv beta iota in T.
  exists st'. split; [reflexivity|]. rewrite T. f_equal. unfold n. destruct (o hay); [reflexivity|apply Nat2N.id].
Qed.

Theorem tie_pre_is_effective_wrapper (st : PrefilterState) :
  rmap (fun r => (fst r, ps_of (Pre_prestate (snd r)))) (rs_Pre_is_effective (mkPre st)) = pre_is_effective (ps_of st).
Proof.
  unfold rs_Pre_is_effective. cbn [Pre_prestate]. rewrite <- tie_pre_is_effective.
  destruct (rs_PrefilterState_is_effective st) as [[b st']|p]; reflexivity.
Qed.

Print Assumptions tie_pre_find.
Print Assumptions tie_pre_is_effective_wrapper.
