(* Tie: translated Rabin-Karp hash kernels (src/arch/all/rabinkarp.rs) = model Sub/RabinKarp.v *)
From Memchr Require Import Base.Res Params Gen.Ops Gen.CodeRabinKarp Sub.RabinKarp.
From Coq Require Import Lia.
Local Open Scope N_scope.

Lemma rk_mod_32 : rk_mod = 2 ^ 32. Proof. reflexivity. Qed.

Theorem tie_hash_new : rmap Hash_0 rs_Hash_new = Ok 0.
Proof. reflexivity. Qed.

Theorem tie_h_add h b : rmap (fun r => Hash_0 (snd r)) (rs_Hash_add (mkHash h) b) = Ok (h_add h b).
Proof.
  unfold rs_Hash_add, h_add, wrap, wr_add, wr_shl, wrapw. cbn [rmap snd Hash_0]. rewrite rk_mod_32.
  change (1 mod 32) with 1. rewrite N.shiftl_mul_pow2. change (2 ^ 1) with 2. reflexivity.
Qed.

Theorem tie_h_del h f b :
  rmap (fun r => Hash_0 (snd r)) (rs_Hash_del (mkHash h) (mkFinder (mkHash 0) f) b) = Ok (h_del h f b).
Proof.
  unfold rs_Hash_del, h_del, wrap, wr_sub, wr_mul, wrapw. cbn [rmap snd Hash_0 Finder_hash_2pow]. rewrite rk_mod_32.
  rewrite N.mod_mod by (vm_compute; discriminate). reflexivity.
Qed.

(* del ignores the finder's own hash field *)
Lemma rs_Hash_del_finder h fh f b :
  rs_Hash_del (mkHash h) (mkFinder fh f) b = rs_Hash_del (mkHash h) (mkFinder (mkHash 0) f) b.
Proof. reflexivity. Qed.

Theorem tie_h_roll h fh f old new :
  rmap (fun r => Hash_0 (snd r)) (rs_Hash_roll (mkHash h) (mkFinder fh f) old new) = Ok (h_roll h f old new).
Proof.
  unfold rs_Hash_roll, h_roll.
  pose proof (tie_h_del h f old) as Hd. rewrite <- (rs_Hash_del_finder h fh f old) in Hd.
  destruct (rs_Hash_del (mkHash h) (mkFinder fh f) old) as [[u [h1]]|p] eqn:E; cbn in Hd; [|discriminate].
  injection Hd as Hd. cbn [rbind snd].
  pose proof (tie_h_add h1 new) as Ha.
  destruct (rs_Hash_add (mkHash h1) new) as [[u2 [h2]]|p] eqn:E2; cbn in Ha; [|discriminate].
  injection Ha as Ha. cbn. subst. reflexivity.
Qed.

Theorem tie_rk_is_fast h x : rs_rabinkarp_is_fast h x = Ok (rk_is_fast h).
Proof. reflexivity. Qed.

(* C14: the translated hash kernels never panic (all arithmetic is wrapping) *)
Theorem code_hash_never_panics hs fd o n : exists r, rs_Hash_roll hs fd o n = Ok r.
Proof. unfold rs_Hash_roll, rs_Hash_del, rs_Hash_add. cbn. eexists; reflexivity. Qed.

Print Assumptions tie_hash_new.
Print Assumptions tie_h_add.
Print Assumptions tie_h_del.
Print Assumptions tie_h_roll.
Print Assumptions tie_rk_is_fast.
Print Assumptions code_hash_never_panics.

(* ------------------------------------------------------------------ *)
(* rabinkarp::Finder::new / FinderRev::new: the needle hash and 2^(n-1) *)
Definition fin_of (f : Finder) : rkfinder := {| rk_hash := Hash_0 (Finder_hash f); rk_2pow := Finder_hash_2pow f |}.

Lemma hash_add_eq h b : rs_Hash_add (mkHash h) b = Ok (tt, mkHash (h_add h b)).
Proof.
  unfold rs_Hash_add, h_add, wrap, wr_add, wr_shl, wrapw. cbn [Hash_0]. rewrite rk_mod_32.
  change (1 mod 32) with 1. rewrite N.shiftl_mul_pow2. change (2 ^ 1) with 2. reflexivity.
Qed.

Lemma shl1_eq p : wr_shl 32 p 1 = wrap (p * 2).
Proof. unfold wr_shl, wrap, wrapw. rewrite rk_mod_32. change (1 mod 32) with 1. rewrite N.shiftl_mul_pow2. reflexivity. Qed.

Definition mstep (s : rkfinder) (b : N) : rkfinder :=
  {| rk_hash := h_add (rk_hash s) b; rk_2pow := wrap (rk_2pow s * 2) |}.

Lemma rk_fold_fwd (g : Finder -> N -> res Finder) :
  (forall h p b, g (mkFinder (mkHash h) p) b = Ok (mkFinder (mkHash (h_add h b)) (wrap (p * 2)))) ->
  forall t s, exists s', rfold g t s = Ok s' /\ fin_of s' = fold_left mstep t (fin_of s).
Proof.
  intros Hg. induction t as [|b t IH]; intros s; cbn [rfold fold_left]; [eexists; split; reflexivity|].
  destruct s as [[h] p]. rewrite Hg. destruct (IH (mkFinder (mkHash (h_add h b)) (wrap (p * 2)))) as (s' & E & F).
  exists s'. split; [exact E|]. rewrite F. reflexivity.
Qed.

Theorem tie_rk_new x : rmap fin_of (rs_Finder_new x) = Ok (rk_new x).
Proof.
  unfold rs_Finder_new, rk_new, rs_Hash_new. cbn [rbind]. change (N.to_nat 0) with 0%nat. change (N.to_nat 1) with 1%nat.
  destruct x as [|b t]; [reflexivity|]. cbn [nth_error skipn Finder_hash Finder_hash_2pow].
  rewrite hash_add_eq. cbn [rbind snd].
  match goal with |- context [rfold ?g t ?s0] =>
    destruct (rk_fold_fwd g ltac:(intros h p b'; cbn [Finder_hash Finder_hash_2pow]; rewrite hash_add_eq; cbn [rbind snd]; rewrite shl1_eq; reflexivity) t s0) as (s' & E & F);
    rewrite E end.
  cbn [rbind rmap]. rewrite F. reflexivity.
Qed.

Definition rfin_of (f : FinderRev) : rkfinder := fin_of (FinderRev_0 f).

Lemma rk_fold_rev (g : FinderRev -> N -> res FinderRev) :
  (forall h p b, g (mkFinderRev (mkFinder (mkHash h) p)) b = Ok (mkFinderRev (mkFinder (mkHash (h_add h b)) (wrap (p * 2))))) ->
  forall t s, exists s', rfold g t s = Ok s' /\ rfin_of s' = fold_left mstep t (rfin_of s).
Proof.
  intros Hg. induction t as [|b t IH]; intros s; cbn [rfold fold_left]; [eexists; split; reflexivity|].
  destruct s as [[[h] p]]. rewrite Hg. destruct (IH (mkFinderRev (mkFinder (mkHash (h_add h b)) (wrap (p * 2))))) as (s' & E & F).
  exists s'. split; [exact E|]. rewrite F. reflexivity.
Qed.

Lemma last_opt_rev (x : list N) : last_opt x = nth_error (rev x) 0.
Proof.
  rewrite <- (rev_involutive x) at 1. destruct (rev x) as [|a r]; [reflexivity|].
  unfold last_opt. cbn [rev]. rewrite app_length. cbn [length].
  rewrite nth_error_app2 by lia. replace (length (rev r) + 1 - 1 - length (rev r))%nat with 0%nat by lia. reflexivity.
Qed.

Theorem tie_rk_new_rev x : rmap rfin_of (rs_FinderRev_new x) = Ok (rk_new_rev x).
Proof.
  unfold rs_FinderRev_new, rk_new_rev, rk_new, rs_Hash_new. cbn [rbind]. change (N.to_nat 1) with 1%nat.
  rewrite last_opt_rev. destruct (rev x) as [|b t]; [reflexivity|]. cbn [nth_error skipn FinderRev_0 Finder_hash Finder_hash_2pow].
  rewrite hash_add_eq. cbn [rbind snd].
  match goal with |- context [rfold ?g t ?s0] =>
    destruct (rk_fold_rev g ltac:(intros h p b'; cbn [FinderRev_0 Finder_hash Finder_hash_2pow]; rewrite hash_add_eq; cbn [rbind snd]; rewrite shl1_eq; reflexivity) t s0) as (s' & E & F);
    rewrite E end.
  cbn [rbind rmap]. rewrite F. reflexivity.
Qed.

(* C12 on the translated constructor: the source of rabinkarp::Finder::new computes, for every needle,
   the polynomial hash of the needle modulo 2^32 and the factor 2^(n-1) mod 2^32 used by the rolling update *)
From Memchr Require Import Sub.RabinKarpProofs.

Theorem code_rk_new_spec x :
  exists f, rs_Finder_new x = Ok f /\ Hash_0 (Finder_hash f) = wrap (poly x) /\
            Finder_hash_2pow f = wrap (2 ^ N.of_nat (length x - 1)).
Proof.
  pose proof (tie_rk_new x) as T. destruct (rs_Finder_new x) as [f|p]; [|discriminate]. cbn in T. injection T as T.
  exists f. split; [reflexivity|].
  pose proof (rk_new_hash x) as H1. pose proof (rk_new_2pow x) as H2. rewrite <- T in H1, H2. cbn in H1, H2.
  rewrite hash_of_poly in H1. split; assumption.
Qed.

Print Assumptions tie_rk_new.
Print Assumptions tie_rk_new_rev.
Print Assumptions code_rk_new_spec.
