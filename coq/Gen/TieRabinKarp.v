(* Tie: translated Rabin-Karp hash kernels (src/arch/all/rabinkarp.rs) = model Sub/RabinKarp.v *)
From Memchr Require Import Base.Res Params Gen.Ops Gen.CodeRabinKarp Sub.RabinKarp.
From Coq Require Import Lia.
Local Open Scope N_scope.

Lemma rk_mod_32 : rk_mod = 2 ^ 32. Proof. reflexivity. Qed.

Theorem tie_hash_new : rmap Hash_0 rs_Hash_new = Ok 0.
Proof. reflexivity. Qed.

Theorem tie_h_add h b : rmap (fun r => Hash_0 (snd r)) (rs_Hash_add (mkHash h) b) = Ok (h_add h b).
Proof.
  unfold rs_Hash_add, h_add, wrap, wr_add, wr_shl, wrapw. cbn [rmap snd Hash_0]. rewrite rk_mod_32.
  change (1 mod 32) with 1. rewrite N.shiftl_mul_pow2. change (2 ^ 1) with 2. reflexivity.
Qed.

Theorem tie_h_del h f b :
  rmap (fun r => Hash_0 (snd r)) (rs_Hash_del (mkHash h) (mkFinder (mkHash 0) f) b) = Ok (h_del h f b).
Proof.
  unfold rs_Hash_del, h_del, wrap, wr_sub, wr_mul, wrapw. cbn [rmap snd Hash_0 Finder_hash_2pow]. rewrite rk_mod_32.
  rewrite N.mod_mod by (vm_compute; discriminate). reflexivity.
Qed.

(* del ignores the finder's own hash field *)
Lemma rs_Hash_del_finder h fh f b :
  rs_Hash_del (mkHash h) (mkFinder fh f) b = rs_Hash_del (mkHash h) (mkFinder (mkHash 0) f) b.
Proof. reflexivity. Qed.

Theorem tie_h_roll h fh f old new :
  rmap (fun r => Hash_0 (snd r)) (rs_Hash_roll (mkHash h) (mkFinder fh f) old new) = Ok (h_roll h f old new).
Proof.
  unfold rs_Hash_roll, h_roll.
  pose proof (tie_h_del h f old) as Hd. rewrite <- (rs_Hash_del_finder h fh f old) in Hd.
  destruct (rs_Hash_del (mkHash h) (mkFinder fh f) old) as [[u [h1]]|p] eqn:E; cbn in Hd; [|discriminate].
  injection Hd as Hd. cbn [rbind snd].
  pose proof (tie_h_add h1 new) as Ha.
  destruct (rs_Hash_add (mkHash h1) new) as [[u2 [h2]]|p] eqn:E2; cbn in Ha; [|discriminate].
  injection Ha as Ha. cbn. subst. reflexivity.
Qed.

Theorem tie_rk_is_fast h x : rs_rabinkarp_is_fast h x = Ok (rk_is_fast h).
Proof. reflexivity. Qed.

(* C14: the translated hash kernels never panic (all arithmetic is wrapping) *)
Theorem code_hash_never_panics hs fd o n : exists r, rs_Hash_roll hs fd o n = Ok r.
Proof. unfold rs_Hash_roll, rs_Hash_del, rs_Hash_add. cbn. eexists; reflexivity. Qed.

Print Assumptions tie_hash_new.
Print Assumptions tie_h_add.
Print Assumptions tie_h_del.
Print Assumptions tie_h_roll.
Print Assumptions tie_rk_is_fast.
Print Assumptions code_hash_never_panics.
