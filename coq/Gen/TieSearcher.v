(* Tie: translated do_packed_search (src/memmem/searcher.rs) = model Sub/Searcher.v *)
From Memchr Require Import Base.Res Params Gen.Ops Gen.CodeSearcher Sub.Searcher.
Local Open Scope N_scope.

Theorem tie_do_packed_search x : rs_searcher_do_packed_search x = Ok (do_packed_search x).
Proof. reflexivity. Qed.

(* C13: the vector searcher owns the search only for needles of bounded length; this
   is the fact that caps the |x|/2 factor of the packed-pair confirm step *)
Theorem code_packed_search_bounded x :
  rs_searcher_do_packed_search x = Ok true -> N.of_nat (length x) <= 64.
Proof.
  rewrite tie_do_packed_search. unfold do_packed_search. intros H. injection H as H.
  apply andb_prop in H. destruct H as [_ H]. apply N.leb_le in H.
  change packed_max_len with 32 in H. apply (N.le_trans _ _ _ H). discriminate.
Qed.

Print Assumptions tie_do_packed_search.
Print Assumptions code_packed_search_bounded.
