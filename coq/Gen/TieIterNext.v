(* Tie: translated memmem::FindIter::next and FindRevIter::next (src/memmem/mod.rs) = the model's
   fiter_next / riter_next (Sub/FindIter.v).  The searcher call inside `next` is not translated: it is
   a parameter (oracle) of the generated function, and the theorems hold for EVERY oracle that returns
   what the model's searcher returns (which C03/C04 prove is the leftmost / rightmost occurrence). *)
From Memchr Require Import Base.Res Base.ListX Gen.Ops Gen.CodeIterNext Sub.TwoWay Sub.Searcher Sub.FindIter.
From Coq Require Import Lia ZifyNat ZifyN ZifyBool.
Local Open Scope N_scope.

Definition on (o : option N) : option nat := option_map N.to_nat o.

Lemma fst_shifted {A} k (m : M A) : fst (shifted k m) = fst m.
Proof. reflexivity. Qed.

Section Fwd.
Variables (ar : arch) (f : finder) (a : nat) (h : list N) (o : list N -> option N).
Let x := f_needle f.
Hypothesis Hbig : N.of_nat (length h) < 2 ^ 62 /\ N.of_nat (length x) < 2 ^ 62.
(* the oracle answers like the model's searcher, whatever the prefilter state and address *)
Hypothesis Ho : forall pre a' hay, exists pre',
  fst (searcher_find ar (f_searcher f) pre a' hay x) = Ok (on (o hay), pre').
(* and reports positions inside the slice it was given *)
Hypothesis Hin : forall hay i, o hay = Some i -> i <= N.of_nat (length hay).

Definition fout (r : option N * FindIter) : option nat * nat := (on (fst r), N.to_nat (FindIter_pos (snd r))).
Definition mout (r : option nat * fiter) : option nat * nat := (fst r, fi_pos (snd r)).

Theorem tie_fiter_next (it : fiter) :
  rmap fout (rs_FindIter_next o (mkFindIter h (N.of_nat (fi_pos it)) x)) = rmap mout (fst (fiter_next ar f a h it)).
Proof.
  destruct Hbig as [Hb1 Hb2].
  assert (Hmax : 2 ^ 62 + 2 ^ 62 + 2 ^ 62 <= tmax 64) by (vm_compute; discriminate).
  unfold rs_FindIter_next, fiter_next, slice_from_opt. cbn [FindIter_haystack FindIter_pos FindIter_needle].
  destruct (N.leb_spec (N.of_nat (fi_pos it)) (N.of_nat (length h))) as [Hp|Hp];
    destruct (Nat.ltb_spec (length h) (fi_pos it)) as [Hp'|Hp']; try lia.
  2:{ cbn. unfold fout, mout. cbn. rewrite Nat2N.id. reflexivity. }
  rewrite Nat2N.id. rewrite fst_bind, fst_shifted.
  destruct (Ho (fi_pre it) (a + fi_pos it)%nat (skipn (fi_pos it) h)) as [pre' Hs]. fold x. rewrite Hs.
  cbn [fst snd]. destruct (o (skipn (fi_pos it) h)) as [i|] eqn:Eo; cbn [on option_map].
  - pose proof (Hin _ _ Eo) as Hi. rewrite skipn_length in Hi.
    unfold add_chk.
    assert (E1 : (N.of_nat (fi_pos it) + i <=? tmax 64) = true) by (apply N.leb_le; lia). rewrite E1. cbn [rbind].
    assert (E2 : (N.of_nat (fi_pos it) + i + N.max (N.of_nat (length x)) 1 <=? tmax 64) = true) by (apply N.leb_le; lia).
    rewrite E2. cbn. unfold fout, mout. cbn. f_equal. f_equal; [f_equal|]; lia.
  - cbn. unfold fout, mout. cbn. rewrite Nat2N.id. reflexivity.
Qed.
End Fwd.

Section Rev.
Variables (ar : arch) (f : rfinder) (a : nat) (h : list N) (o : list N -> option N).
Hypothesis Ho : forall hay, fst (rfinder_rfind ar f a hay) = Ok (on (o hay)).

Definition rout (r : option N * FindRevIter) : option nat * option nat := (on (fst r), on (FindRevIter_pos (snd r))).

Theorem tie_riter_next (it : riter) :
  res_sim (rmap rout (rs_FindRevIter_next o (mkFindRevIter h (option_map N.of_nat it)))) (fst (riter_next ar f a h it)).
Proof.
  unfold rs_FindRevIter_next, riter_next. cbn [FindRevIter_haystack FindRevIter_pos].
  destruct it as [pos|]; cbn [option_map]; [|reflexivity].
  unfold slice_to_chk, guard.
  destruct (N.leb_spec (N.of_nat pos) (N.of_nat (length h))) as [Hp|Hp];
    destruct (Nat.leb_spec pos (length h)) as [Hp'|Hp']; try lia; [|exact I].
  rewrite bind_ret. cbn [rbind]. rewrite Nat2N.id. rewrite fst_bind, Ho.
  destruct (o (firstn pos h)) as [i|]; cbn [on option_map].
  - destruct (N.eqb_spec (N.of_nat pos) i) as [He|He];
      destruct (Nat.eqb_spec pos (N.to_nat i)) as [He'|He']; try lia.
    + cbn. unfold rout, on, chk_sub_opt. cbn. f_equal.
      destruct pos as [|p].
      * reflexivity.
      * assert (E : (1 <=? N.of_nat (S p)) = true) by (apply N.leb_le; lia). rewrite E. cbn [option_map]. f_equal. lia.
    + cbn. reflexivity.
  - cbn. unfold rout, on. cbn. rewrite Nat2N.id. reflexivity.
Qed.
End Rev.

(* C14 on the translated iterator step: it never trips an overflow check when the oracle reports positions
   inside its argument and lengths are below 2^62 (slices are at most isize::MAX bytes) *)
Theorem code_fiter_next_never_panics (o : list N -> option N) (s : FindIter) :
  N.of_nat (length (FindIter_haystack s)) < 2 ^ 62 -> N.of_nat (length (FindIter_needle s)) < 2 ^ 62 ->
  (forall hay i, o hay = Some i -> i <= N.of_nat (length hay)) ->
  exists r, rs_FindIter_next o s = Ok r.
Proof.
  intros H1 H2 Hin. unfold rs_FindIter_next, slice_from_opt.
  assert (Hmax : 2 ^ 62 + 2 ^ 62 + 2 ^ 62 <= tmax 64) by (vm_compute; discriminate).
  destruct (N.leb_spec (FindIter_pos s) (N.of_nat (length (FindIter_haystack s)))) as [Hp|Hp]; [|eexists; reflexivity].
  destruct (o _) as [i|] eqn:Eo; [|eexists; reflexivity].
  pose proof (Hin _ _ Eo) as Hi. rewrite skipn_length in Hi. unfold add_chk.
  assert (E1 : (FindIter_pos s + i <=? tmax 64) = true) by (apply N.leb_le; lia). rewrite E1. cbn [rbind].
  assert (E2 : (FindIter_pos s + i + N.max (N.of_nat (length (FindIter_needle s))) 1 <=? tmax 64) = true) by (apply N.leb_le; lia).
  rewrite E2. eexists; reflexivity.
Qed.

Print Assumptions tie_fiter_next.
Print Assumptions tie_riter_next.
Print Assumptions code_fiter_next_never_panics.
