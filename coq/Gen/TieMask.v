(* Tie: the translated MoveMask implementations of src/vector.rs (SensibleMoveMask(u32)
   for SSE2/AVX2/simd128, NeonMoveMask(u64)) = the MaskRep records Sensible / Neon of
   Vec/MaskRep.v, about which Vec/MaskLaws.v proves the laws the generic algorithms use. *)
From Memchr Require Import Base.Res Base.Bits Params Gen.Ops Gen.CodeMask Vec.MaskRep.
From Coq Require Import Lia.
Local Open Scope N_scope.

Definition sm := mkSensibleMoveMask.
Definition nm := mkNeonMoveMask.

(* ---------------- SensibleMoveMask ---------------- *)
Theorem tie_sens_has_nz m : rs_SensibleMoveMask_has_non_zero (sm m) = Ok (m_has_nz Sensible m).
Proof. reflexivity. Qed.
Theorem tie_sens_count m : rs_SensibleMoveMask_count_ones (sm m) = Ok (N.of_nat (m_count Sensible m)).
Proof. reflexivity. Qed.
Theorem tie_sens_and a b : rmap SensibleMoveMask_0 (rs_SensibleMoveMask_and (sm a) (sm b)) = Ok (m_and Sensible a b).
Proof. reflexivity. Qed.
Theorem tie_sens_or a b : rmap SensibleMoveMask_0 (rs_SensibleMoveMask_or (sm a) (sm b)) = Ok (m_or Sensible a b).
Proof. reflexivity. Qed.
Theorem tie_sens_first m : rs_SensibleMoveMask_first_offset (sm m) = Ok (N.of_nat (m_first Sensible m)).
Proof. reflexivity. Qed.

Theorem tie_sens_clear m :
  res_sim (rmap SensibleMoveMask_0 (rs_SensibleMoveMask_clear_least_significant_bit (sm m))) (m_clear_lsb Sensible m).
Proof.
  unfold rs_SensibleMoveMask_clear_least_significant_bit, sub_chk. cbn [SensibleMoveMask_0 sm m_clear_lsb Sensible].
  destruct m as [|p]; [exact I|]. destruct p; reflexivity.
Qed.

Lemma sub2_sim (base c : nat) :
  res_sim (t <-- sub_chk 64 (N.of_nat base) (N.of_nat c);; sub_chk 64 t 1)
          (rmap N.of_nat (match csub base c with Ok r => csub r 1 | Panic p => Panic p end)).
Proof.
  unfold sub_chk, csub.
  destruct (N.leb_spec (N.of_nat c) (N.of_nat base)) as [H|H];
    destruct (Nat.leb_spec c base) as [H'|H']; try lia; [|exact I].
  cbn [rbind].
  destruct (N.leb_spec 1 (N.of_nat base - N.of_nat c)) as [H1|H1];
    destruct (Nat.leb_spec 1 (base - c)) as [H1'|H1']; try lia; [|exact I].
  cbn. lia.
Qed.

Theorem tie_sens_last m :
  res_sim (rs_SensibleMoveMask_last_offset (sm m)) (rmap N.of_nat (m_last Sensible m)).
Proof.
  unfold rs_SensibleMoveMask_last_offset, rs_SensibleMoveMask_get_for_offset. cbn [rbind SensibleMoveMask_0 sm m_last Sensible].
  exact (sub2_sim 32 (clz 32 m)).
Qed.

Theorem tie_sens_except (n : nat) :
  res_sim (rmap SensibleMoveMask_0 (rs_SensibleMoveMask_all_zeros_except_least_significant (N.of_nat n)))
          (m_all_except_low Sensible n).
Proof.
  unfold rs_SensibleMoveMask_all_zeros_except_least_significant. cbn [m_all_except_low Sensible].
  change sensible_all_except with 32%nat.
  destruct (Nat.ltb_spec n 32) as [Hlt|Hge].
  - do 32 (destruct n as [|n]; [vm_compute; reflexivity|]). lia.
  - assert (H : (N.of_nat n <? 32) = false) by (apply N.ltb_ge; lia). rewrite H. exact I.
Qed.

(* ---------------- NeonMoveMask ---------------- *)
Theorem tie_neon_has_nz m : rs_NeonMoveMask_has_non_zero (nm m) = Ok (m_has_nz Neon m).
Proof. reflexivity. Qed.
Theorem tie_neon_count m : rs_NeonMoveMask_count_ones (nm m) = Ok (N.of_nat (m_count Neon m)).
Proof. reflexivity. Qed.
Theorem tie_neon_and a b : rmap NeonMoveMask_0 (rs_NeonMoveMask_and (nm a) (nm b)) = Ok (m_and Neon a b).
Proof. reflexivity. Qed.
Theorem tie_neon_or a b : rmap NeonMoveMask_0 (rs_NeonMoveMask_or (nm a) (nm b)) = Ok (m_or Neon a b).
Proof. reflexivity. Qed.

Lemma shr2 (c : nat) : N.shiftr (N.of_nat c) 2 = N.of_nat (c / 2 ^ 2).
Proof. rewrite N.shiftr_div_pow2. rewrite Nat2N.inj_div. reflexivity. Qed.

Theorem tie_neon_first m : rs_NeonMoveMask_first_offset (nm m) = Ok (N.of_nat (m_first Neon m)).
Proof.
  unfold rs_NeonMoveMask_first_offset, rs_NeonMoveMask_get_for_offset, shr_chk. cbn [rbind NeonMoveMask_0 nm m_first Neon].
  change (2 <? 32) with true. cbv iota. rewrite shr2. reflexivity.
Qed.

Theorem tie_neon_clear m :
  res_sim (rmap NeonMoveMask_0 (rs_NeonMoveMask_clear_least_significant_bit (nm m))) (m_clear_lsb Neon m).
Proof.
  unfold rs_NeonMoveMask_clear_least_significant_bit, sub_chk. cbn [NeonMoveMask_0 nm m_clear_lsb Neon].
  destruct m as [|p]; [exact I|]. destruct p; reflexivity.
Qed.

Theorem tie_neon_last m :
  res_sim (rs_NeonMoveMask_last_offset (nm m)) (rmap N.of_nat (m_last Neon m)).
Proof.
  unfold rs_NeonMoveMask_last_offset, rs_NeonMoveMask_get_for_offset, shr_chk. cbn [rbind NeonMoveMask_0 nm m_last Neon].
  change (2 <? 32) with true. cbv iota. cbn [rbind]. rewrite shr2.
  exact (sub2_sim 16 (clz 64 m / 2 ^ 2)).
Qed.

Theorem tie_neon_except (n : nat) :
  res_sim (rmap NeonMoveMask_0 (rs_NeonMoveMask_all_zeros_except_least_significant (N.of_nat n)))
          (m_all_except_low Neon n).
Proof.
  unfold rs_NeonMoveMask_all_zeros_except_least_significant. cbn [m_all_except_low Neon].
  change neon_bytes with 16%nat.
  destruct (Nat.ltb_spec n 16) as [Hlt|Hge].
  - do 16 (destruct n as [|n]; [vm_compute; reflexivity|]). lia.
  - assert (H : (N.of_nat n <? 16) = false) by (apply N.ltb_ge; lia). rewrite H. exact I.
Qed.

Print Assumptions tie_sens_has_nz.
Print Assumptions tie_sens_count.
Print Assumptions tie_sens_and.
Print Assumptions tie_sens_or.
Print Assumptions tie_sens_first.
Print Assumptions tie_sens_clear.
Print Assumptions tie_sens_last.
Print Assumptions tie_sens_except.
Print Assumptions tie_neon_has_nz.
Print Assumptions tie_neon_count.
Print Assumptions tie_neon_and.
Print Assumptions tie_neon_or.
Print Assumptions tie_neon_first.
Print Assumptions tie_neon_clear.
Print Assumptions tie_neon_last.
Print Assumptions tie_neon_except.
