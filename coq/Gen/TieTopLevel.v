(* Tie: the translated one-shot functions memmem::find / memmem::rfind (src/memmem/mod.rs) = the model's
   memmem_find / memmem_rfind (Sub/Searcher.v): Rabin-Karp below 64 bytes (the finder is built by the
   translated rabinkarp::Finder::new), the meta searcher otherwise.  The searches are oracles. *)
From Memchr Require Import Base.Res Params Gen.Ops Gen.CodeTopLevel Gen.TieRabinKarp Sub.RabinKarp Sub.Pair Sub.Searcher.
From Memchr Require Gen.CodeRabinKarp.
Local Open Scope N_scope.

Definition on (o : option N) : option nat := option_map N.to_nat o.

Section Top.
Variables (ar : arch) (a : nat) (x : list N).
Variables (o_f o_rf : list N -> list N -> option N).
Variable o_rk : CodeRabinKarp.Finder -> list N -> option N.
Variable o_rrk : CodeRabinKarp.FinderRev -> list N -> option N.
Hypothesis Hrk : forall f hay, fst (rk_find (fin_of f) x hay) = Ok (on (o_rk f hay)).
Hypothesis Hrrk : forall f hay, fst (rk_rfind (rfin_of f) x hay) = Ok (on (o_rrk f hay)).
Hypothesis Hf : forall hay, fst (f <- finder_new PAuto default_rank ar x;; finder_find ar f a hay) = Ok (on (o_f x hay)).
Hypothesis Hrf : forall hay, fst (f <- rfinder_new x;; rfinder_rfind ar f a hay) = Ok (on (o_rf x hay)).

Theorem tie_memmem_find h : rmap on (rs_memmem_find o_f o_rk h x) = fst (memmem_find ar a h x).
Proof.
  unfold rs_memmem_find, memmem_find. change oneshot_rk_below_fwd with 64.
  destruct (N.of_nat (length h) <? 64).
  - pose proof (tie_rk_new x) as T. destruct (CodeRabinKarp.rs_Finder_new x) as [f|p]; [|discriminate].
    cbn in T. injection T as T. cbn [rbind rmap]. rewrite <- T, Hrk. reflexivity.
  - cbn [rmap]. rewrite Hf. reflexivity.
Qed.

Theorem tie_memmem_rfind h : rmap on (rs_memmem_rfind o_rf o_rrk h x) = fst (memmem_rfind ar a h x).
Proof.
  unfold rs_memmem_rfind, memmem_rfind. change oneshot_rk_below_rev with 64.
  destruct (N.of_nat (length h) <? 64).
  - pose proof (tie_rk_new_rev x) as T. destruct (CodeRabinKarp.rs_FinderRev_new x) as [f|p]; [|discriminate].
    cbn in T. injection T as T. cbn [rbind rmap]. rewrite <- T, Hrrk. reflexivity.
  - cbn [rmap]. rewrite Hrf. reflexivity.
Qed.
End Top.

Print Assumptions tie_memmem_find.
Print Assumptions tie_memmem_rfind.
