(* Tie: the translated portable packed-pair prefilter arch::all::packedpair::Finder::find_prefilter
   (src/arch/all/packedpair/mod.rs: a `loop` with `?`, `continue` and `return`, translated to a Fixpoint on
   fuel that yields Ret / Go) = the model's pf_loop (Sub/PackedPair.v).  memchr is an oracle. *)
From Memchr Require Import Base.Res Base.ListX Gen.Ops Gen.CodePair Gen.CodePortablePrefilter Mem.Wrappers Sub.PackedPair.
From Coq Require Import Lia ZifyNat ZifyN ZifyBool.
Local Open Scope N_scope.

Definition on (o : option N) : option nat := option_map N.to_nat o.
Definition conv (c : ctl (option N) N) : option nat := match c with Ret v => on v | Go _ => None end.

Section PF.
Variables (mb : backend) (f : portfinder) (a : nat) (h : list N) (o : N -> list N -> option N).
Hypothesis Hbig : N.of_nat (length h) < 2 ^ 62.
Hypothesis Hi : (pf_i1 f <= 255)%nat /\ (pf_i2 f <= 255)%nat.
Hypothesis Ho : forall a' hay, fst (backend_find [pf_b1 f] a' hay mb) = Ok (on (o (pf_b1 f) hay)).
Hypothesis Hin : forall hay d, o (pf_b1 f) hay = Some d -> d < N.of_nat (length hay).

Let gf : PFinder := mkPFinder (mkPair (N.of_nat (pf_i1 f)) (N.of_nat (pf_i2 f))) (pf_b1 f) (pf_b2 f).

Lemma tie_pf_loop : forall fuel i, (i <= length h)%nat ->
  res_sim (rmap conv (rs_PFinder_find_prefilter_loop1 o gf h (N.of_nat (pf_i1 f)) (N.of_nat (pf_i2 f)) fuel (N.of_nat i)))
          (fst (pf_loop mb f a h fuel i)).
Proof.
  destruct Hi as [H1 H2].
  assert (Hmax : 2 ^ 62 + 2 ^ 62 + 1000 <= tmax 64) by (vm_compute; discriminate).
  induction fuel as [|fuel IH]; intros i Hle; [exact I|].
  cbn [rs_PFinder_find_prefilter_loop1 pf_loop].
  rewrite fst_bind. cbn [tick emit fst]. unfold slice_from_chk, guard.
  assert (E1 : (N.of_nat i <=? N.of_nat (length h)) = true) by (apply N.leb_le; lia). rewrite E1.
  assert (E1' : (i <=? length h)%nat = true) by (apply Nat.leb_le; lia). rewrite E1'.
  rewrite bind_ret. cbn [rbind]. rewrite Nat2N.id. rewrite fst_bind. cbn [fst].
  unfold gf at 1. cbn [PFinder_byte1]. rewrite Ho.
  destruct (o (pf_b1 f) (skipn i h)) as [d|] eqn:Eo; cbn [on option_map]; [|reflexivity].
  pose proof (Hin _ _ Eo) as Hd. rewrite skipn_length in Hd.
  unfold add_chk.
  assert (E2 : (N.of_nat i + d <=? tmax 64) = true) by (apply N.leb_le; lia). rewrite E2. cbn [rbind].
  assert (E3 : (N.of_nat i + d + 1 <=? tmax 64) = true) by (apply N.leb_le; lia). rewrite E3. cbn [rbind].
  unfold chk_sub_opt, chk_add_opt.
  replace (N.of_nat i + d) with (N.of_nat (i + N.to_nat d)) by lia.
  destruct (N.leb_spec (N.of_nat (pf_i1 f)) (N.of_nat (i + N.to_nat d))) as [Hs|Hs];
    destruct (Nat.ltb_spec (i + N.to_nat d) (pf_i1 f)) as [Hs'|Hs']; try lia.
  - assert (E4 : (N.of_nat (i + N.to_nat d) - N.of_nat (pf_i1 f) + N.of_nat (pf_i2 f) <=? tmax 64) = true) by (apply N.leb_le; lia).
    rewrite E4.
    replace (N.to_nat (N.of_nat (i + N.to_nat d) - N.of_nat (pf_i1 f) + N.of_nat (pf_i2 f)))
      with (i + N.to_nat d - pf_i1 f + pf_i2 f)%nat by lia.
    unfold gf at 1. cbn [PFinder_byte2].
    destruct (nth_error h (i + N.to_nat d - pf_i1 f + pf_i2 f)) as [b2|].
    + destruct (b2 =? pf_b2 f); cbn [negb].
      * cbn. f_equal. lia.
      * replace (N.of_nat (i + N.to_nat d) + 1) with (N.of_nat (i + N.to_nat d + 1)) by lia. apply IH. lia.
    + replace (N.of_nat (i + N.to_nat d) + 1) with (N.of_nat (i + N.to_nat d + 1)) by lia. apply IH. lia.
  - replace (N.of_nat (i + N.to_nat d) + 1) with (N.of_nat (i + N.to_nat d + 1)) by lia. apply IH. lia.
Qed.

(* `loop { .. }` has no exit condition: the loop function never yields Go *)
Lemma loop_never_go (g : PFinder) (i1 i2 : N) : forall fuel i j,
  rs_PFinder_find_prefilter_loop1 o g h i1 i2 fuel i <> Ok (Go j).
Proof.
  induction fuel as [|fuel IH]; intros i j; cbn [rs_PFinder_find_prefilter_loop1]; [discriminate|].
  destruct (slice_from_chk h i) as [t|p]; cbn [rbind]; [|discriminate].
  destruct (o (PFinder_byte1 g) t) as [d|]; [|discriminate].
  destruct (add_chk 64 i d) as [i'|p]; cbn [rbind]; [|discriminate].
  destruct (add_chk 64 i' 1) as [i''|p]; cbn [rbind]; [|discriminate].
  destruct (chk_sub_opt i' i1) as [a1|]; [|apply IH].
  destruct (chk_add_opt 64 a1 i2) as [a2|]; [|apply IH].
  destruct (match nth_error h (N.to_nat a2) with Some b => negb (b =? PFinder_byte2 g) | None => true end); [apply IH|discriminate].
Qed.

Theorem tie_pf_find_prefilter :
  res_sim (rmap on (rs_PFinder_find_prefilter (S (S (length h))) o gf h)) (fst (pf_find_prefilter mb f a h)).
Proof.
  unfold rs_PFinder_find_prefilter, pf_find_prefilter, rs_Pair_index1, rs_Pair_index2. cbn [rbind gf PFinder_pair Pair_index1 Pair_index2].
  pose proof (tie_pf_loop (S (S (length h))) 0 ltac:(lia)) as T. cbn [N.of_nat] in T.
  destruct (rs_PFinder_find_prefilter_loop1 o _ h _ _ (S (S (length h))) 0) as [[v|i]|p] eqn:E; cbn [rbind rmap conv] in *.
  - exact T.
  - exfalso. exact (loop_never_go _ _ _ _ _ _ E).
  - exact T.
Qed.
End PF.

Print Assumptions tie_pf_loop.
Print Assumptions tie_pf_find_prefilter.
