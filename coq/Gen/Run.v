(* Evaluation helpers for tools/gencheck.py: the TRANSLATED functions (Gen/Code*.v) are run by
   vm_compute on the cases of a check and compared with what the real crate printed for the same
   cases.  This validates the translator itself (a mistranslation shows up as a difference) and is
   a test, not a proof.  No theorem lives here. *)
From Memchr Require Import Base.Res Params Sub.Pair Gen.Ops Gen.CodePair Gen.CodePrefilter
  Gen.CodeByteSet Gen.CodeSuffix Gen.CodeShift Gen.CodeTwoWayNew.
From Memchr Require Gen.CodeRabinKarp Gen.CodeIterNext Gen.CodeIterHint.
From Memchr Require Import Spec.
Local Open Scope N_scope.

Definition rk_id (b : N) : N := b.
Definition rk_const (c : N) (_ : N) : N := c.
Definition rk_rev (b : N) : N := 255 - b.

Definition gc_pair (r : res (option Pair)) : list N :=
  match r with
  | Ok None => [0]
  | Ok (Some p) => [1; Pair_index1 p; Pair_index2 p]
  | Panic _ => [2]
  end.

Inductive pop := PE | PU (n : N).
Fixpoint gc_prestate (s : PrefilterState) (ops : list pop) (acc : list N) : list N :=
  match ops with
  | [] => 1 :: rev acc ++ [9; PrefilterState_skips s; PrefilterState_skipped s]
  | PE :: t => match rs_PrefilterState_is_effective s with
               | Ok (b, s') => gc_prestate s' t ((if b then 1 else 0) :: acc)
               | Panic _ => [2]
               end
  | PU n :: t => match rs_PrefilterState_update s n with
                 | Ok (_, s') => gc_prestate s' t acc
                 | Panic _ => [2]
                 end
  end.

Definition gc_tw (t : res TwoWay) : list N :=
  match t with
  | Ok t => [1; ApproximateByteSet_0 (TwoWay_byteset t); TwoWay_critical_pos t] ++
            match TwoWay_shift t with Shift_Small p => [0; p] | Shift_Large s => [1; s] end
  | Panic _ => [2]
  end.
Definition gc_twnew (x : list N) : list N :=
  gc_tw (rmap Finder_0 (rs_Finder_new (2 * length x + 2)%nat x)).
Definition gc_twrnew (x : list N) : list N :=
  gc_tw (rmap FinderRev_0 (rs_FinderRev_new (2 * length x + 2)%nat x)).

Definition gc_rknew (x : list N) : list N :=
  match CodeRabinKarp.rs_Finder_new x with
  | Ok f => [1; CodeRabinKarp.Hash_0 (CodeRabinKarp.Finder_hash f); CodeRabinKarp.Finder_hash_2pow f]
  | Panic _ => [2]
  end.
Definition gc_rkrnew (x : list N) : list N :=
  match CodeRabinKarp.rs_FinderRev_new x with
  | Ok f => [1; CodeRabinKarp.Hash_0 (CodeRabinKarp.Finder_hash (CodeRabinKarp.FinderRev_0 f));
             CodeRabinKarp.Finder_hash_2pow (CodeRabinKarp.FinderRev_0 f)]
  | Panic _ => [2]
  end.

(* memmem iterators: the translated size_hint and next, with the specification (leftmost / rightmost
   occurrence) as the searcher oracle; k calls, flattened *)
Definition o_find_spec (x hay : list N) : option N := option_map N.of_nat (find_spec x hay).
Definition o_rfind_spec (x hay : list N) : option N := option_map N.of_nat (rfind_spec x hay).

Fixpoint gc_fiter (k : nat) (x h : list N) (pos : N) : list N :=
  match k with
  | O => []
  | S k' =>
      match CodeIterHint.rs_FindIter_size_hint (CodeIterHint.mkFindIter h pos x),
            CodeIterNext.rs_FindIter_next (o_find_spec x) (CodeIterNext.mkFindIter h pos x) with
      | Ok (lo, hi), Ok (r, it') =>
          lo :: match hi with Some v => v | None => 2 ^ 64 end ::
          match r with Some i => [1; i] | None => [0; 0] end ++ gc_fiter k' x h (CodeIterNext.FindIter_pos it')
      | _, _ => [99]
      end
  end.

Fixpoint gc_riter (k : nat) (x h : list N) (pos : option N) : list N :=
  match k with
  | O => []
  | S k' =>
      match CodeIterNext.rs_FindRevIter_next (o_rfind_spec x) (CodeIterNext.mkFindRevIter h pos) with
      | Ok (r, it') =>
          match r with Some i => [1; i] | None => [0; 0] end ++ gc_riter k' x h (CodeIterNext.FindRevIter_pos it')
      | Panic _ => [99]
      end
  end.
