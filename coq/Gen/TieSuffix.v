(* Tie: translated Suffix::forward / Suffix::reverse and SuffixKind::cmp (src/arch/all/twoway.rs:
   the maximal/minimal-suffix scans of the Two-Way preprocessing, `while` loops translated to
   Fixpoints on explicit fuel) = the model's suffix_fwd_loop / suffix_rev_loop (Sub/TwoWay.v),
   for every needle, kind, amount of fuel and loop state satisfying the loop invariant. *)
From Memchr Require Import Base.Res Base.ListX Gen.Ops Gen.CodeSuffix Sub.TwoWay.
From Coq Require Import Lia ZifyNat ZifyN ZifyBool.
Local Open Scope N_scope.

Definition kind_of (k : skind) : SuffixKind :=
  match k with Minimal => SuffixKind_Minimal | Maximal => SuffixKind_Maximal end.
Definition ord_of (o : sord) : SuffixOrdering :=
  match o with Accept => SuffixOrdering_Accept | Skip => SuffixOrdering_Skip | Push => SuffixOrdering_Push end.
Definition suf_of (s : Suffix) : nat * nat := (N.to_nat (Suffix_pos s), N.to_nat (Suffix_period s)).
Definition st_of (r : Suffix * N * N) : nat * nat := suf_of (fst (fst r)).

Theorem tie_kcmp k a b : rs_SuffixKind_cmp (kind_of k) a b = Ok (ord_of (kcmp k a b)).
Proof.
  destruct k; unfold rs_SuffixKind_cmp, kcmp; cbn [kind_of];
    destruct (b <? a); destruct (a <? b); reflexivity.
Qed.

Lemma add_ok a b : a + b <= tmax 64 -> add_chk 64 a b = Ok (a + b).
Proof. intros H. unfold add_chk. apply N.leb_le in H. rewrite H. reflexivity. Qed.
Lemma sub_ok a b : b <= a -> sub_chk 64 a b = Ok (a - b).
Proof. intros H. unfold sub_chk. apply N.leb_le in H. rewrite H. reflexivity. Qed.
Lemma sub_bad a b : a < b -> sub_chk 64 a b = Panic Overflow.
Proof. intros H. unfold sub_chk. apply N.leb_gt in H. rewrite H. reflexivity. Qed.
Lemma big62 n : n < 2 ^ 62 -> 2 * n + 2 <= tmax 64.
Proof. intros H. change (tmax 64) with (2 ^ 64 - 1). assert (2 * 2 ^ 62 + 2 <= 2 ^ 64 - 1) by (vm_compute; discriminate). lia. Qed.

Lemma fst_tick {A} k (m : M A) : fst (tick k ;;; m) = fst m.
Proof. rewrite fst_bind. reflexivity. Qed.
Lemma fst_lift {A B} (r : res A) (f : A -> M B) :
  fst (x <- lift r;; f x) = match r with Ok a => fst (f a) | Panic p => Panic p end.
Proof. rewrite fst_bind. reflexivity. Qed.

Lemma res_sim_refl {A} (r : res A) : res_sim r r.
Proof. destruct r; cbn; auto. Qed.

Section Fwd.
Variables (x : list N) (k : skind).
Hypothesis Hbig : N.of_nat (length x) < 2 ^ 62.

Lemma tie_suffix_fwd_loop : forall fuel pos period cand off,
  (pos < cand)%nat -> (cand + off <= length x)%nat ->
  res_sim (rmap st_of (rs_Suffix_forward_loop1 x (kind_of k) fuel
                         (mkSuffix (N.of_nat pos) (N.of_nat period)) (N.of_nat cand) (N.of_nat off)))
          (fst (suffix_fwd_loop x k fuel pos period cand off)).
Proof.
  pose proof (big62 _ Hbig) as Hb.
  induction fuel as [|fuel IH]; intros pos period cand off Hpc Hco; [exact I|].
  cbn [rs_Suffix_forward_loop1 suffix_fwd_loop].
  rewrite (add_ok (N.of_nat cand) (N.of_nat off)) by lia. cbn [rbind].
  destruct (N.ltb_spec (N.of_nat cand + N.of_nat off) (N.of_nat (length x))) as [Hlt|Hge];
    destruct (Nat.ltb_spec (cand + off) (length x)) as [Hlt'|Hge']; try lia.
  2:{ unfold rmap, st_of, suf_of. cbn [fst snd Suffix_pos Suffix_period ret res_sim]. rewrite !Nat2N.id. reflexivity. }
  rewrite fst_tick, fst_lift.
  cbn [Suffix_pos Suffix_period].
  rewrite (add_ok (N.of_nat pos) (N.of_nat off)) by lia. cbn [rbind].
  unfold idx_chk.
  replace (N.to_nat (N.of_nat pos + N.of_nat off)) with (pos + off)%nat by lia.
  replace (N.to_nat (N.of_nat cand + N.of_nat off)) with (cand + off)%nat by lia.
  destruct (idx x (pos + off)) as [cur|p]; [|exact I]. cbn [rbind].
  rewrite fst_lift.
  destruct (idx x (cand + off)) as [cnd|p]; [|exact I]. cbn [rbind].
  rewrite tie_kcmp. cbn [rbind].
  destruct (kcmp k cur cnd); cbn [ord_of].
  - (* Accept *)
    rewrite (add_ok (N.of_nat cand) 1) by lia. cbn [rbind].
    replace (N.of_nat cand + 1) with (N.of_nat (cand + 1)) by lia.
    change 1 with (N.of_nat 1) at 1. change 0 with (N.of_nat 0).
    apply IH; lia.
  - (* Skip *)
    rewrite (add_ok (N.of_nat off) 1) by lia. cbn [rbind].
    rewrite (add_ok (N.of_nat cand) (N.of_nat off + 1)) by lia. cbn [rbind].
    rewrite fst_lift. unfold csub.
    destruct (Nat.leb_spec pos (cand + (off + 1))) as [Hle|Hgt]; [|lia].
    rewrite sub_ok by lia. cbn [rbind].
    replace (N.of_nat cand + (N.of_nat off + 1)) with (N.of_nat (cand + (off + 1))) by lia.
    replace (N.of_nat (cand + (off + 1)) - N.of_nat pos) with (N.of_nat (cand + (off + 1) - pos)) by lia.
    change 0 with (N.of_nat 0).
    apply IH; lia.
  - (* Push *)
    rewrite (add_ok (N.of_nat off) 1) by lia. cbn [rbind].
    destruct (N.eqb_spec (N.of_nat off + 1) (N.of_nat period)) as [He|Hne];
      destruct (Nat.eqb_spec (off + 1) period) as [He'|Hne']; try lia.
    + rewrite (add_ok (N.of_nat cand) (N.of_nat period)) by lia. cbn [rbind].
      replace (N.of_nat cand + N.of_nat period) with (N.of_nat (cand + period)) by lia.
      change 0 with (N.of_nat 0).
      apply IH; lia.
    + replace (N.of_nat off + 1) with (N.of_nat (off + 1)) by lia.
      apply IH; lia.
Qed.

Theorem tie_suffix_forward :
  res_sim (rmap suf_of (rs_Suffix_forward (2 * length x + 2) x (kind_of k))) (fst (suffix_fwd x k)).
Proof.
  unfold rs_Suffix_forward, suffix_fwd.
  destruct (Nat.eq_dec (length x) 0) as [H0|H0].
  - (* empty needle: the loop exits at once on both sides *)
    rewrite H0. cbn [Nat.mul Nat.add rs_Suffix_forward_loop1 suffix_fwd_loop].
    rewrite H0. cbn. reflexivity.
  - pose proof (tie_suffix_fwd_loop (2 * length x + 2) 0 1 1 0 ltac:(lia) ltac:(lia)) as H.
    cbn [N.of_nat] in H.
    change (N.pos (Pos.of_succ_nat 0)) with 1 in H.
    destruct (rs_Suffix_forward_loop1 x (kind_of k) (2 * length x + 2) (mkSuffix 0 1) 1 0) as [[[s c] o]|p];
      destruct (fst (suffix_fwd_loop x k (2 * length x + 2) 0 1 1 0)); cbn in *; auto.
Qed.
End Fwd.

Lemma sub_sim (a b : nat) :
  sub_chk 64 (N.of_nat a) (N.of_nat b) =
  match csub a b with Ok r => Ok (N.of_nat r) | Panic _ => Panic Overflow end.
Proof.
  unfold sub_chk, csub.
  destruct (N.leb_spec (N.of_nat b) (N.of_nat a)); destruct (Nat.leb_spec b a); try lia; [|reflexivity].
  f_equal. lia.
Qed.

Lemma csub_le a b r : csub a b = Ok r -> (r <= a)%nat.
Proof. unfold csub. destruct (b <=? a)%nat; [|discriminate]. intros H; injection H as <-. lia. Qed.

Ltac fin_le := repeat match goal with H : csub _ _ = Ok _ |- _ => apply csub_le in H end; lia.

Section Rev.
Variables (x : list N) (k : skind).
Hypothesis Hbig : N.of_nat (length x) < 2 ^ 62.

(* one checked subtraction on both sides: both panic, or both continue with the same number *)
Ltac step_sub a b r :=
  rewrite (sub_sim a b); rewrite fst_lift;
  let E := fresh "E" in destruct (csub a b) as [r|] eqn:E; [cbn [rbind]|exact I].

Lemma tie_suffix_rev_loop : forall fuel pos period cand off,
  (cand <= length x)%nat ->
  res_sim (rmap st_of (rs_Suffix_reverse_loop1 x (kind_of k) fuel
                         (mkSuffix (N.of_nat pos) (N.of_nat period)) (N.of_nat cand) (N.of_nat off)))
          (fst (suffix_rev_loop x k fuel pos period cand off)).
Proof.
  pose proof (big62 _ Hbig) as Hb.
  induction fuel as [|fuel IH]; intros pos period cand off Hc; [exact I|].
  cbn [rs_Suffix_reverse_loop1 suffix_rev_loop].
  destruct (N.ltb_spec (N.of_nat off) (N.of_nat cand)) as [Hlt|Hge];
    destruct (Nat.ltb_spec off cand) as [Hlt'|Hge']; try lia.
  2:{ unfold rmap, st_of, suf_of. cbn [fst snd Suffix_pos Suffix_period ret res_sim]. rewrite !Nat2N.id. reflexivity. }
  rewrite fst_tick. cbn [Suffix_pos Suffix_period].
  step_sub pos off i1. change 1 with (N.of_nat 1). step_sub i1 1%nat i1'.
  unfold idx_chk. rewrite Nat2N.id. rewrite fst_lift.
  destruct (idx x i1') as [cur|p]; [|exact I]. cbn [rbind].
  step_sub cand off i2. step_sub i2 1%nat i2'.
  rewrite Nat2N.id. rewrite fst_lift.
  destruct (idx x i2') as [cnd|p]; [|exact I]. cbn [rbind].
  rewrite tie_kcmp. cbn [rbind].
  destruct (kcmp k cur cnd); cbn [ord_of].
  - (* Accept *)
    step_sub cand 1%nat c'. change 0 with (N.of_nat 0).
    apply IH. fin_le.
  - (* Skip *)
    change (N.of_nat 1) with 1.
    rewrite (add_ok (N.of_nat off) 1) by lia. cbn [rbind].
    replace (N.of_nat off + 1) with (N.of_nat (off + 1)) by lia.
    rewrite (sub_sim cand (off + 1)); rewrite fst_lift.
    destruct (csub cand (off + 1)) as [c'|] eqn:Ec; [cbn [rbind]|exact I].
    step_sub pos c' p'. change 0 with (N.of_nat 0).
    apply IH. fin_le.
  - (* Push *)
    change (N.of_nat 1) with 1.
    rewrite (add_ok (N.of_nat off) 1) by lia. cbn [rbind].
    destruct (N.eqb_spec (N.of_nat off + 1) (N.of_nat period)) as [He|Hne];
      destruct (Nat.eqb_spec (off + 1) period) as [He'|Hne']; try lia.
    + rewrite (sub_sim cand period); rewrite fst_lift.
      destruct (csub cand period) as [c'|] eqn:Ec; [cbn [rbind]|exact I].
      change 0 with (N.of_nat 0).
      apply IH. fin_le.
    + cbn [rbind]. replace (N.of_nat off + 1) with (N.of_nat (off + 1)) by lia.
      apply IH; lia.
Qed.

Theorem tie_suffix_reverse :
  res_sim (rmap suf_of (rs_Suffix_reverse (2 * length x + 2) x (kind_of k))) (fst (suffix_rev x k)).
Proof.
  unfold rs_Suffix_reverse, suffix_rev, chk_sub_opt.
  destruct (N.eqb_spec (N.of_nat (length x)) 1) as [H1|H1];
    destruct (Nat.eqb_spec (length x) 1) as [H1'|H1']; try lia.
  - unfold rmap, suf_of. cbn [Suffix_pos Suffix_period fst ret res_sim]. rewrite Nat2N.id. reflexivity.
  - pose proof (tie_suffix_rev_loop (2 * length x + 2) (length x) 1 (length x - 1) 0 ltac:(lia)) as H.
    clear Hbig. destruct (length x) as [|c] eqn:En.
    + cbn. reflexivity.
    + assert (E : (1 <=? N.of_nat (S c)) = true) by (apply N.leb_le; lia). rewrite E.
      replace (N.of_nat (S c) - 1) with (N.of_nat c) by lia.
      replace (S c - 1)%nat with c in H by lia.
      change (N.of_nat 1) with 1 in H. change (N.of_nat 0) with 0 in H.
      destruct (rs_Suffix_reverse_loop1 x (kind_of k) (2 * S c + 2) (mkSuffix (N.of_nat (S c)) 1) (N.of_nat c) 0) as [[[s cc] o]|p];
        destruct (fst (suffix_rev_loop x k (2 * S c + 2) (S c) 1 c 0)); cbn in *; auto.
Qed.
End Rev.

Print Assumptions tie_kcmp.
Print Assumptions tie_suffix_fwd_loop.
Print Assumptions tie_suffix_forward.
Print Assumptions tie_suffix_rev_loop.
Print Assumptions tie_suffix_reverse.
