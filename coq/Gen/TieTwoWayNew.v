(* Tie: the translated Two-Way constructors twoway::Finder::new / FinderRev::new
   (src/arch/all/twoway.rs), which call the translated ApproximateByteSet::new, Suffix::forward /
   reverse and Shift::forward / reverse, = the model's tw_new / tw_new_rev (Sub/TwoWay.v), for
   every needle.  With this the whole Two-Way preprocessing that the C03/C04/C12 theorems
   (critical factorisation, maximal suffixes, shift classes) speak about is the source text itself. *)
From Memchr Require Import Base.Res Base.ListX Gen.Ops Gen.CodeByteSet Gen.CodeSuffix Gen.CodeShift Gen.CodeTwoWayNew
  Gen.TieByteSet Gen.TieSuffix Gen.TieShift Sub.TwoWay Sub.TwoWayPreProofs Sub.TwoWayCert Sub.TwoWayTier2 Sub.TwoWayTier2Rev.
From Coq Require Import Lia ZifyNat ZifyN ZifyBool.
Local Open Scope N_scope.

Definition tw_of (t : TwoWay) : twoway :=
  {| tw_byteset := ApproximateByteSet_0 (TwoWay_byteset t);
     tw_cp := N.to_nat (TwoWay_critical_pos t);
     tw_shift := shift_of (TwoWay_shift t) |}.

Lemma fst_bind_ok {A B} (m : M A) (f : A -> M B) a : fst m = Ok a -> fst (bind m f) = fst (f a).
Proof. intros H. rewrite fst_bind, H. reflexivity. Qed.

Lemma suffix_sim_ok (g : res Suffix) (mn : nat * nat) :
  res_sim (rmap suf_of g) (Ok mn) -> exists s, g = Ok s /\ suf_of s = mn.
Proof. destruct g as [s|p]; cbn; [intros H; exists s; auto|contradiction]. Qed.

Theorem tie_twoway_new (x : list N) :
  N.of_nat (length x) < 2 ^ 62 ->
  res_sim (rmap (fun f => tw_of (Finder_0 f)) (rs_Finder_new (2 * length x + 2) x)) (fst (tw_new x)).
Proof.
  intros Hbig. destruct x as [|b0 xt] eqn:Ex; [vm_compute; reflexivity|]. rewrite <- Ex in *.
  assert (Hlen : (1 <= length x)%nat) by (subst x; cbn; lia).
  unfold rs_Finder_new, tw_new.
  pose proof (tie_byteset_new x) as Hbs.
  destruct (rs_ApproximateByteSet_new x) as [[bits]|p]; [|discriminate]. cbn in Hbs. injection Hbs as Hbs.
  cbn [rbind].
  destruct (satq_fst _ _ _ (suffix_fwd_ok x Minimal)) as (mn & Emn & (M1 & M2 & M3) & _).
  destruct (satq_fst _ _ _ (suffix_fwd_ok x Maximal)) as (mx & Emx & (X1 & X2 & X3) & _).
  pose proof (tie_suffix_forward x Minimal Hbig) as Hmn. rewrite Emn in Hmn.
  pose proof (tie_suffix_forward x Maximal Hbig) as Hmx. rewrite Emx in Hmx.
  destruct (suffix_sim_ok _ _ Hmn) as (smn & Gmn & Smn).
  destruct (suffix_sim_ok _ _ Hmx) as (smx & Gmx & Smx).
  cbn [kind_of] in Gmn, Gmx. rewrite Gmn, Gmx. cbn [rbind].
  rewrite (fst_bind_ok _ _ _ Emn), (fst_bind_ok _ _ _ Emx).
  destruct smn as [pmn qmn], smx as [pmx qmx]. unfold suf_of in Smn, Smx. cbn [Suffix_pos Suffix_period] in *.
  subst mn mx. cbn [fst snd] in *.
  replace (Nat.max (length x) 1) with (length x) in * by lia.
  destruct (N.ltb_spec pmx pmn) as [Hl|Hl];
    destruct (Nat.ltb_spec (N.to_nat pmx) (N.to_nat pmn)) as [Hl'|Hl']; try lia; cbn [fst snd].
  - pose proof (tie_shift_forward_model x (N.to_nat qmn) (N.to_nat pmn) Hbig ltac:(lia) ltac:(lia)) as Hs.
    rewrite !N2Nat.id in Hs.
    destruct (rs_Shift_forward x qmn pmn) as [sh|p]; cbn [rmap] in Hs.
    + cbn [rbind]. rewrite (fst_bind_ok _ _ _ (eq_sym Hs)). cbn. unfold tw_of. cbn. subst bits. reflexivity.
    + cbn [rbind rmap res_sim]. rewrite fst_bind, <- Hs. exact I.
  - pose proof (tie_shift_forward_model x (N.to_nat qmx) (N.to_nat pmx) Hbig ltac:(lia) ltac:(lia)) as Hs.
    rewrite !N2Nat.id in Hs.
    destruct (rs_Shift_forward x qmx pmx) as [sh|p]; cbn [rmap] in Hs.
    + cbn [rbind]. rewrite (fst_bind_ok _ _ _ (eq_sym Hs)). cbn. unfold tw_of. cbn. subst bits. reflexivity.
    + cbn [rbind rmap res_sim]. rewrite fst_bind, <- Hs. exact I.
Qed.

Theorem tie_twoway_new_rev (x : list N) :
  N.of_nat (length x) < 2 ^ 62 ->
  res_sim (rmap (fun f => tw_of (FinderRev_0 f)) (rs_FinderRev_new (2 * length x + 2) x)) (fst (tw_new_rev x)).
Proof.
  intros Hbig. destruct x as [|b0 xt] eqn:Ex; [vm_compute; reflexivity|]. rewrite <- Ex in *.
  assert (Hlen : (1 <= length x)%nat) by (subst x; cbn; lia).
  unfold rs_FinderRev_new, tw_new_rev.
  pose proof (tie_byteset_new x) as Hbs.
  destruct (rs_ApproximateByteSet_new x) as [[bits]|p]; [|discriminate]. cbn in Hbs. injection Hbs as Hbs.
  cbn [rbind].
  destruct (satq_fst _ _ _ (suffix_rev_ok x Minimal)) as (mn & Emn & (M1 & M2 & M3 & M4) & _).
  destruct (satq_fst _ _ _ (suffix_rev_ok x Maximal)) as (mx & Emx & (X1 & X2 & X3 & X4) & _).
  pose proof (tie_suffix_reverse x Minimal Hbig) as Hmn. rewrite Emn in Hmn.
  pose proof (tie_suffix_reverse x Maximal Hbig) as Hmx. rewrite Emx in Hmx.
  destruct (suffix_sim_ok _ _ Hmn) as (smn & Gmn & Smn).
  destruct (suffix_sim_ok _ _ Hmx) as (smx & Gmx & Smx).
  cbn [kind_of] in Gmn, Gmx. rewrite Gmn, Gmx. cbn [rbind].
  rewrite (fst_bind_ok _ _ _ Emn), (fst_bind_ok _ _ _ Emx).
  destruct smn as [pmn qmn], smx as [pmx qmx]. unfold suf_of in Smn, Smx. cbn [Suffix_pos Suffix_period] in *.
  subst mn mx. cbn [fst snd] in *.
  specialize (M1 Hlen). specialize (M4 Hlen). specialize (X1 Hlen). specialize (X4 Hlen).
  destruct (N.ltb_spec pmn pmx) as [Hl|Hl];
    destruct (Nat.ltb_spec (N.to_nat pmn) (N.to_nat pmx)) as [Hl'|Hl']; try lia; cbn [fst snd].
  - pose proof (tie_shift_reverse x (N.to_nat qmn) (N.to_nat pmn) Hbig ltac:(lia) ltac:(lia)) as Hs.
    rewrite !N2Nat.id in Hs.
    destruct (rs_Shift_reverse x qmn pmn) as [sh|p]; cbn [rmap] in Hs.
    + cbn [rbind]. rewrite (fst_bind_ok _ _ _ (eq_sym Hs)). cbn. unfold tw_of. cbn. subst bits. reflexivity.
    + cbn [rbind rmap res_sim]. rewrite fst_bind, <- Hs. exact I.
  - pose proof (tie_shift_reverse x (N.to_nat qmx) (N.to_nat pmx) Hbig ltac:(lia) ltac:(lia)) as Hs.
    rewrite !N2Nat.id in Hs.
    destruct (rs_Shift_reverse x qmx pmx) as [sh|p]; cbn [rmap] in Hs.
    + cbn [rbind]. rewrite (fst_bind_ok _ _ _ (eq_sym Hs)). cbn. unfold tw_of. cbn. subst bits. reflexivity.
    + cbn [rbind rmap res_sim]. rewrite fst_bind, <- Hs. exact I.
Qed.

(* C14 on the translated constructors: with overflow checks on, neither panics for any needle
   (the model does not: tw_new_ok / the C14 theorems), and fuel 2|x|+2 always suffices *)
Theorem code_twoway_new_never_panics (x : list N) :
  N.of_nat (length x) < 2 ^ 62 -> (forall tw, fst (tw_new x) = Ok tw -> exists f, rs_Finder_new (2 * length x + 2) x = Ok f).
Proof.
  intros Hbig tw Htw. pose proof (tie_twoway_new x Hbig) as H. rewrite Htw in H.
  destruct (rs_Finder_new _ x); [eexists; reflexivity|contradiction].
Qed.

(* C03 / C04 / C12 on the translated preprocessing: for EVERY non-empty needle the source text of
   twoway::Finder::new (FinderRev::new) returns normally and what it computes satisfies the Two-Way
   certificate (critical position is a critical factorisation, the shift class and value are right, the
   byte set contains every needle byte), which is the hypothesis under which the search loops are proved
   to return exactly the leftmost (rightmost) occurrence. *)
Theorem code_twoway_new_certified (x : list N) :
  N.of_nat (length x) < 2 ^ 62 -> (1 <= length x)%nat ->
  exists f, rs_Finder_new (2 * length x + 2) x = Ok f /\ tw_cert_fwd x (tw_of (Finder_0 f)) = true.
Proof.
  intros Hbig Hlen. pose proof (tw_cert_fwd_all x Hlen) as C. unfold tw_cert_fwd_of in C.
  pose proof (tie_twoway_new x Hbig) as T.
  destruct (fst (tw_new x)) as [tw|p]; [|discriminate].
  destruct (rs_Finder_new (2 * length x + 2) x) as [f|p]; cbn in T; [|contradiction].
  exists f. split; [reflexivity|]. rewrite T. exact C.
Qed.

Theorem code_twoway_new_rev_certified (x : list N) :
  N.of_nat (length x) < 2 ^ 62 -> (1 <= length x)%nat ->
  exists f, rs_FinderRev_new (2 * length x + 2) x = Ok f /\ tw_cert_rev x (tw_of (FinderRev_0 f)) = true.
Proof.
  intros Hbig Hlen. pose proof (tw_cert_rev_all x Hlen) as C. unfold tw_cert_rev_of in C.
  pose proof (tie_twoway_new_rev x Hbig) as T.
  destruct (fst (tw_new_rev x)) as [tw|p]; [|discriminate].
  destruct (rs_FinderRev_new (2 * length x + 2) x) as [f|p]; cbn in T; [|contradiction].
  exists f. split; [reflexivity|]. rewrite T. exact C.
Qed.

Print Assumptions tie_twoway_new.
Print Assumptions tie_twoway_new_rev.
Print Assumptions code_twoway_new_never_panics.
Print Assumptions code_twoway_new_certified.
Print Assumptions code_twoway_new_rev_certified.
