(* Tie: translated Shift::forward / Shift::reverse (src/arch/all/twoway.rs) = the model's
   shift_fwd / shift_rev (Sub/TwoWay.v), on the domain on which Finder::new / FinderRev::new
   call them (critical position inside the needle, period bound inside the factor). *)
From Memchr Require Import Base.Res Base.ListX Gen.Ops Gen.CodeShift Sub.IsEqual Sub.IsEqualProofs
  Sub.TwoWay Sub.Words Sub.TwoWayTier2.
From Coq Require Import Lia ZifyNat ZifyN ZifyBool.
Local Open Scope N_scope.

Definition shift_of (s : Shift) : shift :=
  match s with Shift_Small p => Small (N.to_nat p) | Shift_Large k => Large (N.to_nat k) end.

Lemma large_eq (cp n : nat) :
  N.to_nat (N.max (N.of_nat cp) (N.of_nat n - N.of_nat cp)) = Nat.max cp (n - cp).
Proof. rewrite N2Nat.inj_max, N2Nat.inj_sub, !Nat2N.id. reflexivity. Qed.

Ltac fin := cbn [negb rmap shift_of]; rewrite ?large_eq, ?Nat2N.id; reflexivity.

Lemma slice_mid (x : list N) (a b : nat) :
  (a <= b)%nat -> (b + a <= length x)%nat ->
  skipn (b - a) (firstn b (skipn a x)) = slice x b a.
Proof.
  intros H1 H2. unfold slice.
  rewrite skipn_firstn_comm. rewrite skipn_skipn'.
  replace (a + (b - a))%nat with b by lia. replace (b - (b - a))%nat with a by lia. reflexivity.
Qed.

Theorem tie_shift_forward (x : list N) (plb cp : nat) :
  N.of_nat (length x) < 2 ^ 62 -> (cp <= length x)%nat -> (plb <= length x - cp)%nat ->
  rmap shift_of (rs_Shift_forward x (N.of_nat plb) (N.of_nat cp)) = Ok (shift_fwd_pure x plb cp).
Proof.
  intros Hbig Hcp Hplb. unfold rs_Shift_forward, shift_fwd_pure, sub_chk, mul_chk, split_at_chk, slice_to_chk.
  assert (E1 : (N.of_nat cp <=? N.of_nat (length x)) = true) by (apply N.leb_le; lia).
  rewrite E1. cbn [rbind].
  assert (E2 : (N.of_nat cp * 2 <=? tmax 64) = true).
  { apply N.leb_le. change (tmax 64) with (2 ^ 64 - 1). assert (2 ^ 62 * 2 <= 2 ^ 64 - 1) by (vm_compute; discriminate). lia. }
  rewrite E2. cbn [rbind].
  destruct (N.leb_spec (N.of_nat (length x)) (N.of_nat cp * 2)) as [Hl|Hl];
    destruct (Nat.leb_spec (length x) (cp * 2)) as [Hl'|Hl']; try lia.
  - fin.
  - cbn [rbind fst snd]. rewrite !Nat2N.id.
    assert (E3 : (N.of_nat plb <=? N.of_nat (length (skipn cp x))) = true).
    { apply N.leb_le. rewrite skipn_length. lia. }
    rewrite E3. cbn [rbind].
    unfold is_suffix_l. rewrite !firstn_length, skipn_length.
    replace (Nat.min cp (length x)) with cp by lia.
    replace (Nat.min plb (length x - cp)) with plb by lia.
    destruct (Nat.leb_spec cp plb) as [Hc|Hc]; cbn [andb negb].
    + rewrite slice_mid by lia. change (slice x 0 cp) with (firstn cp x).
      destruct (list_eqb (slice x plb cp) (firstn cp x)); fin.
    + fin.
Qed.

(* and therefore equal to the monadic model the property theorems are about *)
Theorem tie_shift_forward_model (x : list N) (plb cp : nat) :
  N.of_nat (length x) < 2 ^ 62 -> (cp <= length x)%nat -> (plb <= length x - cp)%nat ->
  rmap shift_of (rs_Shift_forward x (N.of_nat plb) (N.of_nat cp)) = fst (shift_fwd x plb cp).
Proof.
  intros H1 H2 H3. rewrite tie_shift_forward by assumption. symmetry. apply shift_fwd_pure_eq; assumption.
Qed.

Definition shift_rev_pure (x : list N) (plb cp : nat) : shift :=
  let n := length x in
  let large := Nat.max cp (n - cp) in
  if (n <=? (n - cp) * 2)%nat then Large large
  else if ((n - cp <=? plb)%nat && list_eqb (slice x (cp - plb) (n - cp)) (slice x cp (n - cp)))%bool then Small plb
  else Large large.

Lemma shift_rev_model (x : list N) plb cp :
  (cp <= length x)%nat -> (plb <= cp)%nat ->
  fst (shift_rev x plb cp) = Ok (shift_rev_pure x plb cp).
Proof.
  intros H2 H4. unfold shift_rev, shift_rev_pure.
  rewrite (csub_ok (length x) cp H2), bind_lift_ok.
  destruct (length x <=? (length x - cp) * 2)%nat eqn:Ebig; [reflexivity|].
  assert (cp <=? length x = true)%nat as -> by (apply Nat.leb_le; exact H2). rewrite bind_guard_true.
  rewrite (csub_ok cp plb H4), bind_lift_ok.
  destruct (length x - cp <=? plb)%nat eqn:E; cbn [andb].
  - apply Nat.leb_le in E.
    destruct (is_equal_raw_sat RNeedle RNeedle x x (cp - plb) cp (length x - cp)
                ltac:(lia) ltac:(lia)) as (b & Hb & -> & _).
    rewrite fst_bind, Hb.
    destruct (list_eqb (slice x (cp - plb) (length x - cp)) (slice x cp (length x - cp))); reflexivity.
  - rewrite bind_ret. reflexivity.
Qed.

Theorem tie_shift_reverse (x : list N) (plb cp : nat) :
  N.of_nat (length x) < 2 ^ 62 -> (cp <= length x)%nat -> (plb <= cp)%nat ->
  rmap shift_of (rs_Shift_reverse x (N.of_nat plb) (N.of_nat cp)) = fst (shift_rev x plb cp).
Proof.
  intros Hbig Hcp Hplb. rewrite shift_rev_model by assumption.
  unfold rs_Shift_reverse, shift_rev_pure, sub_chk, mul_chk, split_at_chk, slice_from_chk.
  assert (E1 : (N.of_nat cp <=? N.of_nat (length x)) = true) by (apply N.leb_le; lia).
  rewrite E1. cbn [rbind].
  assert (E2 : ((N.of_nat (length x) - N.of_nat cp) * 2 <=? tmax 64) = true).
  { apply N.leb_le. change (tmax 64) with (2 ^ 64 - 1). assert (2 ^ 62 * 2 <= 2 ^ 64 - 1) by (vm_compute; discriminate). lia. }
  rewrite E2. cbn [rbind].
  destruct (N.leb_spec (N.of_nat (length x)) ((N.of_nat (length x) - N.of_nat cp) * 2)) as [Hl|Hl];
    destruct (Nat.leb_spec (length x) ((length x - cp) * 2)) as [Hl'|Hl']; try lia.
  - fin.
  - cbn [rbind fst snd]. rewrite !Nat2N.id. rewrite firstn_length.
    replace (Nat.min cp (length x)) with cp by lia.
    assert (E3 : (N.of_nat plb <=? N.of_nat cp) = true) by (apply N.leb_le; lia).
    rewrite E3. cbn [rbind].
    assert (E4 : (N.of_nat cp - N.of_nat plb <=? N.of_nat cp) = true) by (apply N.leb_le; lia).
    rewrite E4. cbn [rbind].
    replace (N.to_nat (N.of_nat cp - N.of_nat plb)) with (cp - plb)%nat by lia.
    unfold is_prefix_l. rewrite !skipn_length, firstn_length.
    replace (Nat.min cp (length x)) with cp by lia.
    replace (cp - (cp - plb))%nat with plb by lia.
    destruct (Nat.leb_spec (length x - cp) plb) as [Hc|Hc]; cbn [andb negb].
    + assert (Hs1 : firstn (length x - cp) (skipn (cp - plb) (firstn cp x)) = slice x (cp - plb) (length x - cp)).
      { unfold slice. rewrite skipn_firstn_comm, firstn_firstn. f_equal. lia. }
      assert (Hs2 : skipn cp x = slice x cp (length x - cp)).
      { unfold slice. rewrite firstn_all2; [reflexivity|]. rewrite skipn_length. lia. }
      rewrite Hs1, Hs2.
      destruct (list_eqb _ _); fin.
    + fin.
Qed.

(* C14: on that domain neither function panics (no underflow, no slice index out of range) *)
Theorem code_shift_never_panics (x : list N) (plb cp : nat) :
  N.of_nat (length x) < 2 ^ 62 -> (cp <= length x)%nat ->
  ((plb <= length x - cp)%nat -> exists s, rs_Shift_forward x (N.of_nat plb) (N.of_nat cp) = Ok s) /\
  ((plb <= cp)%nat -> exists s, rs_Shift_reverse x (N.of_nat plb) (N.of_nat cp) = Ok s).
Proof.
  intros H1 H2. split; intros H3.
  - pose proof (tie_shift_forward x plb cp H1 H2 H3) as T.
    destruct (rs_Shift_forward _ _ _); [eexists; reflexivity|discriminate].
  - pose proof (tie_shift_reverse x plb cp H1 H2 H3) as T. rewrite shift_rev_model in T by assumption.
    destruct (rs_Shift_reverse _ _ _); [eexists; reflexivity|discriminate].
Qed.

Print Assumptions tie_shift_forward.
Print Assumptions tie_shift_forward_model.
Print Assumptions tie_shift_reverse.
Print Assumptions code_shift_never_panics.
