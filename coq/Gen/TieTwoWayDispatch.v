(* Tie: the translated dispatchers twoway::Finder::find_with_prefilter and twoway::FinderRev::rfind
   (src/arch/all/twoway.rs: small-period loop for Shift::Small, large-shift loop for Shift::Large) = the
   dispatch of the model's tw_find / tw_rfind (Sub/TwoWay.v).  The two loops are oracles. *)
From Memchr Require Import Base.Res Gen.Ops Gen.CodeShift Gen.CodeTwoWayNew Gen.CodeTwoWayDispatch Gen.TieShift Gen.TieTwoWayNew
  Sub.Prefilter Sub.TwoWay.
Local Open Scope N_scope.

Definition on (o : option N) : option nat := option_map N.to_nat o.

Section D.
Variables (f : Finder) (pre : option prefn) (a : nat) (h x : list N) (st : prestate).
Variables (o_small o_large : N -> option N).
Let tw := tw_of (Finder_0 f).
Hypothesis Hs : forall p, tw_shift tw = Small (N.to_nat p) ->
  rmap fst (fst (if (length x =? 0)%nat then ret (Some 0%nat, st) else find_small_loop tw pre a h x (S (S (length h))) (N.to_nat p) 0 0 st))
  = Ok (on (o_small p)).
Hypothesis Hl : forall s, tw_shift tw = Large (N.to_nat s) ->
  rmap fst (fst (if (length x =? 0)%nat then ret (Some 0%nat, st) else find_large_loop tw pre a h x (S (S (length h))) (N.to_nat s) 0 st))
  = Ok (on (o_large s)).

Theorem tie_tw_find_dispatch :
  rmap on (rs_Finder_find_with_prefilter o_large o_small f h x) = rmap fst (fst (tw_find tw pre a h x st)).
Proof.
  unfold rs_Finder_find_with_prefilter, tw_find.
  destruct (TwoWay_shift (Finder_0 f)) as [p|s] eqn:E; cbn [rmap].
  - assert (H : tw_shift tw = Small (N.to_nat p)) by (subst tw; unfold tw_of; cbn [tw_shift]; rewrite E; reflexivity).
    rewrite H. cbv beta iota. symmetry. exact (Hs p H).
  - assert (H : tw_shift tw = Large (N.to_nat s)) by (subst tw; unfold tw_of; cbn [tw_shift]; rewrite E; reflexivity).
    rewrite H. cbv beta iota. symmetry. exact (Hl s H).
Qed.
End D.

Section R.
Variables (f : FinderRev) (h x : list N).
Variables (o_rsmall o_rlarge : N -> option N).
Let tw := tw_of (FinderRev_0 f).
Hypothesis Hs : forall p, tw_shift tw = Small (N.to_nat p) ->
  fst (if (length x =? 0)%nat then ret (Some (length h)) else rfind_small_loop tw h x (S (S (length h))) (N.to_nat p) (length h) (length x))
  = Ok (on (o_rsmall p)).
Hypothesis Hl : forall s, tw_shift tw = Large (N.to_nat s) ->
  fst (if (length x =? 0)%nat then ret (Some (length h)) else rfind_large_loop tw h x (S (S (length h))) (N.to_nat s) (length h))
  = Ok (on (o_rlarge s)).

Theorem tie_tw_rfind_dispatch :
  rmap on (rs_FinderRev_rfind o_rlarge o_rsmall f h x) = fst (tw_rfind tw h x).
Proof.
  unfold rs_FinderRev_rfind, tw_rfind.
  destruct (TwoWay_shift (FinderRev_0 f)) as [p|s] eqn:E; cbn [rmap].
  - assert (H : tw_shift tw = Small (N.to_nat p)) by (subst tw; unfold tw_of; cbn [tw_shift]; rewrite E; reflexivity).
    rewrite H. cbv beta iota. symmetry. exact (Hs p H).
  - assert (H : tw_shift tw = Large (N.to_nat s)) by (subst tw; unfold tw_of; cbn [tw_shift]; rewrite E; reflexivity).
    rewrite H. cbv beta iota. symmetry. exact (Hl s H).
Qed.
End R.

Print Assumptions tie_tw_find_dispatch.
Print Assumptions tie_tw_rfind_dispatch.
