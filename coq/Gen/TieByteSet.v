(* Tie: translated ApproximateByteSet (src/arch/all/twoway.rs) = model Sub/TwoWay.v byteset_* *)
From Memchr Require Import Base.Res Gen.Ops Gen.CodeByteSet Sub.TwoWay.
From Coq Require Import Lia.
Local Open Scope N_scope.

Lemma bit_of b : (t <-- rem_chk 8 b 64;; shl_chk 64 1 t) = Ok (byteset_bit b).
Proof.
  unfold rem_chk, shl_chk, byteset_bit, wrapw. cbn [N.eqb rbind].
  assert (Hlt : b mod 64 < 64) by (apply N.mod_lt; discriminate).
  assert (H : (b mod 64 <? 64) = true) by (apply N.ltb_lt; exact Hlt).
  rewrite H. rewrite N.shiftl_1_l. rewrite N.mod_small; [reflexivity|].
  apply N.pow_lt_mono_r; [reflexivity|exact Hlt].
Qed.

Theorem tie_byteset_contains bits b :
  rs_ApproximateByteSet_contains (mkApproximateByteSet bits) b = Ok (byteset_contains bits b).
Proof.
  unfold rs_ApproximateByteSet_contains.
  pose proof (bit_of b) as H. unfold rbind in *.
  destruct (rem_chk 8 b 64) as [t|p]; [|discriminate]. rewrite H. reflexivity.
Qed.

Theorem tie_byteset_new x :
  rmap ApproximateByteSet_0 (rs_ApproximateByteSet_new x) = Ok (byteset_new x).
Proof.
  unfold rs_ApproximateByteSet_new, byteset_new.
  rewrite (rfold_ok_fold _ (fun bits b => N.lor bits (byteset_bit b)) (fun _ => True)).
  - reflexivity.
  - intros a b _. pose proof (bit_of b) as H. unfold rbind in *.
    destruct (rem_chk 8 b 64) as [t|p]; [|discriminate]. rewrite H. reflexivity.
  - apply Forall_forall. intros; exact I.
Qed.

(* C14: `1 << (b % 64)` never shifts by the width or more, for any byte *)
Theorem code_byteset_never_panics bs x b :
  (exists r, rs_ApproximateByteSet_new x = Ok r) /\ (exists r, rs_ApproximateByteSet_contains bs b = Ok r).
Proof.
  split.
  - pose proof (tie_byteset_new x) as H. destruct (rs_ApproximateByteSet_new x); [eexists; reflexivity|discriminate].
  - destruct bs as [bits]. rewrite tie_byteset_contains. eexists; reflexivity.
Qed.

Print Assumptions tie_byteset_contains.
Print Assumptions tie_byteset_new.
Print Assumptions code_byteset_never_panics.
