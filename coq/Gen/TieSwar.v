(* Tie: translated SWAR helpers (src/arch/all/memchr.rs: splat, has_zero_byte) = model Base/Word.v at w = 8 *)
From Memchr Require Import Base.Res Base.Word Gen.Ops Gen.CodeSwar.
From Coq Require Import Lia.
Local Open Scope N_scope.

Lemma word_mod_8 : word_mod 8 = 2 ^ 64. Proof. reflexivity. Qed.
Lemma unit64 : tmax 64 / 255 = 72340172838076673. Proof. reflexivity. Qed.

Theorem tie_splat b : b < 256 -> rs_swar_splat b = Ok (splat 8 b).
Proof.
  intros Hb. unfold rs_swar_splat, splat, div_chk, mul_chk. cbn [N.eqb rbind].
  rewrite word_mod_8. change (2 ^ 64 - 1) with (tmax 64). rewrite unit64.
  assert (H : b * 72340172838076673 <=? tmax 64 = true).
  { apply N.leb_le. change (tmax 64) with (255 * 72340172838076673). apply N.mul_le_mono_r. lia. }
  rewrite H. reflexivity.
Qed.

Theorem tie_has_zero_byte x : rs_swar_has_zero_byte x = Ok (has_zero_byte 8 x).
Proof.
  unfold rs_swar_has_zero_byte.
  rewrite (tie_splat 1) by reflexivity. rewrite (tie_splat 128) by reflexivity. cbn [rbind].
  unfold has_zero_byte, wr_sub, bnot, wrapw. rewrite word_mod_8.
  change (2 ^ 64 - 1) with (tmax 64).
  replace (splat 8 1 mod 2 ^ 64) with (splat 8 1) by reflexivity.
  reflexivity.
Qed.

(* C14: has_zero_byte never trips an overflow check *)
Theorem code_has_zero_byte_never_panics x : exists r, rs_swar_has_zero_byte x = Ok r.
Proof. rewrite tie_has_zero_byte. eexists; reflexivity. Qed.

(* ---- the searchers One / Two / Three of the portable code: constructor, has_needle, confirm ---- *)
From Memchr Require Import Mem.Bytewise Mem.Swar.

Definition one_ok (f : One) := One_v1 f = splat 8 (One_s1 f).
Definition two_ok (f : Two) := Two_v1 f = splat 8 (Two_s1 f) /\ Two_v2 f = splat 8 (Two_s2 f).
Definition three_ok (f : Three) :=
  Three_v1 f = splat 8 (Three_s1 f) /\ Three_v2 f = splat 8 (Three_s2 f) /\ Three_v3 f = splat 8 (Three_s3 f).

Theorem tie_one_new b : b < 256 -> exists f, rs_One_new b = Ok f /\ One_s1 f = b /\ one_ok f.
Proof. intros H. unfold rs_One_new. rewrite (tie_splat b H). eexists; repeat split. Qed.
Theorem tie_two_new a b : a < 256 -> b < 256 ->
  exists f, rs_Two_new a b = Ok f /\ Two_s1 f = a /\ Two_s2 f = b /\ two_ok f.
Proof. intros Ha Hb. unfold rs_Two_new. rewrite (tie_splat a Ha), (tie_splat b Hb). eexists; repeat split. Qed.
Theorem tie_three_new a b c : a < 256 -> b < 256 -> c < 256 ->
  exists f, rs_Three_new a b c = Ok f /\ Three_s1 f = a /\ Three_s2 f = b /\ Three_s3 f = c /\ three_ok f.
Proof.
  intros Ha Hb Hc. unfold rs_Three_new. rewrite (tie_splat a Ha), (tie_splat b Hb), (tie_splat c Hc).
  eexists; repeat split.
Qed.

Theorem tie_one_has_needle f chunk : one_ok f ->
  rs_One_has_needle f (le_word chunk) = Ok (has_needle 8 [One_s1 f] chunk).
Proof.
  intros H. unfold rs_One_has_needle, has_needle. rewrite tie_has_zero_byte, H. cbn [existsb]. rewrite orb_false_r. reflexivity.
Qed.
Theorem tie_two_has_needle f chunk : two_ok f ->
  rs_Two_has_needle f (le_word chunk) = Ok (has_needle 8 [Two_s1 f; Two_s2 f] chunk).
Proof.
  intros [H1 H2]. unfold rs_Two_has_needle, has_needle. rewrite !tie_has_zero_byte, H1, H2. cbn [rbind existsb].
  rewrite orb_false_r. destruct (has_zero_byte 8 _); reflexivity.
Qed.
Theorem tie_three_has_needle f chunk : three_ok f ->
  rs_Three_has_needle f (le_word chunk) = Ok (has_needle 8 [Three_s1 f; Three_s2 f; Three_s3 f] chunk).
Proof.
  intros (H1 & H2 & H3). unfold rs_Three_has_needle, has_needle. rewrite !tie_has_zero_byte, H1, H2, H3. cbn [rbind existsb].
  rewrite orb_false_r.
  destruct (has_zero_byte 8 (N.lxor (splat 8 (Three_s1 f)) (le_word chunk))); cbn [rbind orb]; [reflexivity|].
  destruct (has_zero_byte 8 (N.lxor (splat 8 (Three_s2 f)) (le_word chunk))); reflexivity.
Qed.

Theorem tie_one_confirm f b : rs_One_confirm f b = Ok (confirm [One_s1 f] b).
Proof. unfold rs_One_confirm, confirm. cbn [existsb]. rewrite orb_false_r. reflexivity. Qed.
Theorem tie_two_confirm f b : rs_Two_confirm f b = Ok (confirm [Two_s1 f; Two_s2 f] b).
Proof. unfold rs_Two_confirm, confirm. cbn [existsb]. rewrite orb_false_r. reflexivity. Qed.
Theorem tie_three_confirm f b : rs_Three_confirm f b = Ok (confirm [Three_s1 f; Three_s2 f; Three_s3 f] b).
Proof. unfold rs_Three_confirm, confirm. cbn [existsb]. rewrite orb_false_r, orb_assoc. reflexivity. Qed.

Print Assumptions tie_splat.
Print Assumptions tie_has_zero_byte.
Print Assumptions code_has_zero_byte_never_panics.
Print Assumptions tie_one_new.
Print Assumptions tie_two_new.
Print Assumptions tie_three_new.
Print Assumptions tie_one_has_needle.
Print Assumptions tie_two_has_needle.
Print Assumptions tie_three_has_needle.
Print Assumptions tie_one_confirm.
Print Assumptions tie_two_confirm.
Print Assumptions tie_three_confirm.
