(* Tie: translated SWAR helpers (src/arch/all/memchr.rs: splat, has_zero_byte) = model Base/Word.v at w = 8 *)
From Memchr Require Import Base.Res Base.Word Gen.Ops Gen.CodeSwar.
From Coq Require Import Lia.
Local Open Scope N_scope.

Lemma word_mod_8 : word_mod 8 = 2 ^ 64. Proof. reflexivity. Qed.
Lemma unit64 : tmax 64 / 255 = 72340172838076673. Proof. reflexivity. Qed.

Theorem tie_splat b : b < 256 -> rs_swar_splat b = Ok (splat 8 b).
Proof.
  intros Hb. unfold rs_swar_splat, splat, div_chk, mul_chk. cbn [N.eqb rbind].
  rewrite word_mod_8. change (2 ^ 64 - 1) with (tmax 64). rewrite unit64.
  assert (H : b * 72340172838076673 <=? tmax 64 = true).
  { apply N.leb_le. change (tmax 64) with (255 * 72340172838076673). apply N.mul_le_mono_r. lia. }
  rewrite H. reflexivity.
Qed.

Theorem tie_has_zero_byte x : rs_swar_has_zero_byte x = Ok (has_zero_byte 8 x).
Proof.
  unfold rs_swar_has_zero_byte.
  rewrite (tie_splat 1) by reflexivity. rewrite (tie_splat 128) by reflexivity. cbn [rbind].
  unfold has_zero_byte, wr_sub, bnot, wrapw. rewrite word_mod_8.
  change (2 ^ 64 - 1) with (tmax 64).
  replace (splat 8 1 mod 2 ^ 64) with (splat 8 1) by reflexivity.
  reflexivity.
Qed.

(* C14: has_zero_byte never trips an overflow check *)
Theorem code_has_zero_byte_never_panics x : exists r, rs_swar_has_zero_byte x = Ok r.
Proof. rewrite tie_has_zero_byte. eexists; reflexivity. Qed.

Print Assumptions tie_splat.
Print Assumptions tie_has_zero_byte.
Print Assumptions code_has_zero_byte_never_panics.
