(* Semantics of the Rust integer operations that tools/rs2coq.py emits.
   Values of u8/u16/u32/u64/usize are natural numbers (N) below 2^w; `w` is the
   width in bits.  Plain `+ - * / % << >>` are the overflow-CHECKED operations of
   a build with overflow checks (they are what C14 speaks about); the wrapping_*
   and saturating_* methods, `!`, `as` are total. *)
From Memchr Require Import Base.Res Base.ListX Base.Bits.
Local Open Scope N_scope.

Definition tmax (w : N) : N := 2 ^ w - 1.
Definition wrapw (w x : N) : N := x mod 2 ^ w.

Definition rbind {A B} (r : res A) (f : A -> res B) : res B :=
  match r with Ok a => f a | Panic p => Panic p end.
Notation "x <-- m ;; k" := (rbind m (fun x => k))
  (at level 61, m at next level, right associativity).

Definition add_chk (w a b : N) : res N := if a + b <=? tmax w then Ok (a + b) else Panic Overflow.
Definition sub_chk (w a b : N) : res N := if b <=? a then Ok (a - b) else Panic Overflow.
Definition mul_chk (w a b : N) : res N := if a * b <=? tmax w then Ok (a * b) else Panic Overflow.
Definition div_chk (w a b : N) : res N := if b =? 0 then Panic Overflow else Ok (a / b).
Definition rem_chk (w a b : N) : res N := if b =? 0 then Panic Overflow else Ok (a mod b).
(* x << s panics when s >= width; bits shifted out are lost *)
Definition shl_chk (w a s : N) : res N := if s <? w then Ok (wrapw w (N.shiftl a s)) else Panic Overflow.
Definition shr_chk (w a s : N) : res N := if s <? w then Ok (N.shiftr a s) else Panic Overflow.

Definition sat_add (w a b : N) : N := N.min (a + b) (tmax w).
Definition sat_sub (a b : N) : N := a - b.           (* truncated subtraction of N *)
Definition sat_mul (w a b : N) : N := N.min (a * b) (tmax w).
Definition wr_add (w a b : N) : N := wrapw w (a + b).
Definition wr_sub (w a b : N) : N := wrapw w (a + 2 ^ w - wrapw w b).
Definition wr_mul (w a b : N) : N := wrapw w (a * b).
Definition wr_shl (w a s : N) : N := wrapw w (N.shiftl a (s mod w)).
Definition wr_shr (w a s : N) : N := N.shiftr a (s mod w).
Definition bnot (w a : N) : N := N.lxor a (tmax w).

(* `for &b in slice { acc = body }` with a checked body *)
Fixpoint rfold {A B} (f : A -> B -> res A) (l : list B) (a : A) : res A :=
  match l with
  | [] => Ok a
  | b :: t => match f a b with Ok a' => rfold f t a' | Panic p => Panic p end
  end.

Definition rmap {A B} (f : A -> B) (r : res A) : res B :=
  match r with Ok a => Ok (f a) | Panic p => Panic p end.

(* equal results, panics identified up to their kind *)
Definition res_sim {A} (r1 r2 : res A) : Prop :=
  match r1, r2 with
  | Ok a, Ok b => a = b
  | Panic _, Panic _ => True
  | _, _ => False
  end.

Lemma rfold_ok_fold {A B} (f : A -> B -> res A) (g : A -> B -> A) (P : B -> Prop) l a :
  (forall a b, P b -> f a b = Ok (g a b)) -> Forall P l -> rfold f l a = Ok (fold_left g l a).
Proof.
  intros Hf. revert a. induction l as [|b t IH]; intros a Hl; cbn; [reflexivity|].
  inversion Hl as [|? ? Hb Ht]; subst. rewrite (Hf a b Hb). apply IH; assumption.
Qed.

(* checked_add / checked_sub returning Option *)
Definition chk_add_opt (w a b : N) : option N := if a + b <=? tmax w then Some (a + b) else None.
Definition chk_sub_opt (a b : N) : option N := if b <=? a then Some (a - b) else None.

(* slices: split_at / [..n] / [n..] / [i] panic outside the slice *)
Definition split_at_chk (l : list N) (n : N) : res (list N * list N) :=
  if n <=? N.of_nat (length l) then Ok (firstn (N.to_nat n) l, skipn (N.to_nat n) l) else Panic IndexOOB.
Definition slice_to_chk (l : list N) (n : N) : res (list N) :=
  if n <=? N.of_nat (length l) then Ok (firstn (N.to_nat n) l) else Panic IndexOOB.
Definition slice_from_chk (l : list N) (n : N) : res (list N) :=
  if n <=? N.of_nat (length l) then Ok (skipn (N.to_nat n) l) else Panic IndexOOB.
Definition idx_chk (l : list N) (i : N) : res N := idx l (N.to_nat i).

(* arch::all::is_suffix / is_prefix as functions of the two slices (their load traces are
   the business of Sub/IsEqual.v and C18; here only the value matters) *)
Definition is_suffix_l (h n : list N) : bool :=
  (length n <=? length h)%nat && list_eqb (skipn (length h - length n) h) n.
Definition is_prefix_l (h n : list N) : bool :=
  (length n <=? length h)%nat && list_eqb (firstn (length n) h) n.

(* slice.iter().enumerate(): (index, byte) pairs *)
Fixpoint enumerate_from (i : N) (l : list N) : list (N * N) :=
  match l with [] => [] | b :: t => (i, b) :: enumerate_from (i + 1) t end.
Definition enumerate_l (l : list N) : list (N * N) := enumerate_from 0 l.

(* slice.get(n..) *)
Definition slice_from_opt (l : list N) (n : N) : option (list N) :=
  if n <=? N.of_nat (length l) then Some (skipn (N.to_nat n) l) else None.

(* slice.last() *)
Definition last_opt (l : list N) : option N := nth_error l (length l - 1).
