(* Tie: translated Pair::with_indices (src/arch/all/packedpair/mod.rs) = model Sub/Pair.v *)
From Memchr Require Import Base.Res Gen.Ops Gen.CodePair Sub.Pair.
From Coq Require Import Lia.
Local Open Scope N_scope.

Definition pair_of (p : Pair) : nat * nat := (N.to_nat (Pair_index1 p), N.to_nat (Pair_index2 p)).

Theorem tie_pair_with_indices x (i1 i2 : nat) :
  rmap (option_map pair_of) (rs_Pair_with_indices x (N.of_nat i1) (N.of_nat i2)) = Ok (pair_with_indices x i1 i2).
Proof.
  unfold rs_Pair_with_indices, pair_with_indices.
  destruct (N.eqb_spec (N.of_nat i1) (N.of_nat i2)) as [He|Hne];
    destruct (Nat.eqb_spec i1 i2) as [He'|Hne']; try lia; [reflexivity|].
  destruct (N.leb_spec (N.of_nat (length x)) (N.of_nat i1)) as [H1|H1];
    destruct (Nat.leb_spec (length x) i1) as [H1'|H1']; try lia; [reflexivity|].
  destruct (N.leb_spec (N.of_nat (length x)) (N.of_nat i2)) as [H2|H2];
    destruct (Nat.leb_spec (length x) i2) as [H2'|H2']; try lia; [reflexivity|].
  cbn. unfold pair_of. cbn. rewrite !Nat2N.id. reflexivity.
Qed.

(* C19 on the translated code: accepted exactly for distinct in-range offsets, and reported unchanged *)
Theorem code_with_indices_spec x i1 i2 :
  rs_Pair_with_indices x i1 i2 =
  Ok (if (negb (i1 =? i2) && (i1 <? N.of_nat (length x)) && (i2 <? N.of_nat (length x)))%bool
      then Some (mkPair i1 i2) else None).
Proof.
  unfold rs_Pair_with_indices. rewrite !N.ltb_antisym.
  destruct (i1 =? i2); [reflexivity|].
  destruct (N.of_nat (length x) <=? i1); [reflexivity|].
  destruct (N.of_nat (length x) <=? i2); reflexivity.
Qed.

Theorem code_pair_accessors i1 i2 :
  rs_Pair_index1 (mkPair i1 i2) = Ok i1 /\ rs_Pair_index2 (mkPair i1 i2) = Ok i2.
Proof. split; reflexivity. Qed.

Print Assumptions tie_pair_with_indices.
Print Assumptions code_with_indices_spec.
Print Assumptions code_pair_accessors.
