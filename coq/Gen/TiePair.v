(* Tie: translated Pair::with_indices (src/arch/all/packedpair/mod.rs) = model Sub/Pair.v *)
From Memchr Require Import Base.Res Gen.Ops Gen.CodePair Sub.Pair.
From Coq Require Import Lia.
Local Open Scope N_scope.

Definition pair_of (p : Pair) : nat * nat := (N.to_nat (Pair_index1 p), N.to_nat (Pair_index2 p)).

Theorem tie_pair_with_indices x (i1 i2 : nat) :
  rmap (option_map pair_of) (rs_Pair_with_indices x (N.of_nat i1) (N.of_nat i2)) = Ok (pair_with_indices x i1 i2).
Proof.
  unfold rs_Pair_with_indices, pair_with_indices.
  destruct (N.eqb_spec (N.of_nat i1) (N.of_nat i2)) as [He|Hne];
    destruct (Nat.eqb_spec i1 i2) as [He'|Hne']; try lia; [reflexivity|].
  destruct (N.leb_spec (N.of_nat (length x)) (N.of_nat i1)) as [H1|H1];
    destruct (Nat.leb_spec (length x) i1) as [H1'|H1']; try lia; [reflexivity|].
  destruct (N.leb_spec (N.of_nat (length x)) (N.of_nat i2)) as [H2|H2];
    destruct (Nat.leb_spec (length x) i2) as [H2'|H2']; try lia; [reflexivity|].
  cbn. unfold pair_of. cbn. rewrite !Nat2N.id. reflexivity.
Qed.

(* C19 on the translated code: accepted exactly for distinct in-range offsets, and reported unchanged *)
Theorem code_with_indices_spec x i1 i2 :
  rs_Pair_with_indices x i1 i2 =
  Ok (if (negb (i1 =? i2) && (i1 <? N.of_nat (length x)) && (i2 <? N.of_nat (length x)))%bool
      then Some (mkPair i1 i2) else None).
Proof.
  unfold rs_Pair_with_indices. rewrite !N.ltb_antisym.
  destruct (i1 =? i2); [reflexivity|].
  destruct (N.of_nat (length x) <=? i1); [reflexivity|].
  destruct (N.of_nat (length x) <=? i2); reflexivity.
Qed.

Theorem code_pair_accessors i1 i2 :
  rs_Pair_index1 (mkPair i1 i2) = Ok i1 /\ rs_Pair_index2 (mkPair i1 i2) = Ok i2.
Proof. split; reflexivity. Qed.

Print Assumptions tie_pair_with_indices.
Print Assumptions code_with_indices_spec.
Print Assumptions code_pair_accessors.

(* ------------------------------------------------------------------ *)
(* Pair::with_ranker: the `for (i, &b) in needle.iter().enumerate().take(255).skip(2)` scan *)
From Memchr Require Import Params.

Definition enc (st : pstate) : N * N * N * N :=
  (rare2 st, N.of_nat (index2 st), rare1 st, N.of_nat (index1 st)).

Section Ranker.
Variable rank : N -> N.

(* the translated loop body, as it appears (twice) in rs_Pair_with_ranker *)
Definition gstep : N * N * N * N -> N * N -> res (N * N * N * N) :=
  fun '(r2, i2, r1, i1) '(i, b) =>
    if rank b <? rank r1
    then t <-- (if i <=? tmax 8 then Ok i else Panic UnwrapNone);; Ok (r1, i1, b, t)
    else if (negb (b =? r1) && (rank b <? rank r2))%bool
         then t <-- (if i <=? tmax 8 then Ok i else Panic UnwrapNone);; Ok (b, t, r1, i1)
         else Ok (r2, i2, r1, i1).

Lemma gstep_tie st (i : nat) b :
  gstep (enc st) (N.of_nat i, b) = rmap enc (pair_step rank st i b).
Proof.
  unfold gstep, enc, pair_step, to_u8. destruct st as [r1 i1 r2 i2]. cbn [rare1 rare2 index1 index2].
  assert (E : (N.of_nat i <=? tmax 8) = (i <=? 255)%nat).
  { change (tmax 8) with 255. destruct (N.leb_spec (N.of_nat i) 255); destruct (Nat.leb_spec i 255); lia. }
  rewrite E.
  destruct (rank b <? rank r1); [destruct (i <=? 255)%nat; reflexivity|].
  destruct (negb (b =? r1) && (rank b <? rank r2))%bool; [destruct (i <=? 255)%nat; reflexivity|reflexivity].
Qed.

Lemma scan_tie : forall l (i : nat) st,
  rfold gstep (skipn (2 - i) (firstn (255 - i) (enumerate_from (N.of_nat i) l))) (enc st)
  = rmap enc (pair_scan rank l i st).
Proof.
  induction l as [|b t IH]; intros i st.
  - cbn [enumerate_from pair_scan]. rewrite firstn_nil, skipn_nil. reflexivity.
  - cbn [enumerate_from pair_scan]. change pair_scan_cap with 255. change pair_scan_skip with 2%nat.
    destruct (N.ltb_spec (N.of_nat i) 255) as [Hc|Hc].
    + replace (255 - i)%nat with (S (254 - i)) by lia. cbn [firstn].
      replace (N.of_nat i + 1) with (N.of_nat (S i)) by lia.
      destruct (Nat.ltb_spec i 2) as [Hs|Hs].
      * replace (2 - i)%nat with (S (1 - i)) by lia. cbn [skipn].
        replace (1 - i)%nat with (2 - S i)%nat by lia. replace (254 - i)%nat with (255 - S i)%nat by lia.
        apply IH.
      * replace (2 - i)%nat with 0%nat by lia. cbn [skipn rfold].
        rewrite gstep_tie. destruct (pair_step rank st i b) as [st'|p]; cbn [rmap]; [|reflexivity].
        replace (254 - i)%nat with (255 - S i)%nat by lia.
        specialize (IH (S i) st'). replace (2 - S i)%nat with 0%nat in IH by lia. exact IH.
    + replace (255 - i)%nat with 0%nat by lia. cbn [firstn]. rewrite skipn_nil. reflexivity.
Qed.

Definition pair_res (o : option Pair) : option (nat * nat) := option_map pair_of o.

Theorem tie_pair_with_ranker (x : list N) :
  res_sim (rmap pair_res (rs_Pair_with_ranker x rank)) (fst (pair_with_ranker rank x)).
Proof.
  unfold rs_Pair_with_ranker, pair_with_ranker.
  destruct (N.leb_spec (N.of_nat (length x)) 1) as [Hl|Hl];
    destruct (Nat.leb_spec (length x) 1) as [Hl'|Hl']; try lia; [reflexivity|].
  unfold idx_chk. change (N.to_nat 0) with 0%nat. change (N.to_nat 1) with 1%nat.
  rewrite fst_bind. cbn [lift fst].
  destruct (idx x 0) as [r1|p]; [|exact I]. cbn [rbind].
  rewrite fst_bind. cbn [lift fst].
  destruct (idx x 1) as [r2|p]; [|exact I]. cbn [rbind fst snd].
  change (N.to_nat 2) with 2%nat. change (N.to_nat (tmax 8)) with 255%nat.
  fold gstep.
  assert (Hscan : forall st0,
    res_sim (rmap pair_res
               (acc <-- rfold gstep (skipn 2 (firstn 255 (enumerate_l x))) (enc st0);;
                let '(_, i2, _, i1) := acc in
                if negb (i1 =? i2) then Ok (Some (mkPair i1 i2)) else Panic (AssertFail 0)))
            (fst (st <- lift (pair_scan rank x 0 st0);;
                  guard 1 (negb (index1 st =? index2 st)%nat);;; ret (Some (index1 st, index2 st))))).
  { intros st0. pose proof (scan_tie x 0 st0) as H. cbn [Nat.sub N.of_nat] in H. unfold enumerate_l. rewrite H.
    rewrite fst_bind. cbn [lift fst].
    destruct (pair_scan rank x 0 st0) as [st|p]; cbn [rmap rbind]; [|exact I].
    unfold enc.
    destruct (N.eqb_spec (N.of_nat (index1 st)) (N.of_nat (index2 st))) as [He|He];
      destruct (Nat.eqb_spec (index1 st) (index2 st)) as [He'|He']; try lia; cbn [negb].
    - exact I.
    - cbn. unfold pair_of. cbn. rewrite !Nat2N.id. reflexivity. }
  destruct (rank r2 <? rank r1).
  - exact (Hscan {| rare1 := r2; index1 := 1; rare2 := r1; index2 := 0 |}).
  - exact (Hscan {| rare1 := r1; index1 := 0; rare2 := r2; index2 := 1 |}).
Qed.
End Ranker.

Print Assumptions tie_pair_with_ranker.

(* C19 stated on the TRANSLATED Pair::with_ranker, for every pure ranker and every needle:
   None exactly below two bytes, otherwise two distinct offsets inside the needle, both <= 254 *)
From Memchr Require Import Props.C19.

Theorem code_with_ranker_spec (rank : N -> N) (x : list N) :
  ((length x <= 1)%nat -> rs_Pair_with_ranker x rank = Ok None) /\
  ((2 <= length x)%nat ->
   exists p, rs_Pair_with_ranker x rank = Ok (Some p) /\
     Pair_index1 p <> Pair_index2 p /\ Pair_index1 p < N.of_nat (length x) /\ Pair_index2 p < N.of_nat (length x) /\
     Pair_index1 p <= 254 /\ Pair_index2 p <= 254).
Proof.
  destruct (C19_with_ranker rank x) as [H1 H2]. pose proof (tie_pair_with_ranker rank x) as T.
  split; intros H.
  - rewrite (H1 H) in T. destruct (rs_Pair_with_ranker x rank) as [[p|]|]; cbn in T; try contradiction; [discriminate|reflexivity].
  - destruct (H2 H) as (i1 & i2 & Hr & A & B & C & D & E). rewrite Hr in T.
    destruct (rs_Pair_with_ranker x rank) as [[p|]|]; cbn in T; try contradiction; try discriminate.
    exists p. split; [reflexivity|]. unfold pair_of in T. injection T as T1 T2. lia.
Qed.

Print Assumptions code_with_ranker_spec.
