(* Tie: translated generic packed-pair Finder::<V>::new (src/arch/generic/packedpair.rs), in particular
   min_haystack_len = max(|needle|, max(index1, index2) + V::BYTES), = the model's pp_new (Sub/PackedPair.v)
   for every vector width of at most 64 bytes.  V::BYTES is a parameter, V::splat(b) is the byte b. *)
From Memchr Require Import Base.Res Base.ListX Gen.Ops Gen.CodePair Gen.CodePackedPairNew Sub.PackedPair.
From Coq Require Import Lia ZifyNat ZifyN ZifyBool.
Local Open Scope N_scope.

Definition pp_of (f : PPFinder) : ppfinder :=
  {| pp_i1 := N.to_nat (Pair_index1 (PPFinder_pair f)); pp_i2 := N.to_nat (Pair_index2 (PPFinder_pair f));
     pp_b1 := PPFinder_v1 f; pp_b2 := PPFinder_v2 f; pp_min := N.to_nat (PPFinder_min_haystack_len f) |}.

Theorem tie_pp_new (B : nat) (x : list N) (i1 i2 : nat) :
  (B <= 64)%nat -> (i1 <= 255)%nat -> (i2 <= 255)%nat ->
  res_sim (rmap pp_of (rs_PPFinder_new (N.of_nat B) x (mkPair (N.of_nat i1) (N.of_nat i2)))) (pp_new B x i1 i2).
Proof.
  intros HB H1 H2. unfold rs_PPFinder_new, rs_Pair_index1, rs_Pair_index2, pp_new, idx_chk, add_chk.
  cbn [rbind Pair_index1 Pair_index2].
  assert (E : (N.max (N.of_nat i1) (N.of_nat i2) + N.of_nat B <=? tmax 64) = true).
  { apply N.leb_le. change (tmax 64) with (2 ^ 64 - 1). assert (255 + 64 <= 2 ^ 64 - 1) by (vm_compute; discriminate). lia. }
  rewrite E. cbn [rbind]. rewrite !Nat2N.id.
  destruct (idx x i1) as [b1|p]; [|exact I]. cbn [rbind].
  destruct (idx x i2) as [b2|p]; [|exact I]. cbn [rbind rmap res_sim].
  unfold pp_of. cbn. rewrite !Nat2N.id. f_equal. lia.
Qed.

(* C05 / C14: the minimum haystack length computed by the source covers the needle and both pair loads *)
Theorem code_pp_min_covers (B : N) (x : list N) (p : Pair) (f : PPFinder) :
  rs_PPFinder_new B x p = Ok f ->
  N.of_nat (length x) <= PPFinder_min_haystack_len f /\
  Pair_index1 p + B <= PPFinder_min_haystack_len f /\ Pair_index2 p + B <= PPFinder_min_haystack_len f.
Proof.
  unfold rs_PPFinder_new, rs_Pair_index1, rs_Pair_index2, add_chk. cbn [rbind].
  destruct (_ <=? tmax 64); [|discriminate]. cbn [rbind].
  destruct (idx_chk x (Pair_index1 p)); [|discriminate]. cbn [rbind].
  destruct (idx_chk x (Pair_index2 p)); [|discriminate]. cbn [rbind].
  intros H. injection H as <-. cbn. lia.
Qed.

Print Assumptions tie_pp_new.
Print Assumptions code_pp_min_covers.
