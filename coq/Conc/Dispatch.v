(* C15: interleaving model of the x86_64 runtime dispatch cell (unsafe_ifunc! in
   src/arch/x86_64/memchr.rs).  One shared atomic cell FN holds either `detect`
   or the chosen implementation.  A call is: load FN (Relaxed); if it is `detect`,
   run detection, store the chosen implementation (Relaxed), call it; otherwise
   call what was loaded.  Loads may return ANY value stored so far (not only the
   latest): per-location coherence is the only thing assumed of Relaxed atomics. *)
From Memchr Require Import Spec Params Mem.Wrappers Mem.WrappersProofs.

Inductive cellv := Detect | Chosen (b : backend).

Record call := { c_ns : list N; c_a : nat; c_h : list N; c_rev : bool }.

Inductive pc := PLoad | PDetectStore | PCall (b : backend).

Record thread := { pending : list call; at_pc : pc; results : list (res (option nat)) }.

(* the shared state: every value ever stored into FN, latest first *)
Definition store := list cellv.

Definition do_call (c : call) (b : backend) : res (option nat) :=
  if c_rev c then fst (backend_rfind (c_ns c) (c_a c) (c_h c) b)
  else fst (backend_find (c_ns c) (c_a c) (c_h c) b).

(* one atomic step of thread t; `pick` selects which stored value a load observes *)
Definition step (cpu_ : cpu) (pick : nat) (st : store) (t : thread) : store * thread :=
  match pending t with
  | [] => (st, t)
  | c :: rest =>
      match at_pc t with
      | PLoad =>
          match nth pick st (last st Detect) with
          | Detect => (st, {| pending := pending t; at_pc := PDetectStore; results := results t |})
          | Chosen b => (st, {| pending := pending t; at_pc := PCall b; results := results t |})
          end
      | PDetectStore =>
          (Chosen (x86_choice cpu_) :: st,
           {| pending := pending t; at_pc := PCall (x86_choice cpu_); results := results t |})
      | PCall b =>
          (st, {| pending := rest; at_pc := PLoad; results := results t ++ [do_call c b] |})
      end
  end.

Fixpoint set_nth {A} (l : list A) (i : nat) (x : A) : list A :=
  match l, i with
  | [], _ => []
  | _ :: t, 0 => x :: t
  | y :: t, S i' => y :: set_nth t i' x
  end.

(* a schedule is a list of (thread index, pick) pairs *)
Fixpoint run (cpu_ : cpu) (sched : list (nat * nat)) (st : store) (ts : list thread) : store * list thread :=
  match sched with
  | [] => (st, ts)
  | (i, pick) :: rest =>
      match nth_error ts i with
      | None => run cpu_ rest st ts
      | Some t =>
          let '(st', t') := step cpu_ pick st t in
          run cpu_ rest st' (set_nth ts i t')
      end
  end.

Definition fresh (calls : list call) : thread := {| pending := calls; at_pc := PLoad; results := [] |}.

(* what a call returns in isolation *)
Definition isolated (c : call) : res (option nat) :=
  if c_rev c then Ok (last_idx (confirm (c_ns c)) (c_h c)) else Ok (first_idx (confirm (c_ns c)) (c_h c)).

Definition call_ok (c : call) : Prop :=
  c_ns c <> [] /\ Forall (fun b => (b < 256)%N) (c_h c) /\ Forall (fun b => (b < 256)%N) (c_ns c).
