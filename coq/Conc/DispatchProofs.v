From Memchr Require Import Spec Params Mem.Wrappers Mem.WrappersProofs Conc.Dispatch.

Lemma do_call_isolated c b : call_ok c -> do_call c b = isolated c.
Proof.
  intros (H1 & H2 & H3). unfold do_call, isolated. destruct (c_rev c).
  - destruct (satq_fst _ _ _ (backend_rfind_sat (c_ns c) (c_a c) (c_h c) H1 H2 H3 b)) as (v & Hv & -> & _). exact Hv.
  - destruct (satq_fst _ _ _ (backend_find_sat (c_ns c) (c_a c) (c_h c) H1 H2 H3 b)) as (v & Hv & -> & _). exact Hv.
Qed.

(* thread invariant: the calls already made returned their isolated results, the remaining ones are well-formed *)
Definition tinv (all_calls : list call) (t : thread) : Prop :=
  exists done, all_calls = done ++ pending t /\ results t = map isolated done /\ Forall call_ok (pending t).

Lemma step_tinv cpu_ pick st t calls :
  tinv calls t -> tinv calls (snd (step cpu_ pick st t)).
Proof.
  intros (done & Hc & Hr & Hok). unfold step.
  destruct (pending t) as [|c rest] eqn:Ep.
  - cbn [snd]. exists done. rewrite Ep. auto.
  - destruct (at_pc t) as [| |b].
    + destruct (nth pick st (last st Detect)); cbn [snd]; exists done; cbn [pending results]; auto.
    + cbn [snd]. exists done. cbn [pending results]. auto.
    + cbn [snd]. exists (done ++ [c]). cbn [pending results]. rewrite <- app_assoc. cbn [app]. split; [exact Hc|]. split.
      * rewrite Hr, map_app. cbn [map]. f_equal. f_equal. apply do_call_isolated.
        apply Forall_cons_iff in Hok as [Hok _]. exact Hok.
      * apply Forall_cons_iff in Hok as [_ Hok]. exact Hok.
Qed.

Fixpoint all2 {A B} (P : A -> B -> Prop) (l1 : list A) (l2 : list B) : Prop :=
  match l1, l2 with
  | [], [] => True
  | a :: t1, b :: t2 => P a b /\ all2 P t1 t2
  | _, _ => False
  end.

Lemma all2_set_nth {A B} (P : A -> B -> Prop) l1 : forall l2 i a b,
  all2 P l1 l2 -> nth_error l1 i = Some a -> P a b -> all2 P l1 (set_nth l2 i b).
Proof.
  induction l1 as [|x l1 IH]; intros [|y l2] i a b H Hn HP; cbn in *; try contradiction.
  - destruct i; discriminate.
  - destruct H as [H1 H2]. destruct i as [|i]; cbn in *.
    + injection Hn as <-. split; assumption.
    + split; [exact H1|]. eapply IH; eassumption.
Qed.

Lemma all2_nth {A B} (P : A -> B -> Prop) l1 : forall l2 i b,
  all2 P l1 l2 -> nth_error l2 i = Some b -> exists a, nth_error l1 i = Some a /\ P a b.
Proof.
  induction l1 as [|x l1 IH]; intros [|y l2] i b H Hn; cbn in *; try contradiction.
  - destruct i; discriminate.
  - destruct H as [H1 H2]. destruct i as [|i]; cbn in *.
    + injection Hn as <-. exists x. split; [reflexivity|exact H1].
    + eapply IH; eassumption.
Qed.

(* every interleaving, every choice of observed stored values, every CPU: each thread's results
   are, in order, what its calls return in isolation *)
Theorem run_isolated cpu_ sched : forall st (callss : list (list call)) ts,
  all2 tinv callss ts ->
  all2 tinv callss (snd (run cpu_ sched st ts)).
Proof.
  induction sched as [|[i pick] rest IH]; intros st callss ts H; cbn [run]; [exact H|].
  destruct (nth_error ts i) as [t|] eqn:En; [|apply IH; exact H].
  destruct (step cpu_ pick st t) as [st' t'] eqn:Es.
  apply IH. destruct (all2_nth _ _ _ _ _ H En) as (calls & Hc & Ht).
  eapply all2_set_nth; [exact H|exact Hc|].
  replace t' with (snd (step cpu_ pick st t)) by (rewrite Es; reflexivity).
  apply step_tinv. exact Ht.
Qed.

Lemma fresh_tinv calls : Forall call_ok calls -> tinv calls (fresh calls).
Proof. intros H. exists []. cbn. auto. Qed.

Lemma all2_fresh callss : Forall (Forall call_ok) callss -> all2 tinv callss (map fresh callss).
Proof.
  induction callss as [|c cs IH]; intros H; cbn; [exact I|].
  apply Forall_cons_iff in H as [H1 H2]. split; [apply fresh_tinv; exact H1|apply IH; exact H2].
Qed.

(* a thread that has finished returned exactly the isolated results of all its calls *)
Lemma finished_results calls t : tinv calls t -> pending t = [] -> results t = map isolated calls.
Proof. intros (done & Hc & Hr & _) Hp. rewrite Hp, app_nil_r in Hc. subst done. exact Hr. Qed.

(* the store only ever contains `detect` or the implementation chosen for this CPU:
   all racing first calls install the same function *)
Definition store_ok (cpu_ : cpu) (st : store) : Prop :=
  Forall (fun v => v = Detect \/ v = Chosen (x86_choice cpu_)) st.

Lemma step_store_ok cpu_ pick st t : store_ok cpu_ st -> store_ok cpu_ (fst (step cpu_ pick st t)).
Proof.
  intros H. unfold step. destruct (pending t) as [|c rest]; [exact H|].
  destruct (at_pc t) as [| |b]; cbn; try exact H.
  - destruct (nth pick st (last st Detect)); exact H.
  - constructor; [right; reflexivity|exact H].
Qed.

Theorem run_store_ok cpu_ sched : forall st ts, store_ok cpu_ st -> store_ok cpu_ (fst (run cpu_ sched st ts)).
Proof.
  induction sched as [|[i pick] rest IH]; intros st ts H; cbn [run]; [exact H|].
  destruct (nth_error ts i) as [t|]; [|apply IH; exact H].
  destruct (step cpu_ pick st t) as [st' t'] eqn:Es. apply IH.
  replace st' with (fst (step cpu_ pick st t)) by (rewrite Es; reflexivity). apply step_store_ok. exact H.
Qed.
