(* Extraction of the executable model for the correspondence check.
   ExtrOcamlBasic only: nat, positive, N stay Coq's own inductive types. *)
From Coq Require Import ExtrOcamlBasic.
From Memchr Require Import Params Base.Res Base.ListX Sub.IsEqual Sub.Pair Mem.Wrappers Mem.Iter Spec Sub.RabinKarp Sub.ShiftOr Sub.PackedPair Sub.TwoWay Sub.TwoWayCert Sub.Searcher Sub.FindIter.

Extraction "extracted.ml"
  is_equal is_prefix is_suffix is_equal_raw
  pair_with_ranker pair_with_indices default_rank
  backend_find backend_rfind backend_count x86_choice backend_find_raw backend_rfind_raw backend_count_raw
  iter_new iter_run
  rk_new rk_new_rev rk_find rk_rfind so_new so_find
  pw_new pw_min pw_find pw_find_prefilter pf_new pf_find_prefilter find_spec rfind_spec
  tw_new tw_new_rev tw_find tw_rfind prestate_new pre_update pre_is_effective
  finder_new rfinder_new finder_find rfinder_rfind memmem_find memmem_rfind
  fiter_new fiter_run riter_new riter_run fiter_next fiter_size_hint riter_next
  tw_cert_fwd_of tw_cert_rev_of.
