(* Forward Two-Way search, small-period case, WITH a prefilter: the step cost is
   LINEAR in the haystack.  The prefilter forgets the memory `shift`, so after a
   window whose right part matched and whose left part did not (a "left-mismatch
   window") the next full right scan may re-compare up to |x| - cp - p bytes.
   Two such windows are more than |x| - cp - p apart (Fine and Wilf + minimality
   of the period p), which pays for the re-comparison with one extra step per
   haystack position.
   Potential of the loop state (pos, last), last = the most recent such window:
     (3 + K1 + K2) * pos + max pos (last + (|x| - cp - p) + 1)
   it never decreases by less than the cost of an iteration, whatever the
   prefilter does to the memory, and it is at most (4 + K1 + K2) * |h|. *)
From Memchr Require Import Spec SpecProofs Params Base.Cost Sub.IsEqual Sub.IsEqualProofs
  Sub.Prefilter Sub.TwoWay Sub.TwoWayCert Sub.Words Sub.TwoWayPreProofs Sub.TwoWayFwdProofs
  Sub.CostTwoWay Sub.CritFact Sub.TwoWayTier2 Sub.CostTwoWayAll.

Local Open Scope nat_scope.

(* ------------------------------------------------------------------ *)
(* 1. Fine and Wilf (weak form: |w| >= a + b), on functions restricted to [0, L) *)

Definition fper (f : nat -> N) (L a : nat) : Prop := forall j, j + a < L -> f j = f (j + a).

Lemma fper_reduce f L a b : a <= b -> fper f L a -> fper f L b -> fper f (L - a) (b - a).
Proof.
  intros Hab Ha Hb j Hj. rewrite (Hb j) by lia. rewrite (Ha (j + (b - a))) by lia. f_equal. lia.
Qed.

Lemma fper_shorter f L L' a : L' <= L -> fper f L a -> fper f L' a.
Proof. intros HL Ha j Hj. apply Ha. lia. Qed.

Lemma fper_extend f L a g : fper f L a -> fper f (L - a) g -> 2 * a + g <= L -> fper f L g.
Proof.
  intros Ha Hg HL j Hj.
  destruct (Nat.lt_ge_cases (j + g) (L - a)) as [H1|H1]; [apply Hg; exact H1|].
  assert (a <= j) as Haj by lia.
  pose proof (Ha (j - a) ltac:(lia)) as E1. replace (j - a + a) with j in E1 by lia.
  pose proof (Ha (j - a + g) ltac:(lia)) as E2. replace (j - a + g + a) with (j + g) in E2 by lia.
  rewrite <- E1, <- E2. apply Hg. lia.
Qed.

Lemma fine_wilf_step f L a b :
  1 <= a -> a < b -> a + b <= L -> fper f L a ->
  fper f (L - a) (Nat.gcd a (b - a)) -> fper f L (Nat.gcd a b).
Proof.
  intros Ha1 Hab HL Ha Hg.
  assert (Nat.gcd a (b - a) <= b - a) as Hle.
  { apply Nat.divide_pos_le; [lia|apply Nat.gcd_divide_r]. }
  rewrite Nat.gcd_sub_diag_r in Hg, Hle by lia.
  apply (fper_extend f L a); [exact Ha|exact Hg|lia].
Qed.

Theorem fine_wilf_weak : forall s a b L f,
  a + b <= s -> fper f L a -> fper f L b -> a + b <= L -> fper f L (Nat.gcd a b).
Proof.
  induction s as [|s IH]; intros a b L f Hs Ha Hb HL.
  - assert (a = 0) as -> by lia. assert (b = 0) as -> by lia. exact Ha.
  - destruct (Nat.eq_dec a 0) as [->|Ha0]. { rewrite Nat.gcd_0_l. exact Hb. }
    destruct (Nat.eq_dec b 0) as [->|Hb0]. { rewrite Nat.gcd_0_r. exact Ha. }
    destruct (Nat.lt_trichotomy a b) as [Hlt|[->|Hgt]].
    + apply fine_wilf_step; [lia|exact Hlt|exact HL|exact Ha|].
      apply IH; [lia| | |lia].
      * apply (fper_shorter f L); [lia|exact Ha].
      * apply fper_reduce; [lia|exact Ha|exact Hb].
    + rewrite Nat.gcd_diag. exact Ha.
    + rewrite Nat.gcd_comm.
      apply fine_wilf_step; [lia|exact Hgt|lia|exact Hb|].
      apply IH; [lia| | |lia].
      * apply (fper_shorter f L); [lia|exact Hb].
      * apply fper_reduce; [lia|exact Hb|exact Ha].
Qed.

(* the same for the nth-based is_period of the certificate *)
Corollary fine_wilf_list (w : list N) a b :
  1 <= a -> 1 <= b -> is_period w a = true -> is_period w b = true -> a + b <= length w ->
  is_period w (Nat.gcd a b) = true.
Proof.
  intros _ _ Ha Hb HL. apply is_period_spec.
  apply (fine_wilf_weak (a + b) a b (length w) (xb w)); [lia| | |exact HL].
  - exact (proj1 (is_period_spec w a) Ha).
  - exact (proj1 (is_period_spec w b) Hb).
Qed.

(* ------------------------------------------------------------------ *)
(* amortisation arithmetic: 3 + K1 + K2 steps per position, plus the ghost term M *)

Lemma amort_step2 K1 K2 pos g d c1 inner c2 M M' T :
  c1 <= K1 * g + K2 -> 1 <= d -> 1 + inner + M <= 3 * d + M' ->
  c2 + (3 + K1 + K2) * (pos + g + d) + M' <= T ->
  1 + c1 + inner + c2 + (3 + K1 + K2) * pos + M <= T.
Proof.
  intros H1 H2 H3 H4.
  assert (exists d', d = 1 + d') as [d' ->] by (exists (d - 1); lia). nia.
Qed.

Lemma amort_ret2 K1 K2 pos hl c1 M :
  pos + 1 <= hl -> c1 <= K1 * (hl - pos) + K2 -> M <= hl ->
  1 + c1 + (3 + K1 + K2) * pos + M <= (4 + K1 + K2) * hl.
Proof.
  intros H1 H2 H3.
  assert (exists g, hl = pos + 1 + g) as [g ->] by (exists (hl - pos - 1); lia).
  replace (pos + 1 + g - pos) with (1 + g) in H2 by lia. nia.
Qed.

(* ------------------------------------------------------------------ *)
Section Small.
Variables (x h : list N) (tw : twoway) (a : nat).

Local Notation nn := (length x).
Local Notation cc := (tw_cp tw).
Local Notation hl := (length h).

Hypothesis Hc : cc < nn.

Variable p : nat.
Hypothesis Hp1 : 1 <= p.
Hypothesis Hpn : p <= nn.
Hypothesis Hcp : cc <= p.
Hypothesis Hper : is_period x p = true.
Hypothesis Hmin : forall g, 1 <= g -> is_period x g = true -> p <= g.

(* 2. the spacing lemma: W1 = window at q1 whose right part x[cc..] matched, W3 =
   window at q3 >= q1 + p whose right part matched and whose left part did not *)
Lemma spacing q1 q3 :
  agree x h q1 cc nn -> agree x h q3 cc nn -> q1 + p <= q3 ->
  (exists t, t <= cc /\ nth (q3 + t) h 0%N <> xb x t) ->
  q1 + (nn - cc - p) + 1 <= q3.
Proof.
  intros A1 A3 Hq (t & Ht & Hne).
  destruct (Nat.le_gt_cases (q1 + (nn - cc - p) + 1) q3) as [Hok|Hlt]; [exact Hok|exfalso].
  remember (q3 - q1) as e eqn:Ee.
  assert (p <= e) as He1 by lia. assert (e + cc + p <= nn) as He2 by lia.
  assert (q3 = q1 + e) as Hq3 by lia. clear Ee.
  pose proof (proj1 (is_period_spec x p) Hper) as Hpp.
  (* the left part of W3 lies inside the right part of W1 *)
  assert (nth (q3 + t) h 0%N = xb x (t + e)) as HL.
  { rewrite Hq3. replace (q1 + e + t) with (q1 + (t + e)) by lia. apply A1; lia. }
  destruct (Nat.eq_dec (e mod p) 0) as [Hm|Hm].
  - apply Hne. rewrite HL. symmetry.
    apply (period_multiple x p e t); [lia|exact Hper|exact Hm|lia].
  - (* v = x[cc..] has the periods p and e *)
    set (f := fun j => xb x (cc + j)).
    assert (fper f (nn - cc) p) as Fp.
    { intros j Hj. unfold f. rewrite (Hpp (cc + j)) by lia. f_equal. lia. }
    assert (fper f (nn - cc) e) as Fe.
    { intros j Hj. unfold f. rewrite <- (A3 (cc + j)) by lia. rewrite Hq3.
      replace (q1 + e + (cc + j)) with (q1 + (cc + (j + e))) by lia. apply A1; lia. }
    pose proof (fine_wilf_weak (p + e) p e (nn - cc) f (le_n _) Fp Fe ltac:(lia)) as Fg.
    pose proof (Nat.gcd_divide_l p e) as Dp. pose proof (Nat.gcd_divide_r p e) as De.
    remember (Nat.gcd p e) as g eqn:Eg.
    assert (g <= p) as Hgp by (apply Nat.divide_pos_le; [lia|exact Dp]).
    assert (1 <= g) as Hg1.
    { destruct (Nat.eq_dec g 0) as [G0|G0]; [|lia]. subst g. rewrite G0 in Dp.
      apply Nat.divide_0_l in Dp. lia. }
    assert (g <> p) as Hgne.
    { intros G. apply Hm. apply Nat.mod_divide; [lia|]. rewrite <- G. exact De. }
    assert (is_period x g = true) as Hxg.
    { apply is_period_spec. intros j Hj.
      destruct (Nat.lt_ge_cases j cc) as [Hjc|Hjc].
      - rewrite (Hpp j) by lia.
        pose proof (Fg (j + p - cc) ltac:(lia)) as E. unfold f in E.
        replace (cc + (j + p - cc)) with (j + p) in E by lia.
        replace (cc + (j + p - cc + g)) with (j + g + p) in E by lia.
        rewrite E. symmetry. apply Hpp. lia.
      - pose proof (Fg (j - cc) ltac:(lia)) as E. unfold f in E.
        replace (cc + (j - cc)) with j in E by lia.
        replace (cc + (j - cc + g)) with (j + g) in E by lia. exact E. }
    pose proof (Hmin g Hg1 Hxg). lia.
Qed.

(* ------------------------------------------------------------------ *)
(* 3. the scans: cost together with what they establish *)

Lemma scan_right_both : forall fuel i pos,
  nn - i < fuel -> i <= nn -> pos + nn <= hl ->
  satc (scan_right h x fuel i pos)
       (fun r cst => i <= r /\ r <= nn /\ cst = r - i /\ agree x h pos i r).
Proof.
  induction fuel as [|f IH]; intros i pos Hf Hi Hp; [lia|].
  cbn [scan_right]. destruct (i <? nn) eqn:E.
  - apply Nat.ltb_lt in E.
    rewrite (idx_ok x i 0%N) by lia. rewrite bind_lift_ok.
    rewrite (idx_ok h (pos + i) 0%N) by lia. rewrite bind_lift_ok.
    destruct (N.eqb_spec (nth i x 0%N) (nth (pos + i) h 0%N)) as [Eq|Ne].
    + apply satc_tick_bind. eapply satc_weaken. { apply (IH (i + 1) pos); lia. }
      cbn beta. intros r cst (R1 & R2 & R3 & R4).
      split; [lia|]. split; [lia|]. split; [lia|].
      intros j J1 J2. destruct (Nat.eq_dec j i) as [->|Hne]; [symmetry; exact Eq|apply R4; lia].
    + apply satc_ret. split; [lia|]. split; [lia|]. split; [lia|]. intros j J1 J2. lia.
  - apply Nat.ltb_ge in E. apply satc_ret.
    split; [lia|]. split; [lia|]. split; [lia|]. intros j J1 J2. lia.
Qed.

Lemma scan_left_both : forall fuel j sh pos,
  j < fuel -> j < nn -> pos + nn <= hl ->
  satc (scan_left_small h x fuel j sh pos)
       (fun r cst => r <= j /\ cst = j - r /\ (sh < r -> nth (pos + r) h 0%N <> xb x r)).
Proof.
  induction fuel as [|f IH]; intros j sh pos Hf Hj Hp; [lia|].
  cbn [scan_left_small]. destruct (sh <? j) eqn:E.
  - apply Nat.ltb_lt in E.
    rewrite (idx_ok x j 0%N) by lia. rewrite bind_lift_ok.
    rewrite (idx_ok h (pos + j) 0%N) by lia. rewrite bind_lift_ok.
    destruct (N.eqb_spec (nth j x 0%N) (nth (pos + j) h 0%N)) as [Eq|Ne].
    + apply satc_tick_bind. eapply satc_weaken. { apply (IH (j - 1) sh pos); lia. }
      cbn beta. intros r cst (R1 & R2 & R3). split; [lia|]. split; [lia|exact R3].
    + apply satc_ret. split; [lia|]. split; [lia|].
      intros _ E2. apply Ne. symmetry. exact E2.
  - apply Nat.ltb_ge in E. apply satc_ret. split; [lia|]. split; [lia|]. intros E2. lia.
Qed.

(* ------------------------------------------------------------------ *)
(* 4. the loop *)

Variable pre : option prefn.
Variables K1 K2 : nat.
Hypothesis Hstep : forall pos st, pos + nn <= hl ->
  satc (pre_step pre a h x pos st) (step_cost x h K1 K2 pos).

(* ghost: the most recent window on which a full right scan from cc was followed
   by a left mismatch.  No such window starts before bump last. *)
Definition bump (last : option nat) : nat :=
  match last with Some q => q + (nn - cc - p) + 1 | None => 0 end.

Definition last_ok (last : option nat) (pos : nat) : Prop :=
  match last with
  | Some q => q + p <= pos /\ q + nn <= hl /\ agree x h q cc nn
  | None => True
  end.

Lemma find_small_cost_lin : forall fuel pos sh st last,
  hl + 1 - pos < fuel -> pos <= hl -> (sh = 0 \/ sh = nn - p) -> last_ok last pos ->
  satc (find_small_loop tw pre a h x fuel p pos sh st)
       (fun _ cst => cst + (3 + K1 + K2) * pos + Nat.max pos (bump last) <= (4 + K1 + K2) * hl).
Proof.
  induction fuel as [|f IH]; intros pos sh st last Hf Hph Hsh Hlast; [lia|].
  assert (bump last <= hl) as Hbump.
  { destruct last as [q|]; cbn [bump last_ok] in *; lia. }
  assert (sh < nn) as Hshn by lia.
  cbn [find_small_loop].
  destruct (pos + nn <=? hl) eqn:E.
  2: { apply satc_ret. pose proof (Nat.mul_le_mono_l _ _ (3 + K1 + K2) Hph). lia. }
  apply Nat.leb_le in E.
  apply satc_tick_bind.
  eapply satc_bind. { apply Hstep; exact E. }
  intros [r|[[pos1 ran] st1]] c1 Hr; cbn [step_cost] in Hr.
  { apply satc_ret.
    pose proof (amort_ret2 K1 K2 pos hl c1 (Nat.max pos (bump last)) ltac:(lia) Hr ltac:(lia)). lia. }
  destruct Hr as (R1 & R2 & R3 & R4). cbv zeta.
  assert (exists g, pos1 = pos + g) as [g Hg] by (exists (pos1 - pos); lia).
  replace (pos1 - pos) with g in R4 by lia. subst pos1.
  (* either the memory is alive (case A) or the scans start from scratch (case B) *)
  assert ((ran = false /\ (pos + g) = pos /\ (if ran then cc else Nat.max cc sh) = Nat.max cc (nn - p) /\
           (if ran then 0 else sh) = nn - p) \/
          ((if ran then cc else Nat.max cc sh) = cc /\ (if ran then 0 else sh) = 0)) as HAB.
  { destruct ran.
    - right. split; reflexivity.
    - destruct Hsh as [->| ->].
      + right. split; [lia|reflexivity].
      + left. split; [reflexivity|]. split; [apply R3; reflexivity|]. split; reflexivity. }
  assert (cc <= (if ran then cc else Nat.max cc sh) /\ (if ran then cc else Nat.max cc sh) <= nn) as Hi0
    by (destruct ran; lia).
  assert ((if ran then 0 else sh) < nn) as Hsh1 by (destruct ran; lia).
  set (i0 := if ran then cc else Nat.max cc sh) in *.
  set (sh1 := if ran then 0 else sh) in *. clearbody i0 sh1.
  rewrite csub_ok by lia. rewrite bind_lift_ok.
  rewrite (idx_ok h ((pos + g) + (nn - 1)) 0%N) by lia. rewrite bind_lift_ok.
  destruct (byteset_contains (tw_byteset tw) (nth ((pos + g) + (nn - 1)) h 0%N)); cbn [negb].
  2: { (* the last byte of the window is not a needle byte *)
       eapply satc_weaken.
       { apply (IH ((pos + g) + nn) 0 st1 last); [lia|lia|left; reflexivity|].
         destruct last as [q|]; cbn [last_ok] in *; [|exact I].
         split; [lia|]. split; [lia|]. apply Hlast. }
       cbn beta. intros _ c2 Hc2.
       pose proof (amort_step2 K1 K2 pos g nn c1 0 c2 (Nat.max pos (bump last))
                     (Nat.max (pos + g + nn) (bump last)) ((4 + K1 + K2) * hl)
                     R4 ltac:(lia) ltac:(lia) Hc2). lia. }
  eapply satc_bind. { apply scan_right_both; [lia|lia|exact R2]. }
  intros i c2 (I1 & I2 & I3 & I4).
  destruct (i <? nn) eqn:Ei.
  - (* mismatch in the right part *)
    apply Nat.ltb_lt in Ei. rewrite csub_ok by lia. rewrite bind_lift_ok.
    eapply satc_weaken.
    { apply (IH ((pos + g) + (i - cc + 1)) 0 st1 last); [lia|lia|left; reflexivity|].
      destruct last as [q|]; cbn [last_ok] in *; [|exact I].
      split; [lia|]. split; [lia|]. apply Hlast. }
    cbn beta. intros _ c3 Hc3.
    pose proof (amort_step2 K1 K2 pos g (i - cc + 1) c1 c2 c3 (Nat.max pos (bump last))
                  (Nat.max (pos + g + (i - cc + 1)) (bump last)) ((4 + K1 + K2) * hl)
                  R4 ltac:(lia) ltac:(lia) Hc3). lia.
  - apply Nat.ltb_ge in Ei. assert (i = nn) by lia. subst i.
    eapply satc_bind. { apply scan_left_both; [lia|exact Hc|exact R2]. }
    intros j c3 (J1 & J2 & J3).
    eapply satc_bind with
      (P1 := fun ok cst => cst = 0 /\
               (ok = false -> exists t, t <= Nat.max cc sh1 /\ nth ((pos + g) + t) h 0%N <> xb x t)).
    { destruct (j <=? sh1) eqn:Ej.
      - apply Nat.leb_le in Ej.
        rewrite (idx_ok x sh1 0%N) by lia. rewrite bind_lift_ok.
        rewrite (idx_ok h ((pos + g) + sh1) 0%N) by lia. rewrite bind_lift_ok.
        apply satc_ret. split; [reflexivity|]. intros Hok. apply N.eqb_neq in Hok.
        exists sh1. split; [lia|]. intros E2. apply Hok. symmetry. exact E2.
      - apply Nat.leb_gt in Ej. apply satc_ret. split; [reflexivity|]. intros _.
        exists j. split; [lia|]. apply J3. exact Ej. }
    intros ok c4 [-> Hok]. destruct ok.
    + (* match *)
      apply satc_ret.
      assert (0 + (3 + K1 + K2) * (pos + g + nn) + hl <= (4 + K1 + K2) * hl) as Hfin.
      { pose proof (Nat.mul_le_mono_l _ _ (3 + K1 + K2) R2). lia. }
      pose proof (amort_step2 K1 K2 pos g nn c1 (c2 + c3) 0 (Nat.max pos (bump last)) hl ((4 + K1 + K2) * hl)
                    R4 ltac:(lia) ltac:(lia) Hfin). lia.
    + (* mismatch in the left part *)
      specialize (Hok eq_refl).
      rewrite csub_ok by lia. rewrite bind_lift_ok.
      destruct HAB as [(A1 & A2 & A3 & A4)|(B1 & B2)].
      * (* A: the memory was used; the right scan cost at most p *)
        eapply satc_weaken.
        { apply (IH ((pos + g) + p) (nn - p) st1 last); [lia|lia|right; reflexivity|].
          destruct last as [q|]; cbn [last_ok] in *; [|exact I].
          split; [lia|]. split; [lia|]. apply Hlast. }
        cbn beta. intros _ c5 Hc5.
        pose proof (amort_step2 K1 K2 pos g p c1 (c2 + c3) c5 (Nat.max pos (bump last))
                      (Nat.max (pos + g + p) (bump last)) ((4 + K1 + K2) * hl)
                      R4 ltac:(lia) ltac:(lia) Hc5). lia.
      * (* B: full right scan from cc: this window is the new `last` *)
        subst i0 sh1. rewrite Nat.max_0_r in Hok.
        assert (bump last <= (pos + g)) as Hsp.
        { destruct last as [q|]; cbn [bump last_ok] in *; [|lia].
          destruct Hlast as (L1 & L2 & L3).
          apply (spacing q (pos + g)); [exact L3|exact I4|lia|exact Hok]. }
        eapply satc_weaken.
        { apply (IH ((pos + g) + p) (nn - p) st1 (Some (pos + g))); [lia|lia|right; reflexivity|].
          cbn [last_ok]. split; [lia|]. split; [exact R2|exact I4]. }
        cbn beta. intros _ c5 Hc5. cbn [bump] in Hc5.
        pose proof (amort_step2 K1 K2 pos g p c1 (c2 + c3) c5 (Nat.max pos (bump last))
                      (Nat.max (pos + g + p) (pos + g + (nn - cc - p) + 1)) ((4 + K1 + K2) * hl)
                      R4 ltac:(lia) ltac:(lia) Hc5). lia.
Qed.

End Small.

(* ------------------------------------------------------------------ *)
(* 5. the theorems *)

Lemma cert_fwd_small_period x tw p :
  tw_cert_fwd x tw = true -> tw_shift tw = Small p -> p = smallest_period x.
Proof.
  intros Hcert Hs. unfold tw_cert_fwd in Hcert. cbv zeta in Hcert.
  apply andb_true_iff in Hcert as [_ Hshift]. rewrite Hs in Hshift.
  apply andb_true_iff in Hshift as [H1 _]. apply Nat.eqb_eq in H1. exact H1.
Qed.

(* the sharp form: 4 + K1 + K2 steps per haystack byte, nothing else *)
Theorem tw_find_cost_pre_small_sharp : forall x h tw pf a st K1 K2 p,
  tw_cert_fwd x tw = true -> tw_byteset tw = byteset_new x -> tw_shift tw = Small p ->
  pre_ok x pf -> pre_mul_saturating = true -> pre_cost x pf K1 K2 ->
  Forall (fun b => (b < 256)%N) h ->
  satc (tw_find tw (Some pf) a h x st)
       (fun _ c => c <= (4 + K1 + K2) * length h).
Proof.
  intros x h tw pf a st K1 K2 p Hcert _ Hs _ Hsat Hpc Hbytes.
  destruct (cert_fwd_cost_facts x tw Hcert) as [Hc Hsh].
  pose proof (cert_fwd_small_period x tw p Hcert Hs) as HpP.
  destruct (TwoWayFwdProofs.smallest_period_spec x ltac:(lia)) as (Hper & _ & _).
  unfold tw_find.
  assert (length x =? 0 = false) as E0 by (apply Nat.eqb_neq; lia).
  rewrite Hs in *. rewrite E0. destruct Hsh as (Hp1 & Hpn & Hcp).
  rewrite <- HpP in Hper.
  assert (forall g, 1 <= g -> is_period x g = true -> p <= g) as Hmin.
  { intros g Hg1 Hg. rewrite HpP. apply smallest_period_min; assumption. }
  eapply satc_weaken.
  { apply (find_small_cost_lin x h tw a Hc p Hp1 Hpn Hcp Hper Hmin (Some pf) K1 K2
             (fun pos st0 Hp => pre_step_cost_some x h tw a Hc pf K1 K2 pos st0 Hsat Hpc Hbytes Hp)
             (S (S (length h))) 0 0 st None); [lia|lia|left; reflexivity|exact I]. }
  cbn beta. intros _ c Hcst. cbn [bump] in Hcst. lia.
Qed.

(* the requested shape, with C = 4, D = 0, E = 0 *)
Theorem tw_find_cost_pre_small : forall x h tw pf a st K1 K2 p,
  tw_cert_fwd x tw = true -> tw_byteset tw = byteset_new x -> tw_shift tw = Small p ->
  pre_ok x pf -> pre_mul_saturating = true -> pre_cost x pf K1 K2 ->
  Forall (fun b => (b < 256)%N) h ->
  satc (tw_find tw (Some pf) a h x st)
       (fun _ c => c <= (4 + K1 + K2) * (length h + 1) + 0 * length x + 0).
Proof.
  intros x h tw pf a st K1 K2 p Hcert Hbs Hs Hok Hsat Hpc Hbytes.
  eapply satc_weaken.
  { apply (tw_find_cost_pre_small_sharp x h tw pf a st K1 K2 p); assumption. }
  cbn beta. intros _ c Hcst.
  pose proof (Nat.mul_le_mono_l (length h) (length h + 1) (4 + K1 + K2) ltac:(lia)). lia.
Qed.

(* for the searcher the preprocessing really builds: no certificate hypothesis *)
Theorem tw_find_cost_pre_small_sharp_all : forall x h tw pf a st K1 K2 p,
  1 <= length x -> fst (tw_new x) = Ok tw -> tw_shift tw = Small p ->
  pre_ok x pf -> pre_mul_saturating = true -> pre_cost x pf K1 K2 ->
  Forall (fun b => (b < 256)%N) h ->
  satc (tw_find tw (Some pf) a h x st)
       (fun _ c => c <= (4 + K1 + K2) * length h).
Proof.
  intros x h tw pf a st K1 K2 p Hn Hnew Hs Hok Hsat Hpc Hbytes.
  apply (tw_find_cost_pre_small_sharp x h tw pf a st K1 K2 p); try assumption.
  - apply tw_cert_fwd_new; assumption.
  - apply tw_new_byteset; exact Hnew.
Qed.

Theorem tw_find_cost_pre_small_all : forall x h tw pf a st K1 K2 p,
  1 <= length x -> fst (tw_new x) = Ok tw -> tw_shift tw = Small p ->
  pre_ok x pf -> pre_mul_saturating = true -> pre_cost x pf K1 K2 ->
  Forall (fun b => (b < 256)%N) h ->
  satc (tw_find tw (Some pf) a h x st)
       (fun _ c => c <= (4 + K1 + K2) * (length h + 1) + 0 * length x + 0).
Proof.
  intros x h tw pf a st K1 K2 p Hn Hnew Hs Hok Hsat Hpc Hbytes.
  apply (tw_find_cost_pre_small x h tw pf a st K1 K2 p); try assumption.
  - apply tw_cert_fwd_new; assumption.
  - apply tw_new_byteset; exact Hnew.
Qed.

Print Assumptions fine_wilf_weak.
Print Assumptions tw_find_cost_pre_small_sharp.
Print Assumptions tw_find_cost_pre_small_sharp_all.
Print Assumptions tw_find_cost_pre_small.
Print Assumptions tw_find_cost_pre_small_all.
