(* The Critical Factorization Theorem (Crochemore & Perrin 1991, Theorem 3.1 and
   Section 3.3) in the form needed by the Two-Way certificate: the later of the
   two maximal suffixes (for the two reverse lexicographic orders) is a critical
   position, and the shift computed from the period of that suffix is sound. *)
From Memchr Require Import Spec Params Sub.TwoWay Sub.TwoWayCert Sub.Words.
From Memchr Require Import Sub.TwoWayFwdProofs.

(* ------------------------------------------------------------------ *)
(* Lexicographic order induced by a strict total letter order          *)
(* ------------------------------------------------------------------ *)
Section Lex.
Variables lt lt' : N -> N -> bool.
Hypothesis lt_irrefl : forall a, lt a a = false.
Hypothesis lt_asym : forall a b, lt a b = true -> lt b a = false.
Hypothesis lt_total : forall a b, lt a b = false -> lt b a = false -> a = b.
Hypothesis lt_rev : forall a b, lt' a b = lt b a.

Lemma lex_le_cancel w u v : lex_le lt (w ++ u) (w ++ v) = lex_le lt u v.
Proof.
  induction w as [|a w IH]; cbn [app lex_le]; [reflexivity|].
  rewrite lt_irrefl. exact IH.
Qed.

Lemma lex_le_cancel' w u v : lex_le lt' (w ++ u) (w ++ v) = lex_le lt' u v.
Proof.
  induction w as [|a w IH]; cbn [app lex_le]; [reflexivity|].
  rewrite lt_rev, lt_irrefl. exact IH.
Qed.

Lemma lex_le_cancel_nil w u : lex_le lt (w ++ u) w = lex_le lt u [].
Proof. rewrite <- (lex_le_cancel w u []). rewrite app_nil_r. reflexivity. Qed.

Lemma lex_le_nil_r u : lex_le lt u [] = true -> u = [].
Proof. destruct u; cbn [lex_le]; [reflexivity|discriminate]. Qed.

Lemma lex_le_antisym : forall u v, lex_le lt u v = true -> lex_le lt v u = true -> u = v.
Proof.
  induction u as [|a u IH]; intros [|b v] H1 H2; cbn [lex_le] in *; try reflexivity; try discriminate.
  destruct (lt a b) eqn:Eab.
  - rewrite (lt_asym _ _ Eab) in H2. discriminate.
  - destruct (lt b a) eqn:Eba; [discriminate|].
    rewrite (lt_total _ _ Eab Eba). f_equal. apply IH; assumption.
Qed.

(* a word that is below b for both an order and its reverse is a prefix of b *)
Lemma lex_le_both_prefix : forall a b,
  lex_le lt a b = true -> lex_le lt' a b = true ->
  forall i, i < length a -> nth i a 0%N = nth i b 0%N.
Proof.
  induction a as [|c a IH]; intros [|d b] H1 H2 i Hi; cbn [lex_le length] in *; try lia; try discriminate.
  rewrite !lt_rev in H2.
  destruct (lt c d) eqn:Ecd.
  - rewrite (lt_asym _ _ Ecd) in H2. discriminate.
  - destruct (lt d c) eqn:Edc; [discriminate|].
    destruct i as [|i]; cbn [nth]; [apply lt_total; assumption|].
    apply IH; [assumption|assumption|lia].
Qed.

(* ------------------------------------------------------------------ *)
(* Criticality of the later maximal suffix                              *)
(* ------------------------------------------------------------------ *)
Variable x : list N.
Variable cp : nat.
Hypothesis Hmax : is_max_suffix lt x cp.

Let n := length x.

Lemma cp_lt_n : cp < n.
Proof. exact (proj1 Hmax). Qed.

Lemma skipn_slice_eq (a b w : nat) :
  a + w <= n -> b + w <= n ->
  (forall i, i < w -> xb x (a + i) = xb x (b + i)) -> slice x a w = slice x b w.
Proof.
  intros Ha Hb H. apply (nth_ext _ _ 0%N 0%N).
  - rewrite !slice_length by (fold n; lia). reflexivity.
  - intros i Hi. rewrite slice_length in Hi by (fold n; lia).
    rewrite !nth_slice by exact Hi. apply H. exact Hi.
Qed.

(* (a): a local period at cp is longer than cp *)
Lemma local_gt_cp k : 1 <= k -> local_period x cp k = true -> cp < k.
Proof.
  intros Hk Hl. pose proof cp_lt_n as Hc.
  destruct (Nat.lt_ge_cases cp k) as [|Hkc]; [assumption|exfalso].
  rewrite local_period_spec in Hl. fold n in Hl.
  destruct Hmax as [_ Hm].
  pose proof (Hm (cp - k) ltac:(lia)) as Hs.
  rewrite (skipn_chunk x (cp - k) k) in Hs. replace (cp - k + k) with cp in Hs by lia.
  destruct (Nat.le_gt_cases (cp + k) n) as [Hkv|Hkv].
  - (* w is a prefix of v *)
    assert (slice x (cp - k) k = slice x cp k) as Ew.
    { apply skipn_slice_eq; [lia|lia|]. intros i Hi.
      rewrite (Hl (cp - k + i)) by lia. f_equal. lia. }
    rewrite Ew in Hs. rewrite (skipn_chunk x cp k) in Hs at 2.
    rewrite lex_le_cancel in Hs.
    destruct (Nat.eq_dec (cp + k) n) as [E|NE].
    + rewrite (skipn_all2 x (n := cp + k)) in Hs by (fold n; lia).
      apply lex_le_nil_r in Hs. apply (f_equal (@length N)) in Hs.
      rewrite skipn_length in Hs. cbn [length] in Hs. fold n in Hs. lia.
    + pose proof (Hm (cp + k) ltac:(fold n; lia)) as Hz.
      pose proof (lex_le_antisym _ _ Hs Hz) as E.
      apply (f_equal (@length N)) in E. rewrite !skipn_length in E. fold n in E. lia.
  - (* v is a proper prefix of w *)
    set (m := n - cp) in *.
    assert (slice x (cp - k) k = slice x cp m ++ slice x (cp - k + m) (k - m)) as Ew.
    { replace k with (m + (k - m)) at 2 by lia. rewrite slice_split. f_equal.
      apply skipn_slice_eq; [lia|lia|]. intros i Hi.
      rewrite (Hl (cp - k + i)) by lia. f_equal. lia. }
    assert (skipn cp x = slice x cp m) as Ev.
    { unfold slice. rewrite firstn_all2; [reflexivity|]. rewrite skipn_length. fold n. lia. }
    rewrite Ew, Ev, <- app_assoc in Hs.
    rewrite lex_le_cancel_nil in Hs. apply lex_le_nil_r in Hs.
    apply (f_equal (@length N)) in Hs. rewrite app_length, slice_length in Hs by (fold n; lia).
    cbn [length] in Hs. lia.
Qed.

(* (b): a local period at cp is a period of x; here the maximal suffix for the
   reverse order, starting at i' <= cp, is used *)
Variable i' : nat.
Hypothesis Hmax' : is_max_suffix lt' x i'.
Hypothesis Hle : i' <= cp.

Lemma local_is_period k : 1 <= k -> local_period x cp k = true -> is_period x k = true.
Proof.
  intros Hk Hl. pose proof cp_lt_n as Hc. pose proof (local_gt_cp k Hk Hl) as Hck.
  rewrite local_period_spec in Hl. fold n in Hl.
  assert (forall j, j < cp -> j + k < n -> xb x j = xb x (j + k)) as Hu.
  { intros j H1 H2. apply Hl; lia. }
  apply is_period_spec. fold n. intros j Hj.
  destruct (Nat.lt_ge_cases j cp) as [Hjc|Hjc]; [apply Hu; lia|].
  (* j >= cp, so cp + k < n: v = w z with z non-empty *)
  assert (cp + k < n) as Hkv by lia.
  destruct Hmax as [_ Hm]. destruct Hmax' as [_ Hm'].
  pose proof (Hm (cp + k) ltac:(fold n; lia)) as Hz.
  rewrite (skipn_chunk x cp k) in Hz.
  pose proof (Hm' (i' + k) ltac:(fold n; lia)) as Hz'.
  rewrite (skipn_chunk x (i' + k) (cp - i')) in Hz'.
  rewrite (skipn_chunk x i' (cp - i')) in Hz'.
  replace (i' + k + (cp - i')) with (cp + k) in Hz' by lia.
  replace (i' + (cp - i')) with cp in Hz' by lia.
  assert (slice x (i' + k) (cp - i') = slice x i' (cp - i')) as Ey.
  { apply skipn_slice_eq; [lia|lia|]. intros i Hi.
    rewrite (Hu (i' + i)) by lia. f_equal. lia. }
  rewrite Ey, lex_le_cancel' in Hz'.
  rewrite (skipn_chunk x cp k) in Hz'.
  pose proof (lex_le_both_prefix _ _ Hz Hz' (j - cp)) as E.
  rewrite skipn_length in E. fold n in E. specialize (E ltac:(lia)).
  rewrite <- skipn_chunk in E. rewrite !nth_skipn' in E.
  unfold xb. replace (cp + k + (j - cp)) with (j + k) in E by lia.
  replace (cp + (j - cp)) with j in E by lia. symmetry. exact E.
Qed.

End Lex.

(* ------------------------------------------------------------------ *)
(* From criticality to the certificate                                  *)
(* ------------------------------------------------------------------ *)
Lemma smallest_period_min x q : 1 <= q -> is_period x q = true -> smallest_period x <= q.
Proof.
  intros Hq Hp. destruct (Nat.le_gt_cases q (length x)) as [Hle|Hgt].
  - unfold smallest_period.
    destruct (first_period_spec x (length x) 1 q Hq ltac:(lia) Hp) as [_ H]. lia.
  - destruct (length x) as [|m] eqn:E.
    + unfold smallest_period. rewrite E. cbn [first_period]. lia.
    + pose proof (smallest_period_spec x ltac:(lia)) as [_ H]. lia.
Qed.

Lemma period_is_local x c p : is_period x p = true -> local_period x c p = true.
Proof.
  intros Hp. apply local_period_spec. intros j _ _ Hj.
  apply (proj1 (is_period_spec x p) Hp). exact Hj.
Qed.

Lemma is_period_skipn x c q :
  is_period (skipn c x) q = true <->
  forall j, c <= j -> j + q < length x -> xb x j = xb x (j + q).
Proof.
  rewrite is_period_spec. rewrite skipn_length. unfold xb. split.
  - intros H j H1 H2. specialize (H (j - c) ltac:(lia)).
    rewrite !nth_skipn' in H. replace (c + (j - c)) with j in H by lia.
    replace (c + (j - c + q)) with (j + q) in H by lia. exact H.
  - intros H j Hj. rewrite !nth_skipn'. rewrite (H (c + j)) by lia. f_equal. lia.
Qed.

Section Cert.
Variable x : list N.
Variable cp : nat.
Let n := length x.
Let P := smallest_period x.
Hypothesis Hn : 1 <= n.
Hypothesis Hc : cp < n.
Hypothesis Hcrit : forall k, 1 <= k -> local_period x cp k = true -> cp < k /\ is_period x k = true.

Lemma P_spec : is_period x P = true /\ 1 <= P <= n.
Proof. apply smallest_period_spec. exact Hn. Qed.

Lemma local_ge_P k : 1 <= k -> local_period x cp k = true -> P <= k.
Proof. intros Hk Hl. apply smallest_period_min; [exact Hk|]. apply (Hcrit k Hk Hl). Qed.

Lemma cp_lt_P : cp < P.
Proof.
  destruct P_spec as [Hp Hr]. apply (Hcrit P); [lia|]. apply period_is_local. exact Hp.
Qed.

Lemma multiples_ok : locals_are_multiples x cp P (Nat.max (P - 1) (n - 1 - cp)) = true.
Proof.
  destruct P_spec as [Hp Hr].
  unfold locals_are_multiples. apply forallb_forall. intros k Hk. apply in_seq in Hk.
  destruct (local_period x cp k) eqn:El; cbn [implb]; [|reflexivity].
  apply Nat.eqb_eq. pose proof (local_ge_P k ltac:(lia) El) as HPk.
  assert (k <= n - 1 - cp) as Hkv by lia.
  destruct (Nat.eq_dec (k mod P) 0) as [|Hr0]; [assumption|exfalso].
  pose proof (Nat.div_mod k P ltac:(lia)) as Ediv.
  pose proof (Nat.mod_upper_bound k P ltac:(lia)) as Hrlt.
  set (r := k mod P) in *. set (q := k / P) in *.
  assert (local_period x cp r = true) as Hlr.
  { apply local_period_spec. fold n. intros j H1 H2 H3.
    rewrite local_period_spec in El. fold n in El.
    rewrite (El j) by lia.
    rewrite (period_mul x P Hp q (j + r)) by (fold n; nia). f_equal. nia. }
  pose proof (local_ge_P r ltac:(lia) Hlr). lia.
Qed.

(* the period of v = x[cp..] when P < |v| *)
Lemma per_suffix_le : P + cp <= n -> smallest_period (skipn cp x) <= P.
Proof.
  intros H. destruct P_spec as [Hp Hr]. apply smallest_period_min; [lia|].
  apply is_period_skipn. intros j _ Hj. apply (proj1 (is_period_spec x P) Hp). exact Hj.
Qed.

Lemma per_suffix_spec :
  let q := smallest_period (skipn cp x) in
  1 <= q <= n - cp /\ forall j, cp <= j -> j + q < n -> xb x j = xb x (j + q).
Proof.
  intros q. pose proof (smallest_period_spec (skipn cp x)) as H.
  rewrite skipn_length in H. fold n in H. destruct (H ltac:(lia)) as [H1 H2].
  split; [exact H2|]. apply is_period_skipn. exact H1.
Qed.

Lemma per_suffix_eq : P + cp < n -> smallest_period (skipn cp x) = P.
Proof.
  intros H. pose proof (per_suffix_le ltac:(lia)) as Hle.
  destruct per_suffix_spec as [Hq1 Hq2]. destruct P_spec as [Hp Hr].
  set (q := smallest_period (skipn cp x)) in *.
  destruct (Nat.eq_dec q P) as [|NE]; [assumption|exfalso].
  assert (local_period x cp (P - q) = true) as Hl.
  { apply local_period_spec. fold n. intros j H1 H2 H3.
    rewrite (proj1 (is_period_spec x P) Hp j) by (fold n; lia).
    rewrite (Hq2 (j + (P - q))) by lia. f_equal. lia. }
  pose proof (local_ge_P (P - q) ltac:(lia) Hl). lia.
Qed.

Lemma shift_ok :
  match shift_fwd_pure x (smallest_period (skipn cp x)) cp with
  | Small p => (p =? P) && (cp <=? p)
  | Large s => (1 <=? s) && (s <=? P)
  end = true.
Proof.
  pose proof cp_lt_P as HcP. destruct P_spec as [Hp Hr].
  destruct per_suffix_spec as [Hq1 Hq2].
  set (q := smallest_period (skipn cp x)) in *.
  unfold shift_fwd_pure. fold n.
  destruct (Nat.leb_spec n (cp * 2)) as [H2|H2].
  { apply andb_true_iff. split; apply Nat.leb_le; lia. }
  destruct ((cp <=? q) && list_eqb (slice x q cp) (slice x 0 cp)) eqn:Eb.
  - apply andb_true_iff in Eb as [E1 E2]. apply Nat.leb_le in E1. apply list_eqb_eq in E2.
    apply andb_true_iff. split; [|apply Nat.leb_le; exact E1]. apply Nat.eqb_eq.
    assert (is_period x q = true) as Hpq.
    { apply is_period_spec. fold n. intros j Hj.
      destruct (Nat.lt_ge_cases j cp) as [Hjc|Hjc]; [|apply Hq2; lia].
      pose proof (f_equal (fun l => nth j l 0%N) E2) as E. cbn beta in E.
      rewrite !nth_slice in E by exact Hjc. unfold xb. rewrite (Nat.add_comm j q). symmetry. exact E. }
    pose proof (smallest_period_min x q ltac:(lia) Hpq) as HPq. fold P in HPq.
    destruct (Nat.le_gt_cases (P + cp) n) as [Hc1|Hc1].
    + pose proof (per_suffix_le Hc1). fold q in H. lia.
    + lia.
  - apply andb_true_iff. split; apply Nat.leb_le; [lia|].
    destruct (Nat.le_gt_cases (n - cp) P) as [|Hlt]; [lia|exfalso].
    pose proof (per_suffix_eq ltac:(lia)) as Eq. fold q in Eq.
    apply andb_false_iff in Eb. destruct Eb as [Eb|Eb].
    + apply Nat.leb_gt in Eb. lia.
    + apply list_eqb_neq in Eb. apply Eb. rewrite Eq.
      apply (nth_ext _ _ 0%N 0%N).
      * rewrite !slice_length by (fold n; lia). reflexivity.
      * intros i Hi. rewrite slice_length in Hi by (fold n; lia).
        rewrite !nth_slice by exact Hi. cbn [Nat.add].
        symmetry. rewrite (Nat.add_comm P i).
        apply (proj1 (is_period_spec x P) Hp). fold n. lia.
Qed.

Lemma cert_ok bs :
  tw_cert_fwd x {| tw_byteset := bs; tw_cp := cp;
                   tw_shift := shift_fwd_pure x (smallest_period (skipn cp x)) cp |} = true.
Proof.
  unfold tw_cert_fwd. cbn [tw_cp tw_shift]. fold n. fold P.
  rewrite multiples_ok. rewrite shift_ok.
  rewrite (proj2 (Nat.ltb_lt cp n) Hc). reflexivity.
Qed.

End Cert.

(* ------------------------------------------------------------------ *)
(* The two letter orders                                                *)
(* ------------------------------------------------------------------ *)
Lemma ord_irrefl k a : ord k a a = false.
Proof. destruct k; cbn [ord]; apply N.ltb_irrefl. Qed.

Lemma ord_asym k a b : ord k a b = true -> ord k b a = false.
Proof. destruct k; cbn [ord]; rewrite N.ltb_lt, N.ltb_ge; lia. Qed.

Lemma ord_total k a b : ord k a b = false -> ord k b a = false -> a = b.
Proof. destruct k; cbn [ord]; rewrite !N.ltb_ge; lia. Qed.

Lemma crit_general k k' x cp i' :
  (forall a b, ord k' a b = ord k b a) ->
  is_max_suffix (ord k) x cp -> is_max_suffix (ord k') x i' -> i' <= cp ->
  forall bs, tw_cert_fwd x {| tw_byteset := bs; tw_cp := cp;
                 tw_shift := shift_fwd_pure x (smallest_period (skipn cp x)) cp |} = true.
Proof.
  intros Hrev Hm Hm' Hle bs.
  assert (cp < length x) as Hc by exact (proj1 Hm).
  apply cert_ok; [lia|exact Hc|].
  intros j Hj Hl. split.
  - exact (local_gt_cp (ord k) (ord_irrefl k) (ord_asym k) (ord_total k) x cp Hm j Hj Hl).
  - exact (local_is_period (ord k) (ord k') (ord_irrefl k) (ord_asym k) (ord_total k) Hrev
             x cp Hm i' Hm' Hle j Hj Hl).
Qed.

Theorem tw_cert_from_max_suffixes : forall (x : list N) (i1 i2 : nat) (bs : N),
  1 <= length x ->
  is_max_suffix (ord Maximal) x i1 ->
  is_max_suffix (ord Minimal) x i2 ->
  let cp := if i1 <? i2 then i2 else i1 in
  let plb := smallest_period (skipn cp x) in
  tw_cert_fwd x {| tw_byteset := bs; tw_cp := cp; tw_shift := shift_fwd_pure x plb cp |} = true.
Proof.
  intros x i1 i2 bs Hn H1 H2 cp plb. subst plb cp.
  destruct (Nat.ltb_spec i1 i2) as [Hlt|Hge].
  - apply (crit_general Minimal Maximal x i2 i1); [reflexivity|exact H2|exact H1|lia].
  - apply (crit_general Maximal Minimal x i1 i2); [reflexivity|exact H1|exact H2|lia].
Qed.

Print Assumptions tw_cert_from_max_suffixes.
