(* Correctness of the reverse Two-Way search (`tw_rfind`) for EVERY haystack,
   under the decidable certificate `tw_cert_rev`: the search returns the
   rightmost occurrence, never panics, and only emits Tick events. *)
From Memchr Require Import Spec SpecProofs Params Sub.TwoWay Sub.TwoWayCert.

Local Open Scope nat_scope.

Definition tick_only (e : event) : Prop := match e with Tick _ => True | _ => False end.

(* ------------------------------------------------------------------ *)
(* 1. words: periods and local periods as Props *)

Lemma is_period_spec x p :
  is_period x p = true -> forall j, j + p < length x -> xb x j = xb x (j + p).
Proof.
  unfold is_period. intros H j Hj. rewrite forallb_forall in H.
  apply N.eqb_eq. apply H. apply in_seq. lia.
Qed.

Lemma is_period_len x : is_period x (length x) = true.
Proof. unfold is_period. rewrite Nat.sub_diag. reflexivity. Qed.

Lemma first_period_spec x : forall fuel p,
  p <= length x -> p + fuel = length x + 1 ->
  p <= first_period x fuel p /\ first_period x fuel p <= length x /\
  is_period x (first_period x fuel p) = true.
Proof.
  induction fuel as [|f IH]; intros p Hp Hf; [lia|]. cbn [first_period].
  destruct (is_period x p) eqn:E.
  - split; [lia|]. split; [lia|exact E].
  - assert (p <> length x) as Hne.
    { intros ->. rewrite is_period_len in E. discriminate. }
    destruct (IH (S p)) as (H1 & H2 & H3); [lia|lia|].
    split; [lia|]. split; [lia|exact H3].
Qed.

Lemma smallest_period_spec x : 1 <= length x ->
  1 <= smallest_period x /\ smallest_period x <= length x /\
  is_period x (smallest_period x) = true.
Proof. intros H. unfold smallest_period. apply first_period_spec; lia. Qed.

Lemma period_mul x P :
  (forall j, j + P < length x -> xb x j = xb x (j + P)) ->
  forall m j, j + m * P < length x -> xb x j = xb x (j + m * P).
Proof.
  intros HP. induction m as [|m IH]; intros j Hj.
  - rewrite Nat.mul_0_l, Nat.add_0_r. reflexivity.
  - rewrite Nat.mul_succ_l in *. rewrite (HP j) by lia. rewrite (IH (j + P)) by lia.
    f_equal. lia.
Qed.

Lemma period_divides x P k j :
  1 <= P -> (forall j, j + P < length x -> xb x j = xb x (j + P)) ->
  k mod P = 0 -> j + k < length x -> xb x j = xb x (j + k).
Proof.
  intros HP1 HP Hk Hj. apply Nat.mod_divides in Hk; [|lia]. destruct Hk as [m ->].
  rewrite (Nat.mul_comm P m) in *. apply period_mul; assumption.
Qed.

(* k is a local period at c *)
Definition lp (x : list N) (c k : nat) : Prop :=
  forall j, c - k <= j -> j < c -> j + k < length x -> xb x j = xb x (j + k).

Lemma local_period_true x c k : lp x c k -> local_period x c k = true.
Proof.
  intros H. unfold local_period. apply forallb_forall. intros j Hj. apply in_seq in Hj.
  destruct (j + k <? length x) eqn:E; [|reflexivity]. apply Nat.ltb_lt in E.
  apply N.eqb_eq. apply H; lia.
Qed.

Lemma locals_spec x c P bound k :
  locals_are_multiples x c P bound = true ->
  1 <= k -> k <= bound -> lp x c k -> k mod P = 0.
Proof.
  unfold locals_are_multiples. intros H Hk1 Hk2 Hl. rewrite forallb_forall in H.
  assert (In k (seq 1 bound)) as Hin by (apply in_seq; lia).
  specialize (H k Hin). rewrite (local_period_true x c k Hl) in H. cbn [implb] in H.
  apply Nat.eqb_eq. exact H.
Qed.

Lemma cert_rev_facts x tw : tw_cert_rev x tw = true ->
  0 < tw_cp tw /\ tw_cp tw <= length x /\
  (forall k, 1 <= k -> k <= Nat.max (smallest_period x - 1) (tw_cp tw - 1) ->
             lp x (tw_cp tw) k -> k mod smallest_period x = 0) /\
  match tw_shift tw with
  | Small p => p = smallest_period x /\ length x - tw_cp tw <= p
  | Large s => 1 <= s /\ s <= smallest_period x
  end.
Proof.
  unfold tw_cert_rev. intros H.
  apply andb_true_iff in H as [H H4]. apply andb_true_iff in H as [H H3].
  apply andb_true_iff in H as [H1 H2].
  apply Nat.ltb_lt in H1. apply Nat.leb_le in H2.
  split; [exact H1|]. split; [exact H2|]. split.
  - intros k Hk1 Hk2 Hl. eapply locals_spec; eassumption.
  - destruct (tw_shift tw) as [p|s]; apply andb_true_iff in H4 as [H5 H6].
    + apply Nat.eqb_eq in H5. apply Nat.leb_le in H6. split; assumption.
    + apply Nat.leb_le in H5. apply Nat.leb_le in H6. split; assumption.
Qed.

(* ------------------------------------------------------------------ *)
(* 2. the approximate byte set never rejects a byte of the needle *)

Lemma land_pow2_eqb a n : (N.land a (2 ^ n) =? 0)%N = negb (N.testbit a n).
Proof.
  destruct (N.testbit a n) eqn:E; cbn [negb].
  - apply N.eqb_neq. intros H.
    assert (N.testbit (N.land a (2 ^ n)) n = false) as G by (rewrite H; apply N.bits_0).
    rewrite N.land_spec, E, N.pow2_bits_true in G. discriminate.
  - apply N.eqb_eq. apply N.bits_inj. intros m.
    rewrite N.land_spec, N.bits_0, N.pow2_bits_eqb.
    destruct (N.eqb_spec n m) as [<-|Hn]; [rewrite E; reflexivity|apply andb_false_r].
Qed.

Lemma byteset_fold_bit b : forall x acc,
  N.testbit acc (b mod 64)%N = true \/ In b x ->
  N.testbit (fold_left (fun bits b => N.lor bits (byteset_bit b)) x acc) (b mod 64)%N = true.
Proof.
  induction x as [|a x IH]; intros acc H; cbn [fold_left].
  - destruct H as [H|[]]. exact H.
  - apply IH. destruct H as [H|[->|H]].
    + left. rewrite N.lor_spec, H. reflexivity.
    + left. rewrite N.lor_spec. unfold byteset_bit. rewrite N.pow2_bits_true. apply orb_true_r.
    + right. exact H.
Qed.

Lemma byteset_contains_in x b : In b x -> byteset_contains (byteset_new x) b = true.
Proof.
  intros H. unfold byteset_contains, byteset_bit. rewrite land_pow2_eqb, negb_involutive.
  unfold byteset_new. apply byteset_fold_bit. right. exact H.
Qed.

(* ------------------------------------------------------------------ *)
(* 3. the search *)

Section Rev.
Variables (x h : list N) (tw : twoway).

Local Notation nn := (length x).
Local Notation cc := (tw_cp tw).
Local Notation PP := (smallest_period x).

Hypothesis Hc0 : 0 < cc.
Hypothesis Hcn : cc <= nn.
Hypothesis HF1 : forall k, 1 <= k -> k <= Nat.max (PP - 1) (cc - 1) -> lp x cc k -> k mod PP = 0.
Hypothesis HP1 : 1 <= PP.
Hypothesis HPn : PP <= nn.
Hypothesis HPer : forall j, j + PP < nn -> xb x j = xb x (j + PP).
Hypothesis Hbs : tw_byteset tw = byteset_new x.

(* the window starting at base agrees with the needle on [lo, hi) *)
Definition agree (base lo hi : nat) : Prop :=
  forall j, lo <= j -> j < hi -> nth (base + j) h 0%N = xb x j.

Lemma occ_nth q j : occurs_at x h q = true -> j < nn -> nth (q + j) h 0%N = xb x j.
Proof.
  intros H Hj. apply occurs_at_eq in H as [_ H].
  rewrite <- (nth_slice h q nn j 0%N Hj). rewrite H. reflexivity.
Qed.

Lemma occ_intro q : q + nn <= length h -> agree q 0 nn -> occurs_at x h q = true.
Proof.
  intros Hq Ha. apply occurs_at_eq. split; [exact Hq|].
  apply (nth_ext _ _ 0%N 0%N).
  - rewrite slice_length; lia.
  - intros j Hj. rewrite slice_length in Hj by lia. rewrite nth_slice by exact Hj.
    apply Ha; lia.
Qed.

(* (LP') an occurrence k to the left of a window matching on [b, c) makes k a
   local period at c *)
Lemma lp_from_occ base b k :
  agree base b cc -> occurs_at x h (base - k) = true -> 1 <= k -> k <= base ->
  b <= cc - k -> lp x cc k.
Proof.
  intros Ha Ho Hk1 Hkb Hb j Hj1 Hj2 Hj3.
  rewrite <- (Ha j) by lia. rewrite <- (occ_nth (base - k) (j + k) Ho Hj3). f_equal. lia.
Qed.

(* mismatch in the left part at index i - 1 *)
Lemma no_occ_left base i k :
  1 <= i -> i <= cc -> agree base i cc ->
  xb x (i - 1) <> nth (base + (i - 1)) h 0%N ->
  k <= cc - i -> k <= base -> occurs_at x h (base - k) = false.
Proof.
  intros Hi1 Hi2 Ha Hne Hk Hkb.
  destruct (occurs_at x h (base - k)) eqn:E; [|reflexivity]. exfalso.
  destruct (Nat.eq_dec k 0) as [->|Hk0].
  - rewrite Nat.sub_0_r in E. apply Hne. symmetry. apply occ_nth; [exact E|lia].
  - assert (lp x cc k) as Hl by (apply (lp_from_occ base i k); try assumption; lia).
    assert (k mod PP = 0) as Hm by (apply HF1; [lia|lia|exact Hl]).
    apply Hne. rewrite (period_divides x PP k (i - 1) HP1 HPer Hm) by lia.
    rewrite <- (occ_nth (base - k) (i - 1 + k) E) by lia. f_equal. lia.
Qed.

(* mismatch in the right part after the left part matched *)
Lemma no_occ_right base j k :
  agree base 0 cc -> j < nn -> xb x j <> nth (base + j) h 0%N ->
  k < PP -> k <= base -> occurs_at x h (base - k) = false.
Proof.
  intros Ha Hj Hne Hk Hkb.
  destruct (occurs_at x h (base - k)) eqn:E; [|reflexivity]. exfalso.
  destruct (Nat.eq_dec k 0) as [->|Hk0].
  - rewrite Nat.sub_0_r in E. apply Hne. symmetry. apply occ_nth; [exact E|lia].
  - assert (lp x cc k) as Hl by (apply (lp_from_occ base 0 k); try assumption; lia).
    assert (k mod PP = 0) as Hm by (apply HF1; [lia|lia|exact Hl]).
    rewrite Nat.mod_small in Hm by lia. lia.
Qed.

(* the first byte of the window is not a needle byte *)
Lemma no_occ_byteset base q :
  byteset_contains (byteset_new x) (nth base h 0%N) = false ->
  q <= base -> base < q + nn -> occurs_at x h q = false.
Proof.
  intros Hb Hq1 Hq2.
  destruct (occurs_at x h q) eqn:E; [|reflexivity]. exfalso.
  assert (nth base h 0%N = xb x (base - q)) as Hx.
  { rewrite <- (occ_nth q (base - q) E) by lia. f_equal. lia. }
  rewrite byteset_contains_in in Hb; [discriminate|].
  rewrite Hx. unfold xb. apply nth_In. lia.
Qed.

(* ---- the two scans ---- *)

Lemma tick_sat k : satq tick_only (tick k) (fun _ => True).
Proof. apply (satq_emit tick_only (Tick k) (fun _ => True)); exact I. Qed.

Lemma rscan_left_sat base : forall fuel i,
  i < fuel -> i <= nn -> base + nn <= length h ->
  satq tick_only (rscan_left h x fuel i base)
       (fun r => r <= i /\ agree base r i /\
                 (0 < r -> xb x (r - 1) <> nth (base + (r - 1)) h 0%N)).
Proof.
  induction fuel as [|f IH]; intros i Hf Hi Hb; [lia|]. cbn [rscan_left].
  destruct (0 <? i) eqn:E.
  - apply Nat.ltb_lt in E.
    rewrite (idx_ok x (i - 1) 0%N) by lia. rewrite bind_lift_ok.
    rewrite csub_ok by lia. rewrite bind_lift_ok.
    rewrite (idx_ok h (base + i - 1) 0%N) by lia. rewrite bind_lift_ok.
    destruct (N.eqb_spec (nth (i - 1) x 0%N) (nth (base + i - 1) h 0%N)) as [Heq|Hne].
    + eapply satq_bind. { apply tick_sat. }
      intros _ _. eapply satq_weaken. { apply IH; lia. }
      intros r (H1 & H2 & H3). split; [lia|]. split; [|exact H3].
      intros j Hj1 Hj2. destruct (Nat.eq_dec j (i - 1)) as [->|Hn].
      * unfold xb. rewrite Heq. f_equal. lia.
      * apply H2; lia.
    + apply satq_ret. split; [lia|]. split.
      * intros j Hj1 Hj2. lia.
      * intros _. unfold xb. replace (base + (i - 1)) with (base + i - 1) by lia. exact Hne.
  - apply Nat.ltb_ge in E. apply satq_ret. split; [lia|]. split.
    + intros j Hj1 Hj2. lia.
    + intros H0. lia.
Qed.

Lemma rscan_right_sat base lim :
  lim <= nn -> base + nn <= length h ->
  forall fuel j, lim - j < fuel ->
  satq tick_only (rscan_right h x fuel j lim base)
       (fun r => j <= r /\ r <= Nat.max j lim /\ agree base j r /\
                 (r < lim -> xb x r <> nth (base + r) h 0%N)).
Proof.
  intros Hl Hb. induction fuel as [|f IH]; intros j Hf; [lia|]. cbn [rscan_right].
  destruct (j <? lim) eqn:E.
  - apply Nat.ltb_lt in E.
    rewrite (idx_ok x j 0%N) by lia. rewrite bind_lift_ok.
    rewrite (idx_ok h (base + j) 0%N) by lia. rewrite bind_lift_ok.
    destruct (N.eqb_spec (nth j x 0%N) (nth (base + j) h 0%N)) as [Heq|Hne].
    + eapply satq_bind. { apply tick_sat. }
      intros _ _. eapply satq_weaken. { apply IH; lia. }
      intros r (H1 & H2 & H3 & H4). split; [lia|]. split; [lia|]. split; [|exact H4].
      intros j0 Hj1 Hj2. destruct (Nat.eq_dec j0 j) as [->|Hn].
      * unfold xb. rewrite Heq. reflexivity.
      * apply H3; lia.
    + apply satq_ret. split; [lia|]. split; [lia|]. split.
      * intros j0 Hj1 Hj2. lia.
      * intros _. exact Hne.
  - apply Nat.ltb_ge in E. apply satq_ret. split; [lia|]. split; [lia|]. split.
    + intros j0 Hj1 Hj2. lia.
    + intros H0. lia.
Qed.

(* ---- the loops ---- *)

(* no occurrence starts after pos - n *)
Definition no_occ_after (pos : nat) : Prop :=
  forall q, pos < q + nn -> occurs_at x h q = false.

Lemma rfind_small_loop_S f period pos sh :
  rfind_small_loop tw h x (S f) period pos sh =
  (if nn <=? pos then
     tick 1;;;
     base <- lift (csub pos nn);;
     fb <- lift (idx h base);;
     if negb (byteset_contains (tw_byteset tw) fb) then rfind_small_loop tw h x f period base nn
     else
       i <- rscan_left h x (S nn) (Nat.min cc sh) base;;
       first <- lift (idx x 0);;
       if (0 <? i) || negb (first =? fb)%N then
         d <- lift (csub cc i);;
         p' <- lift (csub pos (d + 1));;
         rfind_small_loop tw h x f period p' nn
       else
         j <- rscan_right h x (S nn) cc sh base;;
         if sh <=? j then ret (Some base)
         else
           p' <- lift (csub pos period);;
           rfind_small_loop tw h x f period p' period
   else ret None).
Proof. reflexivity. Qed.

Lemma rfind_large_loop_S f shiftv pos :
  rfind_large_loop tw h x (S f) shiftv pos =
  (if nn <=? pos then
     tick 1;;;
     base <- lift (csub pos nn);;
     fb <- lift (idx h base);;
     if negb (byteset_contains (tw_byteset tw) fb) then rfind_large_loop tw h x f shiftv base
     else
       i <- rscan_left h x (S nn) cc base;;
       first <- lift (idx x 0);;
       if (0 <? i) || negb (first =? fb)%N then
         d <- lift (csub cc i);;
         p' <- lift (csub pos (d + 1));;
         rfind_large_loop tw h x f shiftv p'
       else
         j <- rscan_right h x (S nn) cc nn base;;
         if j =? nn then ret (Some base)
         else
           p' <- lift (csub pos shiftv);;
           rfind_large_loop tw h x f shiftv p'
   else ret None).
Proof. reflexivity. Qed.

Lemma exit_none pos : pos < nn -> no_occ_after pos -> None = rfind_spec x h.
Proof.
  intros Hp Hno. symmetry. apply rfind_spec_none. intros q. apply Hno. lia.
Qed.

Lemma found_some pos :
  nn <= pos -> pos <= length h -> no_occ_after pos -> agree (pos - nn) 0 nn ->
  Some (pos - nn) = rfind_spec x h.
Proof.
  intros Hp Hh Hno Ha. symmetry. apply rfind_spec_some. split.
  - apply occ_intro; [lia|exact Ha].
  - intros q Hq. apply Hno. lia.
Qed.

(* skipping a whole window after the byte-set test *)
Lemma no_occ_after_byteset pos :
  nn <= pos -> no_occ_after pos ->
  byteset_contains (byteset_new x) (nth (pos - nn) h 0%N) = false ->
  no_occ_after (pos - nn).
Proof.
  intros Hp Hno Hb q Hq. destruct (le_lt_dec q (pos - nn)) as [Hle|Hgt].
  - apply (no_occ_byteset (pos - nn) q Hb); lia.
  - apply Hno. lia.
Qed.

(* shifting after a mismatch at index i - 1 of the left part *)
Lemma no_occ_after_left pos i :
  nn <= pos -> no_occ_after pos -> 1 <= i -> i <= cc -> agree (pos - nn) i cc ->
  xb x (i - 1) <> nth (pos - nn + (i - 1)) h 0%N ->
  no_occ_after (pos - (cc - i + 1)).
Proof.
  intros Hp Hno Hi1 Hi2 Ha Hne q Hq. destruct (le_lt_dec q (pos - nn)) as [Hle|Hgt].
  - replace q with (pos - nn - (pos - nn - q)) by lia.
    apply (no_occ_left (pos - nn) i); try assumption; lia.
  - apply Hno. lia.
Qed.

(* shifting by s <= P after a mismatch in the right part *)
Lemma no_occ_after_right pos j s :
  nn <= pos -> no_occ_after pos -> agree (pos - nn) 0 cc -> j < nn ->
  xb x j <> nth (pos - nn + j) h 0%N -> s <= PP ->
  no_occ_after (pos - s).
Proof.
  intros Hp Hno Ha Hj Hne Hs q Hq. destruct (le_lt_dec q (pos - nn)) as [Hle|Hgt].
  - replace q with (pos - nn - (pos - nn - q)) by lia.
    apply (no_occ_right (pos - nn) j); try assumption; lia.
  - apply Hno. lia.
Qed.

Lemma rfind_small_sat : nn - cc <= PP -> forall fuel pos sh,
  pos < fuel -> pos <= length h -> no_occ_after pos ->
  1 <= sh -> sh <= nn -> (sh < nn -> sh = PP) ->
  (nn <= pos -> agree (pos - nn) sh nn) ->
  satq tick_only (rfind_small_loop tw h x fuel PP pos sh) (fun r => r = rfind_spec x h).
Proof.
  intros HF3. induction fuel as [|f IH]; intros pos sh Hf Hh Hno Hs1 Hsn HsP Hag; [lia|].
  rewrite rfind_small_loop_S.
  destruct (nn <=? pos) eqn:E.
  2:{ apply Nat.leb_gt in E. apply satq_ret. apply (exit_none pos); assumption. }
  apply Nat.leb_le in E. specialize (Hag E).
  eapply satq_bind. { apply tick_sat. } intros _ _.
  rewrite csub_ok by exact E. rewrite bind_lift_ok.
  rewrite (idx_ok h (pos - nn) 0%N) by lia. rewrite bind_lift_ok.
  rewrite Hbs.
  destruct (byteset_contains (byteset_new x) (nth (pos - nn) h 0%N)) eqn:Eb; cbn [negb].
  2:{ apply IH; try lia.
      - apply no_occ_after_byteset; assumption.
      - intros _ j Hj1 Hj2. lia. }
  eapply satq_bind. { apply rscan_left_sat; lia. }
  intros i (Hi1 & Hi2 & Hi3).
  rewrite (idx_ok x 0 0%N) by lia. rewrite bind_lift_ok.
  assert (agree (pos - nn) i cc) as Hic.
  { intros j Hj1 Hj2. destruct (Nat.lt_ge_cases j (Nat.min cc sh)) as [Hlt|Hge].
    - apply Hi2; assumption.
    - apply Hag; lia. }
  destruct (0 <? i) eqn:Ei; cbn [orb].
  - apply Nat.ltb_lt in Ei.
    rewrite csub_ok by lia. rewrite bind_lift_ok.
    rewrite csub_ok by lia. rewrite bind_lift_ok.
    apply IH; try lia.
    + apply no_occ_after_left; [exact E|exact Hno|lia|lia|exact Hic|apply Hi3; exact Ei].
    + intros _ j Hj1 Hj2. lia.
  - apply Nat.ltb_ge in Ei. assert (i = 0) as -> by lia.
    assert (nth 0 x 0%N = nth (pos - nn) h 0%N) as Hfb.
    { symmetry. rewrite <- (Nat.add_0_r (pos - nn)) at 1. apply Hic; lia. }
    rewrite Hfb, N.eqb_refl. cbn [negb].
    eapply satq_bind. { apply rscan_right_sat with (fuel := S nn); lia. }
    intros j (Hj1 & Hj2 & Hj3 & Hj4).
    destruct (sh <=? j) eqn:Ej.
    + apply Nat.leb_le in Ej. apply satq_ret. apply found_some; try assumption.
      intros j0 Hj01 Hj02.
      destruct (Nat.lt_ge_cases j0 cc) as [Hlt|Hge]; [apply Hic; lia|].
      destruct (Nat.lt_ge_cases j0 j) as [Hlt2|Hge2]; [apply Hj3; lia|].
      apply Hag; lia.
    + apply Nat.leb_gt in Ej.
      rewrite csub_ok by lia. rewrite bind_lift_ok.
      apply IH; try lia.
      * apply (no_occ_after_right pos j PP); [exact E|exact Hno|exact Hic|lia|apply Hj4; exact Ej|lia].
      * intros E2 j0 Hj01 Hj02.
        replace (pos - PP - nn + j0) with (pos - nn + (j0 - PP)) by lia.
        rewrite (Hic (j0 - PP)) by lia.
        rewrite (HPer (j0 - PP)) by lia. f_equal. lia.
Qed.

Lemma rfind_large_sat s : 1 <= s -> s <= PP -> forall fuel pos,
  pos < fuel -> pos <= length h -> no_occ_after pos ->
  satq tick_only (rfind_large_loop tw h x fuel s pos) (fun r => r = rfind_spec x h).
Proof.
  intros Hs1 HsP. induction fuel as [|f IH]; intros pos Hf Hh Hno; [lia|].
  rewrite rfind_large_loop_S.
  destruct (nn <=? pos) eqn:E.
  2:{ apply Nat.leb_gt in E. apply satq_ret. apply (exit_none pos); assumption. }
  apply Nat.leb_le in E.
  eapply satq_bind. { apply tick_sat. } intros _ _.
  rewrite csub_ok by exact E. rewrite bind_lift_ok.
  rewrite (idx_ok h (pos - nn) 0%N) by lia. rewrite bind_lift_ok.
  rewrite Hbs.
  destruct (byteset_contains (byteset_new x) (nth (pos - nn) h 0%N)) eqn:Eb; cbn [negb].
  2:{ apply IH; try lia. apply no_occ_after_byteset; assumption. }
  eapply satq_bind. { apply rscan_left_sat; lia. }
  intros i (Hi1 & Hic & Hi3).
  rewrite (idx_ok x 0 0%N) by lia. rewrite bind_lift_ok.
  destruct (0 <? i) eqn:Ei; cbn [orb].
  - apply Nat.ltb_lt in Ei.
    rewrite csub_ok by lia. rewrite bind_lift_ok.
    rewrite csub_ok by lia. rewrite bind_lift_ok.
    apply IH; try lia.
    apply no_occ_after_left; [exact E|exact Hno|lia|lia|exact Hic|apply Hi3; exact Ei].
  - apply Nat.ltb_ge in Ei. assert (i = 0) as -> by lia.
    assert (nth 0 x 0%N = nth (pos - nn) h 0%N) as Hfb.
    { symmetry. rewrite <- (Nat.add_0_r (pos - nn)) at 1. apply Hic; lia. }
    rewrite Hfb, N.eqb_refl. cbn [negb].
    eapply satq_bind. { apply rscan_right_sat with (fuel := S nn); lia. }
    intros j (Hj1 & Hj2 & Hj3 & Hj4).
    destruct (Nat.eqb_spec j nn) as [Ej|Ej].
    + apply satq_ret. apply found_some; try assumption.
      intros j0 Hj01 Hj02.
      destruct (Nat.lt_ge_cases j0 cc) as [Hlt|Hge]; [apply Hic; lia|].
      apply Hj3; lia.
    + rewrite csub_ok by lia. rewrite bind_lift_ok.
      apply IH; try lia.
      apply (no_occ_after_right pos j s); [exact E|exact Hno|exact Hic|lia|apply Hj4; lia|exact HsP].
Qed.

End Rev.

(* ------------------------------------------------------------------ *)
(* 4. main theorem *)

Theorem tw_rfind_correct : forall (x h : list N) (tw : twoway),
  tw_cert_rev x tw = true ->
  tw_byteset tw = byteset_new x ->
  satq (fun e => match e with Tick _ => True | _ => False end) (tw_rfind tw h x) (fun r => r = rfind_spec x h).
Proof.
  intros x h tw Hcert Hbs.
  destruct (cert_rev_facts x tw Hcert) as (Hc0 & Hcn & HF1 & HF3).
  assert (1 <= length x) as Hn1 by lia.
  destruct (smallest_period_spec x Hn1) as (HP1 & HPn & HPp).
  pose proof (is_period_spec x _ HPp) as HPer.
  assert (length x =? 0 = false) as En by (apply Nat.eqb_neq; lia).
  assert (forall q, length h < q + length x -> occurs_at x h q = false) as Hno.
  { intros q Hq. destruct (occurs_at x h q) eqn:Eo; [|reflexivity].
    apply occurs_at_bound in Eo. lia. }
  unfold tw_rfind. destruct (tw_shift tw) as [p|s]; rewrite En.
  - destruct HF3 as [-> HF3].
    apply (rfind_small_sat x h tw Hc0 Hcn HF1 HP1 HPn HPer Hbs HF3); try lia.
    + exact Hno.
    + intros _ j Hj1 Hj2. lia.
  - destruct HF3 as [Hs1 Hs2].
    apply (rfind_large_sat x h tw Hc0 Hcn HF1 HP1 HPn HPer Hbs s Hs1 Hs2); try lia.
    exact Hno.
Qed.

Print Assumptions tw_rfind_correct.
