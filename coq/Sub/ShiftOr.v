(* Model of src/arch/all/shiftor.rs (Mask = u16). *)
From Memchr Require Export Base.ListX.
From Memchr Require Import Params.

Definition so_mod : N := (2 ^ N.of_nat shiftor_mask_bits)%N.
Definition so_ones : N := (so_mod - 1)%N.
Definition so_not (m : N) : N := N.lxor m so_ones.          (* !m on Mask *)
Definition so_max_len : nat := shiftor_mask_bits - 1.        (* MAX_NEEDLE_LEN = Mask::BITS - 1 *)

Record sofinder := { so_masks : list N; so_nlen : nat }.

(* masks[byte] &= !(1 << i) for (i, byte) in needle.iter().enumerate() *)
Fixpoint so_fill (masks : list N) (x : list N) (i : nat) : list N :=
  match x with
  | [] => masks
  | b :: t =>
      let k := N.to_nat b in
      let m := nth k masks so_ones in
      let masks' := firstn k masks ++ [N.land m (so_not (2 ^ N.of_nat i))] ++ skipn (S k) masks in
      so_fill masks' t (S i)
  end.

Definition so_new (x : list N) : M (option sofinder) :=
  if so_max_len <? length x then ret None
  else
    emit Alloc;;;
    ret (Some {| so_masks := so_fill (repeat so_ones 256) x 0; so_nlen := length x |}).

Section Find.
Variable f : sofinder.

Fixpoint so_loop (h : list N) (i : nat) (result : N) : M (option nat) :=
  match h with
  | [] => ret None
  | b :: t =>
      m <- lift (idx (so_masks f) (N.to_nat b));;
      let r1 := N.lor result m in
      let r2 := ((r1 * 2) mod so_mod)%N in
      tick 3;;;
      if (N.land r2 (2 ^ N.of_nat (so_nlen f)) =? 0)%N then
        s <- lift (csub (i + 1) (so_nlen f));; ret (Some s)
      else so_loop t (S i) r2
  end.

Definition so_find (h : list N) : M (option nat) :=
  if so_nlen f =? 0 then ret (Some 0)
  else so_loop h 0 (so_not 1).

End Find.
