(* Step cost (Base/Cost.v) of the meta searcher: Searcher::new / SearcherRev::new,
   Searcher::find / SearcherRev::rfind for every strategy, Finder / FinderRev and the
   one-shot functions memmem::find / memmem::rfind.

   Every bound has the shape  K * (|h| + 1) + c1 * |x| + c0  with K, c1, c0 numerals:
   the work is linear in haystack plus needle length, for every needle: the forward
   small-period case WITH an active prefilter (where the prefilter throws the Two-Way
   memory away) is covered by Sub/CostTwoWaySmall.v (Fine-Wilf spacing argument). *)
From Memchr Require Import Spec SpecProofs Params Base.Cost Mem.Wrappers Mem.WrappersProofs Mem.CostMem
  Sub.IsEqual Sub.Pair Sub.PairProofs Sub.PackedPair Sub.PackedPairProofs Sub.RabinKarp Sub.CostBlocks
  Sub.Prefilter Sub.TwoWay Sub.TwoWayCert Sub.TwoWayFwdProofs Sub.CostTwoWay Sub.CostTwoWayAll Sub.CostTwoWaySmall
  Sub.Searcher Sub.SearcherProofs Sub.CostPrefilter.

Local Open Scope nat_scope.

(* ------------------------------------------------------------------ *)
(* The constants of the source the bounds depend on (Params.v is regenerated from
   /repo on every run): the packed searcher is only used for needles of at most
   packed_max_len bytes, Rabin-Karp only for haystacks shorter than rk_fast_below
   (inside a Searcher) or oneshot_rk_below_* (in memmem::find / rfind). *)
Lemma params_cost_ok :
  (packed_max_len <= 64)%N /\ (rk_fast_below <= 64)%N /\
  (oneshot_rk_below_fwd <= 128)%N /\ (oneshot_rk_below_rev <= 128)%N /\ pre_mul_saturating = true.
Proof. repeat split; vm_compute; congruence. Qed.

Definition K_pre : nat := 3 + 19 + 19 * 257.       (* Two-Way with a prefilter *)
Definition K_find : nat := 4906.
Definition K_rfind : nat := 69.

Lemma K_pre_val : K_pre = 4905.  Proof. reflexivity. Qed.

(* Rabin-Karp on a short haystack *)
Lemma rk_short_cost f x h B : length x <= length h -> length h < B ->
  satc (rk_find f x h) (fun _ c => c <= (B / 2 + 6) * (length h + 1) + length x).
Proof.
  intros Hx Hh. eapply satc_weaken; [apply rk_find_cost|]. cbn beta. intros _ c Hc.
  assert (length x / 2 <= B / 2) by (apply Nat.div_le_mono; lia).
  assert ((length h + 1) * (length x / 2 + 6) <= (B / 2 + 6) * (length h + 1)).
  { rewrite (Nat.mul_comm (B / 2 + 6)). apply Nat.mul_le_mono_l. lia. }
  lia.
Qed.

Lemma rk_rshort_cost f x h B : length x <= length h -> length h < B ->
  satc (rk_rfind f x h) (fun _ c => c <= (B / 2 + 6) * (length h + 1) + length x).
Proof.
  intros Hx Hh. eapply satc_weaken; [apply rk_rfind_cost|]. cbn beta. intros _ c Hc.
  assert (length x / 2 <= B / 2) by (apply Nat.div_le_mono; lia).
  assert ((length h + 1) * (length x / 2 + 6) <= (B / 2 + 6) * (length h + 1)).
  { rewrite (Nat.mul_comm (B / 2 + 6)). apply Nat.mul_le_mono_l. lia. }
  lia.
Qed.

Lemma rk_is_fast_lt h : rk_is_fast h = true -> length h < 64.
Proof.
  unfold rk_is_fast. intros H. apply N.ltb_lt in H.
  destruct params_cost_ok as (_ & Hf & _). lia.
Qed.

(* ------------------------------------------------------------------ *)
(* Searcher::find *)
Definition small_pre (s : searcher) : Prop :=
  match s_strat s with STwoWayPre tw _ => exists q, tw_shift tw = Small q | _ => False end.

Section Find.
Variables (ar : arch) (x h : list N) (a : nat).
Hypothesis Hx : bytes_ok x.
Hypothesis Hh : bytes_ok h.

Lemma find_rk_branch (s : searcher) (st : prestate) : length x <= length h -> length h < 64 ->
  satc (r <- rk_find (s_rk s) x h;; ret (r, st))
       (fun _ c => c <= K_find * (length h + 1) + length x + 3).
Proof.
  intros H1 H2. eapply satc_bind; [apply (rk_short_cost _ x h 64 H1 H2)|].
  intros r c1 Hc1. cbn beta in Hc1. apply satc_ret. cbn beta in Hc1. change (64 / 2 + 6) with 38 in Hc1. unfold K_find. lia.
Qed.

Theorem searcher_find_cost s st :
  strat_for ar x s -> strat_small s ->
  satc (searcher_find ar s st a h x) (fun _ c => c <= K_find * (length h + 1) + length x + 3).
Proof.
  intros [Hrk Hs] Hsmall. unfold searcher_find.
  destruct (length h <? length x) eqn:El.
  { apply satc_ret. lia. }
  apply Nat.ltb_ge in El.
  destruct params_cost_ok as (Hpm & Hfb & _ & _ & Hsat).
  unfold strat_small, small_pre in *.
  destruct (s_strat s) as [|b|w|tw|tw p] eqn:Es.
  - apply satc_ret. lia.
  - subst x. eapply satc_bind.
    { apply (backend_find_cost (arch_memchr ar) [b] a h ltac:(discriminate) Hh Hx). }
    intros r c1 [Hc1 _]. apply satc_ret. unfold K_find. lia.
  - destruct Hs as [Hdo (isa & i1 & i2 & Hw)].
    assert (length x <= 64) as Hx64.
    { unfold do_packed_search in Hdo. apply andb_prop in Hdo as [_ Hle]. apply N.leb_le in Hle. lia. }
    destruct (length h <? pw_min w) eqn:Em.
    + (* shorter than the vector minimum: Rabin-Karp; pw_min <= |x| + 32 *)
      apply Nat.ltb_lt in Em.
      eapply satc_bind; [apply rk_find_cost|]. intros r c1 Hc1. cbn beta in Hc1. apply satc_ret.
      assert (length x / 2 <= 32) by (apply Nat.div_le_upper_bound; lia).
      assert ((length h + 1) * (length x / 2 + 6) <= (length h + 1) * 38) by (apply Nat.mul_le_mono_l; lia).
      unfold K_find. lia.
    + apply Nat.ltb_ge in Em.
      eapply satc_bind; [apply (pw_find_cost isa x i1 i2 w h Hw Em)|]. intros r c1 Hc1. cbn beta in Hc1. apply satc_ret.
      assert (length x / 2 <= 32) by (apply Nat.div_le_upper_bound; lia).
      assert (length h / 16 <= length h) by (apply Nat.div_le_upper_bound; lia).
      assert ((length h / 16 + 2) * (3 + 32 * (length x / 2 + 5)) <= (length h / 16 + 2) * 1187)
        by (apply Nat.mul_le_mono_l; lia).
      unfold K_find. lia.
  - destruct Hs as [Hreach Htw].
    destruct (rk_is_fast h) eqn:Ef.
    + apply find_rk_branch; [exact El|apply rk_is_fast_lt; exact Ef].
    + eapply satc_weaken; [apply (tw_find_cost_all x h tw a st Htw)|].
      cbn beta. intros _ c Hc. unfold K_find. lia.
  - destruct Hs as (Hreach & Htw & Hp).
    destruct (rk_is_fast h) eqn:Ef.
    + apply find_rk_branch; [exact El|apply rk_is_fast_lt; exact Ef].
    + assert (1 <= length x) as Hn1.
      { unfold tw_reach_fwd in Hreach. apply andb_prop in Hreach as [H2 _]. apply Nat.leb_le in H2. lia. }
      destruct Hsmall as [Ho Hk].
      assert (pre_cost x (prefilter_find ar p) 19 (19 * 257)) as Hpc.
      { apply prefilter_find_cost; [exact Hx|exact Hp|lia|].
        intros f Ef'. rewrite Ef' in Hk. lia. }
      destruct (tw_shift tw) as [q|sft] eqn:Esh.
      { (* small period: the prefilter forgets the memory; Sub/CostTwoWaySmall.v *)
        eapply satc_weaken.
        { apply (tw_find_cost_pre_small_sharp_all x h tw (prefilter_find ar p) a st 19 (19 * 257) q Hn1 Htw Esh).
          - apply prefilter_find_pre_ok; assumption.
          - exact Hsat.
          - exact Hpc.
          - exact Hh. }
        cbn beta. intros _ c Hc. change (4 + 19 + 19 * 257) with 4906 in Hc. unfold K_find. lia. }
      eapply satc_weaken.
      { apply (tw_find_cost_pre_large_all x h tw (prefilter_find ar p) a st 19 (19 * 257) sft Hn1 Htw Esh).
        - apply prefilter_find_pre_ok; assumption.
        - exact Hsat.
        - exact Hpc.
        - exact Hh. }
      cbn beta. intros _ c Hc. change (3 + 19 + 19 * 257) with 4905 in Hc. unfold K_find. lia.
Qed.

(* SearcherRev::rfind: no prefilter, no packed searcher *)
Theorem rsearcher_rfind_cost s :
  rstrat_for x s ->
  satc (rsearcher_rfind ar s a h x) (fun _ c => c <= K_rfind * (length h + 1) + length x + 3).
Proof.
  intros [Hrk Hs]. unfold rsearcher_rfind.
  destruct (length h <? length x) eqn:El.
  { apply satc_ret. lia. }
  apply Nat.ltb_ge in El.
  destruct (r_strat s) as [|b|tw] eqn:Es.
  - apply satc_ret. lia.
  - subst x. eapply satc_weaken.
    { apply (backend_rfind_cost (arch_memchr ar) [b] a h ltac:(discriminate) Hh Hx). }
    cbn beta. intros _ c Hc. unfold K_rfind. lia.
  - destruct Hs as [Hn Htw].
    destruct (rk_is_fast h) eqn:Ef.
    + eapply satc_weaken; [apply (rk_rshort_cost _ x h 64 El (rk_is_fast_lt h Ef))|].
      cbn beta. intros _ c Hc. change (64 / 2 + 6) with 38 in Hc. unfold K_rfind. lia.
    + eapply satc_weaken; [apply (tw_rfind_cost_all x h tw Htw)|].
      cbn beta. intros _ c Hc. unfold K_rfind. lia.
Qed.

End Find.

(* ------------------------------------------------------------------ *)
(* construction: at most the Two-Way preprocessing *)
Lemma satc_label_eq l : satc (label l) (fun _ c => c = 0).
Proof. unfold label. apply satc_label. reflexivity. Qed.

Lemma searcher_twoway_cost x rk ps :
  satc (searcher_twoway x rk ps) (fun _ c => c <= 5 * length x + 8).
Proof.
  unfold searcher_twoway. eapply satc_bind; [apply tw_new_cost|]. intros tw c1 Hc1. cbn beta in Hc1.
  destruct ps as [p|]; (eapply satc_bind; [apply satc_label_eq|]);
    intros _ c2 ->; apply satc_ret; lia.
Qed.

Theorem searcher_new_cost cfg rank ar x :
  satc (searcher_new cfg rank ar x) (fun _ c => c <= 5 * length x + 8).
Proof.
  unfold searcher_new. destruct (length x <=? 1) eqn:E.
  - destruct x as [|b t]; (eapply satc_bind; [apply satc_label_eq|]);
      intros _ c2 ->; apply satc_ret; lia.
  - apply Nat.leb_gt in E.
    destruct pair_params_ok as [Hcap Hskip].
    destruct (pair_with_ranker_spec rank x Hcap Hskip) as [_ Hsome].
    destruct (Hsome ltac:(lia)) as (i1 & i2 & Hr & Hne & H1 & H2 & _).
    eapply satc_bind.
    { instantiate (1 := fun pr c => pr = Some (i1, i2) /\ c = 0).
      exists (Some (i1, i2)). split; [exact Hr|]. split; [reflexivity|].
      rewrite pair_with_ranker_quiet. reflexivity. }
    intros pr c0 [-> ->].
    assert (i1 =? i2 = false) as -> by (apply Nat.eqb_neq; exact Hne). cbn [negb]. rewrite bind_guard_true.
    cbn [Nat.add].
    assert (forall isa lp lpre, satc (with_vec cfg x (rk_new x) isa lp lpre i1 i2)
                                     (fun _ c => c <= 5 * length x + 8)) as Hvec.
    { intros isa lp lpre. unfold with_vec.
      destruct (pw_new_ok isa x i1 i2 H1 H2) as [w Hw]. rewrite Hw, bind_lift_ok.
      destruct (do_packed_search x).
      - eapply satc_bind; [apply satc_label_eq|]. intros _ c2 ->. apply satc_ret. lia.
      - destruct cfg.
        + apply searcher_twoway_cost.
        + unfold prefilter_vec.
          eapply satc_bind.
          { eapply satc_bind; [apply satc_label_eq|]. intros _ c2 ->.
            destruct (pw_new_i1 isa x i1 i2 w Hw) as [Ei Hi]. rewrite Ei.
            rewrite (idx_ok x i1 0%N Hi), bind_lift_ok. apply satc_ret.
            instantiate (1 := fun _ c => c = 0). reflexivity. }
          intros p c1 ->. apply searcher_twoway_cost. }
    assert (satc (with_fallback cfg rank x (rk_new x) i1 i2) (fun _ c => c <= 5 * length x + 8)) as Hfb.
    { unfold with_fallback. destruct cfg.
      - apply searcher_twoway_cost.
      - unfold prefilter_fallback.
        eapply satc_bind.
        { rewrite (idx_ok x i1 0%N H1), bind_lift_ok.
          instantiate (1 := fun _ c => c = 0).
          destruct (max_fallback_rank <? rank (nth i1 x 0%N))%N.
          - eapply satc_bind; [apply satc_label_eq|]. intros _ c2 ->. apply satc_ret. reflexivity.
          - unfold pf_new. rewrite (idx_ok x i1 0%N H1), (idx_ok x i2 0%N H2), bind_lift_ok.
            eapply satc_bind; [apply satc_label_eq|]. intros _ c2 ->. apply satc_ret. reflexivity. }
        intros ps c1 ->. apply searcher_twoway_cost. }
    destruct ar as [[| |]| | |]; first [apply Hvec|apply Hfb].
Qed.

Theorem rsearcher_new_cost x : satc (rsearcher_new x) (fun _ c => c <= 5 * length x + 8).
Proof.
  unfold rsearcher_new.
  eapply satc_bind.
  { instantiate (1 := fun _ c => c <= 5 * length x + 8).
    destruct (length x <=? 1).
    - destruct x as [|b t]; apply satc_ret; lia.
    - eapply satc_bind; [apply tw_new_rev_cost|]. intros tw c1 Hc1. cbn beta in Hc1. apply satc_ret. lia. }
  intros k c1 Hc1. cbn beta in Hc1. apply satc_ret. lia.
Qed.

(* value and cost together *)
Lemma satc_with_satq2 {A} (Q1 Q2 : event -> Prop) (m : M A) (P1 P2 : A -> Prop) (R : A -> nat -> Prop) :
  satq Q1 m P1 -> satq Q2 m P2 -> satc m R -> satc m (fun v c => P1 v /\ P2 v /\ R v c).
Proof.
  intros H1 H2 H3. eapply satc_weaken.
  { eapply satc_with_satq; [exact H1|]. eapply satc_with_satq; [exact H2|exact H3]. }
  cbn beta. intros v c (A1 & A2 & A3). auto.
Qed.

(* ------------------------------------------------------------------ *)
(* Finder::new + find, FinderRev::new + rfind, memmem::find, memmem::rfind *)
Section Top.
Variables (ar : arch) (x h : list N) (a : nat).
Hypothesis Hx : bytes_ok x.
Hypothesis Hh : bytes_ok h.

Theorem finder_cost cfg rank :
  satc (f <- finder_new cfg rank ar x;; finder_find ar f a h)
       (fun _ c => c <= K_find * (length h + 1) + 6 * length x + 11).
Proof.
  unfold finder_new, finder_find.
  eapply satc_bind.
  { eapply satc_bind.
    { apply (satc_with_satq2 _ _ _ _ _ _ (searcher_new_sat cfg rank ar x) (searcher_new_small cfg rank ar x)
               (searcher_new_cost cfg rank ar x)). }
    intros s c1 (Hs1 & Hs2 & Hc1). apply satc_ret.
    instantiate (1 := fun f c => f_needle f = x /\ strat_for ar x (f_searcher f) /\ strat_small (f_searcher f)
                                 /\ c <= 5 * length x + 8).
    cbn. repeat split; try assumption; try lia. apply Hs1. apply Hs1. }
  intros f c1 (Hn & Hs1 & Hs2 & Hc1). rewrite Hn.
  eapply satc_bind.
  { apply (searcher_find_cost ar x h a Hx Hh (f_searcher f) prestate_new Hs1 Hs2). }
  intros r c2 Hc2. cbn beta in Hc2. apply satc_ret. lia.
Qed.

Theorem rfinder_cost :
  satc (f <- rfinder_new x;; rfinder_rfind ar f a h)
       (fun _ c => c <= K_rfind * (length h + 1) + 6 * length x + 11).
Proof.
  unfold rfinder_new, rfinder_rfind.
  eapply satc_bind.
  { eapply satc_bind.
    { eapply satc_with_satq; [apply (rsearcher_new_sat x)|apply (rsearcher_new_cost x)]. }
    intros s c1 (Hs1 & Hc1). apply satc_ret.
    instantiate (1 := fun f c => rf_needle f = x /\ rstrat_for x (rf_searcher f) /\ c <= 5 * length x + 8).
    cbn. repeat split; try assumption; try lia; apply Hs1. }
  intros f c1 (Hn & Hs1 & Hc1). rewrite Hn.
  eapply satc_weaken; [apply (rsearcher_rfind_cost ar x h a Hx Hh (rf_searcher f) Hs1)|].
  cbn beta. intros _ c Hc. lia.
Qed.

Lemma oneshot_lt_fwd : (N.of_nat (length h) <? oneshot_rk_below_fwd)%N = true -> length h < 128.
Proof. intros H. apply N.ltb_lt in H. destruct params_cost_ok as (_ & _ & Ho & _). lia. Qed.

Lemma oneshot_lt_rev : (N.of_nat (length h) <? oneshot_rk_below_rev)%N = true -> length h < 128.
Proof. intros H. apply N.ltb_lt in H. destruct params_cost_ok as (_ & _ & _ & Ho & _). lia. Qed.

Theorem memmem_find_cost :
  satc (memmem_find ar a h x) (fun _ c => c <= K_find * (length h + 1) + 6 * length x + 11).
Proof.
  unfold memmem_find.
  destruct (N.of_nat (length h) <? oneshot_rk_below_fwd)%N eqn:E.
  - pose proof (oneshot_lt_fwd E) as Hl.
    destruct (Nat.le_gt_cases (length x) (length h)) as [Hle|Hgt].
    + eapply satc_weaken; [apply (rk_short_cost _ x h 128 Hle Hl)|].
      cbn beta. intros _ c Hc. change (128 / 2 + 6) with 70 in Hc. unfold K_find. lia.
    + unfold rk_find. apply Nat.ltb_lt in Hgt. rewrite Hgt. apply satc_ret. lia.
  - apply finder_cost.
Qed.

Theorem memmem_rfind_cost :
  satc (memmem_rfind ar a h x) (fun _ c => c <= (K_rfind + 1) * (length h + 1) + 6 * length x + 11).
Proof.
  unfold memmem_rfind.
  destruct (N.of_nat (length h) <? oneshot_rk_below_rev)%N eqn:E.
  - pose proof (oneshot_lt_rev E) as Hl.
    destruct (Nat.le_gt_cases (length x) (length h)) as [Hle|Hgt].
    + eapply satc_weaken; [apply (rk_rshort_cost _ x h 128 Hle Hl)|].
      cbn beta. intros _ c Hc. change (128 / 2 + 6) with 70 in Hc. unfold K_rfind. lia.
    + unfold rk_rfind. apply Nat.ltb_lt in Hgt. rewrite Hgt. apply satc_ret. lia.
  - eapply satc_weaken; [apply rfinder_cost|]. cbn beta. intros _ c Hc. unfold K_rfind in *. lia.
Qed.

End Top.

Print Assumptions searcher_find_cost.
Print Assumptions rsearcher_rfind_cost.
Print Assumptions searcher_new_cost.
Print Assumptions finder_cost.
Print Assumptions rfinder_cost.
Print Assumptions memmem_find_cost.
Print Assumptions memmem_rfind_cost.
