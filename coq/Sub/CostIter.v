(* Step cost (Base/Cost.v) of a traversal with find_iter / rfind_iter (Sub/FindIter.v):
   k calls of `next` on one iterator.

   Each call searches the part of the haystack that is left and, on a hit, resumes right
   after the match.  With the hit-aware bounds of Sub/CostHit.v a successful call pays
   for the bytes it moves over, so all successful calls together cost at most
   (K + 1) * (|h| + 1) + (K + 3) * (number of calls).  A call that returns None leaves
   the position where it is (as in the source: `?` returns before self.pos is updated),
   so EVERY further call after a None repeats that search: the honest general bound
   charges (K + 1) * (|h| + 1) once more for every None that is followed by another call.
   A complete traversal (call next until it returns None, then stop) has no such None. *)
From Memchr Require Import Spec SpecProofs Params Base.Cost Mem.Iter
  Sub.Prefilter Sub.TwoWay Sub.TwoWayCert Sub.TwoWayFwdProofs Sub.TwoWayTier2 Sub.TwoWayTier2Rev Sub.CostTwoWay
  Sub.Searcher Sub.SearcherProofs Sub.FindIter Sub.FindIterProofs Sub.CostSearcher Sub.CostHit.

Local Open Scope nat_scope.

(* ------------------------------------------------------------------ *)
(* counting outputs *)
Fixpoint count_none (l : list (option nat)) : nat :=
  match l with [] => 0 | None :: t => S (count_none t) | Some _ :: t => count_none t end.
Fixpoint count_some (l : list (option nat)) : nat :=
  match l with [] => 0 | None :: t => count_some t | Some _ :: t => S (count_some t) end.

Lemma count_split l : length l = count_some l + count_none l.
Proof. induction l as [|[i|] t IH]; cbn [length count_some count_none]; lia. Qed.

Lemma removelast_cons2 {A} (a b : A) l : removelast (a :: b :: l) = a :: removelast (b :: l).
Proof. reflexivity. Qed.

Lemma count_none_removelast l : count_none l <= count_none (removelast l) + 1.
Proof.
  induction l as [|o t IH]; [cbn; lia|].
  destruct t as [|o2 t2].
  - destruct o; cbn; lia.
  - rewrite removelast_cons2. remember (o2 :: t2) as l2. remember (removelast l2) as r2.
    destruct o; cbn [count_none]; lia.
Qed.

Lemma count_none_map_some l : count_none (map Some l) = 0.
Proof. induction l as [|i t IH]; cbn [map count_none]; [reflexivity|exact IH]. Qed.

Lemma count_some_map_some l : count_some (map Some l) = length l.
Proof. induction l as [|i t IH]; cbn [map count_some length]; [reflexivity|rewrite IH; reflexivity]. Qed.

(* the outputs of a run that is one call longer than the match list: all matches, then None *)
Lemma outs_ok_complete : forall outs rest,
  outs_ok outs rest -> length outs = S (length rest) -> map fst outs = map Some rest ++ [None].
Proof.
  induction outs as [|[o sh] t IH]; intros rest Hok Hlen; [discriminate|].
  cbn [outs_ok] in Hok. destruct Hok as (_ & Ho & Hok).
  destruct rest as [|i rest'].
  - cbn in Hlen. destruct t; [|discriminate]. cbn in Ho. subst o. reflexivity.
  - cbn [hd_error tl] in *. subst o. cbn [map fst app]. f_equal.
    apply IH; [exact Hok|]. cbn [length] in Hlen. lia.
Qed.

Lemma routs_ok_complete : forall outs rest,
  routs_ok outs rest -> length outs = S (length rest) -> outs = map Some rest ++ [None].
Proof.
  induction outs as [|o t IH]; intros rest Hok Hlen; [discriminate|].
  cbn [routs_ok] in Hok. destruct Hok as (Ho & Hok).
  destruct rest as [|i rest'].
  - cbn in Hlen. destruct t; [|discriminate]. cbn in Ho. subst o. reflexivity.
  - cbn [hd_error tl] in *. subst o. cbn [map app]. f_equal.
    apply IH; [exact Hok|]. cbn [length] in Hlen. lia.
Qed.

Lemma satc_self {A} (m : M A) (P : A -> nat -> Prop) :
  satc m P -> satc m (fun v c => fst m = Ok v /\ P v c).
Proof. intros (v & Hv & HP). exists v. auto. Qed.

(* the constants: per byte moved over, and per call *)
Definition W_iter : nat := K_find + 1.
Definition C_iter : nat := K_find + 3.
Definition W_riter : nat := K_rfind + 1.
Definition C_riter : nat := K_rfind + 3.

(* ================================================================== *)
(* find_iter *)
Section Fwd.
Variables (cfg : pconfig) (rank : N -> N) (ar : arch) (x h : list N) (a : nat) (f : finder).
Hypothesis Hx : bytes_ok x.
Hypothesis Hh : bytes_ok h.
Hypothesis Hf : fst (finder_new cfg rank ar x) = Ok f.

Lemma finder_facts : f_needle f = x /\ strat_for ar x (f_searcher f) /\ strat_small (f_searcher f).
Proof.
  destruct (satq_fst _ _ _ (searcher_new_sat cfg rank ar x)) as (s & Hs & Hstrat & _).
  destruct (satq_fst _ _ _ (searcher_new_small cfg rank ar x)) as (s' & Hs' & Hsmall & _).
  rewrite Hs in Hs'. injection Hs' as <-.
  unfold finder_new in Hf. rewrite fst_bind, Hs in Hf. cbn in Hf. injection Hf as <-.
  cbn [f_needle f_searcher]. split; [reflexivity|]. split; [exact Hstrat|exact Hsmall].
Qed.

Lemma cert_fwd_here : tw_reach_fwd ar x = true -> tw_cert_fwd_of x = true.
Proof.
  intros H. apply tw_cert_fwd_all. unfold tw_reach_fwd in H. apply andb_prop in H as [H2 _].
  apply Nat.leb_le in H2. lia.
Qed.

Lemma sat_here : pre_mul_saturating = true.
Proof. destruct params_cost_ok as (_ & _ & _ & _ & Hsat). exact Hsat. Qed.

(* the cost of one call, in terms of its result *)
Lemma fiter_next_steps it :
  satc (fiter_next ar f a h it)
       (fun r c =>
          if length h <? fi_pos it then c = 0
          else (fst r = None -> c <= W_iter * (length h - fi_pos it + 1) + 2) /\
               (forall p, fst r = Some p -> c <= K_find * (p - fi_pos it + length x + 1) + length x + 3)).
Proof.
  destruct finder_facts as (Hn & Hstrat & Hsmall).
  unfold fiter_next. rewrite Hn.
  destruct (length h <? fi_pos it) eqn:E.
  { apply satc_ret. reflexivity. }
  apply Nat.ltb_ge in E.
  destruct (length (skipn (fi_pos it) h) <? length x) eqn:Eshort.
  - (* what is left is shorter than the needle: Searcher::find returns at once *)
    eapply satc_bind.
    { apply shifted_satc. unfold searcher_find. rewrite Eshort.
      apply (satc_ret _ (fun r c => fst r = None /\ c = 0)). split; reflexivity. }
    intros r c1 [Hr ->]. rewrite Hr. apply satc_ret. split.
    + intros _. unfold W_iter, K_find. lia.
    + cbn [fst]. intros p Hp. discriminate.
  - apply Nat.ltb_ge in Eshort. rewrite skipn_length in Eshort.
    eapply satc_bind.
    { apply shifted_satc.
      apply (searcher_find_hit ar x (skipn (fi_pos it) h) (a + fi_pos it) Hx (bytes_skipn h Hh _)
               (f_searcher f) (fi_pre it) Hstrat Hsmall). }
    intros r c1 [Hc Hci]. rewrite skipn_length in Hc.
    destruct (fst r) as [i|] eqn:Er; apply satc_ret; cbn [fst]; rewrite Nat.add_0_r.
    + split; [intros Hp; discriminate|]. intros p Hp. injection Hp as <-.
      specialize (Hci i eq_refl). replace (fi_pos it + i - fi_pos it) with i by lia. exact Hci.
    + split; [|intros p Hp; discriminate]. intros _. unfold W_iter, K_find in *. lia.
Qed.

(* one call as a step of the potential W_iter * position *)
Definition fstep (it : fiter) (r : option nat * fiter) (c : nat) : Prop :=
  match fst r with
  | Some _ => fi_pos it < fi_pos (snd r) /\ fi_pos (snd r) <= length h + 1 /\
              c + W_iter * fi_pos it <= W_iter * fi_pos (snd r) + C_iter
  | None => fi_pos (snd r) = fi_pos it /\ c + W_iter * fi_pos it <= W_iter * (length h + 1) + C_iter
  end.

Lemma fiter_next_step it : fi_pos it <= length h + 1 ->
  satc (fiter_next ar f a h it) (fstep it).
Proof.
  intros Hpos. eapply satc_weaken.
  { eapply satc_with_satq.
    - apply (fiter_next_sat cfg rank ar x h a 0 f Hx Hh Hf cert_fwd_here sat_here it).
    - apply fiter_next_steps. }
  cbn beta. intros r c [Hv Hc]. unfold fstep.
  destruct (length h <? fi_pos it) eqn:E.
  - subst r c. cbn [fst snd]. split; [reflexivity|]. unfold C_iter.
    assert (W_iter * fi_pos it <= W_iter * (length h + 1)) by (apply Nat.mul_le_mono_l; exact Hpos). lia.
  - apply Nat.ltb_ge in E. destruct Hc as [Hcn Hcs].
    destruct (find_spec x (skipn (fi_pos it) h)) as [i|] eqn:Ef.
    + destruct Hv as [Hr1 Hr2]. rewrite Hr1.
      apply find_spec_lt in Ef. rewrite skipn_length in Ef.
      specialize (Hcs _ Hr1). replace (fi_pos it + i - fi_pos it) with i in Hcs by lia.
      rewrite Hr2. split; [lia|]. split; [lia|].
      unfold W_iter, C_iter. lia.
    + destruct Hv as [Hr1 Hr2]. rewrite Hr1. split; [exact Hr2|].
      specialize (Hcn Hr1).
      assert (exists d, length h = fi_pos it + d) as [d Hd] by (exists (length h - fi_pos it); lia).
      rewrite Hd in *. replace (fi_pos it + d - fi_pos it) with d in Hcn by lia.
      unfold C_iter. lia.
Qed.

(* k calls.  Z = W_iter * (|h| + 1) is what one search of the whole haystack may cost;
   it is paid once, plus once more for every None output that is followed by another call *)
Theorem fiter_run_cost_from : forall k it, fi_pos it <= length h + 1 ->
  satc (fiter_run ar f a h k it)
       (fun outs c =>
          (k = 0 -> c = 0) /\ length outs = k /\
          count_some (map fst outs) + fi_pos it <= length h + 1 /\
          c + W_iter * fi_pos it
            <= W_iter * (length h + 1) * (1 + count_none (removelast (map fst outs))) + C_iter * k).
Proof.
  induction k as [|k IH]; intros it Hpos; cbn [fiter_run].
  { apply satc_ret. cbn [map removelast count_none count_some length].
    assert (W_iter * fi_pos it <= W_iter * (length h + 1)) by (apply Nat.mul_le_mono_l; exact Hpos).
    repeat split; lia. }
  eapply satc_bind; [apply (fiter_next_step it Hpos)|].
  intros r c1 Hr. unfold fstep in Hr.
  assert (fi_pos (snd r) <= length h + 1) as Hpos'.
  { destruct (fst r); [tauto|]. destruct Hr as [-> _]. exact Hpos. }
  eapply satc_bind; [apply (IH (snd r) Hpos')|].
  intros outs c2 (Hk0 & Hlen & Hsome & Hc2). apply satc_ret.
  split; [discriminate|]. split; [cbn [length]; lia|].
  cbn [map fst]. rewrite Nat.add_0_r.
  set (Z := W_iter * (length h + 1)) in *.
  destruct (map fst outs) as [|o2 os] eqn:Eos.
  - (* last call of the run *)
    assert (k = 0) as Hk by (destruct outs; [cbn in Hlen; lia|discriminate]).
    specialize (Hk0 Hk). subst c2 k.
    cbn [removelast count_none count_some] in *.
    destruct (fst r); cbn [count_some]; [destruct Hr as (R1 & R2 & R3)|destruct Hr as (R1 & R2)].
    + assert (W_iter * fi_pos (snd r) <= Z) by (apply Nat.mul_le_mono_l; exact R2).
      split; lia.
    + split; lia.
  - rewrite removelast_cons2.
    destruct (fst r); cbn [count_none count_some] in *; [destruct Hr as (R1 & R2 & R3)|destruct Hr as (R1 & R2)].
    + split; [lia|].
      revert Hc2. generalize (count_none (removelast (o2 :: os))). intros cn Hc2. lia.
    + rewrite R1 in *. split; [lia|].
      revert Hc2. generalize (count_none (removelast (o2 :: os))). intros cn Hc2.
      assert (W_iter * fi_pos it <= Z) by (apply Nat.mul_le_mono_l; exact Hpos).
      replace (Z * (1 + S cn)) with (Z + Z * (1 + cn)) by lia. lia.
Qed.

(* from a fresh iterator: ANY number k of calls *)
Theorem find_iter_cost : forall k,
  satc (fiter_run ar f a h k fiter_new)
       (fun outs c =>
          length outs = k /\ count_some (map fst outs) <= length h + 1 /\
          c <= W_iter * (length h + 1) * (1 + count_none (removelast (map fst outs))) + C_iter * k).
Proof.
  intros k. eapply satc_weaken; [apply (fiter_run_cost_from k fiter_new); cbn; lia|].
  cbn beta. cbn [fiter_new fi_pos]. intros outs c (_ & Hlen & Hsome & Hc). repeat split; lia.
Qed.

(* a traversal that stops at the first None (no None before the last output): linear in |h|
   plus the calls, and there are at most |h| + 2 calls, so linear in |h| alone *)
Corollary find_iter_cost_stop : forall k,
  satc (fiter_run ar f a h k fiter_new)
       (fun outs c =>
          count_none (removelast (map fst outs)) = 0 ->
          k <= length h + 2 /\
          c <= W_iter * (length h + 1) + C_iter * k /\
          c <= (W_iter + C_iter) * (length h + 2)).
Proof.
  intros k. eapply satc_weaken; [apply find_iter_cost|].
  cbn beta. intros outs c (Hlen & Hsome & Hc) Hn. rewrite Hn in Hc.
  pose proof (count_split (map fst outs)) as Hs. rewrite map_length, Hlen in Hs.
  pose proof (count_none_removelast (map fst outs)) as Hr. rewrite Hn in Hr.
  assert (k <= length h + 2) as Hk by lia.
  split; [exact Hk|]. split; [lia|].
  assert (C_iter * k <= C_iter * (length h + 2)) by (apply Nat.mul_le_mono_l; exact Hk). lia.
Qed.

(* THE complete traversal: m = number of (greedy, non-overlapping) matches; m + 1 calls
   return the m matches and then None *)
Theorem find_iter_complete_cost :
  let m := length (greedy_seq x h) in
  satc (fiter_run ar f a h (S m) fiter_new)
       (fun outs c =>
          map fst outs = map Some (greedy_seq x h) ++ [None] /\
          m <= length h + 1 /\
          c <= W_iter * (length h + 1) + C_iter * (m + 1) /\
          c <= (W_iter + C_iter) * (length h + 2)).
Proof.
  intros m. eapply satc_weaken.
  { eapply satc_with_satq.
    - apply (fiter_run_sat cfg rank ar x h a 0 f Hx Hh Hf cert_fwd_here sat_here (S m) fiter_new (length h + 2)).
      cbn. lia.
    - apply (find_iter_cost (S m)). }
  cbn beta. cbn [fiter_new fi_pos]. intros outs c ((Hlen & Hok) & (_ & Hsome & Hc)).
  fold (greedy_seq x h) in Hok.
  pose proof (outs_ok_complete outs (greedy_seq x h) Hok Hlen) as Hmap.
  rewrite Hmap in *. rewrite removelast_last, count_none_map_some in Hc.
  assert (m <= length h + 1) as Hm.
  { assert (count_some (map Some (greedy_seq x h)) <= count_some (map Some (greedy_seq x h) ++ [None])) as Hle.
    { generalize (map Some (greedy_seq x h)). intros l. induction l as [|[i|] t IHl]; cbn; lia. }
    rewrite count_some_map_some in Hle. fold m in Hle. lia. }
  split; [reflexivity|]. split; [exact Hm|]. split; [lia|].
  assert (C_iter * S m <= C_iter * (length h + 2)) by (apply Nat.mul_le_mono_l; lia). lia.
Qed.

End Fwd.

(* building the finder included *)
Theorem find_iter_cost_top : forall cfg rank ar x h a k,
  bytes_ok x -> bytes_ok h ->
  satc (f <- finder_new cfg rank ar x;; fiter_run ar f a h k fiter_new)
       (fun outs c =>
          length outs = k /\
          c <= W_iter * (length h + 1) * (1 + count_none (removelast (map fst outs))) + C_iter * k
               + 5 * length x + 8).
Proof.
  intros cfg rank ar x h a k Hx Hh.
  eapply satc_bind.
  { unfold finder_new. eapply satc_bind; [apply satc_self; apply (searcher_new_cost cfg rank ar x)|].
    intros s c1 [Hs Hc1]. cbn beta in Hc1. apply satc_ret.
    instantiate (1 := fun f c => fst (s <- searcher_new cfg rank ar x;; ret {| f_needle := x; f_searcher := s |}) = Ok f
                                 /\ c <= 5 * length x + 8).
    cbn beta. split; [|lia]. rewrite fst_bind, Hs. reflexivity. }
  intros f c1 [Hf Hc1].
  eapply satc_weaken; [apply (find_iter_cost cfg rank ar x h a f Hx Hh Hf k)|].
  cbn beta. intros outs c (Hlen & _ & Hc). split; [exact Hlen|lia].
Qed.

(* ================================================================== *)
(* rfind_iter *)
Section Rev.
Variables (ar : arch) (x h : list N) (a : nat) (f : rfinder).
Hypothesis Hx : bytes_ok x.
Hypothesis Hh : bytes_ok h.
Hypothesis Hf : fst (rfinder_new x) = Ok f.

Lemma rfinder_facts : rf_needle f = x /\ rstrat_for x (rf_searcher f).
Proof.
  destruct (satq_fst _ _ _ (rsearcher_new_sat x)) as (s & Hs & Hstrat & _).
  unfold rfinder_new in Hf. rewrite fst_bind, Hs in Hf. cbn in Hf. injection Hf as <-.
  cbn [rf_needle rf_searcher]. split; [reflexivity|exact Hstrat].
Qed.

Lemma cert_rev_here : tw_reach_rev x = true -> tw_cert_rev_of x = true.
Proof.
  intros H. apply tw_cert_rev_all. unfold tw_reach_rev in H. apply Nat.leb_le in H. lia.
Qed.

(* the potential of an iterator state: one more than the position, 0 when exhausted *)
Definition rpos (it : riter) : nat := match it with Some p => p + 1 | None => 0 end.

Lemma riter_next_steps p : p <= length h ->
  satc (riter_next ar f a h (Some p))
       (fun r c =>
          (fst r = None -> c <= W_riter * (p + 1) + 2) /\
          (forall i, fst r = Some i -> c <= K_rfind * (p - i + 1) + length x + 3)).
Proof.
  intros Hp. destruct rfinder_facts as (Hn & Hstrat).
  unfold riter_next.
  assert (p <=? length h = true) as -> by (apply Nat.leb_le; exact Hp). rewrite bind_guard_true.
  unfold rfinder_rfind. rewrite Hn.
  assert (length (firstn p h) = p) as Hlen by (rewrite firstn_length; lia).
  destruct (length (firstn p h) <? length x) eqn:Eshort.
  - eapply satc_bind.
    { unfold rsearcher_rfind. rewrite Eshort.
      apply (satc_ret _ (fun r c => r = None /\ c = 0)). split; reflexivity. }
    intros r c1 [-> ->]. apply satc_ret. cbn [fst]. split; [intros _; lia|intros i Hi; discriminate].
  - apply Nat.ltb_ge in Eshort. rewrite Hlen in Eshort.
    eapply satc_bind.
    { apply (rsearcher_rfind_hit ar x (firstn p h) a Hx (rf_searcher f) Hstrat). }
    intros r c1 [Hc Hci]. rewrite Hlen in *.
    destruct r as [i|].
    + specialize (Hci i eq_refl).
      destruct (p =? i); apply satc_ret; cbn [fst]; rewrite Nat.add_0_r;
        (split; [intros Hr; discriminate|]); intros j Hj; injection Hj as <-; exact Hci.
    + apply satc_ret. cbn [fst]. rewrite Nat.add_0_r.
      split; [|intros i Hi; discriminate]. intros _. unfold W_riter. lia.
Qed.

Definition rstep (it : riter) (r : option nat * riter) (c : nat) : Prop :=
  match fst r with
  | Some _ => rpos (snd r) < rpos it /\ c + W_riter * rpos (snd r) <= W_riter * rpos it + C_riter
  | None => snd r = it /\ c <= W_riter * rpos it + C_riter
  end.

Definition riter_ok (it : riter) : Prop := match it with Some p => p <= length h | None => True end.

Lemma riter_next_step it : riter_ok it ->
  satc (riter_next ar f a h it) (fun r c => rstep it r c /\ riter_ok (snd r)).
Proof.
  intros Hok. destruct it as [p|].
  2: { cbn [riter_next]. apply satc_ret. unfold rstep. cbn [fst snd rpos riter_ok]. repeat split; lia. }
  cbn [riter_ok] in Hok.
  eapply satc_weaken.
  { eapply satc_with_satq.
    - apply (riter_next_sat ar x h a 0 f Hx Hh Hf cert_rev_here p Hok).
    - apply (riter_next_steps p Hok). }
  cbn beta. intros r c [Hv [Hcn Hcs]]. unfold rstep.
  destruct (rfind_spec x (firstn p h)) as [i|] eqn:Ef.
  - destruct Hv as [Hr1 Hr2]. rewrite Hr1. specialize (Hcs i Hr1).
    apply rfind_spec_some in Ef as [Hocc _]. apply occurs_at_bound in Hocc.
    rewrite firstn_length in Hocc.
    assert (i + length x <= p) as Hip by lia.
    rewrite Hr2. destruct (Nat.eqb_spec p i) as [->|Hne].
    + destruct i as [|i']; cbn [rpos riter_ok]; unfold W_riter, C_riter; repeat split; lia.
    + cbn [rpos riter_ok]. unfold W_riter, C_riter.
      assert (exists d, p = i + d) as [d ->] by (exists (p - i); lia).
      replace (i + d - i) with d in Hcs by lia. repeat split; lia.
  - subst r. cbn [fst snd rpos riter_ok]. specialize (Hcn eq_refl).
    unfold C_riter. repeat split; lia.
Qed.

Theorem riter_run_cost_from : forall k it, riter_ok it ->
  satc (riter_run ar f a h k it)
       (fun outs c =>
          (k = 0 -> c = 0) /\ length outs = k /\
          count_some outs <= rpos it /\
          c <= W_riter * rpos it + W_riter * (length h + 1) * count_none (removelast outs) + C_riter * k).
Proof.
  induction k as [|k IH]; intros it Hok; cbn [riter_run].
  { apply satc_ret. cbn [removelast count_none count_some length]. repeat split; lia. }
  eapply satc_bind; [apply (riter_next_step it Hok)|].
  intros r c1 [Hr Hok']. unfold rstep in Hr.
  eapply satc_bind; [apply (IH (snd r) Hok')|].
  intros outs c2 (Hk0 & Hlen & Hsome & Hc2). apply satc_ret.
  split; [discriminate|]. split; [cbn [length]; lia|].
  rewrite Nat.add_0_r.
  assert (rpos it <= length h + 1) as Hrp.
  { destruct it as [p|]; cbn [rpos riter_ok] in *; lia. }
  assert (W_riter * rpos it <= W_riter * (length h + 1)) as HZ by (apply Nat.mul_le_mono_l; exact Hrp).
  set (Z := W_riter * (length h + 1)) in *.
  destruct outs as [|o2 os].
  - assert (k = 0) as Hk by (cbn in Hlen; lia).
    specialize (Hk0 Hk). subst c2 k.
    cbn [removelast count_none count_some] in *.
    destruct (fst r); cbn [count_some]; [destruct Hr as (R1 & R2)|destruct Hr as (R1 & R2)]; split; lia.
  - rewrite removelast_cons2.
    destruct (fst r); cbn [count_none count_some] in *; [destruct Hr as (R1 & R2)|destruct Hr as (R1 & R2)].
    + split; [lia|].
      revert Hc2. generalize (count_none (removelast (o2 :: os))). intros cn Hc2. lia.
    + rewrite R1 in *. split; [lia|].
      revert Hc2. generalize (count_none (removelast (o2 :: os))). intros cn Hc2.
      replace (Z * S cn) with (Z + Z * cn) by lia. lia.
Qed.

(* from a fresh iterator: ANY number k of calls *)
Theorem rfind_iter_cost : forall k,
  satc (riter_run ar f a h k (riter_new h))
       (fun outs c =>
          length outs = k /\ count_some outs <= length h + 1 /\
          c <= W_riter * (length h + 1) * (1 + count_none (removelast outs)) + C_riter * k).
Proof.
  intros k. eapply satc_weaken; [apply (riter_run_cost_from k (riter_new h)); cbn; lia|].
  cbn beta. unfold riter_new. cbn [rpos]. intros outs c (_ & Hlen & Hsome & Hc).
  split; [exact Hlen|]. split; [exact Hsome|].
  revert Hc. generalize (count_none (removelast outs)). intros cn Hc. lia.
Qed.

Corollary rfind_iter_cost_stop : forall k,
  satc (riter_run ar f a h k (riter_new h))
       (fun outs c =>
          count_none (removelast outs) = 0 ->
          k <= length h + 2 /\
          c <= W_riter * (length h + 1) + C_riter * k /\
          c <= (W_riter + C_riter) * (length h + 2)).
Proof.
  intros k. eapply satc_weaken; [apply rfind_iter_cost|].
  cbn beta. intros outs c (Hlen & Hsome & Hc) Hn. rewrite Hn in Hc.
  pose proof (count_split outs) as Hs. rewrite Hlen in Hs.
  pose proof (count_none_removelast outs) as Hr. rewrite Hn in Hr.
  assert (k <= length h + 2) as Hk by lia.
  split; [exact Hk|]. split; [lia|].
  assert (C_riter * k <= C_riter * (length h + 2)) by (apply Nat.mul_le_mono_l; exact Hk). lia.
Qed.

(* THE complete reverse traversal *)
Theorem rfind_iter_complete_cost :
  let m := length (rgreedy_seq x h) in
  satc (riter_run ar f a h (S m) (riter_new h))
       (fun outs c =>
          outs = map Some (rgreedy_seq x h) ++ [None] /\
          m <= length h + 1 /\
          c <= W_riter * (length h + 1) + C_riter * (m + 1) /\
          c <= (W_riter + C_riter) * (length h + 2)).
Proof.
  intros m. eapply satc_weaken.
  { eapply satc_with_satq.
    - apply (riter_run_sat ar x h a 0 f Hx Hh Hf cert_rev_here (S m) (length h) (length h + 2)); lia.
    - apply (rfind_iter_cost (S m)). }
  cbn beta. intros outs c ((Hlen & Hok) & (_ & Hsome & Hc)).
  fold (rgreedy_seq x h) in Hok.
  pose proof (routs_ok_complete outs (rgreedy_seq x h) Hok Hlen) as Hmap.
  rewrite Hmap in *. rewrite removelast_last, count_none_map_some in Hc.
  assert (m <= length h + 1) as Hm.
  { assert (count_some (map Some (rgreedy_seq x h)) <= count_some (map Some (rgreedy_seq x h) ++ [None])) as Hle.
    { generalize (map Some (rgreedy_seq x h)). intros l. induction l as [|[i|] t IHl]; cbn; lia. }
    rewrite count_some_map_some in Hle. fold m in Hle. lia. }
  split; [reflexivity|]. split; [exact Hm|]. split; [lia|].
  assert (C_riter * S m <= C_riter * (length h + 2)) by (apply Nat.mul_le_mono_l; lia). lia.
Qed.

End Rev.

(* building the reverse finder included *)
Theorem rfind_iter_cost_top : forall ar x h a k,
  bytes_ok x -> bytes_ok h ->
  satc (f <- rfinder_new x;; riter_run ar f a h k (riter_new h))
       (fun outs c =>
          length outs = k /\
          c <= W_riter * (length h + 1) * (1 + count_none (removelast outs)) + C_riter * k
               + 5 * length x + 8).
Proof.
  intros ar x h a k Hx Hh.
  eapply satc_bind.
  { unfold rfinder_new. eapply satc_bind; [apply satc_self; apply (rsearcher_new_cost x)|].
    intros s c1 [Hs Hc1]. cbn beta in Hc1. apply satc_ret.
    instantiate (1 := fun f c => fst (s <- rsearcher_new x;; ret {| rf_needle := x; rf_searcher := s |}) = Ok f
                                 /\ c <= 5 * length x + 8).
    cbn beta. split; [|lia]. rewrite fst_bind, Hs. reflexivity. }
  intros f c1 [Hf Hc1].
  eapply satc_weaken; [apply (rfind_iter_cost ar x h a f Hx Hh Hf k)|].
  cbn beta. intros outs c (Hlen & _ & Hc). split; [exact Hlen|lia].
Qed.

Print Assumptions find_iter_cost.
Print Assumptions find_iter_cost_stop.
Print Assumptions find_iter_complete_cost.
Print Assumptions find_iter_cost_top.
Print Assumptions rfind_iter_cost.
Print Assumptions rfind_iter_cost_stop.
Print Assumptions rfind_iter_complete_cost.
Print Assumptions rfind_iter_cost_top.
