(* Step cost (Base/Cost.v) of the prefilters the meta searcher can build
   (Sub/Searcher.v: prefilter_find): the portable packed-pair prefilter, the
   vector packed-pair prefilter and the find_simple fallback for short haystacks.
   Each of them obeys pre_cost (Sub/CostTwoWay.v) with constants that do not
   depend on the needle or the haystack (only on the bound 255 for a pair offset). *)
From Memchr Require Import Spec SpecProofs Params Base.Cost Mem.Wrappers Mem.WrappersProofs Mem.CostMem Mem.Iter
  Sub.PackedPair Sub.PackedPairProofs Sub.PortablePrefilterProofs Sub.CostBlocks
  Sub.Prefilter Sub.TwoWay Sub.TwoWayFwdProofs Sub.CostTwoWay Sub.Searcher Sub.SearcherProofs.
From Memchr Require Import Mem.SwarProofs.

Local Open Scope nat_scope.

(* ------------------------------------------------------------------ *)
(* 1. the portable prefilter *)

Section PortableCost.
Variables (mb : backend) (x : list N) (i1 i2 : nat) (f : portfinder) (a : nat) (h : list N).
Hypothesis Hnew : pf_new x i1 i2 = Ok f.
Hypothesis Hbytes : Forall (fun b => (b < 256)%N) h.
Hypothesis Hneedle : Forall (fun b => (b < 256)%N) x.

(* potential 19 * i: an iteration that advances i by d + 1 costs at most 2 * d + 17 *)
Lemma pf_loop_cost : forall fuel i,
  i <= length h -> length h + 1 - i < fuel ->
  satc (pf_loop mb f a h fuel i)
       (fun r c => match r with
                   | Some cd => c + 19 * i <= 19 * (cd + i1 + 1)
                   | None => c + 19 * i <= 19 * (length h + 1)
                   end).
Proof.
  destruct (pf_new_inv _ _ _ _ Hnew) as (L1 & L2 & Ei1 & Ei2 & Eb1 & Eb2).
  induction fuel as [|fu IH]; intros i Hi Hfuel; [lia|].
  cbn [pf_loop]. rewrite Ei1, Ei2.
  apply satc_tick_bind.
  eapply satc_bind. { apply satc_guard_eq. apply Nat.leb_le. exact Hi. }
  intros _ c1 ->.
  cbv zeta.
  eapply satc_bind.
  { apply (shifted_satc i (backend_find [pf_b1 f] (a + i) (skipn i h) mb)).
    eapply satc_with_satq.
    - apply backend_find_sat; [discriminate|apply (skipn_bytes h Hbytes)|].
      constructor; [apply (pf_b1_byte x i1 i2 f Hnew Hneedle)|constructor].
    - apply backend_find_cost; [discriminate|apply (skipn_bytes h Hbytes)|].
      constructor; [apply (pf_b1_byte x i1 i2 f Hnew Hneedle)|constructor]. }
  cbn beta. intros r c2 [-> [Hc Hci]].
  destruct (first_idx (confirm [pf_b1 f]) (skipn i h)) as [d|] eqn:Hfi.
  - apply first_idx_skipn_some in Hfi as (Hlt & _ & _).
    specialize (Hci d eq_refl).
    assert (forall r c, match r with
                        | Some cd => c + 19 * (i + d + 1) <= 19 * (cd + i1 + 1)
                        | None => c + 19 * (i + d + 1) <= 19 * (length h + 1)
                        end ->
                        match r with
                        | Some cd => 1 + (0 + (c2 + c)) + 19 * i <= 19 * (cd + i1 + 1)
                        | None => 1 + (0 + (c2 + c)) + 19 * i <= 19 * (length h + 1)
                        end) as Hrec.
    { intros [cd|] c Hcc; lia. }
    assert (satc (pf_loop mb f a h fu (i + d + 1))
              (fun r c => match r with
                          | Some cd => 1 + (0 + (c2 + c)) + 19 * i <= 19 * (cd + i1 + 1)
                          | None => 1 + (0 + (c2 + c)) + 19 * i <= 19 * (length h + 1)
                          end)) as Hnext.
    { eapply satc_weaken; [apply IH; lia|]. cbn beta. exact Hrec. }
    destruct (i + d <? i1) eqn:Hsub; [exact Hnext|].
    apply Nat.ltb_ge in Hsub.
    destruct (nth_error h (i + d - i1 + i2)) as [b2|]; [|exact Hnext].
    destruct (b2 =? pf_b2 f)%N; [|exact Hnext].
    apply satc_ret. lia.
  - rewrite skipn_length in Hc. apply satc_ret. lia.
Qed.

End PortableCost.

(* the portable prefilter: the work up to a candidate cd is proportional to cd + index1 *)
Theorem pf_prefilter_cost : forall mb x i1 i2 f a h,
  pf_new x i1 i2 = Ok f -> Forall (fun b => (b < 256)%N) h -> Forall (fun b => (b < 256)%N) x ->
  satc (pf_find_prefilter mb f a h)
       (fun r c => match r with
                   | Some cd => c <= 19 * (cd + i1 + 1)
                   | None => c <= 19 * (length h + 1)
                   end).
Proof.
  intros mb x i1 i2 f a h Hnew Hh Hx. unfold pf_find_prefilter.
  eapply satc_weaken.
  { apply (pf_loop_cost mb x i1 i2 f a h Hnew Hh Hx (S (S (length h))) 0); lia. }
  cbn beta. intros [cd|] c Hc; lia.
Qed.

(* ------------------------------------------------------------------ *)
(* 2. find_simple: memchr of the rarest byte *)

Lemma find_simple_cost x p a h :
  bytes_ok x -> pre_rarest_offset p < length x ->
  pre_rarest_byte p = nth (pre_rarest_offset p) x 0%N ->
  Forall (fun b => (b < 256)%N) h ->
  satc (find_simple p a h)
       (fun r c => match r with
                   | Some cd => cd <= length h /\ c <= cd + pre_rarest_offset p + 4
                   | None => c <= length h + 3
                   end).
Proof.
  intros Hx Hoff Hb Hh. unfold find_simple.
  assert (pre_rarest_byte p < 256)%N as Hb256 by (rewrite Hb; apply bytes_nth; assumption).
  assert (0 < usize_bytes) as HW by (unfold usize_bytes; lia).
  assert (0 < swar_loop_words) as Hk by (unfold swar_loop_words; lia).
  eapply satc_bind.
  { eapply satc_with_satq.
    - apply (swar_find_sat usize_bytes swar_loop_words true [pre_rarest_byte p] a h HW Hk Hh).
      + constructor; [exact Hb256|constructor].
      + left. reflexivity.
    - apply (swar_find_c usize_bytes swar_loop_words true [pre_rarest_byte p] a h HW Hk).
      left. reflexivity. }
  cbn beta. intros r c1 [-> [Hc Hci]]. apply satc_ret.
  change swar_loop_words with 2 in *.
  destruct (first_idx (confirm [pre_rarest_byte p]) h) as [i|] eqn:Ei; cbn [option_map].
  - apply (first_idx_some _ h i 0%N) in Ei as (Hi & _ & _).
    specialize (Hci i eq_refl). lia.
  - lia.
Qed.

(* ------------------------------------------------------------------ *)
(* 3. every prefilter the meta searcher can build *)

Theorem prefilter_find_cost : forall ar x p,
  Forall (fun b => (b < 256)%N) x -> prefilter_for x p -> pre_rarest_offset p <= 255 ->
  (forall f, pk p = PkFallback f -> pf_i1 f <= 255) ->
  pre_cost x (prefilter_find ar p) 19 (19 * 257).
Proof.
  intros ar x p Hx (Hoff & Hb & Hk) Hoff255 Hi1.
  apply pre_cost_of_uncapped. intros a' h' Hh'. unfold prefilter_find.
  destruct (pk p) as [w|f] eqn:Epk.
  - destruct Hk as (isa & i1 & i2 & Hw).
    destruct (length h' <? pw_min w) eqn:E.
    + eapply satc_weaken; [apply (find_simple_cost x p a' h' Hx Hoff Hb Hh')|].
      cbn beta. intros [cd|] c Hc; lia.
    + apply Nat.ltb_ge in E.
      eapply satc_weaken.
      { eapply satc_with_satq.
        - apply (pw_prefilter_correct isa x i1 i2 w h' a' 0 Hw E).
        - apply (pw_prefilter_cost isa x i1 i2 w h' Hw E). }
      cbn beta. intros [cd|] c [Hr [Hc Hcd]].
      * destruct Hr as [[Hp1 _] _].
        assert (cd + pp_i1 (pw_small w) < length h') as Hlt by (apply nth_error_Some; congruence).
        specialize (Hcd cd eq_refl).
        pose proof (Nat.div_le_upper_bound cd 16 cd ltac:(lia) ltac:(lia)) as Hdiv.
        split; lia.
      * pose proof (Nat.div_le_upper_bound (length h') 16 (length h') ltac:(lia) ltac:(lia)) as Hdiv.
        lia.
  - destruct Hk as (i1 & i2 & Hf).
    destruct (pf_new_inv _ _ _ _ Hf) as (_ & _ & Ei1 & _).
    specialize (Hi1 f eq_refl). rewrite Ei1 in Hi1.
    eapply satc_weaken.
    { eapply satc_with_satq.
      - apply (pf_prefilter_correct (arch_memchr ar) x i1 i2 f a' h' Hf Hh' Hx).
      - apply (pf_prefilter_cost (arch_memchr ar) x i1 i2 f a' h' Hf Hh' Hx). }
    cbn beta. intros [cd|] c [Hr Hc].
    + destruct Hr as [[Hp1 _] _].
      assert (cd + i1 < length h') as Hlt by (apply nth_error_Some; congruence).
      split; lia.
    + lia.
Qed.

Print Assumptions pf_prefilter_cost.
Print Assumptions prefilter_find_cost.
