From Memchr Require Import Sub.IsEqual.

(* every load lies inside the n bytes the caller vouched for *)
Definition ev_within (rx : region) (ox : nat) (ry : region) (oy n : nat) (e : event) : Prop :=
  match e with
  | Load r off w al =>
      al = false /\
      ((r = rx /\ ox <= off /\ off + w <= ox + n) \/ (r = ry /\ oy <= off /\ off + w <= oy + n))
  | _ => False
  end.

Lemma ev_within_mono rx ox ry oy n ox' oy' n' e :
  ox <= ox' -> ox' + n' <= ox + n -> oy <= oy' -> oy' + n' <= oy + n ->
  ev_within rx ox' ry oy' n' e -> ev_within rx ox ry oy n e.
Proof.
  intros H1 H2 H3 H4. destruct e; cbn; try tauto.
  intros [Ha [(Hr & Hl & Hu)|(Hr & Hl & Hu)]]; (split; [exact Ha|]); [left|right]; repeat split; try assumption; lia.
Qed.

Ltac ev_one :=
  cbn; split; [reflexivity|];
  first [ left; split; [reflexivity|lia] | right; split; [reflexivity|lia] ].
Ltac ev_solve :=
  cbn [app]; repeat (apply Forall_cons; [ev_one|]); try apply Forall_nil.

Section Proofs.
Variables (rx ry : region) (x y : list N).

Lemma eq_loop_sat fuel : forall ox oy n,
  n < fuel -> ox + n <= length x -> oy + n <= length y ->
  sat (eq_loop rx ry x y fuel ox oy n)
      (fun b t => b = list_eqb (slice x ox n) (slice y oy n) /\
                  Forall (ev_within rx ox ry oy n) t).
Proof.
  induction fuel as [|f IH]; intros ox oy n Hf Hx Hy; [lia|].
  cbn [eq_loop]. destruct (4 <=? n) eqn:E4.
  - apply Nat.leb_le in E4.
    eapply sat_bind. { apply sat_load_eq; lia. }
    intros vx t1 [-> ->].
    eapply sat_bind. { apply sat_load_eq; lia. }
    intros vy t2 [-> ->].
    rewrite (list_eqb_slice_split x y ox oy 4 n) by lia.
    destruct (list_eqb (slice x ox 4) (slice y oy 4)) eqn:E.
    + eapply sat_weaken. { apply IH; lia. }
      cbn beta. intros b t [-> Ht]. split; [reflexivity|].
      ev_solve.
      eapply Forall_impl; [|exact Ht]. intros e. apply ev_within_mono; lia.
    + apply sat_ret. split; [reflexivity|].
      ev_solve.
  - apply Nat.leb_gt in E4.
    destruct (2 <=? n) eqn:E2.
    + apply Nat.leb_le in E2.
      eapply sat_bind.
      { eapply sat_bind. { apply sat_load_eq; lia. }
        intros vx t1 [-> ->].
        eapply sat_bind. { apply sat_load_eq; lia. }
        intros vy t2 [-> ->].
        instantiate (1 := fun c t =>
          t = [Load rx ox 2 false; Load ry oy 2 false] /\
          c = if list_eqb (slice x ox 2) (slice y oy 2) then Go (ox + 2, oy + 2, n - 2) else Ret false).
        destruct (list_eqb (slice x ox 2) (slice y oy 2)); apply sat_ret; split; reflexivity. }
      intros c t [-> ->].
      rewrite (list_eqb_slice_split x y ox oy 2 n) by lia.
      destruct (list_eqb (slice x ox 2) (slice y oy 2)) eqn:E.
      * destruct (0 <? n - 2) eqn:E0.
        -- apply Nat.ltb_lt in E0.
           eapply sat_bind. { apply sat_load_eq; lia. }
           intros vx t1 [-> ->].
           eapply sat_bind. { apply sat_load_eq; lia. }
           intros vy t2 [-> ->].
           apply sat_ret. replace (n - 2) with 1 by lia. split; [reflexivity|].
           ev_solve.
        -- apply Nat.ltb_ge in E0. apply sat_ret. replace (n - 2) with 0 by lia.
           split; [reflexivity|].
           ev_solve.
      * apply sat_ret. split; [reflexivity|].
        ev_solve.
    + apply Nat.leb_gt in E2.
      eapply sat_bind. { apply sat_ret_eq. }
      intros c t [-> ->].
      destruct (0 <? n) eqn:E0.
      * apply Nat.ltb_lt in E0.
        eapply sat_bind. { apply sat_load_eq; lia. }
        intros vx t1 [-> ->].
        eapply sat_bind. { apply sat_load_eq; lia. }
        intros vy t2 [-> ->].
        apply sat_ret. replace n with 1 by lia. split; [reflexivity|].
        ev_solve.
      * apply Nat.ltb_ge in E0. apply sat_ret. replace n with 0 by lia.
        split; [reflexivity|]. constructor.
Qed.

Lemma is_equal_raw_sat ox oy n :
  ox + n <= length x -> oy + n <= length y ->
  sat (is_equal_raw rx ry x y ox oy n)
      (fun b t => b = list_eqb (slice x ox n) (slice y oy n) /\
                  Forall (ev_within rx ox ry oy n) t).
Proof. intros. apply eq_loop_sat; lia. Qed.

End Proofs.

Lemma list_eqb_length_neq x y : length x <> length y -> list_eqb x y = false.
Proof. intros H. apply list_eqb_neq. intros ->. contradiction. Qed.

Lemma is_equal_sat x y :
  sat (is_equal x y)
      (fun b t => b = list_eqb x y /\
                  Forall (ev_within RHay 0 RNeedle 0 (length x)) t).
Proof.
  unfold is_equal. destruct (length x =? length y) eqn:E; cbn [negb].
  - apply Nat.eqb_eq in E.
    eapply sat_weaken. { apply is_equal_raw_sat; lia. }
    cbn beta. intros b t [-> Ht]. split; [|exact Ht].
    rewrite slice_all. rewrite E, slice_all. reflexivity.
  - apply Nat.eqb_neq in E. apply sat_ret. split; [|constructor].
    symmetry. apply list_eqb_length_neq. exact E.
Qed.

(* starts_with / ends_with as list predicates *)
Definition starts_with (h n : list N) : bool :=
  (length n <=? length h) && list_eqb (firstn (length n) h) n.
Definition ends_with (h n : list N) : bool :=
  (length n <=? length h) && list_eqb (skipn (length h - length n) h) n.

Lemma starts_with_spec h n : starts_with h n = true <-> exists t, h = n ++ t.
Proof.
  unfold starts_with. rewrite andb_true_iff, Nat.leb_le, list_eqb_eq. split.
  - intros [Hl He]. exists (skipn (length n) h). rewrite <- He at 1. symmetry. apply firstn_skipn.
  - intros [t ->]. rewrite app_length. split; [lia|].
    rewrite firstn_app, Nat.sub_diag, firstn_all. cbn. apply app_nil_r.
Qed.

Lemma ends_with_spec h n : ends_with h n = true <-> exists t, h = t ++ n.
Proof.
  unfold ends_with. rewrite andb_true_iff, Nat.leb_le, list_eqb_eq. split.
  - intros [Hl He]. exists (firstn (length h - length n) h). rewrite <- He at 2. symmetry. apply firstn_skipn.
  - intros [t ->]. rewrite app_length. split; [lia|].
    replace (length t + length n - length n) with (length t) by lia.
    rewrite skipn_app, skipn_all, Nat.sub_diag. reflexivity.
Qed.

Lemma is_prefix_sat h n :
  sat (is_prefix h n)
      (fun b t => b = starts_with h n /\
                  Forall (ev_within RHay 0 RNeedle 0 (length n)) t).
Proof.
  unfold is_prefix, starts_with. destruct (length n <=? length h) eqn:E; cbn [andb].
  - apply Nat.leb_le in E. eapply sat_weaken. { apply is_equal_raw_sat; lia. }
    cbn beta. intros b t [-> Ht]. split; [|exact Ht].
    rewrite slice_all. reflexivity.
  - apply sat_ret. split; [reflexivity|constructor].
Qed.

Lemma is_suffix_sat h n :
  sat (is_suffix h n)
      (fun b t => b = ends_with h n /\
                  Forall (ev_within RHay (length h - length n) RNeedle 0 (length n)) t).
Proof.
  unfold is_suffix, ends_with. destruct (length n <=? length h) eqn:E; cbn [andb].
  - apply Nat.leb_le in E. eapply sat_weaken. { apply is_equal_raw_sat; lia. }
    cbn beta. intros b t [-> Ht]. split; [|exact Ht].
    rewrite slice_all. unfold slice. f_equal.
    rewrite firstn_all2; [reflexivity|]. rewrite skipn_length. lia.
  - apply sat_ret. split; [reflexivity|constructor].
Qed.
