(* Correctness of the forward Two-Way search loops (with an optional prefilter)
   under the decidable certificate tw_cert_fwd: for every haystack, prefilter,
   prefilter state and start address the search returns the leftmost occurrence,
   never panics, and only loads inside the haystack. *)
From Memchr Require Import Spec SpecProofs Params Sub.TwoWay Sub.TwoWayCert.

Local Open Scope nat_scope.

(* a prefilter is sound for needle x: called on any (address, haystack) it returns
   normally, loads only inside that haystack, and returns a candidate no later
   than any occurrence, or None only if there is none *)
Definition pre_ok (x : list N) (pf : prefn) : Prop :=
  forall a' an' h', Forall (fun b => (b < 256)%N) h' -> satq (load_ok a' (length h') an' (length x)) (pf a' h')
    (fun r => match r with
              | Some c => forall i, occurs_at x h' i = true -> c <= i
              | None => forall i, occurs_at x h' i = false
              end).

(* ------------------------------------------------------------------ *)
(* words: periods and local periods *)

Lemma is_period_spec x p :
  is_period x p = true <-> forall j, j + p < length x -> xb x j = xb x (j + p).
Proof.
  unfold is_period. rewrite forallb_forall. split.
  - intros H j Hj. apply N.eqb_eq. apply H. apply in_seq. lia.
  - intros H j Hj. apply in_seq in Hj. apply N.eqb_eq. apply H. lia.
Qed.

Lemma is_period_len x : is_period x (length x) = true.
Proof. apply is_period_spec. intros j Hj. lia. Qed.

Lemma first_period_spec x : forall fuel p q,
  p <= q -> q < p + fuel -> is_period x q = true ->
  is_period x (first_period x fuel p) = true /\ p <= first_period x fuel p <= q.
Proof.
  induction fuel as [|f IH]; intros p q H1 H2 H3; [lia|].
  cbn [first_period]. destruct (is_period x p) eqn:E.
  - split; [exact E|lia].
  - assert (p <> q) as Hne by congruence.
    destruct (IH (S p) q) as [A B]; [lia|lia|exact H3|]. split; [exact A|lia].
Qed.

Lemma smallest_period_spec x : 1 <= length x ->
  is_period x (smallest_period x) = true /\ 1 <= smallest_period x <= length x.
Proof.
  intros H. unfold smallest_period. apply first_period_spec; [lia|lia|apply is_period_len].
Qed.

Lemma period_mul x p : is_period x p = true ->
  forall m j, j + m * p < length x -> xb x j = xb x (j + m * p).
Proof.
  intros Hp. induction m as [|m IH]; intros j Hj.
  - f_equal. lia.
  - rewrite Nat.mul_succ_l in *. rewrite (IH j) by lia.
    rewrite (proj1 (is_period_spec x p) Hp (j + m * p)) by lia. f_equal. lia.
Qed.

Lemma period_multiple x p k j :
  1 <= p -> is_period x p = true -> k mod p = 0 -> j + k < length x -> xb x j = xb x (j + k).
Proof.
  intros H1 Hp Hk Hj. apply Nat.mod_divides in Hk; [|lia]. destruct Hk as [m ->].
  rewrite (Nat.mul_comm p m) in *. apply period_mul; assumption.
Qed.

Lemma local_period_spec x c k :
  local_period x c k = true <->
  forall j, c - k <= j -> j < c -> j + k < length x -> xb x j = xb x (j + k).
Proof.
  unfold local_period. rewrite forallb_forall. split.
  - intros H j H1 H2 H3. specialize (H j). rewrite in_seq in H. specialize (H ltac:(lia)).
    apply Nat.ltb_lt in H3. rewrite H3 in H. apply N.eqb_eq. exact H.
  - intros H j Hj. apply in_seq in Hj. destruct (j + k <? length x) eqn:E; [|reflexivity].
    apply Nat.ltb_lt in E. apply N.eqb_eq. apply H; lia.
Qed.

Lemma locals_spec x c p bound : locals_are_multiples x c p bound = true ->
  forall k, 1 <= k -> k <= bound -> local_period x c k = true -> k mod p = 0.
Proof.
  unfold locals_are_multiples. rewrite forallb_forall. intros H k Hk1 Hk2 Hl.
  specialize (H k). rewrite in_seq in H. specialize (H ltac:(lia)).
  rewrite Hl in H. cbn [implb] in H. apply Nat.eqb_eq. exact H.
Qed.

(* ------------------------------------------------------------------ *)
(* occurrences, pointwise *)

Lemma occurs_nth x h q : occurs_at x h q = true ->
  forall j, j < length x -> nth (q + j) h 0%N = xb x j.
Proof.
  intros H j Hj. apply occurs_at_eq in H as [H1 H2].
  rewrite <- (nth_slice h q (length x) j 0%N Hj). rewrite H2. reflexivity.
Qed.

Lemma nth_occurs x h q : q + length x <= length h ->
  (forall j, j < length x -> nth (q + j) h 0%N = xb x j) -> occurs_at x h q = true.
Proof.
  intros H1 H2. apply occurs_at_eq. split; [exact H1|].
  apply (nth_ext _ _ 0%N 0%N).
  - apply slice_length. exact H1.
  - intros j Hj. rewrite slice_length in Hj by exact H1.
    rewrite nth_slice by exact Hj. apply H2. exact Hj.
Qed.

Lemma occurs_skipn x h pos i : pos <= length h ->
  occurs_at x (skipn pos h) i = occurs_at x h (pos + i).
Proof.
  intros H. unfold occurs_at, slice. rewrite skipn_length, skipn_skipn'. f_equal.
  destruct (Nat.leb_spec (i + length x) (length h - pos));
    destruct (Nat.leb_spec (pos + i + length x) (length h)); try reflexivity; lia.
Qed.

(* ------------------------------------------------------------------ *)
(* the approximate byte set has no false negatives *)

Lemma land_pow2_eqb a n : (N.land a (2 ^ n) =? 0)%N = negb (N.testbit a n).
Proof.
  destruct (N.testbit a n) eqn:E; cbn [negb].
  - apply N.eqb_neq. intros H.
    assert (N.testbit (N.land a (2 ^ n)) n = false) as G by (rewrite H; apply N.bits_0).
    rewrite N.land_spec, E, N.pow2_bits_true in G. discriminate.
  - apply N.eqb_eq. apply N.bits_inj. intros m.
    rewrite N.land_spec, N.bits_0, N.pow2_bits_eqb.
    destruct (N.eqb_spec n m) as [<-|Hn]; [rewrite E; reflexivity|apply andb_false_r].
Qed.

Lemma byteset_contains_bit bits b : byteset_contains bits b = N.testbit bits (b mod 64).
Proof. unfold byteset_contains, byteset_bit. rewrite land_pow2_eqb. apply negb_involutive. Qed.

Lemma byteset_fold_bit : forall (l : list N) (acc m : N),
  (N.testbit acc m = true \/ exists b, In b l /\ (b mod 64)%N = m) ->
  N.testbit (fold_left (fun bits b => N.lor bits (byteset_bit b)) l acc) m = true.
Proof.
  induction l as [|b0 l IH]; intros acc m [H|(b & Hin & Hb)]; cbn [fold_left].
  - exact H.
  - destruct Hin.
  - apply IH. left. rewrite N.lor_spec, H. reflexivity.
  - destruct Hin as [->|Hin].
    + apply IH. left. rewrite N.lor_spec. unfold byteset_bit. rewrite Hb, N.pow2_bits_true.
      apply orb_true_r.
    + apply IH. right. exists b. split; assumption.
Qed.

Lemma byteset_contains_in x b : In b x -> byteset_contains (byteset_new x) b = true.
Proof.
  intros Hin. rewrite byteset_contains_bit. unfold byteset_new. apply byteset_fold_bit.
  right. exists b. split; [exact Hin|reflexivity].
Qed.

(* ------------------------------------------------------------------ *)
(* the prefilter state machine never panics when the product saturates *)

Lemma pre_is_effective_ok st : pre_mul_saturating = true -> exists e, pre_is_effective st = Ok e.
Proof.
  intros Hs. unfold pre_is_effective. rewrite Hs.
  destruct (ps_skips st =? 0)%N; [eexists; reflexivity|].
  destruct (pre_skips st <? pre_min_skips)%N; [eexists; reflexivity|].
  destruct (N.min (pre_min_skip_bytes * pre_skips st) u32max <=? ps_skipped st)%N; eexists; reflexivity.
Qed.

(* ------------------------------------------------------------------ *)
Section Fwd.
Variables (x h : list N) (tw : twoway) (a an : nat).

Local Notation n := (length x).
Local Notation c := (tw_cp tw).
Local Notation P := (smallest_period x).
Local Notation Q := (load_ok a (length h) an (length x)).

Hypothesis Hc : c < n.
Hypothesis HP1 : 1 <= P.
Hypothesis HPn : P <= n.
Hypothesis HPp : is_period x P = true.
Hypothesis Hmult : forall k, 1 <= k -> k <= Nat.max (P - 1) (n - 1 - c) ->
  local_period x c k = true -> k mod P = 0.
Hypothesis Hbs : tw_byteset tw = byteset_new x.
Hypothesis Hbytes : Forall (fun b => (b < 256)%N) h.

(* the window at pos agrees with the needle on [lo, hi) *)
Definition agree (pos lo hi : nat) : Prop :=
  forall j, lo <= j -> j < hi -> nth (pos + j) h 0%N = xb x j.

Definition no_occ_before (pos : nat) : Prop := forall q, q < pos -> occurs_at x h q = false.

Lemma no_occ_extend pos d : no_occ_before pos ->
  (forall k, k < d -> occurs_at x h (pos + k) = false) -> no_occ_before (pos + d).
Proof.
  intros H1 H2 q Hq. destruct (Nat.lt_ge_cases q pos) as [Hlt|Hge]; [apply H1; exact Hlt|].
  replace q with (pos + (q - pos)) by lia. apply H2. lia.
Qed.

Lemma no_occ_none pos : no_occ_before pos -> length h < pos + n -> None = find_spec x h.
Proof.
  intros H1 H2. symmetry. apply find_spec_none. intros q.
  destruct (Nat.lt_ge_cases q pos) as [Hlt|Hge]; [apply H1; exact Hlt|].
  destruct (occurs_at x h q) eqn:Eo; [|reflexivity]. apply occurs_at_bound in Eo. lia.
Qed.

(* an occurrence k to the right of a window that agrees with x on [c, e) makes k a local period at c *)
Lemma lp_of_occ pos e k : e <= n -> agree pos c e -> 1 <= k -> (c + k <= e \/ e = n) ->
  occurs_at x h (pos + k) = true -> local_period x c k = true.
Proof.
  intros He Ha Hk Hor Ho. apply local_period_spec. intros j H1 H2 H3.
  pose proof (occurs_nth _ _ _ Ho j ltac:(lia)) as E1.
  pose proof (Ha (j + k) ltac:(lia) ltac:(lia)) as E2.
  replace (pos + k + j) with (pos + (j + k)) in E1 by lia. congruence.
Qed.

(* mismatch at i during the right scan *)
Lemma no_occ_right pos i : c <= i -> i < n -> agree pos c i -> nth (pos + i) h 0%N <> xb x i ->
  forall k, k < i - c + 1 -> occurs_at x h (pos + k) = false.
Proof.
  intros H1 H2 Ha Hm k Hk. destruct (occurs_at x h (pos + k)) eqn:Ho; [exfalso|reflexivity].
  destruct (Nat.eq_dec k 0) as [->|Hk0].
  - apply Hm. rewrite Nat.add_0_r in Ho. apply (occurs_nth _ _ _ Ho). exact H2.
  - assert (local_period x c k = true) as Hl.
    { apply (lp_of_occ pos i k); try assumption; lia. }
    apply Hmult in Hl; [|lia|lia].
    apply Hm. pose proof (occurs_nth _ _ _ Ho (i - k) ltac:(lia)) as E.
    replace (pos + k + (i - k)) with (pos + i) in E by lia. rewrite E.
    rewrite (period_multiple x P k (i - k)); try assumption; try lia. f_equal. lia.
Qed.

(* right part matched completely but the window is not an occurrence *)
Lemma no_occ_left pos : agree pos c n -> occurs_at x h pos = false ->
  forall k, k < P -> occurs_at x h (pos + k) = false.
Proof.
  intros Ha H0 k Hk. destruct (Nat.eq_dec k 0) as [->|Hk0]; [rewrite Nat.add_0_r; exact H0|].
  destruct (occurs_at x h (pos + k)) eqn:Ho; [exfalso|reflexivity].
  assert (local_period x c k = true) as Hl.
  { apply (lp_of_occ pos n k); try assumption; lia. }
  apply Hmult in Hl; [|lia|lia]. rewrite Nat.mod_small in Hl by lia. lia.
Qed.

(* the last byte of the window is not a needle byte *)
Lemma no_occ_byteset pos :
  byteset_contains (byteset_new x) (nth (pos + (n - 1)) h 0%N) = false ->
  forall k, k < n -> occurs_at x h (pos + k) = false.
Proof.
  intros Hb k Hk. destruct (occurs_at x h (pos + k)) eqn:Ho; [exfalso|reflexivity].
  pose proof (occurs_nth _ _ _ Ho (n - 1 - k) ltac:(lia)) as E.
  replace (pos + k + (n - 1 - k)) with (pos + (n - 1)) in E by lia.
  rewrite E, byteset_contains_in in Hb; [discriminate|]. unfold xb. apply nth_In. lia.
Qed.

(* ------------------------------------------------------------------ *)
(* the scans *)

Lemma q_tick k : satq Q (tick k) (fun _ => True).
Proof. apply (satq_emit Q (Tick k) (fun _ => True)); exact I. Qed.

Lemma scan_right_sat : forall fuel i pos,
  n - i < fuel -> i <= n -> pos + n <= length h ->
  satq Q (scan_right h x fuel i pos)
       (fun r => i <= r /\ r <= n /\ agree pos i r /\ (r < n -> nth (pos + r) h 0%N <> xb x r)).
Proof.
  induction fuel as [|f IH]; intros i pos Hf Hi Hp; [lia|].
  cbn [scan_right]. destruct (i <? n) eqn:E.
  - apply Nat.ltb_lt in E.
    rewrite (idx_ok x i 0%N) by lia. rewrite bind_lift_ok.
    rewrite (idx_ok h (pos + i) 0%N) by lia. rewrite bind_lift_ok.
    destruct (N.eqb_spec (nth i x 0%N) (nth (pos + i) h 0%N)) as [Eq|Ne].
    + eapply satq_bind. { apply q_tick. } intros _ _.
      eapply satq_weaken. { apply IH; lia. }
      intros r (R1 & R2 & R3 & R4). split; [lia|]. split; [lia|]. split; [|exact R4].
      intros j J1 J2. destruct (Nat.eq_dec j i) as [->|Hne]; [symmetry; exact Eq|apply R3; lia].
    + apply satq_ret. split; [lia|]. split; [lia|]. split.
      * intros j J1 J2. lia.
      * intros _ E2. apply Ne. symmetry. exact E2.
  - apply Nat.ltb_ge in E. apply satq_ret. split; [lia|]. split; [lia|]. split.
    + intros j J1 J2. lia.
    + intros E2. lia.
Qed.

Lemma scan_left_small_sat : forall fuel j sh pos,
  j < fuel -> j < n -> pos + n <= length h ->
  satq Q (scan_left_small h x fuel j sh pos)
       (fun r => r <= j /\ (forall t, r < t -> t <= j -> nth (pos + t) h 0%N = xb x t) /\
                 (sh < r -> nth (pos + r) h 0%N <> xb x r)).
Proof.
  induction fuel as [|f IH]; intros j sh pos Hf Hj Hp; [lia|].
  cbn [scan_left_small]. destruct (sh <? j) eqn:E.
  - apply Nat.ltb_lt in E.
    rewrite (idx_ok x j 0%N) by lia. rewrite bind_lift_ok.
    rewrite (idx_ok h (pos + j) 0%N) by lia. rewrite bind_lift_ok.
    destruct (N.eqb_spec (nth j x 0%N) (nth (pos + j) h 0%N)) as [Eq|Ne].
    + eapply satq_bind. { apply q_tick. } intros _ _.
      eapply satq_weaken. { apply IH; lia. }
      intros r (R1 & R2 & R3). split; [lia|]. split; [|exact R3].
      intros t T1 T2. destruct (Nat.eq_dec t j) as [->|Hne]; [symmetry; exact Eq|apply R2; lia].
    + apply satq_ret. split; [lia|]. split.
      * intros t T1 T2. lia.
      * intros _ E2. apply Ne. symmetry. exact E2.
  - apply Nat.ltb_ge in E. apply satq_ret. split; [lia|]. split.
    + intros t T1 T2. lia.
    + intros E2. lia.
Qed.

Lemma scan_left_large_sat : forall j pos,
  j <= n -> pos + n <= length h ->
  satq Q (scan_left_large h x j pos)
       (fun b => if b then agree pos 0 j else exists t, t < j /\ nth (pos + t) h 0%N <> xb x t).
Proof.
  induction j as [|j IH]; intros pos Hj Hp; cbn [scan_left_large].
  - apply satq_ret. intros t T1 T2. lia.
  - eapply satq_bind. { apply q_tick. } intros _ _.
    rewrite (idx_ok x j 0%N) by lia. rewrite bind_lift_ok.
    rewrite (idx_ok h (pos + j) 0%N) by lia. rewrite bind_lift_ok.
    destruct (N.eqb_spec (nth j x 0%N) (nth (pos + j) h 0%N)) as [Eq|Ne].
    + eapply satq_weaken. { apply IH; lia. }
      intros [|] Hb.
      * intros t T1 T2. destruct (Nat.eq_dec t j) as [->|Hne]; [symmetry; exact Eq|apply Hb; lia].
      * destruct Hb as (t & T1 & T2). exists t. split; [lia|exact T2].
    + apply satq_ret. exists j. split; [lia|]. intros E2. apply Ne. symmetry. exact E2.
Qed.

(* ------------------------------------------------------------------ *)
(* the prefilter step *)

Lemma shifted_satq {A} pos (m : M A) (Pp : A -> Prop) : pos <= length h ->
  satq (load_ok (a + pos) (length h - pos) an (length x)) m Pp -> satq Q (shifted pos m) Pp.
Proof.
  intros Hpos (v & Hv & Hp & Ht). exists v. unfold shifted. cbn [fst snd].
  split; [exact Hv|]. split; [exact Hp|].
  apply Forall_forall. intros e He. apply in_map_iff in He as (e0 & <- & He0).
  rewrite Forall_forall in Ht. specialize (Ht e0 He0).
  destruct e0 as [r off w al| | |]; try exact I; try exact Ht.
  destruct r; [|exact Ht]. cbn in Ht |- *.
  destruct Ht as [Hb Hal]. split; [lia|]. intros E. specialize (Hal E).
  replace (a + (off + pos)) with (a + pos + off) by lia. exact Hal.
Qed.

Definition step_post (pos : nat) (r : ctl (option nat * prestate) (nat * bool * prestate)) : Prop :=
  match r with
  | Ret r' => fst r' = find_spec x h
  | Go (pos1, ran, st1) =>
      pos <= pos1 /\ pos1 + n <= length h /\ no_occ_before pos1 /\ (ran = false -> pos1 = pos)
  end.

Lemma pre_step_sat pre pos st :
  (forall pf, pre = Some pf -> pre_ok x pf /\ pre_mul_saturating = true) ->
  pos + n <= length h -> no_occ_before pos ->
  satq Q (pre_step pre a h x pos st) (step_post pos).
Proof.
  intros Hpre Hpos Hno. unfold pre_step. destruct pre as [pf|].
  2: { apply satq_ret. cbn [step_post]. split; [lia|]. split; [exact Hpos|]. split; [exact Hno|reflexivity]. }
  destruct (Hpre pf eq_refl) as [Hok Hsat].
  destruct (pre_is_effective_ok st Hsat) as [e He]. rewrite He, bind_lift_ok.
  destruct (fst e).
  2: { apply satq_ret. cbn [step_post]. split; [lia|]. split; [exact Hpos|]. split; [exact Hno|reflexivity]. }
  assert (pos <=? length h = true) as -> by (apply Nat.leb_le; lia).
  rewrite bind_guard_true.
  eapply satq_bind.
  { apply shifted_satq; [lia|].
    assert (Forall (fun b => (b < 256)%N) (skipn pos h)) as Hsk.
    { rewrite <- (firstn_skipn pos h) in Hbytes. apply Forall_app in Hbytes. tauto. }
    pose proof (Hok (a + pos) an (skipn pos h) Hsk) as Hs.
    rewrite skipn_length in Hs. exact Hs. }
  intros [cand|] Hr; cbv zeta.
  - destruct (length h <? pos + cand + n) eqn:E.
    + apply Nat.ltb_lt in E. apply satq_ret. cbn [step_post fst].
      apply (no_occ_none (pos + cand)); [|exact E].
      apply no_occ_extend; [exact Hno|]. intros k Hk.
      destruct (occurs_at x h (pos + k)) eqn:Eo; [|reflexivity].
      rewrite <- occurs_skipn in Eo by lia. apply Hr in Eo. lia.
    + apply Nat.ltb_ge in E. apply satq_ret. cbn [step_post].
      split; [lia|]. split; [exact E|]. split; [|discriminate].
      apply no_occ_extend; [exact Hno|]. intros k Hk.
      destruct (occurs_at x h (pos + k)) eqn:Eo; [|reflexivity].
      rewrite <- occurs_skipn in Eo by lia. apply Hr in Eo. lia.
  - apply satq_ret. cbn [step_post fst]. symmetry. apply find_spec_none. intros q.
    destruct (Nat.lt_ge_cases q pos) as [Hlt|Hge]; [apply Hno; exact Hlt|].
    replace q with (pos + (q - pos)) by lia. rewrite <- occurs_skipn by lia. apply Hr.
Qed.

(* ------------------------------------------------------------------ *)
(* the loops *)

Section Loops.
Variable pre : option prefn.
Hypothesis Hpre : forall pf, pre = Some pf -> pre_ok x pf /\ pre_mul_saturating = true.

Lemma find_small_loop_sat : c <= P -> forall fuel pos sh st,
  length h + 1 - pos < fuel -> no_occ_before pos -> sh < n -> agree pos 0 sh ->
  satq Q (find_small_loop tw pre a h x fuel P pos sh st) (fun r => fst r = find_spec x h).
Proof.
  intros HcP. induction fuel as [|f IH]; intros pos sh st Hf Hno Hsh Hag; [lia|].
  cbn [find_small_loop].
  destruct (pos + n <=? length h) eqn:E.
  2: { apply Nat.leb_gt in E. apply satq_ret. cbn [fst]. apply (no_occ_none pos); assumption. }
  apply Nat.leb_le in E.
  eapply satq_bind. { apply q_tick. } intros _ _.
  eapply satq_bind. { apply pre_step_sat; eassumption. }
  intros [r|[[pos1 ran] st1]] Hr; cbn [step_post] in Hr.
  { apply satq_ret. exact Hr. }
  destruct Hr as (R1 & R2 & R3 & R4). cbv zeta.
  assert ((if ran then c else Nat.max c sh) = Nat.max c (if ran then 0 else sh)) as ->.
  { destruct ran; [rewrite Nat.max_0_r|]; reflexivity. }
  assert ((if ran then 0 else sh) < n) as Hsh1 by (destruct ran; lia).
  assert (agree pos1 0 (if ran then 0 else sh)) as Hag1.
  { destruct ran; [intros j J1 J2; lia|]. rewrite (R4 eq_refl). exact Hag. }
  set (sh1 := if ran then 0 else sh) in *. clearbody sh1.
  rewrite csub_ok by lia. rewrite bind_lift_ok.
  rewrite (idx_ok h (pos1 + (n - 1)) 0%N) by lia. rewrite bind_lift_ok.
  rewrite Hbs.
  destruct (byteset_contains (byteset_new x) (nth (pos1 + (n - 1)) h 0%N)) eqn:Eb; cbn [negb].
  2: { apply IH; [lia| |lia|intros j J1 J2; lia].
       apply no_occ_extend; [exact R3|]. apply no_occ_byteset. exact Eb. }
  eapply satq_bind. { apply scan_right_sat; [lia|lia|exact R2]. }
  intros i (I1 & I2 & I3 & I4).
  assert (agree pos1 c i) as Hci.
  { intros j J1 J2. destruct (Nat.lt_ge_cases j sh1) as [Hlt|Hge]; [apply Hag1; lia|apply I3; lia]. }
  destruct (i <? n) eqn:Ei.
  - apply Nat.ltb_lt in Ei. rewrite csub_ok by lia. rewrite bind_lift_ok.
    apply IH; [lia| |lia|intros j J1 J2; lia].
    apply no_occ_extend; [exact R3|].
    apply (no_occ_right pos1 i); [lia|exact Ei|exact Hci|apply I4; exact Ei].
  - apply Nat.ltb_ge in Ei. assert (i = n) by lia. subst i.
    eapply satq_bind. { apply scan_left_small_sat; [lia|exact Hc|exact R2]. }
    intros j (J1 & J2 & J3).
    eapply satq_bind with (P1 := fun ok => ok = occurs_at x h pos1).
    { destruct (j <=? sh1) eqn:Ej.
      - apply Nat.leb_le in Ej.
        rewrite (idx_ok x sh1 0%N) by lia. rewrite bind_lift_ok.
        rewrite (idx_ok h (pos1 + sh1) 0%N) by lia. rewrite bind_lift_ok.
        apply satq_ret.
        destruct (N.eqb_spec (nth sh1 x 0%N) (nth (pos1 + sh1) h 0%N)) as [Eq|Ne].
        + symmetry. apply nth_occurs; [exact R2|]. intros t Ht.
          destruct (Nat.lt_ge_cases t sh1) as [Hlt|Hge]; [apply Hag1; lia|].
          destruct (Nat.eq_dec t sh1) as [->|Hne]; [symmetry; exact Eq|].
          destruct (Nat.le_gt_cases t c) as [Hle|Hgt]; [apply J2; lia|apply Hci; lia].
        + symmetry. destruct (occurs_at x h pos1) eqn:Eo; [exfalso|reflexivity].
          apply Ne. symmetry. apply (occurs_nth _ _ _ Eo sh1). lia.
      - apply Nat.leb_gt in Ej. apply satq_ret. symmetry.
        destruct (occurs_at x h pos1) eqn:Eo; [exfalso|reflexivity].
        apply (J3 Ej). apply (occurs_nth _ _ _ Eo j). lia. }
    intros ok ->. destruct (occurs_at x h pos1) eqn:Eo.
    + apply satq_ret. cbn [fst]. symmetry. apply find_spec_some. split; [exact Eo|exact R3].
    + rewrite csub_ok by lia. rewrite bind_lift_ok.
      apply IH; [lia| |lia|].
      * apply no_occ_extend; [exact R3|]. apply no_occ_left; assumption.
      * intros t T1 T2. replace (pos1 + P + t) with (pos1 + (P + t)) by lia.
        rewrite Hci by lia. symmetry. replace (P + t) with (t + P) by lia.
        apply (proj1 (is_period_spec x P) HPp). lia.
Qed.

Lemma find_large_loop_sat s : 1 <= s -> s <= P -> forall fuel pos st,
  length h + 1 - pos < fuel -> no_occ_before pos ->
  satq Q (find_large_loop tw pre a h x fuel s pos st) (fun r => fst r = find_spec x h).
Proof.
  intros Hs1 HsP. induction fuel as [|f IH]; intros pos st Hf Hno; [lia|].
  cbn [find_large_loop].
  destruct (pos + n <=? length h) eqn:E.
  2: { apply Nat.leb_gt in E. apply satq_ret. cbn [fst]. apply (no_occ_none pos); assumption. }
  apply Nat.leb_le in E.
  eapply satq_bind. { apply q_tick. } intros _ _.
  eapply satq_bind. { apply pre_step_sat; eassumption. }
  intros [r|[[pos1 ran] st1]] Hr; cbn [step_post] in Hr.
  { apply satq_ret. exact Hr. }
  destruct Hr as (R1 & R2 & R3 & R4).
  rewrite csub_ok by lia. rewrite bind_lift_ok.
  rewrite (idx_ok h (pos1 + (n - 1)) 0%N) by lia. rewrite bind_lift_ok.
  rewrite Hbs.
  destruct (byteset_contains (byteset_new x) (nth (pos1 + (n - 1)) h 0%N)) eqn:Eb; cbn [negb].
  2: { apply IH; [lia|].
       apply no_occ_extend; [exact R3|]. apply no_occ_byteset. exact Eb. }
  eapply satq_bind. { apply scan_right_sat; [lia|lia|exact R2]. }
  intros i (I1 & I2 & I3 & I4).
  destruct (i <? n) eqn:Ei.
  - apply Nat.ltb_lt in Ei. rewrite csub_ok by lia. rewrite bind_lift_ok.
    apply IH; [lia|].
    apply no_occ_extend; [exact R3|].
    apply (no_occ_right pos1 i); [lia|exact Ei|exact I3|apply I4; exact Ei].
  - apply Nat.ltb_ge in Ei. assert (i = n) by lia. subst i.
    eapply satq_bind. { apply scan_left_large_sat; [lia|exact R2]. }
    intros [|] Hb.
    + apply satq_ret. cbn [fst]. symmetry. apply find_spec_some. split; [|exact R3].
      apply nth_occurs; [exact R2|]. intros t Ht.
      destruct (Nat.lt_ge_cases t c) as [Hlt|Hge]; [apply Hb; lia|apply I3; lia].
    + apply IH; [lia|].
      apply no_occ_extend; [exact R3|]. intros k Hk. apply no_occ_left; [exact I3| |lia].
      destruct Hb as (t & T1 & T2).
      destruct (occurs_at x h pos1) eqn:Eo; [exfalso|reflexivity].
      apply T2. apply (occurs_nth _ _ _ Eo t). lia.
Qed.

End Loops.
End Fwd.

(* ------------------------------------------------------------------ *)
(* main theorem *)

Theorem tw_find_correct : forall (x h : list N) (tw : twoway) (pre : option prefn) (a an : nat) (st : prestate),
  tw_cert_fwd x tw = true ->
  tw_byteset tw = byteset_new x ->
  (forall pf, pre = Some pf -> pre_ok x pf /\ pre_mul_saturating = true) ->
  Forall (fun b => (b < 256)%N) h ->
  satq (load_ok a (length h) an (length x)) (tw_find tw pre a h x st) (fun r => fst r = find_spec x h).
Proof.
  intros x h tw pre a an st Hcert Hbs Hpre Hbytes.
  unfold tw_cert_fwd in Hcert. cbv zeta in Hcert.
  apply andb_true_iff in Hcert as [Hcert Hshift].
  apply andb_true_iff in Hcert as [Hc Hloc].
  apply Nat.ltb_lt in Hc.
  destruct (smallest_period_spec x ltac:(lia)) as (HPp & HP1 & HPn).
  pose proof (locals_spec _ _ _ _ Hloc) as Hmult.
  unfold tw_find.
  assert (length x =? 0 = false) as E0 by (apply Nat.eqb_neq; lia).
  destruct (tw_shift tw) as [p|s]; rewrite E0.
  - apply andb_true_iff in Hshift as [Hp HcP].
    apply Nat.eqb_eq in Hp. apply Nat.leb_le in HcP. subst p.
    apply find_small_loop_sat; try assumption; try lia.
    + intros q Hq. lia.
    + intros j J1 J2. lia.
  - apply andb_true_iff in Hshift as [Hs1 HsP].
    apply Nat.leb_le in Hs1. apply Nat.leb_le in HsP.
    apply find_large_loop_sat; try assumption; try lia.
    intros q Hq. lia.
Qed.

Print Assumptions tw_find_correct.
