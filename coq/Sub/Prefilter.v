(* Model of PrefilterState / Pre (src/memmem/searcher.rs): the adaptive decision
   to stop using a prefilter.  skips and skipped are u32 values. *)
From Memchr Require Export Base.ListX.
From Memchr Require Import Params.

Definition u32max : N := (2 ^ 32 - 1)%N.

Record prestate := { ps_skips : N; ps_skipped : N }.

(* PrefilterState::new() *)
Definition prestate_new : prestate := {| ps_skips := 1; ps_skipped := 0 |}.

(* update(skipped: usize): saturating counters *)
Definition pre_update (st : prestate) (n : nat) : prestate :=
  {| ps_skips := N.min (ps_skips st + 1) u32max;
     ps_skipped := if (u32max <? N.of_nat n)%N then u32max
                   else N.min (ps_skipped st + N.of_nat n) u32max |}.

(* skips(): self.skips.saturating_sub(1) *)
Definition pre_skips (st : prestate) : N := (ps_skips st - 1)%N.

(* is_effective(&mut self): the u32 product MIN_SKIP_BYTES * skips() is a plain
   (overflow-checked) multiplication unless the source says saturating_mul *)
Definition pre_is_effective (st : prestate) : res (bool * prestate) :=
  if (ps_skips st =? 0)%N then Ok (false, st)
  else if (pre_skips st <? pre_min_skips)%N then Ok (true, st)
  else
    let prod := (pre_min_skip_bytes * pre_skips st)%N in
    match (if pre_mul_saturating then Ok (N.min prod u32max)
           else if (prod <=? u32max)%N then Ok prod else Panic Overflow) with
    | Panic p => Panic p
    | Ok bound =>
        if (bound <=? ps_skipped st)%N then Ok (true, st)
        else Ok (false, {| ps_skips := 0; ps_skipped := ps_skipped st |})
    end.
