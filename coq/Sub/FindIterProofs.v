(* FindIter / FindRevIter yield the greedy non-overlapping match sequences. *)
From Memchr Require Import Spec SpecProofs Params Mem.Iter
  Sub.Prefilter Sub.TwoWay Sub.TwoWayCert Sub.TwoWayFwdProofs Sub.Searcher Sub.SearcherProofs Sub.FindIter.

(* ---- the specification ---- *)
(* repeatedly take the leftmost occurrence at or after `from`, resume right after its end
   (needle.len().max(1) further); fuel only bounds the recursion *)
Fixpoint greedy (fuel : nat) (x h : list N) (from : nat) : list nat :=
  match fuel with
  | 0 => []
  | S f =>
      if length h <? from then []
      else match find_spec x (skipn from h) with
           | None => []
           | Some i => (from + i) :: greedy f x h (from + i + Nat.max (length x) 1)
           end
  end.
Definition greedy_seq (x h : list N) : list nat := greedy (length h + 2) x h 0.

(* mirror image: rightmost occurrence inside h[..p], then continue inside h[..i]
   (for the empty needle: one step to the left) *)
Fixpoint rgreedy (fuel : nat) (x h : list N) (p : nat) : list nat :=
  match fuel with
  | 0 => []
  | S f =>
      match rfind_spec x (firstn p h) with
      | None => []
      | Some i => i :: (if p =? i then match p with 0 => [] | S p' => rgreedy f x h p' end
                        else rgreedy f x h i)
      end
  end.
Definition rgreedy_seq (x h : list N) : list nat := rgreedy (length h + 2) x h (length h).

Lemma find_spec_lt x h i : find_spec x h = Some i -> i + length x <= length h.
Proof. intros H. apply find_spec_some in H as [H _]. apply occurs_at_bound in H. exact H. Qed.

Lemma greedy_fuel x h : forall f1 f2 from,
  length h + 1 - from < f1 -> length h + 1 - from < f2 -> greedy f1 x h from = greedy f2 x h from.
Proof.
  induction f1 as [|f1 IH]; intros f2 from H1 H2; [lia|]. destruct f2 as [|f2]; [lia|].
  cbn [greedy]. destruct (length h <? from) eqn:E; [reflexivity|]. apply Nat.ltb_ge in E.
  destruct (find_spec x (skipn from h)) as [i|] eqn:Ef; [|reflexivity].
  f_equal. apply IH; lia.
Qed.

Lemma shifted_satq_gen {A} a an lx (h : list N) pos (m : M A) (P : A -> Prop) :
  pos <= length h ->
  satq (load_ok (a + pos) (length h - pos) an lx) m P ->
  satq (load_ok a (length h) an lx) (shifted pos m) P.
Proof.
  intros Hpos (v & Hv & Hp & Ht). exists v. unfold shifted. cbn [fst snd].
  split; [exact Hv|]. split; [exact Hp|].
  apply Forall_forall. intros e He. apply in_map_iff in He as (e0 & <- & He0).
  rewrite Forall_forall in Ht. specialize (Ht e0 He0).
  destruct e0 as [r off w al| | |]; try exact I; try exact Ht.
  destruct r; [|exact Ht]. cbn in Ht |- *.
  destruct Ht as [Hb Hal]. split; [lia|]. intros E Hw. specialize (Hal E Hw).
  replace (a + (off + pos)) with (a + pos + off) by lia. exact Hal.
Qed.

Section Fwd.
Variables (cfg : pconfig) (rank : N -> N) (ar : arch) (x h : list N) (a an : nat) (f : finder).
Hypothesis Hx : bytes_ok x.
Hypothesis Hh : bytes_ok h.
Hypothesis Hf : fst (finder_new cfg rank ar x) = Ok f.
Hypothesis Hcert : tw_reach_fwd ar x = true -> tw_cert_fwd_of x = true.
Hypothesis Hsat : pre_mul_saturating = true.
Notation Q := (load_ok a (length h) an (length x)).

Lemma f_needle_eq : f_needle f = x.
Proof.
  unfold finder_new in Hf. rewrite fst_bind in Hf.
  destruct (fst (searcher_new cfg rank ar x)); [|discriminate]. cbn in Hf. injection Hf as <-. reflexivity.
Qed.

Lemma bytes_skipn n : bytes_ok (skipn n h).
Proof. unfold bytes_ok in *. rewrite <- (firstn_skipn n h) in Hh. apply Forall_app in Hh. tauto. Qed.

(* one call of next *)
Lemma fiter_next_sat it :
  satq Q (fiter_next ar f a h it)
       (fun r => if length h <? fi_pos it then r = (None, it)
                 else match find_spec x (skipn (fi_pos it) h) with
                      | None => fst r = None /\ fi_pos (snd r) = fi_pos it
                      | Some i => fst r = Some (fi_pos it + i) /\
                                  fi_pos (snd r) = fi_pos it + i + Nat.max (length x) 1
                      end).
Proof.
  unfold fiter_next. rewrite f_needle_eq.
  destruct (length h <? fi_pos it) eqn:E.
  - apply satq_ret. reflexivity.
  - apply Nat.ltb_ge in E.
    eapply satq_bind.
    { apply shifted_satq_gen; [exact E|].
      pose proof (finder_reuse_correct ar x (skipn (fi_pos it) h) (a + fi_pos it) an Hx (bytes_skipn _)
                    cfg rank f (fi_pre it) Hf Hcert Hsat) as Hs.
      rewrite f_needle_eq, skipn_length in Hs. exact Hs. }
    intros r Hr. rewrite Hr.
    destruct (find_spec x (skipn (fi_pos it) h)) as [i|]; apply satq_ret; cbn; split; reflexivity.
Qed.

(* the number of matches still to come is bracketed by size_hint *)
Lemma greedy_count_bound : forall fuel from,
  from <= length h -> 0 < length x ->
  length (greedy fuel x h from) * length x <= length h - from.
Proof.
  induction fuel as [|fu IH]; intros from Hfrom Hn; cbn [greedy]; [cbn; lia|].
  destruct (length h <? from) eqn:E; [cbn; lia|].
  destruct (find_spec x (skipn from h)) as [i|] eqn:Ef; [|cbn; lia].
  apply find_spec_lt in Ef. rewrite skipn_length in Ef.
  cbn [length]. replace (Nat.max (length x) 1) with (length x) by lia.
  specialize (IH (from + i + length x) ltac:(lia) Hn). nia.
Qed.

Lemma occurs_empty (g : list N) j : occurs_at [] g j = (j <=? length g).
Proof. unfold occurs_at. cbn. rewrite Nat.add_0_r, andb_true_r. reflexivity. Qed.

Lemma greedy_empty_needle : x = [] -> forall fuel from,
  from <= length h -> length h + 1 - from < fuel ->
  greedy fuel x h from = seq from (length h + 1 - from).
Proof.
  intros Hx0. induction fuel as [|fu IH]; intros from Hfrom Hfuel; [lia|]. cbn [greedy].
  assert (length h <? from = false) as -> by (apply Nat.ltb_ge; exact Hfrom).
  rewrite Hx0, find_spec_empty. cbn [length Nat.max].
  replace (length h + 1 - from) with (S (length h - from)) by lia. cbn [seq].
  rewrite Nat.add_0_r. f_equal.
  destruct (Nat.eq_dec from (length h)) as [->|Hne].
  - replace (length h - length h) with 0 by lia. cbn [seq].
    destruct fu; [reflexivity|]. cbn [greedy].
    assert (length h <? length h + 1 = true) as -> by (apply Nat.ltb_lt; lia). reflexivity.
  - rewrite <- Hx0. rewrite IH by lia. f_equal; lia.
Qed.

(* k calls of next, with the size hint taken before each call *)
Definition hint_ok (sh : nat * nat) (remaining : nat) : Prop := fst sh <= remaining <= snd sh.

Fixpoint outs_ok (outs : list (option nat * (nat * nat))) (rest : list nat) : Prop :=
  match outs with
  | [] => True
  | (o, sh) :: t =>
      hint_ok sh (length rest) /\ o = hd_error rest /\ outs_ok t (tl rest)
  end.

Lemma size_hint_ok it fuel :
  length h + 1 - fi_pos it < fuel ->
  hint_ok (fiter_size_hint f h it) (length (greedy fuel x h (fi_pos it))).
Proof.
  intros Hfuel. unfold fiter_size_hint, hint_ok. rewrite f_needle_eq.
  destruct (length h <? fi_pos it) eqn:E.
  - destruct fuel; cbn [greedy]; [cbn; lia|]. rewrite E. cbn. lia.
  - apply Nat.ltb_ge in E. destruct (length x) as [|n'] eqn:En.
    + assert (x = []) as Hx0 by (destruct x; [reflexivity|discriminate]).
      rewrite (greedy_empty_needle Hx0 fuel _ E Hfuel), seq_length. cbn. lia.
    + pose proof (greedy_count_bound fuel (fi_pos it) E ltac:(lia)) as Hb. rewrite En in Hb.
      cbn [fst snd]. split; [lia|].
      apply Nat.div_le_lower_bound; [lia|]. lia.
Qed.

Theorem fiter_run_sat : forall k it fuel,
  length h + 1 - fi_pos it < fuel ->
  satq Q (fiter_run ar f a h k it) (fun outs => length outs = k /\ outs_ok outs (greedy fuel x h (fi_pos it))).
Proof.
  induction k as [|k IH]; intros it fuel Hfuel; cbn [fiter_run].
  - apply satq_ret. split; [reflexivity|exact I].
  - eapply satq_bind; [apply fiter_next_sat|]. intros r Hr.
    pose proof (size_hint_ok it fuel Hfuel) as Hsh.
    destruct fuel as [|fu]; [lia|].
    destruct (length h <? fi_pos it) eqn:E.
    + subst r. cbn [snd fst].
      eapply satq_bind. { apply (IH it (S fu)). exact Hfuel. }
      intros outs [Hlen Houts]. apply satq_ret. split; [cbn; lia|].
      cbn [outs_ok]. split; [exact Hsh|]. cbn [greedy] in *. rewrite E in *. cbn. split; [reflexivity|exact Houts].
    + apply Nat.ltb_ge in E.
      destruct (find_spec x (skipn (fi_pos it) h)) as [i|] eqn:Ef.
      * destruct Hr as [Hr1 Hr2].
        eapply satq_bind. { apply (IH (snd r) fu). rewrite Hr2. apply find_spec_lt in Ef. rewrite skipn_length in Ef. lia. }
        intros outs [Hlen Houts]. apply satq_ret. split; [cbn; lia|].
        cbn [outs_ok]. split; [exact Hsh|]. cbn [greedy].
        assert (length h <? fi_pos it = false) as -> by (apply Nat.ltb_ge; exact E).
        rewrite Ef. cbn [hd_error tl]. split; [exact Hr1|]. rewrite <- Hr2. exact Houts.
      * destruct Hr as [Hr1 Hr2].
        eapply satq_bind. { apply (IH (snd r) (S fu)). rewrite Hr2. exact Hfuel. }
        intros outs [Hlen Houts]. apply satq_ret. split; [cbn; lia|].
        cbn [outs_ok]. split; [exact Hsh|]. cbn [greedy] in *.
        assert (length h <? fi_pos it = false) as E' by (apply Nat.ltb_ge; exact E).
        rewrite Hr2, E', Ef in Houts. rewrite E', Ef. cbn. split; [exact Hr1|exact Houts].
Qed.

End Fwd.

Section Rev.
Variables (ar : arch) (x h : list N) (a an : nat) (f : rfinder).
Hypothesis Hx : bytes_ok x.
Hypothesis Hh : bytes_ok h.
Hypothesis Hf : fst (rfinder_new x) = Ok f.
Hypothesis Hcert : tw_reach_rev x = true -> tw_cert_rev_of x = true.
Notation Q := (load_ok a (length h) an (length x)).

Lemma bytes_firstn n : bytes_ok (firstn n h).
Proof. unfold bytes_ok in *. rewrite <- (firstn_skipn n h) in Hh. apply Forall_app in Hh. tauto. Qed.

Lemma load_ok_shorter lh lh' e : lh' <= lh -> load_ok a lh' an (length x) e -> load_ok a lh an (length x) e.
Proof.
  intros Hle. destruct e as [r off w al| | |]; cbn; try tauto. destruct r; [|tauto].
  intros [H1 H2]. split; [lia|exact H2].
Qed.

Lemma rfind_spec_le g i : rfind_spec x g = Some i -> i <= length g.
Proof. intros H. apply rfind_spec_some in H as [H _]. apply occurs_at_bound in H. lia. Qed.

Lemma riter_next_sat p : p <= length h ->
  satq Q (riter_next ar f a h (Some p))
       (fun r => match rfind_spec x (firstn p h) with
                 | None => r = (None, Some p)
                 | Some i => fst r = Some i /\
                             snd r = (if p =? i then match p with 0 => None | S p' => Some p' end else Some i)
                 end).
Proof.
  intros Hp. unfold riter_next.
  assert (p <=? length h = true) as -> by (apply Nat.leb_le; exact Hp). rewrite bind_guard_true.
  eapply satq_bind.
  { eapply satq_mono; [intros e; apply (load_ok_shorter (length h) (length (firstn p h)))|].
    - rewrite firstn_length. lia.
    - apply (rfinder_reuse_correct ar x (firstn p h) a an Hx (bytes_firstn p) f Hf Hcert). }
  intros r ->.
  destruct (rfind_spec x (firstn p h)) as [i|]; [|apply satq_ret; reflexivity].
  destruct (p =? i); apply satq_ret; split; reflexivity.
Qed.

Fixpoint routs_ok (outs : list (option nat)) (rest : list nat) : Prop :=
  match outs with
  | [] => True
  | o :: t => o = hd_error rest /\ routs_ok t (tl rest)
  end.

Lemma routs_none k : routs_ok (repeat None k) [].
Proof. induction k as [|k IH]; cbn; [exact I|split; [reflexivity|exact IH]]. Qed.

Lemma riter_run_none k : satq Q (riter_run ar f a h k None) (fun outs => outs = repeat None k).
Proof.
  induction k as [|k IH]; cbn [riter_run]; [apply satq_ret; reflexivity|].
  cbn [riter_next]. rewrite bind_ret. cbn [snd fst].
  eapply satq_bind; [exact IH|]. intros outs ->. apply satq_ret. reflexivity.
Qed.

Theorem riter_run_sat : forall k p fuel,
  p <= length h -> p + 1 < fuel ->
  satq Q (riter_run ar f a h k (Some p)) (fun outs => length outs = k /\ routs_ok outs (rgreedy fuel x h p)).
Proof.
  induction k as [|k IH]; intros p fuel Hp Hfuel; cbn [riter_run].
  - apply satq_ret. split; [reflexivity|exact I].
  - eapply satq_bind; [apply riter_next_sat; exact Hp|]. intros r Hr.
    destruct fuel as [|fu]; [lia|]. cbn [rgreedy].
    destruct (rfind_spec x (firstn p h)) as [i|] eqn:Ef.
    + destruct Hr as [Hr1 Hr2]. pose proof (rfind_spec_le _ _ Ef) as Hi. rewrite firstn_length in Hi.
      destruct (p =? i) eqn:Epi.
      * apply Nat.eqb_eq in Epi. subst i. destruct p as [|p'].
        -- rewrite Hr2. eapply satq_bind; [apply riter_run_none|]. intros outs ->.
           apply satq_ret. split; [cbn; rewrite repeat_length; reflexivity|].
           cbn [routs_ok hd_error tl]. split; [exact Hr1|apply routs_none].
        -- rewrite Hr2. eapply satq_bind; [apply (IH p' fu); lia|]. intros outs [Hl Ho].
           apply satq_ret. split; [cbn; lia|]. cbn [routs_ok hd_error tl]. split; [exact Hr1|exact Ho].
      * apply Nat.eqb_neq in Epi. rewrite Hr2.
        eapply satq_bind; [apply (IH i fu); lia|]. intros outs [Hl Ho].
        apply satq_ret. split; [cbn; lia|]. cbn [routs_ok hd_error tl]. split; [exact Hr1|exact Ho].
    + subst r. cbn [snd fst].
      eapply satq_bind; [apply (IH p (S fu)); lia|]. intros outs [Hl Ho].
      apply satq_ret. split; [cbn; lia|]. cbn [routs_ok hd_error tl]. split; [reflexivity|].
      cbn [rgreedy] in Ho. rewrite Ef in Ho. exact Ho.
Qed.

End Rev.
