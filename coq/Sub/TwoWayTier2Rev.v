(* Tier 2 (reverse): the reverse certificate holds for EVERY non-empty needle.
   The reverse preprocessing of x (Suffix::reverse, Shift::reverse,
   FinderRev::new) is the mirror image of the forward preprocessing of rev x:
   the two suffix loops take the same branches, the shifts agree, and
   tw_cert_rev x is tw_cert_fwd (rev x) at the mirrored critical position.  The
   theorem then follows from tw_cert_fwd_all (rev x). *)
From Memchr Require Import Spec SpecProofs Params Sub.IsEqual Sub.IsEqualProofs
  Sub.TwoWay Sub.TwoWayCert Sub.TwoWayPreProofs Sub.TwoWayTier2.
From Memchr Require Import Sub.Words Sub.TwoWayFwdProofs.

Local Open Scope nat_scope.

(* ------------------------------------------------------------------ *)
(* lists and reversal *)

Lemma xb_rev (x : list N) j : j < length x -> xb (rev x) j = xb x (length x - S j).
Proof. intros H. unfold xb. apply rev_nth. exact H. Qed.

Lemma slice_rev (x : list N) o w : o + w <= length x ->
  slice (rev x) o w = rev (slice x (length x - o - w) w).
Proof.
  intros H. unfold slice. rewrite skipn_rev, firstn_rev, firstn_length.
  rewrite skipn_firstn_comm.
  replace (Nat.min (length x - o) (length x) - w) with (length x - o - w) by lia.
  replace (length x - o - (length x - o - w)) with w by lia.
  reflexivity.
Qed.

Lemma list_eqb_rev a b : list_eqb (rev a) (rev b) = list_eqb a b.
Proof.
  destruct (list_eqb a b) eqn:E.
  - apply list_eqb_eq in E. subst b. apply list_eqb_refl.
  - apply list_eqb_neq. apply list_eqb_neq in E. intros H. apply E.
    rewrite <- (rev_involutive a), <- (rev_involutive b), H. reflexivity.
Qed.

Lemma forallb_ext_in {A} (f g : A -> bool) (l : list A) :
  (forall a, In a l -> f a = g a) -> forallb f l = forallb g l.
Proof.
  induction l as [|a l IH]; intros H; [reflexivity|].
  cbn [forallb]. rewrite (H a) by (left; reflexivity).
  rewrite IH; [reflexivity|]. intros b Hb. apply H. right. exact Hb.
Qed.

(* ------------------------------------------------------------------ *)
(* (1) Suffix::reverse on x simulates Suffix::forward on rev x *)

Definition mirror (n : nat) (r : res (nat * nat)) : res (nat * nat) :=
  match r with
  | Ok pq => Ok (n - fst pq, snd pq)
  | Panic e => Panic e
  end.

Lemma fst_tick {A} k (m : M A) : fst (tick k ;;; m) = fst m.
Proof. rewrite fst_bind. reflexivity. Qed.

Lemma suffix_loop_sim (x : list N) k : forall fuel pos period cand off,
  cand < pos -> pos <= length x -> 1 <= period -> period <= pos - cand -> off < period ->
  fst (suffix_fwd_loop (rev x) k fuel (length x - pos) period (length x - cand) off)
  = mirror (length x) (fst (suffix_rev_loop x k fuel pos period cand off)).
Proof.
  induction fuel as [|f IH]; intros pos period cand off Hcp Hpn Hp1 Hpd Hoff; [reflexivity|].
  cbn [suffix_fwd_loop suffix_rev_loop]. rewrite rev_length.
  destruct (off <? cand) eqn:Eloop.
  - apply Nat.ltb_lt in Eloop.
    assert (length x - cand + off <? length x = true) as -> by (apply Nat.ltb_lt; lia).
    rewrite !fst_tick.
    rewrite (csub_ok pos off) by lia. rewrite bind_lift_ok.
    rewrite (csub_ok (pos - off) 1) by lia. rewrite bind_lift_ok.
    rewrite (idx_ok x (pos - off - 1) 0%N) by lia. rewrite bind_lift_ok.
    rewrite (csub_ok cand off) by lia. rewrite bind_lift_ok.
    rewrite (csub_ok (cand - off) 1) by lia. rewrite bind_lift_ok.
    rewrite (idx_ok x (cand - off - 1) 0%N) by lia. rewrite bind_lift_ok.
    rewrite (idx_ok (rev x) (length x - pos + off) 0%N) by (rewrite rev_length; lia).
    rewrite bind_lift_ok.
    rewrite (idx_ok (rev x) (length x - cand + off) 0%N) by (rewrite rev_length; lia).
    rewrite bind_lift_ok.
    rewrite (@rev_nth _ x 0%N (length x - pos + off)) by lia.
    rewrite (@rev_nth _ x 0%N (length x - cand + off)) by lia.
    replace (length x - S (length x - pos + off)) with (pos - off - 1) by lia.
    replace (length x - S (length x - cand + off)) with (cand - off - 1) by lia.
    destruct (kcmp k (nth (pos - off - 1) x 0%N) (nth (cand - off - 1) x 0%N)).
    + (* Accept *)
      rewrite (csub_ok cand 1) by lia. rewrite bind_lift_ok.
      replace (length x - cand + 1) with (length x - (cand - 1)) by lia.
      apply IH; lia.
    + (* Skip *)
      rewrite (csub_ok (length x - cand + (off + 1)) (length x - pos)) by lia. rewrite bind_lift_ok.
      rewrite (csub_ok cand (off + 1)) by lia. rewrite bind_lift_ok.
      rewrite (csub_ok pos (cand - (off + 1))) by lia. rewrite bind_lift_ok.
      replace (length x - cand + (off + 1) - (length x - pos)) with (pos - (cand - (off + 1))) by lia.
      replace (length x - cand + (off + 1)) with (length x - (cand - (off + 1))) by lia.
      apply IH; lia.
    + (* Push *)
      destruct (off + 1 =? period) eqn:Eper.
      * apply Nat.eqb_eq in Eper.
        rewrite (csub_ok cand period) by lia. rewrite bind_lift_ok.
        replace (length x - cand + period) with (length x - (cand - period)) by lia.
        apply IH; lia.
      * apply Nat.eqb_neq in Eper. apply IH; lia.
  - apply Nat.ltb_ge in Eloop.
    assert (length x - cand + off <? length x = false) as -> by (apply Nat.ltb_ge; lia).
    reflexivity.
Qed.

Lemma suffix_sim (x : list N) k : 1 <= length x ->
  fst (suffix_fwd (rev x) k) = mirror (length x) (fst (suffix_rev x k)).
Proof.
  intros Hn. unfold suffix_fwd, suffix_rev. rewrite rev_length.
  destruct (length x =? 1) eqn:E1.
  - apply Nat.eqb_eq in E1. rewrite E1. change (2 * 1 + 2) with 4.
    cbn [suffix_fwd_loop]. rewrite rev_length, E1. reflexivity.
  - apply Nat.eqb_neq in E1.
    pose proof (suffix_loop_sim x k (2 * length x + 2) (length x) 1 (length x - 1) 0
                  ltac:(lia) ltac:(lia) ltac:(lia) ltac:(lia) ltac:(lia)) as H.
    replace (length x - length x) with 0 in H by lia.
    replace (length x - (length x - 1)) with 1 in H by lia.
    rewrite H. destruct (length x) as [|c] eqn:En; [lia|].
    replace (S c - 1) with c by lia. reflexivity.
Qed.

(* ------------------------------------------------------------------ *)
(* (3) Shift::reverse on x computes Shift::forward on rev x *)

Lemma shift_rev_pure_eq (x : list N) plb cp :
  1 <= cp -> cp <= length x -> 1 <= plb -> plb <= cp ->
  fst (shift_rev x plb cp) = Ok (shift_fwd_pure (rev x) plb (length x - cp)).
Proof.
  intros H1 H2 H3 H4. unfold shift_rev, shift_fwd_pure. rewrite rev_length.
  rewrite (csub_ok (length x) cp H2), bind_lift_ok.
  replace (length x - (length x - cp)) with cp by lia.
  rewrite (Nat.max_comm (length x - cp) cp).
  destruct (length x <=? (length x - cp) * 2) eqn:Ebig; [reflexivity|].
  apply Nat.leb_gt in Ebig.
  assert (cp <=? length x = true) as -> by (apply Nat.leb_le; exact H2). rewrite bind_guard_true.
  rewrite (csub_ok cp plb H4), bind_lift_ok.
  destruct (length x - cp <=? plb) eqn:E; cbn [andb].
  - apply Nat.leb_le in E.
    destruct (is_equal_raw_sat RNeedle RNeedle x x (cp - plb) cp (length x - cp)
                ltac:(lia) ltac:(lia)) as (b & Hb & -> & _).
    rewrite fst_bind, Hb.
    rewrite (slice_rev x plb (length x - cp)) by lia.
    rewrite (slice_rev x 0 (length x - cp)) by lia.
    rewrite list_eqb_rev.
    replace (length x - plb - (length x - cp)) with (cp - plb) by lia.
    replace (length x - 0 - (length x - cp)) with cp by lia.
    destruct (list_eqb (slice x (cp - plb) (length x - cp)) (slice x cp (length x - cp))); reflexivity.
  - rewrite bind_ret. reflexivity.
Qed.

(* ------------------------------------------------------------------ *)
(* (2) FinderRev::new on x is Finder::new on rev x, mirrored *)

Lemma tw_new_sim (x : list N) tw : 1 <= length x -> fst (tw_new_rev x) = Ok tw ->
  1 <= tw_cp tw <= length x /\
  fst (tw_new (rev x)) =
    Ok {| tw_byteset := byteset_new (rev x); tw_cp := length x - tw_cp tw; tw_shift := tw_shift tw |}.
Proof.
  intros Hn Htw. unfold tw_new_rev in Htw. unfold tw_new.
  destruct (satq_fst _ _ _ (suffix_rev_ok x Minimal)) as (mn & Hmn & (A1 & A2 & A3 & A4) & _).
  destruct (satq_fst _ _ _ (suffix_rev_ok x Maximal)) as (mx & Hmx & (B1 & B2 & B3 & B4) & _).
  specialize (A1 Hn). specialize (A4 Hn). specialize (B1 Hn). specialize (B4 Hn).
  rewrite fst_bind, Hmn, fst_bind, Hmx in Htw.
  rewrite fst_bind, (suffix_sim x Minimal Hn), Hmn. cbn [mirror].
  rewrite fst_bind, (suffix_sim x Maximal Hn), Hmx. cbn [mirror fst snd].
  assert ((length x - fst mx <? length x - fst mn) = (fst mn <? fst mx)) as ->.
  { destruct (fst mn <? fst mx) eqn:E.
    - apply Nat.ltb_lt in E. apply Nat.ltb_lt. lia.
    - apply Nat.ltb_ge in E. apply Nat.ltb_ge. lia. }
  destruct (fst mn <? fst mx).
  - rewrite fst_bind, (shift_rev_pure_eq x (snd mn) (fst mn)) in Htw by lia.
    cbn [fst ret] in Htw. injection Htw as <-. cbn [tw_cp tw_shift].
    split; [lia|].
    rewrite fst_bind, (shift_fwd_pure_eq (rev x) (snd mn) (length x - fst mn)) by (rewrite rev_length; lia).
    reflexivity.
  - rewrite fst_bind, (shift_rev_pure_eq x (snd mx) (fst mx)) in Htw by lia.
    cbn [fst ret] in Htw. injection Htw as <-. cbn [tw_cp tw_shift].
    split; [lia|].
    rewrite fst_bind, (shift_fwd_pure_eq (rev x) (snd mx) (length x - fst mx)) by (rewrite rev_length; lia).
    reflexivity.
Qed.

(* ------------------------------------------------------------------ *)
(* (4) periods and local periods of the reversed word *)

Lemma is_period_rev_imp (x : list N) p : is_period x p = true -> is_period (rev x) p = true.
Proof.
  rewrite !is_period_spec. rewrite rev_length. intros H j Hj.
  rewrite !xb_rev by lia.
  replace (length x - S j) with ((length x - S (j + p)) + p) by lia.
  symmetry. apply H. lia.
Qed.

Lemma is_period_rev (x : list N) p : is_period (rev x) p = is_period x p.
Proof.
  destruct (is_period x p) eqn:E.
  - apply is_period_rev_imp. exact E.
  - destruct (is_period (rev x) p) eqn:E2; [|reflexivity].
    apply is_period_rev_imp in E2. rewrite rev_involutive in E2. congruence.
Qed.

Lemma first_period_rev (x : list N) : forall fuel p,
  first_period (rev x) fuel p = first_period x fuel p.
Proof.
  induction fuel as [|f IH]; intros p; cbn [first_period]; [reflexivity|].
  rewrite is_period_rev, IH. reflexivity.
Qed.

Lemma smallest_period_rev (x : list N) : smallest_period (rev x) = smallest_period x.
Proof. unfold smallest_period. rewrite rev_length. apply first_period_rev. Qed.

Lemma local_period_rev_imp (x : list N) c k : c <= length x ->
  local_period x c k = true -> local_period (rev x) (length x - c) k = true.
Proof.
  intros Hc. rewrite !local_period_spec. rewrite rev_length. intros H j J1 J2 J3.
  rewrite !xb_rev by lia.
  replace (length x - S j) with ((length x - S (j + k)) + k) by lia.
  symmetry. apply H; lia.
Qed.

Lemma local_period_rev (x : list N) c k : c <= length x ->
  local_period (rev x) (length x - c) k = local_period x c k.
Proof.
  intros Hc. destruct (local_period x c k) eqn:E.
  - apply local_period_rev_imp; assumption.
  - destruct (local_period (rev x) (length x - c) k) eqn:E2; [|reflexivity].
    apply local_period_rev_imp in E2; [|rewrite rev_length; lia].
    rewrite rev_involutive, rev_length in E2.
    replace (length x - (length x - c)) with c in E2 by lia. congruence.
Qed.

Lemma locals_rev (x : list N) c P b : c <= length x ->
  locals_are_multiples (rev x) (length x - c) P b = locals_are_multiples x c P b.
Proof.
  intros Hc. unfold locals_are_multiples. apply forallb_ext_in. intros k _.
  rewrite local_period_rev by exact Hc. reflexivity.
Qed.

Lemma tw_cert_rev_fwd (x : list N) tw bs : 1 <= tw_cp tw <= length x ->
  tw_cert_fwd (rev x)
    {| tw_byteset := bs; tw_cp := length x - tw_cp tw; tw_shift := tw_shift tw |}
  = tw_cert_rev x tw.
Proof.
  intros [H1 H2]. unfold tw_cert_fwd, tw_cert_rev. cbv zeta. cbn [tw_cp tw_shift].
  rewrite rev_length, smallest_period_rev. rewrite locals_rev by exact H2.
  replace (length x - 1 - (length x - tw_cp tw)) with (tw_cp tw - 1) by lia.
  assert (length x - tw_cp tw <? length x = true) as -> by (apply Nat.ltb_lt; lia).
  assert (0 <? tw_cp tw = true) as -> by (apply Nat.ltb_lt; lia).
  assert (tw_cp tw <=? length x = true) as -> by (apply Nat.leb_le; lia).
  reflexivity.
Qed.

(* ------------------------------------------------------------------ *)
(* (5) *)

Theorem tw_cert_rev_all : forall x : list N, 1 <= length x -> tw_cert_rev_of x = true.
Proof.
  intros x Hn. unfold tw_cert_rev_of.
  destruct (satq_fst _ _ _ (tw_new_rev_ok x)) as (tw & Htw & _ & _).
  rewrite Htw.
  destruct (tw_new_sim x tw Hn Htw) as [Hc Hf].
  pose proof (tw_cert_fwd_all (rev x) ltac:(rewrite rev_length; exact Hn)) as Hall.
  unfold tw_cert_fwd_of in Hall. rewrite Hf in Hall. rewrite <- Hall.
  symmetry. apply tw_cert_rev_fwd. exact Hc.
Qed.

Print Assumptions tw_cert_rev_all.
