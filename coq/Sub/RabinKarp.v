(* Model of src/arch/all/rabinkarp.rs. Hash(u32): add b = (h << 1) + b,
   del b = h - b * hash_2pow, all wrapping at rk_hash_bits bits. *)
From Memchr Require Export Sub.IsEqual.
From Memchr Require Import Params.

Definition rk_mod : N := (2 ^ N.of_nat rk_hash_bits)%N.
Definition wrap (x : N) : N := (x mod rk_mod)%N.

Definition h_add (h b : N) : N := wrap (wrap (h * 2) + b).
Definition h_del (h factor b : N) : N := wrap (h + rk_mod - wrap (b * factor)).
Definition h_roll (h factor old new : N) : N := h_add (h_del h factor old) new.

Record rkfinder := { rk_hash : N; rk_2pow : N }.

(* Finder::new: first byte, then for each further byte add and hash_2pow <<= 1 (wrapping) *)
Definition rk_new (x : list N) : rkfinder :=
  match x with
  | [] => {| rk_hash := 0; rk_2pow := 1 |}
  | b :: t =>
      fold_left (fun s b' => {| rk_hash := h_add (rk_hash s) b'; rk_2pow := wrap (rk_2pow s * 2) |})
                t {| rk_hash := h_add 0 b; rk_2pow := 1 |}
  end.

(* FinderRev::new: the same over the needle reversed *)
Definition rk_new_rev (x : list N) : rkfinder := rk_new (rev x).

Section RK.
Variables (f : rkfinder) (x h : list N).
Let nlen := length x.
Let hlen := length h.

(* Hash::forward(start, end): byte loads ascending *)
Fixpoint hash_fwd (off n : nat) (acc : N) : M N :=
  match n with
  | 0 => ret acc
  | S n' => v <- load RHay h off 1 false;; hash_fwd (S off) n' (h_add acc (hd 0%N v))
  end.

(* Hash::reverse(start, end): byte loads descending from end - 1 *)
Fixpoint hash_rev (start n : nat) (acc : N) : M N :=
  match n with
  | 0 => ret acc
  | S n' => v <- load RHay h (start + n') 1 false;; hash_rev start n' (h_add acc (hd 0%N v))
  end.

(* self.hash == hash && is_equal_raw(cur, nstart, nlen) *)
Definition rk_test (cur : nat) (hash : N) : M bool :=
  if (rk_hash f =? hash)%N then is_equal_raw RHay RNeedle h x cur 0 nlen else ret false.

Fixpoint rk_fwd_loop (fuel end_ cur : nat) (hash : N) : M (option nat) :=
  match fuel with
  | 0 => fail OutOfFuel
  | S fu =>
      eq <- rk_test cur hash;;
      if eq then ret (Some cur)
      else if end_ <=? cur then ret None
      else
        o <- load RHay h cur 1 false;;
        n <- load RHay h (cur + nlen) 1 false;;
        rk_fwd_loop fu end_ (cur + 1) (h_roll hash (rk_2pow f) (hd 0%N o) (hd 0%N n))
  end.

Definition rk_find : M (option nat) :=
  if hlen <? nlen then ret None
  else
    end_ <- lift (psub hlen nlen);;
    hash <- hash_fwd 0 nlen 0%N;;
    rk_fwd_loop (S hlen) end_ 0 hash.

Fixpoint rk_rev_loop (fuel cur : nat) (hash : N) : M (option nat) :=
  match fuel with
  | 0 => fail OutOfFuel
  | S fu =>
      eq <- rk_test cur hash;;
      if eq then ret (Some cur)
      else if cur <=? 0 then ret None
      else
        cur' <- lift (psub cur 1);;
        o <- load RHay h (cur' + nlen) 1 false;;
        n <- load RHay h cur' 1 false;;
        rk_rev_loop fu cur' (h_roll hash (rk_2pow f) (hd 0%N o) (hd 0%N n))
  end.

Definition rk_rfind : M (option nat) :=
  if hlen <? nlen then ret None
  else
    cur <- lift (psub hlen nlen);;
    hash <- hash_rev cur nlen 0%N;;
    rk_rev_loop (S hlen) cur hash.

End RK.

(* is_fast(haystack, needle) = haystack.len() < 16 *)
Definition rk_is_fast (h : list N) : bool := (N.of_nat (length h) <? rk_fast_below)%N.
