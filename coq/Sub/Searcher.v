(* Model of src/memmem/searcher.rs (Searcher, SearcherRev, Prefilter) and of the
   Finder / FinderRev / FinderBuilder / find / rfind layer of src/memmem/mod.rs. *)
From Memchr Require Export Sub.Pair Sub.RabinKarp Sub.PackedPair Sub.TwoWay.
From Memchr Require Import Params.

(* which architecture-specific code is compiled in / selected at run time *)
Inductive arch := AX86 (c : cpu) | AAarch64 | AWasm | AOther.

Definition arch_memchr (ar : arch) : backend :=
  match ar with AX86 c => x86_choice c | AAarch64 => BNeon | AWasm => BSimd128 | AOther => BSwar end.

Inductive pconfig := PNone | PAuto.

(* ---- Prefilter ---- *)
Inductive pkind := PkVec (w : ppwrap) | PkFallback (f : portfinder).
Record prefilter := { pk : pkind; pre_rarest_byte : N; pre_rarest_offset : nat }.

(* strategy labels recorded by the hooks *)
Definition L_EMPTY := 0.  Definition L_ONEBYTE := 1.
Definition L_PACKED_AVX2 := 2.  Definition L_PACKED_SSE2 := 3.
Definition L_TWOWAY := 4.  Definition L_TWOWAY_PRE := 5.
Definition L_PACKED_NEON := 8.  Definition L_PACKED_SIMD128 := 9.
Definition L_PRE_AVX2 := 10.  Definition L_PRE_SSE2 := 11.  Definition L_PRE_FALLBACK := 12.
Definition L_PRE_FALLBACK_NONE := 13.  Definition L_PRE_NEON := 14.  Definition L_PRE_SIMD128 := 15.
Definition L_INERT := 20.

Definition label (l : nat) : M unit := emit (Label l).

Section Prefilter.
Variable ar : arch.

(* Prefilter::find_simple: all::memchr::One::new(rarest_byte).find(h).map(|i| i.saturating_sub(rarest_offset)) *)
Definition find_simple (p : prefilter) (a : nat) (h : list N) : M (option nat) :=
  r <- swar_find usize_bytes swar_loop_words true [pre_rarest_byte p] a h;;
  ret (option_map (fun i => i - pre_rarest_offset p) r).

Definition prefilter_find (p : prefilter) : prefn := fun a h =>
  match pk p with
  | PkVec w =>
      if length h <? pw_min w then find_simple p a h else pw_find_prefilter w h
  | PkFallback f => pf_find_prefilter (arch_memchr ar) f a h
  end.

End Prefilter.

(* ---- Searcher ---- *)
Inductive strategy :=
| SEmpty
| SOneByte (b : N)
| SPacked (w : ppwrap)
| STwoWay (tw : twoway)
| STwoWayPre (tw : twoway) (p : prefilter).

Record searcher := { s_strat : strategy; s_rk : rkfinder }.

Definition do_packed_search (x : list N) : bool :=
  ((packed_min_len <=? N.of_nat (length x)) && (N.of_nat (length x) <=? packed_max_len))%N.

Section New.
Variables (cfg : pconfig) (rank : N -> N) (ar : arch) (x : list N).

Definition searcher_twoway (rk : rkfinder) (ps : option prefilter) : M searcher :=
  tw <- tw_new x;;
  match ps with
  | None => label L_TWOWAY;;; ret {| s_strat := STwoWay tw; s_rk := rk |}
  | Some p => label L_TWOWAY_PRE;;; ret {| s_strat := STwoWayPre tw p; s_rk := rk |}
  end.

(* Prefilter::{avx2,sse2,neon,simd128}(finder, needle) *)
Definition prefilter_vec (lbl : nat) (w : ppwrap) : M prefilter :=
  label lbl;;;
  let off := pp_i1 (pw_big w) in
  b <- lift (idx x off);;
  ret {| pk := PkVec w; pre_rarest_byte := b; pre_rarest_offset := off |}.

(* Prefilter::fallback(ranker, pair, needle) *)
Definition prefilter_fallback (i1 i2 : nat) : M (option prefilter) :=
  b <- lift (idx x i1);;
  if (max_fallback_rank <? rank b)%N then label L_PRE_FALLBACK_NONE;;; ret None
  else
    f <- lift (pf_new x i1 i2);;
    label L_PRE_FALLBACK;;;
    ret (Some {| pk := PkFallback f; pre_rarest_byte := b; pre_rarest_offset := i1 |}).

(* the part shared by the vector architectures: `if let Some(pp) = isa::Finder::with_pair(needle, pair)` *)
Definition with_vec (rk : rkfinder) (isa : ppisa) (lpacked lpre : nat) (i1 i2 : nat) : M searcher :=
  w <- lift (pw_new isa x i1 i2);;
  if do_packed_search x then
    label lpacked;;; ret {| s_strat := SPacked w; s_rk := rk |}
  else match cfg with
       | PNone => searcher_twoway rk None
       | PAuto => p <- prefilter_vec lpre w;; searcher_twoway rk (Some p)
       end.

Definition with_fallback (rk : rkfinder) (i1 i2 : nat) : M searcher :=
  match cfg with
  | PNone => searcher_twoway rk None
  | PAuto => p <- prefilter_fallback i1 i2;; searcher_twoway rk p
  end.

Definition searcher_new : M searcher :=
  let rk := rk_new x in
  if length x <=? 1 then
    match x with
    | [] => label L_EMPTY;;; ret {| s_strat := SEmpty; s_rk := rk |}
    | b :: _ => label L_ONEBYTE;;; ret {| s_strat := SOneByte b; s_rk := rk |}
    end
  else
    pr <- pair_with_ranker rank x;;
    match pr with
    | None => searcher_twoway rk None
    | Some (i1, i2) =>
        guard 80 (negb (i1 =? i2));;;
        match ar with
        | AX86 HasAvx2 => with_vec rk PAvx2 L_PACKED_AVX2 L_PRE_AVX2 i1 i2
        | AX86 Sse2Only => with_vec rk PSse2 L_PACKED_SSE2 L_PRE_SSE2 i1 i2
        | AX86 NoSimd => with_fallback rk i1 i2
        | AAarch64 => with_vec rk PNeon L_PACKED_NEON L_PRE_NEON i1 i2
        | AWasm => with_vec rk PSimd128 L_PACKED_SIMD128 L_PRE_SIMD128 i1 i2
        | AOther => with_fallback rk i1 i2
        end
    end.

End New.

Section Find.
Variables (ar : arch) (s : searcher).

(* Searcher::find(prestate, haystack, needle) *)
Definition searcher_find (st : prestate) (a : nat) (h x : list N) : M (option nat * prestate) :=
  if length h <? length x then ret (None, st)
  else
    match s_strat s with
    | SEmpty => ret (Some 0, st)
    | SOneByte b => r <- backend_find [b] a h (arch_memchr ar);; ret (r, st)
    | STwoWay tw =>
        if rk_is_fast h then r <- rk_find (s_rk s) x h;; ret (r, st)
        else tw_find tw None a h x st
    | STwoWayPre tw p =>
        if rk_is_fast h then r <- rk_find (s_rk s) x h;; ret (r, st)
        else tw_find tw (Some (prefilter_find ar p)) a h x st
    | SPacked w =>
        if length h <? pw_min w then r <- rk_find (s_rk s) x h;; ret (r, st)
        else r <- pw_find w h x;; ret (r, st)
    end.

End Find.

(* ---- SearcherRev ---- *)
Inductive rstrategy := REmpty | ROneByte (b : N) | RTwoWay (tw : twoway).
Record rsearcher := { r_strat : rstrategy; r_rk : rkfinder }.

Definition rsearcher_new (x : list N) : M rsearcher :=
  k <- (if length x <=? 1 then
          match x with
          | [] => ret REmpty
          | b :: _ => ret (ROneByte b)
          end
        else tw <- tw_new_rev x;; ret (RTwoWay tw));;
  ret {| r_strat := k; r_rk := rk_new_rev x |}.

Definition rsearcher_rfind (ar : arch) (s : rsearcher) (a : nat) (h x : list N) : M (option nat) :=
  if length h <? length x then ret None
  else
    match r_strat s with
    | REmpty => ret (Some (length h))
    | ROneByte b => backend_rfind [b] a h (arch_memchr ar)
    | RTwoWay tw =>
        if rk_is_fast h then rk_rfind (r_rk s) x h
        else tw_rfind tw h x
    end.

(* ---- Finder / FinderRev / one-shot functions ---- *)
Record finder := { f_needle : list N; f_searcher : searcher }.
Record rfinder := { rf_needle : list N; rf_searcher : rsearcher }.

Definition finder_new (cfg : pconfig) (rank : N -> N) (ar : arch) (x : list N) : M finder :=
  s <- searcher_new cfg rank ar x;; ret {| f_needle := x; f_searcher := s |}.

Definition rfinder_new (x : list N) : M rfinder :=
  s <- rsearcher_new x;; ret {| rf_needle := x; rf_searcher := s |}.

(* Finder::find: a fresh PrefilterState per call *)
Definition finder_find (ar : arch) (f : finder) (a : nat) (h : list N) : M (option nat) :=
  r <- searcher_find ar (f_searcher f) prestate_new a h (f_needle f);; ret (fst r).

Definition rfinder_rfind (ar : arch) (f : rfinder) (a : nat) (h : list N) : M (option nat) :=
  rsearcher_rfind ar (rf_searcher f) a h (rf_needle f).

(* memmem::find / memmem::rfind *)
Definition memmem_find (ar : arch) (a : nat) (h x : list N) : M (option nat) :=
  if (N.of_nat (length h) <? oneshot_rk_below_fwd)%N then rk_find (rk_new x) x h
  else f <- finder_new PAuto default_rank ar x;; finder_find ar f a h.

Definition memmem_rfind (ar : arch) (a : nat) (h x : list N) : M (option nat) :=
  if (N.of_nat (length h) <? oneshot_rk_below_rev)%N then rk_rfind (rk_new_rev x) x h
  else f <- rfinder_new x;; rfinder_rfind ar f a h.
