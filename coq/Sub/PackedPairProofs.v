(* Proofs about Sub/PackedPair.v: the generic packed-pair finder (find and
   find_prefilter), its documented panic, its memory safety for a foreign
   needle argument, and the per-ISA wrappers. *)
From Memchr Require Import Spec SpecProofs Params Vec.MaskRep Vec.MaskLaws
  Sub.IsEqual Sub.IsEqualProofs Sub.PackedPair
  Mem.BytewiseProofs Mem.GenericProofs Mem.WrappersProofs.

(* ------------------------------------------------------------------ *)
(* list facts *)
Lemma list_eqb_sym x y : list_eqb x y = list_eqb y x.
Proof.
  revert y; induction x as [|a x IH]; intros [|b y]; cbn; try reflexivity.
  rewrite N.eqb_sym, IH. reflexivity.
Qed.

Lemma nth_map2_andb l1 l2 j :
  length l1 = length l2 -> nth j (map2 andb l1 l2) false = nth j l1 false && nth j l2 false.
Proof.
  revert l2 j; induction l1 as [|a l1 IH]; intros [|b l2] j H; cbn in *; try discriminate.
  - destruct j; reflexivity.
  - destruct j; [reflexivity|]. apply IH. lia.
Qed.

Lemma nth_map_eqb (b : N) l j :
  j < length l -> nth j (map (N.eqb b) l) false = N.eqb b (nth j l 0%N).
Proof.
  intros H. rewrite (nth_indep _ false (N.eqb b 0%N)) by (rewrite map_length; exact H).
  apply map_nth.
Qed.

Lemma fi_idb_some l i :
  first_idx idb l = Some i ->
  i < length l /\ nth i l false = true /\ forall j, j < i -> nth j l false = false.
Proof. intros H. apply (first_idx_some idb l i false) in H. exact H. Qed.

Lemma fi_idb_none l : first_idx idb l = None -> forall j, nth j l false = false.
Proof.
  intros H j. apply first_idx_none in H. destruct (Nat.lt_ge_cases j (length l)) as [Hj|Hj].
  - rewrite Forall_forall in H. apply (H (nth j l false)). apply nth_In. exact Hj.
  - apply nth_overflow. exact Hj.
Qed.

Lemma nth_clear_first l : forall i j,
  first_idx idb l = Some i ->
  nth j (clear_first l) false = if j =? i then false else nth j l false.
Proof.
  induction l as [|b t IH]; intros i j H; [discriminate|].
  destruct b; cbn [first_idx idb] in H.
  - injection H as <-. cbn [clear_first]. destruct j; reflexivity.
  - destruct (first_idx idb t) as [k|] eqn:E; cbn [option_map] in H; [|discriminate].
    injection H as <-. cbn [clear_first]. destruct j; [reflexivity|].
    cbn [nth Nat.eqb]. apply IH. reflexivity.
Qed.

Lemma count_clear_first l : forall i,
  first_idx idb l = Some i -> count_p idb l = S (count_p idb (clear_first l)).
Proof.
  induction l as [|b t IH]; intros i H; [discriminate|].
  destruct b; cbn [first_idx idb] in H.
  - cbn [clear_first count_p idb]. lia.
  - destruct (first_idx idb t) as [k|] eqn:E; cbn [option_map] in H; [|discriminate].
    cbn [clear_first count_p idb]. rewrite (IH k eq_refl). lia.
Qed.

(* ------------------------------------------------------------------ *)
(* monad facts *)
Lemma satq_tick (Q : event -> Prop) k : Q (Tick k) -> satq Q (tick k) (fun _ => True).
Proof. intros H. apply satq_emit; [exact H|exact I]. Qed.

(* satp Q E m P: every event of the trace satisfies Q; a normal result
   satisfies P and a panic satisfies E. *)
Definition satp {A} (Q : event -> Prop) (E : panic -> Prop) (m : M A) (P : A -> Prop) : Prop :=
  Forall Q (snd m) /\ match fst m with Ok v => P v | Panic p => E p end.

Lemma satp_of_satq {A} Q E (m : M A) P : satq Q m P -> satp Q E m P.
Proof. intros (v & Hv & HP & HQ). split; [exact HQ|]. rewrite Hv. exact HP. Qed.

Lemma satq_of_satp {A} Q E (m : M A) P : satp Q E m P -> (forall p, E p -> False) -> satq Q m P.
Proof.
  intros [HQ HP] HE. destruct (fst m) as [v|p] eqn:Em.
  - exists v. split; [exact Em|]. split; assumption.
  - exfalso. exact (HE p HP).
Qed.

Lemma satp_bind {A C} Q E (m : M A) (K : A -> M C) (P1 : A -> Prop) (P2 : C -> Prop) :
  satp Q E m P1 -> (forall v, P1 v -> satp Q E (K v) P2) -> satp Q E (bind m K) P2.
Proof.
  intros [HQ HP] HK. unfold satp, bind. destruct (fst m) as [v|p] eqn:Em.
  - destruct (HK v HP) as [HQ2 HP2]. cbn [fst snd]. split; [|exact HP2].
    apply Forall_app. split; assumption.
  - cbn [fst snd]. split; assumption.
Qed.

Lemma satp_bind_fail {A C} Q (E : panic -> Prop) p (K : A -> M C) (P : C -> Prop) :
  E p -> satp Q E (bind (fail p) K) P.
Proof. intros H. split; [constructor|exact H]. Qed.

(* ------------------------------------------------------------------ *)
(* the needle comparison of find_in_chunk *)
Lemma pp_is_equal_sat a an (x' h : list N) o :
  o + length x' <= length h ->
  satq (load_ok a (length h) an (length x'))
       (is_equal_raw RNeedle RHay x' h 0 o (length x')) (fun b => b = occurs_at x' h o).
Proof.
  intros H. unfold satq. eapply sat_weaken. { apply is_equal_raw_sat; [lia|exact H]. }
  cbn beta. intros b t [-> Ht]. split.
  - unfold occurs_at. apply Nat.leb_le in H. rewrite H. cbn [andb]. rewrite slice_all.
    apply list_eqb_sym.
  - eapply Forall_impl; [|exact Ht]. intros e He. destruct e as [r off w al| | |]; cbn in He; try contradiction.
    destruct He as [-> [(-> & _ & Hu)|(-> & Hl & Hu)]]; cbn; (split; [lia|discriminate]).
Qed.

(* unfolding equations (the definitions carry a let-bound haystack length) *)
Lemma confirm_loop_S Rr hh xx fu cur offsets :
  confirm_loop Rr hh xx (S fu) cur offsets =
  (if m_has_nz Rr offsets then
     tick 6;;;
     stop <- (if pp_confirm_guard_checked
              then ret (length hh - (cur + m_first Rr offsets) <? length xx)
              else lim <- lift (psub (length hh) (length xx));;
                   ret (lim <? cur + m_first Rr offsets));;
     if (stop : bool) then ret None
     else
       eq <- is_equal_raw RNeedle RHay xx hh 0 (cur + m_first Rr offsets) (length xx);;
       if eq then ret (Some (m_first Rr offsets))
       else
         offsets' <- lift (m_clear_lsb Rr offsets);;
         confirm_loop Rr hh xx fu cur offsets'
   else ret None).
Proof. reflexivity. Qed.

Lemma find_loop_S Rr Bb ff hh xx fu max cur all :
  find_loop Rr Bb ff hh xx (S fu) max cur all =
  (if cur <=? max then
     r <- find_in_chunk Rr Bb ff hh xx cur all;;
     match r with
     | Some c => ret (Ret (Some (cur + c)))
     | None => find_loop Rr Bb ff hh xx fu max (cur + Bb) all
     end
   else ret (Go cur)).
Proof. reflexivity. Qed.

Lemma pre_loop_S Rr Bb ff hh fu max cur :
  pre_loop Rr Bb ff hh (S fu) max cur =
  (if cur <=? max then
     r <- prefilter_in_chunk Rr Bb ff hh cur;;
     match r with
     | Some c => ret (Ret (Some (cur + c)))
     | None => pre_loop Rr Bb ff hh fu max (cur + Bb)
     end
   else ret (Go cur)).
Proof. reflexivity. Qed.

(* what the constructor establishes *)
Lemma pp_new_inv Bb x i1 i2 f :
  pp_new Bb x i1 i2 = Ok f ->
  pp_i1 f = i1 /\ pp_i2 f = i2 /\ i1 < length x /\ i2 < length x /\
  pp_b1 f = nth i1 x 0%N /\ pp_b2 f = nth i2 x 0%N /\
  pp_min f = Nat.max (length x) (Nat.max i1 i2 + Bb).
Proof.
  unfold pp_new, idx.
  destruct (nth_error x i1) as [b1|] eqn:E1; [|discriminate].
  destruct (nth_error x i2) as [b2|] eqn:E2; [|discriminate].
  intros [= <-]. cbn [pp_i1 pp_i2 pp_b1 pp_b2 pp_min].
  assert (i1 < length x) by (apply nth_error_Some; congruence).
  assert (i2 < length x) by (apply nth_error_Some; congruence).
  repeat split; try assumption; symmetry; apply nth_error_nth; assumption.
Qed.

(* ================================================================== *)
Section PP.
Variables (R : MaskRep) (B : nat).
Hypothesis HL : MaskLaws R B.
Hypothesis HB : 0 < B.

(* both pair bytes are present at candidate c *)
Definition pair_at (f : ppfinder) (h : list N) (c : nat) : Prop :=
  nth_error h (c + pp_i1 f) = Some (pp_b1 f) /\ nth_error h (c + pp_i2 f) = Some (pp_b2 f).

(* ---------------- chunk and loop level ---------------- *)
Section Chunk.
Variables (f : ppfinder) (h : list N) (a an : nat).
Hypothesis Hi1 : pp_i1 f + B <= pp_min f.
Hypothesis Hi2 : pp_i2 f + B <= pp_min f.
Hypothesis Hmin : pp_min f <= length h.
Notation len := (length h).
Notation mx := (length h - pp_min f).

(* the pair bytes match at position i (boolean, total) *)
Definition pairb (i : nat) : bool :=
  N.eqb (pp_b1 f) (nth (i + pp_i1 f) h 0%N) && N.eqb (pp_b2 f) (nth (i + pp_i2 f) h 0%N).

Definition lanes (cur : nat) : list bool :=
  map2 andb (map (N.eqb (pp_b1 f)) (slice h (cur + pp_i1 f) B))
            (map (N.eqb (pp_b2 f)) (slice h (cur + pp_i2 f) B)).

Lemma lanes_length cur : cur <= mx -> length (lanes cur) = B.
Proof.
  intros H. unfold lanes. rewrite map2_length; rewrite ?map_length, ?slice_length by lia; lia.
Qed.

Lemma lanes_nth cur j : cur <= mx -> j < B -> nth j (lanes cur) false = pairb (cur + j).
Proof.
  intros H Hj. unfold lanes, pairb.
  rewrite nth_map2_andb by (rewrite !map_length, !slice_length by lia; reflexivity).
  rewrite !nth_map_eqb by (rewrite slice_length by lia; exact Hj).
  rewrite !nth_slice by exact Hj.
  replace (cur + pp_i1 f + j) with (cur + j + pp_i1 f) by lia.
  replace (cur + pp_i2 f + j) with (cur + j + pp_i2 f) by lia. reflexivity.
Qed.

Lemma pair_mask_sat ln cur :
  cur <= mx ->
  satq (load_ok a len an ln) (pair_mask R B f h cur) (fun m => m = mm R (lanes cur)).
Proof.
  intros H. unfold pair_mask.
  eapply satq_bind. { apply satq_load_eq; [lia|]. cbn. split; [lia|discriminate]. }
  intros c1 ->.
  eapply satq_bind. { apply satq_load_eq; [lia|]. cbn. split; [lia|discriminate]. }
  intros c2 ->. apply satq_ret. reflexivity.
Qed.

(* ---- prefilter ---- *)
Definition npb (c : nat) : Prop := forall i, i < c -> pairb i = false.

Lemma prefilter_in_chunk_sat ln cur :
  cur <= mx ->
  satq (load_ok a len an ln) (prefilter_in_chunk R B f h cur) (fun r => r = first_idx idb (lanes cur)).
Proof.
  intros H. unfold prefilter_in_chunk.
  eapply satq_bind. { apply satq_tick. exact I. } intros ? _.
  eapply satq_bind. { apply pair_mask_sat. exact H. } intros m ->.
  rewrite (law_nz R B HL) by (apply lanes_length; exact H).
  destruct (existsb idb (lanes cur)) eqn:E.
  - destruct (existsb_true_first_idx _ _ E) as [i Hi].
    apply satq_ret. rewrite Hi. f_equal. apply (law_first R B HL); [apply lanes_length; exact H|exact Hi].
  - apply existsb_false_first_idx in E. apply satq_ret. rewrite E. reflexivity.
Qed.

Lemma pre_loop_sat ln fuel : forall cur,
  mx + 1 - cur < fuel -> cur <= mx + B -> npb cur ->
  satq (load_ok a len an ln) (pre_loop R B f h fuel mx cur)
       (fun c => match c with
                 | Ret r => exists p, r = Some p /\ p < mx + B /\ pairb p = true /\ npb p
                 | Go cur' => mx < cur' /\ cur' <= mx + B /\ npb cur'
                 end).
Proof.
  induction fuel as [|fu IH]; intros cur Hf Hcur Hno; [lia|]. rewrite pre_loop_S.
  destruct (Nat.leb_spec cur mx) as [Hle|Hgt].
  - eapply satq_bind. { apply prefilter_in_chunk_sat. exact Hle. }
    intros r ->. destruct (first_idx idb (lanes cur)) as [c|] eqn:Ec.
    + destruct (fi_idb_some _ _ Ec) as (Hc & Ht & Hlt). rewrite lanes_length in Hc by exact Hle.
      rewrite lanes_nth in Ht by assumption.
      apply satq_ret. exists (cur + c). split; [reflexivity|]. split; [lia|]. split; [exact Ht|].
      intros i Hi. destruct (Nat.lt_ge_cases i cur) as [Hic|Hic]; [apply Hno; exact Hic|].
      replace i with (cur + (i - cur)) by lia. rewrite <- lanes_nth by lia. apply Hlt. lia.
    + eapply satq_weaken.
      { apply IH; [lia|lia|]. intros i Hi.
        destruct (Nat.lt_ge_cases i cur) as [Hic|Hic]; [apply Hno; exact Hic|].
        replace i with (cur + (i - cur)) by lia. rewrite <- lanes_nth by lia.
        apply fi_idb_none. exact Ec. }
      intros c Hc. exact Hc.
  - apply satq_ret. repeat split; try assumption.
Qed.

Lemma pp_prefilter_gen ln :
  satq (load_ok a len an ln) (pp_find_prefilter R B f h)
       (fun r => match r with
                 | Some c => c < mx + B /\ pairb c = true /\ npb c
                 | None => npb (mx + B)
                 end).
Proof.
  unfold pp_find_prefilter. cbv zeta.
  assert (pp_min f <=? len = true) as -> by (apply Nat.leb_le; exact Hmin).
  rewrite bind_guard_true. rewrite psub_ok by exact Hmin. rewrite bind_lift_ok. cbv beta.
  eapply satq_bind. { apply (pre_loop_sat ln (S len) 0); [lia|lia|]. intros i Hi. lia. }
  intros [r|cur].
  - intros (p & -> & Hp & Ht & Hno). apply satq_ret. repeat split; assumption.
  - intros (H1 & H2 & Hno). destruct (Nat.ltb_spec cur len) as [Hlt|Hge].
    + eapply satq_bind. { apply prefilter_in_chunk_sat. apply le_n. }
      intros r ->. destruct (first_idx idb (lanes mx)) as [c|] eqn:Ec.
      * destruct (fi_idb_some _ _ Ec) as (Hc & Ht & Hlt'). rewrite lanes_length in Hc by apply le_n.
        rewrite lanes_nth in Ht by (try apply le_n; assumption).
        apply satq_ret. split; [lia|]. split; [exact Ht|].
        intros i Hi. destruct (Nat.lt_ge_cases i mx) as [Hic|Hic]; [apply Hno; lia|].
        replace i with (mx + (i - mx)) by lia. rewrite <- lanes_nth by (try apply le_n; lia).
        apply Hlt'. lia.
      * apply satq_ret. intros i Hi.
        destruct (Nat.lt_ge_cases i mx) as [Hic|Hic]; [apply Hno; lia|].
        replace i with (mx + (i - mx)) by lia. rewrite <- lanes_nth by (try apply le_n; lia).
        apply fi_idb_none. exact Ec.
    + apply satq_ret. intros i Hi. apply Hno. lia.
Qed.

(* ---- find, for an arbitrary needle argument x' ---- *)
Variable x' : list N.
(* either the guard of find_in_chunk is the checked one or x' fits the haystack *)
Hypothesis G : pp_confirm_guard_checked = true \/ length x' <= length h.
Notation okx := (load_ok a (length h) an (length x')).

Lemma stop_sat cur off :
  cur + off < len ->
  satq okx (if pp_confirm_guard_checked
            then ret (len - (cur + off) <? length x')
            else lim <- lift (psub len (length x'));; ret (lim <? cur + off))
       (fun stop : bool => if stop then len < cur + off + length x' else cur + off + length x' <= len).
Proof.
  intros H. destruct pp_confirm_guard_checked eqn:E.
  - apply satq_ret. destruct (Nat.ltb_spec (len - (cur + off)) (length x')); lia.
  - destruct G as [G'|G']; [congruence|].
    eapply satq_bind. { apply satq_lift_eq. apply psub_ok. exact G'. }
    intros lim ->. apply satq_ret. destruct (Nat.ltb_spec (len - length x') (cur + off)); lia.
Qed.

Lemma confirm_loop_sat fuel : forall cur l,
  length l = B -> count_p idb l < fuel -> cur + B <= len ->
  satq okx (confirm_loop R h x' fuel cur (mm R l))
       (fun r => r = first_idx (fun j => nth j l false && occurs_at x' h (cur + j)) (seq 0 B)).
Proof.
  induction fuel as [|fu IH]; intros cur l Hl Hc Hcur; [lia|].
  rewrite confirm_loop_S. rewrite (law_nz R B HL) by exact Hl.
  destruct (existsb idb l) eqn:E.
  - destruct (existsb_true_first_idx _ _ E) as [i Hi].
    rewrite (law_first R B HL l i Hl Hi).
    destruct (fi_idb_some _ _ Hi) as (Hib & Hit & Hlt). rewrite Hl in Hib.
    eapply satq_bind. { apply satq_tick. exact I. } intros ? _.
    eapply satq_bind. { apply (stop_sat cur i). lia. } intros stop Hstop.
    destruct stop.
    + apply satq_ret. symmetry. apply first_idx_seq0_none. intros j Hj.
      destruct (Nat.lt_ge_cases j i) as [Hji|Hji].
      * rewrite Hlt by exact Hji. reflexivity.
      * destruct (occurs_at x' h (cur + j)) eqn:Eo; [|apply andb_false_r].
        apply occurs_at_bound in Eo. lia.
    + eapply satq_bind. { apply pp_is_equal_sat. lia. } intros eq ->.
      destruct (occurs_at x' h (cur + i)) eqn:Eo.
      * apply satq_ret. symmetry. apply first_idx_seq0. split; [exact Hib|].
        split; [rewrite Hit, Eo; reflexivity|]. intros j Hj. rewrite Hlt by exact Hj. reflexivity.
      * eapply satq_bind. { apply satq_lift_eq. apply (law_clear R B HL l i Hl Hi). } intros o ->.
        eapply satq_weaken.
        { apply IH; [rewrite clear_first_length; exact Hl| |exact Hcur].
          rewrite (count_clear_first l i Hi) in Hc. lia. }
        intros r ->. apply first_idx_ext. intros j. rewrite (nth_clear_first l i j Hi).
        destruct (Nat.eqb_spec j i) as [->|Hne]; [rewrite Eo, !andb_false_r; reflexivity|reflexivity].
  - apply satq_ret. symmetry. apply first_idx_seq0_none. intros j _.
    apply existsb_false_first_idx in E. rewrite (fi_idb_none _ E). reflexivity.
Qed.

Lemma find_in_chunk_sat cur mask l' :
  cur <= mx -> m_and R (mm R (lanes cur)) mask = mm R l' -> length l' = B ->
  satq okx (find_in_chunk R B f h x' cur mask)
       (fun r => r = first_idx (fun j => nth j l' false && occurs_at x' h (cur + j)) (seq 0 B)).
Proof.
  intros H Hand Hl'. unfold find_in_chunk.
  eapply satq_bind. { apply satq_tick. exact I. } intros ? _.
  eapply satq_bind. { apply pair_mask_sat. exact H. } intros m ->. rewrite Hand.
  apply confirm_loop_sat; [exact Hl'| |lia].
  pose proof (count_p_le idb l'). lia.
Qed.

(* candidate positions that are real occurrences of x' *)
Definition occ' (i : nat) : bool := pairb i && occurs_at x' h i.
Definition no (c : nat) : Prop := forall i, i < c -> occ' i = false.

Lemma find_loop_sat k (Hk : m_all_except_low R 0 = Ok k) fuel : forall cur,
  mx + 1 - cur < fuel -> cur <= mx + B -> no cur ->
  satq okx (find_loop R B f h x' fuel mx cur k)
       (fun c => match c with
                 | Ret r => exists p, r = Some p /\ occ' p = true /\ no p
                 | Go cur' => mx < cur' /\ cur' <= mx + B /\ no cur'
                 end).
Proof.
  induction fuel as [|fu IH]; intros cur Hf Hcur Hno; [lia|]. rewrite find_loop_S.
  destruct (Nat.leb_spec cur mx) as [Hle|Hgt].
  - destruct (law_except0 R B HL (lanes cur) (lanes_length cur Hle) HB) as (k' & Hk' & Hand).
    rewrite Hk in Hk'. injection Hk' as <-.
    eapply satq_bind. { apply (find_in_chunk_sat cur k (lanes cur) Hle Hand (lanes_length cur Hle)). }
    intros r ->.
    destruct (first_idx (fun j => nth j (lanes cur) false && occurs_at x' h (cur + j)) (seq 0 B)) as [c|] eqn:Ec.
    + apply first_idx_seq0 in Ec. destruct Ec as (Hc & Ht & Hlt). rewrite lanes_nth in Ht by assumption.
      apply satq_ret. exists (cur + c). split; [reflexivity|]. split; [exact Ht|].
      intros i Hi. destruct (Nat.lt_ge_cases i cur) as [Hic|Hic]; [apply Hno; exact Hic|].
      specialize (Hlt (i - cur) ltac:(lia)). rewrite lanes_nth in Hlt by lia.
      replace (cur + (i - cur)) with i in Hlt by lia. exact Hlt.
    + rewrite first_idx_seq0_none in Ec. eapply satq_weaken.
      { apply IH; [lia|lia|]. intros i Hi.
        destruct (Nat.lt_ge_cases i cur) as [Hic|Hic]; [apply Hno; exact Hic|].
        specialize (Ec (i - cur) ltac:(lia)). rewrite lanes_nth in Ec by lia.
        replace (cur + (i - cur)) with i in Ec by lia. exact Ec. }
      intros c Hc. exact Hc.
  - apply satq_ret. repeat split; try assumption.
Qed.

(* The whole of find for an arbitrary needle argument: every load is in
   bounds; the only possible panic is debug assertion 65 (overlap < BYTES),
   and only for a needle argument at least B bytes shorter than pp_min. *)
Lemma pp_find_any :
  satp okx (fun p => p = AssertFail 65 /\ length x' + B <= pp_min f) (pp_find R B f h x')
       (fun r => match r with
                 | Some c => occ' c = true /\ no c
                 | None => no (mx + B)
                 end).
Proof.
  unfold pp_find. cbv zeta.
  assert (pp_min f <=? len = true) as -> by (apply Nat.leb_le; exact Hmin).
  rewrite bind_guard_true.
  destruct (law_except0 R B HL (repeat false B) (repeat_length _ _) HB) as (k & Hk & _).
  rewrite Hk, bind_lift_ok. cbv beta. rewrite psub_ok by exact Hmin. rewrite bind_lift_ok. cbv beta.
  eapply satp_bind.
  { apply satp_of_satq. apply (find_loop_sat k Hk (S len) 0); [lia|lia|]. intros i Hi. lia. }
  intros [r|cur].
  - intros (p & -> & Hp & Hno). apply satp_of_satq, satq_ret. split; assumption.
  - intros (H1 & H2 & Hno).
    destruct (Nat.ltb_spec cur len) as [Hlt|Hge].
    + assert (len - cur <? pp_min f = true) as -> by (apply Nat.ltb_lt; lia).
      rewrite bind_guard_true.
      destruct (Nat.ltb_spec (len - cur) (length x')) as [Hr|Hr].
      * apply satp_of_satq, satq_ret. intros i Hi.
        destruct (Nat.lt_ge_cases i cur) as [Hic|Hic]; [apply Hno; exact Hic|].
        unfold occ'. destruct (occurs_at x' h i) eqn:Eo; [|apply andb_false_r].
        apply occurs_at_bound in Eo. lia.
      * assert (mx <? cur = true) as -> by (apply Nat.ltb_lt; lia).
        rewrite bind_guard_true.
        assert (0 <? cur - mx = true) as -> by (apply Nat.ltb_lt; lia).
        rewrite bind_guard_true.
        destruct (Nat.ltb_spec (cur - mx) B) as [Ho|Ho].
        -- rewrite bind_guard_true.
           destruct (law_except R B HL (lanes mx) (cur - mx) (lanes_length mx (le_n _)) Ho)
             as (k2 & l' & Hk2 & Hand & Hl' & Hge' & Hsub).
           rewrite Hk2, bind_lift_ok. cbv beta. apply satp_of_satq.
           eapply satq_bind. { apply (find_in_chunk_sat mx k2 l' (le_n _) Hand Hl'). }
           intros r ->.
           destruct (first_idx (fun j => nth j l' false && occurs_at x' h (mx + j)) (seq 0 B)) as [c|] eqn:Ec.
           ++ apply first_idx_seq0 in Ec. destruct Ec as (Hc & Ht & Hlt').
              apply andb_true_iff in Ht as [Ht1 Ht2]. apply Hsub in Ht1.
              rewrite lanes_nth in Ht1 by (try apply le_n; assumption).
              apply satq_ret. split. { unfold occ'. rewrite Ht1, Ht2. reflexivity. }
              intros i Hi. destruct (Nat.lt_ge_cases i cur) as [Hic|Hic]; [apply Hno; exact Hic|].
              specialize (Hlt' (i - mx) ltac:(lia)). rewrite Hge' in Hlt' by lia.
              rewrite lanes_nth in Hlt' by (try apply le_n; lia).
              replace (mx + (i - mx)) with i in Hlt' by lia. exact Hlt'.
           ++ rewrite first_idx_seq0_none in Ec. apply satq_ret.
              intros i Hi. destruct (Nat.lt_ge_cases i cur) as [Hic|Hic]; [apply Hno; exact Hic|].
              specialize (Ec (i - mx) ltac:(lia)). rewrite Hge' in Ec by lia.
              rewrite lanes_nth in Ec by (try apply le_n; lia).
              replace (mx + (i - mx)) with i in Ec by lia. exact Ec.
        -- apply satp_bind_fail. split; [reflexivity|lia].
    + apply satp_of_satq, satq_ret. intros i Hi. apply Hno. lia.
Qed.

Lemma pp_find_gen :
  pp_min f < length x' + B ->
  satq okx (pp_find R B f h x')
       (fun r => match r with
                 | Some c => occ' c = true /\ no c
                 | None => no (mx + B)
                 end).
Proof.
  intros Hlong. eapply satq_of_satp; [apply pp_find_any|].
  intros p [_ H]. lia.
Qed.

End Chunk.

(* ---------------- top level ---------------- *)
Lemma pp_new_facts x i1 i2 f :
  pp_new B x i1 i2 = Ok f ->
  pp_i1 f + B <= pp_min f /\ pp_i2 f + B <= pp_min f /\
  length x <= pp_min f /\ pp_min f < length x + B /\
  (forall h i, occurs_at x h i = true -> pairb f h i = true).
Proof.
  intros H. destruct (pp_new_inv _ _ _ _ _ H) as (E1 & E2 & L1 & L2 & B1 & B2 & Em).
  rewrite E1, E2, Em. repeat split; try lia.
  intros h i Ho. apply occurs_at_eq in Ho as [Hb Hs]. unfold pairb. rewrite E1, E2, B1, B2.
  assert (forall k, k < length x -> nth (i + k) h 0%N = nth k x 0%N) as Hk.
  { intros k Hk. rewrite <- (nth_slice h i (length x) k) by exact Hk. rewrite Hs. reflexivity. }
  rewrite !Hk by assumption. rewrite !N.eqb_refl. reflexivity.
Qed.

Lemma pairb_pair_at f h c :
  pp_i1 f + B <= pp_min f -> pp_i2 f + B <= pp_min f -> pp_min f <= length h ->
  c < length h - pp_min f + B -> pairb f h c = true -> pair_at f h c.
Proof.
  intros Hi1 Hi2 Hmin Hc Hp. unfold pairb in Hp. apply andb_true_iff in Hp as [H1 H2].
  apply N.eqb_eq in H1. apply N.eqb_eq in H2. unfold pair_at. split.
  - rewrite H1. apply nth_error_nth'. lia.
  - rewrite H2. apply nth_error_nth'. lia.
Qed.

(* 1. find with the construction needle is the leftmost occurrence *)
Theorem pp_find_correct : forall x i1 i2 f h a an,
  pp_new B x i1 i2 = Ok f -> pp_min f <= length h ->
  satq (load_ok a (length h) an (length x)) (pp_find R B f h x) (fun r => r = find_spec x h).
Proof.
  intros x i1 i2 f h a an Hn Hmin.
  destruct (pp_new_facts _ _ _ _ Hn) as (Hi1 & Hi2 & Hx & Hlong & Hocc).
  eapply satq_weaken. { apply (pp_find_gen f h a an Hi1 Hi2 Hmin x); [right; lia|exact Hlong]. }
  intros [c|] Hr.
  - destruct Hr as [Hc Hno]. symmetry. apply find_spec_some.
    unfold occ' in Hc. apply andb_true_iff in Hc as [_ Hc]. split; [exact Hc|].
    intros j Hj. specialize (Hno j Hj). unfold occ' in Hno.
    destruct (occurs_at x h j) eqn:Eo; [|reflexivity]. rewrite (Hocc h j Eo) in Hno. discriminate.
  - symmetry. apply find_spec_none. intros j. destruct (occurs_at x h j) eqn:Eo; [|reflexivity].
    pose proof (occurs_at_bound _ _ _ Eo). specialize (Hr j ltac:(lia)). unfold occ' in Hr.
    rewrite (Hocc h j Eo), Eo in Hr. discriminate.
Qed.

(* 2. the documented panic is exact *)
Theorem pp_find_panics : forall f h x',
  length h < pp_min f -> fst (pp_find R B f h x') = Panic (AssertFail 61).
Proof.
  intros f h x' H. unfold pp_find. cbv zeta.
  assert (pp_min f <=? length h = false) as -> by (apply Nat.leb_gt; exact H). reflexivity.
Qed.

Theorem pp_prefilter_panics : forall f h,
  length h < pp_min f -> fst (pp_find_prefilter R B f h) = Panic (AssertFail 60).
Proof.
  intros f h H. unfold pp_find_prefilter. cbv zeta.
  assert (pp_min f <=? length h = false) as -> by (apply Nat.leb_gt; exact H). reflexivity.
Qed.

(* 3. memory safety for an arbitrary argument needle.
   As stated in the task (satq, i.e. "never panics") this is FALSE: a needle
   argument with length x' + B <= pp_min f can reach debug assertion 65 (see
   pp_find_safe_counterexample below).  What holds: *)
Definition safe_or_assert65 {A} (Q : event -> Prop) (m : M A) : Prop :=
  Forall Q (snd m) /\ ((exists r, fst m = Ok r) \/ fst m = Panic (AssertFail 65)).

(* 3a. every load is in bounds, and the only possible panic is assertion 65 *)
Theorem pp_find_safe_any : pp_confirm_guard_checked = true ->
  forall x i1 i2 f h x' a an,
  pp_new B x i1 i2 = Ok f -> pp_min f <= length h ->
  safe_or_assert65 (load_ok a (length h) an (length x')) (pp_find R B f h x') /\
  (pp_min f < length x' + B -> exists r, fst (pp_find R B f h x') = Ok r).
Proof.
  intros Hg x i1 i2 f h x' a an Hn Hmin.
  destruct (pp_new_facts _ _ _ _ Hn) as (Hi1 & Hi2 & _).
  destruct (pp_find_any f h a an Hi1 Hi2 Hmin x' (or_introl Hg)) as [HQ HP].
  split; [split; [exact HQ|]|].
  - destruct (fst (pp_find R B f h x')) as [r|p]; [left; exists r; reflexivity|].
    right. destruct HP as [-> _]. reflexivity.
  - intros Hlong. destruct (fst (pp_find R B f h x')) as [r|p]; [exists r; reflexivity|].
    destruct HP as [_ HP]. lia.
Qed.

(* 3b. no panic at all when the argument needle is not too short (this covers
   every needle at least as long as the construction needle, in particular a
   needle longer than the haystack) *)
Theorem pp_find_safe : pp_confirm_guard_checked = true ->
  forall x i1 i2 f h x' a an,
  pp_new B x i1 i2 = Ok f -> pp_min f <= length h ->
  pp_min f < length x' + B ->
  satq (load_ok a (length h) an (length x')) (pp_find R B f h x') (fun _ => True).
Proof.
  intros Hg x i1 i2 f h x' a an Hn Hmin Hlong.
  destruct (pp_new_facts _ _ _ _ Hn) as (Hi1 & Hi2 & _).
  eapply satq_weaken. { apply (pp_find_gen f h a an Hi1 Hi2 Hmin x' (or_introl Hg) Hlong). }
  intros; exact I.
Qed.

Corollary pp_find_safe_ge : pp_confirm_guard_checked = true ->
  forall x i1 i2 f h x' a an,
  pp_new B x i1 i2 = Ok f -> pp_min f <= length h ->
  length x <= length x' ->
  satq (load_ok a (length h) an (length x')) (pp_find R B f h x') (fun _ => True).
Proof.
  intros Hg x i1 i2 f h x' a an Hn Hmin Hlen.
  destruct (pp_new_facts _ _ _ _ Hn) as (_ & _ & _ & Hlong & _).
  apply (pp_find_safe Hg x i1 i2 f h x' a an Hn Hmin). lia.
Qed.

(* 4. prefilter contract *)
Theorem pp_prefilter_correct : forall x i1 i2 f h a an,
  pp_new B x i1 i2 = Ok f -> pp_min f <= length h ->
  satq (load_ok a (length h) an (length x)) (pp_find_prefilter R B f h)
       (fun r => match r with
                 | Some c => pair_at f h c /\ (forall i, occurs_at x h i = true -> c <= i)
                 | None => forall i, occurs_at x h i = false
                 end).
Proof.
  intros x i1 i2 f h a an Hn Hmin.
  destruct (pp_new_facts _ _ _ _ Hn) as (Hi1 & Hi2 & Hx & Hlong & Hocc).
  eapply satq_weaken. { apply (pp_prefilter_gen f h a an Hi1 Hi2 Hmin (length x)). }
  intros [c|] Hr.
  - destruct Hr as (Hc & Ht & Hno). split; [apply pairb_pair_at; assumption|].
    intros i Hi. destruct (Nat.lt_ge_cases i c) as [Hic|Hic]; [|exact Hic].
    specialize (Hocc h i Hi). rewrite (Hno i Hic) in Hocc. discriminate.
  - intros i. destruct (occurs_at x h i) eqn:Eo; [|reflexivity].
    pose proof (occurs_at_bound _ _ _ Eo). specialize (Hocc h i Eo).
    rewrite (Hr i) in Hocc by lia. discriminate.
Qed.

End PP.

(* ================================================================== *)
(* per-ISA wrappers *)
Lemma isa_laws i : MaskLaws (isa_rep i) (isa_bytes i) /\ 0 < isa_bytes i.
Proof.
  destruct i; cbn [isa_rep isa_bytes].
  - exact sens_sse2.
  - exact sens_avx2.
  - exact (neon_ok []).
  - exact sens_simd128.
Qed.

Lemma sse2_le_avx2 : sse2_bytes <= avx2_bytes.
Proof. vm_compute. repeat constructor. Qed.

Lemma pw_new_inv isa x i1 i2 w :
  pw_new isa x i1 i2 = Ok w ->
  pw_isa w = isa /\
  match isa with
  | PAvx2 => pp_new sse2_bytes x i1 i2 = Ok (pw_small w) /\ pp_new avx2_bytes x i1 i2 = Ok (pw_big w)
  | i => pp_new (isa_bytes i) x i1 i2 = Ok (pw_small w) /\ pw_big w = pw_small w
  end.
Proof.
  unfold pw_new. destruct isa.
  - destruct (pp_new (isa_bytes PSse2) x i1 i2) as [s|e]; [|discriminate]. intros [= <-]. cbn. auto.
  - destruct (pp_new sse2_bytes x i1 i2) as [s|e]; [|discriminate].
    destruct (pp_new avx2_bytes x i1 i2) as [b|e]; [|discriminate]. intros [= <-]. cbn. auto.
  - destruct (pp_new (isa_bytes PNeon) x i1 i2) as [s|e]; [|discriminate]. intros [= <-]. cbn. auto.
  - destruct (pp_new (isa_bytes PSimd128) x i1 i2) as [s|e]; [|discriminate]. intros [= <-]. cbn. auto.
Qed.

Lemma pp_new_ok Bb x i1 i2 : i1 < length x -> i2 < length x -> exists f, pp_new Bb x i1 i2 = Ok f.
Proof.
  intros H1 H2. unfold pp_new. rewrite (idx_ok x i1 0%N H1), (idx_ok x i2 0%N H2).
  eexists. reflexivity.
Qed.

(* small and big avx2 finders: same pair, ordered minimum lengths *)
Lemma avx2_small_big x i1 i2 s b :
  pp_new sse2_bytes x i1 i2 = Ok s -> pp_new avx2_bytes x i1 i2 = Ok b ->
  pp_min s <= pp_min b /\ forall h c, pair_at b h c -> pair_at s h c.
Proof.
  intros Hs Hb.
  destruct (pp_new_inv _ _ _ _ _ Hs) as (E1 & E2 & _ & _ & B1 & B2 & Em).
  destruct (pp_new_inv _ _ _ _ _ Hb) as (F1 & F2 & _ & _ & C1 & C2 & Fm).
  pose proof sse2_le_avx2. split; [lia|].
  intros h c. unfold pair_at. rewrite E1, E2, B1, B2, F1, F2, C1, C2. tauto.
Qed.

Theorem pw_find_correct : forall isa x i1 i2 w h a an,
  pw_new isa x i1 i2 = Ok w -> pw_min w <= length h ->
  satq (load_ok a (length h) an (length x)) (pw_find w h x) (fun r => r = find_spec x h).
Proof.
  intros isa x i1 i2 w h a an Hn Hmin.
  destruct (pw_new_inv _ _ _ _ _ Hn) as [Hisa Hw]. unfold pw_find, pw_min in *. rewrite Hisa.
  destruct isa; cbv beta iota;
    try (destruct Hw as [Hs _];
         match goal with |- context [pp_find (isa_rep ?i)] => destruct (isa_laws i) as [L P] end;
         exact (pp_find_correct _ _ L P _ _ _ _ _ _ _ Hs Hmin)).
  destruct Hw as [Hs Hb]. destruct (avx2_small_big _ _ _ _ _ Hs Hb) as [Hle _].
  destruct (Nat.ltb_spec (length h) (pp_min (pw_big w))) as [Hlt|Hge].
  - destruct sens_sse2 as [L P]. exact (pp_find_correct _ _ L P _ _ _ _ _ _ _ Hs Hmin).
  - destruct sens_avx2 as [L P]. exact (pp_find_correct _ _ L P _ _ _ _ _ _ _ Hb Hge).
Qed.

Theorem pw_find_panics : forall isa x i1 i2 w h x',
  pw_new isa x i1 i2 = Ok w -> length h < pw_min w ->
  exists t, fst (pw_find w h x') = Panic (AssertFail t).
Proof.
  intros isa x i1 i2 w h x' Hn Hlt. exists 61.
  destruct (pw_new_inv _ _ _ _ _ Hn) as [Hisa Hw]. unfold pw_find, pw_min in *. rewrite Hisa.
  destruct isa; cbv beta iota; try (apply pp_find_panics; exact Hlt).
  destruct Hw as [Hs Hb]. destruct (avx2_small_big _ _ _ _ _ Hs Hb) as [Hle _].
  assert (length h <? pp_min (pw_big w) = true) as -> by (apply Nat.ltb_lt; lia).
  apply pp_find_panics. exact Hlt.
Qed.

(* As for pp_find_safe, the statement with an unrestricted x' is false
   (pw_find_safe_counterexample); these are the true versions. *)
Theorem pw_find_safe_any : pp_confirm_guard_checked = true ->
  forall isa x i1 i2 w h x' a an,
  pw_new isa x i1 i2 = Ok w -> pw_min w <= length h ->
  safe_or_assert65 (load_ok a (length h) an (length x')) (pw_find w h x').
Proof.
  intros Hg isa x i1 i2 w h x' a an Hn Hmin.
  destruct (pw_new_inv _ _ _ _ _ Hn) as [Hisa Hw]. unfold pw_find, pw_min in *. rewrite Hisa.
  destruct isa; cbv beta iota;
    try (destruct Hw as [Hs _];
         match goal with |- context [pp_find (isa_rep ?i)] => destruct (isa_laws i) as [L P] end;
         exact (proj1 (pp_find_safe_any _ _ L P Hg _ _ _ _ _ x' a an Hs Hmin))).
  destruct Hw as [Hs Hb]. destruct (avx2_small_big _ _ _ _ _ Hs Hb) as [Hle _].
  destruct (Nat.ltb_spec (length h) (pp_min (pw_big w))) as [Hlt|Hge].
  - destruct sens_sse2 as [L P]. exact (proj1 (pp_find_safe_any _ _ L P Hg _ _ _ _ _ x' a an Hs Hmin)).
  - destruct sens_avx2 as [L P]. exact (proj1 (pp_find_safe_any _ _ L P Hg _ _ _ _ _ x' a an Hb Hge)).
Qed.

Theorem pw_find_safe : pp_confirm_guard_checked = true ->
  forall isa x i1 i2 w h x' a an,
  pw_new isa x i1 i2 = Ok w -> pw_min w <= length h ->
  length x <= length x' ->
  satq (load_ok a (length h) an (length x')) (pw_find w h x') (fun _ => True).
Proof.
  intros Hg isa x i1 i2 w h x' a an Hn Hmin Hlen.
  destruct (pw_new_inv _ _ _ _ _ Hn) as [Hisa Hw]. unfold pw_find, pw_min in *. rewrite Hisa.
  destruct isa; cbv beta iota;
    try (destruct Hw as [Hs _];
         match goal with |- context [pp_find (isa_rep ?i)] => destruct (isa_laws i) as [L P] end;
         exact (pp_find_safe_ge _ _ L P Hg _ _ _ _ _ x' a an Hs Hmin Hlen)).
  destruct Hw as [Hs Hb]. destruct (avx2_small_big _ _ _ _ _ Hs Hb) as [Hle _].
  destruct (Nat.ltb_spec (length h) (pp_min (pw_big w))) as [Hlt|Hge].
  - destruct sens_sse2 as [L P]. exact (pp_find_safe_ge _ _ L P Hg _ _ _ _ _ x' a an Hs Hmin Hlen).
  - destruct sens_avx2 as [L P]. exact (pp_find_safe_ge _ _ L P Hg _ _ _ _ _ x' a an Hb Hge Hlen).
Qed.

Theorem pw_prefilter_correct : forall isa x i1 i2 w h a an,
  pw_new isa x i1 i2 = Ok w -> pw_min w <= length h ->
  satq (load_ok a (length h) an (length x)) (pw_find_prefilter w h)
       (fun r => match r with
                 | Some c => pair_at (pw_small w) h c /\ (forall i, occurs_at x h i = true -> c <= i)
                 | None => forall i, occurs_at x h i = false
                 end).
Proof.
  intros isa x i1 i2 w h a an Hn Hmin.
  destruct (pw_new_inv _ _ _ _ _ Hn) as [Hisa Hw]. unfold pw_find_prefilter, pw_min in *. rewrite Hisa.
  destruct isa; cbv beta iota;
    try (destruct Hw as [Hs _];
         match goal with |- context [pp_find_prefilter (isa_rep ?i)] => destruct (isa_laws i) as [L P] end;
         exact (pp_prefilter_correct _ _ L P _ _ _ _ _ _ _ Hs Hmin)).
  destruct Hw as [Hs Hb]. destruct (avx2_small_big _ _ _ _ _ Hs Hb) as [Hle Hpa].
  destruct (Nat.ltb_spec (length h) (pp_min (pw_big w))) as [Hlt|Hge].
  - destruct sens_sse2 as [L P]. exact (pp_prefilter_correct _ _ L P _ _ _ _ _ _ _ Hs Hmin).
  - destruct sens_avx2 as [L P]. eapply satq_weaken.
    { exact (pp_prefilter_correct _ _ L P _ _ _ _ _ _ _ Hb Hge). }
    intros [c|]; [|auto]. intros [H1 H2]. split; [apply Hpa; exact H1|exact H2].
Qed.

Theorem pw_min_spec : forall isa x i1 i2 w,
  pw_new isa x i1 i2 = Ok w ->
  pw_min w = Nat.max (length x) (Nat.max i1 i2 + (match isa with PAvx2 => sse2_bytes | i => isa_bytes i end)).
Proof.
  intros isa x i1 i2 w Hn. destruct (pw_new_inv _ _ _ _ _ Hn) as [_ Hw]. unfold pw_min.
  destruct isa; destruct Hw as [Hs _];
    destruct (pp_new_inv _ _ _ _ _ Hs) as (_ & _ & _ & _ & _ & _ & Em); exact Em.
Qed.

Theorem pw_new_ok : forall isa x i1 i2,
  i1 < length x -> i2 < length x -> exists w, pw_new isa x i1 i2 = Ok w.
Proof.
  intros isa x i1 i2 H1 H2. unfold pw_new.
  destruct isa;
    try (match goal with |- context [pp_new ?b x i1 i2] =>
           destruct (pp_new_ok b x i1 i2 H1 H2) as [s ->] end; eexists; reflexivity).
  destruct (pp_new_ok sse2_bytes x i1 i2 H1 H2) as [s ->].
  destruct (pp_new_ok avx2_bytes x i1 i2 H1 H2) as [b ->]. eexists; reflexivity.
Qed.

(* ------------------------------------------------------------------ *)
(* Counterexample to the unrestricted pp_find_safe / pw_find_safe: a 20-byte
   construction needle with pair (0,4) gives pp_min = 20; on a 36-byte haystack
   max = 16 is a multiple of the vector width, the main loop leaves cur = 32,
   and a needle argument of at most 4 bytes passes the `remaining < needle.len()`
   test, so overlap = 16 = BYTES and debug assertion 65 fires.  The haystack has
   no candidate lane, so confirm_loop never evaluates its guard: the outcome does
   not depend on pp_confirm_guard_checked. *)
Lemma pp_find_safe_counterexample :
  exists f, pp_new 16 (repeat 1%N 20) 0 4 = Ok f /\ pp_min f <= length (repeat 0%N 36) /\
            fst (pp_find Sensible 16 f (repeat 0%N 36) []) = Panic (AssertFail 65).
Proof.
  eexists. split; [reflexivity|]. split; [vm_compute; repeat constructor|vm_compute; reflexivity].
Qed.

Lemma pw_find_safe_counterexample :
  exists w, pw_new PSse2 (repeat 1%N 20) 0 4 = Ok w /\ pw_min w <= length (repeat 0%N 36) /\
            fst (pw_find w (repeat 0%N 36) []) = Panic (AssertFail 65).
Proof.
  eexists. split; [reflexivity|]. split; [vm_compute; repeat constructor|vm_compute; reflexivity].
Qed.

(* hence the conclusion of the unrestricted safety statement is refutable,
   whatever the value of pp_confirm_guard_checked *)
Theorem pp_find_safe_unrestricted_false :
  ~ (forall x i1 i2 f h x' a an,
       pp_new 16 x i1 i2 = Ok f -> pp_min f <= length h ->
       satq (load_ok a (length h) an (length x')) (pp_find Sensible 16 f h x') (fun _ => True)).
Proof.
  intros H. destruct pp_find_safe_counterexample as (f & Hn & Hmin & Hp).
  destruct (satq_fst _ _ _ (H _ _ _ f _ [] 0 0 Hn Hmin)) as (v & Hv & _).
  rewrite Hp in Hv. discriminate.
Qed.

Theorem pw_find_safe_unrestricted_false :
  ~ (forall isa x i1 i2 w h x' a an,
       pw_new isa x i1 i2 = Ok w -> pw_min w <= length h ->
       satq (load_ok a (length h) an (length x')) (pw_find w h x') (fun _ => True)).
Proof.
  intros H. destruct pw_find_safe_counterexample as (w & Hn & Hmin & Hp).
  destruct (satq_fst _ _ _ (H _ _ _ _ w _ [] 0 0 Hn Hmin)) as (v & Hv & _).
  rewrite Hp in Hv. discriminate.
Qed.

Print Assumptions pp_find_correct.
Print Assumptions pp_find_panics.
Print Assumptions pp_prefilter_panics.
Print Assumptions pp_find_safe_any.
Print Assumptions pp_find_safe.
Print Assumptions pp_find_safe_ge.
Print Assumptions pp_prefilter_correct.
Print Assumptions pw_find_correct.
Print Assumptions pw_find_panics.
Print Assumptions pw_find_safe_any.
Print Assumptions pw_find_safe.
Print Assumptions pw_prefilter_correct.
Print Assumptions pw_min_spec.
Print Assumptions pw_new_ok.
Print Assumptions pp_find_safe_counterexample.
Print Assumptions pw_find_safe_counterexample.
Print Assumptions pp_find_safe_unrestricted_false.
Print Assumptions pw_find_safe_unrestricted_false.
