(* Words: lexicographic orders, maximal suffixes.  Interface between the proof
   that the Two-Way preprocessing computes maximal suffixes (Sub/MaxSuffix*.v)
   and the critical factorisation theorem (Sub/CritFact.v).  Definitions only. *)
From Memchr Require Export Sub.TwoWayCert.

(* strict order on letters used by Suffix::forward/reverse for each SuffixKind:
   Maximal accepts a candidate that is GREATER, Minimal one that is SMALLER *)
Definition ord (k : skind) (a b : N) : bool :=
  match k with
  | Maximal => (a <? b)%N
  | Minimal => (b <? a)%N
  end.

(* u <= v in the lexicographic order induced by the letter order lt (a proper prefix is smaller) *)
Fixpoint lex_le (lt : N -> N -> bool) (u v : list N) : bool :=
  match u, v with
  | [], _ => true
  | _ :: _, [] => false
  | a :: u', b :: v' => if lt a b then true else if lt b a then false else lex_le lt u' v'
  end.

(* x[pos..] is the maximal suffix of x for the letter order lt *)
Definition is_max_suffix (lt : N -> N -> bool) (x : list N) (pos : nat) : Prop :=
  pos < length x /\ forall j, j < length x -> lex_le lt (skipn j x) (skipn pos x) = true.

(* the pure content of Shift::forward: u = x[..cp], v = x[cp..] *)
Definition shift_fwd_pure (x : list N) (plb cp : nat) : shift :=
  let n := length x in
  let large := Nat.max cp (n - cp) in
  if n <=? cp * 2 then Large large
  else if (cp <=? plb) && list_eqb (slice x plb cp) (slice x 0 cp) then Small plb
  else Large large.
