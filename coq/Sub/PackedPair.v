(* Model of src/arch/generic/packedpair.rs (Finder<V>), of the per-ISA wrappers
   (sse2/neon/simd128: one generic finder; avx2: an sse2 and an avx2 finder) and
   of the portable prefilter of src/arch/all/packedpair/mod.rs. *)
From Memchr Require Export Vec.MaskRep Sub.IsEqual Mem.Wrappers Mem.Iter.
From Memchr Require Import Params.

Record ppfinder := { pp_i1 : nat; pp_i2 : nat; pp_b1 : N; pp_b2 : N; pp_min : nat }.

(* Finder::<V>::new(needle, pair): indexing panics when the pair does not fit the needle *)
Definition pp_new (B : nat) (x : list N) (i1 i2 : nat) : res ppfinder :=
  match idx x i1 with
  | Panic e => Panic e
  | Ok b1 =>
      match idx x i2 with
      | Panic e => Panic e
      | Ok b2 => Ok {| pp_i1 := i1; pp_i2 := i2; pp_b1 := b1; pp_b2 := b2;
                       pp_min := Nat.max (length x) (Nat.max i1 i2 + B) |}
      end
  end.

Section Generic.
Variable R : MaskRep.
Variable B : nat.
Variable f : ppfinder.
Variable h : list N.
Let len := length h.

(* eq1.and(eq2).movemask() for the chunk pair at cur *)
Definition pair_mask (cur : nat) : M N :=
  c1 <- load RHay h (cur + pp_i1 f) B false;;
  c2 <- load RHay h (cur + pp_i2 f) B false;;
  ret (mm R (map2 andb (map (N.eqb (pp_b1 f)) c1) (map (N.eqb (pp_b2 f)) c2))).

(* find_prefilter_in_chunk *)
Definition prefilter_in_chunk (cur : nat) : M (option nat) :=
  tick 5;;;
  m <- pair_mask cur;;
  if m_has_nz R m then ret (Some (m_first R m)) else ret None.

Fixpoint pre_loop (fuel max cur : nat) : M (ctl (option nat) nat) :=
  match fuel with
  | 0 => fail OutOfFuel
  | S fu =>
      if cur <=? max then
        r <- prefilter_in_chunk cur;;
        match r with
        | Some c => ret (Ret (Some (cur + c)))
        | None => pre_loop fu max (cur + B)
        end
      else ret (Go cur)
  end.

Definition pp_find_prefilter : M (option nat) :=
  guard 60 (pp_min f <=? len);;;           (* assert!: the documented panic *)
  max <- lift (psub len (pp_min f));;
  c <- pre_loop (S len) max 0;;
  match c with
  | Ret r => ret r
  | Go cur =>
      if cur <? len then
        r <- prefilter_in_chunk max;;
        match r with
        | Some c => ret (Some (max + c))
        | None => ret None
        end
      else ret None
  end.

(* find_in_chunk(needle, cur, end, mask): x' is the needle ARGUMENT of find *)
Variable x' : list N.

Fixpoint confirm_loop (fuel cur : nat) (offsets : N) : M (option nat) :=
  match fuel with
  | 0 => fail OutOfFuel
  | S fu =>
      if m_has_nz R offsets then
        let offset := m_first R offsets in
        tick 6;;;
        stop <- (if pp_confirm_guard_checked
                 then ret (len - (cur + offset) <? length x')            (* end.distance(cur) < needle.len() *)
                 else lim <- lift (psub len (length x'));;               (* end.sub(needle.len()) < cur *)
                      ret (lim <? cur + offset));;
        if (stop : bool) then ret None
        else
          eq <- is_equal_raw RNeedle RHay x' h 0 (cur + offset) (length x');;
          if eq then ret (Some offset)
          else
            offsets' <- lift (m_clear_lsb R offsets);;
            confirm_loop fu cur offsets'
      else ret None
  end.

Definition find_in_chunk (cur : nat) (mask : N) : M (option nat) :=
  tick 5;;;
  m <- pair_mask cur;;
  confirm_loop (S B) cur (m_and R m mask).

Fixpoint find_loop (fuel max cur : nat) (all : N) : M (ctl (option nat) nat) :=
  match fuel with
  | 0 => fail OutOfFuel
  | S fu =>
      if cur <=? max then
        r <- find_in_chunk cur all;;
        match r with
        | Some c => ret (Ret (Some (cur + c)))
        | None => find_loop fu max (cur + B) all
        end
      else ret (Go cur)
  end.

Definition pp_find : M (option nat) :=
  guard 61 (pp_min f <=? len);;;           (* assert!: the documented panic *)
  all <- lift (m_all_except_low R 0);;
  max <- lift (psub len (pp_min f));;
  c <- find_loop (S len) max 0 all;;
  match c with
  | Ret r => ret r
  | Go cur =>
      if cur <? len then
        let remaining := len - cur in
        guard 62 (remaining <? pp_min f);;;
        if remaining <? length x' then ret None
        else
          guard 63 (max <? cur);;;
          let overlap := cur - max in
          guard 64 (0 <? overlap);;;
          guard 65 (overlap <? B);;;
          mask <- lift (m_all_except_low R overlap);;
          r <- find_in_chunk max mask;;
          match r with
          | Some c => ret (Some (max + c))
          | None => ret None
          end
      else ret None
  end.

End Generic.

(* ---- per-ISA wrappers ---- *)
Inductive ppisa := PSse2 | PAvx2 | PNeon | PSimd128.

Definition isa_rep (i : ppisa) : MaskRep := match i with PNeon => Neon | _ => Sensible end.
Definition isa_bytes (i : ppisa) : nat :=
  match i with PSse2 => sse2_bytes | PAvx2 => avx2_bytes | PNeon => neon_bytes | PSimd128 => simd128_bytes end.

(* with_pair(needle, pair): for avx2 both an sse2 and an avx2 generic finder *)
Record ppwrap := { pw_isa : ppisa; pw_small : ppfinder; pw_big : ppfinder }.

Definition pw_new (i : ppisa) (x : list N) (i1 i2 : nat) : res ppwrap :=
  match i with
  | PAvx2 =>
      match pp_new sse2_bytes x i1 i2, pp_new avx2_bytes x i1 i2 with
      | Ok s, Ok b => Ok {| pw_isa := i; pw_small := s; pw_big := b |}
      | Panic e, _ => Panic e
      | _, Panic e => Panic e
      end
  | _ =>
      match pp_new (isa_bytes i) x i1 i2 with
      | Ok s => Ok {| pw_isa := i; pw_small := s; pw_big := s |}
      | Panic e => Panic e
      end
  end.

Definition pw_min (w : ppwrap) : nat := pp_min (pw_small w).

Definition pw_find (w : ppwrap) (h x' : list N) : M (option nat) :=
  match pw_isa w with
  | PAvx2 =>
      if length h <? pp_min (pw_big w)
      then pp_find Sensible sse2_bytes (pw_small w) h x'
      else pp_find Sensible avx2_bytes (pw_big w) h x'
  | i => pp_find (isa_rep i) (isa_bytes i) (pw_small w) h x'
  end.

Definition pw_find_prefilter (w : ppwrap) (h : list N) : M (option nat) :=
  match pw_isa w with
  | PAvx2 =>
      if length h <? pp_min (pw_big w)
      then pp_find_prefilter Sensible sse2_bytes (pw_small w) h
      else pp_find_prefilter Sensible avx2_bytes (pw_big w) h
  | i => pp_find_prefilter (isa_rep i) (isa_bytes i) (pw_small w) h
  end.

(* ---- the portable prefilter (arch::all::packedpair::Finder) ---- *)
Record portfinder := { pf_i1 : nat; pf_i2 : nat; pf_b1 : N; pf_b2 : N }.

Definition pf_new (x : list N) (i1 i2 : nat) : res portfinder :=
  match idx x i1 with
  | Panic e => Panic e
  | Ok b1 =>
      match idx x i2 with
      | Panic e => Panic e
      | Ok b2 => Ok {| pf_i1 := i1; pf_i2 := i2; pf_b1 := b1; pf_b2 := b2 |}
      end
  end.

Section Portable.
Variables (mb : backend) (f : portfinder) (a : nat) (h : list N).   (* mb: the memchr implementation in use *)

(* loop { i += memchr(byte1, &haystack[i..])?; found = i; i += 1; ... } *)
Fixpoint pf_loop (fuel i : nat) : M (option nat) :=
  match fuel with
  | 0 => fail OutOfFuel
  | S fu =>
      tick 4;;;
      guard 66 (i <=? length h);;;                       (* &haystack[i..] *)
      r <- (let w := backend_find [pf_b1 f] (a + i) (skipn i h) mb in
            (fst w, map (shift_ev i) (snd w)));;
      match r with
      | None => ret None
      | Some d =>
          let found := i + d in
          let i' := found + 1 in
          if found <? pf_i1 f then pf_loop fu i'                               (* checked_sub fails *)
          else
            let aligned1 := found - pf_i1 f in
            let aligned2 := aligned1 + pf_i2 f in                               (* checked_add cannot fail *)
            match nth_error h aligned2 with
            | Some b2 => if (b2 =? pf_b2 f)%N then ret (Some aligned1) else pf_loop fu i'
            | None => pf_loop fu i'
            end
      end
  end.

Definition pf_find_prefilter : M (option nat) := pf_loop (S (S (length h))) 0.

End Portable.
