(* The decidable certificate under which the Two-Way search loops are proved
   correct for every haystack, prefilter and prefilter state (Tier 1), and the
   facts about words it is made of. *)
From Memchr Require Export Sub.TwoWay.

Definition xb (x : list N) (i : nat) : N := nth i x 0%N.

(* p is a period of x: x[j] = x[j+p] whenever both are inside *)
Definition is_period (x : list N) (p : nat) : bool :=
  forallb (fun j => (xb x j =? xb x (j + p))%N) (seq 0 (length x - p)).

(* the smallest period in 1..=|x| (|x| itself always is one) *)
Fixpoint first_period (x : list N) (fuel p : nat) : nat :=
  match fuel with
  | 0 => p
  | S f => if is_period x p then p else first_period x f (S p)
  end.
Definition smallest_period (x : list N) : nat := first_period x (length x) 1.

(* k is a local period of x at position c: x[j] = x[j+k] for the pairs that
   straddle c (c - k <= j < c) and lie inside x *)
Definition local_period (x : list N) (c k : nat) : bool :=
  forallb (fun j => if j + k <? length x then (xb x j =? xb x (j + k))%N else true)
          (seq (c - k) (c - (c - k))).

(* all local periods at c up to the bound are multiples of the period P *)
Definition locals_are_multiples (x : list N) (c P bound : nat) : bool :=
  forallb (fun k => implb (local_period x c k) (k mod P =? 0)) (seq 1 bound).

Definition tw_cert_fwd (x : list N) (tw : twoway) : bool :=
  let n := length x in
  let c := tw_cp tw in
  let P := smallest_period x in
  (c <? n) &&
  locals_are_multiples x c P (Nat.max (P - 1) (n - 1 - c)) &&
  match tw_shift tw with
  | Small p => (p =? P) && (c <=? p)
  | Large s => (1 <=? s) && (s <=? P)
  end.

Definition tw_cert_rev (x : list N) (tw : twoway) : bool :=
  let n := length x in
  let c := tw_cp tw in
  let P := smallest_period x in
  (0 <? c) && (c <=? n) &&
  locals_are_multiples x c P (Nat.max (P - 1) (c - 1)) &&
  match tw_shift tw with
  | Small p => (p =? P) && (n - c <=? p)
  | Large s => (1 <=? s) && (s <=? P)
  end.

(* the certificate evaluated on the output of the modelled preprocessing *)
Definition tw_cert_fwd_of (x : list N) : bool :=
  match fst (tw_new x) with Ok tw => tw_cert_fwd x tw | Panic _ => false end.
Definition tw_cert_rev_of (x : list N) : bool :=
  match fst (tw_new_rev x) with Ok tw => tw_cert_rev x tw | Panic _ => false end.
