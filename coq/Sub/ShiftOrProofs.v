(* Correctness of the Shift-Or (bitap) model: the constructor rejects exactly the
   needles longer than 15 bytes, and the search returns the leftmost
   occurrence, never panics, and only emits Tick events. *)
From Memchr Require Import Spec SpecProofs Params Sub.ShiftOr.

Local Open Scope nat_scope.

(* ------------------------------------------------------------------ *)
(* constants *)

Lemma so_max_len_eq : so_max_len = 15.
Proof. reflexivity. Qed.

Lemma so_mod_eq : so_mod = (2 ^ 16)%N.
Proof. reflexivity. Qed.

Lemma so_ones_eq : so_ones = N.ones 16.
Proof. reflexivity. Qed.

Lemma so_ones_bit j : j < 16 -> N.testbit so_ones (N.of_nat j) = true.
Proof. intros H. rewrite so_ones_eq. apply N.ones_spec_low. lia. Qed.

(* !m on the low 16 bits *)
Lemma so_not_bit m j : j < 16 ->
  N.testbit (so_not m) (N.of_nat j) = negb (N.testbit m (N.of_nat j)).
Proof.
  intros H. unfold so_not. rewrite N.lxor_spec, so_ones_bit by exact H.
  apply xorb_true_r.
Qed.

Lemma pow2_bit i j : N.testbit (2 ^ N.of_nat i) (N.of_nat j) = (i =? j).
Proof.
  rewrite N.pow2_bits_eqb. destruct (Nat.eqb_spec i j) as [->|Hn].
  - apply N.eqb_refl.
  - apply N.eqb_neq. lia.
Qed.

(* a & (1 << n) == 0 tests bit n *)
Lemma land_pow2_eqb a n : (N.land a (2 ^ n) =? 0)%N = negb (N.testbit a n).
Proof.
  destruct (N.testbit a n) eqn:E; cbn [negb].
  - apply N.eqb_neq. intros H.
    assert (N.testbit (N.land a (2 ^ n)) n = false) as G by (rewrite H; apply N.bits_0).
    rewrite N.land_spec, E, N.pow2_bits_true in G. discriminate.
  - apply N.eqb_eq. apply N.bits_inj. intros m.
    rewrite N.land_spec, N.bits_0, N.pow2_bits_eqb.
    destruct (N.eqb_spec n m) as [<-|Hn]; [rewrite E; reflexivity|apply andb_false_r].
Qed.

(* ------------------------------------------------------------------ *)
(* list facts *)

Lemma nth_update {A} (m : list A) k v d k' :
  k < length m ->
  nth k' (firstn k m ++ [v] ++ skipn (S k) m) d = if k' =? k then v else nth k' m d.
Proof.
  intros Hk.
  assert (length (firstn k m) = k) as Hl by (rewrite firstn_length; lia).
  destruct (Nat.eqb_spec k' k) as [->|Hn].
  - rewrite app_nth2 by lia. rewrite Hl, Nat.sub_diag. reflexivity.
  - destruct (Nat.lt_ge_cases k' k) as [Hlt|Hge].
    + rewrite app_nth1 by lia. apply nth_firstn'. exact Hlt.
    + rewrite app_nth2 by lia. rewrite Hl.
      rewrite app_nth2 by (cbn; lia). cbn [length].
      rewrite nth_skipn'. f_equal. lia.
Qed.

Lemma length_update {A} (m : list A) k v :
  k < length m -> length (firstn k m ++ [v] ++ skipn (S k) m) = length m.
Proof.
  intros Hk. rewrite !app_length, firstn_length, skipn_length. cbn [length]. lia.
Qed.

Lemma firstn_S_nth {A} (x : list A) j d :
  j < length x -> firstn (S j) x = firstn j x ++ [nth j x d].
Proof.
  revert j; induction x as [|a x IH]; intros j H; cbn [length] in H; [lia|].
  destruct j as [|j]; [reflexivity|].
  rewrite !firstn_cons. cbn [nth]. rewrite (IH j) by lia. reflexivity.
Qed.

Lemma slice_app_l {A} (pre rest : list A) s w :
  s + w <= length pre -> slice (pre ++ rest) s w = slice pre s w.
Proof.
  intros H. unfold slice. rewrite skipn_app, firstn_app, skipn_length.
  replace (w - (length pre - s)) with 0 by lia. cbn [firstn]. apply app_nil_r.
Qed.

Lemma slice_snoc {A} (pre : list A) b j :
  j <= length pre ->
  slice (pre ++ [b]) (length pre - j) (S j) = slice pre (length pre - j) j ++ [b].
Proof.
  intros H. unfold slice. rewrite skipn_app.
  replace (length pre - j - length pre) with 0 by lia. cbn [skipn].
  assert (length (skipn (length pre - j) pre) = j) as Hl by (rewrite skipn_length; lia).
  rewrite (firstn_all2 (n := S j)) by (rewrite app_length, Hl; cbn; lia).
  rewrite (firstn_all2 (n := j)) by lia. reflexivity.
Qed.

(* ------------------------------------------------------------------ *)
(* the mask table *)

Lemma so_fill_length x : forall masks i0,
  Forall (fun b => (b < N.of_nat (length masks))%N) x ->
  length (so_fill masks x i0) = length masks.
Proof.
  induction x as [|b t IH]; intros masks i0 Hx; cbn [so_fill]; [reflexivity|].
  inversion Hx as [|? ? Hb Ht]; subst.
  assert (N.to_nat b < length masks) as Hk by lia.
  rewrite IH; rewrite length_update by exact Hk; [reflexivity|exact Ht].
Qed.

(* bit j of entry k is cleared by so_fill iff it was already clear or the needle
   byte written at position j (relative to the start index i0) is k *)
Lemma so_fill_bit x : forall masks i0 k j,
  Forall (fun b => (b < N.of_nat (length masks))%N) x ->
  k < length masks -> j < 16 -> i0 + length x <= 16 ->
  (N.testbit (nth k (so_fill masks x i0) so_ones) (N.of_nat j) = false <->
   N.testbit (nth k masks so_ones) (N.of_nat j) = false \/
   (i0 <= j /\ j < i0 + length x /\ nth (j - i0) x 256%N = N.of_nat k)).
Proof.
  induction x as [|b t IH]; intros masks i0 k j Hx Hk Hj Hi; cbn [so_fill].
  - cbn [length]. split; [auto|]. intros [H|H]; [exact H|lia].
  - inversion Hx as [|? ? Hb Ht]; subst. cbn [length] in Hi.
    assert (N.to_nat b < length masks) as Hkb by lia.
    rewrite IH; try rewrite length_update by exact Hkb; try assumption; try lia.
    rewrite nth_update by exact Hkb.
    cbn [length].
    assert (i0 < j -> nth (j - i0) (b :: t) 256%N = nth (j - S i0) t 256%N) as Hnth.
    { intros H. replace (j - i0) with (S (j - S i0)) by lia. reflexivity. }
    assert (nth (i0 - i0) (b :: t) 256%N = b) as Hnth0.
    { rewrite Nat.sub_diag. reflexivity. }
    assert (N.of_nat (N.to_nat b) = b) as Hbb by lia.
    destruct (Nat.eqb_spec k (N.to_nat b)) as [Ek|Ek].
    + rewrite N.land_spec, so_not_bit, pow2_bit by lia. rewrite <- Ek.
      destruct (Nat.eqb_spec i0 j) as [Eij|Eij]; cbn [negb].
      * rewrite andb_false_r. subst j. rewrite Hnth0. subst k. rewrite Hbb.
        split; intros _; [right; repeat split; lia|left; reflexivity].
      * rewrite andb_true_r.
        destruct (Nat.lt_ge_cases i0 j) as [Hlt|Hge].
        -- rewrite (Hnth Hlt). intuition lia.
        -- intuition lia.
    + destruct (Nat.lt_trichotomy i0 j) as [Hlt|[Heq|Hgt]].
      * rewrite (Hnth Hlt). intuition lia.
      * subst j. rewrite Hnth0. intuition lia.
      * intuition lia.
Qed.

Definition so_table (x : list N) : list N := so_fill (repeat so_ones 256) x 0.

Lemma so_table_length x :
  Forall (fun b => (b < 256)%N) x -> length (so_table x) = 256.
Proof.
  intros Hx. unfold so_table. rewrite so_fill_length.
  - apply repeat_length.
  - rewrite repeat_length. exact Hx.
Qed.

Lemma so_table_bit x k j :
  Forall (fun b => (b < 256)%N) x -> length x <= 16 -> k < 256 -> j < 16 ->
  (N.testbit (nth k (so_table x) so_ones) (N.of_nat j) = false <->
   j < length x /\ nth j x 256%N = N.of_nat k).
Proof.
  intros Hx Hl Hk Hj. unfold so_table.
  rewrite so_fill_bit; try rewrite repeat_length; try assumption; try lia.
  rewrite Nat.sub_0_r.
  assert (nth k (repeat so_ones 256) so_ones = so_ones) as ->.
  { destruct (nth_in_or_default k (repeat so_ones 256) so_ones) as [H|H]; [|exact H].
    apply repeat_spec in H. exact H. }
  rewrite so_ones_bit by exact Hj. split.
  - intros [H|(_ & H2 & H3)]; [discriminate|]. split; [lia|exact H3].
  - intros [H2 H3]. right. repeat split; first [exact H3|lia].
Qed.

(* ------------------------------------------------------------------ *)
(* constructor *)

Lemma so_new_ok x : length x <= 15 ->
  so_new x = (Ok (Some {| so_masks := so_table x; so_nlen := length x |}), [Alloc]).
Proof.
  intros H. unfold so_new. rewrite so_max_len_eq.
  assert (15 <? length x = false) as -> by (apply Nat.ltb_ge; exact H).
  reflexivity.
Qed.

Lemma so_new_none x : 15 < length x -> so_new x = (Ok None, []).
Proof.
  intros H. unfold so_new. rewrite so_max_len_eq.
  assert (15 <? length x = true) as -> by (apply Nat.ltb_lt; exact H).
  reflexivity.
Qed.

Theorem so_new_spec : forall x : list N,
  Forall (fun b => (b < 256)%N) x ->
  (length x <= 15 -> exists f, so_new x = (Ok (Some f), [Alloc]) /\ so_nlen f = length x) /\
  (15 < length x -> so_new x = (Ok None, [])).
Proof.
  intros x _. split.
  - intros H. eexists. split; [apply so_new_ok; exact H|reflexivity].
  - apply so_new_none.
Qed.

(* ------------------------------------------------------------------ *)
(* the search loop *)

Definition tick_only (e : event) : Prop := match e with Tick _ => True | _ => False end.

Section Loop.
Variables (x h : list N).
Hypothesis Hx : Forall (fun b => (b < 256)%N) x.
Hypothesis Hn : length x <= 15.

Let f : sofinder := {| so_masks := so_table x; so_nlen := length x |}.

(* after consuming pre: bit j of the state is clear iff the last j bytes of pre
   are the first j bytes of the needle *)
Definition so_inv (pre : list N) (result : N) : Prop :=
  forall j, j <= length x ->
    (N.testbit result (N.of_nat j) = false <->
     j <= length pre /\ slice pre (length pre - j) j = firstn j x).

Lemma so_inv_init : so_inv [] (so_not 1).
Proof.
  intros j Hj. rewrite so_not_bit by lia.
  change 1%N with (2 ^ N.of_nat 0)%N. rewrite pow2_bit.
  destruct j as [|j]; cbn [Nat.eqb negb length].
  - split; [intros _|reflexivity]. split; [lia|reflexivity].
  - split; [discriminate|]. intros [H _]. lia.
Qed.

Lemma so_inv_step pre result b :
  (b < 256)%N -> so_inv pre result ->
  so_inv (pre ++ [b])
         ((N.lor result (nth (N.to_nat b) (so_table x) so_ones) * 2) mod so_mod)%N.
Proof.
  intros Hb Hinv j Hj. rewrite so_mod_eq, N.mod_pow2_bits_low by lia.
  rewrite N.mul_comm, app_length. cbn [length].
  destruct j as [|j].
  - change (N.of_nat 0) with 0%N. rewrite N.testbit_even_0.
    split; [intros _|reflexivity]. split; [lia|reflexivity].
  - rewrite Nat2N.inj_succ, N.double_bits_succ, N.lor_spec, orb_false_iff.
    rewrite (Hinv j) by lia.
    rewrite so_table_bit by (try exact Hx; lia).
    replace (N.of_nat (N.to_nat b)) with b by lia.
    replace (length pre + 1 - S j) with (length pre - j) by lia.
    split.
    + intros [[H1 H2] [H3 H4]]. split; [lia|].
      rewrite slice_snoc by lia. rewrite (firstn_S_nth x j 256%N) by lia.
      rewrite H2, H4. reflexivity.
    + intros [H1 H2]. assert (j <= length pre) as H1' by lia.
      assert (j < length x) as H3 by lia.
      rewrite slice_snoc in H2 by lia. rewrite (firstn_S_nth x j 256%N) in H2 by lia.
      apply app_inj_tail in H2 as [H2 H4]. repeat split; auto.
Qed.

Lemma so_loop_correct : forall rest pre result,
  h = pre ++ rest ->
  Forall (fun b => (b < 256)%N) rest ->
  so_inv pre result ->
  (forall s, s + length x <= length pre -> occurs_at x h s = false) ->
  satq tick_only (so_loop f rest (length pre) result) (fun r => r = find_spec x h).
Proof.
  induction rest as [|b t IH]; intros pre result Hh Hr Hinv Hno; cbn [so_loop].
  - apply satq_ret. symmetry. apply find_spec_none. intros j.
    destruct (occurs_at x h j) eqn:E; [|reflexivity].
    rewrite <- E. apply Hno. apply occurs_at_bound in E.
    rewrite Hh, app_nil_r in E. exact E.
  - inversion Hr as [|b' t' Hb Ht]; subst b' t'.
    assert (idx (so_masks f) (N.to_nat b) = Ok (nth (N.to_nat b) (so_table x) so_ones)) as Hidx.
    { apply idx_ok. cbn [f so_masks]. rewrite so_table_length by exact Hx. lia. }
    rewrite Hidx, bind_lift_ok.
    eapply satq_bind. { apply (satq_emit tick_only (Tick 3) (fun _ => True)); exact I. }
    intros _ _.
    pose proof (so_inv_step pre result b Hb Hinv) as Hinv'.
    set (r2 := ((N.lor result (nth (N.to_nat b) (so_table x) so_ones) * 2) mod so_mod)%N) in *.
    assert (h = (pre ++ [b]) ++ t) as Hh' by (rewrite <- app_assoc; exact Hh).
    assert (length (pre ++ [b]) = length pre + 1) as Hlen by (rewrite app_length; reflexivity).
    cbn [so_nlen f]. rewrite land_pow2_eqb.
    destruct (N.testbit r2 (N.of_nat (length x))) eqn:E; cbn [negb].
    + (* no occurrence ends here: continue *)
      replace (S (length pre)) with (length (pre ++ [b])) by lia.
      apply IH; [exact Hh'|exact Ht|exact Hinv'|].
      intros s Hs. rewrite Hlen in Hs.
      destruct (Nat.eq_dec (s + length x) (length pre + 1)) as [Es|Es]; [|apply Hno; lia].
      destruct (occurs_at x h s) eqn:Eo; [|reflexivity]. exfalso.
      apply occurs_at_eq in Eo as [_ Eo].
      assert (N.testbit r2 (N.of_nat (length x)) = false) as G; [|congruence].
      apply Hinv'; [lia|]. rewrite Hlen. split; [lia|].
      replace (length pre + 1 - length x) with s by lia.
      rewrite firstn_all.
      rewrite <- (slice_app_l (pre ++ [b]) t) by lia.
      rewrite <- Hh'. exact Eo.
    + (* leftmost occurrence found *)
      destruct (proj1 (Hinv' (length x) (le_n _)) E) as [Hle Hsl].
      rewrite Hlen in Hle, Hsl. rewrite firstn_all in Hsl.
      rewrite csub_ok by lia. rewrite bind_lift_ok. apply satq_ret.
      symmetry. apply find_spec_some. split.
      * apply occurs_at_eq. split.
        -- rewrite Hh', app_length. lia.
        -- rewrite Hh'. rewrite slice_app_l by lia. exact Hsl.
      * intros j Hj. apply Hno. lia.
Qed.

End Loop.

(* ------------------------------------------------------------------ *)
(* main theorem *)

Theorem so_find_correct : forall (x h : list N) f,
  Forall (fun b => (b < 256)%N) x -> Forall (fun b => (b < 256)%N) h ->
  so_new x = (Ok (Some f), [Alloc]) ->
  satq (fun e => match e with Tick _ => True | _ => False end) (so_find f h) (fun r => r = find_spec x h).
Proof.
  intros x h f Hx Hh Hnew.
  destruct (Nat.le_gt_cases (length x) 15) as [Hl|Hl].
  2: { rewrite so_new_none in Hnew by exact Hl. discriminate. }
  rewrite so_new_ok in Hnew by exact Hl. injection Hnew as <-.
  unfold so_find. cbn [so_nlen].
  destruct (length x =? 0) eqn:E0.
  - apply Nat.eqb_eq in E0. apply length_zero_iff_nil in E0. subst x.
    apply satq_ret. symmetry. apply find_spec_empty.
  - apply (so_loop_correct x h Hx Hl h [] (so_not 1)).
    + reflexivity.
    + exact Hh.
    + apply so_inv_init. exact Hl.
    + intros s Hs. apply Nat.eqb_neq in E0. cbn [length] in Hs. lia.
Qed.

Print Assumptions so_new_spec.
Print Assumptions so_find_correct.
