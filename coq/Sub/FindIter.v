(* Model of FindIter / FindRevIter (src/memmem/mod.rs) and of operation
   histories over finders and iterators (reuse, clone, as_ref, into_owned). *)
From Memchr Require Export Sub.Searcher.

(* ---- FindIter ---- *)
Record fiter := { fi_pos : nat; fi_pre : prestate }.
Definition fiter_new : fiter := {| fi_pos := 0; fi_pre := prestate_new |}.

Section FindIter.
Variables (ar : arch) (f : finder) (a : nat) (h : list N).
Let x := f_needle f.

(* next: haystack.get(pos..)?; idx = searcher.find(&mut prestate, rest, needle)?;
   pos' = pos + idx; self.pos = pos' + max(needle.len(), 1); Some(pos') *)
Definition fiter_next (it : fiter) : M (option nat * fiter) :=
  if length h <? fi_pos it then ret (None, it)
  else
    r <- shifted (fi_pos it)
           (searcher_find ar (f_searcher f) (fi_pre it) (a + fi_pos it) (skipn (fi_pos it) h) x);;
    match fst r with
    | None => ret (None, {| fi_pos := fi_pos it; fi_pre := snd r |})
    | Some i =>
        let p := fi_pos it + i in
        ret (Some p, {| fi_pos := p + Nat.max (length x) 1; fi_pre := snd r |})
    end.

(* size_hint: lower and Some(upper) *)
Definition fiter_size_hint (it : fiter) : nat * nat :=
  if length h <? fi_pos it then (0, 0)
  else
    let rest := length h - fi_pos it in
    match length x with
    | 0 => (rest + 1, rest + 1)
    | n => (0, rest / n)
    end.

End FindIter.

(* ---- FindRevIter ---- *)
Definition riter := option nat.
Definition riter_new (h : list N) : riter := Some (length h).

Section FindRevIter.
Variables (ar : arch) (f : rfinder) (a : nat) (h : list N).

(* next: pos?; rfind(&haystack[..pos]); Some(i) => pos = if pos == i { pos.checked_sub(1) } else { Some(i) } *)
Definition riter_next (it : riter) : M (option nat * riter) :=
  match it with
  | None => ret (None, None)
  | Some pos =>
      guard 90 (pos <=? length h);;;
      r <- rfinder_rfind ar f a (firstn pos h);;
      match r with
      | None => ret (None, Some pos)
      | Some i =>
          if pos =? i then ret (Some i, match pos with 0 => None | S p => Some p end)
          else ret (Some i, Some i)
      end
  end.

End FindRevIter.

(* ---- drive an iterator for k steps, collecting outputs and size hints ---- *)
Fixpoint fiter_run (ar : arch) (f : finder) (a : nat) (h : list N) (k : nat) (it : fiter)
  : M (list (option nat * (nat * nat))) :=
  match k with
  | 0 => ret []
  | S k' =>
      let sh := fiter_size_hint f h it in
      r <- fiter_next ar f a h it;;
      outs <- fiter_run ar f a h k' (snd r);;
      ret ((fst r, sh) :: outs)
  end.

Fixpoint riter_run (ar : arch) (f : rfinder) (a : nat) (h : list N) (k : nat) (it : riter)
  : M (list (option nat)) :=
  match k with
  | 0 => ret []
  | S k' =>
      r <- riter_next ar f a h it;;
      outs <- riter_run ar f a h k' (snd r);;
      ret (fst r :: outs)
  end.
