(* Two-Way preprocessing (Sub/TwoWay.v, section Pre) never panics, for every
   needle, and its output is well-formed: critical position inside the needle,
   shift/period between 1 and the needle length, loads inside the needle. *)
From Memchr Require Import Spec Params Sub.IsEqual Sub.IsEqualProofs Sub.TwoWay.

(* events of the preprocessing: ticks, and loads of is_equal_raw inside the
   needle (region RNeedle), never aligned *)
(* acceptable wherever the needle (and any haystack) is placed: needle-only, never marked aligned *)
Definition pre_ev (x : list N) (e : event) : Prop := forall a lh an, load_ok a lh an (length x) e.

Lemma pre_ev_tick x k : pre_ev x (Tick k).
Proof. intros a lh an. exact I. Qed.

Lemma satq_tick_pre x k : satq (pre_ev x) (tick k) (fun _ => True).
Proof. apply satq_emit; [apply pre_ev_tick|exact I]. Qed.

Lemma ev_within_pre_ev x ox oy m e :
  ox + m <= length x -> oy + m <= length x ->
  ev_within RNeedle ox RNeedle oy m e -> pre_ev x e.
Proof.
  intros Hx Hy. destruct e as [r off w al| | |]; cbn; try tauto.
  intros [Hal [(Hr & Hl & Hu)|(Hr & Hl & Hu)]] a lh an; subst r al; cbn;
    (split; [lia|discriminate]).
Qed.

(* is_equal_raw of two ranges of the needle *)
Lemma is_equal_raw_needle_ok x ox oy m :
  ox + m <= length x -> oy + m <= length x ->
  satq (pre_ev x) (is_equal_raw RNeedle RNeedle x x ox oy m) (fun _ => True).
Proof.
  intros Hx Hy. unfold satq.
  eapply sat_weaken. { apply is_equal_raw_sat; [exact Hx|exact Hy]. }
  cbn beta. intros b t [_ Ht]. split; [exact I|].
  eapply Forall_impl; [|exact Ht]. intros e. apply ev_within_pre_ev; assumption.
Qed.

Section PreProofs.
Variable x : list N.

(* ------------------------------------------------------------------ *)
(* Suffix::forward *)

Definition fwd_post (r : nat * nat) : Prop :=
  fst r < Nat.max (length x) 1 /\ 1 <= snd r /\ fst r + snd r <= Nat.max (length x) 1.

Lemma suffix_fwd_loop_ok k : forall fuel pos period cand off,
  pos < cand -> 1 <= period -> period <= cand - pos -> off < period ->
  cand <= Nat.max (length x) 1 ->
  2 * Nat.max (length x) 1 <= fuel + (pos + cand + off) ->
  satq (pre_ev x) (suffix_fwd_loop x k fuel pos period cand off) fwd_post.
Proof.
  induction fuel as [|f IH]; intros pos period cand off Hpc Hp1 Hpd Hoff Hcn Hfuel; [lia|].
  cbn [suffix_fwd_loop]. destruct (cand + off <? length x) eqn:Eloop.
  - apply Nat.ltb_lt in Eloop.
    eapply satq_bind. { apply satq_tick_pre. }
    intros _ _.
    rewrite (idx_ok x (pos + off) 0%N) by lia. rewrite bind_lift_ok.
    rewrite (idx_ok x (cand + off) 0%N) by lia. rewrite bind_lift_ok.
    destruct (kcmp k (nth (pos + off) x 0%N) (nth (cand + off) x 0%N)).
    + (* Accept *) apply IH; lia.
    + (* Skip *)
      rewrite (csub_ok (cand + (off + 1)) pos) by lia. rewrite bind_lift_ok.
      apply IH; lia.
    + (* Push *)
      destruct (off + 1 =? period) eqn:Eper.
      * apply Nat.eqb_eq in Eper. apply IH; lia.
      * apply Nat.eqb_neq in Eper. apply IH; lia.
  - apply Nat.ltb_ge in Eloop. apply satq_ret. unfold fwd_post. cbn [fst snd]. lia.
Qed.

Lemma suffix_fwd_ok k : satq (pre_ev x) (suffix_fwd x k) fwd_post.
Proof. unfold suffix_fwd. apply suffix_fwd_loop_ok; lia. Qed.

(* ------------------------------------------------------------------ *)
(* Suffix::reverse *)

Definition rev_post (r : nat * nat) : Prop :=
  (1 <= length x -> 1 <= fst r) /\ fst r <= length x /\
  1 <= snd r /\ (1 <= length x -> snd r <= fst r).

Lemma suffix_rev_loop_ok k : forall fuel pos period cand off,
  cand < pos -> pos <= length x -> 1 <= period -> period <= pos - cand -> off < period ->
  pos + cand - off < fuel ->
  satq (pre_ev x) (suffix_rev_loop x k fuel pos period cand off) rev_post.
Proof.
  induction fuel as [|f IH]; intros pos period cand off Hcp Hpn Hp1 Hpd Hoff Hfuel; [lia|].
  cbn [suffix_rev_loop]. destruct (off <? cand) eqn:Eloop.
  - apply Nat.ltb_lt in Eloop.
    eapply satq_bind. { apply satq_tick_pre. }
    intros _ _.
    rewrite (csub_ok pos off) by lia. rewrite bind_lift_ok.
    rewrite (csub_ok (pos - off) 1) by lia. rewrite bind_lift_ok.
    rewrite (idx_ok x (pos - off - 1) 0%N) by lia. rewrite bind_lift_ok.
    rewrite (csub_ok cand off) by lia. rewrite bind_lift_ok.
    rewrite (csub_ok (cand - off) 1) by lia. rewrite bind_lift_ok.
    rewrite (idx_ok x (cand - off - 1) 0%N) by lia. rewrite bind_lift_ok.
    destruct (kcmp k (nth (pos - off - 1) x 0%N) (nth (cand - off - 1) x 0%N)).
    + (* Accept *)
      rewrite (csub_ok cand 1) by lia. rewrite bind_lift_ok.
      apply IH; lia.
    + (* Skip *)
      rewrite (csub_ok cand (off + 1)) by lia. rewrite bind_lift_ok.
      rewrite (csub_ok pos (cand - (off + 1))) by lia. rewrite bind_lift_ok.
      apply IH; lia.
    + (* Push *)
      destruct (off + 1 =? period) eqn:Eper.
      * apply Nat.eqb_eq in Eper.
        rewrite (csub_ok cand period) by lia. rewrite bind_lift_ok.
        apply IH; lia.
      * apply Nat.eqb_neq in Eper. apply IH; lia.
  - apply Nat.ltb_ge in Eloop. apply satq_ret. unfold rev_post. cbn [fst snd]. lia.
Qed.

Lemma suffix_rev_ok k : satq (pre_ev x) (suffix_rev x k) rev_post.
Proof.
  unfold suffix_rev. destruct (length x =? 1) eqn:E1.
  - apply Nat.eqb_eq in E1. apply satq_ret. unfold rev_post. cbn [fst snd]. lia.
  - apply Nat.eqb_neq in E1. destruct (length x) as [|c] eqn:En.
    + apply satq_ret. unfold rev_post. cbn [fst snd]. lia.
    + apply suffix_rev_loop_ok; lia.
Qed.

(* ------------------------------------------------------------------ *)
(* Shift::forward / Shift::reverse *)

Definition shift_post (sh : shift) : Prop :=
  match sh with
  | Small p => 1 <= p /\ p <= length x
  | Large s => (1 <= length x -> 1 <= s) /\ s <= length x
  end.

Lemma shift_fwd_ok plb cp :
  cp < Nat.max (length x) 1 -> 1 <= plb -> cp + plb <= Nat.max (length x) 1 ->
  satq (pre_ev x) (shift_fwd x plb cp) shift_post.
Proof.
  intros Hcp Hp1 Hsum. unfold shift_fwd.
  rewrite (csub_ok (length x) cp) by lia. rewrite bind_lift_ok.
  destruct (length x <=? cp * 2) eqn:Ebig.
  - apply Nat.leb_le in Ebig. apply satq_ret. cbn [shift_post]. lia.
  - apply Nat.leb_gt in Ebig.
    eapply satq_bind. { apply satq_guard_eq. apply Nat.leb_le. lia. }
    intros _ _.
    assert (Hle : (plb <=? length x - cp) = true) by (apply Nat.leb_le; lia).
    rewrite Hle.
    eapply satq_bind. { apply (satq_ret _ tt (fun _ => True)). exact I. }
    intros _ _.
    eapply satq_bind.
    { instantiate (1 := fun _ => True).
      destruct (cp <=? plb) eqn:Ecp.
      - apply Nat.leb_le in Ecp. apply is_equal_raw_needle_ok; lia.
      - apply satq_ret. exact I. }
    intros suf _.
    destruct (negb suf); apply satq_ret; cbn [shift_post]; lia.
Qed.

Lemma shift_rev_ok plb cp :
  (1 <= length x -> 1 <= cp) -> cp <= length x -> 1 <= plb -> (1 <= length x -> plb <= cp) ->
  satq (pre_ev x) (shift_rev x plb cp) shift_post.
Proof.
  intros Hcp1 Hcpn Hp1 Hpc. unfold shift_rev.
  rewrite (csub_ok (length x) cp) by lia. rewrite bind_lift_ok.
  destruct (length x <=? (length x - cp) * 2) eqn:Ebig.
  - apply Nat.leb_le in Ebig. apply satq_ret. cbn [shift_post]. lia.
  - apply Nat.leb_gt in Ebig.
    eapply satq_bind. { apply satq_guard_eq. apply Nat.leb_le. lia. }
    intros _ _.
    rewrite (csub_ok cp plb) by lia. rewrite bind_lift_ok.
    eapply satq_bind.
    { instantiate (1 := fun _ => True).
      destruct (length x - cp <=? plb) eqn:Er.
      - apply Nat.leb_le in Er. apply is_equal_raw_needle_ok; lia.
      - apply satq_ret. exact I. }
    intros pre _.
    destruct (negb pre); apply satq_ret; cbn [shift_post]; lia.
Qed.

End PreProofs.

(* ------------------------------------------------------------------ *)
(* twoway::Finder::new / twoway::FinderRev::new *)

Theorem tw_new_ok : forall x : list N,
  satq (pre_ev x) (tw_new x)
       (fun tw => tw_byteset tw = byteset_new x /\
                  (1 <= length x -> tw_cp tw < length x) /\
                  match tw_shift tw with
                  | Small p => 1 <= p /\ p <= length x
                  | Large s => (1 <= length x -> 1 <= s) /\ s <= length x
                  end).
Proof.
  intros x. unfold tw_new.
  eapply satq_bind. { apply suffix_fwd_ok. }
  intros mn (Hmn1 & Hmn2 & Hmn3).
  eapply satq_bind. { apply suffix_fwd_ok. }
  intros mx (Hmx1 & Hmx2 & Hmx3).
  destruct (fst mx <? fst mn).
  - eapply satq_bind. { apply shift_fwd_ok; eassumption. }
    intros sh Hsh. apply satq_ret. cbn [tw_byteset tw_cp tw_shift].
    split; [reflexivity|]. split; [lia|exact Hsh].
  - eapply satq_bind. { apply shift_fwd_ok; eassumption. }
    intros sh Hsh. apply satq_ret. cbn [tw_byteset tw_cp tw_shift].
    split; [reflexivity|]. split; [lia|exact Hsh].
Qed.

Theorem tw_new_rev_ok : forall x : list N,
  satq (pre_ev x) (tw_new_rev x)
       (fun tw => tw_byteset tw = byteset_new x /\
                  (1 <= length x -> 1 <= tw_cp tw) /\ tw_cp tw <= length x /\
                  match tw_shift tw with
                  | Small p => 1 <= p /\ p <= length x
                  | Large s => (1 <= length x -> 1 <= s) /\ s <= length x
                  end).
Proof.
  intros x. unfold tw_new_rev.
  eapply satq_bind. { apply suffix_rev_ok. }
  intros mn (Hmn1 & Hmn2 & Hmn3 & Hmn4).
  eapply satq_bind. { apply suffix_rev_ok. }
  intros mx (Hmx1 & Hmx2 & Hmx3 & Hmx4).
  destruct (fst mn <? fst mx).
  - eapply satq_bind. { apply shift_rev_ok; eassumption. }
    intros sh Hsh. apply satq_ret. cbn [tw_byteset tw_cp tw_shift].
    split; [reflexivity|]. split; [assumption|]. split; [assumption|exact Hsh].
  - eapply satq_bind. { apply shift_rev_ok; eassumption. }
    intros sh Hsh. apply satq_ret. cbn [tw_byteset tw_cp tw_shift].
    split; [reflexivity|]. split; [assumption|]. split; [assumption|exact Hsh].
Qed.

Print Assumptions tw_new_ok.
Print Assumptions tw_new_rev_ok.
