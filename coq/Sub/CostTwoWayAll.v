(* Unconditional forms of the Two-Way cost theorems: by Tier 2 (Sub/TwoWayTier2.v,
   Sub/TwoWayTier2Rev.v) the certificates hold for the output of the preprocessing
   on EVERY needle, so no hypothesis about the needle remains. *)
From Memchr Require Import Spec SpecProofs Params Base.Cost Sub.Prefilter Sub.TwoWay Sub.TwoWayCert
  Sub.TwoWayFwdProofs Sub.TwoWayTier2 Sub.TwoWayTier2Rev Sub.CostTwoWay.

Local Open Scope nat_scope.

Lemma tw_cert_fwd_new x tw : 1 <= length x -> fst (tw_new x) = Ok tw -> tw_cert_fwd x tw = true.
Proof.
  intros Hn H. pose proof (tw_cert_fwd_all x Hn) as Hall. unfold tw_cert_fwd_of in Hall.
  rewrite H in Hall. exact Hall.
Qed.

Lemma tw_cert_rev_new x tw : 1 <= length x -> fst (tw_new_rev x) = Ok tw -> tw_cert_rev x tw = true.
Proof.
  intros Hn H. pose proof (tw_cert_rev_all x Hn) as Hall. unfold tw_cert_rev_of in Hall.
  rewrite H in Hall. exact Hall.
Qed.

Theorem tw_find_cost_all : forall x h tw a st,
  fst (tw_new x) = Ok tw ->
  satc (tw_find tw None a h x st) (fun _ c => c <= 3 * length h + length x + 3).
Proof.
  intros x h tw a st Hnew. destruct (Nat.eq_dec (length x) 0) as [E|E].
  - unfold tw_find. rewrite E. cbn [Nat.eqb]. destruct (tw_shift tw); apply satc_ret; lia.
  - apply tw_find_cost_new; [exact Hnew|]. apply tw_cert_fwd_new; [lia|exact Hnew].
Qed.

Theorem tw_rfind_cost_all : forall x h tw,
  fst (tw_new_rev x) = Ok tw ->
  satc (tw_rfind tw h x) (fun _ c => c <= 3 * length h + length x + 3).
Proof.
  intros x h tw Hnew. destruct (Nat.eq_dec (length x) 0) as [E|E].
  - unfold tw_rfind. rewrite E. cbn [Nat.eqb]. destruct (tw_shift tw); apply satc_ret; lia.
  - apply tw_rfind_cost_new; [exact Hnew|]. apply tw_cert_rev_new; [lia|exact Hnew].
Qed.

Theorem tw_find_cost_pre_large_all : forall x h tw pf a st K1 K2 s,
  1 <= length x -> fst (tw_new x) = Ok tw -> tw_shift tw = Large s ->
  pre_ok x pf -> pre_mul_saturating = true -> pre_cost x pf K1 K2 ->
  Forall (fun b => (b < 256)%N) h ->
  satc (tw_find tw (Some pf) a h x st)
       (fun _ c => c <= (3 + K1 + K2) * (length h + 1) + length x + 3).
Proof.
  intros x h tw pf a st K1 K2 s Hn Hnew Hs Hok Hsat Hpc Hbytes.
  apply (tw_find_cost_pre_large_new x h tw pf a st K1 K2 s); try assumption.
  apply tw_cert_fwd_new; assumption.
Qed.

Theorem tw_find_cost_pre_small_weak_all : forall x h tw pf a st K1 K2 p,
  1 <= length x -> fst (tw_new x) = Ok tw -> tw_shift tw = Small p ->
  pre_ok x pf -> pre_mul_saturating = true -> pre_cost x pf K1 K2 ->
  Forall (fun b => (b < 256)%N) h ->
  satc (tw_find tw (Some pf) a h x st)
       (fun _ c => c <= (length x + K1 + K2 + 3) * (length h + 1)).
Proof.
  intros x h tw pf a st K1 K2 p Hn Hnew Hs Hok Hsat Hpc Hbytes.
  apply (tw_find_cost_pre_small_weak_new x h tw pf a st K1 K2 p); try assumption.
  apply tw_cert_fwd_new; assumption.
Qed.

Print Assumptions tw_find_cost_all.
Print Assumptions tw_rfind_cost_all.
Print Assumptions tw_find_cost_pre_large_all.
Print Assumptions tw_find_cost_pre_small_weak_all.
