(* The portable packed-pair prefilter (arch::all::packedpair::Finder::find_prefilter):
   it never panics, all its loads are in bounds, a reported candidate carries the
   two pair bytes and is at or before every occurrence of the needle, and None
   means that the needle does not occur. *)
From Memchr Require Import Spec SpecProofs Params Mem.Wrappers Mem.WrappersProofs Mem.Iter Mem.IterProofs
  Sub.PackedPair.

Lemma pf_new_inv x i1 i2 f : pf_new x i1 i2 = Ok f ->
  i1 < length x /\ i2 < length x /\ pf_i1 f = i1 /\ pf_i2 f = i2 /\
  pf_b1 f = nth i1 x 0%N /\ pf_b2 f = nth i2 x 0%N.
Proof.
  unfold pf_new, idx. intros H.
  destruct (nth_error x i1) as [b1|] eqn:E1; [|discriminate].
  destruct (nth_error x i2) as [b2|] eqn:E2; [|discriminate].
  injection H as <-. cbn [pf_i1 pf_i2 pf_b1 pf_b2].
  assert (i1 < length x) as L1 by (apply nth_error_Some; congruence).
  assert (i2 < length x) as L2 by (apply nth_error_Some; congruence).
  pose proof (nth_error_nth x i1 0%N E1) as N1.
  pose proof (nth_error_nth x i2 0%N E2) as N2.
  repeat split; try assumption; try reflexivity; symmetry; assumption.
Qed.

(* an occurrence pins every needle byte *)
Lemma occurs_nth_error x h q j : occurs_at x h q = true -> j < length x ->
  nth_error h (q + j) = Some (nth j x 0%N).
Proof.
  intros H Hj. apply occurs_at_eq in H as [Hb Hs].
  rewrite (nth_error_nth' h 0%N) by lia. f_equal.
  rewrite <- (nth_slice h q (length x) j 0%N Hj). rewrite Hs. reflexivity.
Qed.

Lemma nth_error_Some_nth (h : list N) k b : nth_error h k = Some b -> k < length h /\ nth k h 0%N = b.
Proof.
  intros H. split; [apply nth_error_Some; congruence|]. apply nth_error_nth. exact H.
Qed.

Lemma confirm_single b y : confirm [b] y = (b =? y)%N.
Proof. unfold confirm. cbn [existsb]. apply orb_false_r. Qed.

Lemma first_idx_skipn_some (p : N -> bool) (h : list N) i d :
  first_idx p (skipn i h) = Some d ->
  i + d < length h /\ p (nth (i + d) h 0%N) = true /\
  forall j, i <= j -> j < i + d -> p (nth j h 0%N) = false.
Proof.
  intros H. apply (first_idx_some p (skipn i h) d 0%N) in H as (H1 & H2 & H3).
  rewrite skipn_length in H1. rewrite nth_skipn' in H2.
  split; [lia|]. split; [exact H2|].
  intros j Hj1 Hj2. specialize (H3 (j - i) ltac:(lia)). rewrite nth_skipn' in H3.
  replace (i + (j - i)) with j in H3 by lia. exact H3.
Qed.

Lemma first_idx_skipn_none (p : N -> bool) (h : list N) i :
  first_idx p (skipn i h) = None ->
  forall j, i <= j -> j < length h -> p (nth j h 0%N) = false.
Proof.
  intros H j Hj1 Hj2. apply first_idx_none in H. rewrite Forall_forall in H.
  replace j with (i + (j - i)) by lia. rewrite <- nth_skipn'.
  apply H. apply nth_In. rewrite skipn_length. lia.
Qed.

(* a search on the suffix h[i..] whose events are re-based by i stays inside h *)
Lemma shift_suffix_satq {A} a (h : list N) i (m : M A) (P : A -> Prop) :
  i <= length h ->
  satq (load_ok (a + i) (length (skipn i h)) 0 0) m P ->
  satq (load_ok a (length h) 0 0) (fst m, map (shift_ev i) (snd m)) P.
Proof.
  intros Hi (v & Hv & HP & Ht). exists v. cbn [fst snd].
  split; [exact Hv|]. split; [exact HP|].
  apply Forall_forall. intros e He. apply in_map_iff in He as (e0 & <- & He0).
  rewrite Forall_forall in Ht. specialize (Ht e0 He0).
  destruct e0 as [r off w al| | |]; try exact I; try exact Ht.
  destruct r; [|exact Ht]. cbn [shift_ev load_ok] in Ht |- *.
  rewrite skipn_length in Ht.
  destruct Ht as [Hb Hal]. split; [lia|]. intros E. specialize (Hal E).
  replace (a + (off + i)) with (a + i + off) by lia. exact Hal.
Qed.

Section Proofs.
Variables (c : backend) (x : list N) (i1 i2 : nat) (f : portfinder) (a : nat) (h : list N).
Hypothesis Hnew : pf_new x i1 i2 = Ok f.
Hypothesis Hbytes : Forall (fun b => (b < 256)%N) h.
Hypothesis Hneedle : Forall (fun b => (b < 256)%N) x.
Notation ok := (load_ok a (length h) 0 0).

Definition pf_post (r : option nat) : Prop :=
  match r with
  | Some cd => (nth_error h (cd + i1) = Some (pf_b1 f) /\ nth_error h (cd + i2) = Some (pf_b2 f)) /\
               (forall q, occurs_at x h q = true -> cd <= q)
  | None => forall q, occurs_at x h q = false
  end.

Lemma pf_b1_byte : (pf_b1 f < 256)%N.
Proof.
  destruct (pf_new_inv _ _ _ _ Hnew) as (L1 & _ & _ & _ & E & _). rewrite E.
  rewrite Forall_forall in Hneedle. apply Hneedle. apply nth_In. exact L1.
Qed.

Lemma skipn_bytes i : Forall (fun b => (b < 256)%N) (skipn i h).
Proof.
  rewrite Forall_forall in *. intros y Hy. apply Hbytes. eapply SwarProofs.In_skipn'. exact Hy.
Qed.

Lemma occ_b1 q : occurs_at x h q = true -> q + i1 < length h /\ nth (q + i1) h 0%N = pf_b1 f.
Proof.
  intros Ho. destruct (pf_new_inv _ _ _ _ Hnew) as (L1 & _ & _ & _ & E & _).
  apply nth_error_Some_nth. rewrite E. apply occurs_nth_error; assumption.
Qed.

Lemma occ_b2 q : occurs_at x h q = true -> nth_error h (q + i2) = Some (pf_b2 f).
Proof.
  intros Ho. destruct (pf_new_inv _ _ _ _ Hnew) as (_ & L2 & _ & _ & _ & E).
  rewrite E. apply occurs_nth_error; assumption.
Qed.

Lemma pf_loop_sat : forall fuel i,
  i <= length h -> length h + 1 - i < fuel ->
  (forall q, occurs_at x h q = true -> i <= q + i1) ->
  satq ok (pf_loop c f a h fuel i) pf_post.
Proof.
  destruct (pf_new_inv _ _ _ _ Hnew) as (L1 & L2 & Ei1 & Ei2 & Eb1 & Eb2).
  induction fuel as [|fu IH]; intros i Hi Hfuel Hinv; [lia|].
  cbn [pf_loop]. rewrite Ei1, Ei2.
  eapply satq_bind. { unfold tick. apply (satq_emit _ _ (fun _ => True)); exact I. }
  intros _ _.
  eapply satq_bind. { apply satq_guard_eq. apply Nat.leb_le. exact Hi. }
  intros _ _.
  cbv zeta.
  eapply satq_bind.
  { apply shift_suffix_satq; [exact Hi|].
    apply backend_find_sat; [discriminate|apply skipn_bytes|].
    constructor; [apply pf_b1_byte|constructor]. }
  intros r ->.
  destruct (first_idx (confirm [pf_b1 f]) (skipn i h)) as [d|] eqn:Hfi.
  - (* memchr found byte1 at i + d *)
    apply first_idx_skipn_some in Hfi as (Hlt & Hhit & Hbefore).
    rewrite confirm_single in Hhit. apply N.eqb_eq in Hhit.
    assert (forall q, occurs_at x h q = true -> i + d <= q + i1) as Hge.
    { intros q Ho. destruct (occ_b1 q Ho) as [Hq1 Hq2].
      destruct (Nat.le_gt_cases (i + d) (q + i1)) as [Hle|Hgt]; [exact Hle|exfalso].
      specialize (Hbefore (q + i1) (Hinv q Ho) Hgt).
      rewrite confirm_single, Hq2, N.eqb_refl in Hbefore. discriminate. }
    assert (forall q, occurs_at x h q = true -> q + i1 <> i + d ->
                      i + d + 1 <= q + i1) as Hstep.
    { intros q Ho Hne. specialize (Hge q Ho). lia. }
    assert (i + d + 1 <= length h) as Hi' by lia.
    assert (length h + 1 - (i + d + 1) < fu) as Hfuel' by lia.
    destruct (i + d <? i1) eqn:Hsub.
    + (* checked_sub fails: skip *)
      apply Nat.ltb_lt in Hsub.
      apply IH; [exact Hi'|exact Hfuel'|].
      intros q Ho. apply Hstep; [exact Ho|lia].
    + apply Nat.ltb_ge in Hsub.
      assert (forall q, occurs_at x h q = true -> q + i1 = i + d ->
                        nth_error h (i + d - i1 + i2) = Some (pf_b2 f)) as Hal.
      { intros q Ho Heq. replace (i + d - i1) with q by lia. apply occ_b2. exact Ho. }
      destruct (nth_error h (i + d - i1 + i2)) as [b2|] eqn:Hn2.
      * destruct (b2 =? pf_b2 f)%N eqn:Hb2.
        -- apply N.eqb_eq in Hb2. subst b2.
           apply satq_ret. unfold pf_post. split; [split|].
           ++ replace (i + d - i1 + i1) with (i + d) by lia.
              rewrite (nth_error_nth' h 0%N Hlt). f_equal. symmetry. exact Hhit.
           ++ exact Hn2.
           ++ intros q Ho. specialize (Hge q Ho). lia.
        -- apply N.eqb_neq in Hb2.
           apply IH; [exact Hi'|exact Hfuel'|].
           intros q Ho. apply Hstep; [exact Ho|]. intros Heq.
           specialize (Hal q Ho Heq). injection Hal as Hal. contradiction.
      * apply IH; [exact Hi'|exact Hfuel'|].
        intros q Ho. apply Hstep; [exact Ho|]. intros Heq.
        specialize (Hal q Ho Heq). discriminate.
  - (* memchr found nothing: the needle cannot occur *)
    apply satq_ret. unfold pf_post. intros q.
    destruct (occurs_at x h q) eqn:Ho; [exfalso|reflexivity].
    destruct (occ_b1 q Ho) as [Hq1 Hq2].
    pose proof (first_idx_skipn_none _ _ _ Hfi (q + i1) (Hinv q Ho) Hq1) as Hno.
    rewrite confirm_single, Hq2, N.eqb_refl in Hno. discriminate.
Qed.

End Proofs.

Theorem pf_prefilter_correct : forall (c : backend) (x : list N) (i1 i2 : nat) (f : portfinder) (a : nat) (h : list N),
  pf_new x i1 i2 = Ok f ->
  Forall (fun b => (b < 256)%N) h -> Forall (fun b => (b < 256)%N) x ->
  satq (load_ok a (length h) 0 0) (pf_find_prefilter c f a h)
    (fun r => match r with
              | Some cd => (nth_error h (cd + i1) = Some (pf_b1 f) /\ nth_error h (cd + i2) = Some (pf_b2 f)) /\
                           (forall q, occurs_at x h q = true -> cd <= q)
              | None => forall q, occurs_at x h q = false
              end).
Proof.
  intros c x i1 i2 f a h Hnew Hh Hx. unfold pf_find_prefilter.
  apply (pf_loop_sat c x i1 i2 f a h Hnew Hh Hx); [lia|lia|].
  intros q _. lia.
Qed.

Print Assumptions pf_prefilter_correct.
