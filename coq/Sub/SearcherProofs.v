(* The meta searcher (Searcher/SearcherRev, Finder/FinderRev, memmem::find/rfind)
   returns exactly the leftmost / rightmost occurrence, for every needle,
   haystack, prefilter configuration, ranker, architecture and prefilter state.
   Two-Way is used under its decidable certificate (Tier 1). *)
From Memchr Require Import Spec SpecProofs Params
  Mem.Wrappers Mem.WrappersProofs Mem.SwarProofs Mem.NoMatch Mem.Iter Mem.IterProofs Mem.BytewiseProofs
  Sub.IsEqual Sub.Pair Sub.PairProofs Sub.RabinKarp Sub.RabinKarpProofs
  Sub.PackedPair Sub.PackedPairProofs Sub.PortablePrefilterProofs
  Sub.Prefilter Sub.TwoWay Sub.TwoWayCert Sub.TwoWayPreProofs Sub.TwoWayFwdProofs Sub.TwoWayRevProofs
  Sub.Searcher.

Definition bytes_ok (l : list N) : Prop := Forall (fun b => (b < 256)%N) l.

Lemma satq_mono {A} (Q Q' : event -> Prop) (m : M A) (P : A -> Prop) :
  (forall e, Q e -> Q' e) -> satq Q m P -> satq Q' m P.
Proof.
  intros H (v & Hv & HP & Ht). exists v. split; [exact Hv|]. split; [exact HP|].
  eapply Forall_impl; [|exact Ht]. exact H.
Qed.

Lemma load_ok_no_needle a lh an ln e :
  (match e with Tick _ => True | _ => False end) -> load_ok a lh an ln e.
Proof. destruct e; cbn; tauto. Qed.

Lemma load_ok_label a lh an ln l : load_ok a lh an ln (Label l).
Proof. exact I. Qed.

Lemma bytes_nth x i : bytes_ok x -> i < length x -> (nth i x 0 < 256)%N.
Proof. intros H Hi. unfold bytes_ok in H. rewrite Forall_forall in H. apply H. apply nth_In. exact Hi. Qed.

(* an occurrence puts the needle's bytes at the corresponding haystack positions *)
Lemma occ_nth x h q j : occurs_at x h q = true -> j < length x -> nth (q + j) h 0%N = nth j x 0%N.
Proof.
  intros Ho Hj. apply occurs_at_eq in Ho as [Hb He].
  transitivity (nth j (slice h q (length x)) 0%N); [symmetry; apply nth_slice; exact Hj|rewrite He; reflexivity].
Qed.

(* ---------- Prefilter::find_simple ---------- *)
Lemma find_simple_pre_ok x p :
  bytes_ok x -> pre_rarest_offset p < length x ->
  pre_rarest_byte p = nth (pre_rarest_offset p) x 0%N ->
  pre_ok x (find_simple p).
Proof.
  intros Hx Hoff Hb a' an' h' Hh'. unfold find_simple.
  assert (pre_rarest_byte p < 256)%N as Hb256 by (rewrite Hb; apply bytes_nth; assumption).
  eapply satq_bind.
  { eapply satq_mono; [intros e He; apply load_ok_hay_only; exact He|].
    apply (swar_find_sat usize_bytes swar_loop_words true [pre_rarest_byte p] a' h').
    - unfold usize_bytes. lia.
    - destruct params_mem_ok as (_ & _ & _ & _ & _ & _ & _ & A). exact A.
    - exact Hh'.
    - constructor; [exact Hb256|constructor].
    - left. reflexivity. }
  intros r ->. apply satq_ret.
  set (pb := confirm [pre_rarest_byte p]).
  assert (forall y, pb y = true <-> y = pre_rarest_byte p) as Hpb.
  { intros y. unfold pb, confirm. cbn. rewrite orb_false_r. rewrite N.eqb_eq. split; congruence. }
  destruct (first_idx pb h') as [i|] eqn:Ei; cbn [option_map].
  - intros q Hq.
    apply (first_idx_some pb h' i 0%N) in Ei as (Hi & _ & Hbefore).
    destruct (le_lt_dec (i - pre_rarest_offset p) q) as [Hle|Hlt]; [exact Hle|]. exfalso.
    assert (q + pre_rarest_offset p < i) as Hlt2 by lia.
    specialize (Hbefore _ Hlt2). rewrite (occ_nth x h' q _ Hq Hoff), <- Hb in Hbefore.
    assert (pb (pre_rarest_byte p) = true) by (apply Hpb; reflexivity). congruence.
  - intros q. destruct (occurs_at x h' q) eqn:Eo; [|reflexivity]. exfalso.
    apply first_idx_none in Ei. rewrite Forall_forall in Ei.
    pose proof (occurs_at_bound _ _ _ Eo) as Hbd.
    assert (In (nth (q + pre_rarest_offset p) h' 0%N) h') as Hin by (apply nth_In; lia).
    apply Ei in Hin. rewrite (occ_nth x h' q _ Eo Hoff), <- Hb in Hin.
    assert (pb (pre_rarest_byte p) = true) by (apply Hpb; reflexivity). congruence.
Qed.

(* ---------- Prefilter::find for every kind ---------- *)
Definition prefilter_for (x : list N) (p : prefilter) : Prop :=
  pre_rarest_offset p < length x /\ pre_rarest_byte p = nth (pre_rarest_offset p) x 0%N /\
  match pk p with
  | PkVec w => exists isa i1 i2, pw_new isa x i1 i2 = Ok w
  | PkFallback f => exists i1 i2, pf_new x i1 i2 = Ok f
  end.

(* pair offsets are u8 values at most 254 (C19): the constants of the cost bounds depend on this *)
Definition prefilter_small (p : prefilter) : Prop :=
  pre_rarest_offset p <= 254 /\ match pk p with PkFallback f => pf_i1 f <= 254 | PkVec _ => True end.

Lemma prefilter_find_pre_ok ar x p : bytes_ok x -> prefilter_for x p -> pre_ok x (prefilter_find ar p).
Proof.
  intros Hx (Hoff & Hb & Hk) a' an' h' Hh'. unfold prefilter_find.
  destruct (pk p) as [w|f].
  - destruct Hk as (isa & i1 & i2 & Hw).
    destruct (length h' <? pw_min w) eqn:E.
    + apply (find_simple_pre_ok x p Hx Hoff Hb a' an' h' Hh').
    + apply Nat.ltb_ge in E.
      eapply satq_weaken; [apply (pw_prefilter_correct isa x i1 i2 w h' a' an' Hw E)|].
      intros [c|] Hr; [exact (proj2 Hr)|exact Hr].
  - destruct Hk as (i1 & i2 & Hf).
    assert (forall c, satq (load_ok a' (length h') an' (length x)) (pf_find_prefilter c f a' h')
              (fun r => match r with
                        | Some cd => forall i, occurs_at x h' i = true -> cd <= i
                        | None => forall i, occurs_at x h' i = false end)) as Hgen.
    { intros c. eapply satq_mono; [intros e He; apply load_ok_hay_only; exact He|].
      eapply satq_weaken; [apply (pf_prefilter_correct c x i1 i2 f a' h' Hf Hh' Hx)|].
      intros [cd|] Hr; [exact (proj2 Hr)|exact Hr]. }
    apply Hgen.
Qed.

(* computations without events *)
Lemma quiet_bind {A B} (m : M A) (f : A -> M B) :
  snd m = [] -> (forall v, snd (f v) = []) -> snd (bind m f) = [].
Proof.
  intros Hm Hf. unfold bind. destruct (fst m) as [v|p]; cbn; [rewrite Hm, Hf; reflexivity|exact Hm].
Qed.

Lemma pair_with_ranker_quiet rank x : snd (pair_with_ranker rank x) = [].
Proof.
  unfold pair_with_ranker. destruct (length x <=? 1); [reflexivity|].
  apply quiet_bind; [reflexivity|]. intros r1.
  apply quiet_bind; [reflexivity|]. intros r2.
  apply quiet_bind; [reflexivity|]. intros st.
  apply quiet_bind; [unfold guard; destruct (negb _); reflexivity|]. intros _. reflexivity.
Qed.

(* ---------- Searcher::new ---------- *)
Definition is_vec_arch (ar : arch) : bool :=
  match ar with AX86 NoSimd | AOther => false | _ => true end.

(* needles the forward meta searcher hands to Two-Way on this architecture *)
Definition tw_reach_fwd (ar : arch) (x : list N) : bool :=
  (2 <=? length x) && negb (is_vec_arch ar && do_packed_search x).

Definition strat_for (ar : arch) (x : list N) (s : searcher) : Prop :=
  s_rk s = rk_new x /\
  match s_strat s with
  | SEmpty => x = []
  | SOneByte b => x = [b]
  | SPacked w => do_packed_search x = true /\ exists isa i1 i2, pw_new isa x i1 i2 = Ok w
  | STwoWay tw => tw_reach_fwd ar x = true /\ fst (tw_new x) = Ok tw
  | STwoWayPre tw p => tw_reach_fwd ar x = true /\ fst (tw_new x) = Ok tw /\ prefilter_for x p
  end.

(* events of a construction: labels, ticks, loads inside the needle *)
Definition new_ev (x : list N) (e : event) : Prop := forall a lh an, load_ok a lh an (length x) e.

Lemma new_ev_label x l : new_ev x (Label l).
Proof. intros a lh an. exact I. Qed.

Lemma label_sat x l : satq (new_ev x) (label l) (fun _ => True).
Proof. apply satq_emit; [apply new_ev_label|exact I]. Qed.

Lemma tw_new_sat x : satq (new_ev x) (tw_new x) (fun tw => fst (tw_new x) = Ok tw).
Proof.
  destruct (satq_fst _ _ _ (tw_new_ok x)) as (tw & Htw & _ & Ht).
  exists tw. split; [exact Htw|]. split; [exact Htw|]. exact Ht.
Qed.

Lemma searcher_twoway_sat ar x rk ps :
  tw_reach_fwd ar x = true -> rk = rk_new x -> (forall p, ps = Some p -> prefilter_for x p) ->
  satq (new_ev x) (searcher_twoway x rk ps) (strat_for ar x).
Proof.
  intros H2 Hrk Hps. unfold searcher_twoway.
  eapply satq_bind; [apply tw_new_sat|]. intros tw Htw.
  destruct ps as [p|].
  - eapply satq_bind; [apply label_sat|]. intros _ _. apply satq_ret.
    split; [exact Hrk|]. cbn. split; [exact H2|]. split; [exact Htw|]. apply Hps. reflexivity.
  - eapply satq_bind; [apply label_sat|]. intros _ _. apply satq_ret.
    split; [exact Hrk|]. cbn. split; [exact H2|exact Htw].
Qed.

Lemma pw_new_i1 isa x i1 i2 w : pw_new isa x i1 i2 = Ok w -> pp_i1 (pw_big w) = i1 /\ i1 < length x.
Proof.
  intros H. unfold pw_new in H.
  assert (forall B f, pp_new B x i1 i2 = Ok f -> pp_i1 f = i1 /\ i1 < length x) as Hpp.
  { intros B f Hf. unfold pp_new in Hf. unfold idx in Hf.
    destruct (nth_error x i1) eqn:E1; [|discriminate].
    destruct (nth_error x i2) eqn:E2; [|discriminate].
    injection Hf as <-. cbn. split; [reflexivity|]. apply nth_error_Some. congruence. }
  destruct isa.
  - destruct (pp_new (isa_bytes PSse2) x i1 i2) eqn:E; [|discriminate]. injection H as <-. cbn. eapply Hpp. exact E.
  - destruct (pp_new sse2_bytes x i1 i2) eqn:Ea; [|discriminate].
    destruct (pp_new avx2_bytes x i1 i2) eqn:Eb; [|discriminate]. injection H as <-. cbn. eapply Hpp. exact Eb.
  - destruct (pp_new (isa_bytes PNeon) x i1 i2) eqn:E; [|discriminate]. injection H as <-. cbn. eapply Hpp. exact E.
  - destruct (pp_new (isa_bytes PSimd128) x i1 i2) eqn:E; [|discriminate]. injection H as <-. cbn. eapply Hpp. exact E.
Qed.

Lemma pair_params_ok : (pair_scan_cap <= 256)%N /\ 2 <= pair_scan_skip.
Proof. split; [vm_compute; discriminate|vm_compute; repeat constructor]. Qed.

Lemma with_vec_sat ar cfg x rk isa lp lpre i1 i2 :
  2 <= length x -> rk = rk_new x -> i1 < length x -> i2 < length x ->
  satq (new_ev x) (with_vec cfg x rk isa lp lpre i1 i2) (strat_for ar x).
Proof.
  intros H2 Hrk H1 H2'. unfold with_vec.
  assert (do_packed_search x = false -> tw_reach_fwd ar x = true) as Hreach.
  { intros E. unfold tw_reach_fwd. rewrite E, andb_false_r. cbn [negb]. rewrite andb_true_r. apply Nat.leb_le. exact H2. }
  destruct (pw_new_ok isa x i1 i2 H1 H2') as [w Hw]. rewrite Hw, bind_lift_ok.
  destruct (do_packed_search x) eqn:Ed.
  - eapply satq_bind; [apply label_sat|]. intros _ _. apply satq_ret.
    split; [exact Hrk|]. cbn. split; [exact Ed|]. exists isa, i1, i2. exact Hw.
  - destruct cfg.
    + apply searcher_twoway_sat; [apply Hreach; reflexivity|exact Hrk|discriminate].
    + unfold prefilter_vec.
      eapply satq_bind.
      { eapply satq_bind; [apply label_sat|]. intros _ _.
        destruct (pw_new_i1 isa x i1 i2 w Hw) as [Ei Hi]. rewrite Ei.
        rewrite (idx_ok x i1 0%N Hi), bind_lift_ok. apply satq_ret.
        instantiate (1 := fun p => prefilter_for x p).
        split; [exact Hi|]. split; [reflexivity|]. cbn. exists isa, i1, i2. exact Hw. }
      intros p Hp. apply searcher_twoway_sat; [apply Hreach; reflexivity|exact Hrk|].
      intros p' [= <-]. exact Hp.
Qed.

Lemma with_fallback_sat ar cfg rank x rk i1 i2 :
  is_vec_arch ar = false ->
  2 <= length x -> rk = rk_new x -> i1 < length x -> i2 < length x ->
  satq (new_ev x) (with_fallback cfg rank x rk i1 i2) (strat_for ar x).
Proof.
  intros Hv H2 Hrk H1 H2'. unfold with_fallback.
  assert (tw_reach_fwd ar x = true) as Hreach.
  { unfold tw_reach_fwd. rewrite Hv. cbn [andb negb]. rewrite andb_true_r. apply Nat.leb_le. exact H2. }
  destruct cfg.
  - apply searcher_twoway_sat; [exact Hreach|exact Hrk|discriminate].
  - unfold prefilter_fallback.
    eapply satq_bind.
    { rewrite (idx_ok x i1 0%N H1), bind_lift_ok.
      instantiate (1 := fun ps => forall p, ps = Some p -> prefilter_for x p).
      destruct (max_fallback_rank <? rank (nth i1 x 0%N))%N.
      - eapply satq_bind; [apply label_sat|]. intros _ _. apply satq_ret. discriminate.
      - unfold pf_new. rewrite (idx_ok x i1 0%N H1), (idx_ok x i2 0%N H2'), bind_lift_ok.
        eapply satq_bind; [apply label_sat|]. intros _ _. apply satq_ret.
        intros p [= <-]. split; [exact H1|]. split; [reflexivity|]. cbn.
        exists i1, i2. unfold pf_new. rewrite (idx_ok x i1 0%N H1), (idx_ok x i2 0%N H2'). reflexivity. }
    intros ps Hps. apply searcher_twoway_sat; [exact Hreach|exact Hrk|exact Hps].
Qed.

Theorem searcher_new_sat cfg rank ar x :
  satq (new_ev x) (searcher_new cfg rank ar x) (strat_for ar x).
Proof.
  unfold searcher_new. destruct (length x <=? 1) eqn:E.
  - apply Nat.leb_le in E. destruct x as [|b [|c t]]; cbn [length] in E; try lia.
    + eapply satq_bind; [apply label_sat|]. intros _ _. apply satq_ret. split; reflexivity.
    + eapply satq_bind; [apply label_sat|]. intros _ _. apply satq_ret. split; reflexivity.
  - apply Nat.leb_gt in E.
    destruct pair_params_ok as [Hcap Hskip].
    destruct (pair_with_ranker_spec rank x Hcap Hskip) as [_ Hsome].
    destruct (Hsome ltac:(lia)) as (i1 & i2 & Hr & Hne & H1 & H2 & _).
    eapply satq_bind.
    { instantiate (1 := fun pr => pr = Some (i1, i2)).
      exists (Some (i1, i2)). split; [exact Hr|]. split; [reflexivity|].
      rewrite pair_with_ranker_quiet. constructor. }
    intros pr ->.
    assert (i1 =? i2 = false) as -> by (apply Nat.eqb_neq; exact Hne). cbn [negb]. rewrite bind_guard_true.
    destruct ar as [[| |]| | |];
      first [apply with_vec_sat; (lia || reflexivity || assumption)
            |apply with_fallback_sat; (lia || reflexivity || assumption)].
Qed.

(* ---------- Searcher::find ---------- *)
Lemma find_spec_short x h : length h < length x -> find_spec x h = None.
Proof. intros H. unfold find_spec. apply Nat.leb_gt in H. rewrite H. reflexivity. Qed.

Lemma rfind_spec_short x h : length h < length x -> rfind_spec x h = None.
Proof. intros H. unfold rfind_spec. apply Nat.leb_gt in H. rewrite H. reflexivity. Qed.

Lemma occurs_one b h i : occurs_at [b] h i = true <-> i < length h /\ nth i h 0%N = b.
Proof.
  rewrite occurs_at_eq. cbn [length]. split.
  - intros [H1 H2]. split; [lia|]. rewrite (slice_one h i 0%N) in H2 by lia. congruence.
  - intros [H1 H2]. split; [lia|]. rewrite (slice_one h i 0%N) by lia. congruence.
Qed.

Lemma confirm_one b y : confirm [b] y = (b =? y)%N.
Proof. unfold confirm. cbn. apply orb_false_r. Qed.

Lemma find_spec_one b h : find_spec [b] h = first_idx (confirm [b]) h.
Proof.
  destruct (first_idx (confirm [b]) h) as [i|] eqn:E.
  - apply (first_idx_some _ h i 0%N) in E as (Hi & Hp & Hbefore). apply find_spec_some. split.
    + apply occurs_one. split; [exact Hi|]. rewrite confirm_one in Hp. apply N.eqb_eq in Hp. congruence.
    + intros j Hj. destruct (occurs_at [b] h j) eqn:Eo; [|reflexivity].
      apply occurs_one in Eo as [_ Eo]. specialize (Hbefore j Hj). rewrite confirm_one, Eo, N.eqb_refl in Hbefore. discriminate.
  - apply find_spec_none. intros j. destruct (occurs_at [b] h j) eqn:Eo; [|reflexivity].
    apply occurs_one in Eo as [Hj Eo]. apply first_idx_none in E. rewrite Forall_forall in E.
    specialize (E (nth j h 0%N) (nth_In _ _ Hj)). rewrite confirm_one, Eo, N.eqb_refl in E. discriminate.
Qed.

Lemma rfind_spec_one b h : rfind_spec [b] h = last_idx (confirm [b]) h.
Proof.
  destruct (last_idx (confirm [b]) h) as [i|] eqn:E.
  - apply (last_idx_some _ h i 0%N) in E as (Hi & Hp & Hafter). apply rfind_spec_some. split.
    + apply occurs_one. split; [exact Hi|]. rewrite confirm_one in Hp. apply N.eqb_eq in Hp. congruence.
    + intros j Hj. destruct (occurs_at [b] h j) eqn:Eo; [|reflexivity].
      apply occurs_one in Eo as [Hjl Eo]. specialize (Hafter j Hj Hjl). rewrite confirm_one, Eo, N.eqb_refl in Hafter. discriminate.
  - apply rfind_spec_none. intros j. destruct (occurs_at [b] h j) eqn:Eo; [|reflexivity].
    apply occurs_one in Eo as [Hj Eo]. apply last_idx_none in E. rewrite Forall_forall in E.
    specialize (E (nth j h 0%N) (nth_In _ _ Hj)). rewrite confirm_one, Eo, N.eqb_refl in E. discriminate.
Qed.

Section Find.
Variables (ar : arch) (x h : list N) (a an : nat).
Hypothesis Hx : bytes_ok x.
Hypothesis Hh : bytes_ok h.
Notation Q := (load_ok a (length h) an (length x)).

Lemma rk_find_here : satq Q (rk_find (rk_new x) x h) (fun r => r = find_spec x h).
Proof. eapply satq_mono; [|apply rk_find_correct]. intros e He. apply He. Qed.

Lemma rk_rfind_here : satq Q (rk_rfind (rk_new_rev x) x h) (fun r => r = rfind_spec x h).
Proof. eapply satq_mono; [|apply rk_rfind_correct]. intros e He. apply He. Qed.

Theorem searcher_find_sat s st :
  strat_for ar x s ->
  (tw_reach_fwd ar x = true -> tw_cert_fwd_of x = true) ->
  (forall tw p, s_strat s = STwoWayPre tw p -> pre_mul_saturating = true) ->
  satq Q (searcher_find ar s st a h x) (fun r => fst r = find_spec x h).
Proof.
  intros [Hrk Hs] Hcert Hsat. unfold searcher_find.
  destruct (length h <? length x) eqn:El.
  { apply Nat.ltb_lt in El. apply satq_ret. cbn. symmetry. apply find_spec_short. exact El. }
  destruct (s_strat s) as [|b|w|tw|tw p] eqn:Es.
  - subst x. apply satq_ret. cbn. symmetry. apply find_spec_empty.
  - subst x.
    eapply satq_bind.
    { eapply satq_mono; [intros e He; apply load_ok_hay_only; exact He|].
      apply (backend_find_sat [b] a h ltac:(discriminate) Hh Hx). }
    intros r ->. apply satq_ret. cbn. symmetry. apply find_spec_one.
  - destruct Hs as [_ (isa & i1 & i2 & Hw)].
    destruct (length h <? pw_min w) eqn:Em.
    + rewrite Hrk. eapply satq_bind; [apply rk_find_here|]. intros r ->. apply satq_ret. reflexivity.
    + apply Nat.ltb_ge in Em.
      eapply satq_bind; [apply (pw_find_correct isa x i1 i2 w h a an Hw Em)|].
      intros r ->. apply satq_ret. reflexivity.
  - destruct Hs as [Hreach Htw].
    destruct (rk_is_fast h).
    + rewrite Hrk. eapply satq_bind; [apply rk_find_here|]. intros r ->. apply satq_ret. reflexivity.
    + specialize (Hcert Hreach). unfold tw_cert_fwd_of in Hcert. rewrite Htw in Hcert.
      destruct (satq_fst _ _ _ (tw_new_ok x)) as (tw' & Htw' & (Hbs & _) & _).
      rewrite Htw in Htw'. injection Htw' as <-.
      apply tw_find_correct; [exact Hcert|exact Hbs|discriminate|exact Hh].
  - destruct Hs as (Hreach & Htw & Hp).
    destruct (rk_is_fast h).
    + rewrite Hrk. eapply satq_bind; [apply rk_find_here|]. intros r ->. apply satq_ret. reflexivity.
    + specialize (Hcert Hreach). unfold tw_cert_fwd_of in Hcert. rewrite Htw in Hcert.
      destruct (satq_fst _ _ _ (tw_new_ok x)) as (tw' & Htw' & (Hbs & _) & _).
      rewrite Htw in Htw'. injection Htw' as <-.
      apply tw_find_correct; [exact Hcert|exact Hbs| |exact Hh].
      intros pf [= <-]. split; [apply prefilter_find_pre_ok; assumption|].
      eapply Hsat. reflexivity.
Qed.

End Find.

(* ---------- SearcherRev ---------- *)
Definition rstrat_for (x : list N) (s : rsearcher) : Prop :=
  r_rk s = rk_new_rev x /\
  match r_strat s with
  | REmpty => x = []
  | ROneByte b => x = [b]
  | RTwoWay tw => 2 <= length x /\ fst (tw_new_rev x) = Ok tw
  end.

Theorem rsearcher_new_sat x : satq (new_ev x) (rsearcher_new x) (rstrat_for x).
Proof.
  unfold rsearcher_new.
  eapply satq_bind.
  { instantiate (1 := fun k => match k with
                               | REmpty => x = []
                               | ROneByte b => x = [b]
                               | RTwoWay tw => 2 <= length x /\ fst (tw_new_rev x) = Ok tw end).
    destruct (length x <=? 1) eqn:E.
    - apply Nat.leb_le in E. destruct x as [|b [|c t]]; cbn [length] in E; try lia; apply satq_ret; reflexivity.
    - apply Nat.leb_gt in E.
      destruct (satq_fst _ _ _ (tw_new_rev_ok x)) as (tw & Htw & _ & Ht).
      eapply satq_bind. { exists tw. split; [exact Htw|]. split; [exact (eq_refl tw)|exact Ht]. }
      intros tw' ->. apply satq_ret. split; [lia|exact Htw]. }
  intros k Hk. apply satq_ret. split; [reflexivity|exact Hk].
Qed.

(* needles the reverse meta searcher hands to Two-Way *)
Definition tw_reach_rev (x : list N) : bool := 2 <=? length x.

Section RFind.
Variables (ar : arch) (x h : list N) (a an : nat).
Hypothesis Hx : bytes_ok x.
Hypothesis Hh : bytes_ok h.
Notation Q := (load_ok a (length h) an (length x)).

Theorem rsearcher_rfind_sat s :
  rstrat_for x s ->
  (tw_reach_rev x = true -> tw_cert_rev_of x = true) ->
  satq Q (rsearcher_rfind ar s a h x) (fun r => r = rfind_spec x h).
Proof.
  intros [Hrk Hs] Hcert. unfold rsearcher_rfind.
  destruct (length h <? length x) eqn:El.
  { apply Nat.ltb_lt in El. apply satq_ret. symmetry. apply rfind_spec_short. exact El. }
  destruct (r_strat s) as [|b|tw] eqn:Es.
  - subst x. apply satq_ret. symmetry. apply rfind_spec_empty.
  - subst x.
    eapply satq_weaken.
    { eapply satq_mono; [intros e He; apply load_ok_hay_only; exact He|].
      apply (backend_rfind_sat [b] a h ltac:(discriminate) Hh Hx). }
    intros r ->. symmetry. apply rfind_spec_one.
  - destruct Hs as [H2 Htw].
    destruct (rk_is_fast h).
    + rewrite Hrk. apply (rk_rfind_here x h a an).
    + specialize (Hcert ltac:(apply Nat.leb_le; exact H2)). unfold tw_cert_rev_of in Hcert. rewrite Htw in Hcert.
      destruct (satq_fst _ _ _ (tw_new_rev_ok x)) as (tw' & Htw' & (Hbs & _) & _).
      rewrite Htw in Htw'. injection Htw' as <-.
      eapply satq_mono; [|apply (tw_rfind_correct x h tw Hcert Hbs)].
      intros e He. destruct e; cbn in *; tauto.
Qed.

End RFind.

(* ---------- Finder / FinderRev / memmem::find / memmem::rfind ---------- *)
Lemma new_ev_here x a lh an e : new_ev x e -> load_ok a lh an (length x) e.
Proof. intros H. apply H. Qed.

Section Top.
Variables (ar : arch) (x h : list N) (a an : nat).
Hypothesis Hx : bytes_ok x.
Hypothesis Hh : bytes_ok h.
Notation Q := (load_ok a (length h) an (length x)).

(* FinderBuilder::build_forward_with_ranker(..).find(h): any prefilter setting, any ranker *)
Theorem finder_find_correct cfg rank :
  (tw_reach_fwd ar x = true -> tw_cert_fwd_of x = true) ->
  pre_mul_saturating = true ->
  satq Q (f <- finder_new cfg rank ar x;; finder_find ar f a h) (fun r => r = find_spec x h).
Proof.
  intros Hcert Hsat. unfold finder_new, finder_find.
  eapply satq_bind.
  { eapply satq_bind.
    - eapply satq_mono; [intros e; apply new_ev_here|]. apply (searcher_new_sat cfg rank ar x).
    - intros s Hs. apply satq_ret.
      instantiate (1 := fun f => f_needle f = x /\ strat_for ar x (f_searcher f)).
      cbn. split; [reflexivity|exact Hs]. }
  intros f [Hn Hs]. rewrite Hn.
  eapply satq_bind.
  { apply (searcher_find_sat ar x h a an Hx Hh (f_searcher f) prestate_new Hs Hcert). intros tw p _. exact Hsat. }
  intros r Hr. apply satq_ret. exact Hr.
Qed.

(* a finder built once answers every later search, whatever prefilter state it starts from *)
Theorem finder_reuse_correct cfg rank f st :
  fst (finder_new cfg rank ar x) = Ok f ->
  (tw_reach_fwd ar x = true -> tw_cert_fwd_of x = true) ->
  pre_mul_saturating = true ->
  satq Q (searcher_find ar (f_searcher f) st a h (f_needle f)) (fun r => fst r = find_spec x h).
Proof.
  intros Hf Hcert Hsat.
  destruct (satq_fst _ _ _ (searcher_new_sat cfg rank ar x)) as (s & Hs & Hstrat & _).
  unfold finder_new in Hf. rewrite fst_bind, Hs in Hf. cbn in Hf. injection Hf as <-. cbn [f_needle f_searcher].
  apply (searcher_find_sat ar x h a an Hx Hh s st Hstrat Hcert). intros tw p _. exact Hsat.
Qed.

Theorem rfinder_rfind_correct :
  (tw_reach_rev x = true -> tw_cert_rev_of x = true) ->
  satq Q (f <- rfinder_new x;; rfinder_rfind ar f a h) (fun r => r = rfind_spec x h).
Proof.
  intros Hcert. unfold rfinder_new, rfinder_rfind.
  eapply satq_bind.
  { eapply satq_bind.
    - eapply satq_mono; [intros e; apply new_ev_here|]. apply (rsearcher_new_sat x).
    - intros s Hs. apply satq_ret.
      instantiate (1 := fun f => rf_needle f = x /\ rstrat_for x (rf_searcher f)).
      cbn. split; [reflexivity|exact Hs]. }
  intros f [Hn Hs]. rewrite Hn.
  apply (rsearcher_rfind_sat ar x h a an Hx Hh (rf_searcher f) Hs Hcert).
Qed.

Theorem rfinder_reuse_correct f :
  fst (rfinder_new x) = Ok f ->
  (tw_reach_rev x = true -> tw_cert_rev_of x = true) ->
  satq Q (rfinder_rfind ar f a h) (fun r => r = rfind_spec x h).
Proof.
  intros Hf Hcert.
  destruct (satq_fst _ _ _ (rsearcher_new_sat x)) as (s & Hs & Hstrat & _).
  unfold rfinder_new in Hf. rewrite fst_bind, Hs in Hf. cbn in Hf. injection Hf as <-.
  unfold rfinder_rfind. cbn [rf_needle rf_searcher].
  apply (rsearcher_rfind_sat ar x h a an Hx Hh s Hstrat Hcert).
Qed.

(* memmem::find / memmem::rfind *)
Theorem memmem_find_correct :
  (tw_reach_fwd ar x = true -> tw_cert_fwd_of x = true) ->
  pre_mul_saturating = true ->
  satq Q (memmem_find ar a h x) (fun r => r = find_spec x h).
Proof.
  intros Hcert Hsat. unfold memmem_find.
  destruct (N.of_nat (length h) <? oneshot_rk_below_fwd)%N.
  - apply rk_find_here.
  - apply finder_find_correct; assumption.
Qed.

Theorem memmem_rfind_correct :
  (tw_reach_rev x = true -> tw_cert_rev_of x = true) ->
  satq Q (memmem_rfind ar a h x) (fun r => r = rfind_spec x h).
Proof.
  intros Hcert. unfold memmem_rfind.
  destruct (N.of_nat (length h) <? oneshot_rk_below_rev)%N.
  - apply rk_rfind_here.
  - apply rfinder_rfind_correct; assumption.
Qed.

End Top.

(* ---------- pair offsets of the prefilter built by Searcher::new are at most 254 ---------- *)
Lemma pair_params_ok' : (pair_scan_cap <= 255)%N /\ 2 <= pair_scan_skip.
Proof. split; [vm_compute; discriminate|vm_compute; repeat constructor]. Qed.

Definition strat_small (s : searcher) : Prop :=
  match s_strat s with STwoWayPre _ p => prefilter_small p | _ => True end.

Lemma searcher_twoway_small x rk ps :
  (forall p, ps = Some p -> prefilter_small p) ->
  satq (new_ev x) (searcher_twoway x rk ps) strat_small.
Proof.
  intros Hps. unfold searcher_twoway.
  eapply satq_bind; [apply tw_new_sat|]. intros tw _.
  destruct ps as [p|]; (eapply satq_bind; [apply label_sat|]); intros _ _; apply satq_ret; unfold strat_small; cbn.
  - apply Hps. reflexivity.
  - exact I.
Qed.

Theorem searcher_new_small cfg rank ar x :
  satq (new_ev x) (searcher_new cfg rank ar x) strat_small.
Proof.
  unfold searcher_new. destruct (length x <=? 1) eqn:E.
  - destruct x as [|b t]; (eapply satq_bind; [apply label_sat|]); intros _ _; apply satq_ret; exact I.
  - apply Nat.leb_gt in E.
    destruct pair_params_ok' as [Hcap Hskip].
    destruct (pair_with_ranker_spec rank x ltac:(lia) Hskip) as [_ Hsome].
    destruct (Hsome ltac:(lia)) as (i1 & i2 & Hr & Hne & H1 & H2 & B1 & B2).
    assert (i1 <= 254 /\ i2 <= 254) as [Hb1 Hb2] by lia.
    eapply satq_bind.
    { instantiate (1 := fun pr => pr = Some (i1, i2)).
      exists (Some (i1, i2)). split; [exact Hr|]. split; [reflexivity|].
      rewrite pair_with_ranker_quiet. constructor. }
    intros pr ->.
    assert (i1 =? i2 = false) as -> by (apply Nat.eqb_neq; exact Hne). cbn [negb]. rewrite bind_guard_true.
    assert (forall isa lp lpre, satq (new_ev x) (with_vec cfg x (rk_new x) isa lp lpre i1 i2) strat_small) as Hvec.
    { intros isa lp lpre. unfold with_vec.
      destruct (pw_new_ok isa x i1 i2 H1 H2) as [w Hw]. rewrite Hw, bind_lift_ok.
      destruct (do_packed_search x).
      - eapply satq_bind; [apply label_sat|]. intros _ _. apply satq_ret. exact I.
      - destruct cfg.
        + apply searcher_twoway_small. discriminate.
        + unfold prefilter_vec.
          eapply satq_bind.
          { eapply satq_bind; [apply label_sat|]. intros _ _.
            destruct (pw_new_i1 isa x i1 i2 w Hw) as [Ei Hi]. rewrite Ei.
            rewrite (idx_ok x i1 0%N Hi), bind_lift_ok. apply satq_ret.
            instantiate (1 := prefilter_small). split; [exact Hb1|exact I]. }
          intros p Hp. apply searcher_twoway_small. intros p' [= <-]. exact Hp. }
    assert (satq (new_ev x) (with_fallback cfg rank x (rk_new x) i1 i2) strat_small) as Hfb.
    { unfold with_fallback. destruct cfg.
      - apply searcher_twoway_small. discriminate.
      - unfold prefilter_fallback.
        eapply satq_bind.
        { rewrite (idx_ok x i1 0%N H1), bind_lift_ok.
          instantiate (1 := fun ps => forall p, ps = Some p -> prefilter_small p).
          destruct (max_fallback_rank <? rank (nth i1 x 0%N))%N.
          - eapply satq_bind; [apply label_sat|]. intros _ _. apply satq_ret. discriminate.
          - unfold pf_new. rewrite (idx_ok x i1 0%N H1), (idx_ok x i2 0%N H2), bind_lift_ok.
            eapply satq_bind; [apply label_sat|]. intros _ _. apply satq_ret.
            intros p [= <-]. split; [exact Hb1|exact Hb1]. }
        intros ps Hps. apply searcher_twoway_small. exact Hps. }
    destruct ar as [[| |]| | |]; first [apply Hvec|apply Hfb].
Qed.
