(* Correctness and memory safety of the Rabin-Karp model (Sub/RabinKarp.v). *)
From Memchr Require Import Spec SpecProofs Params Sub.IsEqual Sub.IsEqualProofs Sub.RabinKarp.
From Memchr Require Import Mem.BytewiseProofs.
From Coq Require Import ZArith ZifyN ZifyNat Lia.

(* loads: haystack loads inside the haystack, needle loads inside the needle, none marked aligned *)
(* acceptable wherever the two slices are placed (no Rabin-Karp load is marked aligned) *)
Definition rk_ok (h x : list N) (e : event) : Prop := forall a an, load_ok a (length h) an (length x) e.

(* ------------------------------------------------------------------ *)
(* Hash algebra, modulo rk_mod = 2^32 *)

Lemma rk_mod_val : rk_mod = 4294967296%N.
Proof. reflexivity. Qed.

Lemma rk_mod_nz : rk_mod <> 0%N.
Proof. rewrite rk_mod_val. discriminate. Qed.

Local Open Scope N_scope.

Lemma wrap_wrap a : wrap (wrap a) = wrap a.
Proof. unfold wrap. apply N.mod_mod. exact rk_mod_nz. Qed.

Lemma wrap_0 : wrap 0 = 0.
Proof. reflexivity. Qed.

Lemma wrap_1 : wrap 1 = 1.
Proof. reflexivity. Qed.

Lemma wrap_add_l a b : wrap (wrap a + b) = wrap (a + b).
Proof. unfold wrap. apply N.add_mod_idemp_l. exact rk_mod_nz. Qed.

Lemma wrap_mul_l a b : wrap (wrap a * b) = wrap (a * b).
Proof. unfold wrap. apply N.mul_mod_idemp_l. exact rk_mod_nz. Qed.

Lemma wrap_mul_r a b : wrap (a * wrap b) = wrap (a * b).
Proof. unfold wrap. apply N.mul_mod_idemp_r. exact rk_mod_nz. Qed.

(* the unbounded polynomial step *)
Definition pstep (s b : N) : N := 2 * s + b.
Definition poly (l : list N) : N := fold_left pstep l 0.
Definition hash_of (l : list N) : N := fold_left h_add l 0.

Lemma h_add_wrap a b : h_add (wrap a) b = wrap (pstep a b).
Proof.
  unfold h_add, pstep. rewrite wrap_mul_l, wrap_add_l. f_equal. lia.
Qed.

Lemma fold_h_add_wrap l : forall a, fold_left h_add l (wrap a) = wrap (fold_left pstep l a).
Proof.
  induction l as [|b t IH]; intros a; cbn [fold_left]; [reflexivity|].
  rewrite h_add_wrap. apply IH.
Qed.

Lemma hash_of_poly l : hash_of l = wrap (poly l).
Proof. unfold hash_of, poly. rewrite <- fold_h_add_wrap. reflexivity. Qed.

Lemma fold_pstep_acc l : forall a, fold_left pstep l a = a * 2 ^ N.of_nat (length l) + fold_left pstep l 0.
Proof.
  induction l as [|b t IH]; intros a; cbn [fold_left length].
  - cbn. lia.
  - rewrite (IH (pstep a b)), (IH (pstep 0 b)). unfold pstep.
    rewrite Nat2N.inj_succ, N.pow_succ_r'. lia.
Qed.

Lemma poly_cons a w : poly (a :: w) = a * 2 ^ N.of_nat (length w) + poly w.
Proof.
  unfold poly. cbn [fold_left]. rewrite fold_pstep_acc. unfold pstep. f_equal; lia.
Qed.

Lemma poly_snoc w b : poly (w ++ [b]) = pstep (poly w) b.
Proof. unfold poly. rewrite fold_left_app. reflexivity. Qed.

Lemma wrap_cancel A P : wrap (wrap (A + P) + rk_mod - wrap A) = wrap P.
Proof.
  unfold wrap. rewrite rk_mod_val.
  zify. Z.div_mod_to_equations. lia.
Qed.

(* the rolling step: drop the leading byte a, append b *)
Lemma h_roll_spec a w b :
  h_roll (hash_of (a :: w)) (wrap (2 ^ N.of_nat (length w))) a b = hash_of (w ++ [b]).
Proof.
  unfold h_roll, h_del. rewrite !hash_of_poly, poly_cons, poly_snoc.
  rewrite wrap_mul_r, wrap_cancel. apply h_add_wrap.
Qed.

Lemma h_roll_spec' a w b k : length w = k ->
  h_roll (hash_of (a :: w)) (wrap (2 ^ N.of_nat k)) a b = hash_of (w ++ [b]).
Proof. intros <-. apply h_roll_spec. Qed.

(* the finder *)
Definition rk_step (s : rkfinder) (b' : N) : rkfinder :=
  {| rk_hash := h_add (rk_hash s) b'; rk_2pow := wrap (rk_2pow s * 2) |}.

Lemma rk_new_fold t : forall H W,
  fold_left rk_step t {| rk_hash := H; rk_2pow := wrap W |} =
  {| rk_hash := fold_left h_add t H; rk_2pow := wrap (W * 2 ^ N.of_nat (length t)) |}.
Proof.
  induction t as [|b t IH]; intros H W; cbn [fold_left length].
  - cbn. f_equal. f_equal. lia.
  - unfold rk_step at 2. cbn [rk_hash rk_2pow]. rewrite wrap_mul_l, IH.
    f_equal. f_equal. rewrite Nat2N.inj_succ, N.pow_succ_r'. lia.
Qed.

Lemma rk_new_cons b t :
  rk_new (b :: t) = {| rk_hash := hash_of (b :: t); rk_2pow := wrap (2 ^ N.of_nat (length t)) |}.
Proof.
  unfold rk_new. fold rk_step. rewrite <- wrap_1 at 1. rewrite rk_new_fold.
  unfold hash_of. cbn [fold_left]. f_equal. f_equal. lia.
Qed.

Lemma rk_new_hash x : rk_hash (rk_new x) = hash_of x.
Proof. destruct x as [|b t]; [reflexivity|]. rewrite rk_new_cons. reflexivity. Qed.

Lemma rk_new_2pow x : rk_2pow (rk_new x) = wrap (2 ^ N.of_nat (length x - 1)).
Proof.
  destruct x as [|b t]; [reflexivity|]. rewrite rk_new_cons. cbn [rk_2pow length].
  replace (S (length t) - 1)%nat with (length t) by lia. reflexivity.
Qed.

Close Scope N_scope.

(* ------------------------------------------------------------------ *)
(* Monadic lemmas *)

Lemma ev_within_rk_ok h x cur e :
  cur + length x <= length h ->
  ev_within RHay cur RNeedle 0 (length x) e -> rk_ok h x e.
Proof.
  intros Hb. destruct e as [r off w al| | |]; cbn; try tauto.
  intros [-> [(-> & H1 & H2)|(-> & H1 & H2)]] a an; cbn; (split; [lia|discriminate]).
Qed.

Lemma rk_ok_hay h x off : off + 1 <= length h -> rk_ok h x (Load RHay off 1 false).
Proof. intros H a an. cbn. split; [exact H|discriminate]. Qed.

Section Loops.
Variables (f : rkfinder) (x h : list N).
Let nlen := length x.
Let hlen := length h.

Lemma hash_fwd_sat n : forall off acc,
  off + n <= length h ->
  satq (rk_ok h x) (hash_fwd h off n acc) (fun r => r = fold_left h_add (slice h off n) acc).
Proof.
  induction n as [|n IH]; intros off acc Hb; cbn [hash_fwd].
  - apply satq_ret. reflexivity.
  - eapply satq_bind. { apply satq_load_eq; [lia|apply rk_ok_hay; lia]. }
    intros v ->. rewrite (slice_one h off 0%N) by lia. cbn [hd].
    eapply satq_weaken. { apply IH. lia. }
    intros r ->. rewrite (slice_cons h off n 0%N) by lia. reflexivity.
Qed.

Lemma hash_rev_sat n : forall start acc,
  start + n <= length h ->
  satq (rk_ok h x) (hash_rev h start n acc) (fun r => r = fold_left h_add (rev (slice h start n)) acc).
Proof.
  induction n as [|n IH]; intros start acc Hb; cbn [hash_rev].
  - apply satq_ret. reflexivity.
  - eapply satq_bind. { apply satq_load_eq; [lia|apply rk_ok_hay; lia]. }
    intros v ->. rewrite (slice_one h (start + n) 0%N) by lia. cbn [hd].
    eapply satq_weaken. { apply IH. lia. }
    intros r ->. rewrite (slice_snoc h start n 0%N) by lia.
    rewrite rev_app_distr. reflexivity.
Qed.

Lemma rk_test_sat cur hash :
  cur + length x <= length h ->
  satq (rk_ok h x) (rk_test f x h cur hash)
       (fun b => b = (rk_hash f =? hash)%N && list_eqb (slice h cur (length x)) x).
Proof.
  intros Hb. unfold rk_test. destruct (rk_hash f =? hash)%N; cbn [andb].
  - eapply sat_weaken. { apply is_equal_raw_sat; lia. }
    cbn beta. intros b t [-> Ht]. rewrite slice_all. split; [reflexivity|].
    eapply Forall_impl; [|exact Ht]. intros e. apply ev_within_rk_ok. exact Hb.
  - apply satq_ret. reflexivity.
Qed.

(* what the forward loop knows when it is used with its own finder *)
Definition good_fwd (cur : nat) (hash : N) : Prop :=
  f = rk_new x /\ hash = hash_of (slice h cur (length x)) /\
  forall j, j < cur -> occurs_at x h j = false.

Lemma rk_fwd_loop_sat fuel : forall end_ cur hash,
  end_ - cur < fuel -> cur <= end_ -> end_ + length x = length h ->
  satq (rk_ok h x) (rk_fwd_loop f x h fuel end_ cur hash)
       (fun r => good_fwd cur hash -> r = find_spec x h).
Proof.
  induction fuel as [|fu IH]; intros end_ cur hash Hf Hc He; [lia|].
  cbn [rk_fwd_loop].
  eapply satq_bind. { apply rk_test_sat. lia. }
  intros b Hb. destruct b.
  - apply satq_ret. intros (Hfn & Hh & Hno). symmetry. apply find_spec_some.
    symmetry in Hb. apply andb_true_iff in Hb as [_ Hb]. apply list_eqb_eq in Hb.
    split; [|exact Hno]. apply occurs_at_eq. split; [lia|exact Hb].
  - assert (good_fwd cur hash -> occurs_at x h cur = false) as Hcur.
    { intros (Hfn & Hh & Hno). unfold occurs_at.
      destruct (list_eqb (slice h cur (length x)) x) eqn:E; [|apply andb_false_r].
      exfalso. apply list_eqb_eq in E. rewrite E in Hh.
      rewrite Hfn, rk_new_hash, Hh, N.eqb_refl in Hb. discriminate. }
    destruct (end_ <=? cur) eqn:Ee.
    + apply Nat.leb_le in Ee. apply satq_ret. intros G. symmetry. apply find_spec_none.
      intros j. destruct (Nat.lt_ge_cases j cur) as [Hj|Hj].
      * destruct G as (_ & _ & Hno). apply Hno. exact Hj.
      * destruct (Nat.eq_dec j cur) as [->|Hne]; [apply Hcur; exact G|].
        destruct (occurs_at x h j) eqn:Ej; [|reflexivity].
        apply occurs_at_bound in Ej. lia.
    + apply Nat.leb_gt in Ee.
      eapply satq_bind. { apply satq_load_eq; [lia|apply rk_ok_hay; lia]. }
      intros o ->.
      eapply satq_bind. { apply satq_load_eq; [lia|apply rk_ok_hay; lia]. }
      intros n ->.
      rewrite (slice_one h cur 0%N), (slice_one h (cur + length x) 0%N) by lia. cbn [hd].
      eapply satq_weaken. { apply IH; lia. }
      intros r Hr G. apply Hr. pose proof (Hcur G) as Hc0.
      destruct G as (Hfn & Hh & Hno). split; [exact Hfn|]. split.
      * destruct x as [|a w] eqn:Ex.
        { exfalso. rewrite Hfn, Hh in Hb. cbn in Hb. discriminate. }
        rewrite Hfn, rk_new_cons. cbn [rk_2pow]. rewrite Hh.
        cbn [length]. rewrite (slice_cons h cur _ 0%N) by lia.
        rewrite (slice_snoc h (cur + 1) _ 0%N) by (cbn [length] in *; lia).
        replace (cur + 1 + length w) with (cur + S (length w)) by lia.
        replace (S cur) with (cur + 1) by lia.
        apply h_roll_spec'. apply slice_length. cbn [length] in *. lia.
      * intros j Hj. destruct (Nat.eq_dec j cur) as [->|Hne]; [exact Hc0|]. apply Hno. lia.
Qed.

Definition good_rev (cur : nat) (hash : N) : Prop :=
  f = rk_new_rev x /\ hash = hash_of (rev (slice h cur (length x))) /\
  forall j, cur < j -> occurs_at x h j = false.

Lemma rk_rev_loop_sat fuel : forall cur hash,
  cur < fuel -> cur + length x <= length h ->
  satq (rk_ok h x) (rk_rev_loop f x h fuel cur hash)
       (fun r => good_rev cur hash -> r = rfind_spec x h).
Proof.
  induction fuel as [|fu IH]; intros cur hash Hf Hc; [lia|].
  cbn [rk_rev_loop].
  eapply satq_bind. { apply rk_test_sat. lia. }
  intros b Hb. destruct b.
  - apply satq_ret. intros (Hfn & Hh & Hno). symmetry. apply rfind_spec_some.
    symmetry in Hb. apply andb_true_iff in Hb as [_ Hb]. apply list_eqb_eq in Hb.
    split; [|exact Hno]. apply occurs_at_eq. split; [lia|exact Hb].
  - assert (good_rev cur hash -> occurs_at x h cur = false) as Hcur.
    { intros (Hfn & Hh & Hno). unfold occurs_at.
      destruct (list_eqb (slice h cur (length x)) x) eqn:E; [|apply andb_false_r].
      exfalso. apply list_eqb_eq in E. rewrite E in Hh.
      unfold rk_new_rev in Hfn.
      rewrite Hfn, rk_new_hash, Hh, N.eqb_refl in Hb. discriminate. }
    destruct (cur <=? 0) eqn:Ee.
    + apply Nat.leb_le in Ee. apply satq_ret. intros G. symmetry. apply rfind_spec_none.
      intros j. destruct (Nat.eq_dec j cur) as [->|Hne]; [apply Hcur; exact G|].
      destruct G as (_ & _ & Hno). apply Hno. lia.
    + apply Nat.leb_gt in Ee.
      rewrite psub_ok by lia. rewrite bind_lift_ok.
      eapply satq_bind. { apply satq_load_eq; [lia|apply rk_ok_hay; lia]. }
      intros o ->.
      eapply satq_bind. { apply satq_load_eq; [lia|apply rk_ok_hay; lia]. }
      intros n ->.
      rewrite (slice_one h (cur - 1) 0%N), (slice_one h (cur - 1 + length x) 0%N) by lia. cbn [hd].
      eapply satq_weaken. { apply IH; lia. }
      intros r Hr G. apply Hr. pose proof (Hcur G) as Hc0.
      destruct G as (Hfn & Hh & Hno). split; [exact Hfn|]. split.
      * destruct x as [|a w] eqn:Ex.
        { exfalso. rewrite Hfn, Hh in Hb. cbn in Hb. discriminate. }
        rewrite Hfn. unfold rk_new_rev. rewrite rk_new_2pow, rev_length. rewrite Hh.
        cbn [length] in *. replace (S (length w) - 1) with (length w) by lia.
        rewrite (slice_snoc h cur _ 0%N) by lia.
        rewrite (slice_cons h (cur - 1) _ 0%N) by lia.
        replace (S (cur - 1)) with cur by lia.
        replace (cur - 1 + S (length w)) with (cur + length w) by lia.
        rewrite rev_app_distr. cbn [rev app].
        apply h_roll_spec'. rewrite rev_length. apply slice_length. lia.
      * intros j Hj. destruct (Nat.eq_dec j cur) as [->|Hne]; [exact Hc0|]. apply Hno. lia.
Qed.
End Loops.

(* ------------------------------------------------------------------ *)
(* Top level: safety for any finder, correctness for the needle's own finder *)

Lemma rk_find_gen (f : rkfinder) (x h : list N) :
  satq (rk_ok h x) (rk_find f x h) (fun r => f = rk_new x -> r = find_spec x h).
Proof.
  unfold rk_find. destruct (length h <? length x) eqn:E.
  - apply Nat.ltb_lt in E. apply satq_ret. intros _. unfold find_spec.
    assert (length x <=? length h = false) as -> by (apply Nat.leb_gt; exact E). reflexivity.
  - apply Nat.ltb_ge in E. rewrite psub_ok by exact E. rewrite bind_lift_ok.
    eapply satq_bind. { apply hash_fwd_sat. lia. }
    intros hash ->.
    eapply satq_weaken. { apply rk_fwd_loop_sat; lia. }
    intros r Hr Hf. apply Hr. split; [exact Hf|]. split; [reflexivity|]. intros j Hj. lia.
Qed.

Lemma rk_rfind_gen (f : rkfinder) (x h : list N) :
  satq (rk_ok h x) (rk_rfind f x h) (fun r => f = rk_new_rev x -> r = rfind_spec x h).
Proof.
  unfold rk_rfind. destruct (length h <? length x) eqn:E.
  - apply Nat.ltb_lt in E. apply satq_ret. intros _. unfold rfind_spec.
    assert (length x <=? length h = false) as -> by (apply Nat.leb_gt; exact E). reflexivity.
  - apply Nat.ltb_ge in E. rewrite psub_ok by exact E. rewrite bind_lift_ok.
    eapply satq_bind. { apply hash_rev_sat. lia. }
    intros hash ->.
    eapply satq_weaken. { apply rk_rev_loop_sat; lia. }
    intros r Hr Hf. apply Hr. split; [exact Hf|]. split; [reflexivity|]. intros j Hj.
    destruct (occurs_at x h j) eqn:Ej; [|reflexivity]. apply occurs_at_bound in Ej. lia.
Qed.

(* The byte-range hypotheses (every byte < 256) of the intended statements are
   not needed: the hash algebra is modular for arbitrary N values. *)
Theorem rk_find_correct : forall (x h : list N),
  satq (rk_ok h x) (rk_find (rk_new x) x h) (fun r => r = find_spec x h).
Proof.
  intros x h. eapply satq_weaken. { apply rk_find_gen. }
  intros r Hr. apply Hr. reflexivity.
Qed.

Theorem rk_rfind_correct : forall (x h : list N),
  satq (rk_ok h x) (rk_rfind (rk_new_rev x) x h) (fun r => r = rfind_spec x h).
Proof.
  intros x h. eapply satq_weaken. { apply rk_rfind_gen. }
  intros r Hr. apply Hr. reflexivity.
Qed.

(* memory safety alone, for ANY finder and any argument needle *)
Theorem rk_find_safe : forall (f : rkfinder) (x h : list N),
  satq (rk_ok h x) (rk_find f x h) (fun _ => True).
Proof.
  intros f x h. eapply satq_weaken. { apply rk_find_gen. }
  intros r _. exact I.
Qed.

Theorem rk_rfind_safe : forall (f : rkfinder) (x h : list N),
  satq (rk_ok h x) (rk_rfind f x h) (fun _ => True).
Proof.
  intros f x h. eapply satq_weaken. { apply rk_rfind_gen. }
  intros r _. exact I.
Qed.

(* the statements exactly as requested (with the redundant byte-range hypotheses) *)
Corollary rk_find_correct_bytes : forall (x h : list N),
  Forall (fun b => (b < 256)%N) x -> Forall (fun b => (b < 256)%N) h ->
  satq (rk_ok h x) (rk_find (rk_new x) x h) (fun r => r = find_spec x h).
Proof. intros x h _ _. apply rk_find_correct. Qed.

Corollary rk_rfind_correct_bytes : forall (x h : list N),
  Forall (fun b => (b < 256)%N) x -> Forall (fun b => (b < 256)%N) h ->
  satq (rk_ok h x) (rk_rfind (rk_new_rev x) x h) (fun r => r = rfind_spec x h).
Proof. intros x h _ _. apply rk_rfind_correct. Qed.

Print Assumptions rk_find_correct.
Print Assumptions rk_rfind_correct.
Print Assumptions rk_find_safe.
Print Assumptions rk_rfind_safe.
