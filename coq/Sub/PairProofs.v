From Memchr Require Import Sub.Pair Params.

Definition pinv (k : nat) (st : pstate) : Prop :=
  index1 st <> index2 st /\ index1 st < k /\ index2 st < k.

Lemma pinv_mono k k' st : k <= k' -> pinv k st -> pinv k' st.
Proof. unfold pinv. intros H (A & B & C). lia. Qed.

Section Proofs.
Variable rank : N -> N.

Lemma pair_step_inv st i b :
  pinv i st -> i <= 255 ->
  exists st', pair_step rank st i b = Ok st' /\ pinv (S i) st'.
Proof.
  intros (Hne & H1 & H2) Hi. unfold pair_step, to_u8.
  apply Nat.leb_le in Hi. rewrite Hi.
  destruct (rank b <? rank (rare1 st))%N.
  - eexists. split; [reflexivity|]. unfold pinv; cbn. lia.
  - destruct (negb (b =? rare1 st)%N && (rank b <? rank (rare2 st))%N).
    + eexists. split; [reflexivity|]. unfold pinv; cbn. lia.
    + eexists. split; [reflexivity|]. unfold pinv. lia.
Qed.

Lemma pair_scan_inv : forall l i st k,
  (pair_scan_cap <= 256)%N ->
  pinv k st -> k <= Nat.max i pair_scan_skip ->
  exists st', pair_scan rank l i st = Ok st' /\
              exists j, pinv j st' /\
                        j <= Nat.max k (i + length l) /\
                        (N.of_nat j <= N.max (N.of_nat k) pair_scan_cap)%N.
Proof.
  intros l. induction l as [|b t IH]; intros i st k Hcap Hinv Hk; cbn [pair_scan].
  - exists st. split; [reflexivity|]. exists k. split; [exact Hinv|]. split; lia.
  - destruct (N.of_nat i <? pair_scan_cap)%N eqn:Ec.
    + apply N.ltb_lt in Ec.
      destruct (i <? pair_scan_skip) eqn:Es.
      * apply Nat.ltb_lt in Es.
        destruct (IH (S i) st k Hcap Hinv) as (st' & Hst' & j & Hj & Hlen & Hb); [lia|].
        exists st'. split; [exact Hst'|]. exists j. split; [exact Hj|]. cbn [length]. split; lia.
      * apply Nat.ltb_ge in Es.
        destruct (pair_step_inv st i b) as (st1 & Hs1 & Hi1); [apply (pinv_mono k); [lia|exact Hinv]|lia|].
        rewrite Hs1.
        destruct (IH (S i) st1 (S i) Hcap Hi1) as (st' & Hst' & j & Hj & Hlen & Hb); [lia|].
        exists st'. split; [exact Hst'|]. exists j. split; [exact Hj|]. cbn [length]. split; lia.
    + exists st. split; [reflexivity|]. exists k. split; [exact Hinv|]. split; lia.
Qed.

(* Pair::with_ranker: None exactly for needles of fewer than 2 bytes; otherwise
   two distinct offsets inside the needle and below max(cap, 2); never panics. *)
Theorem pair_with_ranker_spec x :
  (pair_scan_cap <= 256)%N -> 2 <= pair_scan_skip ->
  (length x <= 1 -> fst (pair_with_ranker rank x) = Ok None) /\
  (2 <= length x ->
   exists i1 i2, fst (pair_with_ranker rank x) = Ok (Some (i1, i2)) /\
     i1 <> i2 /\ i1 < length x /\ i2 < length x /\
     (N.of_nat i1 < N.max 2 pair_scan_cap)%N /\ (N.of_nat i2 < N.max 2 pair_scan_cap)%N).
Proof.
  intros Hcap Hskip. unfold pair_with_ranker. split.
  - intros H. apply Nat.leb_le in H. rewrite H. reflexivity.
  - intros H. assert (length x <=? 1 = false) as E by (apply Nat.leb_gt; lia). rewrite E.
    destruct x as [|a [|b x]]; cbn [length] in H; try lia.
    cbn [idx nth_error]. rewrite !bind_lift_ok.
    match goal with |- context [pair_scan rank _ 0 ?s] => set (st0 := s) end.
    assert (pinv 2 st0) as H0.
    { subst st0. destruct (rank b <? rank a)%N; unfold pinv; cbn; lia. }
    destruct (pair_scan_inv (a :: b :: x) 0 st0 2 Hcap H0 ltac:(lia))
      as (st' & Hst' & j & (Hne & Hj1 & Hj2) & Hlen & Hb).
    rewrite Hst', bind_lift_ok.
    assert (index1 st' =? index2 st' = false) as En by (apply Nat.eqb_neq; exact Hne).
    rewrite En. cbn [negb]. rewrite bind_guard_true.
    exists (index1 st'), (index2 st'). split; [reflexivity|].
    cbn [length] in *. repeat split; try lia.
Qed.

End Proofs.

Theorem pair_with_indices_spec x i1 i2 :
  (exists p, pair_with_indices x i1 i2 = Some p) <->
  i1 <> i2 /\ i1 < length x /\ i2 < length x.
Proof.
  unfold pair_with_indices.
  destruct (i1 =? i2) eqn:E1.
  { apply Nat.eqb_eq in E1. split; [intros [p H]; discriminate|]. intros (A & _). contradiction. }
  apply Nat.eqb_neq in E1.
  destruct (length x <=? i1) eqn:E2.
  { apply Nat.leb_le in E2. split; [intros [p H]; discriminate|]. lia. }
  apply Nat.leb_gt in E2.
  destruct (length x <=? i2) eqn:E3.
  { apply Nat.leb_le in E3. split; [intros [p H]; discriminate|]. lia. }
  apply Nat.leb_gt in E3. split; [lia|]. intros _. eexists; reflexivity.
Qed.

Lemma pair_with_indices_value x i1 i2 p : pair_with_indices x i1 i2 = Some p -> p = (i1, i2).
Proof.
  unfold pair_with_indices.
  destruct (i1 =? i2); [discriminate|]. destruct (length x <=? i1); [discriminate|].
  destruct (length x <=? i2); [discriminate|]. congruence.
Qed.
