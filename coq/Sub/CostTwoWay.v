(* Step cost (Base/Cost.v) of the Two-Way substring search: preprocessing is
   linear in the needle, the search is linear in the haystack (Crochemore-Perrin
   amortisation), also with a prefilter whose cost is proportional to what it skips. *)
From Memchr Require Import Spec SpecProofs Params Base.Cost Sub.IsEqual Sub.IsEqualProofs
  Sub.Prefilter Sub.TwoWay Sub.TwoWayCert Sub.TwoWayPreProofs Sub.TwoWayFwdProofs Sub.TwoWayRevProofs.

Local Open Scope nat_scope.

(* ------------------------------------------------------------------ *)
(* helpers *)

(* value facts from a satq theorem, cost from a satc one *)
Lemma satc_with_satq {A} (Q : event -> Prop) (m : M A) (P : A -> Prop) (R : A -> nat -> Prop) :
  satq Q m P -> satc m R -> satc m (fun v c => P v /\ R v c).
Proof.
  intros (v & Hv & HP & _) (v' & Hv' & HR). exists v. split; [exact Hv|].
  rewrite Hv in Hv'. injection Hv' as <-. split; assumption.
Qed.

Lemma satc_tick_bind {B} k (f : unit -> M B) (P : B -> nat -> Prop) :
  satc (f tt) (fun w c => P w (1 + c)) -> satc (bind (tick k) f) P.
Proof.
  intros H. eapply satc_bind; [apply satc_tick_eq|]. intros [] c1 ->. exact H.
Qed.

Lemma is_step_shift_ev k e : is_step (shift_ev k e) = is_step e.
Proof. destruct e as [r off w al| | |]; try reflexivity. destruct r; reflexivity. Qed.

Lemma shifted_satc {A} k (m : M A) (P : A -> nat -> Prop) : satc m P -> satc (shifted k m) P.
Proof.
  intros (v & Hv & HP). exists v. unfold shifted. cbn [fst snd]. split; [exact Hv|].
  rewrite cost_map_shift; [exact HP|]. apply is_step_shift_ev.
Qed.

(* ------------------------------------------------------------------ *)
(* 1. preprocessing *)

Section EqCost.
Variables (rx ry : region) (x y : list N).

Lemma eq_loop_cost fuel : forall ox oy n,
  n < fuel -> ox + n <= length x -> oy + n <= length y ->
  satc (eq_loop rx ry x y fuel ox oy n) (fun _ c => c <= n + 2).
Proof.
  induction fuel as [|f IH]; intros ox oy n Hf Hx Hy; [lia|].
  cbn [eq_loop]. destruct (4 <=? n) eqn:E4.
  - apply Nat.leb_le in E4.
    eapply satc_bind. { apply satc_load_eq; lia. } intros vx c1 [-> ->].
    eapply satc_bind. { apply satc_load_eq; lia. } intros vy c2 [-> ->].
    destruct (list_eqb (slice x ox 4) (slice y oy 4)).
    + eapply satc_weaken. { apply (IH (ox + 4) (oy + 4) (n - 4)); lia. }
      cbn beta. intros _ c Hc. lia.
    + apply satc_ret. lia.
  - apply Nat.leb_gt in E4.
    destruct (2 <=? n) eqn:E2.
    + apply Nat.leb_le in E2.
      eapply satc_bind.
      { eapply satc_bind. { apply satc_load_eq; lia. } intros vx c1 [-> ->].
        eapply satc_bind. { apply satc_load_eq; lia. } intros vy c2 [-> ->].
        instantiate (1 := fun c cst =>
          cst = 2 /\
          c = if list_eqb (slice x ox 2) (slice y oy 2) then Go (ox + 2, oy + 2, n - 2) else Ret false).
        destruct (list_eqb (slice x ox 2) (slice y oy 2)); apply satc_ret; split; reflexivity. }
      intros c c1 [-> ->].
      destruct (list_eqb (slice x ox 2) (slice y oy 2)).
      * destruct (0 <? n - 2) eqn:E0.
        -- apply Nat.ltb_lt in E0.
           eapply satc_bind. { apply satc_load_eq; lia. } intros vx c1 [-> ->].
           eapply satc_bind. { apply satc_load_eq; lia. } intros vy c2 [-> ->].
           apply satc_ret. lia.
        -- apply satc_ret. lia.
      * apply satc_ret. lia.
    + apply Nat.leb_gt in E2.
      eapply satc_bind. { apply (satc_ret _ (fun c cst => c = Go (ox, oy, n) /\ cst = 0)). split; reflexivity. }
      intros c c1 [-> ->].
      destruct (0 <? n) eqn:E0.
      * apply Nat.ltb_lt in E0.
        eapply satc_bind. { apply satc_load_eq; lia. } intros vx c1 [-> ->].
        eapply satc_bind. { apply satc_load_eq; lia. } intros vy c2 [-> ->].
        apply satc_ret. lia.
      * apply satc_ret. lia.
Qed.

Lemma is_equal_raw_cost ox oy n :
  ox + n <= length x -> oy + n <= length y ->
  satc (is_equal_raw rx ry x y ox oy n) (fun _ c => c <= n + 2).
Proof. intros. apply eq_loop_cost; lia. Qed.

End EqCost.

Section PreCost.
Variable x : list N.

Lemma suffix_fwd_loop_cost k : forall fuel pos period cand off,
  pos < cand -> 1 <= period -> period <= cand - pos -> off < period ->
  cand <= Nat.max (length x) 1 ->
  2 * Nat.max (length x) 1 <= fuel + (pos + cand + off) ->
  satc (suffix_fwd_loop x k fuel pos period cand off)
       (fun _ c => c + (pos + cand + off) <= 2 * Nat.max (length x) 1).
Proof.
  induction fuel as [|f IH]; intros pos period cand off Hpc Hp1 Hpd Hoff Hcn Hfuel; [lia|].
  cbn [suffix_fwd_loop]. destruct (cand + off <? length x) eqn:Eloop.
  - apply Nat.ltb_lt in Eloop.
    apply satc_tick_bind.
    rewrite (idx_ok x (pos + off) 0%N) by lia. rewrite bind_lift_ok.
    rewrite (idx_ok x (cand + off) 0%N) by lia. rewrite bind_lift_ok.
    destruct (kcmp k (nth (pos + off) x 0%N) (nth (cand + off) x 0%N)).
    + eapply satc_weaken. { apply IH with (pos := cand) (period := 1) (cand := cand + 1) (off := 0); lia. }
      cbn beta. intros _ c Hc. lia.
    + rewrite (csub_ok (cand + (off + 1)) pos) by lia. rewrite bind_lift_ok.
      eapply satc_weaken. { apply IH with (pos := pos) (cand := cand + (off + 1)) (off := 0); lia. }
      cbn beta. intros _ c Hc. lia.
    + destruct (off + 1 =? period) eqn:Eper.
      * apply Nat.eqb_eq in Eper.
        eapply satc_weaken. { apply IH with (pos := pos) (period := period) (cand := cand + period) (off := 0); lia. }
        cbn beta. intros _ c Hc. lia.
      * apply Nat.eqb_neq in Eper.
        eapply satc_weaken. { apply IH with (pos := pos) (period := period) (cand := cand) (off := off + 1); lia. }
        cbn beta. intros _ c Hc. lia.
  - apply Nat.ltb_ge in Eloop. apply satc_ret. lia.
Qed.

Lemma suffix_fwd_cost k :
  satc (suffix_fwd x k) (fun r c => fwd_post x r /\ c + 1 <= 2 * Nat.max (length x) 1).
Proof.
  eapply satc_with_satq. { apply suffix_fwd_ok. }
  unfold suffix_fwd. eapply satc_weaken. { apply suffix_fwd_loop_cost; lia. }
  cbn beta. intros _ c Hc. lia.
Qed.

Lemma suffix_rev_loop_cost k : forall fuel pos period cand off,
  cand < pos -> pos <= length x -> 1 <= period -> period <= pos - cand -> off < period ->
  pos + cand - off < fuel ->
  satc (suffix_rev_loop x k fuel pos period cand off) (fun _ c => c <= pos + cand - off).
Proof.
  induction fuel as [|f IH]; intros pos period cand off Hcp Hpn Hp1 Hpd Hoff Hfuel; [lia|].
  cbn [suffix_rev_loop]. destruct (off <? cand) eqn:Eloop.
  - apply Nat.ltb_lt in Eloop.
    apply satc_tick_bind.
    rewrite (csub_ok pos off) by lia. rewrite bind_lift_ok.
    rewrite (csub_ok (pos - off) 1) by lia. rewrite bind_lift_ok.
    rewrite (idx_ok x (pos - off - 1) 0%N) by lia. rewrite bind_lift_ok.
    rewrite (csub_ok cand off) by lia. rewrite bind_lift_ok.
    rewrite (csub_ok (cand - off) 1) by lia. rewrite bind_lift_ok.
    rewrite (idx_ok x (cand - off - 1) 0%N) by lia. rewrite bind_lift_ok.
    destruct (kcmp k (nth (pos - off - 1) x 0%N) (nth (cand - off - 1) x 0%N)).
    + rewrite (csub_ok cand 1) by lia. rewrite bind_lift_ok.
      eapply satc_weaken. { apply IH with (pos := cand) (period := 1) (cand := cand - 1) (off := 0); lia. }
      cbn beta. intros _ c Hc. lia.
    + rewrite (csub_ok cand (off + 1)) by lia. rewrite bind_lift_ok.
      rewrite (csub_ok pos (cand - (off + 1))) by lia. rewrite bind_lift_ok.
      eapply satc_weaken. { apply IH with (pos := pos) (cand := cand - (off + 1)) (off := 0); lia. }
      cbn beta. intros _ c Hc. lia.
    + destruct (off + 1 =? period) eqn:Eper.
      * apply Nat.eqb_eq in Eper.
        rewrite (csub_ok cand period) by lia. rewrite bind_lift_ok.
        eapply satc_weaken. { apply IH with (pos := pos) (period := period) (cand := cand - period) (off := 0); lia. }
        cbn beta. intros _ c Hc. lia.
      * apply Nat.eqb_neq in Eper.
        eapply satc_weaken. { apply IH with (pos := pos) (period := period) (cand := cand) (off := off + 1); lia. }
        cbn beta. intros _ c Hc. lia.
  - apply Nat.ltb_ge in Eloop. apply satc_ret. lia.
Qed.

Lemma suffix_rev_cost k :
  satc (suffix_rev x k) (fun r c => rev_post x r /\ c <= 2 * length x).
Proof.
  eapply satc_with_satq. { apply suffix_rev_ok. }
  unfold suffix_rev. destruct (length x =? 1) eqn:E1.
  - apply satc_ret. lia.
  - apply Nat.eqb_neq in E1. destruct (length x) as [|c] eqn:En.
    + apply satc_ret. lia.
    + eapply satc_weaken. { apply suffix_rev_loop_cost; lia. }
      cbn beta. intros _ c0 Hc. lia.
Qed.

Lemma shift_fwd_cost plb cp :
  cp < Nat.max (length x) 1 -> 1 <= plb -> cp + plb <= Nat.max (length x) 1 ->
  satc (shift_fwd x plb cp) (fun _ c => c <= cp + 2).
Proof.
  intros Hcp Hp1 Hsum. unfold shift_fwd.
  rewrite (csub_ok (length x) cp) by lia. rewrite bind_lift_ok.
  destruct (length x <=? cp * 2) eqn:Ebig.
  - apply satc_ret. lia.
  - apply Nat.leb_gt in Ebig.
    eapply satc_bind. { apply satc_guard_eq. apply Nat.leb_le. lia. }
    intros _ c0 ->.
    assert (Hle : (plb <=? length x - cp) = true) by (apply Nat.leb_le; lia).
    rewrite Hle. rewrite bind_ret.
    eapply satc_bind.
    { instantiate (1 := fun _ c => c <= cp + 2).
      destruct (cp <=? plb) eqn:Ecp.
      - apply Nat.leb_le in Ecp. apply is_equal_raw_cost; lia.
      - apply satc_ret. lia. }
    intros suf c1 Hc1. cbn beta in Hc1.
    destruct (negb suf); apply satc_ret; lia.
Qed.

Lemma shift_rev_cost plb cp :
  (1 <= length x -> 1 <= cp) -> cp <= length x -> 1 <= plb -> (1 <= length x -> plb <= cp) ->
  satc (shift_rev x plb cp) (fun _ c => c <= length x - cp + 2).
Proof.
  intros Hcp1 Hcpn Hp1 Hpc. unfold shift_rev.
  rewrite (csub_ok (length x) cp) by lia. rewrite bind_lift_ok.
  destruct (length x <=? (length x - cp) * 2) eqn:Ebig.
  - apply satc_ret. lia.
  - apply Nat.leb_gt in Ebig.
    eapply satc_bind. { apply satc_guard_eq. apply Nat.leb_le. lia. }
    intros _ c0 ->.
    rewrite (csub_ok cp plb) by lia. rewrite bind_lift_ok.
    eapply satc_bind.
    { instantiate (1 := fun _ c => c <= length x - cp + 2).
      destruct (length x - cp <=? plb) eqn:Er.
      - apply Nat.leb_le in Er. apply is_equal_raw_cost; lia.
      - apply satc_ret. lia. }
    intros pre c1 Hc1. cbn beta in Hc1.
    destruct (negb pre); apply satc_ret; lia.
Qed.

End PreCost.

Theorem tw_new_cost : forall x, satc (tw_new x) (fun _ c => c <= 5 * length x + 8).
Proof.
  intros x. unfold tw_new.
  eapply satc_bind. { apply suffix_fwd_cost. }
  intros mn c1 ((Hmn1 & Hmn2 & Hmn3) & Hc1).
  eapply satc_bind. { apply suffix_fwd_cost. }
  intros mx c2 ((Hmx1 & Hmx2 & Hmx3) & Hc2).
  destruct (fst mx <? fst mn).
  - eapply satc_bind. { apply shift_fwd_cost; eassumption. }
    intros sh c3 Hc3. cbn beta in Hc3. apply satc_ret. lia.
  - eapply satc_bind. { apply shift_fwd_cost; eassumption. }
    intros sh c3 Hc3. cbn beta in Hc3. apply satc_ret. lia.
Qed.

Theorem tw_new_rev_cost : forall x, satc (tw_new_rev x) (fun _ c => c <= 5 * length x + 8).
Proof.
  intros x. unfold tw_new_rev.
  eapply satc_bind. { apply suffix_rev_cost. }
  intros mn c1 ((Hmn1 & Hmn2 & Hmn3 & Hmn4) & Hc1).
  eapply satc_bind. { apply suffix_rev_cost. }
  intros mx c2 ((Hmx1 & Hmx2 & Hmx3 & Hmx4) & Hc2).
  destruct (fst mn <? fst mx).
  - eapply satc_bind. { apply shift_rev_cost; eassumption. }
    intros sh c3 Hc3. cbn beta in Hc3. apply satc_ret. lia.
  - eapply satc_bind. { apply shift_rev_cost; eassumption. }
    intros sh c3 Hc3. cbn beta in Hc3. apply satc_ret. lia.
Qed.

(* ------------------------------------------------------------------ *)
(* 2. forward search *)

(* a prefilter whose cost is proportional to the distance it skips.
   NOTE: the candidate is capped by the haystack length (Nat.min): a prefilter may
   legally (pre_ok) answer `Some cd` with cd far beyond the end of a haystack that
   contains no occurrence, and `K1 * cd + K2` would then bound nothing. *)
Definition pre_cost (x : list N) (pf : prefn) (K1 K2 : nat) : Prop :=
  forall a' h', Forall (fun b => (b < 256)%N) h' ->
  satc (pf a' h') (fun r c => match r with
                              | Some cd => c <= K1 * Nat.min cd (length h') + K2
                              | None => c <= K1 * length h' + K2
                              end).

(* the uncapped form implies the capped one for prefilters that answer inside the haystack *)
Lemma pre_cost_of_uncapped x pf K1 K2 :
  (forall a' h', Forall (fun b => (b < 256)%N) h' ->
     satc (pf a' h') (fun r c => match r with
                                 | Some cd => cd <= length h' /\ c <= K1 * cd + K2
                                 | None => c <= K1 * length h' + K2
                                 end)) ->
  pre_cost x pf K1 K2.
Proof.
  intros H a' h' Hb. eapply satc_weaken; [apply (H a' h' Hb)|]. cbn beta.
  intros [cd|] c Hc; [|exact Hc]. destruct Hc as [Hcd Hc]. rewrite Nat.min_l by exact Hcd. exact Hc.
Qed.

(* amortisation arithmetic: W = B + K1 + K2 steps per position *)
Lemma amort_step B K1 K2 pos pos1 d hl c1 inner c2 :
  pos <= pos1 -> c1 <= K1 * (pos1 - pos) + K2 -> 1 <= d -> 1 + inner <= B * d ->
  c2 + (B + K1 + K2) * (pos1 + d) <= (B + K1 + K2) * hl ->
  1 + c1 + inner + c2 + (B + K1 + K2) * pos <= (B + K1 + K2) * hl.
Proof.
  intros H1 H2 H3 H4 H5.
  assert (exists g, pos1 = pos + g) as [g ->] by (exists (pos1 - pos); lia).
  replace (pos + g - pos) with g in H2 by lia. nia.
Qed.

Lemma amort_ret B K1 K2 pos hl c1 :
  pos + 1 <= hl -> c1 <= K1 * (hl - pos) + K2 -> 1 <= B ->
  1 + c1 + (B + K1 + K2) * pos <= (B + K1 + K2) * hl.
Proof.
  intros H1 H2 H3.
  assert (exists g, hl = pos + g) as [g ->] by (exists (hl - pos); lia).
  replace (pos + g - pos) with g in H2 by lia. nia.
Qed.

Section CostFwd.
Variables (x h : list N) (tw : twoway) (a : nat).

Local Notation nn := (length x).
Local Notation cc := (tw_cp tw).
Local Notation hl := (length h).

Hypothesis Hc : cc < nn.

Lemma scan_right_cost : forall fuel i pos,
  nn - i < fuel -> i <= nn -> pos + nn <= hl ->
  satc (scan_right h x fuel i pos) (fun r cst => i <= r /\ r <= nn /\ cst = r - i).
Proof.
  induction fuel as [|f IH]; intros i pos Hf Hi Hp; [lia|].
  cbn [scan_right]. destruct (i <? nn) eqn:E.
  - apply Nat.ltb_lt in E.
    rewrite (idx_ok x i 0%N) by lia. rewrite bind_lift_ok.
    rewrite (idx_ok h (pos + i) 0%N) by lia. rewrite bind_lift_ok.
    destruct (nth i x 0 =? nth (pos + i) h 0)%N.
    + apply satc_tick_bind. eapply satc_weaken. { apply (IH (i + 1) pos); lia. }
      cbn beta. intros r cst (R1 & R2 & R3). lia.
    + apply satc_ret. lia.
  - apply Nat.ltb_ge in E. apply satc_ret. lia.
Qed.

Lemma scan_left_small_cost : forall fuel j sh pos,
  j < fuel -> j < nn -> pos + nn <= hl ->
  satc (scan_left_small h x fuel j sh pos) (fun r cst => r <= j /\ cst = j - r).
Proof.
  induction fuel as [|f IH]; intros j sh pos Hf Hj Hp; [lia|].
  cbn [scan_left_small]. destruct (sh <? j) eqn:E.
  - apply Nat.ltb_lt in E.
    rewrite (idx_ok x j 0%N) by lia. rewrite bind_lift_ok.
    rewrite (idx_ok h (pos + j) 0%N) by lia. rewrite bind_lift_ok.
    destruct (nth j x 0 =? nth (pos + j) h 0)%N.
    + apply satc_tick_bind. eapply satc_weaken. { apply (IH (j - 1) sh pos); lia. }
      cbn beta. intros r cst (R1 & R2). lia.
    + apply satc_ret. lia.
  - apply satc_ret. lia.
Qed.

Lemma scan_left_large_cost : forall j pos,
  j <= nn -> pos + nn <= hl ->
  satc (scan_left_large h x j pos) (fun _ cst => cst <= j).
Proof.
  induction j as [|j IH]; intros pos Hj Hp; cbn [scan_left_large].
  - apply satc_ret. lia.
  - apply satc_tick_bind.
    rewrite (idx_ok x j 0%N) by lia. rewrite bind_lift_ok.
    rewrite (idx_ok h (pos + j) 0%N) by lia. rewrite bind_lift_ok.
    destruct (nth j x 0 =? nth (pos + j) h 0)%N.
    + eapply satc_weaken. { apply (IH pos); lia. }
      cbn beta. intros _ cst Hcst. lia.
    + apply satc_ret. lia.
Qed.

(* what one prefilter step costs and where it leaves the window *)
Definition step_cost (K1 K2 pos : nat) (r : ctl (option nat * prestate) (nat * bool * prestate)) (cst : nat) : Prop :=
  match r with
  | Ret _ => cst <= K1 * (hl - pos) + K2
  | Go (pos1, ran, _) =>
      pos <= pos1 /\ pos1 + nn <= hl /\ (ran = false -> pos1 = pos) /\ cst <= K1 * (pos1 - pos) + K2
  end.

Lemma pre_step_cost_none K1 K2 pos st : pos + nn <= hl ->
  satc (pre_step None a h x pos st) (step_cost K1 K2 pos).
Proof.
  intros Hpos. unfold pre_step. apply satc_ret. cbn [step_cost]. repeat split; lia.
Qed.

Lemma pre_step_cost_some pf K1 K2 pos st :
  pre_mul_saturating = true -> pre_cost x pf K1 K2 -> Forall (fun b => (b < 256)%N) h ->
  pos + nn <= hl -> satc (pre_step (Some pf) a h x pos st) (step_cost K1 K2 pos).
Proof.
  intros Hsat Hpc Hbytes Hpos. unfold pre_step.
  destruct (pre_is_effective_ok st Hsat) as [e He]. rewrite He, bind_lift_ok.
  destruct (fst e).
  2: { apply satc_ret. cbn [step_cost]. repeat split; lia. }
  assert (pos <=? hl = true) as -> by (apply Nat.leb_le; lia).
  rewrite bind_guard_true.
  eapply satc_bind.
  { apply shifted_satc. apply (Hpc (a + pos) (skipn pos h)).
    rewrite <- (firstn_skipn pos h) in Hbytes. apply Forall_app in Hbytes. tauto. }
  intros [cand|] c1 Hr; cbv zeta; rewrite skipn_length in Hr.
  - assert (K1 * Nat.min cand (hl - pos) <= K1 * (hl - pos)) as M1 by (apply Nat.mul_le_mono_l; lia).
    assert (K1 * Nat.min cand (hl - pos) <= K1 * cand) as M2 by (apply Nat.mul_le_mono_l; lia).
    destruct (hl <? pos + cand + nn) eqn:E.
    + apply satc_ret. cbn [step_cost]. lia.
    + apply Nat.ltb_ge in E. apply satc_ret. cbn [step_cost].
      replace (pos + cand - pos) with cand by lia.
      split; [lia|]. split; [exact E|]. split; [discriminate|lia].
  - apply satc_ret. cbn [step_cost]. lia.
Qed.

Section Loops.
Variable pre : option prefn.
Variables K1 K2 : nat.
Hypothesis Hstep : forall pos st, pos + nn <= hl ->
  satc (pre_step pre a h x pos st) (step_cost K1 K2 pos).

(* Large shift: no memory; every iteration pays at most 3 steps per position it advances *)
Lemma find_large_cost s : 1 <= s -> s <= nn -> Nat.max cc (nn - cc) <= s -> forall fuel pos st,
  hl + 1 - pos < fuel -> pos <= hl ->
  satc (find_large_loop tw pre a h x fuel s pos st)
       (fun _ cst => cst + (3 + K1 + K2) * pos <= (3 + K1 + K2) * hl).
Proof.
  intros Hs1 Hsn Hsm. induction fuel as [|f IH]; intros pos st Hf Hph; [lia|].
  cbn [find_large_loop].
  destruct (pos + nn <=? hl) eqn:E.
  2: { apply satc_ret. pose proof (Nat.mul_le_mono_l _ _ (3 + K1 + K2) Hph). lia. }
  apply Nat.leb_le in E.
  apply satc_tick_bind.
  eapply satc_bind. { apply Hstep; exact E. }
  intros [r|[[pos1 ran] st1]] c1 Hr; cbn [step_cost] in Hr.
  { apply satc_ret. pose proof (amort_ret 3 K1 K2 pos hl c1 ltac:(lia) Hr ltac:(lia)). lia. }
  destruct Hr as (R1 & R2 & R3 & R4).
  rewrite csub_ok by lia. rewrite bind_lift_ok.
  rewrite (idx_ok h (pos1 + (nn - 1)) 0%N) by lia. rewrite bind_lift_ok.
  destruct (byteset_contains (tw_byteset tw) (nth (pos1 + (nn - 1)) h 0%N)); cbn [negb].
  2: { eapply satc_weaken. { apply (IH (pos1 + nn) st1); lia. }
       cbn beta. intros _ c2 Hc2.
       pose proof (amort_step 3 K1 K2 pos pos1 nn hl c1 0 c2 R1 R4 ltac:(lia) ltac:(lia) Hc2). lia. }
  eapply satc_bind. { apply scan_right_cost; [lia|lia|exact R2]. }
  intros i c2 (I1 & I2 & I3).
  destruct (i <? nn) eqn:Ei.
  - apply Nat.ltb_lt in Ei. rewrite csub_ok by lia. rewrite bind_lift_ok.
    eapply satc_weaken. { apply (IH (pos1 + (i - cc + 1)) st1); lia. }
    cbn beta. intros _ c3 Hc3.
    pose proof (amort_step 3 K1 K2 pos pos1 (i - cc + 1) hl c1 c2 c3 R1 R4 ltac:(lia) ltac:(lia) Hc3). lia.
  - apply Nat.ltb_ge in Ei. assert (i = nn) by lia. subst i.
    eapply satc_bind. { apply scan_left_large_cost; [lia|exact R2]. }
    intros [|] c3 Hc3; cbn beta in Hc3.
    + apply satc_ret.
      assert (0 + (3 + K1 + K2) * (pos1 + nn) <= (3 + K1 + K2) * hl) as Hfin
        by (apply Nat.mul_le_mono_l; exact R2).
      pose proof (amort_step 3 K1 K2 pos pos1 nn hl c1 (c2 + c3) 0 R1 R4 ltac:(lia) ltac:(lia) Hfin). lia.
    + eapply satc_weaken. { apply (IH (pos1 + s) st1); lia. }
      cbn beta. intros _ c4 Hc4.
      pose proof (amort_step 3 K1 K2 pos pos1 s hl c1 (c2 + c3) c4 R1 R4 ltac:(lia) ltac:(lia) Hc4). lia.
Qed.

(* Small period with a prefilter: the prefilter forgets the memory, so only
   "at most nn + 3 + K2 steps per iteration" *)
Lemma find_small_cost_weak p : 1 <= p -> p <= nn -> cc <= p -> forall fuel pos sh st,
  hl + 1 - pos < fuel -> pos <= hl -> sh < nn ->
  satc (find_small_loop tw pre a h x fuel p pos sh st)
       (fun _ cst => cst + ((nn + 3) + K1 + K2) * pos <= ((nn + 3) + K1 + K2) * hl).
Proof.
  intros Hp1 Hpn Hcp. induction fuel as [|f IH]; intros pos sh st Hf Hph Hsh; [lia|].
  cbn [find_small_loop].
  destruct (pos + nn <=? hl) eqn:E.
  2: { apply satc_ret. pose proof (Nat.mul_le_mono_l _ _ ((nn + 3) + K1 + K2) Hph). lia. }
  apply Nat.leb_le in E.
  apply satc_tick_bind.
  eapply satc_bind. { apply Hstep; exact E. }
  intros [r|[[pos1 ran] st1]] c1 Hr; cbn [step_cost] in Hr.
  { apply satc_ret. pose proof (amort_ret (nn + 3) K1 K2 pos hl c1 ltac:(lia) Hr ltac:(lia)). lia. }
  destruct Hr as (R1 & R2 & R3 & R4). cbv zeta.
  assert (cc <= (if ran then cc else Nat.max cc sh) /\ (if ran then cc else Nat.max cc sh) <= nn) as Hi0
    by (destruct ran; lia).
  assert ((if ran then 0 else sh) < nn) as Hsh1 by (destruct ran; lia).
  set (i0 := if ran then cc else Nat.max cc sh) in *.
  set (sh1 := if ran then 0 else sh) in *. clearbody i0 sh1.
  assert (forall d, 1 <= d -> (nn + 3) * 1 <= (nn + 3) * d) as Hmul
    by (intros d Hd; apply Nat.mul_le_mono_l; exact Hd).
  rewrite csub_ok by lia. rewrite bind_lift_ok.
  rewrite (idx_ok h (pos1 + (nn - 1)) 0%N) by lia. rewrite bind_lift_ok.
  destruct (byteset_contains (tw_byteset tw) (nth (pos1 + (nn - 1)) h 0%N)); cbn [negb].
  2: { eapply satc_weaken. { apply (IH (pos1 + nn) 0 st1); lia. }
       cbn beta. intros _ c2 Hc2. pose proof (Hmul nn ltac:(lia)).
       pose proof (amort_step (nn + 3) K1 K2 pos pos1 nn hl c1 0 c2 R1 R4 ltac:(lia) ltac:(lia) Hc2). lia. }
  eapply satc_bind. { apply scan_right_cost; [lia|lia|exact R2]. }
  intros i c2 (I1 & I2 & I3).
  destruct (i <? nn) eqn:Ei.
  - apply Nat.ltb_lt in Ei. rewrite csub_ok by lia. rewrite bind_lift_ok.
    eapply satc_weaken. { apply (IH (pos1 + (i - cc + 1)) 0 st1); lia. }
    cbn beta. intros _ c3 Hc3. pose proof (Hmul (i - cc + 1) ltac:(lia)).
    pose proof (amort_step (nn + 3) K1 K2 pos pos1 (i - cc + 1) hl c1 c2 c3 R1 R4 ltac:(lia) ltac:(lia) Hc3). lia.
  - apply Nat.ltb_ge in Ei. assert (i = nn) by lia. subst i.
    eapply satc_bind. { apply scan_left_small_cost; [lia|exact Hc|exact R2]. }
    intros j c3 (J1 & J2).
    eapply satc_bind with (P1 := fun _ cst => cst = 0).
    { destruct (j <=? sh1).
      - rewrite (idx_ok x sh1 0%N) by lia. rewrite bind_lift_ok.
        rewrite (idx_ok h (pos1 + sh1) 0%N) by lia. rewrite bind_lift_ok.
        apply satc_ret. reflexivity.
      - apply satc_ret. reflexivity. }
    intros ok c4 ->. destruct ok.
    + apply satc_ret.
      assert (0 + ((nn + 3) + K1 + K2) * (pos1 + nn) <= ((nn + 3) + K1 + K2) * hl) as Hfin
        by (apply Nat.mul_le_mono_l; exact R2).
      pose proof (Hmul nn ltac:(lia)).
      pose proof (amort_step (nn + 3) K1 K2 pos pos1 nn hl c1 (c2 + c3) 0 R1 R4 ltac:(lia) ltac:(lia) Hfin). lia.
    + rewrite csub_ok by lia. rewrite bind_lift_ok.
      eapply satc_weaken. { apply (IH (pos1 + p) (nn - p) st1); lia. }
      cbn beta. intros _ c5 Hc5. pose proof (Hmul p ltac:(lia)).
      pose proof (amort_step (nn + 3) K1 K2 pos pos1 p hl c1 (c2 + c3) c5 R1 R4 ltac:(lia) ltac:(lia) Hc5). lia.
Qed.

End Loops.

(* Small period without prefilter: Crochemore-Perrin amortisation with the
   potential 3 * pos + max cc sh *)
Lemma find_small_cost_none p : 1 <= p -> p <= nn -> cc <= p -> forall fuel pos sh st,
  hl + 1 - pos < fuel -> pos <= hl -> sh < nn ->
  satc (find_small_loop tw None a h x fuel p pos sh st)
       (fun _ cst => cst + 3 * pos + Nat.max cc sh <= 3 * hl + nn).
Proof.
  intros Hp1 Hpn Hcp. induction fuel as [|f IH]; intros pos sh st Hf Hph Hsh; [lia|].
  cbn [find_small_loop].
  destruct (pos + nn <=? hl) eqn:E.
  2: { apply satc_ret. lia. }
  apply Nat.leb_le in E.
  apply satc_tick_bind.
  unfold pre_step. rewrite bind_ret. cbv zeta. cbn iota.
  rewrite csub_ok by lia. rewrite bind_lift_ok.
  rewrite (idx_ok h (pos + (nn - 1)) 0%N) by lia. rewrite bind_lift_ok.
  destruct (byteset_contains (tw_byteset tw) (nth (pos + (nn - 1)) h 0%N)); cbn [negb].
  2: { eapply satc_weaken. { apply (IH (pos + nn) 0 st); lia. }
       cbn beta. intros _ c2 Hc2. lia. }
  eapply satc_bind. { apply scan_right_cost; [lia|lia|exact E]. }
  intros i c2 (I1 & I2 & I3).
  destruct (i <? nn) eqn:Ei.
  - apply Nat.ltb_lt in Ei. rewrite csub_ok by lia. rewrite bind_lift_ok.
    eapply satc_weaken. { apply (IH (pos + (i - cc + 1)) 0 st); lia. }
    cbn beta. intros _ c3 Hc3. lia.
  - apply Nat.ltb_ge in Ei. assert (i = nn) by lia. subst i.
    eapply satc_bind. { apply scan_left_small_cost; [lia|exact Hc|exact E]. }
    intros j c3 (J1 & J2).
    eapply satc_bind with (P1 := fun _ cst => cst = 0).
    { destruct (j <=? sh).
      - rewrite (idx_ok x sh 0%N) by lia. rewrite bind_lift_ok.
        rewrite (idx_ok h (pos + sh) 0%N) by lia. rewrite bind_lift_ok.
        apply satc_ret. reflexivity.
      - apply satc_ret. reflexivity. }
    intros ok c4 ->. destruct ok.
    + apply satc_ret. lia.
    + rewrite csub_ok by lia. rewrite bind_lift_ok.
      eapply satc_weaken. { apply (IH (pos + p) (nn - p) st); lia. }
      cbn beta. intros _ c5 Hc5. lia.
Qed.

End CostFwd.

(* ------------------------------------------------------------------ *)
(* the Large shift value.  The certificates only record 1 <= s <= P, which is all
   correctness needs; linear time needs the value Shift::forward/reverse really
   computes, max cp (n - cp). *)
Definition large_shift_ok (x : list N) (tw : twoway) : Prop :=
  forall s, tw_shift tw = Large s -> Nat.max (tw_cp tw) (length x - tw_cp tw) <= s.

Lemma shift_fwd_large x plb cp s :
  fst (shift_fwd x plb cp) = Ok (Large s) -> s = Nat.max cp (length x - cp).
Proof.
  unfold shift_fwd, csub. destruct (cp <=? length x) eqn:E; [|rewrite bind_lift_panic; intros G; discriminate G].
  rewrite bind_lift_ok. destruct (length x <=? cp * 2).
  { cbn [fst ret]. intros G. injection G as <-. reflexivity. }
  rewrite bind_guard_true.
  destruct (plb <=? length x - cp); [rewrite bind_ret|rewrite fst_bind; intros G; discriminate G].
  rewrite fst_bind.
  match goal with |- match ?t with _ => _ end = _ -> _ => destruct t as [suf|] end; [|intros G; discriminate G].
  destruct suf; cbn [negb fst ret]; intros G; [discriminate|]. injection G as <-. reflexivity.
Qed.

Lemma shift_rev_large x plb cp s :
  fst (shift_rev x plb cp) = Ok (Large s) -> s = Nat.max cp (length x - cp).
Proof.
  unfold shift_rev, csub. destruct (cp <=? length x) eqn:E; [|rewrite bind_lift_panic; intros G; discriminate G].
  rewrite bind_lift_ok. destruct (length x <=? (length x - cp) * 2).
  { cbn [fst ret]. intros G. injection G as <-. reflexivity. }
  rewrite bind_guard_true.
  destruct (plb <=? cp); [rewrite bind_lift_ok|rewrite bind_lift_panic; intros G; discriminate G].
  rewrite fst_bind.
  match goal with |- match ?t with _ => _ end = _ -> _ => destruct t as [pre|] end; [|intros G; discriminate G].
  destruct pre; cbn [negb fst ret]; intros G; [discriminate|]. injection G as <-. reflexivity.
Qed.

Lemma tw_new_large_shift x tw s :
  fst (tw_new x) = Ok tw -> tw_shift tw = Large s -> s = Nat.max (tw_cp tw) (length x - tw_cp tw).
Proof.
  unfold tw_new. rewrite fst_bind. destruct (fst (suffix_fwd x Minimal)) as [mn|]; [|intros G; discriminate G].
  rewrite fst_bind. destruct (fst (suffix_fwd x Maximal)) as [mx|]; [|intros G; discriminate G].
  destruct (fst mx <? fst mn).
  - rewrite fst_bind. destruct (fst (shift_fwd x (snd mn) (fst mn))) as [sh|] eqn:Esh; [|intros G; discriminate G].
    cbn [fst ret]. intros G. injection G as <-. cbn [tw_shift tw_cp]. intros ->.
    apply shift_fwd_large in Esh. exact Esh.
  - rewrite fst_bind. destruct (fst (shift_fwd x (snd mx) (fst mx))) as [sh|] eqn:Esh; [|intros G; discriminate G].
    cbn [fst ret]. intros G. injection G as <-. cbn [tw_shift tw_cp]. intros ->.
    apply shift_fwd_large in Esh. exact Esh.
Qed.

Lemma tw_new_rev_large_shift x tw s :
  fst (tw_new_rev x) = Ok tw -> tw_shift tw = Large s -> s = Nat.max (tw_cp tw) (length x - tw_cp tw).
Proof.
  unfold tw_new_rev. rewrite fst_bind. destruct (fst (suffix_rev x Minimal)) as [mn|]; [|intros G; discriminate G].
  rewrite fst_bind. destruct (fst (suffix_rev x Maximal)) as [mx|]; [|intros G; discriminate G].
  destruct (fst mn <? fst mx).
  - rewrite fst_bind. destruct (fst (shift_rev x (snd mn) (fst mn))) as [sh|] eqn:Esh; [|intros G; discriminate G].
    cbn [fst ret]. intros G. injection G as <-. cbn [tw_shift tw_cp]. intros ->.
    apply shift_rev_large in Esh. exact Esh.
  - rewrite fst_bind. destruct (fst (shift_rev x (snd mx) (fst mx))) as [sh|] eqn:Esh; [|intros G; discriminate G].
    cbn [fst ret]. intros G. injection G as <-. cbn [tw_shift tw_cp]. intros ->.
    apply shift_rev_large in Esh. exact Esh.
Qed.

Lemma tw_new_large_shift_ok x tw : fst (tw_new x) = Ok tw -> large_shift_ok x tw.
Proof. intros H s Hs. rewrite (tw_new_large_shift x tw s H Hs). lia. Qed.

Lemma tw_new_rev_large_shift_ok x tw : fst (tw_new_rev x) = Ok tw -> large_shift_ok x tw.
Proof. intros H s Hs. rewrite (tw_new_rev_large_shift x tw s H Hs). lia. Qed.

(* what the forward certificate says that the cost proofs use *)
Lemma cert_fwd_cost_facts x tw : tw_cert_fwd x tw = true ->
  tw_cp tw < length x /\
  match tw_shift tw with
  | Small p => 1 <= p /\ p <= length x /\ tw_cp tw <= p
  | Large s => 1 <= s /\ s <= length x
  end.
Proof.
  intros Hcert. unfold tw_cert_fwd in Hcert. cbv zeta in Hcert.
  apply andb_true_iff in Hcert as [Hcert Hshift].
  apply andb_true_iff in Hcert as [Hc _].
  apply Nat.ltb_lt in Hc. split; [exact Hc|].
  destruct (TwoWayFwdProofs.smallest_period_spec x ltac:(lia)) as (_ & HP1 & HPn).
  destruct (tw_shift tw) as [p|s]; apply andb_true_iff in Hshift as [H1 H2].
  - apply Nat.eqb_eq in H1. apply Nat.leb_le in H2. lia.
  - apply Nat.leb_le in H1. apply Nat.leb_le in H2. lia.
Qed.

(* forward search WITHOUT prefilter: linear in the haystack *)
Theorem tw_find_cost : forall x h tw a st,
  tw_cert_fwd x tw = true -> tw_byteset tw = byteset_new x -> large_shift_ok x tw ->
  satc (tw_find tw None a h x st) (fun _ c => c <= 3 * length h + length x + 3).
Proof.
  intros x h tw a st Hcert _ Hls.
  destruct (cert_fwd_cost_facts x tw Hcert) as [Hc Hsh].
  unfold tw_find.
  assert (length x =? 0 = false) as E0 by (apply Nat.eqb_neq; lia).
  specialize (Hls). unfold large_shift_ok in Hls.
  destruct (tw_shift tw) as [p|s]; rewrite E0.
  - destruct Hsh as (Hp1 & Hpn & Hcp).
    eapply satc_weaken. { apply (find_small_cost_none x h tw a Hc p Hp1 Hpn Hcp); lia. }
    cbn beta. intros _ c Hcst. lia.
  - destruct Hsh as (Hs1 & Hsn). specialize (Hls s eq_refl).
    eapply satc_weaken.
    { apply (find_large_cost x h tw a Hc None 0 0
               (fun pos st0 Hp => pre_step_cost_none x h tw a Hc 0 0 pos st0 Hp) s Hs1 Hsn Hls); lia. }
    cbn beta. intros _ c Hcst. lia.
Qed.

(* forward search WITH a prefilter, Large shift *)
Theorem tw_find_cost_pre_large : forall x h tw pf a st K1 K2 s,
  tw_cert_fwd x tw = true -> tw_byteset tw = byteset_new x -> tw_shift tw = Large s ->
  Nat.max (tw_cp tw) (length x - tw_cp tw) <= s ->
  pre_ok x pf -> pre_mul_saturating = true -> pre_cost x pf K1 K2 ->
  Forall (fun b => (b < 256)%N) h ->
  satc (tw_find tw (Some pf) a h x st)
       (fun _ c => c <= (3 + K1 + K2) * (length h + 1) + length x + 3).
Proof.
  intros x h tw pf a st K1 K2 s Hcert _ Hs Hls _ Hsat Hpc Hbytes.
  destruct (cert_fwd_cost_facts x tw Hcert) as [Hc Hsh].
  unfold tw_find.
  assert (length x =? 0 = false) as E0 by (apply Nat.eqb_neq; lia).
  rewrite Hs in *. rewrite E0. destruct Hsh as (Hs1 & Hsn).
  eapply satc_weaken.
  { apply (find_large_cost x h tw a Hc (Some pf) K1 K2
             (fun pos st0 Hp => pre_step_cost_some x h tw a Hc pf K1 K2 pos st0 Hsat Hpc Hbytes Hp) s Hs1 Hsn Hls); lia. }
  cbn beta. intros _ c Hcst. lia.
Qed.

(* forward search WITH a prefilter, Small period: the weak bound *)
Theorem tw_find_cost_pre_small_weak : forall x h tw pf a st K1 K2 p,
  tw_cert_fwd x tw = true -> tw_byteset tw = byteset_new x -> tw_shift tw = Small p ->
  pre_ok x pf -> pre_mul_saturating = true -> pre_cost x pf K1 K2 ->
  Forall (fun b => (b < 256)%N) h ->
  satc (tw_find tw (Some pf) a h x st)
       (fun _ c => c <= (length x + K1 + K2 + 3) * (length h + 1)).
Proof.
  intros x h tw pf a st K1 K2 p Hcert _ Hs _ Hsat Hpc Hbytes.
  destruct (cert_fwd_cost_facts x tw Hcert) as [Hc Hsh].
  unfold tw_find.
  assert (length x =? 0 = false) as E0 by (apply Nat.eqb_neq; lia).
  rewrite Hs in *. rewrite E0. destruct Hsh as (Hp1 & Hpn & Hcp).
  eapply satc_weaken.
  { apply (find_small_cost_weak x h tw a Hc (Some pf) K1 K2
             (fun pos st0 Hp => pre_step_cost_some x h tw a Hc pf K1 K2 pos st0 Hsat Hpc Hbytes Hp) p Hp1 Hpn Hcp); lia. }
  cbn beta. intros _ c Hcst. lia.
Qed.

(* ------------------------------------------------------------------ *)
(* 3. reverse search: the mirror image, potential 3 * pos + min cc sh *)

Section CostRev.
Variables (x h : list N) (tw : twoway).

Local Notation nn := (length x).
Local Notation cc := (tw_cp tw).
Local Notation hl := (length h).

Hypothesis Hc0 : 0 < cc.
Hypothesis Hcn : cc <= nn.

Lemma rscan_left_cost base : forall fuel i,
  i < fuel -> i <= nn -> base + nn <= hl ->
  satc (rscan_left h x fuel i base)
       (fun r cst => r <= i /\ cst = i - r /\ (r = 0 -> 0 < i -> nth 0 x 0%N = nth base h 0%N)).
Proof.
  induction fuel as [|f IH]; intros i Hf Hi Hb; [lia|]. cbn [rscan_left].
  destruct (0 <? i) eqn:E.
  - apply Nat.ltb_lt in E.
    rewrite (idx_ok x (i - 1) 0%N) by lia. rewrite bind_lift_ok.
    rewrite csub_ok by lia. rewrite bind_lift_ok.
    rewrite (idx_ok h (base + i - 1) 0%N) by lia. rewrite bind_lift_ok.
    destruct (N.eqb_spec (nth (i - 1) x 0%N) (nth (base + i - 1) h 0%N)) as [Heq|Hne].
    + apply satc_tick_bind. eapply satc_weaken. { apply (IH (i - 1)); lia. }
      cbn beta. intros r cst (R1 & R2 & R3). split; [lia|]. split; [lia|].
      intros Hr0 _. destruct (Nat.eq_dec i 1) as [Hi1|Hi1].
      * replace (i - 1) with 0 in Heq by lia. replace (base + i - 1) with base in Heq by lia. exact Heq.
      * apply R3; lia.
    + apply satc_ret. split; [lia|]. split; [lia|]. intros; lia.
  - apply Nat.ltb_ge in E. apply satc_ret. split; [lia|]. split; [lia|]. intros; lia.
Qed.

Lemma rscan_right_cost base lim :
  lim <= nn -> base + nn <= hl ->
  forall fuel j, lim - j < fuel ->
  satc (rscan_right h x fuel j lim base) (fun r cst => j <= r /\ r <= Nat.max j lim /\ cst = r - j).
Proof.
  intros Hl Hb. induction fuel as [|f IH]; intros j Hf; [lia|]. cbn [rscan_right].
  destruct (j <? lim) eqn:E.
  - apply Nat.ltb_lt in E.
    rewrite (idx_ok x j 0%N) by lia. rewrite bind_lift_ok.
    rewrite (idx_ok h (base + j) 0%N) by lia. rewrite bind_lift_ok.
    destruct (nth j x 0 =? nth (base + j) h 0)%N.
    + apply satc_tick_bind. eapply satc_weaken. { apply (IH (j + 1)); lia. }
      cbn beta. intros r cst (R1 & R2 & R3). lia.
    + apply satc_ret. lia.
  - apply Nat.ltb_ge in E. apply satc_ret. lia.
Qed.

Lemma rfind_small_cost p : 1 <= p -> p <= nn -> nn - cc <= p -> forall fuel pos sh,
  pos < fuel -> pos <= hl -> 1 <= sh -> sh <= nn ->
  satc (rfind_small_loop tw h x fuel p pos sh) (fun _ cst => cst <= 3 * pos + Nat.min cc sh).
Proof.
  intros Hp1 Hpn Hcp. induction fuel as [|f IH]; intros pos sh Hf Hh Hs1 Hsn; [lia|].
  rewrite rfind_small_loop_S.
  destruct (nn <=? pos) eqn:E.
  2:{ apply satc_ret. lia. }
  apply Nat.leb_le in E.
  apply satc_tick_bind.
  rewrite csub_ok by exact E. rewrite bind_lift_ok.
  rewrite (idx_ok h (pos - nn) 0%N) by lia. rewrite bind_lift_ok.
  destruct (byteset_contains (tw_byteset tw) (nth (pos - nn) h 0%N)); cbn [negb].
  2:{ eapply satc_weaken. { apply (IH (pos - nn) nn); lia. }
      cbn beta. intros _ c2 Hc2. lia. }
  eapply satc_bind. { apply rscan_left_cost; lia. }
  intros i c2 (I1 & I2 & I3).
  rewrite (idx_ok x 0 0%N) by lia. rewrite bind_lift_ok.
  destruct (0 <? i) eqn:Ei; cbn [orb].
  - apply Nat.ltb_lt in Ei.
    rewrite csub_ok by lia. rewrite bind_lift_ok.
    rewrite csub_ok by lia. rewrite bind_lift_ok.
    eapply satc_weaken. { apply (IH (pos - (cc - i + 1)) nn); lia. }
    cbn beta. intros _ c3 Hc3. lia.
  - apply Nat.ltb_ge in Ei. assert (i = 0) by lia. subst i.
    rewrite (I3 eq_refl ltac:(lia)), N.eqb_refl. cbn [negb].
    eapply satc_bind. { apply rscan_right_cost with (fuel := S nn); lia. }
    intros j c3 (J1 & J2 & J3).
    destruct (sh <=? j) eqn:Ej.
    + apply satc_ret. lia.
    + apply Nat.leb_gt in Ej.
      rewrite csub_ok by lia. rewrite bind_lift_ok.
      eapply satc_weaken. { apply (IH (pos - p) p); lia. }
      cbn beta. intros _ c4 Hc4. lia.
Qed.

Lemma rfind_large_cost s : 1 <= s -> s <= nn -> Nat.max cc (nn - cc) <= s -> forall fuel pos,
  pos < fuel -> pos <= hl ->
  satc (rfind_large_loop tw h x fuel s pos) (fun _ cst => cst <= 3 * pos).
Proof.
  intros Hs1 Hsn Hsm. induction fuel as [|f IH]; intros pos Hf Hh; [lia|].
  rewrite rfind_large_loop_S.
  destruct (nn <=? pos) eqn:E.
  2:{ apply satc_ret. lia. }
  apply Nat.leb_le in E.
  apply satc_tick_bind.
  rewrite csub_ok by exact E. rewrite bind_lift_ok.
  rewrite (idx_ok h (pos - nn) 0%N) by lia. rewrite bind_lift_ok.
  destruct (byteset_contains (tw_byteset tw) (nth (pos - nn) h 0%N)); cbn [negb].
  2:{ eapply satc_weaken. { apply (IH (pos - nn)); lia. }
      cbn beta. intros _ c2 Hc2. lia. }
  eapply satc_bind. { apply rscan_left_cost; lia. }
  intros i c2 (I1 & I2 & I3).
  rewrite (idx_ok x 0 0%N) by lia. rewrite bind_lift_ok.
  destruct (0 <? i) eqn:Ei; cbn [orb].
  - apply Nat.ltb_lt in Ei.
    rewrite csub_ok by lia. rewrite bind_lift_ok.
    rewrite csub_ok by lia. rewrite bind_lift_ok.
    eapply satc_weaken. { apply (IH (pos - (cc - i + 1))); lia. }
    cbn beta. intros _ c3 Hc3. lia.
  - apply Nat.ltb_ge in Ei. assert (i = 0) by lia. subst i.
    rewrite (I3 eq_refl ltac:(lia)), N.eqb_refl. cbn [negb].
    eapply satc_bind. { apply rscan_right_cost with (fuel := S nn); lia. }
    intros j c3 (J1 & J2 & J3).
    destruct (Nat.eqb_spec j nn) as [Ej|Ej].
    + apply satc_ret. lia.
    + rewrite csub_ok by lia. rewrite bind_lift_ok.
      eapply satc_weaken. { apply (IH (pos - s)); lia. }
      cbn beta. intros _ c4 Hc4. lia.
Qed.

End CostRev.

Theorem tw_rfind_cost : forall x h tw,
  tw_cert_rev x tw = true -> tw_byteset tw = byteset_new x -> large_shift_ok x tw ->
  satc (tw_rfind tw h x) (fun _ c => c <= 3 * length h + length x + 3).
Proof.
  intros x h tw Hcert _ Hls.
  destruct (cert_rev_facts x tw Hcert) as (Hc0 & Hcn & _ & HF3).
  assert (1 <= length x) as Hn1 by lia.
  destruct (TwoWayRevProofs.smallest_period_spec x Hn1) as (HP1 & HPn & _).
  assert (length x =? 0 = false) as En by (apply Nat.eqb_neq; lia).
  unfold large_shift_ok in Hls.
  unfold tw_rfind. destruct (tw_shift tw) as [p|s]; rewrite En.
  - destruct HF3 as [-> HF3].
    eapply satc_weaken. { apply (rfind_small_cost x h tw Hc0 Hcn _ HP1 HPn HF3); lia. }
    cbn beta. intros _ c Hcst. lia.
  - destruct HF3 as [Hs1 Hs2]. specialize (Hls s eq_refl).
    eapply satc_weaken. { apply (rfind_large_cost x h tw Hc0 Hcn s Hs1 ltac:(lia) Hls); lia. }
    cbn beta. intros _ c Hcst. lia.
Qed.

(* ------------------------------------------------------------------ *)
(* 4. the same bounds for the searcher the preprocessing really builds: the
   byte set and the Large shift value come from tw_new / tw_new_rev themselves *)

Lemma tw_new_byteset x tw : fst (tw_new x) = Ok tw -> tw_byteset tw = byteset_new x.
Proof.
  intros H. destruct (satq_fst _ _ _ (tw_new_ok x)) as (tw' & Htw' & (Hbs & _) & _).
  rewrite Htw' in H. injection H as <-. exact Hbs.
Qed.

Lemma tw_new_rev_byteset x tw : fst (tw_new_rev x) = Ok tw -> tw_byteset tw = byteset_new x.
Proof.
  intros H. destruct (satq_fst _ _ _ (tw_new_rev_ok x)) as (tw' & Htw' & (Hbs & _) & _).
  rewrite Htw' in H. injection H as <-. exact Hbs.
Qed.

Corollary tw_find_cost_new : forall x h tw a st,
  fst (tw_new x) = Ok tw -> tw_cert_fwd x tw = true ->
  satc (tw_find tw None a h x st) (fun _ c => c <= 3 * length h + length x + 3).
Proof.
  intros x h tw a st Hnew Hcert.
  apply tw_find_cost; [exact Hcert|apply tw_new_byteset; exact Hnew|apply tw_new_large_shift_ok; exact Hnew].
Qed.

Corollary tw_rfind_cost_new : forall x h tw,
  fst (tw_new_rev x) = Ok tw -> tw_cert_rev x tw = true ->
  satc (tw_rfind tw h x) (fun _ c => c <= 3 * length h + length x + 3).
Proof.
  intros x h tw Hnew Hcert.
  apply tw_rfind_cost; [exact Hcert|apply tw_new_rev_byteset; exact Hnew|apply tw_new_rev_large_shift_ok; exact Hnew].
Qed.

Corollary tw_find_cost_pre_large_new : forall x h tw pf a st K1 K2 s,
  fst (tw_new x) = Ok tw -> tw_cert_fwd x tw = true -> tw_shift tw = Large s ->
  pre_ok x pf -> pre_mul_saturating = true -> pre_cost x pf K1 K2 ->
  Forall (fun b => (b < 256)%N) h ->
  satc (tw_find tw (Some pf) a h x st)
       (fun _ c => c <= (3 + K1 + K2) * (length h + 1) + length x + 3).
Proof.
  intros x h tw pf a st K1 K2 s Hnew Hcert Hs Hok Hsat Hpc Hbytes.
  apply (tw_find_cost_pre_large x h tw pf a st K1 K2 s); try assumption.
  - apply tw_new_byteset; exact Hnew.
  - apply (tw_new_large_shift_ok x tw Hnew s Hs).
Qed.

Corollary tw_find_cost_pre_small_weak_new : forall x h tw pf a st K1 K2 p,
  fst (tw_new x) = Ok tw -> tw_cert_fwd x tw = true -> tw_shift tw = Small p ->
  pre_ok x pf -> pre_mul_saturating = true -> pre_cost x pf K1 K2 ->
  Forall (fun b => (b < 256)%N) h ->
  satc (tw_find tw (Some pf) a h x st)
       (fun _ c => c <= (length x + K1 + K2 + 3) * (length h + 1)).
Proof.
  intros x h tw pf a st K1 K2 p Hnew Hcert Hs Hok Hsat Hpc Hbytes.
  apply (tw_find_cost_pre_small_weak x h tw pf a st K1 K2 p); try assumption.
  apply tw_new_byteset; exact Hnew.
Qed.

Print Assumptions tw_new_cost.
Print Assumptions tw_new_rev_cost.
Print Assumptions tw_find_cost.
Print Assumptions tw_rfind_cost.
Print Assumptions tw_find_cost_pre_large.
Print Assumptions tw_find_cost_pre_small_weak.
Print Assumptions tw_new_large_shift.
Print Assumptions tw_new_rev_large_shift.
Print Assumptions tw_find_cost_new.
Print Assumptions tw_rfind_cost_new.
Print Assumptions tw_find_cost_pre_large_new.
Print Assumptions tw_find_cost_pre_small_weak_new.
