(* Model of src/arch/all/twoway.rs: preprocessing (approximate byte set,
   maximal/minimal suffix, shift) and the four search loops, with an optional
   prefilter for the forward direction.  Every slice index is an `idx` (panics
   when out of range), every usize subtraction a `csub`. *)
From Memchr Require Export Sub.IsEqual Sub.Prefilter Mem.Iter.
From Memchr Require Import Params.

Inductive shift := Small (period : nat) | Large (sh : nat).
Record twoway := { tw_byteset : N; tw_cp : nat; tw_shift : shift }.

(* ---- ApproximateByteSet(u64) ---- *)
Definition byteset_bit (b : N) : N := (2 ^ (b mod 64))%N.
Definition byteset_new (x : list N) : N := fold_left (fun bits b => N.lor bits (byteset_bit b)) x 0%N.
Definition byteset_contains (bits b : N) : bool := negb (N.land bits (byteset_bit b) =? 0)%N.

(* ---- Suffix ---- *)
Inductive skind := Minimal | Maximal.
Inductive sord := Accept | Skip | Push.

Definition kcmp (k : skind) (current candidate : N) : sord :=
  match k with
  | Minimal => if (candidate <? current)%N then Accept else if (current <? candidate)%N then Skip else Push
  | Maximal => if (current <? candidate)%N then Accept else if (candidate <? current)%N then Skip else Push
  end.

Section Pre.
Variable x : list N.
Let nlen := length x.

(* Suffix::forward: state (pos, period, candidate_start, offset) *)
Fixpoint suffix_fwd_loop (k : skind) (fuel pos period cand off : nat) : M (nat * nat) :=
  match fuel with
  | 0 => fail OutOfFuel
  | S f =>
      if cand + off <? nlen then
        tick 2;;;
        current <- lift (idx x (pos + off));;
        candidate <- lift (idx x (cand + off));;
        match kcmp k current candidate with
        | Accept => suffix_fwd_loop k f cand 1 (cand + 1) 0
        | Skip =>
            let cand' := cand + (off + 1) in
            p' <- lift (csub cand' pos);;
            suffix_fwd_loop k f pos p' cand' 0
        | Push =>
            if off + 1 =? period then suffix_fwd_loop k f pos period (cand + period) 0
            else suffix_fwd_loop k f pos period cand (off + 1)
        end
      else ret (pos, period)
  end.

Definition suffix_fwd (k : skind) : M (nat * nat) :=
  suffix_fwd_loop k (2 * nlen + 2) 0 1 1 0.

(* Suffix::reverse *)
Fixpoint suffix_rev_loop (k : skind) (fuel pos period cand off : nat) : M (nat * nat) :=
  match fuel with
  | 0 => fail OutOfFuel
  | S f =>
      if off <? cand then
        tick 2;;;
        i1 <- lift (csub pos off);; i1' <- lift (csub i1 1);;
        current <- lift (idx x i1');;
        i2 <- lift (csub cand off);; i2' <- lift (csub i2 1);;
        candidate <- lift (idx x i2');;
        match kcmp k current candidate with
        | Accept =>
            c' <- lift (csub cand 1);;
            suffix_rev_loop k f cand 1 c' 0
        | Skip =>
            c' <- lift (csub cand (off + 1));;
            p' <- lift (csub pos c');;
            suffix_rev_loop k f pos p' c' 0
        | Push =>
            if off + 1 =? period then
              c' <- lift (csub cand period);;
              suffix_rev_loop k f pos period c' 0
            else suffix_rev_loop k f pos period cand (off + 1)
        end
      else ret (pos, period)
  end.

Definition suffix_rev (k : skind) : M (nat * nat) :=
  if nlen =? 1 then ret (nlen, 1)
  else match nlen with
       | 0 => ret (nlen, 1)
       | S c => suffix_rev_loop k (2 * nlen + 2) nlen 1 c 0
       end.

(* Shift::forward(needle, period_lower_bound, critical_pos) *)
Definition shift_fwd (plb cp : nat) : M shift :=
  r <- lift (csub nlen cp);;
  let large := Nat.max cp r in
  if nlen <=? cp * 2 then ret (Large large)
  else
    (* (u, v) = needle.split_at(cp);  &v[..plb] *)
    guard 70 (cp <=? nlen);;;
    (if plb <=? nlen - cp then ret tt else fail IndexOOB);;;
    (* is_suffix(&v[..plb], u) = u.len() <= plb && is_equal(&v[plb - u.len()..plb], u) *)
    suf <- (if cp <=? plb
            then is_equal_raw RNeedle RNeedle x x (cp + (plb - cp)) 0 cp
            else ret false);;
    if negb suf then ret (Large large) else ret (Small plb).

(* Shift::reverse *)
Definition shift_rev (plb cp : nat) : M shift :=
  r <- lift (csub nlen cp);;
  let large := Nat.max cp r in
  if nlen <=? r * 2 then ret (Large large)
  else
    (* (v, u) = needle.split_at(cp);  &v[v.len() - plb..] *)
    guard 71 (cp <=? nlen);;;
    s <- lift (csub cp plb);;
    (* is_prefix(&v[v.len()-plb..], u) = u.len() <= plb && is_equal(&v'[..u.len()], u) *)
    pre <- (if r <=? plb
            then is_equal_raw RNeedle RNeedle x x s cp r
            else ret false);;
    if negb pre then ret (Large large) else ret (Small plb).

(* twoway::Finder::new *)
Definition tw_new : M twoway :=
  let bs := byteset_new x in
  mn <- suffix_fwd Minimal;;
  mx <- suffix_fwd Maximal;;
  let '(plb, cp) := if fst mx <? fst mn then (snd mn, fst mn) else (snd mx, fst mx) in
  sh <- shift_fwd plb cp;;
  ret {| tw_byteset := bs; tw_cp := cp; tw_shift := sh |}.

(* twoway::FinderRev::new *)
Definition tw_new_rev : M twoway :=
  let bs := byteset_new x in
  mn <- suffix_rev Minimal;;
  mx <- suffix_rev Maximal;;
  let '(plb, cp) := if fst mn <? fst mx then (snd mn, fst mn) else (snd mx, fst mx) in
  sh <- shift_rev plb cp;;
  ret {| tw_byteset := bs; tw_cp := cp; tw_shift := sh |}.

End Pre.

(* a prefilter as Two-Way sees it: called on the rest of the haystack (address, bytes) *)
Definition prefn := nat -> list N -> M (option nat).

Section Search.
Variable tw : twoway.
Variable pre : option prefn.
Variables (a : nat) (h x : list N).
Let nlen := length x.
Let hlen := length h.
Let cp := tw_cp tw.

Definition shifted {A} (k : nat) (m : M A) : M A := (fst m, map (shift_ev k) (snd m)).

(* while i < needle.len() && needle[i] == haystack[pos + i] { i += 1 } *)
Fixpoint scan_right (fuel i pos : nat) : M nat :=
  match fuel with
  | 0 => fail OutOfFuel
  | S f =>
      if i <? nlen then
        nb <- lift (idx x i);; hb <- lift (idx h (pos + i));;
        if (nb =? hb)%N then tick 1;;; scan_right f (i + 1) pos else ret i
      else ret i
  end.

(* while j > shift && needle[j] == haystack[pos + j] { j -= 1 } *)
Fixpoint scan_left_small (fuel j sh pos : nat) : M nat :=
  match fuel with
  | 0 => fail OutOfFuel
  | S f =>
      if sh <? j then
        nb <- lift (idx x j);; hb <- lift (idx h (pos + j));;
        if (nb =? hb)%N then tick 1;;; scan_left_small f (j - 1) sh pos else ret j
      else ret j
  end.

(* the prefilter step shared by both forward loops; returns Ret (function result)
   or Go (new pos, prefilter ran?, new state) *)
Definition pre_step (pos : nat) (st : prestate) : M (ctl (option nat * prestate) (nat * bool * prestate)) :=
  match pre with
  | None => ret (Go (pos, false, st))
  | Some pf =>
      e <- lift (pre_is_effective st);;
      if fst e then
        guard 72 (pos <=? hlen);;;
        r <- shifted pos (pf (a + pos) (skipn pos h));;
        let st2 := pre_update (snd e) (match r with Some c => c | None => hlen - pos end) in
        match r with
        | None => ret (Ret (None, st2))
        | Some c =>
            let pos' := pos + c in
            if hlen <? pos' + nlen then ret (Ret (None, st2)) else ret (Go (pos', true, st2))
        end
      else ret (Go (pos, false, snd e))
  end.

Fixpoint find_small_loop (fuel period pos sh : nat) (st : prestate) : M (option nat * prestate) :=
  match fuel with
  | 0 => fail OutOfFuel
  | S f =>
      if pos + nlen <=? hlen then
        tick 1;;;
        pr <- pre_step pos st;;
        match pr with
        | Ret r => ret r
        | Go (pos1, ran, st1) =>
            let sh1 := if ran then 0 else sh in
            let i0 := if ran then cp else Nat.max cp sh in
            last <- lift (csub nlen 1);;
            lb <- lift (idx h (pos1 + last));;
            if negb (byteset_contains (tw_byteset tw) lb) then find_small_loop f period (pos1 + nlen) 0 st1
            else
              i <- scan_right (S nlen) i0 pos1;;
              if i <? nlen then
                d <- lift (csub i cp);;
                find_small_loop f period (pos1 + (d + 1)) 0 st1
              else
                j <- scan_left_small (S nlen) cp sh1 pos1;;
                ok <- (if j <=? sh1 then
                         nb <- lift (idx x sh1);; hb <- lift (idx h (pos1 + sh1));; ret (nb =? hb)%N
                       else ret false);;
                if ok then ret (Some pos1, st1)
                else
                  sh' <- lift (csub nlen period);;
                  find_small_loop f period (pos1 + period) sh' st1
        end
      else ret (None, st)
  end.

(* for j in (0..critical_pos).rev() { if needle[j] != haystack[pos + j] { mismatch } } *)
Fixpoint scan_left_large (j pos : nat) : M bool :=
  match j with
  | 0 => ret true
  | S j' =>
      tick 1;;;
      nb <- lift (idx x j');; hb <- lift (idx h (pos + j'));;
      if (nb =? hb)%N then scan_left_large j' pos else ret false
  end.

Fixpoint find_large_loop (fuel shiftv pos : nat) (st : prestate) : M (option nat * prestate) :=
  match fuel with
  | 0 => fail OutOfFuel
  | S f =>
      if pos + nlen <=? hlen then
        tick 1;;;
        pr <- pre_step pos st;;
        match pr with
        | Ret r => ret r
        | Go (pos1, _, st1) =>
            last <- lift (csub nlen 1);;
            lb <- lift (idx h (pos1 + last));;
            if negb (byteset_contains (tw_byteset tw) lb) then find_large_loop f shiftv (pos1 + nlen) st1
            else
              i <- scan_right (S nlen) cp pos1;;
              if i <? nlen then
                d <- lift (csub i cp);;
                find_large_loop f shiftv (pos1 + (d + 1)) st1
              else
                ok <- scan_left_large cp pos1;;
                if ok then ret (Some pos1, st1)
                else find_large_loop f shiftv (pos1 + shiftv) st1
        end
      else ret (None, st)
  end.

(* find_with_prefilter *)
Definition tw_find (st : prestate) : M (option nat * prestate) :=
  match tw_shift tw with
  | Small period =>
      if nlen =? 0 then ret (Some 0, st) else find_small_loop (S (S hlen)) period 0 0 st
  | Large s =>
      if nlen =? 0 then ret (Some 0, st) else find_large_loop (S (S hlen)) s 0 st
  end.

(* ---- reverse ---- *)
(* while i > 0 && needle[i - 1] == haystack[pos - nlen + i - 1] { i -= 1 } *)
Fixpoint rscan_left (fuel i base : nat) : M nat :=
  match fuel with
  | 0 => fail OutOfFuel
  | S f =>
      if 0 <? i then
        nb <- lift (idx x (i - 1));;
        k <- lift (csub (base + i) 1);;
        hb <- lift (idx h k);;
        if (nb =? hb)%N then tick 1;;; rscan_left f (i - 1) base else ret i
      else ret i
  end.

(* while j < lim && needle[j] == haystack[pos - nlen + j] { j += 1 } *)
Fixpoint rscan_right (fuel j lim base : nat) : M nat :=
  match fuel with
  | 0 => fail OutOfFuel
  | S f =>
      if j <? lim then
        nb <- lift (idx x j);; hb <- lift (idx h (base + j));;
        if (nb =? hb)%N then tick 1;;; rscan_right f (j + 1) lim base else ret j
      else ret j
  end.

Fixpoint rfind_small_loop (fuel period pos sh : nat) : M (option nat) :=
  match fuel with
  | 0 => fail OutOfFuel
  | S f =>
      if nlen <=? pos then
        tick 1;;;
        base <- lift (csub pos nlen);;
        fb <- lift (idx h base);;
        if negb (byteset_contains (tw_byteset tw) fb) then rfind_small_loop f period base nlen
        else
          i <- rscan_left (S nlen) (Nat.min cp sh) base;;
          first <- lift (idx x 0);;
          if (0 <? i) || negb (first =? fb)%N then
            d <- lift (csub cp i);;
            p' <- lift (csub pos (d + 1));;
            rfind_small_loop f period p' nlen
          else
            j <- rscan_right (S nlen) cp sh base;;
            if sh <=? j then ret (Some base)
            else
              p' <- lift (csub pos period);;
              rfind_small_loop f period p' period
      else ret None
  end.

Fixpoint rfind_large_loop (fuel shiftv pos : nat) : M (option nat) :=
  match fuel with
  | 0 => fail OutOfFuel
  | S f =>
      if nlen <=? pos then
        tick 1;;;
        base <- lift (csub pos nlen);;
        fb <- lift (idx h base);;
        if negb (byteset_contains (tw_byteset tw) fb) then rfind_large_loop f shiftv base
        else
          i <- rscan_left (S nlen) cp base;;
          first <- lift (idx x 0);;
          if (0 <? i) || negb (first =? fb)%N then
            d <- lift (csub cp i);;
            p' <- lift (csub pos (d + 1));;
            rfind_large_loop f shiftv p'
          else
            j <- rscan_right (S nlen) cp nlen base;;
            if j =? nlen then ret (Some base)
            else
              p' <- lift (csub pos shiftv);;
              rfind_large_loop f shiftv p'
      else ret None
  end.

Definition tw_rfind : M (option nat) :=
  match tw_shift tw with
  | Small period =>
      if nlen =? 0 then ret (Some hlen) else rfind_small_loop (S (S hlen)) period hlen nlen
  | Large s =>
      if nlen =? 0 then ret (Some hlen) else rfind_large_loop (S (S hlen)) s hlen
  end.

End Search.
