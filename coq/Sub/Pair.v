(* Model of src/arch/all/packedpair/mod.rs: Pair::{with_ranker, with_indices}. *)
From Memchr Require Export Base.ListX.
From Memchr Require Import Params.

Record pstate := { rare1 : N; index1 : nat; rare2 : N; index2 : nat }.

Section Pair.
Variable rank : N -> N.

(* u8::try_from(i).unwrap() *)
Definition to_u8 (i : nat) : res nat :=
  if i <=? 255 then Ok i else Panic UnwrapNone.

(* one iteration of `for (i, &b) in needle.iter().enumerate().take(max).skip(2)` *)
Definition pair_step (st : pstate) (i : nat) (b : N) : res pstate :=
  if (rank b <? rank (rare1 st))%N then
    match to_u8 i with
    | Ok i' => Ok {| rare1 := b; index1 := i'; rare2 := rare1 st; index2 := index1 st |}
    | Panic p => Panic p
    end
  else if negb (b =? rare1 st)%N && (rank b <? rank (rare2 st))%N then
    match to_u8 i with
    | Ok i' => Ok {| rare1 := rare1 st; index1 := index1 st; rare2 := b; index2 := i' |}
    | Panic p => Panic p
    end
  else Ok st.

(* enumerate().take(cap).skip(skip): i runs over the list positions; elements
   with i >= cap are not visited, elements with i < skip are skipped. *)
Fixpoint pair_scan (l : list N) (i : nat) (st : pstate) : res pstate :=
  match l with
  | [] => Ok st
  | b :: t =>
      if (N.of_nat i <? pair_scan_cap)%N then
        if i <? pair_scan_skip then pair_scan t (S i) st
        else match pair_step st i b with
             | Ok st' => pair_scan t (S i) st'
             | Panic p => Panic p
             end
      else Ok st
  end.

Definition pair_with_ranker (x : list N) : M (option (nat * nat)) :=
  if length x <=? 1 then ret None
  else
    r1 <- lift (idx x 0);;
    r2 <- lift (idx x 1);;
    let st0 := if (rank r2 <? rank r1)%N
               then {| rare1 := r2; index1 := 1; rare2 := r1; index2 := 0 |}
               else {| rare1 := r1; index1 := 0; rare2 := r2; index2 := 1 |} in
    st <- lift (pair_scan x 0 st0);;
    guard 1 (negb (index1 st =? index2 st));;;
    ret (Some (index1 st, index2 st)).

End Pair.

(* index1, index2 are u8 arguments *)
Definition pair_with_indices (x : list N) (i1 i2 : nat) : option (nat * nat) :=
  if i1 =? i2 then None
  else if length x <=? i1 then None
  else if length x <=? i2 then None
  else Some (i1, i2).

Definition default_rank (b : N) : N := nth (N.to_nat b) default_rank_table 0%N.
