(* Step-cost bounds (Base/Cost.v) for the building blocks of substring search:
   memcmp (is_equal_raw), Rabin-Karp, and the packed-pair finder/prefilter with
   its per-ISA wrappers.  Same loop structure as the functional proofs
   (IsEqualProofs, RabinKarpProofs, PackedPairProofs), counting events. *)
From Memchr Require Import Spec SpecProofs Params Base.Cost Vec.MaskLaws Mem.WrappersProofs
  Sub.IsEqual Sub.IsEqualProofs Sub.RabinKarp Sub.RabinKarpProofs Sub.PackedPair Sub.PackedPairProofs.
From Memchr Require Import Mem.GenericProofs.

(* ================================================================== *)
(* memcmp *)
Section EqCost.
Variables (rx ry : region) (x y : list N).

Lemma eq_loop_cost fuel : forall ox oy n,
  n < fuel -> ox + n <= length x -> oy + n <= length y ->
  satc (eq_loop rx ry x y fuel ox oy n) (fun _ c => c <= n / 2 + 4).
Proof.
  induction fuel as [|f IH]; intros ox oy n Hf Hx Hy; [lia|].
  cbn [eq_loop]. destruct (4 <=? n) eqn:E4.
  - apply Nat.leb_le in E4.
    eapply satc_bind. { apply satc_load_eq; lia. }
    intros vx c1 [-> ->].
    eapply satc_bind. { apply satc_load_eq; lia. }
    intros vy c2 [-> ->].
    destruct (list_eqb (slice x ox 4) (slice y oy 4)).
    + eapply satc_weaken. { apply (IH (ox + 4) (oy + 4) (n - 4)); lia. }
      cbn beta. intros _ c Hc.
      assert ((n - 4) / 2 + 2 = n / 2) as Hd by lia. lia.
    + apply satc_ret. lia.
  - apply Nat.leb_gt in E4.
    destruct (2 <=? n) eqn:E2.
    + apply Nat.leb_le in E2.
      eapply satc_bind.
      { eapply satc_bind. { apply satc_load_eq; lia. }
        intros vx c1 [-> ->].
        eapply satc_bind. { apply satc_load_eq; lia. }
        intros vy c2 [-> ->].
        instantiate (1 := fun c k =>
          k = 2 /\
          c = if list_eqb (slice x ox 2) (slice y oy 2) then Go (ox + 2, oy + 2, n - 2) else Ret false).
        destruct (list_eqb (slice x ox 2) (slice y oy 2)); apply satc_ret; split; reflexivity. }
      intros c k [-> ->].
      destruct (list_eqb (slice x ox 2) (slice y oy 2)).
      * destruct (0 <? n - 2) eqn:E0.
        -- apply Nat.ltb_lt in E0.
           eapply satc_bind. { apply satc_load_eq; lia. }
           intros vx c1 [-> ->].
           eapply satc_bind. { apply satc_load_eq; lia. }
           intros vy c2 [-> ->].
           apply satc_ret. lia.
        -- apply satc_ret. lia.
      * apply satc_ret. lia.
    + apply Nat.leb_gt in E2.
      eapply satc_bind. { apply satc_ret. instantiate (1 := fun c k => k = 0 /\ c = Go (ox, oy, n)). split; reflexivity. }
      intros c k [-> ->].
      destruct (0 <? n) eqn:E0.
      * apply Nat.ltb_lt in E0.
        eapply satc_bind. { apply satc_load_eq; lia. }
        intros vx c1 [-> ->].
        eapply satc_bind. { apply satc_load_eq; lia. }
        intros vy c2 [-> ->].
        apply satc_ret. lia.
      * apply satc_ret. lia.
Qed.

End EqCost.

(* memcmp: 2 loads per 4 bytes, plus at most 2 tail steps of 2 loads *)
Theorem is_equal_raw_cost : forall rx ry x y ox oy n, ox + n <= length x -> oy + n <= length y ->
  satc (is_equal_raw rx ry x y ox oy n) (fun _ c => c <= n / 2 + 4).
Proof. intros. apply eq_loop_cost; lia. Qed.

(* ================================================================== *)
(* Rabin-Karp *)
Section RKCost.
Variables (f : rkfinder) (x h : list N).

Lemma hash_fwd_cost n : forall off acc,
  off + n <= length h -> satc (hash_fwd h off n acc) (fun _ c => c = n).
Proof.
  induction n as [|n IH]; intros off acc Hb; cbn [hash_fwd].
  - apply satc_ret. reflexivity.
  - eapply satc_bind. { apply satc_load_eq; lia. }
    intros v c1 [-> ->].
    eapply satc_weaken. { apply IH. lia. }
    cbn beta. intros _ c ->. reflexivity.
Qed.

Lemma hash_rev_cost n : forall start acc,
  start + n <= length h -> satc (hash_rev h start n acc) (fun _ c => c = n).
Proof.
  induction n as [|n IH]; intros start acc Hb; cbn [hash_rev].
  - apply satc_ret. reflexivity.
  - eapply satc_bind. { apply satc_load_eq; lia. }
    intros v c1 [-> ->].
    eapply satc_weaken. { apply IH. lia. }
    cbn beta. intros _ c ->. reflexivity.
Qed.

Lemma rk_test_cost cur hash :
  cur + length x <= length h ->
  satc (rk_test f x h cur hash) (fun _ c => c <= length x / 2 + 4).
Proof.
  intros Hb. unfold rk_test. destruct (rk_hash f =? hash)%N.
  - apply is_equal_raw_cost; lia.
  - apply satc_ret. lia.
Qed.

Lemma rk_fwd_loop_cost fuel : forall end_ cur hash,
  end_ - cur < fuel -> cur <= end_ -> end_ + length x = length h ->
  satc (rk_fwd_loop f x h fuel end_ cur hash)
       (fun _ c => c <= (end_ - cur + 1) * (length x / 2 + 6)).
Proof.
  induction fuel as [|fu IH]; intros end_ cur hash Hf Hc He; [lia|].
  cbn [rk_fwd_loop].
  eapply satc_bind. { apply rk_test_cost. lia. }
  intros b c0 Hc0. destruct b.
  - apply satc_ret. nia.
  - destruct (end_ <=? cur) eqn:Ee.
    + apply satc_ret. nia.
    + apply Nat.leb_gt in Ee.
      eapply satc_bind. { apply satc_load_eq; lia. }
      intros o c1 [-> ->].
      eapply satc_bind. { apply satc_load_eq; lia. }
      intros n c2 [-> ->].
      eapply satc_weaken. { apply IH; lia. }
      cbn beta. intros _ c Hcc.
      replace (end_ - cur + 1) with (S (end_ - (cur + 1) + 1)) by lia.
      rewrite Nat.mul_succ_l. lia.
Qed.

Lemma rk_rev_loop_cost fuel : forall cur hash,
  cur < fuel -> cur + length x <= length h ->
  satc (rk_rev_loop f x h fuel cur hash)
       (fun _ c => c <= (cur + 1) * (length x / 2 + 6)).
Proof.
  induction fuel as [|fu IH]; intros cur hash Hf Hc; [lia|].
  cbn [rk_rev_loop].
  eapply satc_bind. { apply rk_test_cost. lia. }
  intros b c0 Hc0. destruct b.
  - apply satc_ret. nia.
  - destruct (cur <=? 0) eqn:Ee.
    + apply satc_ret. nia.
    + apply Nat.leb_gt in Ee.
      rewrite psub_ok by lia. rewrite bind_lift_ok.
      eapply satc_bind. { apply satc_load_eq; lia. }
      intros o c1 [-> ->].
      eapply satc_bind. { apply satc_load_eq; lia. }
      intros n c2 [-> ->].
      eapply satc_weaken. { apply IH; lia. }
      cbn beta. intros _ c Hcc.
      replace (cur + 1) with (S (cur - 1 + 1)) by lia.
      rewrite Nat.mul_succ_l. lia.
Qed.

End RKCost.

(* Rabin-Karp with ANY finder and any argument needle: hashing the first window
   costs |x| byte loads, every position costs 2 byte loads for the roll plus
   possibly one memcmp *)
Theorem rk_find_cost : forall f x h,
  satc (rk_find f x h) (fun _ c => c <= length x + (length h + 1) * (length x / 2 + 6)).
Proof.
  intros f x h. unfold rk_find. destruct (length h <? length x) eqn:E.
  - apply satc_ret. lia.
  - apply Nat.ltb_ge in E. rewrite psub_ok by exact E. rewrite bind_lift_ok.
    eapply satc_bind. { apply hash_fwd_cost. lia. }
    intros hash c1 ->.
    eapply satc_weaken. { apply rk_fwd_loop_cost; lia. }
    cbn beta. intros _ c Hc. apply Nat.add_le_mono_l.
    etransitivity; [exact Hc|]. apply Nat.mul_le_mono_r. lia.
Qed.

Theorem rk_rfind_cost : forall f x h,
  satc (rk_rfind f x h) (fun _ c => c <= length x + (length h + 1) * (length x / 2 + 6)).
Proof.
  intros f x h. unfold rk_rfind. destruct (length h <? length x) eqn:E.
  - apply satc_ret. lia.
  - apply Nat.ltb_ge in E. rewrite psub_ok by exact E. rewrite bind_lift_ok.
    eapply satc_bind. { apply hash_rev_cost. lia. }
    intros hash c1 ->.
    eapply satc_weaken. { apply rk_rev_loop_cost; lia. }
    cbn beta. intros _ c Hc. apply Nat.add_le_mono_l.
    etransitivity; [exact Hc|]. apply Nat.mul_le_mono_r. lia.
Qed.

(* ================================================================== *)
(* packed pair, generic in width and mask representation *)
Section PP.
Variables (R : MaskRep) (B : nat).
Hypothesis HL : MaskLaws R B.
Hypothesis HB : 0 < B.

Lemma div_add_B cur : (cur + B) / B = cur / B + 1.
Proof. replace (cur + B) with (cur + 1 * B) by lia. apply Nat.div_add. lia. Qed.

Lemma div_le_B a b : a <= b -> a / B <= b / B.
Proof. intros H. apply Nat.div_le_mono; lia. Qed.

Section Chunk.
Variables (f : ppfinder) (h : list N).
Hypothesis Hi1 : pp_i1 f + B <= pp_min f.
Hypothesis Hi2 : pp_i2 f + B <= pp_min f.
Hypothesis Hmin : pp_min f <= length h.
Notation len := (length h).
Notation mx := (length h - pp_min f).

Lemma pair_mask_cost cur :
  cur <= mx ->
  satc (pair_mask R B f h cur) (fun m c => m = mm R (lanes B f h cur) /\ c = 2).
Proof.
  intros H. unfold pair_mask.
  eapply satc_bind. { apply satc_load_eq; lia. }
  intros c1 k1 [-> ->].
  eapply satc_bind. { apply satc_load_eq; lia. }
  intros c2 k2 [-> ->]. apply satc_ret. split; reflexivity.
Qed.

(* ---- prefilter ---- *)
Lemma prefilter_in_chunk_cost cur :
  cur <= mx -> satc (prefilter_in_chunk R B f h cur) (fun _ c => c = 3).
Proof.
  intros H. unfold prefilter_in_chunk.
  eapply satc_bind. { apply satc_tick_eq. } intros u k0 ->.
  eapply satc_bind. { apply pair_mask_cost. exact H. } intros m k1 [-> ->].
  destruct (m_has_nz R (mm R (lanes B f h cur))); apply satc_ret; reflexivity.
Qed.

Lemma pre_loop_cost fuel : forall cur,
  mx + 1 - cur < fuel -> cur <= mx + B ->
  satc (pre_loop R B f h fuel mx cur)
       (fun r c => match r with
                   | Ret r' => c + 3 * (cur / B) <= 3 * (mx / B + 1) /\
                               (forall p, r' = Some p -> c + 3 * (cur / B) <= 3 * (p / B + 1))
                   | Go cur' => mx < cur' /\ cur' <= mx + B /\ c + 3 * (cur / B) <= 3 * (cur' / B)
                   end).
Proof.
  induction fuel as [|fu IH]; intros cur Hf Hcur; [lia|]. rewrite pre_loop_S.
  destruct (Nat.leb_spec cur mx) as [Hle|Hgt].
  - eapply satc_bind. { apply prefilter_in_chunk_cost. exact Hle. }
    intros r k ->. destruct r as [c|].
    + apply satc_ret. split.
      * pose proof (div_le_B cur mx Hle). lia.
      * intros p [= <-]. pose proof (div_le_B cur (cur + c) ltac:(lia)). lia.
    + eapply satc_weaken. { apply (IH (cur + B)); lia. }
      cbn beta. intros [r'|cur'] c; rewrite div_add_B.
      * intros [H1 H2]. split; [lia|]. intros p Hp. specialize (H2 p Hp). lia.
      * intros (H1 & H2 & H3). split; [exact H1|]. split; [exact H2|]. lia.
  - apply satc_ret. split; [exact Hgt|]. split; [exact Hcur|]. lia.
Qed.

Lemma pp_prefilter_cost_gen :
  satc (pp_find_prefilter R B f h)
       (fun r c => c <= 3 * (len / B + 2) /\ (forall cd, r = Some cd -> c <= 3 * (cd / B + 2))).
Proof.
  unfold pp_find_prefilter. cbv zeta.
  assert (pp_min f <=? len = true) as -> by (apply Nat.leb_le; exact Hmin).
  rewrite bind_guard_true. rewrite psub_ok by exact Hmin. rewrite bind_lift_ok. cbv beta.
  pose proof (div_le_B mx len ltac:(lia)) as Hd1.
  eapply satc_bind. { apply (pre_loop_cost (S len) 0); lia. }
  intros [r|cur] k; rewrite Nat.div_0_l by lia.
  - intros [H1 H2]. apply satc_ret. split; [lia|].
    intros cd ->. specialize (H2 cd eq_refl). lia.
  - intros (H1 & H2 & H3).
    pose proof (div_le_B cur (mx + B) H2) as Hd2. rewrite div_add_B in Hd2.
    destruct (Nat.ltb_spec cur len) as [Hlt|Hge].
    + eapply satc_bind. { apply prefilter_in_chunk_cost. apply le_n. }
      intros r k2 ->. destruct r as [c|]; apply satc_ret.
      * split; [lia|]. intros cd [= <-]. pose proof (div_le_B mx (mx + c) ltac:(lia)). lia.
      * split; [lia|]. intros cd [=].
    + apply satc_ret. split; [lia|]. intros cd [=].
Qed.

(* ---- find, for an arbitrary needle argument x' ---- *)
Variable x' : list N.
Hypothesis G : pp_confirm_guard_checked = true \/ length x' <= length h.
Notation K := (length x' / 2 + 5).
Notation C := (3 + B * (length x' / 2 + 5)).

Lemma stop_cost cur off :
  cur + off < len ->
  satc (if pp_confirm_guard_checked
        then ret (len - (cur + off) <? length x')
        else lim <- lift (psub len (length x'));; ret (lim <? cur + off))
       (fun (stop : bool) c => c = 0 /\ (stop = false -> cur + off + length x' <= len)).
Proof.
  intros H. destruct pp_confirm_guard_checked eqn:E.
  - apply satc_ret. split; [reflexivity|].
    destruct (Nat.ltb_spec (len - (cur + off)) (length x')); [discriminate|lia].
  - destruct G as [G'|G']; [congruence|].
    eapply satc_bind. { apply satc_lift_eq. apply psub_ok. exact G'. }
    intros lim k [-> ->]. apply satc_ret. split; [reflexivity|].
    destruct (Nat.ltb_spec (len - length x') (cur + off)); [discriminate|lia].
Qed.

(* one iteration per set lane: a tick and at most one memcmp *)
Lemma confirm_loop_cost fuel : forall cur l,
  length l = B -> count_p idb l < fuel -> cur + B <= len ->
  satc (confirm_loop R h x' fuel cur (mm R l)) (fun _ c => c <= count_p idb l * K).
Proof.
  induction fuel as [|fu IH]; intros cur l Hl Hc Hcur; [lia|].
  rewrite confirm_loop_S. rewrite (law_nz R B HL) by exact Hl.
  destruct (existsb idb l) eqn:E.
  - destruct (existsb_true_first_idx _ _ E) as [i Hi].
    rewrite (law_first R B HL l i Hl Hi).
    destruct (fi_idb_some _ _ Hi) as (Hib & Hit & Hlt). rewrite Hl in Hib.
    pose proof (count_clear_first l i Hi) as Hcc. rewrite Hcc in Hc. rewrite Hcc.
    rewrite Nat.mul_succ_l.
    assert (forall k T, k <= K -> k <= T + K) as Hw by (intros; lia).
    eapply satc_bind. { apply satc_tick_eq. } intros u k0 ->.
    eapply satc_bind. { apply (stop_cost cur i). lia. } intros stop k1 [-> Hstop].
    destruct stop.
    + apply satc_ret. apply Hw. lia.
    + specialize (Hstop eq_refl).
      eapply satc_bind. { apply is_equal_raw_cost; lia. } intros eq k2 Hk2. cbn beta in Hk2.
      destruct eq.
      * apply satc_ret. apply Hw. lia.
      * eapply satc_bind. { apply satc_lift_eq. apply (law_clear R B HL l i Hl Hi). }
        intros o k3 [-> ->].
        eapply satc_weaken.
        { apply IH; [rewrite clear_first_length; exact Hl|lia|exact Hcur]. }
        cbn beta. intros _ c Hc'. revert Hc'.
        generalize (count_p idb (clear_first l) * K). intros T Hc'. lia.
  - apply satc_ret. lia.
Qed.

Lemma find_in_chunk_cost cur mask l' :
  cur <= mx -> m_and R (mm R (lanes B f h cur)) mask = mm R l' -> length l' = B ->
  satc (find_in_chunk R B f h x' cur mask) (fun _ c => c <= C).
Proof.
  intros H Hand Hl'. unfold find_in_chunk.
  eapply satc_bind. { apply satc_tick_eq. } intros u k0 ->.
  eapply satc_bind. { apply pair_mask_cost. exact H. } intros m k1 [-> ->]. rewrite Hand.
  pose proof (count_p_le idb l') as Hcp. rewrite Hl' in Hcp.
  eapply satc_weaken. { apply confirm_loop_cost; [exact Hl'|lia|lia]. }
  cbn beta. intros _ c Hc.
  assert (count_p idb l' * K <= B * K) by (apply Nat.mul_le_mono_r; exact Hcp). lia.
Qed.

Lemma find_loop_cost k (Hk : m_all_except_low R 0 = Ok k) fuel : forall cur,
  mx + 1 - cur < fuel -> cur <= mx + B ->
  satc (find_loop R B f h x' fuel mx cur k)
       (fun r c => match r with
                   | Ret _ => c + C * (cur / B) <= C * (mx / B + 1)
                   | Go cur' => mx < cur' /\ cur' <= mx + B /\ c + C * (cur / B) <= C * (cur' / B)
                   end).
Proof.
  induction fuel as [|fu IH]; intros cur Hf Hcur; [lia|]. rewrite find_loop_S.
  destruct (Nat.leb_spec cur mx) as [Hle|Hgt].
  - pose proof (lanes_length B HB f h Hi1 Hi2 Hmin cur Hle) as Hll.
    destruct (law_except0 R B HL (lanes B f h cur) Hll HB) as (k' & Hk' & Hand).
    rewrite Hk in Hk'. injection Hk' as <-.
    eapply satc_bind. { apply (find_in_chunk_cost cur k (lanes B f h cur) Hle Hand Hll). }
    intros r c0 Hc0. destruct r as [c|].
    + apply satc_ret. pose proof (div_le_B cur mx Hle) as Hd.
      assert (C * (cur / B) <= C * (mx / B)) by (apply Nat.mul_le_mono_l; exact Hd). lia.
    + eapply satc_weaken. { apply (IH (cur + B)); lia. }
      cbn beta. intros [r'|cur'] c; rewrite div_add_B.
      * intros H1. lia.
      * intros (H1 & H2 & H3). split; [exact H1|]. split; [exact H2|]. lia.
  - apply satc_ret. split; [exact Hgt|]. split; [exact Hcur|]. lia.
Qed.

Lemma pp_find_cost_gen :
  pp_min f < length x' + B ->
  satc (pp_find R B f h x') (fun _ c => c <= (len / B + 2) * C).
Proof.
  intros Hlong. unfold pp_find. cbv zeta.
  assert (pp_min f <=? len = true) as -> by (apply Nat.leb_le; exact Hmin).
  rewrite bind_guard_true.
  destruct (law_except0 R B HL (repeat false B) (repeat_length _ _) HB) as (k & Hk & _).
  rewrite Hk, bind_lift_ok. cbv beta. rewrite psub_ok by exact Hmin. rewrite bind_lift_ok. cbv beta.
  pose proof (div_le_B mx len ltac:(lia)) as Hd1.
  eapply satc_bind. { apply (find_loop_cost k Hk (S len) 0); lia. }
  intros [r|cur] c0; rewrite Nat.div_0_l by lia.
  - intros H1. apply satc_ret.
    assert (C * (mx / B + 1) <= C * (len / B + 1)) by (apply Nat.mul_le_mono_l; lia). lia.
  - intros (H1 & H2 & H3).
    pose proof (div_le_B cur (mx + B) H2) as Hd2. rewrite div_add_B in Hd2.
    assert (C * (cur / B) <= C * (len / B + 1)) as Hd3 by (apply Nat.mul_le_mono_l; lia).
    destruct (Nat.ltb_spec cur len) as [Hlt|Hge].
    + assert (len - cur <? pp_min f = true) as -> by (apply Nat.ltb_lt; lia).
      rewrite bind_guard_true.
      destruct (Nat.ltb_spec (len - cur) (length x')) as [Hr|Hr].
      * apply satc_ret. lia.
      * assert (mx <? cur = true) as -> by (apply Nat.ltb_lt; lia).
        rewrite bind_guard_true.
        assert (0 <? cur - mx = true) as -> by (apply Nat.ltb_lt; lia).
        rewrite bind_guard_true.
        destruct (Nat.ltb_spec (cur - mx) B) as [Ho|Ho]; [|lia].
        rewrite bind_guard_true.
        pose proof (lanes_length B HB f h Hi1 Hi2 Hmin mx (le_n _)) as Hll.
        destruct (law_except R B HL (lanes B f h mx) (cur - mx) Hll Ho)
          as (k2 & l' & Hk2 & Hand & Hl' & _ & _).
        rewrite Hk2, bind_lift_ok. cbv beta.
        eapply satc_bind. { apply (find_in_chunk_cost mx k2 l' (le_n _) Hand Hl'). }
        intros r c1 Hc1. destruct r as [c|]; apply satc_ret; lia.
    + apply satc_ret. lia.
Qed.

End Chunk.

(* prefilter: 3 steps per chunk (tick + two loads); a candidate at c is found
   after at most c/B + 2 chunks *)
Theorem pp_prefilter_cost : forall x i1 i2 f h, pp_new B x i1 i2 = Ok f -> pp_min f <= length h ->
  satc (pp_find_prefilter R B f h)
       (fun r c => c <= 3 * (length h / B + 2) /\ (forall cd, r = Some cd -> c <= 3 * (cd / B + 2))).
Proof using HL HB.
  intros x i1 i2 f h Hn Hmin.
  destruct (pp_new_facts B HB _ _ _ _ Hn) as (Hi1 & Hi2 & _).
  apply pp_prefilter_cost_gen; assumption.
Qed.

(* find with the construction needle: per chunk 3 steps, per candidate lane
   1 tick + one memcmp of |x| bytes; at most B candidate lanes per chunk *)
Theorem pp_find_cost : forall x i1 i2 f h, pp_new B x i1 i2 = Ok f -> pp_min f <= length h ->
  satc (pp_find R B f h x) (fun _ c => c <= (length h / B + 2) * (3 + B * (length x / 2 + 5))).
Proof using HL HB.
  intros x i1 i2 f h Hn Hmin.
  destruct (pp_new_facts B HB _ _ _ _ Hn) as (Hi1 & Hi2 & Hx & Hlong & _).
  apply pp_find_cost_gen; try assumption. right. lia.
Qed.

End PP.

(* ================================================================== *)
(* wrappers, all four ISAs: B is 16 or 32 *)
Lemma div32_le16 n : n / 32 <= n / 16.
Proof. apply Nat.div_le_compat_l. lia. Qed.

Theorem pw_prefilter_cost : forall isa x i1 i2 w h, pw_new isa x i1 i2 = Ok w -> pw_min w <= length h ->
  satc (pw_find_prefilter w h)
       (fun r c => c <= 3 * (length h / 16 + 2) /\ (forall cd, r = Some cd -> c <= 3 * (cd / 16 + 2))).
Proof.
  intros isa x i1 i2 w h Hn Hmin.
  destruct (pw_new_inv _ _ _ _ _ Hn) as [Hisa Hw]. unfold pw_find_prefilter, pw_min in *. rewrite Hisa.
  destruct isa; cbv beta iota;
    try (destruct Hw as [Hs _];
         match goal with |- context [pp_find_prefilter (isa_rep ?i)] => destruct (isa_laws i) as [L P] end;
         exact (pp_prefilter_cost _ _ L P _ _ _ _ _ Hs Hmin)).
  destruct Hw as [Hs Hb]. destruct (avx2_small_big _ _ _ _ _ Hs Hb) as [Hle _].
  destruct (Nat.ltb_spec (length h) (pp_min (pw_big w))) as [Hlt|Hge].
  - destruct sens_sse2 as [L P]. exact (pp_prefilter_cost _ _ L P _ _ _ _ _ Hs Hmin).
  - destruct sens_avx2 as [L P]. eapply satc_weaken.
    { exact (pp_prefilter_cost _ _ L P _ _ _ _ _ Hb Hge). }
    cbn beta. change avx2_bytes with 32. intros r c [H1 H2]. split.
    + pose proof (div32_le16 (length h)). lia.
    + intros cd Hcd. specialize (H2 cd Hcd). pose proof (div32_le16 cd). lia.
Qed.

Theorem pw_find_cost : forall isa x i1 i2 w h, pw_new isa x i1 i2 = Ok w -> pw_min w <= length h ->
  satc (pw_find w h x) (fun _ c => c <= (length h / 16 + 2) * (3 + 32 * (length x / 2 + 5))).
Proof.
  intros isa x i1 i2 w h Hn Hmin.
  assert (forall c, c <= (length h / 16 + 2) * (3 + 16 * (length x / 2 + 5)) ->
                    c <= (length h / 16 + 2) * (3 + 32 * (length x / 2 + 5))) as H16.
  { intros c Hc. etransitivity; [exact Hc|]. apply Nat.mul_le_mono_l. lia. }
  destruct (pw_new_inv _ _ _ _ _ Hn) as [Hisa Hw]. unfold pw_find, pw_min in *. rewrite Hisa.
  destruct isa; cbv beta iota;
    try (destruct Hw as [Hs _];
         match goal with |- context [pp_find (isa_rep ?i)] => destruct (isa_laws i) as [L P] end;
         eapply satc_weaken; [exact (pp_find_cost _ _ L P _ _ _ _ _ Hs Hmin)|];
         cbn beta; intros _ c Hc; apply H16; exact Hc).
  destruct Hw as [Hs Hb]. destruct (avx2_small_big _ _ _ _ _ Hs Hb) as [Hle _].
  destruct (Nat.ltb_spec (length h) (pp_min (pw_big w))) as [Hlt|Hge].
  - destruct sens_sse2 as [L P]. eapply satc_weaken; [exact (pp_find_cost _ _ L P _ _ _ _ _ Hs Hmin)|].
    cbn beta. intros _ c Hc. apply H16. exact Hc.
  - destruct sens_avx2 as [L P]. eapply satc_weaken; [exact (pp_find_cost _ _ L P _ _ _ _ _ Hb Hge)|].
    cbn beta. change avx2_bytes with 32. intros _ c Hc. etransitivity; [exact Hc|].
    apply Nat.mul_le_mono_r. pose proof (div32_le16 (length h)). lia.
Qed.

Print Assumptions is_equal_raw_cost.
Print Assumptions rk_find_cost.
Print Assumptions rk_rfind_cost.
Print Assumptions pp_prefilter_cost.
Print Assumptions pp_find_cost.
Print Assumptions pw_prefilter_cost.
Print Assumptions pw_find_cost.
