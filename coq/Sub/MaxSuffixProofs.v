(* Suffix::forward (Sub/TwoWay.v, suffix_fwd) computes the maximal suffix of the
   needle for the letter order `ord k`, together with the smallest period of
   that suffix (Crochemore-Perrin 1991, maximal-suffix algorithm).

   Loop invariant for the state (pos, p, cand, off), frontier F = cand + off:
     - pos < cand, 1 <= p, off < p, cand = pos + e*p with e >= 1, F <= |x|;
     - x[pos..F) has period p;
     - every suffix starting left of pos is strictly below the suffix at pos,
       the comparison being decided inside x (so that it is final);
     - u = x[pos..pos+p) is "strongly unbordered": each proper suffix of u is
       strictly below u, decided inside u.
   Accept re-establishes the invariant for (cand, 1, cand+1, 0) although the
   frontier moves back, because the third clause speaks about whole suffixes. *)
From Memchr Require Import Spec Params Sub.TwoWay Sub.TwoWayCert Sub.TwoWayPreProofs Sub.Words.

Local Open Scope nat_scope.

(* ------------------------------------------------------------------ *)
(* the letter orders *)

Lemma ord_irrefl k a : ord k a a = false.
Proof. destruct k; cbn [ord]; apply N.ltb_irrefl. Qed.

Lemma ord_trans k a b c : ord k a b = true -> ord k b c = true -> ord k a c = true.
Proof. destruct k; cbn [ord]; rewrite !N.ltb_lt; lia. Qed.

Lemma kcmp_spec k a b :
  match kcmp k a b with
  | Accept => ord k a b = true
  | Skip => ord k b a = true
  | Push => a = b
  end.
Proof.
  destruct k; cbn [kcmp ord].
  - destruct (b <? a)%N eqn:E1; [reflexivity|]. destruct (a <? b)%N eqn:E2; [reflexivity|].
    apply N.ltb_ge in E1, E2. lia.
  - destruct (a <? b)%N eqn:E1; [reflexivity|]. destruct (b <? a)%N eqn:E2; [reflexivity|].
    apply N.ltb_ge in E1, E2. lia.
Qed.

(* ------------------------------------------------------------------ *)
(* lexicographic order: prefixes, and decision at the first difference *)

Lemma lex_le_prefix (lt : N -> N -> bool) (lt_irrefl : forall a, lt a a = false) u v :
  lex_le lt u (u ++ v) = true.
Proof.
  induction u as [|a u IH]; cbn [lex_le app]; [reflexivity|]. rewrite lt_irrefl. exact IH.
Qed.

Lemma lex_le_decided (lt : N -> N -> bool) (lt_irrefl : forall a, lt a a = false) w a b u v :
  lt a b = true -> lex_le lt (w ++ a :: u) (w ++ b :: v) = true.
Proof.
  intros H. induction w as [|c w IH]; cbn [lex_le app]; [rewrite H; reflexivity|].
  rewrite lt_irrefl. exact IH.
Qed.

(* ------------------------------------------------------------------ *)
(* lists *)

Lemma skipn_cons_nth {A} (l : list A) i d :
  i < length l -> skipn i l = nth i l d :: skipn (S i) l.
Proof.
  revert l; induction i as [|i IH]; intros [|a l] H; cbn [length] in H; try lia; [reflexivity|].
  cbn [skipn nth]. apply IH. lia.
Qed.

Lemma slice_ext (x : list N) t s l :
  t + l <= length x -> s + l <= length x ->
  (forall i, i < l -> xb x (t + i) = xb x (s + i)) -> slice x t l = slice x s l.
Proof.
  intros Ht Hs H. apply (nth_ext _ _ 0%N 0%N).
  - rewrite !slice_length by assumption. reflexivity.
  - intros i Hi. rewrite slice_length in Hi by assumption.
    rewrite !nth_slice by assumption. apply H. exact Hi.
Qed.

Lemma xb_skipn x c j : xb (skipn c x) j = xb x (c + j).
Proof. unfold xb. apply nth_skipn'. Qed.

(* periods (self-contained copies of the facts of Sub/TwoWayFwdProofs.v) *)
Lemma is_period_iff x p :
  is_period x p = true <-> forall j, j + p < length x -> xb x j = xb x (j + p).
Proof.
  unfold is_period. rewrite forallb_forall. split.
  - intros H j Hj. apply N.eqb_eq. apply H. apply in_seq. lia.
  - intros H j Hj. apply in_seq in Hj. apply N.eqb_eq. apply H. lia.
Qed.

Lemma first_period_eq y p : forall fuel s,
  s <= p -> p <= s + fuel ->
  (forall q, s <= q -> q < p -> is_period y q = false) -> is_period y p = true ->
  first_period y fuel s = p.
Proof.
  induction fuel as [|f IH]; intros s H1 H2 Hq Hp; cbn [first_period]; [lia|].
  destruct (is_period y s) eqn:E.
  - destruct (Nat.eq_dec s p) as [->|Hne]; [reflexivity|].
    rewrite Hq in E by lia. discriminate.
  - assert (s <> p) by (intros ->; congruence).
    apply IH; [lia|lia| |exact Hp]. intros q Hq1 Hq2. apply Hq; lia.
Qed.

Lemma smallest_period_eq y p :
  1 <= p -> p <= length y ->
  (forall q, 1 <= q -> q < p -> is_period y q = false) -> is_period y p = true ->
  smallest_period y = p.
Proof. intros H1 H2 Hq Hp. unfold smallest_period. apply first_period_eq; auto; lia. Qed.

Lemma decomp pos p t : 1 <= p -> pos <= t -> exists m r, t = pos + m * p + r /\ r < p.
Proof.
  intros Hp Ht. exists ((t - pos) / p), ((t - pos) mod p). split.
  - pose proof (Nat.div_mod (t - pos) p ltac:(lia)) as H. rewrite (Nat.mul_comm p) in H. lia.
  - apply Nat.mod_upper_bound. lia.
Qed.

(* block arithmetic *)
Lemma block_lt m e p r : m * p + r < e * p -> m * p + p <= e * p.
Proof.
  intros H. assert (Hme : m < e).
  { destruct (le_lt_dec e m) as [H1|H1]; [|exact H1].
    pose proof (Nat.mul_le_mono_r e m p H1). lia. }
  pose proof (Nat.mul_le_mono_r (S m) e p ltac:(lia)) as H2. rewrite Nat.mul_succ_l in H2. lia.
Qed.

Lemma block_le m e p o : m * p <= e * p + o -> o < p -> m * p <= e * p.
Proof.
  intros H Ho. destruct (le_lt_dec m e) as [H1|H1]; [apply Nat.mul_le_mono_r; exact H1|].
  pose proof (Nat.mul_le_mono_r (S e) m p ltac:(lia)) as H2. rewrite Nat.mul_succ_l in H2. lia.
Qed.

Lemma block_pos m p : 0 < m * p -> p <= m * p.
Proof. destruct m as [|m]; [cbn; lia|]. rewrite Nat.mul_succ_l. lia. Qed.

(* ------------------------------------------------------------------ *)
Section MS.
Variable x : list N.
Variable k : skind.

(* x[pos..F) has period p *)
Definition per (pos p F : nat) : Prop :=
  forall i, pos <= i -> i + p < F -> xb x i = xb x (i + p).

Lemma per_mul pos p F m : per pos p F ->
  forall i, pos <= i -> i + m * p < F -> xb x i = xb x (i + m * p).
Proof.
  intros H. induction m as [|m IH]; intros i Hi Hb.
  - cbn [Nat.mul]. rewrite Nat.add_0_r. reflexivity.
  - cbn [Nat.mul] in *. transitivity (xb x (i + m * p)); [apply IH; lia|].
    rewrite (H (i + m * p)) by lia. f_equal. lia.
Qed.

Lemma per_mul' pos p F m i j :
  per pos p F -> pos <= i -> j = i + m * p -> j < F -> xb x i = xb x j.
Proof. intros H Hi -> Hj. apply (per_mul pos p F m H i Hi Hj). Qed.

(* the suffix at t is strictly below the suffix at s, the first difference
   being among the first L letters *)
Definition dec_lt (t s L : nat) : Prop :=
  exists l, l < L /\ (forall i, i < l -> xb x (t + i) = xb x (s + i)) /\
            ord k (xb x (t + l)) (xb x (s + l)) = true.

Lemma dec_lt_mono t s L L' : dec_lt t s L -> L <= L' -> dec_lt t s L'.
Proof. intros (l & Hl & E & O) H. exists l. split; [lia|]. split; assumption. Qed.

Lemma dec_lt_trans a b c L1 L2 :
  dec_lt a b L1 -> dec_lt b c L2 -> dec_lt a c (Nat.min L1 L2).
Proof.
  intros (l1 & Hl1 & E1 & O1) (l2 & Hl2 & E2 & O2).
  destruct (lt_eq_lt_dec l1 l2) as [[Hlt|Heq]|Hgt].
  - exists l1. split; [lia|]. split.
    + intros i Hi. rewrite E1 by lia. apply E2. lia.
    + rewrite <- (E2 l1) by lia. exact O1.
  - subst l2. exists l1. split; [lia|]. split.
    + intros i Hi. rewrite E1 by lia. apply E2; lia.
    + eapply ord_trans; eassumption.
  - exists l2. split; [lia|]. split.
    + intros i Hi. rewrite E1 by lia. apply E2. lia.
    + rewrite (E1 l2) by lia. exact O2.
Qed.

Lemma dec_lt_shift t t' s L :
  dec_lt t s L -> (forall i, i < L -> xb x (t' + i) = xb x (t + i)) -> dec_lt t' s L.
Proof.
  intros (l & Hl & E & O) H. exists l. split; [exact Hl|]. split.
  - intros i Hi. rewrite H by lia. apply E. exact Hi.
  - rewrite H by lia. exact O.
Qed.

Lemma dec_lt_lex t s L :
  dec_lt t s L -> t + L <= length x -> s + L <= length x ->
  lex_le (ord k) (skipn t x) (skipn s x) = true.
Proof.
  intros (l & Hl & E & O) Ht Hs.
  rewrite (skipn_chunk x t l), (skipn_chunk x s l).
  rewrite (skipn_cons_nth x (t + l) 0%N) by lia. rewrite (skipn_cons_nth x (s + l) 0%N) by lia.
  rewrite (slice_ext x t s l) by (try lia; exact E).
  apply lex_le_decided; [apply ord_irrefl|exact O].
Qed.

Lemma prefix_lex t s :
  s <= t -> t <= length x -> (forall i, t + i < length x -> xb x (t + i) = xb x (s + i)) ->
  lex_le (ord k) (skipn t x) (skipn s x) = true.
Proof.
  intros Hst Ht H.
  rewrite (skipn_chunk x s (length x - t)), (skipn_chunk x t (length x - t)).
  replace (t + (length x - t)) with (length x) by lia. rewrite skipn_all, app_nil_r.
  rewrite (slice_ext x t s (length x - t));
    [apply lex_le_prefix, ord_irrefl|lia|lia|intros i Hi; apply H; lia].
Qed.

(* ------------------------------------------------------------------ *)
(* the loop invariant *)

Record Inv (pos p cand off : nat) : Prop := {
  I_pc : pos < cand;
  I_p1 : 1 <= p;
  I_off : off < p;
  I_mult : exists e, 1 <= e /\ cand = pos + e * p;
  I_n : cand + off <= length x;
  I_per : per pos p (cand + off);
  I_lo : forall t, t < pos -> dec_lt t pos (length x - pos);
  I_u : forall r, 0 < r -> r < p -> dec_lt (pos + r) pos (p - r)
}.
Arguments I_pc {pos p cand off}.
Arguments I_p1 {pos p cand off}.
Arguments I_off {pos p cand off}.
Arguments I_mult {pos p cand off}.
Arguments I_n {pos p cand off}.
Arguments I_per {pos p cand off}.
Arguments I_lo {pos p cand off}.
Arguments I_u {pos p cand off}.

Lemma inv_init : 1 <= length x -> Inv 0 1 1 0.
Proof.
  intros Hn. constructor; try lia; try (unfold per; intros; lia).
  exists 1. lia.
Qed.

Lemma inv_ple pos p cand off : Inv pos p cand off -> pos + p <= cand.
Proof. intros I. destruct (I_mult I) as (e & He & Hc). nia. Qed.

(* the off letters already compared are equal *)
Lemma inv_cand_eq pos p cand off : Inv pos p cand off ->
  forall i, i < off -> xb x (pos + i) = xb x (cand + i).
Proof.
  intros I i Hi. destruct (I_mult I) as (e & He & Hc).
  apply (per_mul' pos p (cand + off) e); [apply I|lia|lia|lia].
Qed.

Lemma inv_mult_eq pos p cand off : Inv pos p cand off ->
  forall m i, pos + m * p + i < cand + off -> xb x (pos + m * p + i) = xb x (pos + i).
Proof.
  intros I m i Hb. symmetry.
  apply (per_mul' pos p (cand + off) m); [apply I|lia|lia|lia].
Qed.

(* starts that are not congruent to pos modulo p lose inside their period block *)
Lemma inv_nonmult pos p cand off m r : Inv pos p cand off ->
  0 < r -> r < p -> pos + m * p + p <= cand + off -> dec_lt (pos + m * p + r) pos (p - r).
Proof.
  intros I Hr0 Hrp Hb. eapply dec_lt_shift; [apply (I_u I r Hr0 Hrp)|].
  intros i Hi. symmetry. apply (per_mul' pos p (cand + off) m); [apply I|lia|lia|lia].
Qed.

Lemma per_extend pos p cand off : Inv pos p cand off ->
  xb x (pos + off) = xb x (cand + off) -> per pos p (cand + off + 1).
Proof.
  intros I Heq i Hi Hb. destruct (I_mult I) as (e & He & Hc).
  destruct (Nat.eq_dec (i + p) (cand + off)) as [E|E].
  - rewrite E, <- Heq. symmetry.
    destruct e as [|e']; [lia|]. rewrite Nat.mul_succ_l in Hc.
    apply (per_mul' pos p (cand + off) e'); [apply I|lia|lia|].
    pose proof (I_p1 I). lia.
  - apply (I_per I); lia.
Qed.

Lemma inv_push1 pos p cand off : Inv pos p cand off ->
  cand + off < length x -> xb x (pos + off) = xb x (cand + off) -> off + 1 <> p ->
  Inv pos p cand (off + 1).
Proof.
  intros I Hlt Heq Hne. pose proof (per_extend _ _ _ _ I Heq) as Hper.
  destruct I as [H1 H2 H3 H4 H5 H6 H7 H8]. constructor; try assumption; try lia.
  replace (cand + (off + 1)) with (cand + off + 1) by lia. exact Hper.
Qed.

Lemma inv_push2 pos p cand off : Inv pos p cand off ->
  cand + off < length x -> xb x (pos + off) = xb x (cand + off) -> off + 1 = p ->
  Inv pos p (cand + p) 0.
Proof.
  intros I Hlt Heq He. pose proof (per_extend _ _ _ _ I Heq) as Hper.
  destruct I as [H1 H2 H3 (e & He1 & Hc) H5 H6 H7 H8]. constructor; try assumption; try lia.
  - exists (S e). split; [lia|]. rewrite Nat.mul_succ_l. lia.
  - replace (cand + p + 0) with (cand + off + 1) by lia. exact Hper.
Qed.

Lemma inv_accept pos p cand off : Inv pos p cand off ->
  cand + off < length x -> ord k (xb x (pos + off)) (xb x (cand + off)) = true ->
  Inv cand 1 (cand + 1) 0.
Proof.
  intros I Hlt Ho.
  assert (Hpc : dec_lt pos cand (off + 1)).
  { exists off. split; [lia|]. split; [apply (inv_cand_eq _ _ _ _ I)|exact Ho]. }
  constructor; try lia.
  - exists 1. lia.
  - intros i Hi Hb. lia.
  - intros t Ht. destruct (le_lt_dec pos t) as [Hge|Hlt'].
    + destruct (decomp pos p t (I_p1 I) Hge) as (m & r & -> & Hr).
      destruct (I_mult I) as (e & He & Hc).
      assert (Hm : m * p + p <= e * p) by (apply (block_lt m e p r); lia).
      destruct (Nat.eq_dec r 0) as [->|Hr0].
      * exists off. split; [lia|]. split.
        -- intros i Hi. rewrite <- (inv_cand_eq _ _ _ _ I i Hi). rewrite Nat.add_0_r.
           apply (inv_mult_eq _ _ _ _ I). lia.
        -- rewrite Nat.add_0_r. rewrite (inv_mult_eq _ _ _ _ I m off) by lia. exact Ho.
      * eapply dec_lt_mono.
        { eapply dec_lt_trans; [apply (inv_nonmult _ _ _ _ m r I); lia|exact Hpc]. }
        lia.
    + eapply dec_lt_mono.
      { eapply dec_lt_trans; [apply (I_lo I t Hlt')|exact Hpc]. }
      lia.
Qed.

Lemma inv_skip pos p cand off : Inv pos p cand off ->
  cand + off < length x -> ord k (xb x (cand + off)) (xb x (pos + off)) = true ->
  Inv pos (cand + (off + 1) - pos) (cand + (off + 1)) 0.
Proof.
  intros I Hlt Ho. pose proof (inv_ple _ _ _ _ I) as Hple.
  pose proof (I_p1 I) as Hp1. pose proof (I_off I) as Hoff.
  destruct (I_mult I) as (e & He & Hc).
  constructor; try lia.
  - exists 1. lia.
  - intros i Hi Hb. lia.
  - apply I.
  - intros r0 Hr0 Hr1.
    destruct (decomp pos p (pos + r0) Hp1 ltac:(lia)) as (m & r & Ht & Hr).
    rewrite Ht. replace (cand + (off + 1) - pos - r0) with (cand + off + 1 - (pos + m * p + r)) by lia.
    destruct (Nat.eq_dec r 0) as [->|Hrne].
    + (* a candidate start pos + m*p: loses at the frontier *)
      assert (Hm1 : p <= m * p) by (apply block_pos; lia).
      assert (Hme : m * p <= e * p) by (apply (block_le m e p off); lia).
      exists (cand + off - (pos + m * p + 0)). split; [lia|]. split.
      * intros i Hi. rewrite Nat.add_0_r. apply (inv_mult_eq _ _ _ _ I). lia.
      * replace (pos + m * p + 0 + (cand + off - (pos + m * p + 0))) with (cand + off) by lia.
        assert (Hx : xb x (pos + (cand + off - (pos + m * p + 0))) = xb x (pos + off)).
        { symmetry. apply (per_mul' pos p (cand + off) (e - m)); [apply I|lia| |lia].
          rewrite Nat.mul_sub_distr_r. lia. }
        rewrite Hx. exact Ho.
    + destruct (le_lt_dec e m) as [Hem|Hme].
      * (* a start cand + r inside the compared zone *)
        assert (Hmp : m * p = e * p).
        { pose proof (Nat.mul_le_mono_r e m p Hem). pose proof (block_le m e p off). lia. }
        assert (Hro : r <= off) by lia.
        destruct (I_u I r ltac:(lia) Hr) as (l0 & Hl0 & E0 & O0).
        assert (Hshift : forall i, r + i < off -> xb x (pos + m * p + r + i) = xb x (pos + r + i)).
        { intros i Hi. replace (pos + m * p + r + i) with (cand + (r + i)) by lia.
          replace (pos + r + i) with (pos + (r + i)) by lia.
          symmetry. apply (inv_cand_eq _ _ _ _ I). exact Hi. }
        destruct (le_lt_dec (off - r) l0) as [Hge|Hlt0].
        -- exists (off - r). split; [lia|]. split.
           ++ intros i Hi. rewrite Hshift by lia. apply E0. lia.
           ++ replace (pos + m * p + r + (off - r)) with (cand + off) by lia.
              destruct (Nat.eq_dec l0 (off - r)) as [El|Nl].
              ** eapply ord_trans; [exact Ho|]. subst l0.
                 replace (pos + r + (off - r)) with (pos + off) in O0 by lia. exact O0.
              ** rewrite <- (E0 (off - r)) by lia.
                 replace (pos + r + (off - r)) with (pos + off) by lia. exact Ho.
        -- exists l0. split; [lia|]. split.
           ++ intros i Hi. rewrite Hshift by lia. apply E0; lia.
           ++ rewrite Hshift by lia. exact O0.
      * (* a start inside a full period block *)
        assert (Hm : m * p + p <= e * p).
        { pose proof (Nat.mul_le_mono_r (S m) e p Hme) as H2. rewrite Nat.mul_succ_l in H2. lia. }
        eapply dec_lt_mono; [apply (inv_nonmult _ _ _ _ m r I); lia|]. lia.
Qed.

(* ------------------------------------------------------------------ *)
(* the loop *)

Lemma suffix_fwd_loop_spec : forall fuel pos period cand off,
  Inv pos period cand off ->
  2 * length x <= fuel + (pos + cand + off) ->
  exists pos' p' cand' off',
    fst (suffix_fwd_loop x k fuel pos period cand off) = Ok (pos', p') /\
    Inv pos' p' cand' off' /\ length x <= cand' + off'.
Proof.
  induction fuel as [|f IH]; intros pos period cand off I Hfuel.
  - exfalso. pose proof (I_pc I). pose proof (I_n I). lia.
  - pose proof (I_pc I) as Hpc. pose proof (I_n I) as Hn. pose proof (I_off I) as Hoff.
    pose proof (inv_ple _ _ _ _ I) as Hple.
    cbn [suffix_fwd_loop]. destruct (cand + off <? length x) eqn:Eloop.
    + apply Nat.ltb_lt in Eloop. rewrite fst_bind. cbn [tick emit fst].
      rewrite (idx_ok x (pos + off) 0%N) by lia. rewrite bind_lift_ok.
      rewrite (idx_ok x (cand + off) 0%N) by lia. rewrite bind_lift_ok.
      pose proof (kcmp_spec k (xb x (pos + off)) (xb x (cand + off))) as Hk. unfold xb in Hk.
      destruct (kcmp k (nth (pos + off) x 0%N) (nth (cand + off) x 0%N)).
      * (* Accept *) apply IH; [apply (inv_accept _ _ _ _ I Eloop Hk)|lia].
      * (* Skip *)
        rewrite (csub_ok (cand + (off + 1)) pos) by lia. rewrite bind_lift_ok.
        apply IH; [apply (inv_skip _ _ _ _ I Eloop Hk)|lia].
      * (* Push *)
        destruct (off + 1 =? period) eqn:Eper.
        -- apply Nat.eqb_eq in Eper. apply IH; [apply (inv_push2 _ _ _ _ I Eloop Hk Eper)|lia].
        -- apply Nat.eqb_neq in Eper. apply IH; [apply (inv_push1 _ _ _ _ I Eloop Hk Eper)|lia].
    + apply Nat.ltb_ge in Eloop. exists pos, period, cand, off.
      split; [reflexivity|]. split; [exact I|exact Eloop].
Qed.

(* ------------------------------------------------------------------ *)
(* what the invariant says when the frontier has reached the end of x *)

Lemma inv_final_max pos p cand off : Inv pos p cand off -> length x <= cand + off ->
  is_max_suffix (ord k) x pos.
Proof.
  intros I Hend. pose proof (I_pc I) as Hpc. pose proof (I_n I) as Hn.
  pose proof (I_p1 I) as Hp1. pose proof (inv_ple _ _ _ _ I) as Hple.
  split; [lia|]. intros j Hj.
  destruct (le_lt_dec pos j) as [Hge|Hlt].
  - destruct (decomp pos p j Hp1 Hge) as (m & r & -> & Hr).
    destruct (Nat.eq_dec r 0) as [->|Hr0].
    + apply prefix_lex; [lia|lia|]. intros i Hi. rewrite Nat.add_0_r.
      apply (inv_mult_eq _ _ _ _ I). lia.
    + destruct (I_u I r ltac:(lia) Hr) as (l0 & Hl0 & E0 & O0).
      assert (Hshift : forall i, pos + m * p + r + i < length x ->
                                 xb x (pos + m * p + r + i) = xb x (pos + r + i)).
      { intros i Hi. replace (pos + m * p + r + i) with (pos + m * p + (r + i)) by lia.
        replace (pos + r + i) with (pos + (r + i)) by lia.
        apply (inv_mult_eq _ _ _ _ I). lia. }
      destruct (le_lt_dec (length x) (pos + m * p + r + l0)) as [Hout|Hin].
      * apply prefix_lex; [lia|lia|]. intros i Hi. rewrite Hshift by exact Hi. apply E0. lia.
      * apply (dec_lt_lex _ _ (l0 + 1)); [|lia|lia].
        exists l0. split; [lia|]. split.
        -- intros i Hi. rewrite Hshift by lia. apply E0. exact Hi.
        -- rewrite Hshift by lia. exact O0.
  - apply (dec_lt_lex _ _ (length x - pos)); [apply (I_lo I j Hlt)|lia|lia].
Qed.

Lemma inv_final_period pos p cand off : Inv pos p cand off -> length x <= cand + off ->
  p = smallest_period (skipn pos x).
Proof.
  intros I Hend. pose proof (I_pc I) as Hpc. pose proof (I_n I) as Hn.
  pose proof (I_p1 I) as Hp1. pose proof (inv_ple _ _ _ _ I) as Hple.
  symmetry. apply smallest_period_eq; [exact Hp1|rewrite skipn_length; lia| |].
  - intros q Hq1 Hq2. destruct (is_period (skipn pos x) q) eqn:E; [|reflexivity]. exfalso.
    destruct (I_u I q ltac:(lia) Hq2) as (l0 & Hl0 & E0 & O0).
    rewrite is_period_iff in E. specialize (E l0). rewrite skipn_length in E.
    rewrite !xb_skipn in E. replace (pos + (l0 + q)) with (pos + q + l0) in E by lia.
    rewrite <- E in O0 by lia. rewrite ord_irrefl in O0. discriminate.
  - apply is_period_iff. intros j Hj. rewrite skipn_length in Hj. rewrite !xb_skipn.
    replace (pos + (j + p)) with (pos + j + p) by lia. apply (I_per I); lia.
Qed.

End MS.

(* ------------------------------------------------------------------ *)

Theorem suffix_fwd_spec : forall (k : skind) (x : list N), 1 <= length x ->
  exists pos p, fst (suffix_fwd x k) = Ok (pos, p) /\
                is_max_suffix (ord k) x pos /\
                p = smallest_period (skipn pos x).
Proof.
  intros k x Hn. unfold suffix_fwd.
  destruct (suffix_fwd_loop_spec x k (2 * length x + 2) 0 1 1 0 (inv_init x k Hn) ltac:(lia))
    as (pos & p & cand & off & Hrun & I & Hend).
  exists pos, p. split; [exact Hrun|]. split.
  - exact (inv_final_max x k _ _ _ _ I Hend).
  - exact (inv_final_period x k _ _ _ _ I Hend).
Qed.

Print Assumptions suffix_fwd_spec.
