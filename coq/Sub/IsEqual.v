(* Model of src/arch/all/mod.rs: is_equal_raw, is_equal, is_prefix, is_suffix. *)
From Memchr Require Export Base.ListX.

Section IsEqual.
Variables (rx ry : region) (x y : list N).

(* while n >= 4 { u32 compare; x+=4; y+=4; n-=4 }  then the 2-byte and 1-byte tails *)
Fixpoint eq_loop (fuel ox oy n : nat) : M bool :=
  match fuel with
  | 0 => fail OutOfFuel
  | S f =>
      if 4 <=? n then
        vx <- load rx x ox 4 false;;
        vy <- load ry y oy 4 false;;
        if list_eqb vx vy then eq_loop f (ox + 4) (oy + 4) (n - 4) else ret false
      else
        c <- (if 2 <=? n then
                vx <- load rx x ox 2 false;;
                vy <- load ry y oy 2 false;;
                if list_eqb vx vy then ret (Go (ox + 2, oy + 2, n - 2)) else ret (Ret false)
              else ret (Go (ox, oy, n)));;
        match c with
        | Ret b => ret b
        | Go (ox', oy', n') =>
            if 0 <? n' then
              vx <- load rx x ox' 1 false;;
              vy <- load ry y oy' 1 false;;
              ret (list_eqb vx vy)
            else ret true
        end
  end.

Definition is_equal_raw (ox oy n : nat) : M bool := eq_loop (S n) ox oy n.

End IsEqual.

(* is_equal(x, y): x is region RHay, y is region RNeedle in the traces *)
Definition is_equal (x y : list N) : M bool :=
  if negb (length x =? length y) then ret false
  else is_equal_raw RHay RNeedle x y 0 0 (length x).

(* is_prefix(h, n) = n.len() <= h.len() && is_equal(&h[..n.len()], n) *)
Definition is_prefix (h n : list N) : M bool :=
  if length n <=? length h then is_equal_raw RHay RNeedle h n 0 0 (length n)
  else ret false.

(* is_suffix(h, n) = n.len() <= h.len() && is_equal(&h[h.len()-n.len()..], n) *)
Definition is_suffix (h n : list N) : M bool :=
  if length n <=? length h then
    is_equal_raw RHay RNeedle h n (length h - length n) 0 (length n)
  else ret false.
