(* Tier 2: the forward certificate holds for EVERY non-empty needle, because the
   modelled preprocessing computes the two maximal suffixes (MaxSuffixProofs) and
   the critical factorisation theorem (CritFact) applies to them. *)
From Memchr Require Import Spec SpecProofs Params Sub.IsEqual Sub.IsEqualProofs
  Sub.TwoWay Sub.TwoWayCert Sub.TwoWayPreProofs Sub.Words Sub.CritFact Sub.MaxSuffixProofs.

Lemma smallest_period_le (x : list N) : 1 <= length x -> 1 <= smallest_period x <= length x.
Proof.
  intros H. unfold smallest_period.
  assert (forall fuel p, 1 <= p -> p + fuel = length x + 1 -> fuel >= 1 \/ True ->
          1 <= first_period x fuel p /\ first_period x fuel p <= length x \/ fuel = 0) as Hgen.
  { intros fuel. induction fuel as [|f IH]; intros p Hp Hs _; [right; reflexivity|].
    left. cbn [first_period]. destruct (is_period x p) eqn:E; [lia|].
    destruct f as [|f'].
    - (* p = length x: is_period x (length x) is trivially true *)
      exfalso. assert (p = length x) by lia. subst p. unfold is_period in E.
      rewrite Nat.sub_diag in E. cbn in E. discriminate.
    - destruct (IH (S p) ltac:(lia) ltac:(lia) ltac:(right; exact I)) as [G|G]; [exact G|discriminate]. }
  destruct (Hgen (length x) 1 ltac:(lia) ltac:(lia) ltac:(right; exact I)) as [G|G]; [exact G|lia].
Qed.

(* the monadic Shift::forward computes shift_fwd_pure *)
Lemma shift_fwd_pure_eq (x : list N) plb cp :
  cp <= length x -> plb <= length x - cp ->
  fst (shift_fwd x plb cp) = Ok (shift_fwd_pure x plb cp).
Proof.
  intros Hcp Hplb. unfold shift_fwd, shift_fwd_pure.
  rewrite (csub_ok (length x) cp Hcp), bind_lift_ok.
  destruct (length x <=? cp * 2); [reflexivity|].
  assert (cp <=? length x = true) as -> by (apply Nat.leb_le; exact Hcp). rewrite bind_guard_true.
  assert (plb <=? length x - cp = true) as -> by (apply Nat.leb_le; exact Hplb). rewrite bind_ret.
  destruct (cp <=? plb) eqn:E; cbn [andb].
  - apply Nat.leb_le in E.
    destruct (is_equal_raw_sat RNeedle RNeedle x x (cp + (plb - cp)) 0 cp ltac:(lia) ltac:(lia)) as (b & Hb & -> & _).
    rewrite fst_bind, Hb. replace (cp + (plb - cp)) with plb by lia.
    destruct (list_eqb (slice x plb cp) (slice x 0 cp)); reflexivity.
  - rewrite bind_ret. reflexivity.
Qed.

Theorem tw_cert_fwd_all : forall x : list N, 1 <= length x -> tw_cert_fwd_of x = true.
Proof.
  intros x Hn. unfold tw_cert_fwd_of, tw_new.
  destruct (suffix_fwd_spec Minimal x Hn) as (i2 & p2 & H2 & M2 & P2).
  destruct (suffix_fwd_spec Maximal x Hn) as (i1 & p1 & H1 & M1 & P1).
  rewrite fst_bind, H2. rewrite fst_bind, H1. cbn [fst snd].
  pose proof (tw_cert_from_max_suffixes x i1 i2 (byteset_new x) Hn M1 M2) as Hcert. cbv zeta in Hcert.
  destruct (i1 <? i2) eqn:E.
  - assert (i2 < length x) as Hi by (destruct M2; assumption).
    pose proof (smallest_period_le (skipn i2 x) ltac:(rewrite skipn_length; lia)) as Hp. rewrite skipn_length in Hp.
    rewrite fst_bind, (shift_fwd_pure_eq x p2 i2 ltac:(lia) ltac:(subst p2; lia)). cbn [fst ret].
    subst p2. exact Hcert.
  - assert (i1 < length x) as Hi by (destruct M1; assumption).
    pose proof (smallest_period_le (skipn i1 x) ltac:(rewrite skipn_length; lia)) as Hp. rewrite skipn_length in Hp.
    rewrite fst_bind, (shift_fwd_pure_eq x p1 i1 ltac:(lia) ltac:(subst p1; lia)). cbn [fst ret].
    subst p1. exact Hcert.
Qed.

Print Assumptions tw_cert_fwd_all.
