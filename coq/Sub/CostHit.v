(* Hit-aware step bounds: when a search returns `Some i` its cost is bounded in terms of
   the position of the hit (forward: i + |x|, reverse: |h| - i), not of the haystack length.
   These are the per-call bounds that make a complete find_iter / rfind_iter traversal
   linear (Sub/CostIter.v). *)
From Memchr Require Import Spec SpecProofs Params Base.Cost Vec.MaskLaws Mem.Wrappers Mem.WrappersProofs
  Mem.GenericProofs Mem.CostMem
  Sub.IsEqual Sub.IsEqualProofs Sub.Pair Sub.PairProofs Sub.PackedPair Sub.PackedPairProofs
  Sub.RabinKarp Sub.RabinKarpProofs Sub.CostBlocks
  Sub.Prefilter Sub.TwoWay Sub.TwoWayCert Sub.TwoWayPreProofs Sub.TwoWayFwdProofs Sub.TwoWayRevProofs
  Sub.CostTwoWay Sub.Words Sub.CritFact Sub.TwoWayTier2 Sub.CostTwoWayAll Sub.CostTwoWaySmall Sub.Searcher Sub.SearcherProofs Sub.CostPrefilter Sub.CostSearcher.

Local Open Scope nat_scope.

(* ================================================================== *)
(* 1. Rabin-Karp *)
Section RKHit.
Variables (f : rkfinder) (x h : list N).
Local Notation K := (length x / 2 + 6).

Lemma rk_fwd_loop_hit fuel : forall end_ cur hash,
  end_ - cur < fuel -> cur <= end_ -> end_ + length x = length h ->
  satc (rk_fwd_loop f x h fuel end_ cur hash)
       (fun r c => c <= (end_ - cur + 1) * K /\ (forall i, r = Some i -> c + cur * K <= (i + 1) * K)).
Proof.
  induction fuel as [|fu IH]; intros end_ cur hash Hf Hc He; [lia|].
  cbn [rk_fwd_loop].
  eapply satc_bind. { apply rk_test_cost. lia. }
  intros b c0 Hc0. destruct b.
  - apply satc_ret. split; [nia|]. intros i Hi. injection Hi as <-. lia.
  - destruct (end_ <=? cur) eqn:Ee.
    + apply satc_ret. split; [nia|]. intros i Hi. discriminate.
    + apply Nat.leb_gt in Ee.
      eapply satc_bind. { apply satc_load_eq; lia. }
      intros o c1 [-> ->].
      eapply satc_bind. { apply satc_load_eq; lia. }
      intros n c2 [-> ->].
      eapply satc_weaken. { apply IH; lia. }
      cbn beta. intros r c [Hcc Hci]. split.
      * replace (end_ - cur + 1) with (S (end_ - (cur + 1) + 1)) by lia.
        rewrite Nat.mul_succ_l. lia.
      * intros i Hi. specialize (Hci i Hi). lia.
Qed.

Lemma rk_rev_loop_hit fuel : forall cur hash,
  cur < fuel -> cur + length x <= length h ->
  satc (rk_rev_loop f x h fuel cur hash)
       (fun r c => c <= (cur + 1) * K /\ (forall i, r = Some i -> i <= cur /\ c + i * K <= (cur + 1) * K)).
Proof.
  induction fuel as [|fu IH]; intros cur hash Hf Hc; [lia|].
  cbn [rk_rev_loop].
  eapply satc_bind. { apply rk_test_cost. lia. }
  intros b c0 Hc0. destruct b.
  - apply satc_ret. split; [nia|]. intros i Hi. injection Hi as <-. split; [lia|]. lia.
  - destruct (cur <=? 0) eqn:Ee.
    + apply satc_ret. split; [nia|]. intros i Hi. discriminate.
    + apply Nat.leb_gt in Ee.
      rewrite psub_ok by lia. rewrite bind_lift_ok.
      eapply satc_bind. { apply satc_load_eq; lia. }
      intros o c1 [-> ->].
      eapply satc_bind. { apply satc_load_eq; lia. }
      intros n c2 [-> ->].
      eapply satc_weaken. { apply IH; lia. }
      cbn beta. replace (cur - 1 + 1) with cur by lia. intros r c [Hcc Hci]. split.
      * lia.
      * intros i Hi. specialize (Hci i Hi). lia.
Qed.

End RKHit.

(* forward: a hit at i costs the |x| loads of the first hash plus i + 1 window steps *)
Theorem rk_find_hit : forall f x h,
  satc (rk_find f x h)
       (fun r c => c <= length x + (length h + 1) * (length x / 2 + 6) /\
                   (forall i, r = Some i -> c <= length x + (i + 1) * (length x / 2 + 6))).
Proof.
  intros f x h. unfold rk_find. destruct (length h <? length x) eqn:E.
  - apply satc_ret. split; [lia|]. intros i Hi. discriminate.
  - apply Nat.ltb_ge in E. rewrite psub_ok by exact E. rewrite bind_lift_ok.
    eapply satc_bind. { apply hash_fwd_cost. lia. }
    intros hash c1 ->.
    eapply satc_weaken. { apply rk_fwd_loop_hit; lia. }
    cbn beta. intros r c [Hc Hci]. split.
    + apply Nat.add_le_mono_l. etransitivity; [exact Hc|]. apply Nat.mul_le_mono_r. lia.
    + intros i Hi. specialize (Hci i Hi). lia.
Qed.

(* reverse: a hit at i costs |x| loads plus |h| - |x| - i + 1 window steps *)
Theorem rk_rfind_hit : forall f x h,
  satc (rk_rfind f x h)
       (fun r c => c <= length x + (length h + 1) * (length x / 2 + 6) /\
                   (forall i, r = Some i -> c <= length x + (length h - length x - i + 1) * (length x / 2 + 6))).
Proof.
  intros f x h. unfold rk_rfind. destruct (length h <? length x) eqn:E.
  - apply satc_ret. split; [lia|]. intros i Hi. discriminate.
  - apply Nat.ltb_ge in E. rewrite psub_ok by exact E. rewrite bind_lift_ok.
    eapply satc_bind. { apply hash_rev_cost. lia. }
    intros hash c1 ->.
    eapply satc_weaken. { apply rk_rev_loop_hit; lia. }
    cbn beta. intros r c [Hc Hci]. split.
    + apply Nat.add_le_mono_l. etransitivity; [exact Hc|]. apply Nat.mul_le_mono_r. lia.
    + intros i Hi. destruct (Hci i Hi) as [Hle Hb].
      assert (exists d, length h - length x = i + d) as [d Hd] by (exists (length h - length x - i); lia).
      rewrite Hd in *. replace (i + d - i) with d by lia. lia.
Qed.

(* ================================================================== *)
(* 2. packed pair *)
Section PPHit.
Variables (R : MaskRep) (B : nat).
Hypothesis HL : MaskLaws R B.
Hypothesis HB : 0 < B.
Variables (f : ppfinder) (h : list N).
Hypothesis Hi1 : pp_i1 f + B <= pp_min f.
Hypothesis Hi2 : pp_i2 f + B <= pp_min f.
Hypothesis Hmin : pp_min f <= length h.
Variable x' : list N.
Hypothesis G : pp_confirm_guard_checked = true \/ length x' <= length h.
Local Notation len := (length h).
Local Notation mx := (length h - pp_min f).
Local Notation C := (3 + B * (length x' / 2 + 5)).

Lemma find_loop_hit k (Hk : m_all_except_low R 0 = Ok k) fuel : forall cur,
  mx + 1 - cur < fuel -> cur <= mx + B ->
  satc (find_loop R B f h x' fuel mx cur k)
       (fun r c => match r with
                   | Ret r' => c + C * (cur / B) <= C * (mx / B + 1) /\
                               (forall p, r' = Some p -> c + C * (cur / B) <= C * (p / B + 1))
                   | Go cur' => mx < cur' /\ cur' <= mx + B /\ c + C * (cur / B) <= C * (cur' / B)
                   end).
Proof.
  induction fuel as [|fu IH]; intros cur Hf Hcur; [lia|]. rewrite find_loop_S.
  destruct (Nat.leb_spec cur mx) as [Hle|Hgt].
  - pose proof (lanes_length B HB f h Hi1 Hi2 Hmin cur Hle) as Hll.
    destruct (law_except0 R B HL (lanes B f h cur) Hll HB) as (k' & Hk' & Hand).
    rewrite Hk in Hk'. injection Hk' as <-.
    eapply satc_bind. { apply (find_in_chunk_cost R B HL HB f h Hi1 Hi2 Hmin x' G cur k (lanes B f h cur) Hle Hand Hll). }
    intros r c0 Hc0. cbn beta in Hc0. destruct r as [c|].
    + apply satc_ret. split.
      * pose proof (div_le_B B HB cur mx Hle) as Hd.
        assert (C * (cur / B) <= C * (mx / B)) by (apply Nat.mul_le_mono_l; exact Hd). lia.
      * intros p Hp. injection Hp as <-.
        pose proof (div_le_B B HB cur (cur + c) ltac:(lia)) as Hd.
        assert (C * (cur / B) <= C * ((cur + c) / B)) by (apply Nat.mul_le_mono_l; exact Hd). lia.
    + eapply satc_weaken. { apply (IH (cur + B)); lia. }
      cbn beta. intros [r'|cur'] c; rewrite (div_add_B B HB).
      * intros [H1 H2]. split; [lia|]. intros p Hp. specialize (H2 p Hp). lia.
      * intros (H1 & H2 & H3). split; [exact H1|]. split; [exact H2|]. lia.
  - apply satc_ret. split; [exact Hgt|]. split; [exact Hcur|]. lia.
Qed.

Lemma pp_find_hit_gen :
  pp_min f < length x' + B ->
  satc (pp_find R B f h x')
       (fun r c => c <= (len / B + 2) * C /\ (forall p, r = Some p -> c <= (p / B + 2) * C)).
Proof.
  intros Hlong. unfold pp_find. cbv zeta.
  assert (pp_min f <=? len = true) as -> by (apply Nat.leb_le; exact Hmin).
  rewrite bind_guard_true.
  destruct (law_except0 R B HL (repeat false B) (repeat_length _ _) HB) as (k & Hk & _).
  rewrite Hk, bind_lift_ok. cbv beta. rewrite psub_ok by exact Hmin. rewrite bind_lift_ok. cbv beta.
  pose proof (div_le_B B HB mx len ltac:(lia)) as Hd1.
  eapply satc_bind. { apply (find_loop_hit k Hk (S len) 0); lia. }
  intros [r|cur] c0; rewrite Nat.div_0_l by lia.
  - intros [H1 H2]. apply satc_ret. split.
    + assert (C * (mx / B + 1) <= C * (len / B + 1)) by (apply Nat.mul_le_mono_l; lia). lia.
    + intros p Hp. specialize (H2 p Hp). lia.
  - intros (H1 & H2 & H3).
    pose proof (div_le_B B HB cur (mx + B) H2) as Hd2. rewrite (div_add_B B HB) in Hd2.
    assert (C * (cur / B) <= C * (len / B + 1)) as Hd3 by (apply Nat.mul_le_mono_l; lia).
    assert (C * (cur / B) <= C * (mx / B + 1)) as Hd4 by (apply Nat.mul_le_mono_l; lia).
    destruct (Nat.ltb_spec cur len) as [Hlt|Hge].
    + assert (len - cur <? pp_min f = true) as -> by (apply Nat.ltb_lt; lia).
      rewrite bind_guard_true.
      destruct (Nat.ltb_spec (len - cur) (length x')) as [Hr|Hr].
      * apply satc_ret. split; [lia|]. intros p Hp. discriminate.
      * assert (mx <? cur = true) as -> by (apply Nat.ltb_lt; lia).
        rewrite bind_guard_true.
        assert (0 <? cur - mx = true) as -> by (apply Nat.ltb_lt; lia).
        rewrite bind_guard_true.
        destruct (Nat.ltb_spec (cur - mx) B) as [Ho|Ho]; [|lia].
        rewrite bind_guard_true.
        pose proof (lanes_length B HB f h Hi1 Hi2 Hmin mx (le_n _)) as Hll.
        destruct (law_except R B HL (lanes B f h mx) (cur - mx) Hll Ho)
          as (k2 & l' & Hk2 & Hand & Hl' & _ & _).
        rewrite Hk2, bind_lift_ok. cbv beta.
        eapply satc_bind. { apply (find_in_chunk_cost R B HL HB f h Hi1 Hi2 Hmin x' G mx k2 l' (le_n _) Hand Hl'). }
        intros r c1 Hc1. cbn beta in Hc1. destruct r as [c|]; apply satc_ret.
        -- split; [lia|]. intros p Hp. injection Hp as <-.
           pose proof (div_le_B B HB mx (mx + c) ltac:(lia)) as Hd5.
           assert (C * (mx / B + 1) <= C * ((mx + c) / B + 1)) by (apply Nat.mul_le_mono_l; lia). lia.
        -- split; [lia|]. intros p Hp. discriminate.
    + apply satc_ret. split; [lia|]. intros p Hp. discriminate.
Qed.

End PPHit.

Theorem pp_find_hit : forall R B, MaskLaws R B -> 0 < B ->
  forall x i1 i2 f h, pp_new B x i1 i2 = Ok f -> pp_min f <= length h ->
  satc (pp_find R B f h x)
       (fun r c => c <= (length h / B + 2) * (3 + B * (length x / 2 + 5)) /\
                   (forall p, r = Some p -> c <= (p / B + 2) * (3 + B * (length x / 2 + 5)))).
Proof.
  intros R B HL HB x i1 i2 f h Hn Hmin.
  destruct (pp_new_facts B HB _ _ _ _ Hn) as (Hi1 & Hi2 & Hx & Hlong & _).
  apply pp_find_hit_gen; try assumption. right. lia.
Qed.

(* all four ISAs: a hit at p is found after at most p / 16 + 2 chunks *)
Theorem pw_find_hit : forall isa x i1 i2 w h, pw_new isa x i1 i2 = Ok w -> pw_min w <= length h ->
  satc (pw_find w h x)
       (fun r c => c <= (length h / 16 + 2) * (3 + 32 * (length x / 2 + 5)) /\
                   (forall p, r = Some p -> c <= (p / 16 + 2) * (3 + 32 * (length x / 2 + 5)))).
Proof.
  intros isa x i1 i2 w h Hn Hmin.
  assert (forall n c, c <= (n / 16 + 2) * (3 + 16 * (length x / 2 + 5)) ->
                      c <= (n / 16 + 2) * (3 + 32 * (length x / 2 + 5))) as H16.
  { intros n c Hc. etransitivity; [exact Hc|]. apply Nat.mul_le_mono_l. lia. }
  assert (forall (m : M (option nat)),
            satc m (fun r c => c <= (length h / 16 + 2) * (3 + 16 * (length x / 2 + 5)) /\
                               (forall p, r = Some p -> c <= (p / 16 + 2) * (3 + 16 * (length x / 2 + 5)))) ->
            satc m (fun r c => c <= (length h / 16 + 2) * (3 + 32 * (length x / 2 + 5)) /\
                               (forall p, r = Some p -> c <= (p / 16 + 2) * (3 + 32 * (length x / 2 + 5))))) as Hw16.
  { intros m Hm. eapply satc_weaken; [exact Hm|]. cbn beta. intros r c [H1 H2]. split.
    - apply H16. exact H1.
    - intros p Hp. apply H16. apply H2. exact Hp. }
  destruct (pw_new_inv _ _ _ _ _ Hn) as [Hisa Hw]. unfold pw_find, pw_min in *. rewrite Hisa.
  destruct isa; cbv beta iota;
    try (destruct Hw as [Hs _];
         match goal with |- context [pp_find (isa_rep ?i)] => destruct (isa_laws i) as [L P] end;
         apply Hw16; exact (pp_find_hit _ _ L P _ _ _ _ _ Hs Hmin)).
  destruct Hw as [Hs Hb]. destruct (avx2_small_big _ _ _ _ _ Hs Hb) as [Hle _].
  destruct (Nat.ltb_spec (length h) (pp_min (pw_big w))) as [Hlt|Hge].
  - destruct sens_sse2 as [L P]. apply Hw16. exact (pp_find_hit _ _ L P _ _ _ _ _ Hs Hmin).
  - destruct sens_avx2 as [L P]. eapply satc_weaken; [exact (pp_find_hit _ _ L P _ _ _ _ _ Hb Hge)|].
    cbn beta. change avx2_bytes with 32. intros r c [H1 H2]. split.
    + etransitivity; [exact H1|]. apply Nat.mul_le_mono_r. pose proof (div32_le16 (length h)). lia.
    + intros p Hp. etransitivity; [exact (H2 p Hp)|]. apply Nat.mul_le_mono_r. pose proof (div32_le16 p). lia.
Qed.

(* ================================================================== *)
(* 3. Two-Way, forward.  The loop lemmas of Sub/CostTwoWay.v have the potential shape
   `cst + W * pos <= W * hl`; here hl is replaced by the END OF THE MATCH when the loop
   returns one (endp), by the same induction. *)
Section TWFwdHit.
Variables (x h : list N) (tw : twoway) (a : nat).

Local Notation nn := (length x).
Local Notation cc := (tw_cp tw).
Local Notation hl := (length h).

Hypothesis Hc : cc < nn.

(* where the search stopped reading: the end of the match, or the end of the haystack *)
Definition endp (r : option nat * prestate) : nat :=
  match fst r with Some i => i + nn | None => hl end.

(* step_cost of Sub/CostTwoWay.v plus: a prefilter step that ends the search ends it with None *)
Definition step_hit (K1 K2 pos : nat) (r : ctl (option nat * prestate) (nat * bool * prestate)) (cst : nat) : Prop :=
  match r with
  | Ret r' => cst <= K1 * (hl - pos) + K2 /\ fst r' = None
  | Go (pos1, ran, _) =>
      pos <= pos1 /\ pos1 + nn <= hl /\ (ran = false -> pos1 = pos) /\ cst <= K1 * (pos1 - pos) + K2
  end.

Lemma pre_step_hit_none K1 K2 pos st : pos + nn <= hl ->
  satc (pre_step None a h x pos st) (step_hit K1 K2 pos).
Proof.
  intros Hpos. unfold pre_step. apply satc_ret. cbn [step_hit]. repeat split; lia.
Qed.

Lemma pre_step_hit_some pf K1 K2 pos st :
  pre_mul_saturating = true -> pre_cost x pf K1 K2 -> Forall (fun b => (b < 256)%N) h ->
  pos + nn <= hl -> satc (pre_step (Some pf) a h x pos st) (step_hit K1 K2 pos).
Proof.
  intros Hsat Hpc Hbytes Hpos. unfold pre_step.
  destruct (pre_is_effective_ok st Hsat) as [e He]. rewrite He, bind_lift_ok.
  destruct (fst e).
  2: { apply satc_ret. cbn [step_hit]. repeat split; lia. }
  assert (pos <=? hl = true) as -> by (apply Nat.leb_le; lia).
  rewrite bind_guard_true.
  eapply satc_bind.
  { apply shifted_satc. apply (Hpc (a + pos) (skipn pos h)).
    rewrite <- (firstn_skipn pos h) in Hbytes. apply Forall_app in Hbytes. tauto. }
  intros [cand|] c1 Hr; cbv zeta; rewrite skipn_length in Hr.
  - assert (K1 * Nat.min cand (hl - pos) <= K1 * (hl - pos)) as M1 by (apply Nat.mul_le_mono_l; lia).
    assert (K1 * Nat.min cand (hl - pos) <= K1 * cand) as M2 by (apply Nat.mul_le_mono_l; lia).
    destruct (hl <? pos + cand + nn) eqn:E.
    + apply satc_ret. cbn [step_hit fst]. split; [lia|reflexivity].
    + apply Nat.ltb_ge in E. apply satc_ret. cbn [step_hit].
      replace (pos + cand - pos) with cand by lia.
      split; [lia|]. split; [exact E|]. split; [discriminate|lia].
  - apply satc_ret. cbn [step_hit fst]. split; [lia|reflexivity].
Qed.

Section Loops.
Variable pre : option prefn.
Variables K1 K2 : nat.
Hypothesis Hstep : forall pos st, pos + nn <= hl ->
  satc (pre_step pre a h x pos st) (step_hit K1 K2 pos).

Lemma find_large_hit s : 1 <= s -> s <= nn -> Nat.max cc (nn - cc) <= s -> forall fuel pos st,
  hl + 1 - pos < fuel -> pos <= hl ->
  satc (find_large_loop tw pre a h x fuel s pos st)
       (fun r cst => endp r <= hl /\ cst + (3 + K1 + K2) * pos <= (3 + K1 + K2) * endp r).
Proof.
  intros Hs1 Hsn Hsm. induction fuel as [|f IH]; intros pos st Hf Hph; [lia|].
  cbn [find_large_loop].
  destruct (pos + nn <=? hl) eqn:E.
  2: { apply satc_ret. unfold endp. cbn [fst]. split; [lia|].
       pose proof (Nat.mul_le_mono_l _ _ (3 + K1 + K2) Hph). lia. }
  apply Nat.leb_le in E.
  apply satc_tick_bind.
  eapply satc_bind. { apply Hstep; exact E. }
  intros [r|[[pos1 ran] st1]] c1 Hr; cbn [step_hit] in Hr.
  { destruct Hr as [Hr Hnone]. apply satc_ret. unfold endp. rewrite Hnone. split; [lia|].
    pose proof (amort_ret 3 K1 K2 pos hl c1 ltac:(lia) Hr ltac:(lia)). lia. }
  destruct Hr as (R1 & R2 & R3 & R4).
  rewrite csub_ok by lia. rewrite bind_lift_ok.
  rewrite (idx_ok h (pos1 + (nn - 1)) 0%N) by lia. rewrite bind_lift_ok.
  destruct (byteset_contains (tw_byteset tw) (nth (pos1 + (nn - 1)) h 0%N)); cbn [negb].
  2: { eapply satc_weaken. { apply (IH (pos1 + nn) st1); lia. }
       cbn beta. intros r2 c2 [He Hc2]. split; [exact He|].
       pose proof (amort_step 3 K1 K2 pos pos1 nn (endp r2) c1 0 c2 R1 R4 ltac:(lia) ltac:(lia) Hc2). lia. }
  eapply satc_bind. { apply (scan_right_cost x h tw Hc); [lia|lia|exact R2]. }
  intros i c2 (I1 & I2 & I3).
  destruct (i <? nn) eqn:Ei.
  - apply Nat.ltb_lt in Ei. rewrite csub_ok by lia. rewrite bind_lift_ok.
    eapply satc_weaken. { apply (IH (pos1 + (i - cc + 1)) st1); lia. }
    cbn beta. intros r3 c3 [He Hc3]. split; [exact He|].
    pose proof (amort_step 3 K1 K2 pos pos1 (i - cc + 1) (endp r3) c1 c2 c3 R1 R4 ltac:(lia) ltac:(lia) Hc3). lia.
  - apply Nat.ltb_ge in Ei. assert (i = nn) by lia. subst i.
    eapply satc_bind. { apply (scan_left_large_cost x h tw Hc); [lia|exact R2]. }
    intros [|] c3 Hc3; cbn beta in Hc3.
    + apply satc_ret. unfold endp. cbn [fst]. split; [exact R2|].
      assert (0 + (3 + K1 + K2) * (pos1 + nn) <= (3 + K1 + K2) * (pos1 + nn)) as Hfin by lia.
      pose proof (amort_step 3 K1 K2 pos pos1 nn (pos1 + nn) c1 (c2 + c3) 0 R1 R4 ltac:(lia) ltac:(lia) Hfin). lia.
    + eapply satc_weaken. { apply (IH (pos1 + s) st1); lia. }
      cbn beta. intros r4 c4 [He Hc4]. split; [exact He|].
      pose proof (amort_step 3 K1 K2 pos pos1 s (endp r4) c1 (c2 + c3) c4 R1 R4 ltac:(lia) ltac:(lia) Hc4). lia.
Qed.

Lemma find_small_hit_weak p : 1 <= p -> p <= nn -> cc <= p -> forall fuel pos sh st,
  hl + 1 - pos < fuel -> pos <= hl -> sh < nn ->
  satc (find_small_loop tw pre a h x fuel p pos sh st)
       (fun r cst => endp r <= hl /\ cst + ((nn + 3) + K1 + K2) * pos <= ((nn + 3) + K1 + K2) * endp r).
Proof.
  intros Hp1 Hpn Hcp. induction fuel as [|f IH]; intros pos sh st Hf Hph Hsh; [lia|].
  cbn [find_small_loop].
  destruct (pos + nn <=? hl) eqn:E.
  2: { apply satc_ret. unfold endp. cbn [fst]. split; [lia|].
       pose proof (Nat.mul_le_mono_l _ _ ((nn + 3) + K1 + K2) Hph). lia. }
  apply Nat.leb_le in E.
  apply satc_tick_bind.
  eapply satc_bind. { apply Hstep; exact E. }
  intros [r|[[pos1 ran] st1]] c1 Hr; cbn [step_hit] in Hr.
  { destruct Hr as [Hr Hnone]. apply satc_ret. unfold endp. rewrite Hnone. split; [lia|].
    pose proof (amort_ret (nn + 3) K1 K2 pos hl c1 ltac:(lia) Hr ltac:(lia)). lia. }
  destruct Hr as (R1 & R2 & R3 & R4). cbv zeta.
  assert (cc <= (if ran then cc else Nat.max cc sh) /\ (if ran then cc else Nat.max cc sh) <= nn) as Hi0
    by (destruct ran; lia).
  assert ((if ran then 0 else sh) < nn) as Hsh1 by (destruct ran; lia).
  set (i0 := if ran then cc else Nat.max cc sh) in *.
  set (sh1 := if ran then 0 else sh) in *. clearbody i0 sh1.
  assert (forall d, 1 <= d -> (nn + 3) * 1 <= (nn + 3) * d) as Hmul
    by (intros d Hd; apply Nat.mul_le_mono_l; exact Hd).
  rewrite csub_ok by lia. rewrite bind_lift_ok.
  rewrite (idx_ok h (pos1 + (nn - 1)) 0%N) by lia. rewrite bind_lift_ok.
  destruct (byteset_contains (tw_byteset tw) (nth (pos1 + (nn - 1)) h 0%N)); cbn [negb].
  2: { eapply satc_weaken. { apply (IH (pos1 + nn) 0 st1); lia. }
       cbn beta. intros r2 c2 [He Hc2]. split; [exact He|]. pose proof (Hmul nn ltac:(lia)).
       pose proof (amort_step (nn + 3) K1 K2 pos pos1 nn (endp r2) c1 0 c2 R1 R4 ltac:(lia) ltac:(lia) Hc2). lia. }
  eapply satc_bind. { apply (scan_right_cost x h tw Hc); [lia|lia|exact R2]. }
  intros i c2 (I1 & I2 & I3).
  destruct (i <? nn) eqn:Ei.
  - apply Nat.ltb_lt in Ei. rewrite csub_ok by lia. rewrite bind_lift_ok.
    eapply satc_weaken. { apply (IH (pos1 + (i - cc + 1)) 0 st1); lia. }
    cbn beta. intros r3 c3 [He Hc3]. split; [exact He|]. pose proof (Hmul (i - cc + 1) ltac:(lia)).
    pose proof (amort_step (nn + 3) K1 K2 pos pos1 (i - cc + 1) (endp r3) c1 c2 c3 R1 R4 ltac:(lia) ltac:(lia) Hc3). lia.
  - apply Nat.ltb_ge in Ei. assert (i = nn) by lia. subst i.
    eapply satc_bind. { apply (scan_left_small_cost x h tw Hc); [lia|exact Hc|exact R2]. }
    intros j c3 (J1 & J2).
    eapply satc_bind with (P1 := fun _ cst => cst = 0).
    { destruct (j <=? sh1).
      - rewrite (idx_ok x sh1 0%N) by lia. rewrite bind_lift_ok.
        rewrite (idx_ok h (pos1 + sh1) 0%N) by lia. rewrite bind_lift_ok.
        apply satc_ret. reflexivity.
      - apply satc_ret. reflexivity. }
    intros ok c4 ->. destruct ok.
    + apply satc_ret. unfold endp. cbn [fst]. split; [exact R2|].
      assert (0 + ((nn + 3) + K1 + K2) * (pos1 + nn) <= ((nn + 3) + K1 + K2) * (pos1 + nn)) as Hfin by lia.
      pose proof (Hmul nn ltac:(lia)).
      pose proof (amort_step (nn + 3) K1 K2 pos pos1 nn (pos1 + nn) c1 (c2 + c3) 0 R1 R4 ltac:(lia) ltac:(lia) Hfin). lia.
    + rewrite csub_ok by lia. rewrite bind_lift_ok.
      eapply satc_weaken. { apply (IH (pos1 + p) (nn - p) st1); lia. }
      cbn beta. intros r5 c5 [He Hc5]. split; [exact He|]. pose proof (Hmul p ltac:(lia)).
      pose proof (amort_step (nn + 3) K1 K2 pos pos1 p (endp r5) c1 (c2 + c3) c5 R1 R4 ltac:(lia) ltac:(lia) Hc5). lia.
Qed.

End Loops.

(* Small period without prefilter: Crochemore-Perrin amortisation, potential 3 * pos + max cc sh *)
Lemma find_small_hit_none p : 1 <= p -> p <= nn -> cc <= p -> forall fuel pos sh st,
  hl + 1 - pos < fuel -> pos <= hl -> sh < nn ->
  satc (find_small_loop tw None a h x fuel p pos sh st)
       (fun r cst => endp r <= hl /\ cst + 3 * pos + Nat.max cc sh <= 3 * endp r + nn).
Proof.
  intros Hp1 Hpn Hcp. induction fuel as [|f IH]; intros pos sh st Hf Hph Hsh; [lia|].
  cbn [find_small_loop].
  destruct (pos + nn <=? hl) eqn:E.
  2: { apply satc_ret. unfold endp. cbn [fst]. lia. }
  apply Nat.leb_le in E.
  apply satc_tick_bind.
  unfold pre_step. rewrite bind_ret. cbv zeta. cbn iota.
  rewrite csub_ok by lia. rewrite bind_lift_ok.
  rewrite (idx_ok h (pos + (nn - 1)) 0%N) by lia. rewrite bind_lift_ok.
  destruct (byteset_contains (tw_byteset tw) (nth (pos + (nn - 1)) h 0%N)); cbn [negb].
  2: { eapply satc_weaken. { apply (IH (pos + nn) 0 st); lia. }
       cbn beta. intros r2 c2 [He Hc2]. lia. }
  eapply satc_bind. { apply (scan_right_cost x h tw Hc); [lia|lia|exact E]. }
  intros i c2 (I1 & I2 & I3).
  destruct (i <? nn) eqn:Ei.
  - apply Nat.ltb_lt in Ei. rewrite csub_ok by lia. rewrite bind_lift_ok.
    eapply satc_weaken. { apply (IH (pos + (i - cc + 1)) 0 st); lia. }
    cbn beta. intros r3 c3 [He Hc3]. lia.
  - apply Nat.ltb_ge in Ei. assert (i = nn) by lia. subst i.
    eapply satc_bind. { apply (scan_left_small_cost x h tw Hc); [lia|exact Hc|exact E]. }
    intros j c3 (J1 & J2).
    eapply satc_bind with (P1 := fun _ cst => cst = 0).
    { destruct (j <=? sh).
      - rewrite (idx_ok x sh 0%N) by lia. rewrite bind_lift_ok.
        rewrite (idx_ok h (pos + sh) 0%N) by lia. rewrite bind_lift_ok.
        apply satc_ret. reflexivity.
      - apply satc_ret. reflexivity. }
    intros ok c4 ->. destruct ok.
    + apply satc_ret. unfold endp. cbn [fst]. lia.
    + rewrite csub_ok by lia. rewrite bind_lift_ok.
      eapply satc_weaken. { apply (IH (pos + p) (nn - p) st); lia. }
      cbn beta. intros r5 c5 [He Hc5]. lia.
Qed.

End TWFwdHit.

(* forward search WITHOUT prefilter *)
Theorem tw_find_hit : forall x h tw a st,
  fst (tw_new x) = Ok tw ->
  satc (tw_find tw None a h x st)
       (fun r c => c <= 3 * length h + length x + 3 /\
                   (forall i, fst r = Some i -> i + length x <= length h /\ c <= 3 * (i + length x) + length x + 3)).
Proof.
  intros x h tw a st Hnew. destruct (Nat.eq_dec (length x) 0) as [E|E].
  { unfold tw_find. rewrite E. cbn [Nat.eqb].
    destruct (tw_shift tw); apply satc_ret; (split; [lia|]); cbn [fst]; intros i Hi; injection Hi as <-; lia. }
  pose proof (tw_cert_fwd_new x tw ltac:(lia) Hnew) as Hcert.
  pose proof (tw_new_large_shift_ok x tw Hnew) as Hls.
  destruct (cert_fwd_cost_facts x tw Hcert) as [Hc Hsh].
  unfold tw_find.
  assert (length x =? 0 = false) as E0 by (apply Nat.eqb_neq; lia).
  unfold large_shift_ok in Hls.
  assert (forall (r : option nat * prestate) c,
            endp x h r <= length h /\ c <= 3 * endp x h r + length x ->
            c <= 3 * length h + length x + 3 /\
            (forall i, fst r = Some i -> i + length x <= length h /\ c <= 3 * (i + length x) + length x + 3)) as Hfin.
  { intros r c [He Hcst]. split; [lia|]. intros i Hi. unfold endp in *. rewrite Hi in *. lia. }
  destruct (tw_shift tw) as [p|s]; rewrite E0.
  - destruct Hsh as (Hp1 & Hpn & Hcp).
    eapply satc_weaken. { apply (find_small_hit_none x h tw a Hc p Hp1 Hpn Hcp); lia. }
    cbn beta. intros r c [He Hcst]. apply Hfin. lia.
  - destruct Hsh as (Hs1 & Hsn). specialize (Hls s eq_refl).
    eapply satc_weaken.
    { apply (find_large_hit x h tw a Hc None 0 0
               (fun pos st0 Hp => pre_step_hit_none x h tw a Hc 0 0 pos st0 Hp) s Hs1 Hsn Hls); lia. }
    cbn beta. intros r c [He Hcst]. apply Hfin. lia.
Qed.

(* forward search WITH a prefilter, Large shift *)
Theorem tw_find_hit_pre_large : forall x h tw pf a st K1 K2 s,
  1 <= length x -> fst (tw_new x) = Ok tw -> tw_shift tw = Large s ->
  pre_mul_saturating = true -> pre_cost x pf K1 K2 ->
  Forall (fun b => (b < 256)%N) h ->
  satc (tw_find tw (Some pf) a h x st)
       (fun r c => c <= (3 + K1 + K2) * (length h + 1) + length x + 3 /\
                   (forall i, fst r = Some i ->
                      i + length x <= length h /\ c <= (3 + K1 + K2) * (i + length x + 1) + length x + 3)).
Proof.
  intros x h tw pf a st K1 K2 s Hn Hnew Hs Hsat Hpc Hbytes.
  pose proof (tw_cert_fwd_new x tw Hn Hnew) as Hcert.
  pose proof (tw_new_large_shift_ok x tw Hnew s Hs) as Hls.
  destruct (cert_fwd_cost_facts x tw Hcert) as [Hc Hsh].
  unfold tw_find.
  assert (length x =? 0 = false) as E0 by (apply Nat.eqb_neq; lia).
  rewrite Hs in *. rewrite E0. destruct Hsh as (Hs1 & Hsn).
  eapply satc_weaken.
  { apply (find_large_hit x h tw a Hc (Some pf) K1 K2
             (fun pos st0 Hp => pre_step_hit_some x h tw a Hc pf K1 K2 pos st0 Hsat Hpc Hbytes Hp) s Hs1 Hsn Hls); lia. }
  cbn beta. intros r c [He Hcst]. rewrite Nat.mul_0_r, Nat.add_0_r in Hcst.
  assert ((3 + K1 + K2) * endp x h r <= (3 + K1 + K2) * length h) as Hm by (apply Nat.mul_le_mono_l; exact He).
  split; [lia|]. intros i Hi. unfold endp in *. rewrite Hi in *. split; [exact He|]. lia.
Qed.

(* forward search WITH a prefilter, Small period: the weak (product) form, hit-aware *)
Theorem tw_find_hit_pre_small_weak : forall x h tw pf a st K1 K2 p,
  1 <= length x -> fst (tw_new x) = Ok tw -> tw_shift tw = Small p ->
  pre_mul_saturating = true -> pre_cost x pf K1 K2 ->
  Forall (fun b => (b < 256)%N) h ->
  satc (tw_find tw (Some pf) a h x st)
       (fun r c => c <= (length x + K1 + K2 + 3) * (length h + 1) /\
                   (forall i, fst r = Some i ->
                      i + length x <= length h /\ c <= (length x + K1 + K2 + 3) * (i + length x + 1))).
Proof.
  intros x h tw pf a st K1 K2 p Hn Hnew Hs Hsat Hpc Hbytes.
  pose proof (tw_cert_fwd_new x tw Hn Hnew) as Hcert.
  destruct (cert_fwd_cost_facts x tw Hcert) as [Hc Hsh].
  unfold tw_find.
  assert (length x =? 0 = false) as E0 by (apply Nat.eqb_neq; lia).
  rewrite Hs in *. rewrite E0. destruct Hsh as (Hp1 & Hpn & Hcp).
  eapply satc_weaken.
  { apply (find_small_hit_weak x h tw a Hc (Some pf) K1 K2
             (fun pos st0 Hp => pre_step_hit_some x h tw a Hc pf K1 K2 pos st0 Hsat Hpc Hbytes Hp) p Hp1 Hpn Hcp); lia. }
  cbn beta. intros r c [He Hcst]. rewrite Nat.mul_0_r, Nat.add_0_r in Hcst.
  assert ((length x + 3 + K1 + K2) * endp x h r <= (length x + 3 + K1 + K2) * length h) as Hm
    by (apply Nat.mul_le_mono_l; exact He).
  split; [lia|]. intros i Hi. unfold endp in *. rewrite Hi in *. split; [exact He|]. lia.
Qed.

(* ================================================================== *)
(* 4. Two-Way, reverse: potential 3 * pos + min cc sh; a hit at i leaves 3 * i unspent *)
Definition rstart (r : option nat) : nat := match r with Some i => i | None => 0 end.

Section TWRevHit.
Variables (x h : list N) (tw : twoway).

Local Notation nn := (length x).
Local Notation cc := (tw_cp tw).
Local Notation hl := (length h).

Hypothesis Hc0 : 0 < cc.
Hypothesis Hcn : cc <= nn.

Lemma rfind_small_hit p : 1 <= p -> p <= nn -> nn - cc <= p -> forall fuel pos sh,
  pos < fuel -> pos <= hl -> 1 <= sh -> sh <= nn ->
  satc (rfind_small_loop tw h x fuel p pos sh) (fun r cst => cst + 3 * rstart r <= 3 * pos + Nat.min cc sh).
Proof.
  intros Hp1 Hpn Hcp. induction fuel as [|f IH]; intros pos sh Hf Hh Hs1 Hsn; [lia|].
  rewrite rfind_small_loop_S.
  destruct (nn <=? pos) eqn:E.
  2:{ apply satc_ret. cbn [rstart]. lia. }
  apply Nat.leb_le in E.
  apply satc_tick_bind.
  rewrite csub_ok by exact E. rewrite bind_lift_ok.
  rewrite (idx_ok h (pos - nn) 0%N) by lia. rewrite bind_lift_ok.
  destruct (byteset_contains (tw_byteset tw) (nth (pos - nn) h 0%N)); cbn [negb].
  2:{ eapply satc_weaken. { apply (IH (pos - nn) nn); lia. }
      cbn beta. intros r2 c2 Hc2. lia. }
  eapply satc_bind. { apply (rscan_left_cost x h tw Hc0 Hcn); lia. }
  intros i c2 (I1 & I2 & I3).
  rewrite (idx_ok x 0 0%N) by lia. rewrite bind_lift_ok.
  destruct (0 <? i) eqn:Ei; cbn [orb].
  - apply Nat.ltb_lt in Ei.
    rewrite csub_ok by lia. rewrite bind_lift_ok.
    rewrite csub_ok by lia. rewrite bind_lift_ok.
    eapply satc_weaken. { apply (IH (pos - (cc - i + 1)) nn); lia. }
    cbn beta. intros r3 c3 Hc3. lia.
  - apply Nat.ltb_ge in Ei. assert (i = 0) by lia. subst i.
    rewrite (I3 eq_refl ltac:(lia)), N.eqb_refl. cbn [negb].
    eapply satc_bind. { apply (rscan_right_cost x h tw Hc0 Hcn) with (fuel := S nn); lia. }
    intros j c3 (J1 & J2 & J3).
    destruct (sh <=? j) eqn:Ej.
    + apply satc_ret. cbn [rstart]. lia.
    + apply Nat.leb_gt in Ej.
      rewrite csub_ok by lia. rewrite bind_lift_ok.
      eapply satc_weaken. { apply (IH (pos - p) p); lia. }
      cbn beta. intros r4 c4 Hc4. lia.
Qed.

Lemma rfind_large_hit s : 1 <= s -> s <= nn -> Nat.max cc (nn - cc) <= s -> forall fuel pos,
  pos < fuel -> pos <= hl ->
  satc (rfind_large_loop tw h x fuel s pos) (fun r cst => cst + 3 * rstart r <= 3 * pos).
Proof.
  intros Hs1 Hsn Hsm. induction fuel as [|f IH]; intros pos Hf Hh; [lia|].
  rewrite rfind_large_loop_S.
  destruct (nn <=? pos) eqn:E.
  2:{ apply satc_ret. cbn [rstart]. lia. }
  apply Nat.leb_le in E.
  apply satc_tick_bind.
  rewrite csub_ok by exact E. rewrite bind_lift_ok.
  rewrite (idx_ok h (pos - nn) 0%N) by lia. rewrite bind_lift_ok.
  destruct (byteset_contains (tw_byteset tw) (nth (pos - nn) h 0%N)); cbn [negb].
  2:{ eapply satc_weaken. { apply (IH (pos - nn)); lia. }
      cbn beta. intros r2 c2 Hc2. lia. }
  eapply satc_bind. { apply (rscan_left_cost x h tw Hc0 Hcn); lia. }
  intros i c2 (I1 & I2 & I3).
  rewrite (idx_ok x 0 0%N) by lia. rewrite bind_lift_ok.
  destruct (0 <? i) eqn:Ei; cbn [orb].
  - apply Nat.ltb_lt in Ei.
    rewrite csub_ok by lia. rewrite bind_lift_ok.
    rewrite csub_ok by lia. rewrite bind_lift_ok.
    eapply satc_weaken. { apply (IH (pos - (cc - i + 1))); lia. }
    cbn beta. intros r3 c3 Hc3. lia.
  - apply Nat.ltb_ge in Ei. assert (i = 0) by lia. subst i.
    rewrite (I3 eq_refl ltac:(lia)), N.eqb_refl. cbn [negb].
    eapply satc_bind. { apply (rscan_right_cost x h tw Hc0 Hcn) with (fuel := S nn); lia. }
    intros j c3 (J1 & J2 & J3).
    destruct (Nat.eqb_spec j nn) as [Ej|Ej].
    + apply satc_ret. cbn [rstart]. lia.
    + rewrite csub_ok by lia. rewrite bind_lift_ok.
      eapply satc_weaken. { apply (IH (pos - s)); lia. }
      cbn beta. intros r4 c4 Hc4. lia.
Qed.

End TWRevHit.

Theorem tw_rfind_hit : forall x h tw,
  fst (tw_new_rev x) = Ok tw ->
  satc (tw_rfind tw h x)
       (fun r c => c <= 3 * length h + length x + 3 /\
                   (forall i, r = Some i -> c <= 3 * (length h - i) + length x + 3)).
Proof.
  intros x h tw Hnew. destruct (Nat.eq_dec (length x) 0) as [E|E].
  { unfold tw_rfind. rewrite E. cbn [Nat.eqb].
    destruct (tw_shift tw); apply satc_ret; (split; [lia|]); intros i Hi; lia. }
  pose proof (tw_cert_rev_new x tw ltac:(lia) Hnew) as Hcert.
  pose proof (tw_new_rev_large_shift_ok x tw Hnew) as Hls.
  destruct (cert_rev_facts x tw Hcert) as (Hc0 & Hcn & _ & HF3).
  assert (1 <= length x) as Hn1 by lia.
  destruct (TwoWayRevProofs.smallest_period_spec x Hn1) as (HP1 & HPn & _).
  assert (length x =? 0 = false) as En by (apply Nat.eqb_neq; lia).
  unfold large_shift_ok in Hls.
  unfold tw_rfind. destruct (tw_shift tw) as [p|s]; rewrite En.
  - destruct HF3 as [-> HF3].
    eapply satc_weaken. { apply (rfind_small_hit x h tw Hc0 Hcn _ HP1 HPn HF3); lia. }
    cbn beta. intros r c Hcst. split; [lia|]. intros i ->. cbn [rstart] in Hcst. lia.
  - destruct HF3 as [Hs1 Hs2]. specialize (Hls s eq_refl).
    eapply satc_weaken. { apply (rfind_large_hit x h tw Hc0 Hcn s Hs1 ltac:(lia) Hls); lia. }
    cbn beta. intros r c Hcst. split; [lia|]. intros i ->. cbn [rstart] in Hcst. lia.
Qed.

(* ================================================================== *)
(* 5. Two-Way forward, small period WITH a prefilter: the linear bound of
   Sub/CostTwoWaySmall.v (potential (3 + K1 + K2) * pos + max pos (bump last)), hit-aware:
   the same induction with the end of the haystack replaced by the end of the match. *)
Section SmallHit.
Variables (x h : list N) (tw : twoway) (a : nat).

Local Notation nn := (length x).
Local Notation cc := (tw_cp tw).
Local Notation hl := (length h).

Hypothesis Hc : cc < nn.

Variable p : nat.
Hypothesis Hp1 : 1 <= p.
Hypothesis Hpn : p <= nn.
Hypothesis Hcp : cc <= p.
Hypothesis Hper : is_period x p = true.
Hypothesis Hmin : forall g, 1 <= g -> is_period x g = true -> p <= g.

Variable pre : option prefn.
Variables K1 K2 : nat.
Hypothesis Hstep : forall pos st, pos + nn <= hl ->
  satc (pre_step pre a h x pos st) (step_hit x h K1 K2 pos).

Local Notation bump := (bump x tw p).
Local Notation last_ok := (last_ok x h tw p).
Local Notation endp := (endp x h).

Lemma find_small_hit_lin : forall fuel pos sh st last,
  hl + 1 - pos < fuel -> pos <= hl -> (sh = 0 \/ sh = nn - p) -> last_ok last pos ->
  satc (find_small_loop tw pre a h x fuel p pos sh st)
       (fun r cst => endp r <= hl /\
                     cst + (3 + K1 + K2) * pos + Nat.max pos (bump last) <= (4 + K1 + K2) * endp r).
Proof.
  induction fuel as [|f IH]; intros pos sh st last Hf Hph Hsh Hlast; [lia|].
  assert (bump last <= hl) as Hbump.
  { destruct last as [q|]; cbn [CostTwoWaySmall.bump CostTwoWaySmall.last_ok] in *; lia. }
  assert (bump last <= pos + nn) as Hbump2.
  { destruct last as [q|]; cbn [CostTwoWaySmall.bump CostTwoWaySmall.last_ok] in *; lia. }
  assert (sh < nn) as Hshn by lia.
  cbn [find_small_loop].
  destruct (pos + nn <=? hl) eqn:E.
  2: { apply satc_ret. unfold CostHit.endp. cbn [fst]. split; [lia|].
       pose proof (Nat.mul_le_mono_l _ _ (3 + K1 + K2) Hph). lia. }
  apply Nat.leb_le in E.
  apply satc_tick_bind.
  eapply satc_bind. { apply Hstep; exact E. }
  intros [r|[[pos1 ran] st1]] c1 Hr; cbn [step_hit] in Hr.
  { destruct Hr as [Hr Hnone]. apply satc_ret. unfold CostHit.endp. rewrite Hnone. split; [lia|].
    pose proof (amort_ret2 K1 K2 pos hl c1 (Nat.max pos (bump last)) ltac:(lia) Hr ltac:(lia)). lia. }
  destruct Hr as (R1 & R2 & R3 & R4). cbv zeta.
  assert (exists g, pos1 = pos + g) as [g Hg] by (exists (pos1 - pos); lia).
  replace (pos1 - pos) with g in R4 by lia. subst pos1.
  assert ((ran = false /\ (pos + g) = pos /\ (if ran then cc else Nat.max cc sh) = Nat.max cc (nn - p) /\
           (if ran then 0 else sh) = nn - p) \/
          ((if ran then cc else Nat.max cc sh) = cc /\ (if ran then 0 else sh) = 0)) as HAB.
  { destruct ran.
    - right. split; reflexivity.
    - destruct Hsh as [->| ->].
      + right. split; [lia|reflexivity].
      + left. split; [reflexivity|]. split; [apply R3; reflexivity|]. split; reflexivity. }
  assert (cc <= (if ran then cc else Nat.max cc sh) /\ (if ran then cc else Nat.max cc sh) <= nn) as Hi0
    by (destruct ran; lia).
  assert ((if ran then 0 else sh) < nn) as Hsh1 by (destruct ran; lia).
  set (i0 := if ran then cc else Nat.max cc sh) in *.
  set (sh1 := if ran then 0 else sh) in *. clearbody i0 sh1.
  rewrite csub_ok by lia. rewrite bind_lift_ok.
  rewrite (idx_ok h ((pos + g) + (nn - 1)) 0%N) by lia. rewrite bind_lift_ok.
  destruct (byteset_contains (tw_byteset tw) (nth ((pos + g) + (nn - 1)) h 0%N)); cbn [negb].
  2: { eapply satc_weaken.
       { apply (IH ((pos + g) + nn) 0 st1 last); [lia|lia|left; reflexivity|].
         destruct last as [q|]; cbn [CostTwoWaySmall.last_ok] in *; [|exact I].
         split; [lia|]. split; [lia|]. apply Hlast. }
       cbn beta. intros r2 c2 [He Hc2]. split; [exact He|].
       pose proof (amort_step2 K1 K2 pos g nn c1 0 c2 (Nat.max pos (bump last))
                     (Nat.max (pos + g + nn) (bump last)) ((4 + K1 + K2) * endp r2)
                     R4 ltac:(lia) ltac:(lia) Hc2). lia. }
  eapply satc_bind. { apply (scan_right_both x h tw Hc p Hp1 Hpn Hcp); [lia|lia|exact R2]. }
  intros i c2 (I1 & I2 & I3 & I4).
  destruct (i <? nn) eqn:Ei.
  - apply Nat.ltb_lt in Ei. rewrite csub_ok by lia. rewrite bind_lift_ok.
    eapply satc_weaken.
    { apply (IH ((pos + g) + (i - cc + 1)) 0 st1 last); [lia|lia|left; reflexivity|].
      destruct last as [q|]; cbn [CostTwoWaySmall.last_ok] in *; [|exact I].
      split; [lia|]. split; [lia|]. apply Hlast. }
    cbn beta. intros r3 c3 [He Hc3]. split; [exact He|].
    pose proof (amort_step2 K1 K2 pos g (i - cc + 1) c1 c2 c3 (Nat.max pos (bump last))
                  (Nat.max (pos + g + (i - cc + 1)) (bump last)) ((4 + K1 + K2) * endp r3)
                  R4 ltac:(lia) ltac:(lia) Hc3). lia.
  - apply Nat.ltb_ge in Ei. assert (i = nn) by lia. subst i.
    eapply satc_bind. { apply (scan_left_both x h tw Hc p Hp1 Hpn Hcp); [lia|exact Hc|exact R2]. }
    intros j c3 (J1 & J2 & J3).
    eapply satc_bind with
      (P1 := fun ok cst => cst = 0 /\
               (ok = false -> exists t, t <= Nat.max cc sh1 /\ nth ((pos + g) + t) h 0%N <> xb x t)).
    { destruct (j <=? sh1) eqn:Ej.
      - apply Nat.leb_le in Ej.
        rewrite (idx_ok x sh1 0%N) by lia. rewrite bind_lift_ok.
        rewrite (idx_ok h ((pos + g) + sh1) 0%N) by lia. rewrite bind_lift_ok.
        apply satc_ret. split; [reflexivity|]. intros Hok. apply N.eqb_neq in Hok.
        exists sh1. split; [lia|]. intros E2. apply Hok. symmetry. exact E2.
      - apply Nat.leb_gt in Ej. apply satc_ret. split; [reflexivity|]. intros _.
        exists j. split; [lia|]. apply J3. exact Ej. }
    intros ok c4 [-> Hok]. destruct ok.
    + (* match: the region read ends at pos + g + nn *)
      apply satc_ret. unfold CostHit.endp. cbn [fst]. split; [exact R2|].
      assert (0 + (3 + K1 + K2) * (pos + g + nn) + (pos + g + nn) <= (4 + K1 + K2) * (pos + g + nn)) as Hfin by lia.
      pose proof (amort_step2 K1 K2 pos g nn c1 (c2 + c3) 0 (Nat.max pos (bump last)) (pos + g + nn)
                    ((4 + K1 + K2) * (pos + g + nn))
                    R4 ltac:(lia) ltac:(lia) Hfin). lia.
    + specialize (Hok eq_refl).
      rewrite csub_ok by lia. rewrite bind_lift_ok.
      destruct HAB as [(A1 & A2 & A3 & A4)|(B1 & B2)].
      * eapply satc_weaken.
        { apply (IH ((pos + g) + p) (nn - p) st1 last); [lia|lia|right; reflexivity|].
          destruct last as [q|]; cbn [CostTwoWaySmall.last_ok] in *; [|exact I].
          split; [lia|]. split; [lia|]. apply Hlast. }
        cbn beta. intros r5 c5 [He Hc5]. split; [exact He|].
        pose proof (amort_step2 K1 K2 pos g p c1 (c2 + c3) c5 (Nat.max pos (bump last))
                      (Nat.max (pos + g + p) (bump last)) ((4 + K1 + K2) * endp r5)
                      R4 ltac:(lia) ltac:(lia) Hc5). lia.
      * subst i0 sh1. rewrite Nat.max_0_r in Hok.
        assert (bump last <= (pos + g)) as Hsp.
        { destruct last as [q|]; cbn [CostTwoWaySmall.bump CostTwoWaySmall.last_ok] in *; [|lia].
          destruct Hlast as (L1 & L2 & L3).
          apply (spacing x h tw Hc p Hp1 Hpn Hcp Hper Hmin q (pos + g)); [exact L3|exact I4|lia|exact Hok]. }
        eapply satc_weaken.
        { apply (IH ((pos + g) + p) (nn - p) st1 (Some (pos + g))); [lia|lia|right; reflexivity|].
          cbn [CostTwoWaySmall.last_ok]. split; [lia|]. split; [exact R2|exact I4]. }
        cbn beta. intros r5 c5 [He Hc5]. split; [exact He|]. cbn [CostTwoWaySmall.bump] in Hc5.
        pose proof (amort_step2 K1 K2 pos g p c1 (c2 + c3) c5 (Nat.max pos (bump last))
                      (Nat.max (pos + g + p) (pos + g + (nn - cc - p) + 1)) ((4 + K1 + K2) * endp r5)
                      R4 ltac:(lia) ltac:(lia) Hc5). lia.
Qed.

End SmallHit.

(* forward search WITH a prefilter, Small period: linear and hit-aware *)
Theorem tw_find_hit_pre_small : forall x h tw pf a st K1 K2 p,
  1 <= length x -> fst (tw_new x) = Ok tw -> tw_shift tw = Small p ->
  pre_mul_saturating = true -> pre_cost x pf K1 K2 ->
  Forall (fun b => (b < 256)%N) h ->
  satc (tw_find tw (Some pf) a h x st)
       (fun r c => c <= (4 + K1 + K2) * length h /\
                   (forall i, fst r = Some i -> i + length x <= length h /\ c <= (4 + K1 + K2) * (i + length x))).
Proof.
  intros x h tw pf a st K1 K2 p Hn Hnew Hs Hsat Hpc Hbytes.
  pose proof (tw_cert_fwd_new x tw Hn Hnew) as Hcert.
  destruct (cert_fwd_cost_facts x tw Hcert) as [Hc Hsh].
  pose proof (cert_fwd_small_period x tw p Hcert Hs) as HpP.
  destruct (TwoWayFwdProofs.smallest_period_spec x ltac:(lia)) as (Hper & _ & _).
  unfold tw_find.
  assert (length x =? 0 = false) as E0 by (apply Nat.eqb_neq; lia).
  rewrite Hs in *. rewrite E0. destruct Hsh as (Hp1 & Hpn & Hcp).
  rewrite <- HpP in Hper.
  assert (forall g, 1 <= g -> is_period x g = true -> p <= g) as Hmin.
  { intros g Hg1 Hg. rewrite HpP. apply smallest_period_min; assumption. }
  eapply satc_weaken.
  { apply (find_small_hit_lin x h tw a Hc p Hp1 Hpn Hcp Hper Hmin (Some pf) K1 K2
             (fun pos st0 Hp => pre_step_hit_some x h tw a Hc pf K1 K2 pos st0 Hsat Hpc Hbytes Hp)
             (S (S (length h))) 0 0 st None); [lia|lia|left; reflexivity|exact I]. }
  cbn beta. intros r c [He Hcst]. cbn [bump] in Hcst.
  assert ((4 + K1 + K2) * endp x h r <= (4 + K1 + K2) * length h) as Hm by (apply Nat.mul_le_mono_l; exact He).
  split; [lia|]. intros i Hi. unfold endp in *. rewrite Hi in *. split; [exact He|]. lia.
Qed.

(* ================================================================== *)
(* 6. the meta searcher: Searcher::find / SearcherRev::rfind, hit-aware *)

Lemma rk_short_hit f x h B : length x <= length h -> length h < B ->
  satc (rk_find f x h)
       (fun r c => c <= (B / 2 + 6) * (length h + 1) + length x /\
                   (forall i, r = Some i -> c <= (B / 2 + 6) * (i + 1) + length x)).
Proof.
  intros Hx Hh. eapply satc_weaken; [apply rk_find_hit|]. cbn beta. intros r c [Hc Hci].
  assert (length x / 2 <= B / 2) by (apply Nat.div_le_mono; lia).
  assert (forall n, (n + 1) * (length x / 2 + 6) <= (B / 2 + 6) * (n + 1)) as Hm.
  { intros n. rewrite (Nat.mul_comm (B / 2 + 6)). apply Nat.mul_le_mono_l. lia. }
  split.
  - pose proof (Hm (length h)). lia.
  - intros i Hi. specialize (Hci i Hi). pose proof (Hm i). lia.
Qed.

Lemma rk_rshort_hit f x h B : length x <= length h -> length h < B ->
  satc (rk_rfind f x h)
       (fun r c => c <= (B / 2 + 6) * (length h + 1) + length x /\
                   (forall i, r = Some i -> c <= (B / 2 + 6) * (length h - length x - i + 1) + length x)).
Proof.
  intros Hx Hh. eapply satc_weaken; [apply rk_rfind_hit|]. cbn beta. intros r c [Hc Hci].
  assert (length x / 2 <= B / 2) by (apply Nat.div_le_mono; lia).
  assert (forall n, (n + 1) * (length x / 2 + 6) <= (B / 2 + 6) * (n + 1)) as Hm.
  { intros n. rewrite (Nat.mul_comm (B / 2 + 6)). apply Nat.mul_le_mono_l. lia. }
  split.
  - pose proof (Hm (length h)). lia.
  - intros i Hi. specialize (Hci i Hi). pose proof (Hm (length h - length x - i)). lia.
Qed.

Section FindHit.
Variables (ar : arch) (x h : list N) (a : nat).
Hypothesis Hx : bytes_ok x.
Hypothesis Hh : bytes_ok h.

Lemma find_rk_branch_hit (s : searcher) (st : prestate) : length x <= length h -> length h < 64 ->
  satc (r <- rk_find (s_rk s) x h;; ret (r, st))
       (fun r c => c <= K_find * (length h + 1) + length x + 3 /\
                   (forall i, fst r = Some i -> c <= K_find * (i + length x + 1) + length x + 3)).
Proof.
  intros H1 H2. eapply satc_bind; [apply (rk_short_hit _ x h 64 H1 H2)|].
  intros r c1 [Hc1 Hci]. apply satc_ret. change (64 / 2 + 6) with 38 in *. unfold K_find. split; [lia|].
  cbn [fst]. intros i Hi. specialize (Hci i Hi). lia.
Qed.

(* Searcher::find for EVERY strategy (including small period + prefilter):
   a hit at i costs at most K_find * (i + |x| + 1) + |x| + 3 steps *)
Theorem searcher_find_hit s st :
  strat_for ar x s -> strat_small s ->
  satc (searcher_find ar s st a h x)
       (fun r c => c <= K_find * (length h + 1) + length x + 3 /\
                   (forall i, fst r = Some i -> c <= K_find * (i + length x + 1) + length x + 3)).
Proof.
  intros [Hrk Hs] Hsmall. unfold searcher_find.
  destruct (length h <? length x) eqn:El.
  { apply satc_ret. split; [lia|]. cbn [fst]. intros i Hi. discriminate. }
  apply Nat.ltb_ge in El.
  destruct params_cost_ok as (Hpm & Hfb & _ & _ & Hsat).
  unfold strat_small in *.
  destruct (s_strat s) as [|b|w|tw|tw p] eqn:Es.
  - apply satc_ret. split; [lia|]. intros i Hi. lia.
  - subst x. eapply satc_bind.
    { apply (backend_find_cost (arch_memchr ar) [b] a h ltac:(discriminate) Hh Hx). }
    intros r c1 [Hc1 Hci]. apply satc_ret. unfold K_find. split; [lia|].
    cbn [fst]. intros i Hi. specialize (Hci i Hi). lia.
  - destruct Hs as [Hdo (isa & i1 & i2 & Hw)].
    assert (length x <= 64) as Hx64.
    { unfold do_packed_search in Hdo. apply andb_prop in Hdo as [_ Hle]. apply N.leb_le in Hle. lia. }
    assert (length x / 2 <= 32) as Hx32 by (apply Nat.div_le_upper_bound; lia).
    destruct (length h <? pw_min w) eqn:Em.
    + apply Nat.ltb_lt in Em.
      eapply satc_bind; [apply rk_find_hit|]. intros r c1 [Hc1 Hci]. apply satc_ret.
      assert (forall n, (n + 1) * (length x / 2 + 6) <= (n + 1) * 38) as Hm
        by (intros n; apply Nat.mul_le_mono_l; lia).
      unfold K_find. split.
      * pose proof (Hm (length h)). lia.
      * cbn [fst]. intros i Hi. specialize (Hci i Hi). pose proof (Hm i). lia.
    + apply Nat.ltb_ge in Em.
      eapply satc_bind; [apply (pw_find_hit isa x i1 i2 w h Hw Em)|]. intros r c1 [Hc1 Hci]. apply satc_ret.
      assert (forall n, n / 16 <= n) as Hd by (intros n; apply Nat.div_le_upper_bound; lia).
      assert (forall n, (n / 16 + 2) * (3 + 32 * (length x / 2 + 5)) <= (n / 16 + 2) * 1187) as Hm
        by (intros n; apply Nat.mul_le_mono_l; lia).
      unfold K_find. split.
      * pose proof (Hm (length h)). pose proof (Hd (length h)). lia.
      * cbn [fst]. intros i Hi. specialize (Hci i Hi). pose proof (Hm i). pose proof (Hd i). lia.
  - destruct Hs as [Hreach Htw].
    destruct (rk_is_fast h) eqn:Ef.
    + apply find_rk_branch_hit; [exact El|apply rk_is_fast_lt; exact Ef].
    + eapply satc_weaken; [apply (tw_find_hit x h tw a st Htw)|].
      cbn beta. intros r c [Hc Hci]. unfold K_find. split; [lia|].
      intros i Hi. destruct (Hci i Hi) as [_ Hb]. lia.
  - destruct Hs as (Hreach & Htw & Hp).
    destruct (rk_is_fast h) eqn:Ef.
    + apply find_rk_branch_hit; [exact El|apply rk_is_fast_lt; exact Ef].
    + assert (1 <= length x) as Hn1.
      { unfold tw_reach_fwd in Hreach. apply andb_prop in Hreach as [H2 _]. apply Nat.leb_le in H2. lia. }
      destruct Hsmall as [Ho Hk].
      assert (pre_cost x (prefilter_find ar p) 19 (19 * 257)) as Hpc.
      { apply prefilter_find_cost; [exact Hx|exact Hp|lia|].
        intros f Ef'. rewrite Ef' in Hk. lia. }
      destruct (tw_shift tw) as [q|sft] eqn:Esh.
      { eapply satc_weaken.
        { apply (tw_find_hit_pre_small x h tw (prefilter_find ar p) a st 19 (19 * 257) q Hn1 Htw Esh Hsat Hpc Hh). }
        cbn beta. change (4 + 19 + 19 * 257) with 4906. intros r c [Hc Hci]. unfold K_find. split; [lia|].
        intros i Hi. destruct (Hci i Hi) as [_ Hb]. lia. }
      eapply satc_weaken.
      { apply (tw_find_hit_pre_large x h tw (prefilter_find ar p) a st 19 (19 * 257) sft Hn1 Htw Esh Hsat Hpc Hh). }
      cbn beta. change (3 + 19 + 19 * 257) with 4905. intros r c [Hc Hci]. unfold K_find. split; [lia|].
      intros i Hi. destruct (Hci i Hi) as [_ Hb]. lia.
Qed.

(* SearcherRev::rfind: a hit at i costs at most K_rfind * (|h| - i + 1) + |x| + 3 steps *)
Theorem rsearcher_rfind_hit s :
  rstrat_for x s ->
  satc (rsearcher_rfind ar s a h x)
       (fun r c => c <= K_rfind * (length h + 1) + length x + 3 /\
                   (forall i, r = Some i -> c <= K_rfind * (length h - i + 1) + length x + 3)).
Proof.
  intros [Hrk Hs]. unfold rsearcher_rfind.
  destruct (length h <? length x) eqn:El.
  { apply satc_ret. split; [lia|]. intros i Hi. discriminate. }
  apply Nat.ltb_ge in El.
  destruct (r_strat s) as [|b|tw] eqn:Es.
  - apply satc_ret. unfold K_rfind. split; [lia|]. intros i Hi. lia.
  - subst x. eapply satc_weaken.
    { apply (backend_rfind_cost_hit (arch_memchr ar) [b] a h ltac:(discriminate)). }
    cbn beta. intros r c [Hc Hci]. unfold K_rfind. split; [lia|].
    intros i Hi. specialize (Hci i Hi). lia.
  - destruct Hs as [Hn Htw].
    destruct (rk_is_fast h) eqn:Ef.
    + eapply satc_weaken; [apply (rk_rshort_hit _ x h 64 El (rk_is_fast_lt h Ef))|].
      cbn beta. change (64 / 2 + 6) with 38. intros r c [Hc Hci]. unfold K_rfind. split; [lia|].
      intros i Hi. specialize (Hci i Hi). lia.
    + eapply satc_weaken; [apply (tw_rfind_hit x h tw Htw)|].
      cbn beta. intros r c [Hc Hci]. unfold K_rfind. split; [lia|].
      intros i Hi. specialize (Hci i Hi). lia.
Qed.

End FindHit.

Print Assumptions rk_find_hit.
Print Assumptions rk_rfind_hit.
Print Assumptions pp_find_hit.
Print Assumptions pw_find_hit.
Print Assumptions tw_find_hit.
Print Assumptions tw_find_hit_pre_large.
Print Assumptions tw_find_hit_pre_small_weak.
Print Assumptions tw_find_hit_pre_small.
Print Assumptions tw_rfind_hit.
Print Assumptions searcher_find_hit.
Print Assumptions rsearcher_rfind_hit.
