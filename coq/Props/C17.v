(* C17  Searching performs no heap allocation.
   The model's event alphabet contains Alloc; Spec.load_ok rejects it, so every
   `satq (load_ok ..)` theorem also says that the trace contains no Alloc.  The
   model emits Alloc only in shiftor::Finder::new.  Caveat (stated in DESIGN.md):
   a model allocates only where its author wrote an Alloc; what the compiled code
   allocates is decided by the allocation probe of the correspondence run. *)
From Memchr Require Import Spec SpecProofs Params
  Mem.Wrappers Mem.WrappersProofs Mem.Iter Mem.IterProofs
  Sub.ShiftOr Sub.ShiftOrProofs Sub.Prefilter Sub.TwoWay Sub.TwoWayCert Sub.TwoWayTier2 Sub.TwoWayTier2Rev
  Sub.Searcher Sub.SearcherProofs Sub.FindIter Sub.FindIterProofs.

Example C17_saturating_multiply : pre_mul_saturating = true.
Proof. reflexivity. Qed.

Lemma load_ok_not_alloc a lh an ln e : load_ok a lh an ln e -> match e with Alloc => False | _ => True end.
Proof. destruct e; cbn; tauto. Qed.

Lemma loads_ok_no_allocs a lh an ln t : Forall (load_ok a lh an ln) t -> no_allocs t.
Proof. intros H. eapply Forall_impl; [|exact H]. intros e. apply load_ok_not_alloc. Qed.

Lemma fwd_cert ar x : tw_reach_fwd ar x = true -> tw_cert_fwd_of x = true.
Proof.
  intros H. apply tw_cert_fwd_all. unfold tw_reach_fwd in H. apply andb_true_iff in H as [H _].
  apply Nat.leb_le in H. lia.
Qed.

(* memchr family and its iterators *)
Theorem C17_memchr : forall (b : backend) ns a h, ns <> [] -> bytes_ok h -> bytes_ok ns ->
  no_allocs (snd (backend_find ns a h b)) /\ no_allocs (snd (backend_rfind ns a h b)).
Proof.
  intros b ns a h H1 H2 H3. split.
  - destruct (satq_fst _ _ _ (backend_find_sat ns a h H1 H2 H3 b)) as (v & _ & _ & Ht). eapply loads_ok_no_allocs; exact Ht.
  - destruct (satq_fst _ _ _ (backend_rfind_sat ns a h H1 H2 H3 b)) as (v & _ & _ & Ht). eapply loads_ok_no_allocs; exact Ht.
Qed.

Theorem C17_memchr_iter : forall (b : backend) ns a h ops,
  ns <> [] -> bytes_ok h -> bytes_ok ns -> (In OCount ops -> length ns = 1) ->
  no_allocs (snd (iter_run b ns a h ops (iter_new h))).
Proof.
  intros b ns a h ops H1 H2 H3 H4.
  destruct (satq_fst _ _ _ (iter_run_sat b ns a h H1 H2 H3 ops (iter_new h) (inv_new h) H4)) as (v & _ & _ & Ht).
  eapply loads_ok_no_allocs; exact Ht.
Qed.

(* constructing a finder from a (borrowed) needle and searching: every strategy of the meta searcher *)
Theorem C17_finder_new_and_find : forall cfg rank ar a h x, bytes_ok x -> bytes_ok h ->
  no_allocs (snd (f <- finder_new cfg rank ar x;; finder_find ar f a h)).
Proof.
  intros cfg rank ar a h x Hx Hh.
  destruct (satq_fst _ _ _ (finder_find_correct ar x h a 0 Hx Hh cfg rank (fwd_cert ar x) C17_saturating_multiply)) as (v & _ & _ & Ht).
  eapply loads_ok_no_allocs; exact Ht.
Qed.

Theorem C17_memmem_find : forall ar a h x, bytes_ok x -> bytes_ok h -> no_allocs (snd (memmem_find ar a h x)).
Proof.
  intros ar a h x Hx Hh.
  destruct (satq_fst _ _ _ (memmem_find_correct ar x h a 0 Hx Hh (fwd_cert ar x) C17_saturating_multiply)) as (v & _ & _ & Ht).
  eapply loads_ok_no_allocs; exact Ht.
Qed.

Theorem C17_find_iter : forall cfg rank ar x h a f k, bytes_ok x -> bytes_ok h ->
  fst (finder_new cfg rank ar x) = Ok f -> no_allocs (snd (fiter_run ar f a h k fiter_new)).
Proof.
  intros cfg rank ar x h a f k Hx Hh Hf.
  destruct (satq_fst _ _ _ (fiter_run_sat cfg rank ar x h a 0 f Hx Hh Hf (fwd_cert ar x) C17_saturating_multiply k fiter_new
                              (length h + 2) ltac:(cbn; lia))) as (outs & _ & _ & Ht).
  eapply loads_ok_no_allocs; exact Ht.
Qed.

(* reverse direction (under the reverse certificate until its Tier 2 is in place) *)
Theorem C17_memmem_rfind_partial : forall ar a h x, bytes_ok x -> bytes_ok h ->
  (tw_reach_rev x = true -> tw_cert_rev_of x = true) -> no_allocs (snd (memmem_rfind ar a h x)).
Proof.
  intros ar a h x Hx Hh Hc.
  destruct (satq_fst _ _ _ (memmem_rfind_correct ar x h a 0 Hx Hh Hc)) as (v & _ & _ & Ht).
  eapply loads_ok_no_allocs; exact Ht.
Qed.

(* the Shift-Or searcher allocates exactly once, in its constructor, and never while searching *)
Theorem C17_shiftor : forall x h f, bytes_ok x -> bytes_ok h ->
  (length x <= 15 -> exists f, so_new x = (Ok (Some f), [Alloc])) /\
  (so_new x = (Ok (Some f), [Alloc]) -> no_allocs (snd (so_find f h))).
Proof.
  intros x h f Hx Hh. split.
  - intros Hl. destruct (so_new_spec x Hx) as [H1 _]. destruct (H1 Hl) as (f' & Hf' & _). exists f'. exact Hf'.
  - intros Hf. destruct (satq_fst _ _ _ (so_find_correct x h f Hx Hh Hf)) as (v & _ & _ & Ht).
    eapply Forall_impl; [|exact Ht]. intros e. destruct e; tauto.
Qed.

Lemma rev_cert_always : forall x, tw_reach_rev x = true -> tw_cert_rev_of x = true.
Proof. intros x H. apply tw_cert_rev_all. unfold tw_reach_rev in H. apply Nat.leb_le in H. lia. Qed.

Theorem C17_memmem_rfind : forall ar a h x, bytes_ok x -> bytes_ok h -> no_allocs (snd (memmem_rfind ar a h x)).
Proof. intros ar a h x Hx Hh. apply C17_memmem_rfind_partial; [exact Hx|exact Hh|apply rev_cert_always]. Qed.

Print Assumptions C17_memmem_rfind.
Print Assumptions C17_memchr.
Print Assumptions C17_memchr_iter.
Print Assumptions C17_finder_new_and_find.
Print Assumptions C17_memmem_find.
Print Assumptions C17_find_iter.
Print Assumptions C17_memmem_rfind_partial.
Print Assumptions C17_shiftor.
