(* C19  Pair selection yields valid, distinct needle offsets for every ranker. *)
From Memchr Require Import Spec Params Sub.Pair Sub.PairProofs.

(* side conditions on the generated constants *)
Example C19_params_ok : (pair_scan_cap <= 255)%N /\ 2 <= pair_scan_skip.
Proof. split; [vm_compute; discriminate | vm_compute; repeat constructor]. Qed.

Theorem C19_with_ranker : forall (rank : N -> N) (x : list N),
  (length x <= 1 -> fst (pair_with_ranker rank x) = Ok None) /\
  (2 <= length x ->
   exists i1 i2, fst (pair_with_ranker rank x) = Ok (Some (i1, i2)) /\
     i1 <> i2 /\ i1 < length x /\ i2 < length x /\ i1 <= 254 /\ i2 <= 254).
Proof.
  intros rank x. destruct C19_params_ok as [Hc Hs].
  destruct (pair_with_ranker_spec rank x ltac:(lia) Hs) as [H1 H2].
  split; [exact H1|]. intros H. destruct (H2 H) as (i1 & i2 & Hr & A & B & C & D & E).
  exists i1, i2. repeat split; try assumption; lia.
Qed.

Theorem C19_with_indices : forall (x : list N) (i1 i2 : nat),
  (exists p, pair_with_indices x i1 i2 = Some p) <-> i1 <> i2 /\ i1 < length x /\ i2 < length x.
Proof. exact pair_with_indices_spec. Qed.

Theorem C19_with_indices_value : forall x i1 i2 p,
  pair_with_indices x i1 i2 = Some p -> p = (i1, i2).
Proof. exact pair_with_indices_value. Qed.

(* non-vacuity: a constant ranker on a long single-letter needle *)
Example C19_example :
  fst (pair_with_ranker (fun _ => 0%N) (repeat 7%N 300)) = Ok (Some (0, 1)) /\
  fst (pair_with_ranker default_rank [120; 121; 122; 0; 5]%N) = Ok (Some (4, 3)).
Proof. split; vm_compute; reflexivity. Qed.

Print Assumptions C19_with_ranker.
Print Assumptions C19_with_indices.
Print Assumptions C19_with_indices_value.
