(* C07  Byte counting equals the number of matching bytes. *)
From Memchr Require Import Spec Params Vec.MaskLaws Mem.Wrappers Mem.GenericProofs Mem.WrappersProofs Mem.Iter Mem.IterProofs.

Definition bytes_ok (l : list N) : Prop := Forall (fun x => (x < 256)%N) l.

Theorem C07_generic : forall R B U al ps a h,
  MaskLaws R B -> 0 < B -> 0 < U -> B <= length h ->
  fst (gen_count R B U al ps a h) = Ok (count_p (pred1 ps) h) /\
  loads_ok a (length h) 0 0 (snd (gen_count R B U al ps a h)).
Proof.
  intros R B U al ps a h HL HB HU Hle.
  destruct (satq_fst _ _ _ (gen_count_sat R B U al ps a h HL HB HU Hle)) as (v & Hv & -> & Ht).
  split; assumption.
Qed.

Theorem C07_backend : forall (b : backend) n a h,
  bytes_ok h -> bytes_ok [n] ->
  fst (backend_count [n] a h b) = Ok (count_p (confirm [n]) h) /\
  loads_ok a (length h) 0 0 (snd (backend_count [n] a h b)).
Proof.
  intros b n a h Hh Hn.
  destruct (satq_fst _ _ _ (backend_count_sat [n] a h ltac:(discriminate) b eq_refl)) as (v & Hv & -> & Ht).
  split; assumption.
Qed.

(* count_p is the number of positions whose byte matches *)
Theorem C07_spec : forall (p : N -> bool) h, count_p p h = length (filter p h).
Proof. intros p h. induction h as [|x h IH]; cbn; [reflexivity|]. destruct (p x); cbn; lia. Qed.

(* count() on an iterator in any reachable, partially consumed state returns the
   number of matches not yet yielded (the length of the remaining queue) *)
Theorem C07_iter_count : forall (b : backend) n a h it,
  bytes_ok h -> bytes_ok [n] -> inv h it ->
  fst (iter_count b [n] a h it) = Ok (length (absw [n] h it)) /\
  loads_ok a (length h) 0 0 (snd (iter_count b [n] a h it)).
Proof.
  intros b n a h it Hh Hn Hi.
  destruct (satq_fst _ _ _ (iter_count_sat b [n] a h ltac:(discriminate) it Hi eq_refl)) as (v & Hv & -> & Ht).
  split; assumption.
Qed.

(* ... and every state a history of next/next_back calls reaches satisfies inv: C06_step, C06_step_back *)

Example C07_example :
  fst (backend_count [97]%N 5 (repeat 97%N 100) BAvx2) = Ok 100 /\
  fst (backend_count [97]%N 5 (repeat 97%N 100) BNeon) = Ok 100.
Proof. vm_compute. split; reflexivity. Qed.

(* raw-pointer form count_raw(start, end): 0 when start >= end, else the number of matches inside [so, eo) *)
Theorem C07_raw : forall (b : backend) n a h so eo,
  bytes_ok h -> (n < 256)%N -> eo <= length h ->
  fst (backend_count_raw [n] a h so eo b)
    = Ok (if eo <=? so then 0 else count_p (confirm [n]) (raw_range h so eo)) /\
  loads_ok (a + so) (eo - so) 0 0 (snd (backend_count_raw [n] a h so eo b)).
Proof.
  intros b n a h so eo Hh Hn He.
  assert (bytes_ok [n]) as Hns by (constructor; [exact Hn|constructor]).
  destruct (satq_fst _ _ _ (backend_count_raw_sat [n] a h so eo ltac:(discriminate) He b eq_refl)) as (v & Hv & -> & Ht).
  split; assumption.
Qed.

Print Assumptions C07_generic.
Print Assumptions C07_backend.
Print Assumptions C07_spec.
Print Assumptions C07_iter_count.
Print Assumptions C07_raw.
