(* C03  Forward substring search returns exactly the leftmost occurrence. *)
From Memchr Require Import Spec SpecProofs Params Sub.TwoWay Sub.TwoWayCert Sub.Searcher Sub.SearcherProofs Sub.RabinKarp Sub.TwoWayTier2.

(* side conditions on generated constants *)
Example C03_saturating_multiply : pre_mul_saturating = true.
Proof. reflexivity. Qed.

(* what "leftmost occurrence" means *)
Theorem C03_spec_some : forall x h i,
  find_spec x h = Some i <-> occurs_at x h i = true /\ forall j, j < i -> occurs_at x h j = false.
Proof. exact find_spec_some. Qed.
Theorem C03_spec_none : forall x h, find_spec x h = None <-> forall j, occurs_at x h j = false.
Proof. exact find_spec_none. Qed.
Theorem C03_spec_occurs : forall x h i,
  occurs_at x h i = true <-> i + length x <= length h /\ slice h i (length x) = x.
Proof. exact occurs_at_eq. Qed.
Theorem C03_empty_needle : forall h, find_spec [] h = Some 0.
Proof. exact find_spec_empty. Qed.

(* memmem::find, for every architecture / CPU detection outcome, haystack and needle.
   Tier 1: needles that reach Two-Way (tw_reach_fwd: 2 bytes or more and not owned by the
   packed-pair searcher: > 32 bytes on vector targets) carry the decidable certificate
   tw_cert_fwd_of, evaluated on the modelled preprocessing of that needle. *)
Theorem C03_memmem_find_partial : forall ar a an h x,
  bytes_ok x -> bytes_ok h ->
  (tw_reach_fwd ar x = true -> tw_cert_fwd_of x = true) ->
  fst (memmem_find ar a h x) = Ok (find_spec x h) /\
  loads_ok a (length h) an (length x) (snd (memmem_find ar a h x)).
Proof.
  intros ar a an h x Hx Hh Hc.
  destruct (satq_fst _ _ _ (memmem_find_correct ar x h a an Hx Hh Hc C03_saturating_multiply)) as (v & Hv & -> & Ht).
  split; assumption.
Qed.


(* unconditional already: needles of at most 1 byte everywhere, and of at most 32 bytes on every vector target *)
Theorem C03_memmem_find_short_needles : forall ar a h x,
  bytes_ok x -> bytes_ok h -> tw_reach_fwd ar x = false ->
  fst (memmem_find ar a h x) = Ok (find_spec x h).
Proof.
  intros ar a h x Hx Hh Hr.
  apply (C03_memmem_find_partial ar a 0 h x Hx Hh). intros E. congruence.
Qed.

(* Finder::find / FinderBuilder: every prefilter setting and EVERY ranker function *)
Theorem C03_finder_partial : forall cfg (rank : N -> N) ar a h x,
  bytes_ok x -> bytes_ok h ->
  (tw_reach_fwd ar x = true -> tw_cert_fwd_of x = true) ->
  fst (f <- finder_new cfg rank ar x;; finder_find ar f a h) = Ok (find_spec x h).
Proof.
  intros cfg rank ar a h x Hx Hh Hc.
  destruct (satq_fst _ _ _ (finder_find_correct ar x h a 0 Hx Hh cfg rank Hc C03_saturating_multiply)) as (v & Hv & -> & _).
  exact Hv.
Qed.

(* bounded sweep (labelled as a sweep, not as the theorem): the certificate holds for every
   needle over a 3-letter alphabet up to length 7 *)
Fixpoint words3 (n : nat) : list (list N) :=
  match n with
  | 0 => [[]]
  | S n' => flat_map (fun w => [1 :: w; 2 :: w; 3 :: w]%N) (words3 n')
  end.
Example C03_cert_sweep :
  forallb (fun n => forallb tw_cert_fwd_of (words3 n)) [1;2;3;4;5;6;7] = true.
Proof. vm_compute. reflexivity. Qed.

(* non-vacuity: a needle longer than 32 bytes (Two-Way + prefilter) in a haystack below the vector minimum *)
Example C03_example :
  tw_reach_fwd (AX86 HasAvx2) (repeat 7%N 20 ++ repeat 8%N 20) = true /\
  tw_cert_fwd_of (repeat 7%N 20 ++ repeat 8%N 20) = true /\
  fst (memmem_find (AX86 HasAvx2) 5 (repeat 9%N 30 ++ repeat 7%N 20 ++ repeat 8%N 20) (repeat 7%N 20 ++ repeat 8%N 20)) = Ok (Some 30).
Proof. vm_compute. repeat split. Qed.

(* Tier 2: the certificate holds for every non-empty needle (the preprocessing computes the two
   maximal suffixes: Sub/MaxSuffixProofs.v; critical factorisation theorem: Sub/CritFact.v), so
   the hypothesis of the _partial theorems disappears *)
Lemma C03_cert_always : forall ar x, tw_reach_fwd ar x = true -> tw_cert_fwd_of x = true.
Proof.
  intros ar x H. apply tw_cert_fwd_all. unfold tw_reach_fwd in H. apply andb_true_iff in H as [H _].
  apply Nat.leb_le in H. lia.
Qed.

(* memmem::find: EVERY needle, haystack, architecture / CPU detection outcome, start address *)
Theorem C03_memmem_find : forall ar a an h x,
  bytes_ok x -> bytes_ok h ->
  fst (memmem_find ar a h x) = Ok (find_spec x h) /\
  loads_ok a (length h) an (length x) (snd (memmem_find ar a h x)).
Proof. intros ar a an h x Hx Hh. apply C03_memmem_find_partial; [exact Hx|exact Hh|apply C03_cert_always]. Qed.

(* Finder::find / FinderBuilder: every prefilter setting and EVERY ranker function *)
Theorem C03_finder : forall cfg (rank : N -> N) ar a h x,
  bytes_ok x -> bytes_ok h ->
  fst (f <- finder_new cfg rank ar x;; finder_find ar f a h) = Ok (find_spec x h).
Proof. intros cfg rank ar a h x Hx Hh. apply C03_finder_partial; [exact Hx|exact Hh|apply C03_cert_always]. Qed.

Print Assumptions C03_memmem_find.
Print Assumptions C03_finder.
Print Assumptions C03_memmem_find_partial.
Print Assumptions C03_memmem_find_short_needles.
Print Assumptions C03_finder_partial.
Print Assumptions C03_spec_some.
Print Assumptions C03_spec_none.
Print Assumptions C03_spec_occurs.
Print Assumptions C03_empty_needle.
