(* C11  Candidate prefilters never skip a real match. *)
From Memchr Require Import Spec SpecProofs Params Sub.PackedPair Sub.PackedPairProofs.

(* the vector prefilters (SSE2, AVX2 with its SSE2 route, NEON, simd128), for every
   needle, every valid pair (index1 > index2 and offsets up to 255 included) and every
   haystack of at least min_haystack_len bytes: a candidate is no later than the first
   occurrence and has both pair bytes at their offsets; None only if there is no occurrence *)
Theorem C11_vector_prefilter : forall isa x i1 i2 w h a an,
  pw_new isa x i1 i2 = Ok w -> pw_min w <= length h ->
  exists r, fst (pw_find_prefilter w h) = Ok r /\
    match r with
    | Some c => pair_at (pw_small w) h c /\ (forall i, occurs_at x h i = true -> c <= i)
    | None => forall i, occurs_at x h i = false
    end /\
    loads_ok a (length h) an (length x) (snd (pw_find_prefilter w h)).
Proof.
  intros isa x i1 i2 w h a an Hw Hm.
  destruct (satq_fst _ _ _ (pw_prefilter_correct isa x i1 i2 w h a an Hw Hm)) as (r & Hr & HP & Ht).
  exists r. split; [exact Hr|split; [exact HP|exact Ht]].
Qed.

(* the generic routine, for any vector width and mask representation obeying the laws *)
Theorem C11_generic_prefilter : forall R B, MaskLaws R B -> 0 < B ->
  forall x i1 i2 f h,
  pp_new B x i1 i2 = Ok f -> pp_min f <= length h ->
  exists r, fst (pp_find_prefilter R B f h) = Ok r /\
    match r with
    | Some c => pair_at f h c /\ (forall i, occurs_at x h i = true -> c <= i)
    | None => forall i, occurs_at x h i = false
    end.
Proof.
  intros R B HL HB x i1 i2 f h Hf Hm.
  destruct (satq_fst _ _ _ (pp_prefilter_correct R B HL HB x i1 i2 f h 0 0 Hf Hm)) as (r & Hr & HP & _).
  exists r. split; assumption.
Qed.

(* non-vacuity: index1 > index2, the occurrence lies in the last, overlapping chunk *)
Example C11_example :
  exists w, pw_new PSse2 [1;2;3;4;5]%N 4 1 = Ok w /\
            fst (pw_find_prefilter w (repeat 9%N 17 ++ [1;2;3;4;5]%N)) = Ok (Some 17).
Proof. eexists. split; [reflexivity|]. vm_compute. reflexivity. Qed.

Print Assumptions C11_vector_prefilter.
Print Assumptions C11_generic_prefilter.
