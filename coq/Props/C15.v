(* C15  Concurrent use gives the same answers as sequential use.
   What is modelled: the dispatch cell of unsafe_ifunc! under arbitrary
   interleavings of its atomic steps, with loads allowed to observe any value
   stored so far.  What the model cannot exhibit (and is therefore not proved):
   data races on non-atomic memory, torn reads, `unsafe impl Send/Sync for Iter`.
   Finders and iterators are immutable values in the model and the per-search
   prefilter state is created inside find: for them "every call returns what it
   would in isolation" is C16's theorem. *)
From Memchr Require Import Spec Params Mem.Wrappers Mem.WrappersProofs Conc.Dispatch Conc.DispatchProofs.

(* any number of threads, any list of calls per thread, any schedule, any observed values, any CPU:
   at every point each thread has received, for the calls it has completed, exactly the results
   those calls return in isolation *)
Theorem C15_dispatch : forall (cpu_ : cpu) (sched : list (nat * nat)) (callss : list (list call)),
  Forall (Forall call_ok) callss ->
  all2 tinv callss (snd (run cpu_ sched [Detect] (map fresh callss))).
Proof. intros cpu_ sched callss H. apply run_isolated. apply all2_fresh. exact H. Qed.

Theorem C15_finished_thread : forall calls t,
  tinv calls t -> pending t = [] -> results t = map isolated calls.
Proof. exact finished_results. Qed.

(* the racing first calls all install the same implementation *)
Theorem C15_single_choice : forall cpu_ sched ts,
  store_ok cpu_ (fst (run cpu_ sched [Detect] ts)).
Proof. intros cpu_ sched ts. apply run_store_ok. constructor; [left; reflexivity|constructor]. Qed.

(* the isolated result is the specification *)
Theorem C15_isolated_meaning : forall c,
  isolated c = if c_rev c then Ok (last_idx (confirm (c_ns c)) (c_h c)) else Ok (first_idx (confirm (c_ns c)) (c_h c)).
Proof. reflexivity. Qed.

(* non-vacuity: two threads race through detection; a stale load observes `detect` after the other thread stored *)
Example C15_example :
  let c1 := {| c_ns := [97]%N; c_a := 3; c_h := [120; 97; 120]%N; c_rev := false |} in
  let c2 := {| c_ns := [97]%N; c_a := 0; c_h := [97; 120; 97]%N; c_rev := true |} in
  map results (snd (run Sse2Only [(0,0); (1,0); (0,0); (1,5); (1,0); (0,0); (1,0); (1,0); (1,0); (1,0)]
                        [Detect] [fresh [c1]; fresh [c2; c1]]))
  = [[Ok (Some 1)]; [Ok (Some 2); Ok (Some 1)]].
Proof. vm_compute. reflexivity. Qed.

Print Assumptions C15_dispatch.
Print Assumptions C15_finished_thread.
Print Assumptions C15_single_choice.
Print Assumptions C15_isolated_meaning.
