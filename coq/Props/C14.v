(* C14  No panic, abort or arithmetic overflow on any input in the documented
   domain.  In the model every slice index, unsigned subtraction, fixed-width
   multiplication, assert!/debug_assert! and Option::unwrap is a possible
   `Panic`; the theorems below say the result is `Ok` (never `Panic`). *)
From Memchr Require Import Spec SpecProofs Params
  Mem.Wrappers Mem.WrappersProofs Mem.Iter Mem.IterProofs
  Sub.IsEqual Sub.Pair Sub.PairProofs Sub.RabinKarp Sub.RabinKarpProofs Sub.ShiftOr Sub.ShiftOrProofs
  Sub.PackedPair Sub.PackedPairProofs Sub.Prefilter Sub.TwoWay Sub.TwoWayCert Sub.TwoWayPreProofs
  Sub.TwoWayFwdProofs Sub.TwoWayRevProofs Sub.TwoWayTier2 Sub.TwoWayTier2Rev Sub.Searcher Sub.SearcherProofs.

Definition never_panics {A} (m : M A) : Prop := exists v, fst m = Ok v.

(* the u32 product MIN_SKIP_BYTES * skips() in PrefilterState::is_effective saturates
   (regenerated from the source).  With a plain multiplication the obligation below
   is false: after 2^29 prefilter calls the product overflows. *)
Example C14_saturating_multiply : pre_mul_saturating = true.
Proof. reflexivity. Qed.

Theorem C14_prestate_no_overflow : forall st : prestate, exists r, pre_is_effective st = Ok r.
Proof.
  intros st. unfold pre_is_effective. rewrite C14_saturating_multiply.
  destruct (ps_skips st =? 0)%N; [eexists; reflexivity|].
  destruct (pre_skips st <? pre_min_skips)%N; [eexists; reflexivity|].
  destruct (_ <=? ps_skipped st)%N; eexists; reflexivity.
Qed.

(* top-level functions and finders: every needle, haystack, configuration, ranker, CPU *)
Theorem C14_memmem_find : forall ar a h x, bytes_ok x -> bytes_ok h ->
  (tw_reach_fwd ar x = true -> tw_cert_fwd_of x = true) -> never_panics (memmem_find ar a h x).
Proof.
  intros ar a h x Hx Hh Hc.
  destruct (satq_fst _ _ _ (memmem_find_correct ar x h a 0 Hx Hh Hc C14_saturating_multiply)) as (v & Hv & _).
  exists v. exact Hv.
Qed.

Theorem C14_memmem_rfind : forall ar a h x, bytes_ok x -> bytes_ok h ->
  (tw_reach_rev x = true -> tw_cert_rev_of x = true) -> never_panics (memmem_rfind ar a h x).
Proof.
  intros ar a h x Hx Hh Hc.
  destruct (satq_fst _ _ _ (memmem_rfind_correct ar x h a 0 Hx Hh Hc)) as (v & Hv & _). exists v. exact Hv.
Qed.

Theorem C14_finder : forall cfg rank ar a h x, bytes_ok x -> bytes_ok h ->
  (tw_reach_fwd ar x = true -> tw_cert_fwd_of x = true) ->
  never_panics (f <- finder_new cfg rank ar x;; finder_find ar f a h).
Proof.
  intros cfg rank ar a h x Hx Hh Hc.
  destruct (satq_fst _ _ _ (finder_find_correct ar x h a 0 Hx Hh cfg rank Hc C14_saturating_multiply)) as (v & Hv & _).
  exists v. exact Hv.
Qed.

(* constructors never panic, for EVERY needle, ranker and configuration (no certificate needed) *)
Theorem C14_constructors : forall cfg rank ar x,
  never_panics (searcher_new cfg rank ar x) /\ never_panics (rsearcher_new x) /\
  never_panics (tw_new x) /\ never_panics (tw_new_rev x) /\ never_panics (pair_with_ranker rank x).
Proof.
  intros cfg rank ar x.
  destruct (satq_fst _ _ _ (searcher_new_sat cfg rank ar x)) as (s & Hs & _).
  destruct (satq_fst _ _ _ (rsearcher_new_sat x)) as (r & Hr & _).
  destruct (satq_fst _ _ _ (tw_new_ok x)) as (t1 & Ht1 & _).
  destruct (satq_fst _ _ _ (tw_new_rev_ok x)) as (t2 & Ht2 & _).
  destruct pair_params_ok as [Hc Hk].
  destruct (pair_with_ranker_spec rank x Hc Hk) as [H1 H2].
  repeat split; try (eexists; eassumption).
  destruct (le_lt_dec (length x) 1) as [Hl|Hl].
  - eexists. apply H1. exact Hl.
  - destruct (H2 ltac:(lia)) as (i1 & i2 & Hp & _). eexists. exact Hp.
Qed.

(* byte search and its iterators *)
Theorem C14_memchr : forall (b : backend) ns a h, ns <> [] -> bytes_ok h -> bytes_ok ns ->
  never_panics (backend_find ns a h b) /\ never_panics (backend_rfind ns a h b).
Proof.
  intros b ns a h H1 H2 H3. split.
  - destruct (satq_fst _ _ _ (backend_find_sat ns a h H1 H2 H3 b)) as (v & Hv & _). exists v. exact Hv.
  - destruct (satq_fst _ _ _ (backend_rfind_sat ns a h H1 H2 H3 b)) as (v & Hv & _). exists v. exact Hv.
Qed.

Theorem C14_iter : forall (b : backend) ns a h ops,
  ns <> [] -> bytes_ok h -> bytes_ok ns -> (In OCount ops -> length ns = 1) ->
  never_panics (iter_run b ns a h ops (iter_new h)).
Proof.
  intros b ns a h ops H1 H2 H3 H4.
  destruct (satq_fst _ _ _ (iter_run_sat b ns a h H1 H2 H3 ops (iter_new h) (inv_new h) H4)) as (v & Hv & _).
  exists v. exact Hv.
Qed.

(* building blocks on their documented domains *)
Theorem C14_rabinkarp : forall f x h, never_panics (rk_find f x h) /\ never_panics (rk_rfind f x h).
Proof.
  intros f x h. split.
  - destruct (satq_fst _ _ _ (rk_find_safe f x h)) as (v & Hv & _). exists v. exact Hv.
  - destruct (satq_fst _ _ _ (rk_rfind_safe f x h)) as (v & Hv & _). exists v. exact Hv.
Qed.

Theorem C14_twoway : forall x h tw a st, bytes_ok h ->
  fst (tw_new x) = Ok tw -> tw_cert_fwd x tw = true -> never_panics (tw_find tw None a h x st).
Proof.
  intros x h tw a st Hh Htw Hc.
  destruct (satq_fst _ _ _ (tw_new_ok x)) as (tw' & Htw' & (Hbs & _) & _).
  rewrite Htw in Htw'. injection Htw' as <-.
  destruct (satq_fst _ _ _ (tw_find_correct x h tw None a 0 st Hc Hbs ltac:(discriminate) Hh)) as (v & Hv & _).
  exists v. exact Hv.
Qed.

Theorem C14_twoway_rev : forall x h tw,
  fst (tw_new_rev x) = Ok tw -> tw_cert_rev x tw = true -> never_panics (tw_rfind tw h x).
Proof.
  intros x h tw Htw Hc.
  destruct (satq_fst _ _ _ (tw_new_rev_ok x)) as (tw' & Htw' & (Hbs & _) & _).
  rewrite Htw in Htw'. injection Htw' as <-.
  destruct (satq_fst _ _ _ (tw_rfind_correct x h tw Hc Hbs)) as (v & Hv & _). exists v. exact Hv.
Qed.

(* the only documented panic: packed-pair find/find_prefilter below min_haystack_len, exactly then *)
Theorem C14_packedpair_panic_exact : forall isa x i1 i2 w h,
  pw_new isa x i1 i2 = Ok w ->
  (length h < pw_min w -> exists t, fst (pw_find w h x) = Panic (AssertFail t)) /\
  (pw_min w <= length h -> never_panics (pw_find w h x)).
Proof.
  intros isa x i1 i2 w h Hw. split.
  - intros Hl. exact (pw_find_panics isa x i1 i2 w h x Hw Hl).
  - intros Hm. destruct (satq_fst _ _ _ (pw_find_correct isa x i1 i2 w h 0 0 Hw Hm)) as (v & Hv & _). exists v. exact Hv.
Qed.

Lemma fwd_cert_always : forall ar x, tw_reach_fwd ar x = true -> tw_cert_fwd_of x = true.
Proof.
  intros ar x H. apply tw_cert_fwd_all. unfold tw_reach_fwd in H. apply andb_true_iff in H as [H _].
  apply Nat.leb_le in H. lia.
Qed.
Lemma rev_cert_always : forall x, tw_reach_rev x = true -> tw_cert_rev_of x = true.
Proof. intros x H. apply tw_cert_rev_all. unfold tw_reach_rev in H. apply Nat.leb_le in H. lia. Qed.

(* unconditional forms (Tier 2): every needle *)
Theorem C14_memmem : forall ar a h x, bytes_ok x -> bytes_ok h ->
  never_panics (memmem_find ar a h x) /\ never_panics (memmem_rfind ar a h x).
Proof.
  intros ar a h x Hx Hh. split.
  - apply C14_memmem_find; [exact Hx|exact Hh|apply fwd_cert_always].
  - apply C14_memmem_rfind; [exact Hx|exact Hh|apply rev_cert_always].
Qed.

Theorem C14_finder_all : forall cfg rank ar a h x, bytes_ok x -> bytes_ok h ->
  never_panics (f <- finder_new cfg rank ar x;; finder_find ar f a h).
Proof. intros cfg rank ar a h x Hx Hh. apply C14_finder; [exact Hx|exact Hh|apply fwd_cert_always]. Qed.

Theorem C14_twoway_all : forall x h tw a st, bytes_ok h -> 1 <= length x ->
  fst (tw_new x) = Ok tw -> never_panics (tw_find tw None a h x st).
Proof.
  intros x h tw a st Hh Hn Htw. apply (C14_twoway x h tw a st Hh Htw).
  pose proof (tw_cert_fwd_all x Hn) as Hc. unfold tw_cert_fwd_of in Hc. rewrite Htw in Hc. exact Hc.
Qed.

Theorem C14_twoway_rev_all : forall x h tw, 1 <= length x ->
  fst (tw_new_rev x) = Ok tw -> never_panics (tw_rfind tw h x).
Proof.
  intros x h tw Hn Htw. apply (C14_twoway_rev x h tw Htw).
  pose proof (tw_cert_rev_all x Hn) as Hc. unfold tw_cert_rev_of in Hc. rewrite Htw in Hc. exact Hc.
Qed.

Print Assumptions C14_memmem.
Print Assumptions C14_finder_all.
Print Assumptions C14_twoway_all.
Print Assumptions C14_twoway_rev_all.
Print Assumptions C14_prestate_no_overflow.
Print Assumptions C14_memmem_find.
Print Assumptions C14_memmem_rfind.
Print Assumptions C14_finder.
Print Assumptions C14_constructors.
Print Assumptions C14_memchr.
Print Assumptions C14_iter.
Print Assumptions C14_rabinkarp.
Print Assumptions C14_twoway.
Print Assumptions C14_twoway_rev.
Print Assumptions C14_packedpair_panic_exact.
