(* C12  Each public substring building block agrees with naive search on its
   documented domain; constructors report unsupported inputs by None. *)
From Memchr Require Import Spec SpecProofs Params Sub.IsEqual Sub.RabinKarp Sub.RabinKarpProofs
  Sub.ShiftOr Sub.ShiftOrProofs Sub.Pair Sub.PackedPair Sub.PackedPairProofs
  Sub.Prefilter Sub.TwoWay Sub.TwoWayCert Sub.TwoWayPreProofs Sub.TwoWayFwdProofs Sub.TwoWayRevProofs Sub.TwoWayTier2 Sub.TwoWayTier2Rev.

Definition bytes_ok (l : list N) : Prop := Forall (fun b => (b < 256)%N) l.

(* what the specifications mean *)
Theorem C12_find_spec_some : forall x h i,
  find_spec x h = Some i <-> occurs_at x h i = true /\ forall j, j < i -> occurs_at x h j = false.
Proof. exact find_spec_some. Qed.
Theorem C12_find_spec_none : forall x h, find_spec x h = None <-> forall j, occurs_at x h j = false.
Proof. exact find_spec_none. Qed.
Theorem C12_rfind_spec_some : forall x h i,
  rfind_spec x h = Some i <-> occurs_at x h i = true /\ forall j, i < j -> occurs_at x h j = false.
Proof. exact rfind_spec_some. Qed.
Theorem C12_occurs_at : forall x h i,
  occurs_at x h i = true <-> i + length x <= length h /\ slice h i (length x) = x.
Proof. exact occurs_at_eq. Qed.

(* Rabin-Karp, forward and reverse: every needle, every haystack *)
Theorem C12_rabinkarp_find : forall x h a an,
  fst (rk_find (rk_new x) x h) = Ok (find_spec x h) /\
  loads_ok a (length h) an (length x) (snd (rk_find (rk_new x) x h)).
Proof.
  intros x h a an. destruct (satq_fst _ _ _ (rk_find_correct x h)) as (v & Hv & -> & Ht). split; [exact Hv|].
  eapply Forall_impl; [|exact Ht]. intros e He. apply He.
Qed.

Theorem C12_rabinkarp_rfind : forall x h a an,
  fst (rk_rfind (rk_new_rev x) x h) = Ok (rfind_spec x h) /\
  loads_ok a (length h) an (length x) (snd (rk_rfind (rk_new_rev x) x h)).
Proof.
  intros x h a an. destruct (satq_fst _ _ _ (rk_rfind_correct x h)) as (v & Hv & -> & Ht). split; [exact Hv|].
  eapply Forall_impl; [|exact Ht]. intros e He. apply He.
Qed.

(* Shift-Or: supported exactly up to 15 bytes; leftmost occurrence *)
Theorem C12_shiftor_new : forall x, bytes_ok x ->
  (length x <= 15 -> exists f, so_new x = (Ok (Some f), [Alloc]) /\ so_nlen f = length x) /\
  (15 < length x -> so_new x = (Ok None, [])).
Proof. exact so_new_spec. Qed.

Theorem C12_shiftor_find : forall x h f, bytes_ok x -> bytes_ok h ->
  so_new x = (Ok (Some f), [Alloc]) -> fst (so_find f h) = Ok (find_spec x h).
Proof.
  intros x h f Hx Hh Hf. destruct (satq_fst _ _ _ (so_find_correct x h f Hx Hh Hf)) as (v & Hv & -> & _). exact Hv.
Qed.

(* packed pair find on every ISA, for every valid pair, on haystacks of at least
   min_haystack_len bytes; below the minimum it panics (the documented panic) *)
Theorem C12_packedpair_find : forall isa x i1 i2 w h a an,
  pw_new isa x i1 i2 = Ok w -> pw_min w <= length h ->
  fst (pw_find w h x) = Ok (find_spec x h) /\
  loads_ok a (length h) an (length x) (snd (pw_find w h x)).
Proof.
  intros isa x i1 i2 w h a an Hw Hm.
  destruct (satq_fst _ _ _ (pw_find_correct isa x i1 i2 w h a an Hw Hm)) as (v & Hv & -> & Ht). split; assumption.
Qed.

Theorem C12_packedpair_panic_exact : forall isa x i1 i2 w h x',
  pw_new isa x i1 i2 = Ok w -> length h < pw_min w -> exists t, fst (pw_find w h x') = Panic (AssertFail t).
Proof. exact pw_find_panics. Qed.

Theorem C12_packedpair_min : forall isa x i1 i2 w,
  pw_new isa x i1 i2 = Ok w ->
  pw_min w = Nat.max (length x) (Nat.max i1 i2 + (match isa with PAvx2 => sse2_bytes | i => isa_bytes i end)).
Proof. exact pw_min_spec. Qed.

Theorem C12_packedpair_new : forall isa x i1 i2,
  i1 < length x -> i2 < length x -> exists w, pw_new isa x i1 i2 = Ok w.
Proof. exact pw_new_ok. Qed.

(* Two-Way forward and reverse, for EVERY non-empty needle (Tier 2: maximal-suffix algorithm,
   critical factorisation theorem) and every haystack *)
Theorem C12_twoway_find : forall x h a st, bytes_ok h -> 1 <= length x ->
  exists tw, fst (tw_new x) = Ok tw /\ exists r, fst (tw_find tw None a h x st) = Ok r /\ fst r = find_spec x h.
Proof.
  intros x h a st Hh Hn.
  destruct (satq_fst _ _ _ (tw_new_ok x)) as (tw & Htw & (Hbs & _) & _).
  exists tw. split; [exact Htw|].
  pose proof (tw_cert_fwd_all x Hn) as Hc. unfold tw_cert_fwd_of in Hc. rewrite Htw in Hc.
  destruct (satq_fst _ _ _ (tw_find_correct x h tw None a 0 st Hc Hbs ltac:(discriminate) Hh)) as (r & Hr & E & _).
  exists r. split; assumption.
Qed.

Theorem C12_twoway_rfind : forall x h, 1 <= length x ->
  exists tw, fst (tw_new_rev x) = Ok tw /\ fst (tw_rfind tw h x) = Ok (rfind_spec x h).
Proof.
  intros x h Hn.
  destruct (satq_fst _ _ _ (tw_new_rev_ok x)) as (tw & Htw & (Hbs & _) & _).
  exists tw. split; [exact Htw|].
  pose proof (tw_cert_rev_all x Hn) as Hc. unfold tw_cert_rev_of in Hc. rewrite Htw in Hc.
  destruct (satq_fst _ _ _ (tw_rfind_correct x h tw Hc Hbs)) as (r & Hr & -> & _). exact Hr.
Qed.

(* non-vacuity: a hash collision (needles longer than 32 bytes collide with windows differing in their first byte) *)
Example C12_example_rk :
  fst (rk_find (rk_new (repeat 7%N 40)) (repeat 7%N 40) ((9 :: repeat 7%N 39) ++ repeat 7%N 41)%N) = Ok (Some 1).
Proof. vm_compute. reflexivity. Qed.

Print Assumptions C12_twoway_find.
Print Assumptions C12_twoway_rfind.
Print Assumptions C12_rabinkarp_find.
Print Assumptions C12_rabinkarp_rfind.
Print Assumptions C12_shiftor_new.
Print Assumptions C12_shiftor_find.
Print Assumptions C12_packedpair_find.
Print Assumptions C12_packedpair_panic_exact.
Print Assumptions C12_packedpair_min.
Print Assumptions C12_packedpair_new.
Print Assumptions C12_find_spec_some.
Print Assumptions C12_find_spec_none.
Print Assumptions C12_rfind_spec_some.
Print Assumptions C12_occurs_at.
