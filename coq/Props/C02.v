(* C02  Reverse byte search returns exactly the last matching position. *)
From Memchr Require Import Spec Params Vec.MaskLaws Mem.Wrappers Mem.GenericProofs Mem.WrappersProofs.

Definition bytes_ok (l : list N) : Prop := Forall (fun x => (x < 256)%N) l.

Theorem C02_spec_some : forall (p : N -> bool) h i,
  last_idx p h = Some i <->
  i < length h /\ p (nth i h 0%N) = true /\ forall j, i < j -> j < length h -> p (nth j h 0%N) = false.
Proof. intros. apply last_idx_some. Qed.

Theorem C02_spec_none : forall (p : N -> bool) h,
  last_idx p h = None <-> forall j, j < length h -> p (nth j h 0%N) = false.
Proof.
  intros p h. rewrite last_idx_none, Forall_forall. split.
  - intros H j Hj. apply H. apply nth_In. exact Hj.
  - intros H x Hx. destruct (In_nth h x 0%N Hx) as (j & Hj & <-). apply H. exact Hj.
Qed.

Theorem C02_generic : forall R B U al ps a h,
  MaskLaws R B -> 0 < B -> 0 < U -> ps <> [] -> B <= length h ->
  fst (gen_rfind R B U al ps a h) = Ok (last_idx (pany ps) h) /\
  loads_ok a (length h) 0 0 (snd (gen_rfind R B U al ps a h)).
Proof.
  intros R B U al ps a h HL HB HU Hps Hle.
  destruct (satq_fst _ _ _ (gen_rfind_sat R B U al ps a h HL HB HU Hps Hle)) as (v & Hv & -> & Ht).
  split; assumption.
Qed.

Theorem C02_backend : forall (b : backend) ns a h,
  ns <> [] -> bytes_ok h -> bytes_ok ns ->
  fst (backend_rfind ns a h b) = Ok (last_idx (confirm ns) h) /\
  loads_ok a (length h) 0 0 (snd (backend_rfind ns a h b)).
Proof.
  intros b ns a h Hns Hh Hn.
  destruct (satq_fst _ _ _ (backend_rfind_sat ns a h Hns Hh Hn b)) as (v & Hv & -> & Ht).
  split; assumption.
Qed.

Theorem C02_dispatch : forall (c : cpu) ns a h,
  ns <> [] -> bytes_ok h -> bytes_ok ns ->
  fst (backend_rfind ns a h (x86_choice c)) = Ok (last_idx (confirm ns) h).
Proof. intros c ns a h H1 H2 H3. apply (C02_backend (x86_choice c) ns a h H1 H2 H3). Qed.

Theorem C02_empty : forall b ns a, fst (backend_rfind ns a [] b) = Ok None.
Proof. intros b ns a. destruct b; reflexivity. Qed.

(* raw-pointer forms: rfind_raw(start, end); None when start >= end *)
Theorem C02_raw : forall (b : backend) ns a h so eo,
  ns <> [] -> bytes_ok h -> bytes_ok ns -> eo <= length h ->
  fst (backend_rfind_raw ns a h so eo b)
    = Ok (if eo <=? so then None else option_map (fun i => so + i) (last_idx (confirm ns) (raw_range h so eo))) /\
  loads_ok (a + so) (eo - so) 0 0 (snd (backend_rfind_raw ns a h so eo b)).
Proof.
  intros b ns a h so eo Hns Hh Hn He.
  destruct (satq_fst _ _ _ (backend_rfind_raw_sat ns a h so eo Hns Hh Hn He b)) as (v & Hv & -> & Ht).
  split; assumption.
Qed.

(* non-vacuity: unaligned END, last match only in the final overlapping load at the START *)
Example C02_example :
  fst (backend_rfind [255]%N 3 ([120; 255; 120]%N ++ repeat 120%N 70) BAvx2) = Ok (Some 1) /\
  fst (backend_rfind [255]%N 3 ([120; 255; 120]%N ++ repeat 120%N 70) BNeon) = Ok (Some 1) /\
  fst (backend_rfind [255]%N 3 ([120; 255; 120]%N ++ repeat 120%N 70) BSwar) = Ok (Some 1).
Proof. vm_compute. repeat split. Qed.

Print Assumptions C02_generic.
Print Assumptions C02_backend.
Print Assumptions C02_dispatch.
Print Assumptions C02_spec_some.
Print Assumptions C02_spec_none.
Print Assumptions C02_empty.
Print Assumptions C02_raw.
