(* C09  Every backend and build configuration returns identical answers.
   Cargo features and compile-time target features only change what the CPU
   detection reports (the `cpu` / `arch` parameter of the model); every value of
   that parameter gives the specification's answer, hence the same answer. *)
From Memchr Require Import Spec SpecProofs Params
  Mem.Wrappers Mem.WrappersProofs Mem.Iter Mem.IterProofs
  Sub.Prefilter Sub.TwoWay Sub.TwoWayCert Sub.TwoWayTier2 Sub.TwoWayTier2Rev Sub.Searcher Sub.SearcherProofs.

Example C09_saturating_multiply : pre_mul_saturating = true.
Proof. reflexivity. Qed.

Lemma fwd_cert ar x : tw_reach_fwd ar x = true -> tw_cert_fwd_of x = true.
Proof.
  intros H. apply tw_cert_fwd_all. unfold tw_reach_fwd in H. apply andb_true_iff in H as [H _].
  apply Nat.leb_le in H. lia.
Qed.

(* byte search: any two backends (SWAR, SSE2, AVX2, NEON, simd128), any two placements *)
Theorem C09_memchr : forall (b1 b2 : backend) ns a1 a2 h, ns <> [] -> bytes_ok h -> bytes_ok ns ->
  fst (backend_find ns a1 h b1) = fst (backend_find ns a2 h b2) /\
  fst (backend_rfind ns a1 h b1) = fst (backend_rfind ns a2 h b2).
Proof.
  intros b1 b2 ns a1 a2 h H1 H2 H3. split.
  - destruct (satq_fst _ _ _ (backend_find_sat ns a1 h H1 H2 H3 b1)) as (v1 & E1 & -> & _).
    destruct (satq_fst _ _ _ (backend_find_sat ns a2 h H1 H2 H3 b2)) as (v2 & E2 & -> & _). congruence.
  - destruct (satq_fst _ _ _ (backend_rfind_sat ns a1 h H1 H2 H3 b1)) as (v1 & E1 & -> & _).
    destruct (satq_fst _ _ _ (backend_rfind_sat ns a2 h H1 H2 H3 b2)) as (v2 & E2 & -> & _). congruence.
Qed.

Theorem C09_count : forall (b1 b2 : backend) n a1 a2 h,
  fst (backend_count [n] a1 h b1) = fst (backend_count [n] a2 h b2).
Proof.
  intros b1 b2 n a1 a2 h.
  destruct (satq_fst _ _ _ (backend_count_sat [n] a1 h ltac:(discriminate) b1 eq_refl)) as (v1 & E1 & -> & _).
  destruct (satq_fst _ _ _ (backend_count_sat [n] a2 h ltac:(discriminate) b2 eq_refl)) as (v2 & E2 & -> & _). congruence.
Qed.

(* whichever implementation the runtime CPU detection selects *)
Theorem C09_dispatch : forall (c1 c2 : cpu) ns a h, ns <> [] -> bytes_ok h -> bytes_ok ns ->
  fst (backend_find ns a h (x86_choice c1)) = fst (backend_find ns a h (x86_choice c2)).
Proof. intros c1 c2 ns a h H1 H2 H3. apply (C09_memchr (x86_choice c1) (x86_choice c2) ns a a h H1 H2 H3). Qed.

(* iterators: any two backends produce the same outputs for the same history *)
Theorem C09_iter : forall (b1 b2 : backend) ns a1 a2 h ops o1 o2,
  ns <> [] -> bytes_ok h -> bytes_ok ns -> ~ In OCount ops -> ~ In OHint ops ->
  fst (iter_run b1 ns a1 h ops (iter_new h)) = Ok o1 ->
  fst (iter_run b2 ns a2 h ops (iter_new h)) = Ok o2 -> o1 = o2.
Proof.
  intros b1 b2 ns a1 a2 h ops o1 o2 H1 H2 H3 Hc Hh E1 E2.
  destruct (satq_fst _ _ _ (iter_run_sat b1 ns a1 h H1 H2 H3 ops (iter_new h) (inv_new h) ltac:(intros X; contradiction))) as (v1 & F1 & R1 & _).
  destruct (satq_fst _ _ _ (iter_run_sat b2 ns a2 h H1 H2 H3 ops (iter_new h) (inv_new h) ltac:(intros X; contradiction))) as (v2 & F2 & R2 & _).
  rewrite E1 in F1. rewrite E2 in F2. injection F1 as <-. injection F2 as <-.
  rewrite (absw_new ns h) in R1, R2. clear E1 E2.
  revert o1 o2 R1 R2. generalize (mpos (confirm ns) h 0 (length h)) as d.
  induction ops as [|op rest IH]; intros d o1 o2 R1 R2.
  - destruct o1, o2; cbn in *; try contradiction. reflexivity.
  - destruct op; try (exfalso; first [apply Hc; left; reflexivity|apply Hh; left; reflexivity]).
    + destruct o1 as [|[x1| |] t1]; cbn in R1; try contradiction.
      destruct o2 as [|[x2| |] t2]; cbn in R2; try contradiction.
      destruct R1 as [-> R1]. destruct R2 as [-> R2]. f_equal.
      apply (IH ltac:(intros X; apply Hc; right; exact X) ltac:(intros X; apply Hh; right; exact X) _ _ _ R1 R2).
    + destruct o1 as [|[x1| |] t1]; cbn in R1; try contradiction.
      destruct o2 as [|[x2| |] t2]; cbn in R2; try contradiction.
      destruct R1 as [-> R1]. destruct R2 as [-> R2]. f_equal.
      apply (IH ltac:(intros X; apply Hc; right; exact X) ltac:(intros X; apply Hh; right; exact X) _ _ _ R1 R2).
Qed.

(* substring search: any two architectures / CPU detection outcomes (x86_64 AVX2, SSE2 only, no SIMD;
   aarch64 NEON; wasm32 simd128; any other target), any two placements *)
Theorem C09_memmem_find : forall (ar1 ar2 : arch) a1 a2 h x, bytes_ok x -> bytes_ok h ->
  fst (memmem_find ar1 a1 h x) = fst (memmem_find ar2 a2 h x).
Proof.
  intros ar1 ar2 a1 a2 h x Hx Hh.
  destruct (satq_fst _ _ _ (memmem_find_correct ar1 x h a1 0 Hx Hh (fwd_cert ar1 x) C09_saturating_multiply)) as (v1 & E1 & -> & _).
  destruct (satq_fst _ _ _ (memmem_find_correct ar2 x h a2 0 Hx Hh (fwd_cert ar2 x) C09_saturating_multiply)) as (v2 & E2 & -> & _).
  congruence.
Qed.

Theorem C09_memmem_rfind_partial : forall (ar1 ar2 : arch) a1 a2 h x, bytes_ok x -> bytes_ok h ->
  (tw_reach_rev x = true -> tw_cert_rev_of x = true) ->
  fst (memmem_rfind ar1 a1 h x) = fst (memmem_rfind ar2 a2 h x).
Proof.
  intros ar1 ar2 a1 a2 h x Hx Hh Hc.
  destruct (satq_fst _ _ _ (memmem_rfind_correct ar1 x h a1 0 Hx Hh Hc)) as (v1 & E1 & -> & _).
  destruct (satq_fst _ _ _ (memmem_rfind_correct ar2 x h a2 0 Hx Hh Hc)) as (v2 & E2 & -> & _).
  congruence.
Qed.

Lemma rev_cert_always : forall x, tw_reach_rev x = true -> tw_cert_rev_of x = true.
Proof. intros x H. apply tw_cert_rev_all. unfold tw_reach_rev in H. apply Nat.leb_le in H. lia. Qed.

Theorem C09_memmem_rfind : forall (ar1 ar2 : arch) a1 a2 h x, bytes_ok x -> bytes_ok h ->
  fst (memmem_rfind ar1 a1 h x) = fst (memmem_rfind ar2 a2 h x).
Proof. intros ar1 ar2 a1 a2 h x Hx Hh. apply C09_memmem_rfind_partial; [exact Hx|exact Hh|apply rev_cert_always]. Qed.

Print Assumptions C09_memmem_rfind.
Print Assumptions C09_memchr.
Print Assumptions C09_count.
Print Assumptions C09_dispatch.
Print Assumptions C09_iter.
Print Assumptions C09_memmem_find.
Print Assumptions C09_memmem_rfind_partial.
