(* C01  Forward byte search returns exactly the first matching position. *)
From Memchr Require Import Spec Params Vec.MaskLaws Mem.Wrappers Mem.GenericProofs Mem.WrappersProofs.

Definition bytes_ok (l : list N) : Prop := Forall (fun x => (x < 256)%N) l.

(* the needle predicate: b is one of the needle bytes *)
Lemma C01_is_needle : forall ns b, confirm ns b = true <-> In b ns.
Proof.
  intros ns b. unfold confirm. rewrite existsb_exists. split.
  - intros (n & Hin & He). apply N.eqb_eq in He. subst. exact Hin.
  - intros H. exists b. split; [exact H|apply N.eqb_refl].
Qed.

(* what first_idx means: the smallest matching index, None exactly when there is none *)
Theorem C01_spec_some : forall (p : N -> bool) h i,
  first_idx p h = Some i <->
  i < length h /\ p (nth i h 0%N) = true /\ forall j, j < i -> p (nth j h 0%N) = false.
Proof. intros. apply first_idx_some. Qed.

Theorem C01_spec_none : forall (p : N -> bool) h,
  first_idx p h = None <-> forall j, j < length h -> p (nth j h 0%N) = false.
Proof.
  intros p h. rewrite first_idx_none, Forall_forall. split.
  - intros H j Hj. apply H. apply nth_In. exact Hj.
  - intros H x Hx. destruct (In_nth h x 0%N Hx) as (j & Hj & <-). apply H. exact Hj.
Qed.

(* the generic vector algorithm, for every vector width, unroll factor, mask
   representation obeying the laws, needle set and start address *)
Theorem C01_generic : forall R B U al ps a h,
  MaskLaws R B -> 0 < B -> 0 < U -> ps <> [] -> B <= length h ->
  fst (gen_find R B U al ps a h) = Ok (first_idx (pany ps) h) /\
  loads_ok a (length h) 0 0 (snd (gen_find R B U al ps a h)).
Proof.
  intros R B U al ps a h HL HB HU Hps Hle.
  destruct (satq_fst _ _ _ (gen_find_sat R B U al ps a h HL HB HU Hps Hle)) as (v & Hv & -> & Ht).
  split; assumption.
Qed.

(* every backend: portable SWAR, SSE2, AVX2 (with its SSE2 and scalar short-haystack
   routes), NEON, wasm simd128; 1, 2 or 3 needles (any non-empty needle list) *)
Theorem C01_backend : forall (b : backend) ns a h,
  ns <> [] -> bytes_ok h -> bytes_ok ns ->
  fst (backend_find ns a h b) = Ok (first_idx (confirm ns) h) /\
  loads_ok a (length h) 0 0 (snd (backend_find ns a h b)).
Proof.
  intros b ns a h Hns Hh Hn.
  destruct (satq_fst _ _ _ (backend_find_sat ns a h Hns Hh Hn b)) as (v & Hv & -> & Ht).
  split; assumption.
Qed.

(* whatever the runtime CPU detection installs *)
Theorem C01_dispatch : forall (c : cpu) ns a h,
  ns <> [] -> bytes_ok h -> bytes_ok ns ->
  fst (backend_find ns a h (x86_choice c)) = Ok (first_idx (confirm ns) h).
Proof. intros c ns a h H1 H2 H3. apply (C01_backend (x86_choice c) ns a h H1 H2 H3). Qed.

(* raw-pointer forms: find_raw(start, end) with start = base + so, end = base + eo.  None when start >= end (also
   for start > end); otherwise the returned index lies inside [so, eo), matches, and nothing before it in the range
   matches; every load stays inside the range *)
Theorem C01_raw : forall (b : backend) ns a h so eo,
  ns <> [] -> bytes_ok h -> bytes_ok ns -> eo <= length h ->
  fst (backend_find_raw ns a h so eo b)
    = Ok (if eo <=? so then None else option_map (fun i => so + i) (first_idx (confirm ns) (raw_range h so eo))) /\
  loads_ok (a + so) (eo - so) 0 0 (snd (backend_find_raw ns a h so eo b)).
Proof.
  intros b ns a h so eo Hns Hh Hn He.
  destruct (satq_fst _ _ _ (backend_find_raw_sat ns a h so eo Hns Hh Hn He b)) as (v & Hv & -> & Ht).
  split; assumption.
Qed.

Theorem C01_raw_inside : forall (b : backend) ns a h so eo i,
  ns <> [] -> bytes_ok h -> bytes_ok ns -> eo <= length h ->
  fst (backend_find_raw ns a h so eo b) = Ok (Some i) ->
  so <= i < eo /\ confirm ns (nth i h 0%N) = true /\ forall j, so <= j < i -> confirm ns (nth j h 0%N) = false.
Proof. intros b ns a h so eo i Hns Hh Hn He. apply (backend_find_raw_spec ns a h so eo Hns Hh Hn He b i). Qed.

Theorem C01_raw_empty_or_inverted : forall (b : backend) ns a h so eo,
  eo <= so -> backend_find_raw ns a h so eo b = ret None.
Proof. intros b ns a h so eo H. unfold backend_find_raw. apply Nat.leb_le in H. rewrite H. reflexivity. Qed.

Theorem C01_index_in_range : forall (p : N -> bool) h i, first_idx p h = Some i -> i < length h.
Proof. intros p h i. apply first_idx_lt. Qed.

(* empty haystack (start >= end) *)
Theorem C01_empty : forall b ns a, fst (backend_find ns a [] b) = Ok None.
Proof. intros b ns a. destruct b; reflexivity. Qed.

(* non-vacuity: the match sits in the overlapping tail chunk of an AVX2 search at an odd address *)
Example C01_example :
  fst (backend_find [97; 0]%N 13 (repeat 120%N 70 ++ [0%N; 120%N]) BAvx2) = Ok (Some 70) /\
  fst (backend_find [97; 0]%N 13 (repeat 120%N 70 ++ [0%N; 120%N]) BNeon) = Ok (Some 70) /\
  fst (backend_find [97; 0]%N 13 (repeat 120%N 70 ++ [0%N; 120%N]) BSwar) = Ok (Some 70).
Proof. vm_compute. repeat split. Qed.

Print Assumptions C01_generic.
Print Assumptions C01_backend.
Print Assumptions C01_dispatch.
Print Assumptions C01_spec_some.
Print Assumptions C01_spec_none.
Print Assumptions C01_index_in_range.
Print Assumptions C01_empty.
Print Assumptions C01_raw.
Print Assumptions C01_raw_inside.
Print Assumptions C01_raw_empty_or_inverted.
