(* C13  Substring search does work linear in haystack plus needle length.

   "Elementary steps" are the events counted by Base/Cost.v: every raw load (a vector
   chunk, a machine word, a single byte, one 4/2/1-byte piece of a memcmp) and every
   loop tick (a hash update, a Two-Way window, a shift); the hooks in /repo record
   exactly these events and the correspondence check compares them one by one.

   Proved here, for EVERY haystack, needle, address, architecture / CPU outcome,
   prefilter setting and ranker function (no size bound, no exception):
     building + find           steps <= 4906 * (|h| + 1) + 6 * |x| + 11   (C13_find, C13_finder)
     building + rfind          steps <=   70 * (|h| + 1) + 6 * |x| + 11   (C13_rfind)
   This includes forward search of small-period needles with a prefilter attached, where
   the prefilter throws the Two-Way memory away: Sub/CostTwoWaySmall.v shows by a
   Fine-Wilf argument that the windows which are then re-scanned are far apart.
   Complete find_iter / rfind_iter traversals (next until the first None), from hit-aware
   bounds (a call that reports a match at i costs O(i + |x|), Sub/CostHit.v):
     forward   steps <= (4907 + 4909) * (|h| + 2)        (C13_iter_complete)
     reverse   steps <=  142 * (|h| + 2)        (C13_riter_complete)
   and for ANY number k of calls the bound C13_iter_any (a call made after a None repeats
   the search of the remaining suffix: FindIter is not fused, so each such call is charged
   one more pass). *)
From Memchr Require Import Spec SpecProofs Params Base.Cost Sub.Prefilter Sub.TwoWay Sub.TwoWayFwdProofs Sub.Searcher Sub.SearcherProofs
  Sub.CostBlocks Sub.CostTwoWay Sub.CostTwoWayAll Sub.CostTwoWaySmall Sub.CostPrefilter Sub.CostSearcher
  Sub.FindIter Sub.FindIterProofs Sub.CostHit Sub.CostIter.

Local Open Scope nat_scope.

(* the constants of the source the bounds rest on (regenerated from /repo on every run):
   e.g. MAX_LEN of the packed searcher must stay a small constant, otherwise the
   confirm-by-memcmp of the vector searcher makes the work per haystack byte grow with
   the needle *)
Theorem C13_params :
  (packed_max_len <= 64)%N /\ (rk_fast_below <= 64)%N /\
  (oneshot_rk_below_fwd <= 128)%N /\ (oneshot_rk_below_rev <= 128)%N /\ pre_mul_saturating = true.
Proof. exact params_cost_ok. Qed.

Definition steps {A} (m : M A) : nat := cost (snd m).

(* memmem::find *)
Theorem C13_find : forall ar a h x,
  bytes_ok x -> bytes_ok h ->
  (exists r, fst (memmem_find ar a h x) = Ok r) /\
  steps (memmem_find ar a h x) <= 4906 * (length h + 1) + 6 * length x + 11.
Proof.
  intros ar a h x Hx Hh.
  destruct (memmem_find_cost ar x h a Hx Hh) as (r & Hr & Hc). split; [exists r; exact Hr|exact Hc].
Qed.

(* Finder::new / FinderBuilder (any prefilter setting, any ranker) followed by find *)
Theorem C13_finder : forall cfg (rank : N -> N) ar a h x,
  bytes_ok x -> bytes_ok h ->
  steps (f <- finder_new cfg rank ar x;; finder_find ar f a h) <= 4906 * (length h + 1) + 6 * length x + 11.
Proof.
  intros cfg rank ar a h x Hx Hh.
  destruct (finder_cost ar x h a Hx Hh cfg rank) as (r & Hr & Hc). exact Hc.
Qed.

(* a finder reused from ANY prefilter state (C16): the search alone *)
Theorem C13_searcher_reuse : forall ar a h x s st,
  bytes_ok x -> bytes_ok h -> strat_for ar x s -> strat_small s ->
  steps (searcher_find ar s st a h x) <= 4906 * (length h + 1) + length x + 3.
Proof.
  intros ar a h x s st Hx Hh H1 H2.
  destruct (searcher_find_cost ar x h a Hx Hh s st H1 H2) as (r & Hr & Hc). exact Hc.
Qed.

(* the small-period case with a prefilter, on the Two-Way block itself: any prefilter obeying pre_cost *)
Theorem C13_twoway_small_prefilter : forall x h tw pf a st K1 K2 p,
  1 <= length x -> fst (tw_new x) = Ok tw -> tw_shift tw = Small p ->
  pre_ok x pf -> pre_mul_saturating = true -> pre_cost x pf K1 K2 -> bytes_ok h ->
  steps (tw_find tw (Some pf) a h x st) <= (4 + K1 + K2) * length h.
Proof.
  intros x h tw pf a st K1 K2 p H1 H2 H3 H4 H5 H6 H7.
  destruct (tw_find_cost_pre_small_sharp_all x h tw pf a st K1 K2 p H1 H2 H3 H4 H5 H6 H7) as (r & _ & Hc). exact Hc.
Qed.

(* memmem::rfind and FinderRev: every needle *)
Theorem C13_rfind : forall ar a h x,
  bytes_ok x -> bytes_ok h ->
  (exists r, fst (memmem_rfind ar a h x) = Ok r) /\
  steps (memmem_rfind ar a h x) <= 70 * (length h + 1) + 6 * length x + 11.
Proof.
  intros ar a h x Hx Hh.
  destruct (memmem_rfind_cost ar x h a Hx Hh) as (r & Hr & Hc). split; [exists r; exact Hr|exact Hc].
Qed.

Theorem C13_rfinder : forall ar a h x,
  bytes_ok x -> bytes_ok h ->
  steps (f <- rfinder_new x;; rfinder_rfind ar f a h) <= 69 * (length h + 1) + 6 * length x + 11.
Proof.
  intros ar a h x Hx Hh.
  destruct (rfinder_cost ar x h a Hx Hh) as (r & Hr & Hc). exact Hc.
Qed.

(* ---- complete iterator traversals ---- *)
(* find_iter driven until it returns None: exactly the greedy sequence, then None, in linear work *)
Theorem C13_iter_complete : forall cfg (rank : N -> N) ar x h a f,
  bytes_ok x -> bytes_ok h -> fst (finder_new cfg rank ar x) = Ok f ->
  exists outs, fst (fiter_run ar f a h (S (length (greedy_seq x h))) fiter_new) = Ok outs /\
    map fst outs = map Some (greedy_seq x h) ++ [None] /\
    steps (fiter_run ar f a h (S (length (greedy_seq x h))) fiter_new) <= (4907 + 4909) * (length h + 2).
Proof.
  intros cfg rank ar x h a f Hx Hh Hf.
  destruct (find_iter_complete_cost cfg rank ar x h a f Hx Hh Hf) as (outs & Ho & Hm & _ & _ & Hc).
  exists outs. split; [exact Ho|]. split; [exact Hm|]. exact Hc.
Qed.

Theorem C13_riter_complete : forall ar x h a f,
  bytes_ok x -> bytes_ok h -> fst (rfinder_new x) = Ok f ->
  exists outs, fst (riter_run ar f a h (S (length (rgreedy_seq x h))) (riter_new h)) = Ok outs /\
    outs = map Some (rgreedy_seq x h) ++ [None] /\
    steps (riter_run ar f a h (S (length (rgreedy_seq x h))) (riter_new h)) <= 142 * (length h + 2).
Proof.
  intros ar x h a f Hx Hh Hf.
  destruct (rfind_iter_complete_cost ar x h a f Hx Hh Hf) as (outs & Ho & Hm & _ & _ & Hc).
  exists outs. split; [exact Ho|]. split; [exact Hm|]. exact Hc.
Qed.

(* any number k of next calls, construction included: one pass over the haystack, plus one more pass for
   every call made after the iterator has already returned None (it is not fused), plus O(1) per call *)
Theorem C13_iter_any : forall cfg (rank : N -> N) ar x h a k,
  bytes_ok x -> bytes_ok h ->
  exists outs, fst (f <- finder_new cfg rank ar x;; fiter_run ar f a h k fiter_new) = Ok outs /\ length outs = k /\
    steps (f <- finder_new cfg rank ar x;; fiter_run ar f a h k fiter_new)
      <= 4907 * (length h + 1) * (1 + count_none (removelast (map fst outs))) + 4909 * k + 5 * length x + 8.
Proof.
  intros cfg rank ar x h a k Hx Hh.
  destruct (find_iter_cost_top cfg rank ar x h a k Hx Hh) as (outs & Ho & Hl & Hc).
  exists outs. split; [exact Ho|]. split; [exact Hl|]. exact Hc.
Qed.

Theorem C13_riter_any : forall ar x h a k,
  bytes_ok x -> bytes_ok h ->
  exists outs, fst (f <- rfinder_new x;; riter_run ar f a h k (riter_new h)) = Ok outs /\ length outs = k /\
    steps (f <- rfinder_new x;; riter_run ar f a h k (riter_new h))
      <= 70 * (length h + 1) * (1 + count_none (removelast outs)) + 72 * k + 5 * length x + 8.
Proof.
  intros ar x h a k Hx Hh.
  destruct (rfind_iter_cost_top ar x h a k Hx Hh) as (outs & Ho & Hl & Hc).
  exists outs. split; [exact Ho|]. split; [exact Hl|]. exact Hc.
Qed.

(* a search that reports a match at i has cost bounded by i + |x|, whatever follows in the haystack *)
Theorem C13_hit_aware : forall ar x h a s st,
  bytes_ok x -> bytes_ok h -> strat_for ar x s -> strat_small s ->
  exists r, fst (searcher_find ar s st a h x) = Ok r /\
    forall i, fst r = Some i -> steps (searcher_find ar s st a h x) <= 4906 * (i + length x + 1) + length x + 3.
Proof.
  intros ar x h a s st Hx Hh H1 H2.
  destruct (searcher_find_hit ar x h a Hx Hh s st H1 H2) as (r & Hr & _ & Hc).
  exists r. split; [exact Hr|]. exact Hc.
Qed.

(* the building blocks, each for any finder state and any argument needle *)
Theorem C13_twoway : forall x h tw a st, fst (tw_new x) = Ok tw ->
  steps (tw_find tw None a h x st) <= 3 * length h + length x + 3.
Proof. intros x h tw a st H. destruct (tw_find_cost_all x h tw a st H) as (r & _ & Hc). exact Hc. Qed.

Theorem C13_twoway_rev : forall x h tw, fst (tw_new_rev x) = Ok tw ->
  steps (tw_rfind tw h x) <= 3 * length h + length x + 3.
Proof. intros x h tw H. destruct (tw_rfind_cost_all x h tw H) as (r & _ & Hc). exact Hc. Qed.

Theorem C13_preprocessing : forall x, steps (tw_new x) <= 5 * length x + 8 /\ steps (tw_new_rev x) <= 5 * length x + 8.
Proof.
  intros x. destruct (tw_new_cost x) as (r & _ & Hc). destruct (tw_new_rev_cost x) as (r' & _ & Hc'). split; assumption.
Qed.

(* the packed-pair (vector) searcher: the factor |x| / 2 is what packed_max_len caps *)
Theorem C13_packed : forall isa x i1 i2 w h, pw_new isa x i1 i2 = Ok w -> pw_min w <= length h ->
  steps (pw_find w h x) <= (length h / 16 + 2) * (3 + 32 * (length x / 2 + 5)).
Proof. intros isa x i1 i2 w h H1 H2. destruct (pw_find_cost isa x i1 i2 w h H1 H2) as (r & _ & Hc). exact Hc. Qed.

(* Rabin-Karp is quadratic in general: it is only ever given short haystacks (C13_params) *)
Theorem C13_rabinkarp : forall f x h,
  steps (rk_find f x h) <= length x + (length h + 1) * (length x / 2 + 6).
Proof. intros f x h. destruct (rk_find_cost f x h) as (r & _ & Hc). exact Hc. Qed.

(* non-vacuity: needles of both Two-Way kinds exist and reach the theorems *)
Example C13_large_shift_needle : exists tw s, fst (tw_new [97; 98; 99; 100; 101; 102]%N) = Ok tw /\ tw_shift tw = Large s.
Proof. eexists. eexists. split; vm_compute; reflexivity. Qed.

Example C13_small_period_needle : exists tw q, fst (tw_new [97; 98; 97; 98; 97; 98; 97; 98]%N) = Ok tw /\ tw_shift tw = Small q.
Proof. eexists. eexists. split; vm_compute; reflexivity. Qed.

Example C13_example :
  Nat.leb (steps (memmem_find (AX86 HasAvx2) 0 (repeat 97%N 200 ++ [98%N]) (repeat 97%N 40 ++ [98%N]))) (5 * 201) = true.
Proof. vm_compute. reflexivity. Qed.

Print Assumptions C13_params.
Print Assumptions C13_find.
Print Assumptions C13_finder.
Print Assumptions C13_searcher_reuse.
Print Assumptions C13_twoway_small_prefilter.
Print Assumptions C13_rfind.
Print Assumptions C13_rfinder.
Print Assumptions C13_iter_complete.
Print Assumptions C13_riter_complete.
Print Assumptions C13_iter_any.
Print Assumptions C13_riter_any.
Print Assumptions C13_hit_aware.
Print Assumptions C13_twoway.
Print Assumptions C13_twoway_rev.
Print Assumptions C13_preprocessing.
Print Assumptions C13_packed.
Print Assumptions C13_rabinkarp.
