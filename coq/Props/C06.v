(* C06  Byte-search iterators yield every match exactly once in any call order:
   the iterator refines a double-ended queue holding the match positions in
   ascending order. *)
From Coq Require Import Sorted.
From Memchr Require Import Spec Params Mem.Iter Mem.IterProofs.

Definition bytes_ok (l : list N) : Prop := Forall (fun x => (x < 256)%N) l.

(* the queue: exactly the matching positions, strictly ascending (so no duplicates) *)
Theorem C06_queue_contents : forall (p : N -> bool) h i,
  In i (mpos p h 0 (length h)) <-> i < length h /\ p (nth i h 0%N) = true.
Proof. intros p h i. rewrite mpos_In. split; intros [A B]; split; try assumption; lia. Qed.

Theorem C06_queue_sorted : forall (p : N -> bool) h, StronglySorted lt (mpos p h 0 (length h)).
Proof. intros. apply mpos_sorted. Qed.

(* any history of next / next_back / size_hint / count(on a clone) calls, on any backend:
   next pops the front, next_back pops the back (None when empty, forever),
   size_hint brackets the queue length, count returns the queue length *)
Theorem C06_run : forall (b : backend) ns a h ops,
  ns <> [] -> bytes_ok h -> bytes_ok ns -> (In OCount ops -> length ns = 1) ->
  exists outs,
    fst (iter_run b ns a h ops (iter_new h)) = Ok outs /\
    run_ok ops (mpos (confirm ns) h 0 (length h)) outs /\
    loads_ok a (length h) 0 0 (snd (iter_run b ns a h ops (iter_new h))).
Proof.
  intros b ns a h ops Hns Hh Hn Hc.
  destruct (satq_fst _ _ _ (iter_run_sat b ns a h Hns Hh Hn ops (iter_new h) (inv_new h) Hc))
    as (outs & Ho & Hr & Ht).
  exists outs. rewrite (absw_new ns h) in Hr. split; [exact Ho|split; [exact Hr|exact Ht]].
Qed.

(* single steps from any reachable state *)
Theorem C06_step : forall (b : backend) ns a h it,
  ns <> [] -> bytes_ok h -> bytes_ok ns -> inv h it ->
  exists o it', fst (iter_next b ns a h it) = Ok (o, it') /\
    o = hd_error (absw ns h it) /\ absw ns h it' = tl (absw ns h it) /\ inv h it'.
Proof.
  intros b ns a h it Hns Hh Hn Hi.
  destruct (satq_fst _ _ _ (iter_next_sat b ns a h Hns Hh Hn it Hi)) as ([o it'] & Ho & (A & B & C) & _).
  cbn [fst snd] in *. exists o, it'. split; [exact Ho|split; [exact A|split; [exact B|exact C]]].
Qed.

Theorem C06_step_back : forall (b : backend) ns a h it,
  ns <> [] -> bytes_ok h -> bytes_ok ns -> inv h it ->
  exists o it', fst (iter_next_back b ns a h it) = Ok (o, it') /\
    o = last_opt (absw ns h it) /\ absw ns h it' = removelast (absw ns h it) /\ inv h it'.
Proof.
  intros b ns a h it Hns Hh Hn Hi.
  destruct (satq_fst _ _ _ (iter_next_back_sat b ns a h Hns Hh Hn it Hi)) as ([o it'] & Ho & (A & B & C) & _).
  cbn [fst snd] in *. exists o, it'. split; [exact Ho|split; [exact A|split; [exact B|exact C]]].
Qed.

Theorem C06_size_hint : forall ns h it, inv h it ->
  fst (iter_size_hint it) <= length (absw ns h it) <= snd (iter_size_hint it).
Proof. intros ns h it Hi. apply iter_size_hint_ok. exact Hi. Qed.

(* non-vacuity: ends meeting inside one vector, last element taken from the other side *)
Example C06_example :
  fst (iter_run BAvx2 [97]%N 7 (repeat 120%N 20 ++ [97; 120; 97]%N ++ repeat 120%N 20)
         [OBack; OHint; ONext; ONext; OBack] (iter_new (repeat 120%N 20 ++ [97; 120; 97]%N ++ repeat 120%N 20)))
  = Ok [RItem (Some 22); RHint 0 22; RItem (Some 20); RItem None; RItem None].
Proof. vm_compute. reflexivity. Qed.

Print Assumptions C06_run.
Print Assumptions C06_step.
Print Assumptions C06_step_back.
Print Assumptions C06_size_hint.
Print Assumptions C06_queue_contents.
Print Assumptions C06_queue_sorted.
