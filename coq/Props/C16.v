(* C16  A finder is a pure function of its needle: reuse, clone, borrow, own.
   In the model a finder is an immutable value and Finder::find creates its
   prefilter state afresh; what has to be proved is that the answer of a search
   with a finder built from x is the specification's answer for x and THAT
   haystack, whatever was searched before and whatever state the prefilter
   bookkeeping is in; and that an iterator continues identically from any of its
   states (which is what clone / into_owned copy).  That the Rust clone(), as_ref()
   and into_owned() really copy needle, searcher, pos and prestate is decided by
   the correspondence on operation histories, not here. *)
From Memchr Require Import Spec SpecProofs Params Sub.Prefilter Sub.TwoWay Sub.TwoWayCert
  Sub.Searcher Sub.SearcherProofs Sub.FindIter Sub.FindIterProofs Sub.TwoWayTier2 Sub.TwoWayTier2Rev.

Example C16_saturating_multiply : pre_mul_saturating = true.
Proof. reflexivity. Qed.

(* any sequence of searches over different haystacks with ONE finder: every answer is find_spec
   of the needle and that haystack, independent of the prefilter state st left behind by anything else *)
Theorem C16_reuse_partial : forall cfg rank ar x f,
  bytes_ok x -> fst (finder_new cfg rank ar x) = Ok f ->
  (tw_reach_fwd ar x = true -> tw_cert_fwd_of x = true) ->
  forall (hs : list (list N)) (a : nat) (st : prestate),
  Forall bytes_ok hs ->
  Forall (fun h => exists r, fst (searcher_find ar (f_searcher f) st a h (f_needle f)) = Ok r /\ fst r = find_spec x h) hs.
Proof.
  intros cfg rank ar x f Hx Hf Hc hs a st Hhs.
  eapply Forall_impl; [|exact Hhs]. intros h Hh.
  destruct (satq_fst _ _ _ (finder_reuse_correct ar x h a 0 Hx Hh cfg rank f st Hf Hc C16_saturating_multiply)) as (r & Hr & E & _).
  exists r. split; assumption.
Qed.

Theorem C16_reuse_rev_partial : forall ar x f,
  bytes_ok x -> fst (rfinder_new x) = Ok f ->
  (tw_reach_rev x = true -> tw_cert_rev_of x = true) ->
  forall (hs : list (list N)) (a : nat), Forall bytes_ok hs ->
  Forall (fun h => fst (rfinder_rfind ar f a h) = Ok (rfind_spec x h)) hs.
Proof.
  intros ar x f Hx Hf Hc hs a Hhs.
  eapply Forall_impl; [|exact Hhs]. intros h Hh.
  destruct (satq_fst _ _ _ (rfinder_reuse_correct ar x h a 0 Hx Hh f Hf Hc)) as (r & Hr & -> & _). exact Hr.
Qed.

(* needle() returns the construction needle *)
Theorem C16_needle : forall cfg rank ar x f, fst (finder_new cfg rank ar x) = Ok f -> f_needle f = x.
Proof. intros cfg rank ar x f Hf. exact (f_needle_eq cfg rank ar x f Hf). Qed.

(* the iterator state after k calls of next *)
Fixpoint fiter_state (ar : arch) (f : finder) (a : nat) (h : list N) (k : nat) (it : fiter) : res fiter :=
  match k with
  | 0 => Ok it
  | S k' => match fst (fiter_next ar f a h it) with
            | Ok r => fiter_state ar f a h k' (snd r)
            | Panic p => Panic p
            end
  end.

(* an iterator resumed from any of its states (a clone, an owned copy) continues identically:
   k1 + k2 calls = k1 calls, then k2 calls from the state reached *)
Theorem C16_iter_resume : forall ar f a h k1 k2 it,
  fst (fiter_run ar f a h (k1 + k2) it) =
  match fst (fiter_run ar f a h k1 it), fiter_state ar f a h k1 it with
  | Ok o1, Ok it' =>
      match fst (fiter_run ar f a h k2 it') with
      | Ok o2 => Ok (o1 ++ o2)
      | Panic p => Panic p
      end
  | Panic p, _ => Panic p
  | Ok _, Panic p => Panic p
  end.
Proof.
  intros ar f a h k1. induction k1 as [|k1 IH]; intros k2 it.
  - cbn [Nat.add fiter_run fiter_state ret fst]. destruct (fst (fiter_run ar f a h k2 it)); reflexivity.
  - cbn [Nat.add fiter_run fiter_state]. rewrite !fst_bind.
    destruct (fst (fiter_next ar f a h it)) as [r|p] eqn:En; [|reflexivity].
    rewrite !fst_bind. rewrite (IH k2 (snd r)).
    destruct (fst (fiter_run ar f a h k1 (snd r))) as [o1|p]; [|reflexivity].
    cbn [fst ret].
    destruct (fiter_state ar f a h k1 (snd r)) as [it'|p]; [|reflexivity].
    destruct (fst (fiter_run ar f a h k2 it')); reflexivity.
Qed.

Lemma fwd_cert_always : forall ar x, tw_reach_fwd ar x = true -> tw_cert_fwd_of x = true.
Proof.
  intros ar x H. apply tw_cert_fwd_all. unfold tw_reach_fwd in H. apply andb_true_iff in H as [H _].
  apply Nat.leb_le in H. lia.
Qed.
Lemma rev_cert_always : forall x, tw_reach_rev x = true -> tw_cert_rev_of x = true.
Proof. intros x H. apply tw_cert_rev_all. unfold tw_reach_rev in H. apply Nat.leb_le in H. lia. Qed.

(* unconditional forms (Tier 2) *)
Theorem C16_reuse : forall cfg rank ar x f,
  bytes_ok x -> fst (finder_new cfg rank ar x) = Ok f ->
  forall (hs : list (list N)) (a : nat) (st : prestate),
  Forall bytes_ok hs ->
  Forall (fun h => exists r, fst (searcher_find ar (f_searcher f) st a h (f_needle f)) = Ok r /\ fst r = find_spec x h) hs.
Proof. intros cfg rank ar x f Hx Hf. apply (C16_reuse_partial cfg rank ar x f Hx Hf). apply fwd_cert_always. Qed.

Theorem C16_reuse_rev : forall ar x f,
  bytes_ok x -> fst (rfinder_new x) = Ok f ->
  forall (hs : list (list N)) (a : nat), Forall bytes_ok hs ->
  Forall (fun h => fst (rfinder_rfind ar f a h) = Ok (rfind_spec x h)) hs.
Proof. intros ar x f Hx Hf. apply (C16_reuse_rev_partial ar x f Hx Hf). apply rev_cert_always. Qed.

Print Assumptions C16_reuse.
Print Assumptions C16_reuse_rev.
Print Assumptions C16_reuse_partial.
Print Assumptions C16_reuse_rev_partial.
Print Assumptions C16_needle.
Print Assumptions C16_iter_resume.
