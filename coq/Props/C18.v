(* C18  is_equal, is_prefix and is_suffix coincide with slice comparison.
   Property theorems only; proofs are `exact`/short wrappers around lemmas of
   Sub/IsEqualProofs.v. *)
From Memchr Require Import Spec Sub.IsEqual Sub.IsEqualProofs.

Lemma ev_within_load_ok ah an lh ln ox n e :
  ox + n <= lh -> n <= ln ->
  ev_within RHay ox RNeedle 0 n e -> load_ok ah lh an ln e.
Proof.
  intros Hx Hy. destruct e as [r off w al| | |]; cbn; try tauto.
  intros [-> [(-> & A & B)|(-> & A & B)]]; (split; [lia|discriminate]).
Qed.

(* is_equal(x, y) returns normally, with `true` exactly when x = y, and every
   byte it reads lies inside x resp. y, wherever they are in memory. *)
Theorem C18_is_equal : forall (ax ay : nat) (x y : list N),
  exists b, fst (is_equal x y) = Ok b /\ (b = true <-> x = y) /\
            loads_ok ax (length x) ay (length y) (snd (is_equal x y)).
Proof.
  intros ax ay x y. destruct (is_equal_sat x y) as (b & Hb & -> & Ht).
  exists (list_eqb x y). split; [exact Hb|]. split; [apply list_eqb_eq|].
  destruct (Nat.eq_dec (length x) (length y)) as [E|E].
  - eapply Forall_impl; [|exact Ht]. intros e. apply ev_within_load_ok; lia.
  - unfold is_equal. apply Nat.eqb_neq in E. rewrite E. constructor.
Qed.

Theorem C18_is_prefix : forall (ah an : nat) (h n : list N),
  exists b, fst (is_prefix h n) = Ok b /\ (b = true <-> exists t, h = n ++ t) /\
            loads_ok ah (length h) an (length n) (snd (is_prefix h n)).
Proof.
  intros ah an h n. destruct (is_prefix_sat h n) as (b & Hb & -> & Ht).
  exists (starts_with h n). split; [exact Hb|]. split; [apply starts_with_spec|].
  destruct (le_lt_dec (length n) (length h)) as [E|E].
  - eapply Forall_impl; [|exact Ht]. intros e. apply ev_within_load_ok; lia.
  - unfold is_prefix. apply Nat.leb_gt in E. rewrite E. constructor.
Qed.

Theorem C18_is_suffix : forall (ah an : nat) (h n : list N),
  exists b, fst (is_suffix h n) = Ok b /\ (b = true <-> exists t, h = t ++ n) /\
            loads_ok ah (length h) an (length n) (snd (is_suffix h n)).
Proof.
  intros ah an h n. destruct (is_suffix_sat h n) as (b & Hb & -> & Ht).
  exists (ends_with h n). split; [exact Hb|]. split; [apply ends_with_spec|].
  destruct (le_lt_dec (length n) (length h)) as [E|E].
  - eapply Forall_impl; [|exact Ht]. intros e. apply ev_within_load_ok; lia.
  - unfold is_suffix. apply Nat.leb_gt in E. rewrite E. constructor.
Qed.

(* the raw routine on n bytes at arbitrary offsets of two buffers *)
Theorem C18_is_equal_raw : forall rx ry x y ox oy n,
  ox + n <= length x -> oy + n <= length y ->
  exists b, fst (is_equal_raw rx ry x y ox oy n) = Ok b /\
            (b = true <-> slice x ox n = slice y oy n) /\
            Forall (ev_within rx ox ry oy n) (snd (is_equal_raw rx ry x y ox oy n)).
Proof.
  intros rx ry x y ox oy n Hx Hy.
  destruct (is_equal_raw_sat rx ry x y ox oy n Hx Hy) as (b & Hb & -> & Ht).
  eexists. split; [exact Hb|]. split; [apply list_eqb_eq|exact Ht].
Qed.

(* non-vacuity: a difference confined to the second byte of the trailing 2-byte load *)
Example C18_example :
  fst (is_equal [1;2;3;4;5;6;7]%N [1;2;3;4;5;9;7]%N) = Ok false /\
  fst (is_equal [1;2;3;4;5;6;7]%N [1;2;3;4;5;6;7]%N) = Ok true.
Proof. split; reflexivity. Qed.

Print Assumptions C18_is_equal.
Print Assumptions C18_is_prefix.
Print Assumptions C18_is_suffix.
Print Assumptions C18_is_equal_raw.
