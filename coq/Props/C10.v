(* C10  Performance heuristics never change search results: any two prefilter
   settings, any two ranker functions (constant, adversarial, non-injective ones
   included) and any two prefilter states give the same answer, because each
   gives the specification's answer. *)
From Memchr Require Import Spec SpecProofs Params Sub.Prefilter Sub.TwoWay Sub.TwoWayCert Sub.Searcher Sub.SearcherProofs Sub.TwoWayTier2.

Example C10_saturating_multiply : pre_mul_saturating = true.
Proof. reflexivity. Qed.

Theorem C10_config_and_ranker_irrelevant_partial :
  forall cfg1 cfg2 (rank1 rank2 : N -> N) ar a1 a2 h x,
  bytes_ok x -> bytes_ok h ->
  (tw_reach_fwd ar x = true -> tw_cert_fwd_of x = true) ->
  fst (f <- finder_new cfg1 rank1 ar x;; finder_find ar f a1 h) =
  fst (f <- finder_new cfg2 rank2 ar x;; finder_find ar f a2 h).
Proof.
  intros cfg1 cfg2 rank1 rank2 ar a1 a2 h x Hx Hh Hc.
  destruct (satq_fst _ _ _ (finder_find_correct ar x h a1 0 Hx Hh cfg1 rank1 Hc C10_saturating_multiply)) as (v1 & Hv1 & -> & _).
  destruct (satq_fst _ _ _ (finder_find_correct ar x h a2 0 Hx Hh cfg2 rank2 Hc C10_saturating_multiply)) as (v2 & Hv2 & -> & _).
  congruence.
Qed.

(* the adaptive decision: whatever state the prefilter bookkeeping is in (effective, about to
   turn inert, inert, saturated counters), the search result is the same *)
Theorem C10_prefilter_state_irrelevant_partial :
  forall cfg rank ar a h x f (st1 st2 : prestate),
  bytes_ok x -> bytes_ok h ->
  fst (finder_new cfg rank ar x) = Ok f ->
  (tw_reach_fwd ar x = true -> tw_cert_fwd_of x = true) ->
  exists r1 r2,
    fst (searcher_find ar (f_searcher f) st1 a h (f_needle f)) = Ok r1 /\
    fst (searcher_find ar (f_searcher f) st2 a h (f_needle f)) = Ok r2 /\
    fst r1 = fst r2 /\ fst r1 = find_spec x h.
Proof.
  intros cfg rank ar a h x f st1 st2 Hx Hh Hf Hc.
  destruct (satq_fst _ _ _ (finder_reuse_correct ar x h a 0 Hx Hh cfg rank f st1 Hf Hc C10_saturating_multiply)) as (r1 & H1 & E1 & _).
  destruct (satq_fst _ _ _ (finder_reuse_correct ar x h a 0 Hx Hh cfg rank f st2 Hf Hc C10_saturating_multiply)) as (r2 & H2 & E2 & _).
  exists r1, r2. repeat split; try assumption. congruence.
Qed.

(* non-vacuity: a constant ranker and no prefilter versus the default *)
Example C10_example :
  fst (f <- finder_new PNone (fun _ => 0%N) (AX86 NoSimd) (repeat 5%N 3 ++ [6%N]);;
       finder_find (AX86 NoSimd) f 0 (repeat 5%N 20 ++ [6%N])) = Ok (Some 17) /\
  fst (f <- finder_new PAuto default_rank (AX86 HasAvx2) (repeat 5%N 3 ++ [6%N]);;
       finder_find (AX86 HasAvx2) f 9 (repeat 5%N 20 ++ [6%N])) = Ok (Some 17).
Proof. vm_compute. split; reflexivity. Qed.

Lemma C10_cert_always : forall ar x, tw_reach_fwd ar x = true -> tw_cert_fwd_of x = true.
Proof.
  intros ar x H. apply tw_cert_fwd_all. unfold tw_reach_fwd in H. apply andb_true_iff in H as [H _].
  apply Nat.leb_le in H. lia.
Qed.

(* unconditional forms (Tier 2) *)
Theorem C10_config_and_ranker_irrelevant :
  forall cfg1 cfg2 (rank1 rank2 : N -> N) ar a1 a2 h x,
  bytes_ok x -> bytes_ok h ->
  fst (f <- finder_new cfg1 rank1 ar x;; finder_find ar f a1 h) =
  fst (f <- finder_new cfg2 rank2 ar x;; finder_find ar f a2 h).
Proof.
  intros. apply C10_config_and_ranker_irrelevant_partial; try assumption. apply C10_cert_always.
Qed.

Theorem C10_prefilter_state_irrelevant :
  forall cfg rank ar a h x f (st1 st2 : prestate),
  bytes_ok x -> bytes_ok h ->
  fst (finder_new cfg rank ar x) = Ok f ->
  exists r1 r2,
    fst (searcher_find ar (f_searcher f) st1 a h (f_needle f)) = Ok r1 /\
    fst (searcher_find ar (f_searcher f) st2 a h (f_needle f)) = Ok r2 /\
    fst r1 = fst r2 /\ fst r1 = find_spec x h.
Proof.
  intros cfg rank ar a h x f st1 st2 Hx Hh Hf.
  apply (C10_prefilter_state_irrelevant_partial cfg rank ar a h x f st1 st2 Hx Hh Hf). apply C10_cert_always.
Qed.

Print Assumptions C10_config_and_ranker_irrelevant.
Print Assumptions C10_prefilter_state_irrelevant.
Print Assumptions C10_config_and_ranker_irrelevant_partial.
Print Assumptions C10_prefilter_state_irrelevant_partial.
