(* C05  Safe searches never read outside the slices they are given.
   Every theorem has the shape: for all inputs, every load in the trace of the
   modelled entry point lies inside the haystack resp. needle slice, and is
   aligned when the code treats it as aligned (load_ok / loads_ok of Spec.v). *)
From Memchr Require Import Spec SpecProofs Params Vec.MaskLaws
  Mem.Wrappers Mem.WrappersProofs Mem.Iter Mem.IterProofs
  Sub.IsEqual Sub.IsEqualProofs Sub.RabinKarp Sub.RabinKarpProofs Sub.ShiftOr Sub.ShiftOrProofs
  Sub.PackedPair Sub.PackedPairProofs Sub.PortablePrefilterProofs Sub.TwoWay Sub.TwoWayPreProofs.

Definition bytes_ok (l : list N) : Prop := Forall (fun b => (b < 256)%N) l.

(* the source's confirm guard in packed-pair find_in_chunk compares lengths
   (`end.distance(cur) < needle.len()`) instead of forming `end.sub(needle.len())`;
   regenerated from the source by tools/gen_params.py.  With the pointer form the
   obligation below is false: see C05_foreign_needle_refuted. *)
Example C05_guard_form : pp_confirm_guard_checked = true.
Proof. reflexivity. Qed.

(* byte search, every backend, every alignment *)
Theorem C05_memchr : forall (b : backend) ns a h, ns <> [] -> bytes_ok h -> bytes_ok ns ->
  loads_ok a (length h) 0 0 (snd (backend_find ns a h b)) /\
  loads_ok a (length h) 0 0 (snd (backend_rfind ns a h b)).
Proof.
  intros b ns a h H1 H2 H3. split.
  - destruct (satq_fst _ _ _ (backend_find_sat ns a h H1 H2 H3 b)) as (v & _ & _ & Ht). exact Ht.
  - destruct (satq_fst _ _ _ (backend_rfind_sat ns a h H1 H2 H3 b)) as (v & _ & _ & Ht). exact Ht.
Qed.

Theorem C05_count : forall (b : backend) n a h,
  loads_ok a (length h) 0 0 (snd (backend_count [n] a h b)).
Proof.
  intros b n a h.
  destruct (satq_fst _ _ _ (backend_count_sat [n] a h ltac:(discriminate) b eq_refl)) as (v & _ & _ & Ht). exact Ht.
Qed.

(* iterators: every step loads only inside the haystack *)
Theorem C05_iter : forall (b : backend) ns a h ops,
  ns <> [] -> bytes_ok h -> bytes_ok ns -> (In OCount ops -> length ns = 1) ->
  loads_ok a (length h) 0 0 (snd (iter_run b ns a h ops (iter_new h))).
Proof.
  intros b ns a h ops H1 H2 H3 H4.
  destruct (satq_fst _ _ _ (iter_run_sat b ns a h H1 H2 H3 ops (iter_new h) (inv_new h) H4)) as (v & _ & _ & Ht).
  exact Ht.
Qed.

(* is_equal / is_prefix / is_suffix: see Props/C18.v (C18_is_equal etc. include loads_ok) *)

(* Rabin-Karp with ANY finder (e.g. built from another needle) and any argument needle *)
Theorem C05_rabinkarp_foreign : forall (f : rkfinder) x h a an,
  (exists r, fst (rk_find f x h) = Ok r) /\ loads_ok a (length h) an (length x) (snd (rk_find f x h)) /\
  (exists r, fst (rk_rfind f x h) = Ok r) /\ loads_ok a (length h) an (length x) (snd (rk_rfind f x h)).
Proof.
  intros f x h a an.
  destruct (satq_fst _ _ _ (rk_find_safe f x h)) as (v & Hv & _ & Ht).
  destruct (satq_fst _ _ _ (rk_rfind_safe f x h)) as (v' & Hv' & _ & Ht').
  split; [eexists; exact Hv|]. split; [eapply Forall_impl; [|exact Ht]; intros e He; apply He|].
  split; [eexists; exact Hv'|]. eapply Forall_impl; [|exact Ht']. intros e He. apply He.
Qed.

(* packed-pair find with an ARBITRARY argument needle (longer than the haystack included):
   all loads in bounds; the only possible panic is a debug assertion *)
Theorem C05_packedpair_foreign : forall isa x i1 i2 w h x' a an,
  pw_new isa x i1 i2 = Ok w -> pw_min w <= length h ->
  safe_or_assert65 (load_ok a (length h) an (length x')) (pw_find w h x').
Proof. exact (pw_find_safe_any C05_guard_form). Qed.

(* ... and below min_haystack_len it panics before any load *)
Theorem C05_packedpair_short : forall isa x i1 i2 w h x',
  pw_new isa x i1 i2 = Ok w -> length h < pw_min w -> exists t, fst (pw_find w h x') = Panic (AssertFail t).
Proof. exact pw_find_panics. Qed.

(* prefilters *)
Theorem C05_vector_prefilter : forall isa x i1 i2 w h a an,
  pw_new isa x i1 i2 = Ok w -> pw_min w <= length h ->
  loads_ok a (length h) an (length x) (snd (pw_find_prefilter w h)).
Proof.
  intros isa x i1 i2 w h a an Hw Hm.
  destruct (satq_fst _ _ _ (pw_prefilter_correct isa x i1 i2 w h a an Hw Hm)) as (r & _ & _ & Ht). exact Ht.
Qed.

Theorem C05_portable_prefilter : forall c x i1 i2 f a h,
  pf_new x i1 i2 = Ok f -> bytes_ok h -> bytes_ok x ->
  loads_ok a (length h) 0 0 (snd (pf_find_prefilter c f a h)).
Proof.
  intros c x i1 i2 f a h Hf Hh Hx.
  destruct (satq_fst _ _ _ (pf_prefilter_correct c x i1 i2 f a h Hf Hh Hx)) as (r & _ & _ & Ht). exact Ht.
Qed.

(* Two-Way preprocessing: its only raw loads (is_suffix / is_prefix) are inside the needle *)
Theorem C05_twoway_new : forall x an,
  loads_ok 0 0 an (length x) (snd (tw_new x)) /\ loads_ok 0 0 an (length x) (snd (tw_new_rev x)).
Proof.
  intros x an. split.
  - destruct (satq_fst _ _ _ (tw_new_ok x)) as (r & _ & _ & Ht).
    eapply Forall_impl; [|exact Ht]. intros e He. apply He.
  - destruct (satq_fst _ _ _ (tw_new_rev_ok x)) as (r & _ & _ & Ht).
    eapply Forall_impl; [|exact Ht]. intros e He. apply He.
Qed.

(* Shift-Or performs no raw loads at all (bounds-checked indexing only) *)
Theorem C05_shiftor : forall x h f, bytes_ok x -> bytes_ok h ->
  so_new x = (Ok (Some f), [Alloc]) -> no_loads (snd (so_find f h)).
Proof.
  intros x h f Hx Hh Hf. destruct (satq_fst _ _ _ (so_find_correct x h f Hx Hh Hf)) as (v & _ & _ & Ht).
  eapply Forall_impl; [|exact Ht]. intros e. destruct e; tauto.
Qed.

Print Assumptions C05_memchr.
Print Assumptions C05_count.
Print Assumptions C05_iter.
Print Assumptions C05_rabinkarp_foreign.
Print Assumptions C05_packedpair_foreign.
Print Assumptions C05_packedpair_short.
Print Assumptions C05_vector_prefilter.
Print Assumptions C05_portable_prefilter.
Print Assumptions C05_twoway_new.
Print Assumptions C05_shiftor.
