(* C08  Substring iterators yield the greedy non-overlapping match sequence. *)
From Memchr Require Import Spec SpecProofs Params Sub.Prefilter Sub.TwoWay Sub.TwoWayCert
  Sub.Searcher Sub.SearcherProofs Sub.FindIter Sub.FindIterProofs Sub.TwoWayTier2 Sub.TwoWayTier2Rev.

Example C08_saturating_multiply : pre_mul_saturating = true.
Proof. reflexivity. Qed.

(* find_iter: k calls of next() (size_hint taken before each call) on any finder configuration:
   the outputs are the greedy sequence followed by None forever, and every size_hint brackets
   the number of matches still to come *)
Theorem C08_find_iter_partial : forall cfg rank ar x h a an f k,
  bytes_ok x -> bytes_ok h ->
  fst (finder_new cfg rank ar x) = Ok f ->
  (tw_reach_fwd ar x = true -> tw_cert_fwd_of x = true) ->
  exists outs, fst (fiter_run ar f a h k fiter_new) = Ok outs /\ length outs = k /\
               outs_ok outs (greedy_seq x h) /\
               loads_ok a (length h) an (length x) (snd (fiter_run ar f a h k fiter_new)).
Proof.
  intros cfg rank ar x h a an f k Hx Hh Hf Hc.
  destruct (satq_fst _ _ _ (fiter_run_sat cfg rank ar x h a an f Hx Hh Hf Hc C08_saturating_multiply k fiter_new
                              (length h + 2) ltac:(cbn; lia))) as (outs & Ho & (Hl & Hok) & Ht).
  exists outs. split; [exact Ho|]. split; [exact Hl|]. split; [exact Hok|exact Ht].
Qed.

(* rfind_iter *)
Theorem C08_rfind_iter_partial : forall ar x h a f k,
  bytes_ok x -> bytes_ok h ->
  fst (rfinder_new x) = Ok f ->
  (tw_reach_rev x = true -> tw_cert_rev_of x = true) ->
  exists outs, fst (riter_run ar f a h k (riter_new h)) = Ok outs /\ length outs = k /\
               routs_ok outs (rgreedy_seq x h).
Proof.
  intros ar x h a f k Hx Hh Hf Hc.
  destruct (satq_fst _ _ _ (riter_run_sat ar x h a 0 f Hx Hh Hf Hc k (length h) (length h + 2) ltac:(lia) ltac:(lia)))
    as (outs & Ho & (Hl & Hok) & _).
  exists outs. split; [exact Ho|]. split; [exact Hl|exact Hok].
Qed.

(* what outs_ok says: the i-th output is the i-th element of the sequence, None once it is exhausted,
   and the hint taken before the i-th call brackets the number of elements not yet yielded *)
Theorem C08_outs_meaning : forall outs rest i o sh,
  outs_ok outs rest -> nth_error outs i = Some (o, sh) ->
  o = nth_error rest i /\ fst sh <= length rest - i <= snd sh.
Proof.
  induction outs as [|[o0 sh0] t IH]; intros rest i o sh Hok Hi; [destruct i; discriminate|].
  cbn [outs_ok] in Hok. destruct Hok as (Hh & Ho & Ht).
  destruct i as [|i]; cbn in Hi.
  - injection Hi as <- <-. split; [destruct rest; exact Ho|]. unfold hint_ok in Hh. lia.
  - destruct (IH (tl rest) i o sh Ht Hi) as [A B]. split.
    + rewrite A. destruct rest; [destruct i; reflexivity|reflexivity].
    + destruct rest; cbn in *; lia.
Qed.

(* the greedy sequence: each element is the leftmost occurrence at or after the resume point *)
Theorem C08_greedy_step : forall fuel x h from,
  greedy (S fuel) x h from =
  if length h <? from then []
  else match find_spec x (skipn from h) with
       | None => []
       | Some i => (from + i) :: greedy fuel x h (from + i + Nat.max (length x) 1)
       end.
Proof. reflexivity. Qed.

Theorem C08_empty_needle : forall h, greedy_seq [] h = seq 0 (length h + 1).
Proof.
  intros h. unfold greedy_seq.
  rewrite (greedy_empty_needle [] h eq_refl (length h + 2) 0 ltac:(lia) ltac:(lia)). f_equal. lia.
Qed.

Theorem C08_rgreedy_step : forall fuel x h p,
  rgreedy (S fuel) x h p =
  match rfind_spec x (firstn p h) with
  | None => []
  | Some i => i :: (if p =? i then match p with 0 => [] | S p' => rgreedy fuel x h p' end
                    else rgreedy fuel x h i)
  end.
Proof. reflexivity. Qed.

Lemma rgreedy_empty : forall fuel h p, p <= length h -> p + 1 < fuel ->
  rgreedy fuel [] h p = rev (seq 0 (p + 1)).
Proof.
  induction fuel as [|fu IH]; intros h p Hp Hf; [lia|]. cbn [rgreedy].
  rewrite rfind_spec_empty, firstn_length. replace (Nat.min p (length h)) with p by lia.
  rewrite Nat.eqb_refl. destruct p as [|p'].
  - reflexivity.
  - rewrite IH by lia. replace (S p' + 1) with (S (p' + 1)) by lia.
    rewrite seq_S. rewrite rev_app_distr. cbn. f_equal. lia.
Qed.

Theorem C08_rev_empty_needle : forall h, rgreedy_seq [] h = rev (seq 0 (length h + 1)).
Proof. intros h. unfold rgreedy_seq. apply rgreedy_empty; lia. Qed.

(* non-vacuity: a self-overlapping needle in a repetitive haystack *)
Example C08_example :
  greedy_seq [1;2;1]%N [1;2;1;2;1;2;1;9;1;2;1]%N = [0; 4; 8] /\
  rgreedy_seq [1;2;1]%N [1;2;1;2;1;2;1;9;1;2;1]%N = [8; 4; 0].
Proof. vm_compute. split; reflexivity. Qed.

Lemma fwd_cert_always : forall ar x, tw_reach_fwd ar x = true -> tw_cert_fwd_of x = true.
Proof.
  intros ar x H. apply tw_cert_fwd_all. unfold tw_reach_fwd in H. apply andb_true_iff in H as [H _].
  apply Nat.leb_le in H. lia.
Qed.
Lemma rev_cert_always : forall x, tw_reach_rev x = true -> tw_cert_rev_of x = true.
Proof. intros x H. apply tw_cert_rev_all. unfold tw_reach_rev in H. apply Nat.leb_le in H. lia. Qed.

(* unconditional forms (Tier 2) *)
Theorem C08_find_iter : forall cfg rank ar x h a an f k,
  bytes_ok x -> bytes_ok h ->
  fst (finder_new cfg rank ar x) = Ok f ->
  exists outs, fst (fiter_run ar f a h k fiter_new) = Ok outs /\ length outs = k /\
               outs_ok outs (greedy_seq x h) /\
               loads_ok a (length h) an (length x) (snd (fiter_run ar f a h k fiter_new)).
Proof. intros cfg rank ar x h a an f k Hx Hh Hf. apply (C08_find_iter_partial cfg rank ar x h a an f k Hx Hh Hf). apply fwd_cert_always. Qed.

Theorem C08_rfind_iter : forall ar x h a f k,
  bytes_ok x -> bytes_ok h ->
  fst (rfinder_new x) = Ok f ->
  exists outs, fst (riter_run ar f a h k (riter_new h)) = Ok outs /\ length outs = k /\
               routs_ok outs (rgreedy_seq x h).
Proof. intros ar x h a f k Hx Hh Hf. apply (C08_rfind_iter_partial ar x h a f k Hx Hh Hf). apply rev_cert_always. Qed.

Print Assumptions C08_find_iter.
Print Assumptions C08_rfind_iter.
Print Assumptions C08_find_iter_partial.
Print Assumptions C08_rfind_iter_partial.
Print Assumptions C08_outs_meaning.
Print Assumptions C08_empty_needle.
Print Assumptions C08_rev_empty_needle.
Print Assumptions C08_greedy_step.
Print Assumptions C08_rgreedy_step.
