(* C04  Reverse substring search returns exactly the rightmost occurrence. *)
From Memchr Require Import Spec SpecProofs Params Sub.TwoWay Sub.TwoWayCert Sub.Searcher Sub.SearcherProofs Sub.RabinKarp Sub.TwoWayTier2 Sub.TwoWayTier2Rev.

Theorem C04_spec_some : forall x h i,
  rfind_spec x h = Some i <-> occurs_at x h i = true /\ forall j, i < j -> occurs_at x h j = false.
Proof. exact rfind_spec_some. Qed.
Theorem C04_spec_none : forall x h, rfind_spec x h = None <-> forall j, occurs_at x h j = false.
Proof. exact rfind_spec_none. Qed.
Theorem C04_empty_needle : forall h, rfind_spec [] h = Some (length h).
Proof. exact rfind_spec_empty. Qed.

(* memmem::rfind on every architecture. Tier 1: needles of 2 bytes or more (all of which reach the
   reverse Two-Way searcher on haystacks of 64 bytes or more) carry the certificate tw_cert_rev_of. *)
Theorem C04_memmem_rfind_partial : forall ar a an h x,
  bytes_ok x -> bytes_ok h ->
  (tw_reach_rev x = true -> tw_cert_rev_of x = true) ->
  fst (memmem_rfind ar a h x) = Ok (rfind_spec x h) /\
  loads_ok a (length h) an (length x) (snd (memmem_rfind ar a h x)).
Proof.
  intros ar a an h x Hx Hh Hc.
  destruct (satq_fst _ _ _ (memmem_rfind_correct ar x h a an Hx Hh Hc)) as (v & Hv & -> & Ht). split; assumption.
Qed.


Theorem C04_finder_rev_partial : forall ar a h x,
  bytes_ok x -> bytes_ok h ->
  (tw_reach_rev x = true -> tw_cert_rev_of x = true) ->
  fst (f <- rfinder_new x;; rfinder_rfind ar f a h) = Ok (rfind_spec x h).
Proof.
  intros ar a h x Hx Hh Hc.
  destruct (satq_fst _ _ _ (rfinder_rfind_correct ar x h a 0 Hx Hh Hc)) as (v & Hv & -> & _). exact Hv.
Qed.

Fixpoint words3 (n : nat) : list (list N) :=
  match n with
  | 0 => [[]]
  | S n' => flat_map (fun w => [1 :: w; 2 :: w; 3 :: w]%N) (words3 n')
  end.
Example C04_cert_sweep :
  forallb (fun n => forallb tw_cert_rev_of (words3 n)) [1;2;3;4;5;6;7] = true.
Proof. vm_compute. reflexivity. Qed.

Example C04_example :
  fst (memmem_rfind (AX86 HasAvx2) 3 ([1;2;1;2]%N ++ repeat 9%N 70 ++ [1;2;1;2;1]%N) [1;2;1;2]%N) = Ok (Some 74).
Proof. vm_compute. reflexivity. Qed.

(* Tier 2: the reverse preprocessing is the mirror image of the forward preprocessing of the reversed
   needle (Sub/TwoWayTier2Rev.v), so the reverse certificate holds for every non-empty needle *)
Lemma rev_cert_always : forall x, tw_reach_rev x = true -> tw_cert_rev_of x = true.
Proof. intros x H. apply tw_cert_rev_all. unfold tw_reach_rev in H. apply Nat.leb_le in H. lia. Qed.

(* memmem::rfind and FinderRev::rfind: EVERY needle, haystack, architecture, start address *)
Theorem C04_memmem_rfind : forall ar a an h x,
  bytes_ok x -> bytes_ok h ->
  fst (memmem_rfind ar a h x) = Ok (rfind_spec x h) /\
  loads_ok a (length h) an (length x) (snd (memmem_rfind ar a h x)).
Proof. intros ar a an h x Hx Hh. apply C04_memmem_rfind_partial; [exact Hx|exact Hh|apply rev_cert_always]. Qed.

Theorem C04_finder_rev : forall ar a h x,
  bytes_ok x -> bytes_ok h ->
  fst (f <- rfinder_new x;; rfinder_rfind ar f a h) = Ok (rfind_spec x h).
Proof. intros ar a h x Hx Hh. apply C04_finder_rev_partial; [exact Hx|exact Hh|apply rev_cert_always]. Qed.

Print Assumptions C04_memmem_rfind.
Print Assumptions C04_finder_rev.
Print Assumptions C04_memmem_rfind_partial.
Print Assumptions C04_finder_rev_partial.
Print Assumptions C04_spec_some.
Print Assumptions C04_spec_none.
Print Assumptions C04_empty_needle.
