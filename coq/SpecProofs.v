(* Characterisation of the substring specifications. *)
From Memchr Require Import Spec.

Lemma occurs_at_bound x h i : occurs_at x h i = true -> i + length x <= length h.
Proof. unfold occurs_at. intros H. apply andb_true_iff in H as [H _]. apply Nat.leb_le. exact H. Qed.

Lemma occurs_at_eq x h i : occurs_at x h i = true <-> i + length x <= length h /\ slice h i (length x) = x.
Proof. unfold occurs_at. rewrite andb_true_iff, Nat.leb_le, list_eqb_eq. tauto. Qed.

Lemma first_idx_seq0 (p : nat -> bool) n i :
  first_idx p (seq 0 n) = Some i <-> i < n /\ p i = true /\ forall j, j < i -> p j = false.
Proof.
  rewrite (first_idx_some p (seq 0 n) i 0), seq_length. split.
  - intros (H1 & H2 & H3). rewrite seq_nth in H2 by exact H1. cbn in H2.
    repeat split; try assumption. intros j Hj. specialize (H3 j Hj). rewrite seq_nth in H3 by lia. exact H3.
  - intros (H1 & H2 & H3). repeat split; try assumption.
    + rewrite seq_nth by exact H1. exact H2.
    + intros j Hj. rewrite seq_nth by lia. apply H3. exact Hj.
Qed.

Lemma first_idx_seq0_none (p : nat -> bool) n :
  first_idx p (seq 0 n) = None <-> forall j, j < n -> p j = false.
Proof.
  rewrite first_idx_none, Forall_forall. split.
  - intros H j Hj. apply H. apply in_seq. lia.
  - intros H x Hx. apply in_seq in Hx. apply H. lia.
Qed.

Lemma last_idx_seq0 (p : nat -> bool) n i :
  last_idx p (seq 0 n) = Some i <-> i < n /\ p i = true /\ forall j, i < j -> j < n -> p j = false.
Proof.
  rewrite (last_idx_some p (seq 0 n) i 0), seq_length. split.
  - intros (H1 & H2 & H3). rewrite seq_nth in H2 by exact H1. cbn in H2.
    repeat split; try assumption. intros j Hj Hn. specialize (H3 j Hj Hn). rewrite seq_nth in H3 by lia. exact H3.
  - intros (H1 & H2 & H3). repeat split; try assumption.
    + rewrite seq_nth by exact H1. exact H2.
    + intros j Hj Hn. rewrite seq_nth by lia. apply H3; assumption.
Qed.

(* leftmost occurrence *)
Theorem find_spec_some x h i :
  find_spec x h = Some i <-> occurs_at x h i = true /\ forall j, j < i -> occurs_at x h j = false.
Proof.
  unfold find_spec. destruct (length x <=? length h) eqn:E.
  - apply Nat.leb_le in E. rewrite first_idx_seq0. split.
    + intros (H1 & H2 & H3). split; assumption.
    + intros (H2 & H3). pose proof (occurs_at_bound _ _ _ H2). repeat split; try assumption. lia.
  - apply Nat.leb_gt in E. split; [discriminate|]. intros [H _]. apply occurs_at_bound in H. lia.
Qed.

Theorem find_spec_none x h : find_spec x h = None <-> forall j, occurs_at x h j = false.
Proof.
  unfold find_spec. destruct (length x <=? length h) eqn:E.
  - apply Nat.leb_le in E. rewrite first_idx_seq0_none. split.
    + intros H j. destruct (occurs_at x h j) eqn:Ej; [|reflexivity].
      pose proof (occurs_at_bound _ _ _ Ej). rewrite <- Ej. apply H. lia.
    + intros H j _. apply H.
  - apply Nat.leb_gt in E. split; [|reflexivity]. intros _ j.
    destruct (occurs_at x h j) eqn:Ej; [|reflexivity]. apply occurs_at_bound in Ej. lia.
Qed.

(* rightmost occurrence *)
Theorem rfind_spec_some x h i :
  rfind_spec x h = Some i <-> occurs_at x h i = true /\ forall j, i < j -> occurs_at x h j = false.
Proof.
  unfold rfind_spec. destruct (length x <=? length h) eqn:E.
  - apply Nat.leb_le in E. rewrite last_idx_seq0. split.
    + intros (H1 & H2 & H3). split; [exact H2|]. intros j Hj.
      destruct (occurs_at x h j) eqn:Ej; [|reflexivity].
      pose proof (occurs_at_bound _ _ _ Ej). rewrite <- Ej. apply H3; lia.
    + intros (H2 & H3). pose proof (occurs_at_bound _ _ _ H2). repeat split; try assumption; [lia|].
      intros j Hj _. apply H3. exact Hj.
  - apply Nat.leb_gt in E. split; [discriminate|]. intros [H _]. apply occurs_at_bound in H. lia.
Qed.

Theorem rfind_spec_none x h : rfind_spec x h = None <-> forall j, occurs_at x h j = false.
Proof.
  unfold rfind_spec. destruct (length x <=? length h) eqn:E.
  - apply Nat.leb_le in E. rewrite last_idx_none, <- first_idx_none, first_idx_seq0_none. split.
    + intros H j. destruct (occurs_at x h j) eqn:Ej; [|reflexivity].
      pose proof (occurs_at_bound _ _ _ Ej). rewrite <- Ej. apply H. lia.
    + intros H j _. apply H.
  - apply Nat.leb_gt in E. split; [|reflexivity]. intros _ j.
    destruct (occurs_at x h j) eqn:Ej; [|reflexivity]. apply occurs_at_bound in Ej. lia.
Qed.

(* the empty needle matches at 0 resp. at the end *)
Theorem find_spec_empty h : find_spec [] h = Some 0.
Proof. apply find_spec_some. split; [reflexivity|]. intros j Hj. lia. Qed.

Theorem rfind_spec_empty h : rfind_spec [] h = Some (length h).
Proof.
  apply rfind_spec_some. split.
  - unfold occurs_at. cbn. rewrite Nat.add_0_r, Nat.leb_refl. reflexivity.
  - intros j Hj. unfold occurs_at. cbn. rewrite Nat.add_0_r.
    assert (j <=? length h = false) as -> by (apply Nat.leb_gt; lia). reflexivity.
Qed.
