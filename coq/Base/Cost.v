(* Elementary steps: every raw load (a vector chunk, a word, a byte, one 4/2/1-byte
   piece of a memcmp) and every loop tick counts 1; labels and allocations 0.
   The Rust hooks record the same events, and the correspondence compares them
   one by one, so a bound on `cost` of the model's trace is a bound on what the
   code does on the compared inputs. *)
From Memchr Require Export Base.Res.

Definition is_step (e : event) : bool :=
  match e with
  | Load _ _ _ _ => true
  | Tick _ => true
  | _ => false
  end.

Definition cost (t : list event) : nat := length (filter is_step t).

Lemma cost_nil : cost [] = 0.
Proof. reflexivity. Qed.

Lemma cost_app t1 t2 : cost (t1 ++ t2) = cost t1 + cost t2.
Proof. unfold cost. rewrite filter_app, app_length. reflexivity. Qed.

Lemma cost_cons e t : cost (e :: t) = (if is_step e then 1 else 0) + cost t.
Proof. unfold cost. cbn [filter]. destruct (is_step e); reflexivity. Qed.

Lemma cost_map_shift (f : event -> event) t :
  (forall e, is_step (f e) = is_step e) -> cost (map f t) = cost t.
Proof.
  intros H. induction t as [|e t IH]; [reflexivity|]. cbn [map]. rewrite !cost_cons, H, IH. reflexivity.
Qed.

(* satc m P: m returns normally with a value v and a trace of cost c such that P v c *)
Definition satc {A} (m : M A) (P : A -> nat -> Prop) : Prop :=
  exists v, fst m = Ok v /\ P v (cost (snd m)).

Lemma satc_ret {A} (a : A) (P : A -> nat -> Prop) : P a 0 -> satc (ret a) P.
Proof. intros H. exists a. split; [reflexivity|exact H]. Qed.

Lemma satc_bind {A B} (m : M A) (f : A -> M B) (P1 : A -> nat -> Prop) (P2 : B -> nat -> Prop) :
  satc m P1 -> (forall v c1, P1 v c1 -> satc (f v) (fun w c2 => P2 w (c1 + c2))) -> satc (bind m f) P2.
Proof.
  intros (v & Hv & HP) Hf. destruct (Hf v _ HP) as (w & Hw & HP2).
  exists w. unfold bind. rewrite Hv. cbn [fst snd]. split; [exact Hw|]. rewrite cost_app. exact HP2.
Qed.

Lemma satc_weaken {A} (m : M A) (P Q : A -> nat -> Prop) :
  satc m P -> (forall v c, P v c -> Q v c) -> satc m Q.
Proof. intros (v & Hv & HP) H. exists v. split; auto. Qed.

Lemma satc_lift {A} (r : res A) v (P : A -> nat -> Prop) : r = Ok v -> P v 0 -> satc (lift r) P.
Proof. intros -> H. exists v. split; [reflexivity|exact H]. Qed.

Lemma satc_guard tag b (P : unit -> nat -> Prop) : b = true -> P tt 0 -> satc (guard tag b) P.
Proof. intros -> H. exists tt. split; [reflexivity|exact H]. Qed.

Lemma satc_load r l off w al (P : list N -> nat -> Prop) :
  off + w <= length l -> P (slice l off w) 1 -> satc (load r l off w al) P.
Proof.
  intros Hle H. unfold load. apply Nat.leb_le in Hle. rewrite Hle. exists (slice l off w). split; [reflexivity|exact H].
Qed.

Lemma satc_tick k (P : unit -> nat -> Prop) : P tt 1 -> satc (tick k) P.
Proof. intros H. exists tt. split; [reflexivity|exact H]. Qed.

Lemma satc_label l (P : unit -> nat -> Prop) : P tt 0 -> satc (emit (Label l)) P.
Proof. intros H. exists tt. split; [reflexivity|exact H]. Qed.

(* canonical forms for eapply satc_bind *)
Lemma satc_load_eq r l off w al :
  off + w <= length l -> satc (load r l off w al) (fun v c => v = slice l off w /\ c = 1).
Proof. intros H. apply satc_load; [exact H|]. split; reflexivity. Qed.

Lemma satc_lift_eq {A} (r : res A) v : r = Ok v -> satc (lift r) (fun w c => w = v /\ c = 0).
Proof. intros H. eapply satc_lift; [exact H|]. split; reflexivity. Qed.

Lemma satc_guard_eq tag b : b = true -> satc (guard tag b) (fun _ c => c = 0).
Proof. intros H. apply satc_guard; [exact H|reflexivity]. Qed.

Lemma satc_tick_eq k : satc (tick k) (fun _ c => c = 1).
Proof. apply satc_tick. reflexivity. Qed.

(* from a result/safety theorem one gets the value; cost needs its own induction *)
Lemma satc_fst {A} (m : M A) P : satc m P -> exists v, fst m = Ok v /\ P v (cost (snd m)).
Proof. exact (fun x => x). Qed.
