(* usize words of w bytes as the SWAR code of src/arch/all/memchr.rs sees them
   (little-endian; definitions only, lemmas in Base/WordProofs.v). *)
From Memchr Require Export Base.Res.

Fixpoint le_word (l : list N) : N :=
  match l with
  | [] => 0
  | b :: t => b + 256 * le_word t
  end%N.

Definition word_mod (w : nat) : N := (2 ^ (8 * N.of_nat w))%N.

(* const fn splat(b: u8) -> usize { (b as usize) * (usize::MAX / 255) } *)
Definition splat (w : nat) (b : N) : N := (b * ((word_mod w - 1) / 255))%N.

(* (x.wrapping_sub(LO) & !x & HI) != 0 *)
Definition has_zero_byte (w : nat) (x : N) : bool :=
  let m := word_mod w in
  let lo := splat w 1 in
  let hi := splat w 128 in
  let sub := ((x + m - lo) mod m)%N in          (* wrapping_sub *)
  let notx := N.lxor x (m - 1) in               (* !x on w bytes *)
  negb (N.land (N.land sub notx) hi =? 0)%N.

(* has_needle(chunk) = has_zero_byte(v1 ^ chunk) || ... *)
Definition has_needle (w : nat) (needles : list N) (chunk : list N) : bool :=
  existsb (fun b => has_zero_byte w (N.lxor (splat w b) (le_word chunk))) needles.
