(* List utilities shared by the models and the specifications. *)
From Memchr Require Export Base.Res.

Fixpoint first_idx {A} (p : A -> bool) (l : list A) : option nat :=
  match l with
  | [] => None
  | x :: t => if p x then Some 0 else option_map S (first_idx p t)
  end.

Fixpoint last_idx {A} (p : A -> bool) (l : list A) : option nat :=
  match l with
  | [] => None
  | x :: t =>
      match last_idx p t with
      | Some i => Some (S i)
      | None => if p x then Some 0 else None
      end
  end.

Fixpoint count_p {A} (p : A -> bool) (l : list A) : nat :=
  match l with
  | [] => 0
  | x :: t => (if p x then 1 else 0) + count_p p t
  end.

Fixpoint list_eqb (x y : list N) : bool :=
  match x, y with
  | [], [] => true
  | a :: x', b :: y' => N.eqb a b && list_eqb x' y'
  | _, _ => false
  end.

Lemma list_eqb_eq x y : list_eqb x y = true <-> x = y.
Proof.
  revert y; induction x as [|a x IH]; intros [|b y]; cbn; split; try congruence; try reflexivity.
  - intros H. apply andb_true_iff in H as [H1 H2]. apply N.eqb_eq in H1. apply IH in H2. congruence.
  - intros H. injection H as -> ->. rewrite N.eqb_refl. cbn. apply IH. reflexivity.
Qed.

Lemma list_eqb_refl x : list_eqb x x = true.
Proof. apply list_eqb_eq. reflexivity. Qed.

Lemma list_eqb_neq x y : list_eqb x y = false <-> x <> y.
Proof.
  split.
  - intros H E. apply list_eqb_eq in E. congruence.
  - intros H. destruct (list_eqb x y) eqn:E; [|reflexivity]. apply list_eqb_eq in E. contradiction.
Qed.

Lemma list_eqb_app x1 x2 y1 y2 :
  length x1 = length y1 ->
  list_eqb (x1 ++ x2) (y1 ++ y2) = list_eqb x1 y1 && list_eqb x2 y2.
Proof.
  revert y1; induction x1 as [|a x1 IH]; intros [|b y1] H; cbn in *; try discriminate.
  - reflexivity.
  - rewrite IH by lia. rewrite andb_assoc. reflexivity.
Qed.

(* ---- slices ---- *)
Lemma slice_length {A} (l : list A) off w : off + w <= length l -> length (slice l off w) = w.
Proof. intros H. unfold slice. rewrite firstn_length, skipn_length. lia. Qed.

Lemma slice_0 {A} (l : list A) w : slice l 0 w = firstn w l.
Proof. reflexivity. Qed.

Lemma skipn_skipn' {A} (l : list A) a b : skipn a (skipn b l) = skipn (b + a) l.
Proof.
  revert l; induction b as [|b IH]; intros l; cbn; [reflexivity|].
  destruct l as [|x l]; [now rewrite skipn_nil|apply IH].
Qed.

Lemma firstn_split_at {A} (l : list A) a b :
  firstn (a + b) l = firstn a l ++ firstn b (skipn a l).
Proof.
  revert l; induction a as [|a IH]; intros l; cbn; [reflexivity|].
  destruct l as [|x l]; cbn; [now rewrite firstn_nil|]. now rewrite IH.
Qed.

Lemma slice_split {A} (l : list A) off a b :
  slice l off (a + b) = slice l off a ++ slice l (off + a) b.
Proof. unfold slice. rewrite firstn_split_at, skipn_skipn'. reflexivity. Qed.

Lemma slice_all {A} (l : list A) : slice l 0 (length l) = l.
Proof. unfold slice. cbn. apply firstn_all. Qed.

Lemma slice_slice {A} (l : list A) o1 w1 o2 w2 :
  o2 + w2 <= w1 -> slice (slice l o1 w1) o2 w2 = slice l (o1 + o2) w2.
Proof.
  intros H. unfold slice. rewrite skipn_firstn_comm, firstn_firstn, skipn_skipn'.
  f_equal. lia.
Qed.

Lemma nth_firstn' {A} (l : list A) n i d : i < n -> nth i (firstn n l) d = nth i l d.
Proof.
  revert l i; induction n as [|n IH]; intros l i H; [lia|].
  destruct l as [|x l]; cbn; [reflexivity|]. destruct i as [|i]; [reflexivity|]. apply IH. lia.
Qed.

Lemma nth_skipn' {A} (l : list A) n i d : nth i (skipn n l) d = nth (n + i) l d.
Proof.
  revert l; induction n as [|n IH]; intros l; cbn; [reflexivity|].
  destruct l; cbn; [destruct i; reflexivity|apply IH].
Qed.

Lemma nth_slice {A} (l : list A) off w i d : i < w -> nth i (slice l off w) d = nth (off + i) l d.
Proof. intros H. unfold slice. rewrite nth_firstn' by exact H. apply nth_skipn'. Qed.

(* ---- first_idx ---- *)
Lemma first_idx_app {A} (p : A -> bool) l1 l2 :
  first_idx p (l1 ++ l2) =
  match first_idx p l1 with
  | Some i => Some i
  | None => option_map (Nat.add (length l1)) (first_idx p l2)
  end.
Proof.
  induction l1 as [|x l1 IH]; cbn.
  - destruct (first_idx p l2); reflexivity.
  - destruct (p x); [reflexivity|]. rewrite IH.
    destruct (first_idx p l1); cbn; [reflexivity|].
    destruct (first_idx p l2); reflexivity.
Qed.

Lemma first_idx_none {A} (p : A -> bool) l :
  first_idx p l = None <-> Forall (fun x => p x = false) l.
Proof.
  induction l as [|x l IH]; cbn.
  - split; auto.
  - destruct (p x) eqn:E.
    + split; [discriminate|]. intros H. inversion H; congruence.
    + destruct (first_idx p l) eqn:F; cbn; split; try discriminate.
      * intros H. inversion H; subst. apply IH in H3. discriminate.
      * intros _. constructor; [exact E|]. apply IH. reflexivity.
      * reflexivity.
Qed.

Lemma first_idx_some {A} (p : A -> bool) l i d :
  first_idx p l = Some i <->
  i < length l /\ p (nth i l d) = true /\ forall j, j < i -> p (nth j l d) = false.
Proof.
  revert i; induction l as [|x l IH]; intros i; cbn.
  - split; [discriminate|]. intros [H _]. lia.
  - destruct (p x) eqn:E.
    + split.
      * intros [= <-]. repeat split; [lia|exact E|]. intros j Hj. lia.
      * intros (H1 & H2 & H3). destruct i as [|i]; [reflexivity|].
        specialize (H3 0 ltac:(lia)). cbn in H3. congruence.
    + split.
      * intros H. destruct (first_idx p l) as [k|] eqn:F; cbn in H; [|discriminate].
        injection H as <-. destruct (proj1 (IH k) eq_refl) as (H1 & H2 & H3).
        repeat split; [lia|exact H2|]. intros [|j] Hj; [exact E|]. apply H3. lia.
      * intros (H1 & H2 & H3). destruct i as [|i]; [congruence|].
        assert (first_idx p l = Some i) as G.
        { apply IH. repeat split; [lia|exact H2|]. intros j Hj. apply (H3 (S j)). lia. }
        rewrite G. reflexivity.
Qed.

Lemma first_idx_lt {A} (p : A -> bool) l i : first_idx p l = Some i -> i < length l.
Proof.
  revert i; induction l as [|x l IH]; cbn; intros i; [discriminate|].
  destruct (p x); [intros [= <-]; lia|].
  destruct (first_idx p l) eqn:F; cbn; [|discriminate]. intros [= <-].
  specialize (IH _ eq_refl). lia.
Qed.

Lemma first_idx_ext {A} (p q : A -> bool) l :
  (forall x, p x = q x) -> first_idx p l = first_idx q l.
Proof. intros H. induction l as [|x l IH]; cbn; [reflexivity|]. rewrite H, IH. reflexivity. Qed.

(* first_idx on a prefix-extended list: a hit in a prefix is the hit *)
Lemma first_idx_prefix_some {A} (p : A -> bool) l1 l2 i :
  first_idx p l1 = Some i -> first_idx p (l1 ++ l2) = Some i.
Proof. intros H. rewrite first_idx_app, H. reflexivity. Qed.

(* ---- last_idx ---- *)
Lemma last_idx_app {A} (p : A -> bool) l1 l2 :
  last_idx p (l1 ++ l2) =
  match last_idx p l2 with
  | Some i => Some (length l1 + i)
  | None => last_idx p l1
  end.
Proof.
  induction l1 as [|x l1 IH]; cbn.
  - destruct (last_idx p l2); reflexivity.
  - rewrite IH. destruct (last_idx p l2); [reflexivity|reflexivity].
Qed.

Lemma last_idx_none {A} (p : A -> bool) l :
  last_idx p l = None <-> Forall (fun x => p x = false) l.
Proof.
  induction l as [|x l IH]; cbn.
  - split; auto.
  - destruct (last_idx p l) eqn:F.
    + split; [discriminate|]. intros H. inversion H; subst.
      apply IH in H3. discriminate.
    + destruct (p x) eqn:E; split; try discriminate.
      * intros H. inversion H; congruence.
      * intros _. constructor; [exact E|]. apply IH. reflexivity.
      * reflexivity.
Qed.

Lemma last_idx_lt {A} (p : A -> bool) l i : last_idx p l = Some i -> i < length l.
Proof.
  revert i; induction l as [|x l IH]; cbn; intros i; [discriminate|].
  destruct (last_idx p l) eqn:F.
  - intros [= <-]. specialize (IH _ eq_refl). lia.
  - destruct (p x); [intros [= <-]; lia|discriminate].
Qed.

Lemma last_idx_some {A} (p : A -> bool) l i d :
  last_idx p l = Some i <->
  i < length l /\ p (nth i l d) = true /\ forall j, i < j -> j < length l -> p (nth j l d) = false.
Proof.
  revert i; induction l as [|x l IH]; intros i; cbn.
  - split; [discriminate|]. intros [H _]. lia.
  - split.
    + intros H. destruct (last_idx p l) as [k|] eqn:F.
      * injection H as <-. destruct (proj1 (IH k) eq_refl) as (H1 & H2 & H3).
        repeat split; [lia|exact H2|]. intros [|j] Hj Hl; [lia|]. apply H3; lia.
      * destruct (p x) eqn:E; [|discriminate]. injection H as <-.
        apply last_idx_none in F. rewrite Forall_forall in F.
        repeat split; [lia|exact E|]. intros [|j] Hj Hl; [lia|]. apply F. apply nth_In. lia.
    + intros (H1 & H2 & H3). destruct i as [|i].
      * destruct (last_idx p l) as [k|] eqn:F.
        -- exfalso. destruct (proj1 (IH k) eq_refl) as (G1 & G2 & G3).
           specialize (H3 (S k) ltac:(lia) ltac:(lia)). cbn in H3. congruence.
        -- cbn in H2. rewrite H2. reflexivity.
      * assert (last_idx p l = Some i) as G.
        { apply IH. repeat split; [lia|exact H2|]. intros j Hj Hl. apply (H3 (S j)); lia. }
        rewrite G. reflexivity.
Qed.

(* ---- count ---- *)
Lemma count_p_app {A} (p : A -> bool) l1 l2 : count_p p (l1 ++ l2) = count_p p l1 + count_p p l2.
Proof. induction l1 as [|x l1 IH]; cbn; [reflexivity|]. rewrite IH. lia. Qed.

Lemma count_p_le {A} (p : A -> bool) l : count_p p l <= length l.
Proof. induction l as [|x l IH]; cbn; [lia|]. destruct (p x); lia. Qed.

(* decompositions of a list around an offset *)
Lemma split_at {A} (l : list A) c : l = firstn c l ++ skipn c l.
Proof. symmetry. apply firstn_skipn. Qed.

Lemma skipn_chunk {A} (l : list A) c w : skipn c l = slice l c w ++ skipn (c + w) l.
Proof. unfold slice. rewrite <- skipn_skipn', firstn_skipn. reflexivity. Qed.

Lemma firstn_chunk {A} (l : list A) c w : firstn (c + w) l = firstn c l ++ slice l c w.
Proof. apply firstn_split_at. Qed.

Lemma list_eqb_slice_split (x y : list N) ox oy k n :
  k <= n -> ox + n <= length x -> oy + n <= length y ->
  list_eqb (slice x ox n) (slice y oy n) =
  list_eqb (slice x ox k) (slice y oy k) && list_eqb (slice x (ox + k) (n - k)) (slice y (oy + k) (n - k)).
Proof.
  intros Hk Hx Hy.
  assert (n = k + (n - k)) as E by lia.
  rewrite E at 1 2. rewrite !slice_split.
  apply list_eqb_app. rewrite !slice_length; lia.
Qed.
