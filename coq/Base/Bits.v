(* Bit-level primitives used by the mask representations (definitions only;
   characterising lemmas are in Base/BitsProofs.v). *)
From Memchr Require Export Base.Res.

(* u32::trailing_zeros / u64::trailing_zeros: width for 0 *)
Fixpoint ctz_pos (p : positive) : nat :=
  match p with
  | xO q => S (ctz_pos q)
  | _ => 0
  end.
Definition ctz (width : nat) (m : N) : nat :=
  match m with N0 => width | Npos p => ctz_pos p end.

(* leading_zeros of a width-bit value (m < 2^width) *)
Definition clz (width : nat) (m : N) : nat := width - N.to_nat (N.size m).

(* count_ones *)
Fixpoint popcount_pos (p : positive) : nat :=
  match p with
  | xH => 1
  | xO q => popcount_pos q
  | xI q => S (popcount_pos q)
  end.
Definition popcount (m : N) : nat :=
  match m with N0 => 0 | Npos p => popcount_pos p end.

(* x86 / wasm movemask: bit i = lane i *)
Fixpoint bits_of_lanes (l : list bool) : N :=
  match l with
  | [] => 0
  | b :: t => (if b then 1 else 0) + 2 * bits_of_lanes t
  end%N.

(* NEON: vshrn #4 of the 0x00/0xFF lanes viewed as u16s gives one nibble per
   lane (0x0 or 0xF); the code then keeps bit 3 of every nibble (& 0x8888...) *)
Fixpoint nibbles_of_lanes (l : list bool) : N :=
  match l with
  | [] => 0
  | b :: t => (if b then 15 else 0) + 16 * nibbles_of_lanes t
  end%N.

Fixpoint map2 {A B C} (f : A -> B -> C) (l1 : list A) (l2 : list B) : list C :=
  match l1, l2 with
  | a :: t1, b :: t2 => f a b :: map2 f t1 t2
  | _, _ => []
  end.

(* set the first true lane to false *)
Fixpoint clear_first (l : list bool) : list bool :=
  match l with
  | [] => []
  | true :: t => false :: t
  | false :: t => false :: clear_first t
  end.
