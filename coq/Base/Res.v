(* Result/panic type, events, and the writer monad in which every modelled
   routine runs.  No proofs about algorithms live here. *)
From Coq Require Export List Arith NArith Lia Bool.
Export ListNotations.

(* Why a modelled routine stops abnormally.  Each constructor corresponds to a
   way the Rust code can panic (or, for PtrOutOfSlice / ReadOOB, commit
   undefined behaviour that the model refuses to paper over). *)
Inductive panic :=
| OutOfFuel            (* model artefact: excluded by every theorem *)
| IndexOOB             (* slice index out of range *)
| SubUnderflow         (* usize subtraction below zero *)
| Overflow             (* fixed-width arithmetic overflow (checked op) *)
| AssertFail (tag : nat)   (* assert!/debug_assert! number tag *)
| PtrOutOfSlice        (* ptr.add/ptr.sub leaves [start, end] *)
| ReadOOB              (* a load of w bytes not inside the slice *)
| UnwrapNone.          (* Option::unwrap on None *)

Inductive res (A : Type) :=
| Ok (a : A)
| Panic (p : panic).
Arguments Ok {A} a.
Arguments Panic {A} p.

Inductive region := RHay | RNeedle.

(* What the hooks in /repo record, in the same order. *)
Inductive event :=
| Load (r : region) (off width : nat) (aligned : bool)
| Tick (kind : nat)
| Label (l : nat)
| Alloc.

Definition M (A : Type) : Type := (res A * list event)%type.

Definition ret {A} (a : A) : M A := (Ok a, []).
Definition fail {A} (p : panic) : M A := (Panic p, []).
Definition emit (e : event) : M unit := (Ok tt, [e]).
Definition bind {A B} (m : M A) (f : A -> M B) : M B :=
  match fst m with
  | Ok a => let r := f a in (fst r, snd m ++ snd r)
  | Panic p => (Panic p, snd m)
  end.
Definition lift {A} (r : res A) : M A := (r, []).

Declare Scope m_scope.
Delimit Scope m_scope with m.
Notation "x <- m ;; k" := (bind m (fun x => k))
  (at level 61, m at next level, right associativity) : m_scope.
Notation "m ;;; k" := (bind m (fun _ => k))
  (at level 61, right associativity) : m_scope.
Open Scope m_scope.

Definition guard (tag : nat) (b : bool) : M unit :=
  if b then ret tt else fail (AssertFail tag).

(* checked usize subtraction *)
Definition csub (a b : nat) : res nat :=
  if b <=? a then Ok (a - b) else Panic SubUnderflow.

(* checked pointer arithmetic inside a slice of length len *)
Definition padd (len off k : nat) : res nat :=
  if off + k <=? len then Ok (off + k) else Panic PtrOutOfSlice.
Definition psub (off k : nat) : res nat :=
  if k <=? off then Ok (off - k) else Panic PtrOutOfSlice.

(* slice indexing *)
Definition idx {A} (l : list A) (i : nat) : res A :=
  match nth_error l i with Some x => Ok x | None => Panic IndexOOB end.

Definition slice {A} (l : list A) (off w : nat) : list A := firstn w (skipn off l).

(* a raw load of w bytes at offset off of region r (contents l) *)
Definition load (r : region) (l : list N) (off w : nat) (al : bool) : M (list N) :=
  if off + w <=? length l then (Ok (slice l off w), [Load r off w al])
  else (Panic ReadOOB, [Load r off w al]).

Definition tick (k : nat) : M unit := emit (Tick k).

(* loop control *)
Inductive ctl (A B : Type) := Ret (a : A) | Go (b : B).
Arguments Ret {A B} a.
Arguments Go {A B} b.

(* ------------------------------------------------------------------ *)
(* Specification predicate: the computation returns normally with a value and
   trace satisfying P. *)
Definition sat {A} (m : M A) (P : A -> list event -> Prop) : Prop :=
  exists v, fst m = Ok v /\ P v (snd m).

Lemma fst_bind {A B} (m : M A) (f : A -> M B) :
  fst (bind m f) = match fst m with Ok a => fst (f a) | Panic p => Panic p end.
Proof. unfold bind. destruct (fst m); reflexivity. Qed.

Lemma snd_bind_ok {A B} (m : M A) (f : A -> M B) a :
  fst m = Ok a -> snd (bind m f) = snd m ++ snd (f a).
Proof. unfold bind. intros ->. reflexivity. Qed.

Lemma sat_ret {A} (a : A) (P : A -> list event -> Prop) : P a [] -> sat (ret a) P.
Proof. intros H. exists a. split; [reflexivity|exact H]. Qed.

Lemma sat_bind {A B} (m : M A) (f : A -> M B) P1 (P2 : B -> list event -> Prop) :
  sat m P1 ->
  (forall v t1, P1 v t1 -> sat (f v) (fun w t2 => P2 w (t1 ++ t2))) ->
  sat (bind m f) P2.
Proof.
  intros [v [Hv HP]] Hf. destruct (Hf v _ HP) as [w [Hw HP2]].
  exists w. unfold bind. rewrite Hv. cbn. split; assumption.
Qed.

Lemma sat_weaken {A} (m : M A) (P Q : A -> list event -> Prop) :
  sat m P -> (forall v t, P v t -> Q v t) -> sat m Q.
Proof. intros [v [Hv HP]] H. exists v. split; auto. Qed.

Lemma sat_fst {A} (m : M A) P : sat m P -> exists v, fst m = Ok v /\ P v (snd m).
Proof. exact (fun x => x). Qed.

Lemma sat_lift {A} (r : res A) v (P : A -> list event -> Prop) :
  r = Ok v -> P v [] -> sat (lift r) P.
Proof. intros -> H. exists v. split; [reflexivity|exact H]. Qed.

Lemma sat_guard tag b (P : unit -> list event -> Prop) :
  b = true -> P tt [] -> sat (guard tag b) P.
Proof. intros -> H. exists tt. split; [reflexivity|exact H]. Qed.

Lemma sat_load r l off w al (P : list N -> list event -> Prop) :
  off + w <= length l -> P (slice l off w) [Load r off w al] -> sat (load r l off w al) P.
Proof.
  intros Hle H. unfold load. apply Nat.leb_le in Hle. rewrite Hle.
  exists (slice l off w). split; [reflexivity|exact H].
Qed.

Lemma sat_emit e (P : unit -> list event -> Prop) : P tt [e] -> sat (emit e) P.
Proof. intros H. exists tt. split; [reflexivity|exact H]. Qed.

Lemma csub_ok a b : b <= a -> csub a b = Ok (a - b).
Proof. intros H. unfold csub. apply Nat.leb_le in H. rewrite H. reflexivity. Qed.
Lemma psub_ok a b : b <= a -> psub a b = Ok (a - b).
Proof. intros H. unfold psub. apply Nat.leb_le in H. rewrite H. reflexivity. Qed.
Lemma padd_ok len a b : a + b <= len -> padd len a b = Ok (a + b).
Proof. intros H. unfold padd. apply Nat.leb_le in H. rewrite H. reflexivity. Qed.

Lemma idx_ok {A} (l : list A) i d : i < length l -> idx l i = Ok (nth i l d).
Proof.
  intros H. unfold idx. rewrite (nth_error_nth' l d H). reflexivity.
Qed.

(* canonical-postcondition forms (unify well under eapply sat_bind) *)
Lemma sat_load_eq r l off w al :
  off + w <= length l ->
  sat (load r l off w al) (fun v t => v = slice l off w /\ t = [Load r off w al]).
Proof. intros H. apply sat_load; [exact H|]. split; reflexivity. Qed.

Lemma sat_ret_eq {A} (a : A) : sat (ret a) (fun v t => v = a /\ t = []).
Proof. apply sat_ret. split; reflexivity. Qed.

Lemma sat_lift_eq {A} (r : res A) v : r = Ok v -> sat (lift r) (fun w t => w = v /\ t = []).
Proof. intros H. eapply sat_lift; [exact H|]. split; reflexivity. Qed.

Lemma sat_guard_eq tag b : b = true -> sat (guard tag b) (fun _ t => t = []).
Proof. intros H. apply sat_guard; [exact H|reflexivity]. Qed.

Lemma sat_emit_eq e : sat (emit e) (fun _ t => t = [e]).
Proof. apply sat_emit. reflexivity. Qed.

Lemma bind_ret {A B} (a : A) (f : A -> M B) : bind (ret a) f = f a.
Proof. unfold bind, ret. cbn. destruct (f a); reflexivity. Qed.

Lemma bind_lift_ok {A B} (a : A) (f : A -> M B) : bind (lift (Ok a)) f = f a.
Proof. exact (bind_ret a f). Qed.

Lemma bind_lift_panic {A B} p (f : A -> M B) : bind (lift (Panic p)) f = (Panic p, []).
Proof. reflexivity. Qed.

Lemma bind_guard_true {B} tag (f : unit -> M B) : bind (guard tag true) f = f tt.
Proof. exact (bind_ret tt f). Qed.

(* ------------------------------------------------------------------ *)
(* satq Q m P: m returns normally with a value satisfying P, and every event
   of its trace satisfies Q.  The workhorse of result + load-safety proofs. *)
Definition satq {A} (Q : event -> Prop) (m : M A) (P : A -> Prop) : Prop :=
  sat m (fun v t => P v /\ Forall Q t).

Lemma satq_bind {A B} (Q : event -> Prop) (m : M A) (f : A -> M B) (P1 : A -> Prop) (P2 : B -> Prop) :
  satq Q m P1 -> (forall v, P1 v -> satq Q (f v) P2) -> satq Q (bind m f) P2.
Proof.
  intros H1 H2. eapply sat_bind; [exact H1|].
  intros v t1 [Hv Ht1]. eapply sat_weaken; [apply H2; exact Hv|].
  cbn beta. intros w t2 [Hw Ht2]. split; [exact Hw|]. apply Forall_app. split; assumption.
Qed.

Lemma satq_ret {A} (Q : event -> Prop) (a : A) (P : A -> Prop) : P a -> satq Q (ret a) P.
Proof. intros H. apply sat_ret. split; [exact H|constructor]. Qed.

Lemma satq_weaken {A} (Q : event -> Prop) (m : M A) (P P' : A -> Prop) :
  satq Q m P -> (forall v, P v -> P' v) -> satq Q m P'.
Proof. intros H HP. eapply sat_weaken; [exact H|]. cbn beta. intros v t [A1 A2]. split; auto. Qed.

Lemma satq_lift {A} (Q : event -> Prop) (r : res A) v (P : A -> Prop) : r = Ok v -> P v -> satq Q (lift r) P.
Proof. intros -> H. apply sat_ret. split; [exact H|constructor]. Qed.

Lemma satq_guard (Q : event -> Prop) tag b (P : unit -> Prop) : b = true -> P tt -> satq Q (guard tag b) P.
Proof. intros -> H. apply sat_ret. split; [exact H|constructor]. Qed.

Lemma satq_load (Q : event -> Prop) r l off w al (P : list N -> Prop) :
  off + w <= length l -> Q (Load r off w al) -> P (slice l off w) -> satq Q (load r l off w al) P.
Proof.
  intros Hle HQ HP. apply sat_load; [exact Hle|]. split; [exact HP|]. constructor; [exact HQ|constructor].
Qed.

Lemma satq_emit (Q : event -> Prop) e (P : unit -> Prop) : Q e -> P tt -> satq Q (emit e) P.
Proof. intros HQ HP. apply sat_emit. split; [exact HP|]. constructor; [exact HQ|constructor]. Qed.

(* canonical forms for eapply satq_bind *)
Lemma satq_load_eq (Q : event -> Prop) r l off w al :
  off + w <= length l -> Q (Load r off w al) ->
  satq Q (load r l off w al) (fun v => v = slice l off w).
Proof. intros. apply satq_load; auto. Qed.

Lemma satq_lift_eq {A} (Q : event -> Prop) (r : res A) v : r = Ok v -> satq Q (lift r) (fun w => w = v).
Proof. intros H. eapply satq_lift; [exact H|reflexivity]. Qed.

Lemma satq_guard_eq (Q : event -> Prop) tag b : b = true -> satq Q (guard tag b) (fun _ => True).
Proof. intros H. apply satq_guard; [exact H|exact I]. Qed.

Lemma satq_fst {A} (Q : event -> Prop) (m : M A) P : satq Q m P -> exists v, fst m = Ok v /\ P v /\ Forall Q (snd m).
Proof. intros (v & H1 & H2 & H3). exists v. auto. Qed.
