(* Characterising lemmas for the bit-level primitives of Base/Bits.v. *)
From Coq Require Import PArith Pnat Nnat.
From Memchr Require Export Base.ListX Base.Bits.

(* the identity predicate on lanes (convertible with MaskRep.idb) *)
Notation idf := (fun b : bool => b) (only parsing).

(* ------------------------------------------------------------------ *)
(* bits_of_lanes in double / succ_double form *)
Lemma bits_cons_true t : bits_of_lanes (true :: t) = N.succ_double (bits_of_lanes t).
Proof. cbn [bits_of_lanes]. destruct (bits_of_lanes t); reflexivity. Qed.

Lemma bits_cons_false t : bits_of_lanes (false :: t) = N.double (bits_of_lanes t).
Proof. cbn [bits_of_lanes]. destruct (bits_of_lanes t); reflexivity. Qed.

Lemma bits_eq0 l : (bits_of_lanes l =? 0)%N = negb (existsb idf l).
Proof.
  induction l as [|[] t IH].
  - reflexivity.
  - rewrite bits_cons_true. cbn [existsb orb negb]. destruct (bits_of_lanes t); reflexivity.
  - rewrite bits_cons_false. cbn [existsb orb]. rewrite <- IH.
    destruct (bits_of_lanes t); reflexivity.
Qed.

(* ---- ctz / first ---- *)
Lemma bits_first l i :
  first_idx idf l = Some i -> exists p, bits_of_lanes l = Npos p /\ ctz_pos p = i.
Proof.
  revert i; induction l as [|[] t IH]; intros i H; cbn in H.
  - discriminate.
  - injection H as <-. rewrite bits_cons_true.
    destruct (bits_of_lanes t); eexists; split; reflexivity.
  - destruct (first_idx idf t) as [k|]; [|discriminate]. cbn in H. injection H as <-.
    destruct (IH k eq_refl) as (p & E & C). rewrite bits_cons_false, E.
    exists (xO p). split; [reflexivity|]. cbn. now rewrite C.
Qed.

Lemma ctz_bits w l i : first_idx idf l = Some i -> ctz w (bits_of_lanes l) = i.
Proof. intros H. destruct (bits_first l i H) as (p & -> & C). exact C. Qed.

Lemma bits_first_nz l i : first_idx idf l = Some i -> bits_of_lanes l <> 0%N.
Proof. intros H. destruct (bits_first l i H) as (p & -> & _). discriminate. Qed.

(* ---- size / clz / last ---- *)
Lemma bits_last_none l : last_idx idf l = None -> bits_of_lanes l = 0%N.
Proof.
  induction l as [|b t IH]; cbn [last_idx]; intros H; [reflexivity|].
  destruct (last_idx idf t); [discriminate|]. destruct b; [discriminate|].
  rewrite bits_cons_false, IH; reflexivity.
Qed.

Lemma bits_last l i :
  last_idx idf l = Some i ->
  exists p, bits_of_lanes l = Npos p /\ Pos.to_nat (Pos.size p) = S i.
Proof.
  revert i; induction l as [|b t IH]; intros i H; cbn in H; [discriminate|].
  destruct (last_idx idf t) as [k|] eqn:F.
  - injection H as <-. destruct (IH k eq_refl) as (p & E & C).
    destruct b; [rewrite bits_cons_true|rewrite bits_cons_false]; rewrite E.
    + exists (xI p). split; [reflexivity|]. cbn [Pos.size]. rewrite Pos2Nat.inj_succ, C. reflexivity.
    + exists (xO p). split; [reflexivity|]. cbn [Pos.size]. rewrite Pos2Nat.inj_succ, C. reflexivity.
  - destruct b; [|discriminate]. injection H as <-.
    rewrite bits_cons_true, (bits_last_none t F). exists xH. split; reflexivity.
Qed.

Lemma clz_bits w l i : last_idx idf l = Some i -> clz w (bits_of_lanes l) = w - S i.
Proof.
  intros H. destruct (bits_last l i H) as (p & -> & C). unfold clz. cbn. rewrite C. reflexivity.
Qed.

(* ---- popcount ---- *)
Lemma popcount_succ_double a : popcount (N.succ_double a) = S (popcount a).
Proof. destruct a; reflexivity. Qed.
Lemma popcount_double a : popcount (N.double a) = popcount a.
Proof. destruct a; reflexivity. Qed.

Lemma popcount_bits l : popcount (bits_of_lanes l) = count_p idf l.
Proof.
  induction l as [|[] t IH]; [reflexivity| |].
  - rewrite bits_cons_true, popcount_succ_double, IH. reflexivity.
  - rewrite bits_cons_false, popcount_double, IH. reflexivity.
Qed.

(* ---- or ---- *)
Lemma lor_bits l1 l2 :
  length l1 = length l2 ->
  N.lor (bits_of_lanes l1) (bits_of_lanes l2) = bits_of_lanes (map2 orb l1 l2).
Proof.
  revert l2; induction l1 as [|a t1 IH]; intros [|b t2] H; cbn in H; try discriminate.
  - reflexivity.
  - cbn [map2]. specialize (IH t2 ltac:(lia)).
    destruct a, b; cbn [orb];
      rewrite ?bits_cons_true, ?bits_cons_false, <- IH;
      destruct (bits_of_lanes t1), (bits_of_lanes t2); reflexivity.
Qed.

(* ---- m & (m - 1) ---- *)
Lemma land_double_succ_double a b : N.land (N.double a) (N.succ_double b) = N.double (N.land a b).
Proof. destruct a as [|p], b as [|q]; reflexivity. Qed.

Lemma land_succ_double_double a : N.land (N.succ_double a) (N.double a) = N.double a.
Proof.
  destruct a as [|p]; [reflexivity|]. cbn.
  change (Pos.land p p) with (N.land (Npos p) (Npos p)). rewrite N.land_diag. reflexivity.
Qed.

Lemma clear_lsb_bits l :
  bits_of_lanes l <> 0%N ->
  N.land (bits_of_lanes l) (bits_of_lanes l - 1) = bits_of_lanes (clear_first l).
Proof.
  induction l as [|[] t IH]; intros H.
  - exfalso. apply H. reflexivity.
  - cbn [clear_first]. rewrite bits_cons_true, bits_cons_false.
    replace (N.succ_double (bits_of_lanes t) - 1)%N with (N.double (bits_of_lanes t))
      by (pose proof (N.succ_double_spec (bits_of_lanes t));
          pose proof (N.double_spec (bits_of_lanes t)); lia).
    apply land_succ_double_double.
  - cbn [clear_first]. rewrite !bits_cons_false in *.
    assert (bits_of_lanes t <> 0%N) as Hn.
    { intros E. apply H. rewrite E. reflexivity. }
    replace (N.double (bits_of_lanes t) - 1)%N with (N.succ_double (bits_of_lanes t - 1))
      by (pose proof (N.succ_double_spec (bits_of_lanes t - 1));
          pose proof (N.double_spec (bits_of_lanes t)); lia).
    rewrite land_double_succ_double, IH by exact Hn. reflexivity.
Qed.

(* ---- testbit ---- *)
Lemma bits_testbit l i : N.testbit (bits_of_lanes l) (N.of_nat i) = nth i l false.
Proof.
  revert i; induction l as [|b t IH]; intros i.
  - cbn [bits_of_lanes]. rewrite N.bits_0. destruct i; reflexivity.
  - destruct i as [|i].
    + destruct b; [rewrite bits_cons_true, N.succ_double_spec|rewrite bits_cons_false, N.double_spec];
        cbn [nth N.of_nat]; [apply N.testbit_odd_0|apply N.testbit_even_0].
    + rewrite Nat2N.inj_succ. cbn [nth].
      destruct b; [rewrite bits_cons_true, N.succ_double_spec|rewrite bits_cons_false, N.double_spec].
      * rewrite N.testbit_odd_succ by apply N.le_0_l. apply IH.
      * rewrite N.testbit_even_succ by apply N.le_0_l. apply IH.
Qed.

(* ---- clearing the low lanes ---- *)
Fixpoint clear_below (m : nat) (l : list bool) : list bool :=
  match m, l with
  | S m', _ :: t => false :: clear_below m' t
  | _, _ => l
  end.

Lemma clear_below_length m l : length (clear_below m l) = length l.
Proof.
  revert l; induction m as [|m IH]; intros [|b t]; cbn; try reflexivity. now rewrite IH.
Qed.

Lemma nth_clear_below m l j :
  nth j (clear_below m l) false = if j <? m then false else nth j l false.
Proof.
  revert l j; induction m as [|m IH]; intros l j.
  - reflexivity.
  - destruct l as [|b t].
    + cbn [clear_below]. destruct (j <? S m); destruct j; reflexivity.
    + cbn [clear_below]. destruct j as [|j]; [reflexivity|].
      cbn [nth]. change (S j <? S m) with (j <? m). apply IH.
Qed.

Lemma nth_clear_below_ge m l j : m <= j -> nth j (clear_below m l) false = nth j l false.
Proof.
  intros H. rewrite nth_clear_below. destruct (Nat.ltb_spec j m); [lia|reflexivity].
Qed.

Lemma nth_clear_below_true m l j :
  nth j (clear_below m l) false = true -> nth j l false = true.
Proof. rewrite nth_clear_below. destruct (j <? m); [discriminate|auto]. Qed.

Lemma clear_below_0 l : clear_below 0 l = l.
Proof. reflexivity. Qed.

Lemma bits_land_except l W m :
  length l <= W ->
  N.land (bits_of_lanes l) (N.ldiff (N.ones (N.of_nat W)) (N.ones (N.of_nat m)))
  = bits_of_lanes (clear_below m l).
Proof.
  intros HW. apply N.bits_inj. intros q. rewrite <- (N2Nat.id q).
  set (j := N.to_nat q).
  rewrite N.land_spec, N.ldiff_spec, !bits_testbit, nth_clear_below.
  destruct (Nat.ltb_spec j m) as [Hlt|Hge].
  - rewrite (N.ones_spec_low (N.of_nat m)) by lia.
    cbn [negb]. rewrite !andb_false_r. reflexivity.
  - rewrite (N.ones_spec_high (N.of_nat m)) by lia. cbn [negb]. rewrite andb_true_r.
    destruct (Nat.lt_ge_cases j W) as [HjW|HjW].
    + rewrite N.ones_spec_low by lia. apply andb_true_r.
    + rewrite nth_overflow by lia. reflexivity.
Qed.

(* ------------------------------------------------------------------ *)
(* NEON: one nibble per lane, only bit 3 of each nibble kept.  The resulting
   mask is the movemask of the 4x expanded lane list. *)
Fixpoint expand4 (l : list bool) : list bool :=
  match l with
  | [] => []
  | b :: t => false :: false :: false :: b :: expand4 t
  end.

Fixpoint mask_n (n : nat) : N :=
  match n with
  | O => 0%N
  | S n' => (8 + 16 * mask_n n')%N
  end.

Lemma nib_step a k (b : bool) :
  N.land ((if b then 15 else 0) + 16 * a) (8 + 16 * k)
  = ((if b then 8 else 0) + 16 * N.land a k)%N.
Proof.
  destruct a as [|p], k as [|q], b; try reflexivity; cbn; destruct (Pos.land p q); reflexivity.
Qed.

Lemma bits_expand4_cons b t :
  bits_of_lanes (expand4 (b :: t)) = ((if b then 8 else 0) + 16 * bits_of_lanes (expand4 t))%N.
Proof.
  cbn [expand4]. rewrite !bits_cons_false.
  destruct b; [rewrite bits_cons_true|rewrite bits_cons_false];
    destruct (bits_of_lanes (expand4 t)); reflexivity.
Qed.

Lemma nibbles_mask l :
  N.land (nibbles_of_lanes l) (mask_n (length l)) = bits_of_lanes (expand4 l).
Proof.
  induction l as [|b t IH]; [reflexivity|].
  rewrite bits_expand4_cons, <- IH. cbn [nibbles_of_lanes length mask_n]. apply nib_step.
Qed.

Lemma expand4_length l : length (expand4 l) = 4 * length l.
Proof. induction l as [|b t IH]; cbn [expand4 length]; [reflexivity|]. rewrite IH. lia. Qed.

Lemma existsb_expand4 l : existsb idf (expand4 l) = existsb idf l.
Proof. induction l as [|b t IH]; [reflexivity|]. cbn. rewrite IH. reflexivity. Qed.

Lemma first_idx_expand4 l i :
  first_idx idf l = Some i -> first_idx idf (expand4 l) = Some (4 * i + 3).
Proof.
  revert i; induction l as [|[] t IH]; intros i H; cbn in H.
  - discriminate.
  - injection H as <-. reflexivity.
  - destruct (first_idx idf t) as [k|]; [|discriminate]. cbn in H. injection H as <-.
    cbn [expand4 first_idx]. rewrite (IH k eq_refl). cbn [option_map]. f_equal. lia.
Qed.

Lemma last_idx_expand4_none l : last_idx idf l = None -> last_idx idf (expand4 l) = None.
Proof.
  induction l as [|b t IH]; cbn [last_idx expand4]; intros H; [reflexivity|].
  destruct (last_idx idf t); [discriminate|]. destruct b; [discriminate|].
  rewrite IH; reflexivity.
Qed.

Lemma last_idx_expand4 l i :
  last_idx idf l = Some i -> last_idx idf (expand4 l) = Some (4 * i + 3).
Proof.
  revert i; induction l as [|b t IH]; intros i H; cbn [last_idx] in H; [discriminate|].
  cbn [expand4 last_idx].
  destruct (last_idx idf t) as [k|] eqn:F.
  - injection H as <-. rewrite (IH k eq_refl). f_equal. lia.
  - destruct b; [|discriminate]. injection H as <-.
    rewrite (last_idx_expand4_none t F). reflexivity.
Qed.

Lemma count_p_expand4 l : count_p idf (expand4 l) = count_p idf l.
Proof. induction l as [|b t IH]; [reflexivity|]. cbn. rewrite IH. reflexivity. Qed.

Lemma map2_orb_expand4 l1 l2 :
  map2 orb (expand4 l1) (expand4 l2) = expand4 (map2 orb l1 l2).
Proof.
  revert l2; induction l1 as [|a t1 IH]; intros [|b t2]; try reflexivity.
  cbn. rewrite IH. reflexivity.
Qed.

Lemma clear_first_expand4 l : clear_first (expand4 l) = expand4 (clear_first l).
Proof.
  induction l as [|[] t IH]; [reflexivity|reflexivity|]. cbn. rewrite IH. reflexivity.
Qed.

(* clear_below on the expanded list, read back on lanes *)
Fixpoint cb4 (m : nat) (l : list bool) : list bool :=
  match l with
  | [] => []
  | b :: t => if m <? 4 then b :: t else false :: cb4 (m - 4) t
  end.

Lemma clear_below_expand4 m l : clear_below m (expand4 l) = expand4 (cb4 m l).
Proof.
  revert m; induction l as [|b t IH]; intros m.
  - destruct m; reflexivity.
  - destruct m as [|[|[|[|m]]]]; try reflexivity.
    cbn [expand4 clear_below cb4].
    change (S (S (S (S m))) <? 4) with false. cbv iota.
    change (S (S (S (S m))) - 4) with (m - 0). rewrite Nat.sub_0_r.
    cbn [expand4]. rewrite IH. reflexivity.
Qed.

Lemma cb4_length m l : length (cb4 m l) = length l.
Proof.
  revert m; induction l as [|b t IH]; intros m; cbn [cb4]; [reflexivity|].
  destruct (m <? 4); cbn [length]; [reflexivity|]. now rewrite IH.
Qed.

Lemma nth_cb4_ge m l i : m <= 4 * i + 3 -> nth i (cb4 m l) false = nth i l false.
Proof.
  revert m i; induction l as [|b t IH]; intros m i H; cbn [cb4]; [reflexivity|].
  destruct (Nat.ltb_spec m 4); [reflexivity|].
  destruct i as [|i]; [lia|]. cbn [nth]. apply IH. lia.
Qed.

Lemma nth_cb4_true m l i : nth i (cb4 m l) false = true -> nth i l false = true.
Proof.
  revert m i; induction l as [|b t IH]; intros m i; cbn [cb4]; [auto|].
  destruct (m <? 4); [auto|]. destruct i as [|i]; cbn [nth]; [discriminate|apply IH].
Qed.
