(* Lemmas about the SWAR word model of Base/Word.v: the has_zero_byte trick is
   exact on w-byte little-endian words, hence has_needle has no false
   negatives. *)
From Memchr Require Import Base.Word.

Local Open Scope N_scope.

(* ---------- word_mod ---------- *)

Lemma word_mod_0 : word_mod 0 = 1.
Proof. reflexivity. Qed.

Lemma word_mod_S : forall w, word_mod (S w) = 256 * word_mod w.
Proof.
  intros w. unfold word_mod.
  replace (8 * N.of_nat (S w)) with (8 + 8 * N.of_nat w) by lia.
  rewrite N.pow_add_r. reflexivity.
Qed.

Lemma word_mod_pos : forall w, 0 < word_mod w.
Proof.
  induction w as [|w IH]; [rewrite word_mod_0 | rewrite word_mod_S]; lia.
Qed.


(* ---------- le_word: arithmetic facts ---------- *)

Lemma le_word_cons : forall b t, le_word (b :: t) = b + 256 * le_word t.
Proof. reflexivity. Qed.

Lemma le_word_lt : forall l,
  Forall (fun x => x < 256) l -> le_word l < word_mod (length l).
Proof.
  induction 1 as [|b t Hb Ht IH].
  - cbn [le_word length]. rewrite word_mod_0. lia.
  - cbn [length]. rewrite le_word_cons, word_mod_S. lia.
Qed.

Lemma le_word_repeat : forall b w,
  le_word (repeat b w) = b * le_word (repeat 1 w).
Proof.
  induction w as [|w IH]; cbn [repeat].
  - cbn [le_word]. lia.
  - rewrite !le_word_cons, IH. lia.
Qed.

Lemma le_word_ones : forall w, le_word (repeat 1 w) * 255 + 1 = word_mod w.
Proof.
  induction w as [|w IH]; cbn [repeat].
  - reflexivity.
  - rewrite le_word_cons, word_mod_S. lia.
Qed.

Lemma splat_repeat : forall w b, splat w b = le_word (repeat b w).
Proof.
  intros w b. unfold splat.
  replace (word_mod w - 1) with (le_word (repeat 1 w) * 255)
    by (pose proof (le_word_ones w); lia).
  rewrite N.div_mul by lia. symmetry. apply le_word_repeat.
Qed.

Lemma word_mod_pred : forall w, word_mod w - 1 = le_word (repeat 255 w).
Proof.
  intros w. rewrite le_word_repeat. pose proof (le_word_ones w). lia.
Qed.

Lemma Forall_repeat : forall (P : N -> Prop) b n, P b -> Forall P (repeat b n).
Proof. induction n; cbn [repeat]; auto. Qed.

(* ---------- bits of bytes ---------- *)

Lemma testbit_cons : forall a x n, a < 256 ->
  N.testbit (a + 256 * x) n =
  if n <? 8 then N.testbit a n else N.testbit x (n - 8).
Proof.
  intros a x n Ha. destruct (N.ltb_spec n 8) as [Hn|Hn].
  - rewrite <- (N.mod_pow2_bits_low (a + 256 * x) 8 n Hn).
    change (2 ^ 8) with 256.
    replace (a + 256 * x) with (a + x * 256) by lia.
    rewrite N.mod_add by lia.
    rewrite N.mod_small by assumption. reflexivity.
  - replace n with (n - 8 + 8) at 1 by lia.
    rewrite <- N.div_pow2_bits. change (2 ^ 8) with 256.
    replace (a + 256 * x) with (a + x * 256) by lia.
    rewrite N.div_add by lia.
    rewrite N.div_small by assumption. reflexivity.
Qed.

Lemma byte_high_bits : forall a n, a < 256 -> 8 <= n -> N.testbit a n = false.
Proof.
  intros a n Ha Hn. rewrite <- (N.mod_small a (2 ^ 8)) by exact Ha.
  apply N.mod_pow2_bits_high. exact Hn.
Qed.

Lemma high_bits_byte : forall a,
  (forall n, 8 <= n -> N.testbit a n = false) -> a < 256.
Proof.
  intros a H. assert (E : a = a mod 2 ^ 8).
  { apply N.bits_inj. intros n. destruct (N.lt_ge_cases n 8) as [Hn|Hn].
    - rewrite N.mod_pow2_bits_low by exact Hn. reflexivity.
    - rewrite N.mod_pow2_bits_high by exact Hn. apply H. exact Hn. }
  rewrite E. apply N.mod_lt. discriminate.
Qed.

Lemma land_byte : forall a b, a < 256 -> N.land a b < 256.
Proof.
  intros a b Ha. apply high_bits_byte. intros n Hn.
  rewrite N.land_spec, (byte_high_bits a n Ha Hn). reflexivity.
Qed.

Lemma lxor_byte : forall a b, a < 256 -> b < 256 -> N.lxor a b < 256.
Proof.
  intros a b Ha Hb. apply high_bits_byte. intros n Hn.
  rewrite N.lxor_spec, (byte_high_bits a n Ha Hn), (byte_high_bits b n Hb Hn).
  reflexivity.
Qed.

Lemma land_cons : forall a b x y, a < 256 -> b < 256 ->
  N.land (a + 256 * x) (b + 256 * y) = N.land a b + 256 * N.land x y.
Proof.
  intros a b x y Ha Hb. apply N.bits_inj. intros n.
  rewrite N.land_spec, !testbit_cons by auto using land_byte.
  destruct (n <? 8); rewrite N.land_spec; reflexivity.
Qed.

Lemma lxor_cons : forall a b x y, a < 256 -> b < 256 ->
  N.lxor (a + 256 * x) (b + 256 * y) = N.lxor a b + 256 * N.lxor x y.
Proof.
  intros a b x y Ha Hb. apply N.bits_inj. intros n.
  rewrite N.lxor_spec, !testbit_cons by auto using lxor_byte.
  destruct (n <? 8); rewrite N.lxor_spec; reflexivity.
Qed.

(* ---------- bytewise view of the bit operations ---------- *)

Fixpoint zip (f : N -> N -> N) (l1 l2 : list N) : list N :=
  match l1, l2 with
  | a :: t1, b :: t2 => f a b :: zip f t1 t2
  | _, _ => []
  end.

Lemma zip_length : forall f l1 l2,
  length l1 = length l2 -> length (zip f l1 l2) = length l1.
Proof.
  induction l1 as [|a t1 IH]; destruct l2 as [|b t2]; cbn [zip length];
    intros H; try discriminate; auto.
Qed.

Lemma zip_Forall : forall f (P : N -> Prop) l1 l2,
  (forall a b, P a -> P b -> P (f a b)) ->
  Forall P l1 -> Forall P l2 -> Forall P (zip f l1 l2).
Proof.
  intros f P l1 l2 Hf H1. revert l2.
  induction H1 as [|a t1 Ha Ht IH]; intros l2 H2; cbn [zip]; auto.
  destruct H2 as [|b t2 Hb Ht2]; auto.
Qed.

Lemma le_word_land : forall l1 l2,
  Forall (fun x => x < 256) l1 -> Forall (fun x => x < 256) l2 ->
  length l1 = length l2 ->
  N.land (le_word l1) (le_word l2) = le_word (zip N.land l1 l2).
Proof.
  intros l1 l2 H1. revert l2.
  induction H1 as [|a t1 Ha Ht IH]; intros l2 H2 HL;
    destruct H2 as [|b t2 Hb Ht2]; try discriminate.
  - reflexivity.
  - cbn [zip]. rewrite !le_word_cons, land_cons by assumption.
    rewrite IH; auto.
Qed.

Lemma le_word_lxor : forall l1 l2,
  Forall (fun x => x < 256) l1 -> Forall (fun x => x < 256) l2 ->
  length l1 = length l2 ->
  N.lxor (le_word l1) (le_word l2) = le_word (zip N.lxor l1 l2).
Proof.
  intros l1 l2 H1. revert l2.
  induction H1 as [|a t1 Ha Ht IH]; intros l2 H2 HL;
    destruct H2 as [|b t2 Hb Ht2]; try discriminate.
  - reflexivity.
  - cbn [zip]. rewrite !le_word_cons, lxor_cons by assumption.
    rewrite IH; auto.
Qed.

(* ---------- wrapping subtraction of 0x01..01 with an explicit borrow ---------- *)

Definition b2n (c : bool) : N := if c then 1 else 0.

Fixpoint sub1 (c : bool) (l : list N) : list N :=
  match l with
  | [] => []
  | b :: t => (b + 256 - (1 + b2n c)) mod 256 :: sub1 (b <? 1 + b2n c) t
  end.

Lemma sub1_length : forall l c, length (sub1 c l) = length l.
Proof. induction l as [|b t IH]; intros c; cbn [sub1 length]; auto. Qed.

Lemma sub1_bytes : forall l c, Forall (fun x => x < 256) (sub1 c l).
Proof.
  induction l as [|b t IH]; intros c; cbn [sub1]; constructor; auto.
  apply N.mod_lt. discriminate.
Qed.

Lemma sub1_step : forall b c, b < 256 ->
  (b + 256 - (1 + b2n c)) mod 256 + (1 + b2n c) = b + 256 * b2n (b <? 1 + b2n c).
Proof.
  intros b c Hb. destruct (N.ltb_spec b (1 + b2n c)) as [H|H]; cbn [b2n].
  - rewrite N.mod_small by (destruct c; cbn [b2n] in *; lia).
    destruct c; cbn [b2n] in *; lia.
  - replace (b + 256 - (1 + b2n c)) with (b - (1 + b2n c) + 1 * 256) by lia.
    rewrite N.mod_add by lia. rewrite N.mod_small by lia. lia.
Qed.

Lemma sub1_spec : forall l c, Forall (fun x => x < 256) l ->
  exists k : bool,
    le_word (sub1 c l) + le_word (repeat 1 (length l)) + b2n c =
    le_word l + b2n k * word_mod (length l).
Proof.
  induction l as [|b t IH]; intros c Hl.
  - exists c. cbn [sub1 length repeat le_word]. rewrite word_mod_0. lia.
  - inversion Hl as [|? ? Hb Ht]; subst.
    destruct (IH (b <? 1 + b2n c) Ht) as [k Hk]. exists k.
    cbn [sub1 length repeat]. rewrite !le_word_cons, word_mod_S.
    pose proof (sub1_step b c Hb) as Hs.
    set (r := (b + 256 - (1 + b2n c)) mod 256) in *.
    set (c' := b <? 1 + b2n c) in *.
    set (S' := le_word (sub1 c' t)) in *.
    set (L' := le_word (repeat 1 (length t))) in *.
    set (X' := le_word t) in *.
    set (M := word_mod (length t)) in *.
    nia.
Qed.

Lemma wrapping_sub_lo : forall l, Forall (fun x => x < 256) l ->
  let w := length l in
  (le_word l + word_mod w - splat w 1) mod word_mod w = le_word (sub1 false l).
Proof.
  intros l Hl w. subst w. rewrite splat_repeat.
  destruct (sub1_spec l false Hl) as [k Hk]. cbn [b2n] in Hk.
  pose proof (le_word_lt (sub1 false l) (sub1_bytes l false)) as HS.
  rewrite sub1_length in HS.
  pose proof (le_word_lt l Hl) as HX.
  assert (HL : le_word (repeat 1 (length l)) < word_mod (length (repeat 1 (length l)))).
  { apply le_word_lt. apply Forall_repeat. reflexivity. }
  rewrite repeat_length in HL.
  set (S := le_word (sub1 false l)) in *.
  set (L := le_word (repeat 1 (length l))) in *.
  set (X := le_word l) in *.
  set (M := word_mod (length l)) in *.
  destruct k; cbn [b2n] in Hk.
  - replace (X + M - L) with S by lia. apply N.mod_small. exact HS.
  - replace (X + M - L) with (S + 1 * M) by lia.
    rewrite N.mod_add by lia. apply N.mod_small. exact HS.
Qed.

(* ---------- the byte-level trick ---------- *)

Definition flag (c : bool) (b : N) : N :=
  N.land (N.land ((b + 256 - (1 + b2n c)) mod 256) (N.lxor b 255)) 128.

Lemma bytes_enum : forall b, b < 256 -> In b (map N.of_nat (seq 0 256)).
Proof.
  intros b Hb. apply in_map_iff. exists (N.to_nat b). split; [lia|].
  apply in_seq. lia.
Qed.

Lemma flag_false : forall b, b < 256 ->
  flag false b = if b =? 0 then 128 else 0.
Proof.
  intros b Hb.
  assert (H : forallb (fun b => flag false b =? (if b =? 0 then 128 else 0))
                (map N.of_nat (seq 0 256)) = true) by (vm_compute; reflexivity).
  rewrite forallb_forall in H. apply N.eqb_eq. apply H. apply bytes_enum. exact Hb.
Qed.

Lemma flags_exact : forall l, Forall (fun x => x < 256) l ->
  (le_word (zip N.land (zip N.land (sub1 false l)
                                   (zip N.lxor l (repeat 255 (length l))))
                       (repeat 128 (length l))) =? 0)
  = negb (existsb (fun x => x =? 0) l).
Proof.
  induction 1 as [|b t Hb Ht IH].
  - reflexivity.
  - cbn [length repeat sub1 zip existsb]. rewrite le_word_cons.
    fold (flag false b). rewrite (flag_false b Hb).
    cbn [b2n]. change (1 + 0) with 1.
    destruct (N.eqb_spec b 0) as [E|E].
    + cbn [orb negb]. apply N.eqb_neq. lia.
    + assert (Hc : (b <? 1) = false) by (apply N.ltb_ge; lia).
      rewrite Hc. cbn [orb]. rewrite <- IH.
      set (Y := le_word _).
      destruct (N.eqb_spec Y 0) as [HY|HY]; [apply N.eqb_eq | apply N.eqb_neq]; lia.
Qed.

Local Close Scope N_scope.

Local Ltac solve_len :=
  repeat first [rewrite sub1_length | rewrite repeat_length | rewrite zip_length];
  auto.

(* ---------- main results ---------- *)

Theorem has_zero_byte_exact : forall (w : nat) (l : list N),
  1 <= w -> length l = w -> Forall (fun x => (x < 256)%N) l ->
  has_zero_byte w (le_word l) = existsb (fun x => (x =? 0)%N) l.
Proof.
  intros w l _ HL Hl. subst w. unfold has_zero_byte.
  rewrite (wrapping_sub_lo l Hl).
  rewrite word_mod_pred, splat_repeat.
  assert (B255 : Forall (fun x => (x < 256)%N) (repeat 255%N (length l)))
    by (apply Forall_repeat; reflexivity).
  assert (B128 : Forall (fun x => (x < 256)%N) (repeat 128%N (length l)))
    by (apply Forall_repeat; reflexivity).
  rewrite (le_word_lxor l _ Hl B255) by (rewrite repeat_length; reflexivity).
  assert (Bx : Forall (fun x => (x < 256)%N)
                 (zip N.lxor l (repeat 255%N (length l))))
    by (apply zip_Forall; auto using lxor_byte).
  rewrite (le_word_land _ _ (sub1_bytes l false) Bx)
    by solve_len.
  rewrite le_word_land.
  - rewrite (flags_exact l Hl). apply negb_involutive.
  - apply zip_Forall; auto using land_byte, sub1_bytes.
  - exact B128.
  - solve_len.
Qed.

(* no false negatives: if some byte of the chunk equals one of the needles,
   has_needle says so *)
Theorem has_needle_complete : forall (w : nat) (needles chunk : list N) (b : N),
  1 <= w -> length chunk = w ->
  Forall (fun x => (x < 256)%N) chunk -> (b < 256)%N ->
  In b needles -> In b chunk ->
  has_needle w needles chunk = true.
Proof.
  intros w needles chunk b Hw HL Hc Hb Hn Hin. unfold has_needle.
  apply existsb_exists. exists b. split; [exact Hn|].
  rewrite splat_repeat.
  assert (Br : Forall (fun x => (x < 256)%N) (repeat b w))
    by (apply Forall_repeat; exact Hb).
  rewrite (le_word_lxor _ _ Br Hc) by (rewrite repeat_length; auto).
  rewrite has_zero_byte_exact.
  - apply existsb_exists. exists 0%N. split; [|reflexivity].
    clear - Hin HL. subst w. induction chunk as [|a t IH]; [destruct Hin|].
    cbn [length repeat zip]. destruct Hin as [E|Hin].
    + left. subst a. apply N.lxor_nilpotent.
    + right. apply IH. exact Hin.
  - exact Hw.
  - solve_len.
  - apply zip_Forall; auto using lxor_byte.
Qed.

Print Assumptions has_zero_byte_exact.
Print Assumptions has_needle_complete.
