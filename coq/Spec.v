(* Specifications the property theorems are stated against. *)
From Memchr Require Export Base.ListX.

(* A load is acceptable when it lies inside the slice of its region and, if the
   code treats it as aligned, its address is a multiple of its width.
   ah/an: start addresses of the haystack and needle slices; lh/ln: lengths. *)
Definition load_ok (ah lh an ln : nat) (e : event) : Prop :=
  match e with
  | Load r off w al =>
      match r with
      | RHay => off + w <= lh /\ (al = true -> 0 < w -> (ah + off) mod w = 0)
      | RNeedle => off + w <= ln /\ (al = true -> 0 < w -> (an + off) mod w = 0)
      end
  | Alloc => False          (* a search never allocates: any Alloc event is unacceptable *)
  | _ => True
  end.

Definition loads_ok (ah lh an ln : nat) (t : list event) : Prop := Forall (load_ok ah lh an ln) t.

Definition no_loads (t : list event) : Prop :=
  Forall (fun e => match e with Load _ _ _ _ => False | _ => True end) t.

Definition no_allocs (t : list event) : Prop :=
  Forall (fun e => match e with Alloc => False | _ => True end) t.

(* ---- substring search ---- *)
(* the needle x occurs in h at offset i *)
Definition occurs_at (x h : list N) (i : nat) : bool :=
  (i + length x <=? length h) && list_eqb (slice h i (length x)) x.

(* leftmost / rightmost occurrence; candidate offsets are 0 ..= |h| - |x| *)
Definition find_spec (x h : list N) : option nat :=
  if length x <=? length h
  then first_idx (occurs_at x h) (seq 0 (length h - length x + 1))
  else None.

Definition rfind_spec (x h : list N) : option nat :=
  if length x <=? length h
  then last_idx (occurs_at x h) (seq 0 (length h - length x + 1))
  else None.

(* a routine that only touches the haystack is also fine next to any needle slice *)
Lemma load_ok_hay_only ah lh an ln e : load_ok ah lh 0 0 e -> load_ok ah lh an ln e.
Proof.
  destruct e as [r off w al| | |]; cbn; try tauto. destruct r; [tauto|].
  intros [H _]. split; [lia|]. intros _ Hw. lia.
Qed.
