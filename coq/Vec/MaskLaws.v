(* The MaskLaws of Vec/MaskRep.v hold for both mask representations. *)
From Memchr Require Import Base.BitsProofs Vec.MaskRep Params.

(* ================= SensibleMoveMask ================= *)
Section SensibleLaws.
  Variable B : nat.
  Hypothesis Bpos : 0 < B.
  Hypothesis Ble : B <= 32.

  Lemma sens_nz l : length l = B -> m_has_nz Sensible (mm Sensible l) = existsb idb l.
  Proof.
    intros _. cbn [m_has_nz mm Sensible]. rewrite bits_eq0. apply negb_involutive.
  Qed.

  Lemma sens_first l i :
    length l = B -> first_idx idb l = Some i -> m_first Sensible (mm Sensible l) = i.
  Proof. intros _ H. cbn [m_first mm Sensible]. apply ctz_bits. exact H. Qed.

  Lemma sens_last l i :
    length l = B -> last_idx idb l = Some i -> m_last Sensible (mm Sensible l) = Ok i.
  Proof.
    intros HL H. cbn [m_last mm Sensible].
    pose proof (last_idx_lt _ _ _ H) as Hi.
    rewrite (clz_bits _ l i H).
    unfold sensible_last_base, sensible_bits.
    rewrite csub_ok by lia.
    replace (32 - (32 - S i)) with (S i) by lia.
    rewrite csub_ok by lia. f_equal. lia.
  Qed.

  Lemma sens_count l : length l = B -> m_count Sensible (mm Sensible l) = count_p idb l.
  Proof. intros _. cbn [m_count mm Sensible]. apply popcount_bits. Qed.

  Lemma sens_or l1 l2 :
    length l1 = B -> length l2 = B ->
    m_or Sensible (mm Sensible l1) (mm Sensible l2) = mm Sensible (map2 orb l1 l2).
  Proof. intros H1 H2. cbn [m_or mm Sensible]. apply lor_bits. congruence. Qed.

  Lemma sens_will l : length l = B -> v_will_nz Sensible l = existsb idb l.
  Proof.
    intros _. cbn [v_will_nz Sensible]. rewrite bits_eq0. apply negb_involutive.
  Qed.

  Lemma sens_clear l i :
    length l = B -> first_idx idb l = Some i ->
    m_clear_lsb Sensible (mm Sensible l) = Ok (mm Sensible (clear_first l)).
  Proof.
    intros _ H. cbn [m_clear_lsb mm Sensible].
    pose proof (bits_first_nz l i H) as Hn.
    destruct (N.eqb_spec (bits_of_lanes l) 0) as [E|_]; [contradiction|].
    f_equal. apply clear_lsb_bits. exact Hn.
  Qed.

  Lemma sens_except l n :
    length l = B -> n < B ->
    exists k l', m_all_except_low Sensible n = Ok k /\
                 m_and Sensible (mm Sensible l) k = mm Sensible l' /\ length l' = B /\
                 (forall i, n <= i -> nth i l' false = nth i l false) /\
                 (forall i, nth i l' false = true -> nth i l false = true).
  Proof.
    intros HL Hn. cbn [m_all_except_low m_and mm Sensible].
    unfold sensible_all_except, sens_width, sensible_bits.
    destruct (Nat.ltb_spec n 32) as [_|Hge]; [|lia].
    eexists. exists (clear_below n l). split; [reflexivity|].
    split; [apply bits_land_except; lia|].
    split; [rewrite clear_below_length; exact HL|].
    split.
    - intros i Hi. apply nth_clear_below_ge. exact Hi.
    - intros i. apply nth_clear_below_true.
  Qed.

  Lemma sens_except0 l :
    length l = B -> 0 < B ->
    exists k, m_all_except_low Sensible 0 = Ok k /\ m_and Sensible (mm Sensible l) k = mm Sensible l.
  Proof.
    intros HL _. cbn [m_all_except_low m_and mm Sensible].
    unfold sensible_all_except, sens_width, sensible_bits.
    change (0 <? 32) with true. cbv iota.
    eexists. split; [reflexivity|].
    rewrite bits_land_except by lia. reflexivity.
  Qed.
End SensibleLaws.

Theorem sensible_laws : forall B, 0 < B -> B <= 32 -> MaskLaws Sensible B.
Proof.
  intros B H0 H32. constructor.
  - intros; eapply sens_nz; eassumption.
  - intros; eapply sens_first; eassumption.
  - intros; eapply sens_last; eassumption.
  - intros; eapply sens_count; eassumption.
  - intros; eapply sens_or; eassumption.
  - intros; eapply sens_will; eassumption.
  - intros; eapply sens_clear; eassumption.
  - intros; eapply sens_except; eassumption.
  - intros; eapply sens_except0; eassumption.
Qed.

(* ================= NeonMoveMask ================= *)
Lemma neon_mm l : length l = 16 -> mm Neon l = bits_of_lanes (expand4 l).
Proof.
  intros H. cbn [mm Neon]. change neon_mask_and with (mask_n 16). rewrite <- H.
  apply nibbles_mask.
Qed.

Lemma neon_nz l : length l = 16 -> m_has_nz Neon (mm Neon l) = existsb idb l.
Proof.
  intros H. rewrite neon_mm by exact H. cbn [m_has_nz Neon].
  rewrite bits_eq0, negb_involutive. apply existsb_expand4.
Qed.

Lemma neon_first l i :
  length l = 16 -> first_idx idb l = Some i -> m_first Neon (mm Neon l) = i.
Proof.
  intros HL H. rewrite neon_mm by exact HL. cbn [m_first Neon].
  rewrite (ctz_bits _ _ _ (first_idx_expand4 l i H)).
  change (2 ^ neon_offset_shift) with 4.
  symmetry. apply Nat.div_unique with 3; lia.
Qed.

Lemma neon_last l i :
  length l = 16 -> last_idx idb l = Some i -> m_last Neon (mm Neon l) = Ok i.
Proof.
  intros HL H. rewrite neon_mm by exact HL. cbn [m_last Neon].
  pose proof (last_idx_lt _ _ _ H) as Hi.
  rewrite (clz_bits _ _ _ (last_idx_expand4 l i H)).
  change (2 ^ neon_last_shift) with 4. unfold neon_bits, neon_last_base.
  replace ((64 - S (4 * i + 3)) / 4) with (15 - i)
    by (apply Nat.div_unique with 0; lia).
  rewrite csub_ok by lia.
  rewrite csub_ok by lia. f_equal. lia.
Qed.

Lemma neon_count l : length l = 16 -> m_count Neon (mm Neon l) = count_p idb l.
Proof.
  intros H. rewrite neon_mm by exact H. cbn [m_count Neon].
  rewrite popcount_bits. apply count_p_expand4.
Qed.

Lemma map2_length_eq {A} (f : A -> A -> A) l1 l2 :
  length l1 = length l2 -> length (map2 f l1 l2) = length l1.
Proof.
  revert l2; induction l1 as [|a t IH]; intros [|b t2] H; cbn in *; try discriminate; [reflexivity|].
  rewrite IH by lia. reflexivity.
Qed.

Lemma neon_or l1 l2 :
  length l1 = 16 -> length l2 = 16 ->
  m_or Neon (mm Neon l1) (mm Neon l2) = mm Neon (map2 orb l1 l2).
Proof.
  intros H1 H2. rewrite !neon_mm; try assumption.
  - cbn [m_or Neon]. rewrite lor_bits by (rewrite !expand4_length; lia).
    rewrite map2_orb_expand4. reflexivity.
  - rewrite map2_length_eq; congruence.
Qed.

Lemma neon_will l : length l = 16 -> v_will_nz Neon l = existsb idb l.
Proof. reflexivity. Qed.

Lemma clear_first_length l : length (clear_first l) = length l.
Proof. induction l as [|[] t IH]; cbn; [reflexivity|reflexivity|]. now rewrite IH. Qed.

Lemma neon_clear l i :
  length l = 16 -> first_idx idb l = Some i ->
  m_clear_lsb Neon (mm Neon l) = Ok (mm Neon (clear_first l)).
Proof.
  intros HL H. rewrite !neon_mm by (rewrite ?clear_first_length; exact HL).
  cbn [m_clear_lsb Neon].
  pose proof (bits_first_nz _ _ (first_idx_expand4 l i H)) as Hn.
  destruct (N.eqb_spec (bits_of_lanes (expand4 l)) 0) as [E|_]; [contradiction|].
  f_equal. rewrite clear_lsb_bits by exact Hn. rewrite clear_first_expand4. reflexivity.
Qed.

Lemma neon_except l n :
  length l = 16 -> n < 16 ->
  exists k l', m_all_except_low Neon n = Ok k /\
               m_and Neon (mm Neon l) k = mm Neon l' /\ length l' = 16 /\
               (forall i, n <= i -> nth i l' false = nth i l false) /\
               (forall i, nth i l' false = true -> nth i l false = true).
Proof.
  intros HL Hn. cbn [m_all_except_low m_and Neon].
  unfold neon_bytes, neon_width, neon_bits, neon_clear_shift.
  destruct (Nat.ltb_spec n 16) as [_|Hge]; [|lia].
  eexists. exists (cb4 (n + 2) l). split; [reflexivity|].
  assert (length (cb4 (n + 2) l) = 16) as HL' by (rewrite cb4_length; exact HL).
  split.
  { rewrite !neon_mm by assumption.
    rewrite bits_land_except by (rewrite expand4_length; lia).
    rewrite clear_below_expand4. reflexivity. }
  split; [exact HL'|].
  split.
  - intros i Hi. apply nth_cb4_ge. lia.
  - intros i. apply nth_cb4_true.
Qed.

Lemma neon_except0 l :
  length l = 16 -> 0 < 16 ->
  exists k, m_all_except_low Neon 0 = Ok k /\ m_and Neon (mm Neon l) k = mm Neon l.
Proof.
  intros HL _. destruct (neon_except l 0 HL ltac:(lia)) as (k & l' & Hk & Hand & HL' & Hge & _).
  exists k. split; [exact Hk|]. rewrite Hand. f_equal.
  apply (nth_ext _ _ false false); [congruence|].
  intros i _. apply Hge. lia.
Qed.

Theorem neon_laws : MaskLaws Neon 16.
Proof.
  constructor.
  - apply neon_nz.
  - apply neon_first.
  - apply neon_last.
  - apply neon_count.
  - apply neon_or.
  - apply neon_will.
  - apply neon_clear.
  - apply neon_except.
  - apply neon_except0.
Qed.

Print Assumptions sensible_laws.
Print Assumptions neon_laws.
