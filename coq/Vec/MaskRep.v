(* The MoveMask interface of src/vector.rs, its two implementations, and the
   laws the generic algorithms rely on (proved in Vec/MaskLaws.v). *)
From Memchr Require Export Base.ListX Base.Bits.
From Memchr Require Import Params.

Record MaskRep := {
  mm : list bool -> N;                 (* Vector::movemask of a vector with these 0xFF/0x00 lanes *)
  m_has_nz : N -> bool;                (* has_non_zero *)
  m_first : N -> nat;                  (* first_offset *)
  m_last : N -> res nat;               (* last_offset (underflows on an empty mask) *)
  m_count : N -> nat;                  (* count_ones *)
  m_or : N -> N -> N;
  m_and : N -> N -> N;
  m_clear_lsb : N -> res N;            (* m & (m - 1): the subtraction overflows on 0 *)
  m_all_except_low : nat -> res N;     (* all_zeros_except_least_significant(n), debug_assert!(n < lanes) *)
  v_will_nz : list bool -> bool;       (* Vector::movemask_will_have_non_zero *)
}.

(* ---- SensibleMoveMask(u32): x86_64 SSE2/AVX2 and wasm simd128 ---- *)
Definition sens_width : N := N.of_nat sensible_bits.

Definition Sensible : MaskRep := {|
  mm := bits_of_lanes;
  m_has_nz := fun m => negb (m =? 0)%N;
  m_first := fun m => ctz sensible_bits m;
  m_last := fun m =>
    match csub sensible_last_base (clz sensible_bits m) with
    | Ok r => csub r 1
    | Panic p => Panic p
    end;
  m_count := popcount;
  m_or := N.lor;
  m_and := N.land;
  m_clear_lsb := fun m => if (m =? 0)%N then Panic Overflow else Ok (N.land m (m - 1));
  m_all_except_low := fun n =>
    if n <? sensible_all_except
    then Ok (N.ldiff (N.ones sens_width) (N.ones (N.of_nat n)))
    else Panic (AssertFail 100);
  v_will_nz := fun l => negb (bits_of_lanes l =? 0)%N;
|}.

(* ---- NeonMoveMask(u64): aarch64 ---- *)
Definition neon_width : N := N.of_nat neon_bits.

Definition Neon : MaskRep := {|
  mm := fun l => N.land (nibbles_of_lanes l) neon_mask_and;
  m_has_nz := fun m => negb (m =? 0)%N;
  m_first := fun m => ctz neon_bits m / 2 ^ neon_offset_shift;
  m_last := fun m =>
    match csub neon_last_base (clz neon_bits m / 2 ^ neon_last_shift) with
    | Ok r => csub r 1
    | Panic p => Panic p
    end;
  m_count := popcount;
  m_or := N.lor;
  m_and := N.land;
  m_clear_lsb := fun m => if (m =? 0)%N then Panic Overflow else Ok (N.land m (m - 1));
  m_all_except_low := fun n =>
    if n <? neon_bytes
    then Ok (N.ldiff (N.ones neon_width) (N.ones (N.of_nat (n + neon_clear_shift))))
    else Panic (AssertFail 101);
  (* vpmaxq_u8(self, self) folded to a u64: non-zero iff some lane is non-zero *)
  v_will_nz := fun l => existsb (fun b => b) l;
|}.

(* ---- laws, for vectors of B lanes ---- *)
Definition idb (b : bool) : bool := b.

Record MaskLaws (R : MaskRep) (B : nat) : Prop := {
  law_nz : forall l, length l = B -> m_has_nz R (mm R l) = existsb idb l;
  law_first : forall l i, length l = B -> first_idx idb l = Some i -> m_first R (mm R l) = i;
  law_last : forall l i, length l = B -> last_idx idb l = Some i -> m_last R (mm R l) = Ok i;
  law_count : forall l, length l = B -> m_count R (mm R l) = count_p idb l;
  law_or : forall l1 l2, length l1 = B -> length l2 = B ->
           m_or R (mm R l1) (mm R l2) = mm R (map2 orb l1 l2);
  law_will : forall l, length l = B -> v_will_nz R l = existsb idb l;
  (* packed pair: iterating over the set lanes *)
  law_clear : forall l i, length l = B -> first_idx idb l = Some i ->
              m_clear_lsb R (mm R l) = Ok (mm R (clear_first l));
  (* packed pair: masking out the overlap. Deliberately weak: lanes >= n are
     kept, nothing is added (the NEON formula does not clear all lanes < n). *)
  law_except : forall l n, length l = B -> n < B ->
              exists k l', m_all_except_low R n = Ok k /\
                           m_and R (mm R l) k = mm R l' /\ length l' = B /\
                           (forall i, n <= i -> nth i l' false = nth i l false) /\
                           (forall i, nth i l' false = true -> nth i l false = true);
  law_except0 : forall l, length l = B -> 0 < B ->
              exists k, m_all_except_low R 0 = Ok k /\ m_and R (mm R l) k = mm R l;
}.
