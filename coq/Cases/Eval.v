(* Helpers for the extraction cross-check (tools/vmcheck.py): the same model functions the
   extracted OCaml driver runs are evaluated inside Coq by vm_compute on a sample of the
   run's cases; results and step counts must agree with what the extracted program printed.
   This ties the extracted program (the thing that is compared with the Rust code) to the
   Gallina definitions the theorems are about, without trusting the extraction or the driver. *)
From Memchr Require Import Params Base.Res Base.Cost Spec Mem.Wrappers Sub.IsEqual Sub.RabinKarp Sub.TwoWay Sub.Searcher.

(* result of a computation, canonicalised: tag 0 = Ok None, 1 = Ok (Some i), 2 = panic; plus the step count *)
Definition canon_opt (m : M (option nat)) : N * N * N :=
  (match fst m with
   | Ok None => (0, 0)
   | Ok (Some i) => (1, N.of_nat i)
   | Panic _ => (2, 0)
   end, N.of_nat (cost (snd m)))%N.

Definition canon_nat (m : M nat) : N * N * N :=
  (match fst m with Ok n => (1, N.of_nat n) | Panic _ => (2, 0) end, N.of_nat (cost (snd m)))%N.

Definition canon_bool (m : M bool) : N * N * N :=
  (match fst m with Ok true => (1, 1) | Ok false => (1, 0) | Panic _ => (2, 0) end, N.of_nat (cost (snd m)))%N.

Definition ev_find (b : backend) ns a h := canon_opt (backend_find ns a h b).
Definition ev_rfind (b : backend) ns a h := canon_opt (backend_rfind ns a h b).
Definition ev_count (b : backend) ns a h := canon_nat (backend_count ns a h b).
Definition ev_mm_top ar a h x := canon_opt (memmem_find ar a h x).
Definition ev_mm_rtop ar a h x := canon_opt (memmem_rfind ar a h x).
Definition ev_mm_find cfg (rank : N -> N) ar a h x := canon_opt (f <- finder_new cfg rank ar x;; finder_find ar f a h).
Definition ev_mm_rfind ar a h x := canon_opt (f <- rfinder_new x;; rfinder_rfind ar f a h).
Definition ev_iseq x y := canon_bool (is_equal x y).
Definition ev_ispre x y := canon_bool (is_prefix x y).
Definition ev_issuf x y := canon_bool (is_suffix x y).
Definition ev_rkfind nx x h := canon_opt (rk_find (rk_new nx) x h).
Definition ev_rkrfind nx x h := canon_opt (rk_rfind (rk_new_rev nx) x h).
Definition rank_id (b : N) : N := b.
Definition rank_const (c : N) (_ : N) : N := c.

(* Two-Way blocks: construction + search, as the driver runs them *)
Definition ev_twfind x a h :=
  canon_opt (tw <- tw_new x;; r <- tw_find tw None a h x prestate_new;; ret (fst r)).
Definition ev_twrfind x h :=
  canon_opt (tw <- tw_new_rev x;; tw_rfind tw h x).

(* iterator histories: the whole output list folded into one number (the driver's printed list is folded the
   same way by tools/vmcheck.py).  code = 4 * v + tag: 0 None, 1 Some v, 2 size_hint (v = lo * 2^20 + hi), 3 count *)
From Memchr Require Import Mem.Iter Sub.FindIter.

Definition mix (acc c : N) : N := ((acc * 1000003 + c + 1) mod 2305843009213693951)%N.
Definition code_opt (o : option nat) : N := match o with None => 0 | Some i => 4 * N.of_nat i + 1 end%N.
Definition code_hint (lo hi : nat) : N := (4 * (N.of_nat lo * 1048576 + N.of_nat hi) + 2)%N.
Definition code_out (o : iout) : N :=
  match o with
  | RItem x => code_opt x
  | RHint lo hi => code_hint lo hi
  | RCount n => (4 * N.of_nat n + 3)%N
  end.

Definition canon_list {A} (code : A -> list N) (m : M (list A)) : N * N * N :=
  (match fst m with
   | Ok l => (1, fold_left mix (flat_map code l) 0)
   | Panic _ => (2, 0)
   end, N.of_nat (cost (snd m)))%N.

Definition ev_iter (b : backend) ns a h ops := canon_list (fun o => [code_out o]) (iter_run b ns a h ops (iter_new h)).
Definition ev_mmiter_fwd cfg (rank : N -> N) ar a h x k :=
  canon_list (fun (o : option nat * (nat * nat)) => [code_hint (fst (snd o)) (snd (snd o)); code_opt (fst o)])
             (f <- finder_new cfg rank ar x;; fiter_run ar f a h k fiter_new).
Definition ev_mmiter_rev ar a h x k :=
  canon_list (fun o => [code_opt o]) (f <- rfinder_new x;; riter_run ar f a h k (riter_new h)).

(* raw-pointer forms *)
Definition ev_find_raw (b : backend) ns a h so eo := canon_opt (backend_find_raw ns a h so eo b).
Definition ev_rfind_raw (b : backend) ns a h so eo := canon_opt (backend_rfind_raw ns a h so eo b).
Definition ev_count_raw (b : backend) ns a h so eo := canon_nat (backend_count_raw ns a h so eo b).
