(* Every backend wrapper (and therefore the x86_64 dispatcher, whichever CPU it
   detects) computes first_idx / last_idx / count_p of the needle predicate. *)
From Memchr Require Import Spec Params Vec.MaskLaws Mem.Wrappers Mem.GenericProofs Mem.SwarProofs
  Mem.BytewiseProofs Mem.NoMatch.

(* side conditions on the generated constants; a changed constant that breaks
   one of them breaks this proof *)
Lemma params_mem_ok :
  0 < sse2_bytes <= 32 /\ 0 < avx2_bytes <= 32 /\ neon_bytes = 16 /\ 0 < simd128_bytes <= 32 /\
  0 < one_unroll /\ 0 < two_unroll /\ 0 < three_unroll /\ 0 < swar_loop_words.
Proof. vm_compute. repeat split; repeat constructor. Qed.

Lemma pany_confirm ns x : pany (needle_preds ns) x = confirm ns x.
Proof.
  unfold pany, needle_preds, confirm. induction ns as [|n ns IH]; cbn; [reflexivity|]. rewrite IH. reflexivity.
Qed.

Lemma first_idx_pany ns (h : list N) : first_idx (pany (needle_preds ns)) h = first_idx (confirm ns) h.
Proof. apply first_idx_ext. apply pany_confirm. Qed.

Lemma last_idx_ext {A} (p q : A -> bool) l : (forall x, p x = q x) -> last_idx p l = last_idx q l.
Proof. intros H. induction l as [|x l IH]; cbn; [reflexivity|]. rewrite H, IH. reflexivity. Qed.

Lemma count_p_ext {A} (p q : A -> bool) l : (forall x, p x = q x) -> count_p p l = count_p q l.
Proof. intros H. induction l as [|x l IH]; cbn; [reflexivity|]. rewrite H, IH. reflexivity. Qed.

Lemma unroll_pos ns : 0 < unroll_of ns.
Proof.
  destruct params_mem_ok as (_ & _ & _ & _ & A & B & C & _).
  unfold unroll_of. destruct (length ns) as [|[|[|n]]]; assumption.
Qed.

Section Proofs.
Variables (ns : list N) (a : nat) (h : list N).
Hypothesis Hns : ns <> [].
Let len := length h.
Notation p := (confirm ns).
Notation ok := (load_ok a len 0 0).

Lemma preds_ne : needle_preds ns <> [].
Proof. unfold needle_preds. destruct ns; [contradiction|discriminate]. Qed.

Lemma bb_fwd_all : satq ok (fwd_byte_by_byte p h 0 len) (fun r => r = first_idx p h).
Proof.
  eapply satq_weaken.
  { apply fwd_byte_by_byte_sat; [fold len; lia|]. intros i Hi. cbn. split; [lia|discriminate]. }
  intros r ->. apply nmb_tail; [fold len; lia|apply nmb_0].
Qed.

Lemma bb_rev_all : satq ok (rev_byte_by_byte p h 0 len) (fun r => r = last_idx p h).
Proof.
  eapply satq_weaken.
  { apply rev_byte_by_byte_sat; [fold len; lia|]. intros i Hi. cbn. split; [lia|discriminate]. }
  intros r ->. apply nmf_head; [fold len; lia|apply nmf_len; fold len; lia].
Qed.

Lemma bb_count_all : satq ok (count_byte_by_byte p h 0 len) (fun r => r = count_p p h).
Proof.
  eapply satq_weaken.
  { apply count_byte_by_byte_sat; [fold len; lia|]. intros i Hi. cbn. split; [lia|discriminate]. }
  intros r ->. rewrite Nat.sub_0_r. subst len. rewrite slice_all. reflexivity.
Qed.

Lemma empty_first : len = 0 -> first_idx p h = None.
Proof. intros H. destruct h; [reflexivity|cbn in H; subst len; discriminate]. Qed.
Lemma empty_last : len = 0 -> last_idx p h = None.
Proof. intros H. destruct h; [reflexivity|cbn in H; subst len; discriminate]. Qed.
Lemma empty_count : len = 0 -> count_p p h = 0.
Proof. intros H. destruct h; [reflexivity|cbn in H; subst len; discriminate]. Qed.

(* generic vector code at width B behind a `len >= B` guard *)
Lemma gen_find_ok R B al : MaskLaws R B -> 0 < B -> B <= len ->
  satq ok (gen_find R B (unroll_of ns) al (needle_preds ns) a h) (fun r => r = first_idx p h).
Proof.
  intros HL HB Hle. eapply satq_weaken.
  { apply (gen_find_sat R B (unroll_of ns) al (needle_preds ns) a h HL HB (unroll_pos ns) preds_ne). exact Hle. }
  intros r ->. apply first_idx_pany.
Qed.

Lemma gen_rfind_ok R B al : MaskLaws R B -> 0 < B -> B <= len ->
  satq ok (gen_rfind R B (unroll_of ns) al (needle_preds ns) a h) (fun r => r = last_idx p h).
Proof.
  intros HL HB Hle. eapply satq_weaken.
  { apply (gen_rfind_sat R B (unroll_of ns) al (needle_preds ns) a h HL HB (unroll_pos ns) preds_ne). exact Hle. }
  intros r ->. apply last_idx_ext. apply pany_confirm.
Qed.

Lemma gen_count_ok R B al : MaskLaws R B -> 0 < B -> B <= len -> length ns = 1 ->
  satq ok (gen_count R B (unroll_of ns) al (needle_preds ns) a h) (fun r => r = count_p p h).
Proof.
  intros HL HB Hle H1. eapply satq_weaken.
  { apply (gen_count_sat R B (unroll_of ns) al (needle_preds ns) a h HL HB (unroll_pos ns)). exact Hle. }
  intros r ->. apply count_p_ext. intros x.
  destruct ns as [|n [|? ?]]; try discriminate. cbn. rewrite orb_false_r. reflexivity.
Qed.

Lemma vec16_find_sat R B al : MaskLaws R B -> 0 < B ->
  satq ok (vec16_find ns a h R B al) (fun r => r = first_idx p h).
Proof.
  intros HL HB. unfold vec16_find. fold len.
  destruct (len =? 0) eqn:E0. { apply Nat.eqb_eq in E0. apply satq_ret. symmetry. apply empty_first. exact E0. }
  destruct (len <? B) eqn:E1. { apply bb_fwd_all. }
  apply Nat.ltb_ge in E1. apply gen_find_ok; assumption.
Qed.

Lemma vec16_rfind_sat R B al : MaskLaws R B -> 0 < B ->
  satq ok (vec16_rfind ns a h R B al) (fun r => r = last_idx p h).
Proof.
  intros HL HB. unfold vec16_rfind. fold len.
  destruct (len =? 0) eqn:E0. { apply Nat.eqb_eq in E0. apply satq_ret. symmetry. apply empty_last. exact E0. }
  destruct (len <? B) eqn:E1. { apply bb_rev_all. }
  apply Nat.ltb_ge in E1. apply gen_rfind_ok; assumption.
Qed.

Lemma vec16_count_sat R B al : MaskLaws R B -> 0 < B -> length ns = 1 ->
  satq ok (vec16_count ns a h R B al) (fun r => r = count_p p h).
Proof.
  intros HL HB H1. unfold vec16_count. fold len.
  destruct (len =? 0) eqn:E0. { apply Nat.eqb_eq in E0. apply satq_ret. symmetry. apply empty_count. exact E0. }
  destruct (len <? B) eqn:E1. { apply bb_count_all. }
  apply Nat.ltb_ge in E1. apply gen_count_ok; assumption.
Qed.

Lemma sens_sse2 : MaskLaws Sensible sse2_bytes /\ 0 < sse2_bytes.
Proof. destruct params_mem_ok as ((A & B) & _). split; [apply sensible_laws; assumption|assumption]. Qed.
Lemma sens_avx2 : MaskLaws Sensible avx2_bytes /\ 0 < avx2_bytes.
Proof. destruct params_mem_ok as (_ & (A & B) & _). split; [apply sensible_laws; assumption|assumption]. Qed.
Lemma sens_simd128 : MaskLaws Sensible simd128_bytes /\ 0 < simd128_bytes.
Proof. destruct params_mem_ok as (_ & _ & _ & (A & B) & _). split; [apply sensible_laws; assumption|assumption]. Qed.
Lemma neon_ok : MaskLaws Neon neon_bytes /\ 0 < neon_bytes.
Proof. destruct params_mem_ok as (_ & _ & E & _). rewrite E. split; [apply neon_laws|lia]. Qed.

Lemma avx2_find_sat : satq ok (avx2_find ns a h) (fun r => r = first_idx p h).
Proof.
  unfold avx2_find. fold len. destruct sens_sse2 as [L1 P1]. destruct sens_avx2 as [L2 P2].
  destruct (len =? 0) eqn:E0. { apply Nat.eqb_eq in E0. apply satq_ret. symmetry. apply empty_first. exact E0. }
  destruct (len <? avx2_bytes) eqn:E1.
  - destruct (len <? sse2_bytes) eqn:E2. { apply bb_fwd_all. }
    apply Nat.ltb_ge in E2. apply gen_find_ok; assumption.
  - apply Nat.ltb_ge in E1. apply gen_find_ok; assumption.
Qed.

Lemma avx2_rfind_sat : satq ok (avx2_rfind ns a h) (fun r => r = last_idx p h).
Proof.
  unfold avx2_rfind. fold len. destruct sens_sse2 as [L1 P1]. destruct sens_avx2 as [L2 P2].
  destruct (len =? 0) eqn:E0. { apply Nat.eqb_eq in E0. apply satq_ret. symmetry. apply empty_last. exact E0. }
  destruct (len <? avx2_bytes) eqn:E1.
  - destruct (len <? sse2_bytes) eqn:E2. { apply bb_rev_all. }
    apply Nat.ltb_ge in E2. apply gen_rfind_ok; assumption.
  - apply Nat.ltb_ge in E1. apply gen_rfind_ok; assumption.
Qed.

Lemma avx2_count_sat : length ns = 1 -> satq ok (avx2_count ns a h) (fun r => r = count_p p h).
Proof.
  intros H1. unfold avx2_count. fold len. destruct sens_sse2 as [L1 P1]. destruct sens_avx2 as [L2 P2].
  destruct (len =? 0) eqn:E0. { apply Nat.eqb_eq in E0. apply satq_ret. symmetry. apply empty_count. exact E0. }
  destruct (len <? avx2_bytes) eqn:E1.
  - destruct (len <? sse2_bytes) eqn:E2. { apply bb_count_all. }
    apply Nat.ltb_ge in E2. apply gen_count_ok; assumption.
  - apply Nat.ltb_ge in E1. apply gen_count_ok; assumption.
Qed.

Hypothesis Hbytes : Forall (fun x => (x < 256)%N) h.
Hypothesis Hneedles : Forall (fun x => (x < 256)%N) ns.

Lemma swar_shape : swar_early_of ns = true \/ swar_words_of ns = 1.
Proof. unfold swar_early_of, swar_words_of. destruct (length ns) as [|[|n]]; auto. Qed.

Lemma swar_words_pos : 0 < swar_words_of ns.
Proof.
  destruct params_mem_ok as (_ & _ & _ & _ & _ & _ & _ & A).
  unfold swar_words_of. destruct (length ns) as [|[|n]]; try lia; exact A.
Qed.

Theorem backend_find_sat b : satq ok (backend_find ns a h b) (fun r => r = first_idx p h).
Proof.
  destruct b; cbn [backend_find].
  - apply swar_find_sat; try assumption; [unfold usize_bytes; lia|apply swar_words_pos|apply swar_shape].
  - destruct sens_sse2. apply vec16_find_sat; assumption.
  - apply avx2_find_sat.
  - destruct neon_ok. apply vec16_find_sat; assumption.
  - destruct sens_simd128. apply vec16_find_sat; assumption.
Qed.

Theorem backend_rfind_sat b : satq ok (backend_rfind ns a h b) (fun r => r = last_idx p h).
Proof.
  destruct b; cbn [backend_rfind].
  - apply swar_rfind_sat; try assumption; [unfold usize_bytes; lia|apply swar_words_pos|apply swar_shape].
  - destruct sens_sse2. apply vec16_rfind_sat; assumption.
  - apply avx2_rfind_sat.
  - destruct neon_ok. apply vec16_rfind_sat; assumption.
  - destruct sens_simd128. apply vec16_rfind_sat; assumption.
Qed.

Theorem backend_count_sat b : length ns = 1 -> satq ok (backend_count ns a h b) (fun r => r = count_p p h).
Proof.
  intros H1. destruct b; cbn [backend_count].
  - unfold swar_count. fold len. destruct (len =? 0) eqn:E0.
    + apply Nat.eqb_eq in E0. apply satq_ret. symmetry. apply empty_count. exact E0.
    + apply bb_count_all.
  - destruct sens_sse2. apply vec16_count_sat; assumption.
  - apply avx2_count_sat. exact H1.
  - destruct neon_ok. apply vec16_count_sat; assumption.
  - destruct sens_simd128. apply vec16_count_sat; assumption.
Qed.

End Proofs.

(* ---- raw-pointer forms ---- *)
Lemma raw_range_length h so eo : eo <= length h -> length (raw_range h so eo) = eo - so.
Proof. intros H. unfold raw_range. rewrite firstn_length, skipn_length. lia. Qed.

Lemma raw_range_nth h so eo i : i < eo - so -> nth i (raw_range h so eo) 0%N = nth (so + i) h 0%N.
Proof.
  intros H. unfold raw_range. rewrite nth_firstn' by exact H. apply nth_skipn'.
Qed.

Lemma raw_range_bytes h so eo : Forall (fun x => (x < 256)%N) h -> Forall (fun x => (x < 256)%N) (raw_range h so eo).
Proof.
  intros H. unfold raw_range. apply Forall_forall. intros x Hx.
  apply (proj1 (Forall_forall _ h) H). apply (In_skipn' h so). apply (In_firstn' (skipn so h) (eo - so)). exact Hx.
Qed.

Section Raw.
Variables (ns : list N) (a : nat) (h : list N) (so eo : nat).
Hypothesis Hns : ns <> [].
Hypothesis Hbytes : Forall (fun x => (x < 256)%N) h.
Hypothesis Hneedles : Forall (fun x => (x < 256)%N) ns.
Hypothesis Heo : eo <= length h.
Notation p := (confirm ns).
(* loads are relative to the range [so, eo), whose first byte is at address a + so *)
Notation okr := (load_ok (a + so) (eo - so) 0 0).

Theorem backend_find_raw_sat b :
  satq okr (backend_find_raw ns a h so eo b)
       (fun r => r = if eo <=? so then None else option_map (fun i => so + i) (first_idx p (raw_range h so eo))).
Proof.
  unfold backend_find_raw. destruct (eo <=? so) eqn:E.
  - apply satq_ret. reflexivity.
  - eapply satq_bind.
    { pose proof (backend_find_sat ns (a + so) (raw_range h so eo) Hns (raw_range_bytes h so eo Hbytes) Hneedles b) as Hs.
      rewrite (raw_range_length h so eo Heo) in Hs. exact Hs. }
    intros r ->. apply satq_ret. reflexivity.
Qed.

Theorem backend_rfind_raw_sat b :
  satq okr (backend_rfind_raw ns a h so eo b)
       (fun r => r = if eo <=? so then None else option_map (fun i => so + i) (last_idx p (raw_range h so eo))).
Proof.
  unfold backend_rfind_raw. destruct (eo <=? so) eqn:E.
  - apply satq_ret. reflexivity.
  - eapply satq_bind.
    { pose proof (backend_rfind_sat ns (a + so) (raw_range h so eo) Hns (raw_range_bytes h so eo Hbytes) Hneedles b) as Hs.
      rewrite (raw_range_length h so eo Heo) in Hs. exact Hs. }
    intros r ->. apply satq_ret. reflexivity.
Qed.

Theorem backend_count_raw_sat b : length ns = 1 ->
  satq okr (backend_count_raw ns a h so eo b)
       (fun r => r = if eo <=? so then 0 else count_p p (raw_range h so eo)).
Proof.
  intros H1. unfold backend_count_raw. destruct (eo <=? so) eqn:E.
  - apply satq_ret. reflexivity.
  - rewrite <- (raw_range_length h so eo Heo).
    apply backend_count_sat; assumption.
Qed.

(* in terms of the whole buffer: a returned index lies in [so, eo), matches, and is the first (last) such index *)
Corollary backend_find_raw_spec b i :
  fst (backend_find_raw ns a h so eo b) = Ok (Some i) ->
  so <= i < eo /\ p (nth i h 0%N) = true /\ forall j, so <= j < i -> p (nth j h 0%N) = false.
Proof.
  intros Hr. destruct (satq_fst _ _ _ (backend_find_raw_sat b)) as (v & Hv & Hp & _).
  rewrite Hr in Hv. injection Hv as <-. destruct (eo <=? so) eqn:E; [discriminate|].
  apply Nat.leb_gt in E.
  destruct (first_idx p (raw_range h so eo)) as [k|] eqn:Ek; [|discriminate].
  cbn [option_map] in Hp. injection Hp as ->.
  apply (first_idx_some p _ k 0%N) in Ek as (K1 & K2 & K3). rewrite (raw_range_length h so eo Heo) in K1.
  rewrite (raw_range_nth h so eo k K1) in K2.
  split; [lia|]. split; [exact K2|]. intros j Hj.
  specialize (K3 (j - so) ltac:(lia)). rewrite (raw_range_nth h so eo (j - so) ltac:(lia)) in K3.
  replace (so + (j - so)) with j in K3 by lia. exact K3.
Qed.

Corollary backend_find_raw_none b :
  fst (backend_find_raw ns a h so eo b) = Ok None -> forall j, so <= j < eo -> p (nth j h 0%N) = false.
Proof.
  intros Hr j Hj. destruct (satq_fst _ _ _ (backend_find_raw_sat b)) as (v & Hv & Hp & _).
  rewrite Hr in Hv. injection Hv as <-. destruct (eo <=? so) eqn:E.
  - apply Nat.leb_le in E. lia.
  - destruct (first_idx p (raw_range h so eo)) as [k|] eqn:Ek; [discriminate|].
    rewrite first_idx_none in Ek. rewrite Forall_forall in Ek.
    assert (j - so < eo - so) as Hlt by lia.
    specialize (Ek (nth (j - so) (raw_range h so eo) 0%N)
                   ltac:(apply nth_In; rewrite (raw_range_length h so eo Heo); exact Hlt)).
    rewrite (raw_range_nth h so eo (j - so) Hlt) in Ek. replace (so + (j - so)) with j in Ek by lia. exact Ek.
Qed.

End Raw.
