From Memchr Require Import Mem.Bytewise.

Lemma slice_one {A} (l : list A) i d : i < length l -> slice l i 1 = [nth i l d].
Proof.
  intros H. unfold slice. revert l H; induction i as [|i IH]; intros [|x l] H; cbn in *; try lia.
  - reflexivity.
  - apply IH. lia.
Qed.

Lemma slice_cons {A} (l : list A) i w d : i < length l -> slice l i (S w) = nth i l d :: slice l (S i) w.
Proof.
  intros H. replace (S w) with (1 + w) by lia. rewrite slice_split, (slice_one l i d H).
  cbn. f_equal. f_equal. lia.
Qed.

Lemma slice_snoc {A} (l : list A) s w d : s + w < length l -> slice l s (S w) = slice l s w ++ [nth (s + w) l d].
Proof.
  intros H. replace (S w) with (w + 1) by lia. rewrite slice_split, (slice_one l (s + w) d H). reflexivity.
Qed.

Lemma slice_nil {A} (l : list A) s : slice l s 0 = [].
Proof. reflexivity. Qed.

Section Proofs.
Variables (p : N -> bool) (h : list N) (Q : event -> Prop).

Lemma fwd_bb_sat fuel : forall s e,
  e - s < fuel -> e <= length h -> (forall i, s <= i < e -> Q (Load RHay i 1 false)) ->
  satq Q (fwd_bb p h fuel s e) (fun r => r = option_map (Nat.add s) (first_idx p (slice h s (e - s)))).
Proof.
  induction fuel as [|f IH]; intros s e Hf He HQ; [lia|]. cbn [fwd_bb].
  destruct (s <? e) eqn:E.
  - apply Nat.ltb_lt in E.
    eapply satq_bind. { apply satq_load_eq; [lia|apply HQ; lia]. }
    intros v ->. rewrite (slice_one h s 0%N) by lia. cbn [hd].
    replace (e - s) with (S (e - S s)) by lia. rewrite (slice_cons h s _ 0%N) by lia. cbn [first_idx].
    destruct (p (nth s h 0%N)).
    + apply satq_ret. cbn. f_equal. lia.
    + eapply satq_weaken. { apply IH; [lia|exact He|]. intros i Hi. apply HQ. lia. }
      intros r ->. destruct (first_idx p (slice h (S s) (e - S s))); cbn; [f_equal; lia|reflexivity].
  - apply Nat.ltb_ge in E. apply satq_ret. replace (e - s) with 0 by lia. reflexivity.
Qed.

Lemma rev_bb_sat fuel : forall s e,
  e - s < fuel -> e <= length h -> (forall i, s <= i < e -> Q (Load RHay i 1 false)) ->
  satq Q (rev_bb p h fuel s e) (fun r => r = option_map (Nat.add s) (last_idx p (slice h s (e - s)))).
Proof.
  induction fuel as [|f IH]; intros s e Hf He HQ; [lia|]. cbn [rev_bb].
  destruct (s <? e) eqn:E.
  - apply Nat.ltb_lt in E.
    eapply satq_bind. { apply satq_load_eq; [lia|apply HQ; lia]. }
    intros v ->. rewrite (slice_one h (e - 1) 0%N) by lia. cbn [hd].
    replace (e - s) with (S (e - 1 - s)) by lia. rewrite (slice_snoc h s _ 0%N) by lia.
    replace (s + (e - 1 - s)) with (e - 1) by lia.
    rewrite last_idx_app. cbn [last_idx]. rewrite slice_length by lia.
    destruct (p (nth (e - 1) h 0%N)).
    + apply satq_ret. cbn. f_equal. lia.
    + eapply satq_weaken. { apply IH; [lia|lia|]. intros i Hi. apply HQ. lia. }
      intros r ->. reflexivity.
  - apply Nat.ltb_ge in E. apply satq_ret. replace (e - s) with 0 by lia. reflexivity.
Qed.

Lemma count_bb_sat fuel : forall s e acc,
  e - s < fuel -> e <= length h -> (forall i, s <= i < e -> Q (Load RHay i 1 false)) ->
  satq Q (count_bb p h fuel s e acc) (fun r => r = acc + count_p p (slice h s (e - s))).
Proof.
  induction fuel as [|f IH]; intros s e acc Hf He HQ; [lia|]. cbn [count_bb].
  destruct (s <? e) eqn:E.
  - apply Nat.ltb_lt in E.
    eapply satq_bind. { apply satq_load_eq; [lia|apply HQ; lia]. }
    intros v ->. rewrite (slice_one h s 0%N) by lia. cbn [hd].
    replace (e - s) with (S (e - S s)) by lia. rewrite (slice_cons h s _ 0%N) by lia. cbn [count_p].
    eapply satq_weaken. { apply IH; [lia|exact He|]. intros i Hi. apply HQ. lia. }
    intros r ->. destruct (p (nth s h 0%N)); lia.
  - apply Nat.ltb_ge in E. apply satq_ret. replace (e - s) with 0 by lia. cbn. lia.
Qed.

Lemma fwd_byte_by_byte_sat s e :
  e <= length h -> (forall i, s <= i < e -> Q (Load RHay i 1 false)) ->
  satq Q (fwd_byte_by_byte p h s e) (fun r => r = option_map (Nat.add s) (first_idx p (slice h s (e - s)))).
Proof. intros. apply fwd_bb_sat; [lia|assumption|assumption]. Qed.

Lemma rev_byte_by_byte_sat s e :
  e <= length h -> (forall i, s <= i < e -> Q (Load RHay i 1 false)) ->
  satq Q (rev_byte_by_byte p h s e) (fun r => r = option_map (Nat.add s) (last_idx p (slice h s (e - s)))).
Proof. intros. apply rev_bb_sat; [lia|assumption|assumption]. Qed.

Lemma count_byte_by_byte_sat s e :
  e <= length h -> (forall i, s <= i < e -> Q (Load RHay i 1 false)) ->
  satq Q (count_byte_by_byte p h s e) (fun r => r = count_p p (slice h s (e - s))).
Proof. intros. eapply satq_weaken; [apply count_bb_sat; [lia|assumption|assumption]|]. intros r ->. lia. Qed.

End Proofs.
