(* Model of src/arch/generic/memchr.rs: One/Two/Three<V>::{find_raw, rfind_raw}
   and One<V>::count_raw, generic in the vector width B, the unroll factor U
   (LOOP_SIZE = U * V::BYTES), the mask representation R and the needle
   predicates ps (one per needle byte).  Offsets replace pointers; `a` is the
   address of the start of the slice (only a mod B matters). *)
From Memchr Require Export Vec.MaskRep Mem.Bytewise.

Section Generic.
Variable R : MaskRep.
Variables B U : nat.
Variable aligned_flag : bool.          (* does V::load_aligned require alignment (false on NEON) *)
Variable ps : list (N -> bool).        (* cmpeq against v1 (, v2 (, v3)) *)
Variables (a : nat) (h : list N).

Let len := length h.

(* lanes of eq_i = v_i.cmpeq(chunk) *)
Definition eq_lanes (q : N -> bool) (chunk : list N) : list bool := map q chunk.

(* eq1.or(eq2).or(eq3): vector-level or *)
Definition or_lanes (chunk : list N) : list bool :=
  match ps with
  | [] => map (fun _ => false) chunk
  | q :: qs => fold_left (fun acc q' => map2 orb acc (eq_lanes q' chunk)) qs (eq_lanes q chunk)
  end.

(* eq1.movemask().or(eq2.movemask()).or(eq3.movemask()): mask-level or *)
Definition or_masks (chunk : list N) : N :=
  match ps with
  | [] => mm R (map (fun _ => false) chunk)
  | q :: qs => fold_left (fun acc q' => m_or R acc (mm R (eq_lanes q' chunk))) qs (mm R (eq_lanes q chunk))
  end.

(* search_chunk(cur, mask_to_offset) for the forward direction *)
Definition search_chunk_fwd (cur : nat) : M (option nat) :=
  chunk <- load RHay h cur B false;;
  if m_has_nz R (mm R (or_lanes chunk))
  then ret (Some (cur + m_first R (or_masks chunk)))
  else ret None.

Definition search_chunk_rev (cur : nat) : M (option nat) :=
  chunk <- load RHay h cur B false;;
  if m_has_nz R (mm R (or_lanes chunk))
  then o <- lift (m_last R (or_masks chunk));; ret (Some (cur + o))
  else ret None.

(* U aligned loads at cur, cur + B, ... *)
Fixpoint load_chunks (cur k : nat) : M (list (list N)) :=
  match k with
  | 0 => ret []
  | S k' =>
      c <- load RHay h cur B aligned_flag;;
      cs <- load_chunks (cur + B) k';;
      ret (c :: cs)
  end.

(* or of all eq vectors of all chunks of the unrolled iteration *)
Definition all_or (chs : list (list N)) : list bool :=
  match chs with
  | [] => []
  | c :: cs => fold_left (fun acc c' => map2 orb acc (or_lanes c')) cs (or_lanes c)
  end.

(* the cascade `let mask = eqa.movemask(); if mask.has_non_zero() {return ..}` ...
   with a debug_assert on the last chunk *)
Fixpoint scan_fwd (cur : nat) (chs : list (list N)) : M nat :=
  match chs with
  | [] => fail (AssertFail 2)
  | [c] => guard 3 (m_has_nz R (or_masks c));;; ret (cur + m_first R (or_masks c))
  | c :: rest =>
      if m_has_nz R (or_masks c) then ret (cur + m_first R (or_masks c))
      else scan_fwd (cur + B) rest
  end.

(* reverse cascade: chunks are given last-first together with their offsets *)
Fixpoint scan_rev (chs : list (nat * list N)) : M nat :=
  match chs with
  | [] => fail (AssertFail 4)
  | [(off, c)] =>
      guard 5 (m_has_nz R (or_masks c));;;
      o <- lift (m_last R (or_masks c));; ret (off + o)
  | (off, c) :: rest =>
      if m_has_nz R (or_masks c) then o <- lift (m_last R (or_masks c));; ret (off + o)
      else scan_rev rest
  end.

Fixpoint offsets_from (cur k : nat) : list nat :=
  match k with 0 => [] | S k' => cur :: offsets_from (cur + B) k' end.

(* ---- find_raw ---- *)
Fixpoint fwd_unrolled (fuel cur : nat) : M (ctl (option nat) nat) :=
  match fuel with
  | 0 => fail OutOfFuel
  | S f =>
      lim <- lift (psub len (U * B));;
      if cur <=? lim then
        guard 12 ((a + cur) mod B =? 0);;;
        chs <- load_chunks cur U;;
        if v_will_nz R (all_or chs) then
          i <- scan_fwd cur chs;; ret (Ret (Some i))
        else fwd_unrolled f (cur + U * B)
      else ret (Go cur)
  end.

Fixpoint fwd_single (fuel cur : nat) : M (ctl (option nat) nat) :=
  match fuel with
  | 0 => fail OutOfFuel
  | S f =>
      lim <- lift (psub len B);;
      if cur <=? lim then
        r <- search_chunk_fwd cur;;
        match r with
        | Some i => ret (Ret (Some i))
        | None => fwd_single f (cur + B)
        end
      else ret (Go cur)
  end.

Definition gen_find : M (option nat) :=
  guard 10 (B <=? len);;;
  r <- search_chunk_fwd 0;;
  match r with
  | Some i => ret (Some i)
  | None =>
      let cur0 := B - (a mod B) in
      guard 11 ((0 <? cur0) && (B <=? len));;;
      c1 <- (if U * B <=? len then fwd_unrolled (S len) cur0 else ret (Go cur0));;
      match c1 with
      | Ret r => ret r
      | Go cur1 =>
          c2 <- fwd_single (S len) cur1;;
          match c2 with
          | Ret r => ret r
          | Go cur2 =>
              if cur2 <? len then
                guard 13 (len - cur2 <? B);;;
                cur3 <- lift (psub cur2 (B - (len - cur2)));;
                guard 14 (len - cur3 =? B);;;
                search_chunk_fwd cur3
              else ret None
          end
      end
  end.

(* ---- rfind_raw ---- *)
Fixpoint rev_unrolled (fuel cur : nat) : M (ctl (option nat) nat) :=
  match fuel with
  | 0 => fail OutOfFuel
  | S f =>
      if U * B <=? cur then
        guard 22 ((a + cur) mod B =? 0);;;
        cur' <- lift (psub cur (U * B));;
        chs <- load_chunks cur' U;;
        if v_will_nz R (all_or chs) then
          i <- scan_rev (rev (combine (offsets_from cur' U) chs));; ret (Ret (Some i))
        else rev_unrolled f cur'
      else ret (Go cur)
  end.

Fixpoint rev_single (fuel cur : nat) : M (ctl (option nat) nat) :=
  match fuel with
  | 0 => fail OutOfFuel
  | S f =>
      if B <=? cur then
        cur' <- lift (psub cur B);;
        r <- search_chunk_rev cur';;
        match r with
        | Some i => ret (Ret (Some i))
        | None => rev_single f cur'
        end
      else ret (Go cur)
  end.

Definition gen_rfind : M (option nat) :=
  guard 20 (B <=? len);;;
  s0 <- lift (psub len B);;
  r <- search_chunk_rev s0;;
  match r with
  | Some i => ret (Some i)
  | None =>
      cur0 <- lift (psub len ((a + len) mod B));;
      guard 21 (cur0 <=? len);;;
      c1 <- (if U * B <=? len then rev_unrolled (S len) cur0 else ret (Go cur0));;
      match c1 with
      | Ret r => ret r
      | Go cur1 =>
          c2 <- rev_single (S len) cur1;;
          match c2 with
          | Ret r => ret r
          | Go cur2 =>
              if 0 <? cur2 then
                guard 23 (cur2 <? B);;;
                search_chunk_rev 0
              else ret None
          end
      end
  end.

(* ---- count_raw (One only: ps = [p1]) ---- *)
Definition pred1 : N -> bool := match ps with q :: _ => q | [] => fun _ => false end.

Fixpoint count_unrolled (fuel cur acc : nat) : M (nat * nat) :=
  match fuel with
  | 0 => fail OutOfFuel
  | S f =>
      lim <- lift (psub len (U * B));;
      if cur <=? lim then
        guard 32 ((a + cur) mod B =? 0);;;
        chs <- load_chunks cur U;;
        let acc' := fold_left (fun s c => s + m_count R (mm R (eq_lanes pred1 c))) chs acc in
        count_unrolled f (cur + U * B) acc'
      else ret (cur, acc)
  end.

Fixpoint count_single (fuel cur acc : nat) : M (nat * nat) :=
  match fuel with
  | 0 => fail OutOfFuel
  | S f =>
      lim <- lift (psub len B);;
      if cur <=? lim then
        c <- load RHay h cur B false;;
        count_single f (cur + B) (acc + m_count R (mm R (eq_lanes pred1 c)))
      else ret (cur, acc)
  end.

Definition gen_count : M nat :=
  guard 30 (B <=? len);;;
  let cur0 := B - (a mod B) in
  c0 <- count_byte_by_byte pred1 h 0 cur0;;
  guard 31 ((0 <? cur0) && (B <=? len));;;
  ca <- (if U * B <=? len then count_unrolled (S len) cur0 c0 else ret (cur0, c0));;
  cb <- count_single (S len) (fst ca) (snd ca);;
  ct <- count_byte_by_byte pred1 h (fst cb) len;;
  ret (snd cb + ct).

End Generic.
