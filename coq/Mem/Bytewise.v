(* Model of fwd_byte_by_byte / rev_byte_by_byte / count_byte_by_byte
   (src/arch/generic/memchr.rs): one byte load per step over h[s..e). *)
From Memchr Require Export Base.ListX.

Section Bytewise.
Variables (p : N -> bool) (h : list N).

(* while ptr < end { if confirm(deref ptr) return Some(ptr); ptr += 1 } None *)
Fixpoint fwd_bb (fuel s e : nat) : M (option nat) :=
  match fuel with
  | 0 => fail OutOfFuel
  | S f =>
      if s <? e then
        v <- load RHay h s 1 false;;
        if p (hd 0%N v) then ret (Some s) else fwd_bb f (S s) e
      else ret None
  end.

(* ptr = end; while ptr > start { ptr -= 1; if confirm(deref ptr) return Some(ptr) } None *)
Fixpoint rev_bb (fuel s e : nat) : M (option nat) :=
  match fuel with
  | 0 => fail OutOfFuel
  | S f =>
      if s <? e then
        v <- load RHay h (e - 1) 1 false;;
        if p (hd 0%N v) then ret (Some (e - 1)) else rev_bb f s (e - 1)
      else ret None
  end.

Fixpoint count_bb (fuel s e acc : nat) : M nat :=
  match fuel with
  | 0 => fail OutOfFuel
  | S f =>
      if s <? e then
        v <- load RHay h s 1 false;;
        count_bb f (S s) e (if p (hd 0%N v) then S acc else acc)
      else ret acc
  end.

Definition fwd_byte_by_byte (s e : nat) : M (option nat) := fwd_bb (S (e - s)) s e.
Definition rev_byte_by_byte (s e : nat) : M (option nat) := rev_bb (S (e - s)) s e.
Definition count_byte_by_byte (s e : nat) : M nat := count_bb (S (e - s)) s e 0.

End Bytewise.
