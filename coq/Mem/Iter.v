(* Model of generic::Iter (src/arch/generic/memchr.rs) and of the public
   iterators built on it: Memchr/Memchr2/Memchr3 and One/Two/Three::iter() of
   every backend.  The iterator state is the window [start, end) (offsets into
   the original haystack); every step searches the window with the backend's
   find_raw / rfind_raw / count_raw. *)
From Memchr Require Export Mem.Wrappers.

Record iter := { it_start : nat; it_end : nat }.

Definition shift_ev (k : nat) (e : event) : event :=
  match e with
  | Load RHay off w al => Load RHay (off + k) w al
  | _ => e
  end.

Section Iter.
Variables (b : backend) (ns : list N) (a : nat) (h : list N).

Definition iter_new : iter := {| it_start := 0; it_end := length h |}.

(* run a raw search on the window: the callee sees the sub-slice at address a + start *)
Definition on_window {A} (it : iter) (f : nat -> list N -> M A) : M A :=
  let s := it_start it in
  let r := f (a + s) (slice h s (it_end it - s)) in
  (fst r, map (shift_ev s) (snd r)).

(* next: found = find_raw(start, end)?; start = found + 1; Some(found - original_start) *)
Definition iter_next (it : iter) : M (option nat * iter) :=
  r <- on_window it (fun a' w => backend_find ns a' w b);;
  match r with
  | None => ret (None, it)
  | Some i =>
      let found := it_start it + i in
      ret (Some found, {| it_start := found + 1; it_end := it_end it |})
  end.

(* next_back: found = rfind_raw(start, end)?; end = found *)
Definition iter_next_back (it : iter) : M (option nat * iter) :=
  r <- on_window it (fun a' w => backend_rfind ns a' w b);;
  match r with
  | None => ret (None, it)
  | Some i =>
      let found := it_start it + i in
      ret (Some found, {| it_start := it_start it; it_end := found |})
  end.

(* size_hint: (0, Some(end.saturating_sub(start))) *)
Definition iter_size_hint (it : iter) : nat * nat := (0, it_end it - it_start it).

(* count: count_raw(start, end) on the CURRENT window *)
Definition iter_count (it : iter) : M nat :=
  on_window it (fun a' w => backend_count ns a' w b).

End Iter.

(* operation histories *)
Inductive iop := ONext | OBack | OHint | OCount.
Inductive iout := RItem (o : option nat) | RHint (lo hi : nat) | RCount (n : nat).

Section Run.
Variables (b : backend) (ns : list N) (a : nat) (h : list N).

Fixpoint iter_run (ops : list iop) (it : iter) : M (list iout) :=
  match ops with
  | [] => ret []
  | op :: rest =>
      match op with
      | ONext =>
          r <- iter_next b ns a h it;;
          outs <- iter_run rest (snd r);; ret (RItem (fst r) :: outs)
      | OBack =>
          r <- iter_next_back b ns a h it;;
          outs <- iter_run rest (snd r);; ret (RItem (fst r) :: outs)
      | OHint =>
          let sh := iter_size_hint it in
          outs <- iter_run rest it;; ret (RHint (fst sh) (snd sh) :: outs)
      | OCount =>
          n <- iter_count b ns a h it;;
          outs <- iter_run rest it;; ret (RCount n :: outs)
      end
  end.

End Run.
