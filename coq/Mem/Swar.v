(* Model of src/arch/all/memchr.rs (portable SWAR One/Two/Three).
   W = USIZE_BYTES, k = words per loop iteration (One: LOOP_BYTES = 2 * USIZE_BYTES
   with an early exit `len <= LOOP_BYTES`; Two/Three: one word, no early exit). *)
From Memchr Require Export Base.Word Mem.Bytewise.

Section Swar.
Variables (W k : nat) (early : bool) (needles : list N) (a : nat) (h : list N).
Let len := length h.

(* confirm(b): s1 == b || s2 == b || s3 == b *)
Definition confirm (b : N) : bool := existsb (fun n => N.eqb n b) needles.

(* k aligned word reads at cur, cur + W, ... *)
Fixpoint load_words (cur n : nat) : M (list (list N)) :=
  match n with
  | 0 => ret []
  | S n' =>
      c <- load RHay h cur W true;;
      cs <- load_words (cur + W) n';;
      ret (c :: cs)
  end.

Fixpoint swar_fwd_loop (fuel cur : nat) : M nat :=
  match fuel with
  | 0 => fail OutOfFuel
  | S f =>
      lim <- lift (psub len (k * W));;
      if cur <=? lim then
        guard 40 ((a + cur) mod W =? 0);;;
        ws <- load_words cur k;;
        if existsb (has_needle W needles) ws then ret cur
        else swar_fwd_loop f (cur + k * W)
      else ret cur
  end.

Definition swar_find : M (option nat) :=
  if len =? 0 then ret None
  else if len <? W then fwd_byte_by_byte confirm h 0 len
  else
    c <- load RHay h 0 W false;;
    if has_needle W needles c then fwd_byte_by_byte confirm h 0 len
    else
      let cur0 := W - (a mod W) in
      guard 41 (0 <? cur0);;;
      if early && (len <=? k * W) then fwd_byte_by_byte confirm h cur0 len
      else
        cur <- swar_fwd_loop (S len) cur0;;
        fwd_byte_by_byte confirm h cur len.

Fixpoint swar_rev_loop (fuel cur : nat) : M nat :=
  match fuel with
  | 0 => fail OutOfFuel
  | S f =>
      if k * W <=? cur then
        guard 42 ((a + cur) mod W =? 0);;;
        s <- lift (psub cur (k * W));;
        ws <- load_words s k;;
        if existsb (has_needle W needles) ws then ret cur
        else swar_rev_loop f s
      else ret cur
  end.

Definition swar_rfind : M (option nat) :=
  if len =? 0 then ret None
  else if len <? W then rev_byte_by_byte confirm h 0 len
  else
    s0 <- lift (psub len W);;
    c <- load RHay h s0 W false;;
    if has_needle W needles c then rev_byte_by_byte confirm h 0 len
    else
      cur0 <- lift (psub len ((a + len) mod W));;
      guard 43 (cur0 <=? len);;;
      if early && (len <=? k * W) then rev_byte_by_byte confirm h 0 cur0
      else
        cur <- swar_rev_loop (S len) cur0;;
        rev_byte_by_byte confirm h 0 cur.

(* count_raw: one byte at a time *)
Definition swar_count : M nat :=
  if len =? 0 then ret 0 else count_byte_by_byte confirm h 0 len.

End Swar.
