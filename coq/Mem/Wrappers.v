(* Per-ISA wrappers (short-haystack routing), the x86_64 runtime dispatch and
   the top-level memchr family of src/memchr.rs. *)
From Memchr Require Export Mem.Generic Mem.Swar.
From Memchr Require Import Params.

Inductive backend := BSwar | BSse2 | BAvx2 | BNeon | BSimd128.
Inductive cpu := HasAvx2 | Sse2Only | NoSimd.

Definition usize_bytes : nat := 8.     (* the only word size that is run; proofs are generic in it *)

Definition needle_preds (ns : list N) : list (N -> bool) := map (fun n b => N.eqb n b) ns.

Definition unroll_of (ns : list N) : nat :=
  match length ns with
  | 1 => one_unroll
  | 2 => two_unroll
  | _ => three_unroll
  end.

Definition swar_words_of (ns : list N) : nat :=
  match length ns with 1 => swar_loop_words | _ => 1 end.
Definition swar_early_of (ns : list N) : bool :=
  match length ns with 1 => true | _ => false end.

Section Wrap.
Variables (ns : list N) (a : nat) (h : list N).
Let len := length h.
Let conf := confirm ns.

(* sse2 / neon / simd128: start >= end -> None; len < BYTES -> byte by byte *)
Definition vec16_find (R : MaskRep) (bytes : nat) (al : bool) : M (option nat) :=
  if len =? 0 then ret None
  else if len <? bytes then fwd_byte_by_byte conf h 0 len
  else gen_find R bytes (unroll_of ns) al (needle_preds ns) a h.
Definition vec16_rfind (R : MaskRep) (bytes : nat) (al : bool) : M (option nat) :=
  if len =? 0 then ret None
  else if len <? bytes then rev_byte_by_byte conf h 0 len
  else gen_rfind R bytes (unroll_of ns) al (needle_preds ns) a h.
Definition vec16_count (R : MaskRep) (bytes : nat) (al : bool) : M nat :=
  if len =? 0 then ret 0
  else if len <? bytes then count_byte_by_byte conf h 0 len
  else gen_count R bytes (unroll_of ns) al (needle_preds ns) a h.

(* avx2: len < 32 -> (len < 16 -> byte by byte | sse2 generic) else avx2 generic *)
Definition avx2_find : M (option nat) :=
  if len =? 0 then ret None
  else if len <? avx2_bytes then
    (if len <? sse2_bytes then fwd_byte_by_byte conf h 0 len
     else gen_find Sensible sse2_bytes (unroll_of ns) true (needle_preds ns) a h)
  else gen_find Sensible avx2_bytes (unroll_of ns) true (needle_preds ns) a h.
Definition avx2_rfind : M (option nat) :=
  if len =? 0 then ret None
  else if len <? avx2_bytes then
    (if len <? sse2_bytes then rev_byte_by_byte conf h 0 len
     else gen_rfind Sensible sse2_bytes (unroll_of ns) true (needle_preds ns) a h)
  else gen_rfind Sensible avx2_bytes (unroll_of ns) true (needle_preds ns) a h.
Definition avx2_count : M nat :=
  if len =? 0 then ret 0
  else if len <? avx2_bytes then
    (if len <? sse2_bytes then count_byte_by_byte conf h 0 len
     else gen_count Sensible sse2_bytes (unroll_of ns) true (needle_preds ns) a h)
  else gen_count Sensible avx2_bytes (unroll_of ns) true (needle_preds ns) a h.

Definition backend_find (b : backend) : M (option nat) :=
  match b with
  | BSwar => swar_find usize_bytes (swar_words_of ns) (swar_early_of ns) ns a h
  | BSse2 => vec16_find Sensible sse2_bytes true
  | BAvx2 => avx2_find
  | BNeon => vec16_find Neon neon_bytes false
  | BSimd128 => vec16_find Sensible simd128_bytes true
  end.
Definition backend_rfind (b : backend) : M (option nat) :=
  match b with
  | BSwar => swar_rfind usize_bytes (swar_words_of ns) (swar_early_of ns) ns a h
  | BSse2 => vec16_rfind Sensible sse2_bytes true
  | BAvx2 => avx2_rfind
  | BNeon => vec16_rfind Neon neon_bytes false
  | BSimd128 => vec16_rfind Sensible simd128_bytes true
  end.
Definition backend_count (b : backend) : M nat :=
  match b with
  | BSwar => swar_count ns h
  | BSse2 => vec16_count Sensible sse2_bytes true
  | BAvx2 => avx2_count
  | BNeon => vec16_count Neon neon_bytes false
  | BSimd128 => vec16_count Sensible simd128_bytes true
  end.

(* x86_64 unsafe_ifunc!: what `detect` installs *)
Definition x86_choice (c : cpu) : backend :=
  match c with HasAvx2 => BAvx2 | Sse2Only => BSse2 | NoSimd => BSwar end.

End Wrap.

(* The raw-pointer forms find_raw / rfind_raw / count_raw(start, end) of the One/Two/Three searchers, with
   start = base + so and end = base + eo inside a buffer h at address a: `if start >= end { return None }`
   (count: 0) is the first line of every one of them, then the search runs on [start, end) and the returned
   pointer is inside that range.  Loads are reported relative to the range (the hooks register it). *)
Definition raw_range (h : list N) (so eo : nat) : list N := firstn (eo - so) (skipn so h).

Definition backend_find_raw (ns : list N) (a : nat) (h : list N) (so eo : nat) (b : backend) : M (option nat) :=
  if eo <=? so then ret None
  else r <- backend_find ns (a + so) (raw_range h so eo) b;; ret (option_map (fun i => so + i) r).

Definition backend_rfind_raw (ns : list N) (a : nat) (h : list N) (so eo : nat) (b : backend) : M (option nat) :=
  if eo <=? so then ret None
  else r <- backend_rfind ns (a + so) (raw_range h so eo) b;; ret (option_map (fun i => so + i) r).

Definition backend_count_raw (ns : list N) (a : nat) (h : list N) (so eo : nat) (b : backend) : M nat :=
  if eo <=? so then ret 0 else backend_count ns (a + so) (raw_range h so eo) b.
