(* src/arch/all/memchr.rs (SWAR): find = first_idx, rfind = last_idx, count = count_p;
   loads in bounds, word loads in the loop aligned.  Generic in the word size W
   and the number of words per iteration k. *)
From Memchr Require Import Spec Base.WordProofs Mem.Swar Mem.BytewiseProofs Mem.NoMatch.

Lemma In_firstn' {A} (l : list A) n x : In x (firstn n l) -> In x l.
Proof. intros H. rewrite <- (firstn_skipn n l). apply in_or_app. left. exact H. Qed.
Lemma In_skipn' {A} (l : list A) n x : In x (skipn n l) -> In x l.
Proof. intros H. rewrite <- (firstn_skipn n l). apply in_or_app. right. exact H. Qed.
Lemma In_slice {A} (l : list A) off w x : In x (slice l off w) -> In x l.
Proof. unfold slice. intros H. eapply In_skipn'. eapply In_firstn'. exact H. Qed.

Section Proofs.
Variables (W k : nat) (early : bool) (needles : list N) (a : nat) (h : list N).
Hypothesis HW : 0 < W.
Hypothesis Hk : 0 < k.
Hypothesis Hbytes : Forall (fun x => (x < 256)%N) h.
Hypothesis Hneedles : Forall (fun x => (x < 256)%N) needles.
(* One has the early exit `len <= LOOP_BYTES`; Two/Three read one word per iteration *)
Hypothesis Hek : early = true \/ k = 1.

Let len := length h.
Notation p := (confirm needles).
Definition okw : event -> Prop := load_ok a len 0 0.

Lemma slice_bytes off w : Forall (fun x => (x < 256)%N) (slice h off w).
Proof. rewrite Forall_forall in *. intros x Hx. apply Hbytes. eapply In_slice. exact Hx. Qed.

(* no false negative: a word without "needle" contains no confirmed byte *)
Lemma no_needle_none off :
  off + W <= len -> has_needle W needles (slice h off W) = false ->
  first_idx p (slice h off W) = None.
Proof.
  intros Hle Hn. apply first_idx_none. rewrite Forall_forall. intros x Hx.
  destruct (confirm needles x) eqn:E; [|reflexivity]. exfalso.
  unfold confirm in E. apply existsb_exists in E as (n & Hin & Heq). apply N.eqb_eq in Heq. subst x.
  rewrite (has_needle_complete W needles (slice h off W) n) in Hn; try discriminate.
  - lia.
  - apply slice_length. exact Hle.
  - apply slice_bytes.
  - rewrite Forall_forall in Hneedles. apply Hneedles. exact Hin.
  - exact Hin.
  - exact Hx.
Qed.

Lemma okw_unaligned off w : off + w <= len -> okw (Load RHay off w false).
Proof. intros H. cbn. split; [exact H|discriminate]. Qed.
Lemma okw_aligned off : off + W <= len -> (a + off) mod W = 0 -> okw (Load RHay off W true).
Proof. intros H1 H2. cbn. split; [exact H1|]. intros _ _. exact H2. Qed.

Lemma mod_add_mulW x j : (a + x) mod W = 0 -> (a + (x + j * W)) mod W = 0.
Proof.
  intros H. replace (a + (x + j * W)) with ((a + x) + j * W) by lia.
  rewrite Nat.mod_add by lia. exact H.
Qed.

Lemma mod_sub_mulW x j : j * W <= x -> (a + x) mod W = 0 -> (a + (x - j * W)) mod W = 0.
Proof.
  intros Hle H.
  destruct ((a + (x - j * W)) mod W) eqn:Em; [reflexivity|]. exfalso.
  replace (a + x) with ((a + (x - j * W)) + j * W) in H by lia.
  rewrite Nat.mod_add in H by lia. lia.
Qed.

(* k aligned words from cur *)
Fixpoint words_at (cur : nat) (ws : list (list N)) : Prop :=
  match ws with
  | [] => True
  | c :: r => c = slice h cur W /\ cur + W <= len /\ words_at (cur + W) r
  end.

Lemma load_words_sat n : forall cur,
  cur + n * W <= len -> (a + cur) mod W = 0 ->
  satq okw (load_words W h cur n) (fun ws => words_at cur ws /\ length ws = n).
Proof.
  induction n as [|n IH]; intros cur Hle Hal; cbn [load_words].
  - apply satq_ret. split; [exact I|reflexivity].
  - eapply satq_bind. { apply satq_load_eq; [fold len; lia|apply okw_aligned; [lia|exact Hal]]. }
    intros c ->.
    eapply satq_bind. { apply IH; [lia|]. replace (cur + W) with (cur + 1 * W) by lia. apply mod_add_mulW. exact Hal. }
    intros cs [Hcs Hlen]. apply satq_ret. split; [|cbn; lia].
    cbn. split; [reflexivity|]. split; [lia|exact Hcs].
Qed.

Lemma words_none ws : forall cur,
  words_at cur ws -> existsb (has_needle W needles) ws = false ->
  first_idx p (slice h cur (length ws * W)) = None.
Proof.
  induction ws as [|c r IH]; intros cur Hc Ha; [reflexivity|].
  destruct Hc as (-> & Hle & Hr). cbn [existsb] in Ha. apply orb_false_iff in Ha as [Ha1 Ha2].
  cbn [length]. replace (S (length r) * W) with (W + length r * W) by lia.
  rewrite slice_split, first_idx_app, (no_needle_none cur Hle Ha1), (IH (cur + W) Hr Ha2). reflexivity.
Qed.

Lemma words_none_last ws cur :
  words_at cur ws -> existsb (has_needle W needles) ws = false ->
  last_idx p (slice h cur (length ws * W)) = None.
Proof. intros H1 H2. apply first_last_none'. apply words_none; assumption. Qed.

(* ---------- forward ---------- *)
Lemma swar_fwd_loop_sat fuel : forall cur,
  len - cur < fuel -> k * W <= len -> cur <= len -> nmb p h cur -> (a + cur) mod W = 0 ->
  satq okw (swar_fwd_loop W k needles a h fuel cur) (fun c => nmb p h c /\ c <= len).
Proof.
  induction fuel as [|f IH]; intros cur Hf HkW Hle Hn Hal; [lia|].
  cbn [swar_fwd_loop]. fold len.
  eapply satq_bind. { apply satq_lift_eq. apply psub_ok. exact HkW. }
  intros lim ->.
  destruct (cur <=? len - k * W) eqn:E.
  - apply Nat.leb_le in E.
    eapply satq_bind. { apply satq_guard_eq. apply Nat.eqb_eq. exact Hal. }
    intros _ _.
    eapply satq_bind. { apply load_words_sat; [lia|exact Hal]. }
    intros ws [Hws Hlen].
    destruct (existsb (has_needle W needles) ws) eqn:Ea.
    + apply satq_ret. split; assumption.
    + assert (0 < k * W) by nia.
      apply IH; [lia|exact HkW|lia| |apply mod_add_mulW; exact Hal].
      apply nmb_extend; [exact Hn|]. rewrite <- Hlen. apply words_none; assumption.
  - apply satq_ret. split; assumption.
Qed.

Lemma align_upW : (a + (W - a mod W)) mod W = 0.
Proof.
  pose proof (Nat.mod_upper_bound a W ltac:(lia)) as Hm.
  pose proof (Nat.div_mod a W ltac:(lia)) as Hd.
  replace (a + (W - a mod W)) with ((1 + a / W) * W) by nia.
  apply Nat.mod_mul. lia.
Qed.

Lemma align_downW x : (x - x mod W) mod W = 0.
Proof.
  pose proof (Nat.div_mod x W ltac:(lia)) as Hd.
  replace (x - x mod W) with ((x / W) * W) by nia.
  apply Nat.mod_mul. lia.
Qed.

Lemma fwd_finish c :
  c <= len -> nmb p h c ->
  satq okw (fwd_byte_by_byte p h c len) (fun r => r = first_idx p h).
Proof.
  intros Hc Hn. eapply satq_weaken.
  { apply fwd_byte_by_byte_sat; [fold len; lia|]. intros i Hi. apply okw_unaligned. lia. }
  intros r ->. apply nmb_tail; assumption.
Qed.

Theorem swar_find_sat :
  satq okw (swar_find W k early needles a h) (fun r => r = first_idx p h).
Proof.
  unfold swar_find. fold len.
  destruct (len =? 0) eqn:E0.
  { apply Nat.eqb_eq in E0. apply satq_ret. symmetry. apply (nmb_all p h 0); [fold len; lia|apply nmb_0]. }
  apply Nat.eqb_neq in E0.
  destruct (len <? W) eqn:EW.
  { apply fwd_finish; [lia|apply nmb_0]. }
  apply Nat.ltb_ge in EW.
  eapply satq_bind. { apply satq_load_eq; [fold len; lia|apply okw_unaligned; lia]. }
  intros c ->.
  destruct (has_needle W needles (slice h 0 W)) eqn:Eh.
  { apply fwd_finish; [lia|apply nmb_0]. }
  pose proof (Nat.mod_upper_bound a W ltac:(lia)) as Hm.
  assert (nmb p h (W - a mod W)) as Hn0.
  { apply (nmb_mono p h _ (0 + W)); [lia|]. apply nmb_extend; [apply nmb_0|]. apply no_needle_none; [lia|exact Eh]. }
  eapply satq_bind. { apply satq_guard_eq. apply Nat.ltb_lt. lia. }
  intros _ _.
  destruct (early && (len <=? k * W)) eqn:Ee.
  { apply fwd_finish; [lia|exact Hn0]. }
  assert (k * W <= len) as HkW.
  { destruct Hek as [->| ->]; [|lia]. cbn [andb] in Ee. apply Nat.leb_gt in Ee. lia. }
  eapply satq_bind. { apply swar_fwd_loop_sat; [lia|exact HkW|lia|exact Hn0|apply align_upW]. }
  intros cur [Hn Hle]. apply fwd_finish; assumption.
Qed.

(* ---------- reverse ---------- *)
Lemma swar_rev_loop_sat fuel : forall cur,
  cur < fuel -> cur <= len -> nmf p h cur -> (a + cur) mod W = 0 ->
  satq okw (swar_rev_loop W k needles a h fuel cur) (fun c => nmf p h c /\ c <= len).
Proof.
  induction fuel as [|f IH]; intros cur Hf Hle Hn Hal; [lia|].
  cbn [swar_rev_loop].
  destruct (k * W <=? cur) eqn:E.
  - apply Nat.leb_le in E.
    eapply satq_bind. { apply satq_guard_eq. apply Nat.eqb_eq. exact Hal. }
    intros _ _.
    eapply satq_bind. { apply satq_lift_eq. apply psub_ok. exact E. }
    intros s ->.
    pose proof (mod_sub_mulW cur k E Hal) as Hal'.
    eapply satq_bind. { apply load_words_sat; [lia|exact Hal']. }
    intros ws [Hws Hlen].
    destruct (existsb (has_needle W needles) ws) eqn:Ea.
    + apply satq_ret. split; assumption.
    + assert (0 < k * W) by nia.
      apply IH; [lia|lia| |exact Hal'].
      apply (nmf_extend p h _ (k * W)); [fold len; lia| |].
      * replace (cur - k * W + k * W) with cur by lia. exact Hn.
      * pose proof (words_none_last ws _ Hws Ea) as Hx. rewrite Hlen in Hx. exact Hx.
  - apply satq_ret. split; assumption.
Qed.

Lemma rev_finish c :
  c <= len -> nmf p h c ->
  satq okw (rev_byte_by_byte p h 0 c) (fun r => r = last_idx p h).
Proof.
  intros Hc Hn. eapply satq_weaken.
  { apply rev_byte_by_byte_sat; [fold len; lia|]. intros i Hi. apply okw_unaligned. lia. }
  intros r ->. apply nmf_head; assumption.
Qed.

Theorem swar_rfind_sat :
  satq okw (swar_rfind W k early needles a h) (fun r => r = last_idx p h).
Proof.
  unfold swar_rfind. fold len.
  destruct (len =? 0) eqn:E0.
  { apply Nat.eqb_eq in E0. apply satq_ret. symmetry. apply nmf_all. apply nmf_len. fold len. lia. }
  apply Nat.eqb_neq in E0.
  destruct (len <? W) eqn:EW.
  { apply rev_finish; [lia|apply nmf_len; fold len; lia]. }
  apply Nat.ltb_ge in EW.
  eapply satq_bind. { apply satq_lift_eq. apply psub_ok. exact EW. }
  intros s0 ->.
  eapply satq_bind. { apply satq_load_eq; [fold len; lia|apply okw_unaligned; lia]. }
  intros c ->.
  destruct (has_needle W needles (slice h (len - W) W)) eqn:Eh.
  { apply rev_finish; [lia|apply nmf_len; fold len; lia]. }
  pose proof (Nat.mod_upper_bound (a + len) W ltac:(lia)) as Hm.
  assert (nmf p h (len - W)) as Hnw.
  { apply (nmf_extend p h _ W); [fold len; lia|apply nmf_len; fold len; lia|].
    apply first_last_none'. apply no_needle_none; [lia|exact Eh]. }
  eapply satq_bind. { apply satq_lift_eq. apply psub_ok. lia. }
  intros cur0 ->.
  eapply satq_bind. { apply satq_guard_eq. apply Nat.leb_le. lia. }
  intros _ _.
  assert (nmf p h (len - (a + len) mod W)) as Hn0 by (apply (nmf_mono p h (len - W)); [lia|exact Hnw]).
  destruct (early && (len <=? k * W)) eqn:Ee.
  { apply rev_finish; [lia|exact Hn0]. }
  eapply satq_bind.
  { apply swar_rev_loop_sat; [lia|lia|exact Hn0|].
    replace (a + (len - (a + len) mod W)) with ((a + len) - (a + len) mod W) by lia. apply align_downW. }
  intros cur [Hn Hle]. apply rev_finish; assumption.
Qed.

Theorem swar_count_sat :
  satq okw (swar_count needles h) (fun r => r = count_p p h).
Proof.
  unfold swar_count. fold len.
  destruct (len =? 0) eqn:E0.
  { apply Nat.eqb_eq in E0. apply satq_ret. destruct h; [reflexivity|cbn in E0; subst len; discriminate]. }
  eapply satq_weaken.
  { apply count_byte_by_byte_sat; [fold len; lia|]. intros i Hi. apply okw_unaligned. lia. }
  intros r ->. rewrite Nat.sub_0_r. subst len. rewrite slice_all. reflexivity.
Qed.

End Proofs.
