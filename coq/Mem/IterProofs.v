(* The iterators refine a double-ended queue of the match positions. *)
From Coq Require Import Sorted.
From Memchr Require Import Spec Params Mem.Iter Mem.WrappersProofs Mem.BytewiseProofs Mem.SwarProofs.

Definition last_opt (l : list nat) : option nat :=
  match l with [] => None | _ => Some (last l 0) end.

Lemma last_opt_app l x : last_opt (l ++ [x]) = Some x.
Proof.
  unfold last_opt. destruct (l ++ [x]) eqn:E; [destruct l; discriminate|]. rewrite <- E.
  rewrite last_last. reflexivity.
Qed.

Section Mpos.
Variables (p : N -> bool) (h : list N).

(* positions in [s, s+n) whose byte matches, ascending *)
Definition mpos (s n : nat) : list nat := filter (fun i => p (nth i h 0%N)) (seq s n).

Lemma mpos_split s n1 n2 : mpos s (n1 + n2) = mpos s n1 ++ mpos (s + n1) n2.
Proof. unfold mpos. rewrite seq_app, filter_app. reflexivity. Qed.

Lemma mpos_length s n : length (mpos s n) <= n.
Proof.
  unfold mpos. revert s; induction n as [|n IH]; intros s; cbn; [lia|].
  destruct (p (nth s h 0%N)); cbn; specialize (IH (S s)); lia.
Qed.

Lemma mpos_none s n : s + n <= length h -> first_idx p (slice h s n) = None -> mpos s n = [].
Proof.
  revert s; induction n as [|n IH]; intros s Hle H; [reflexivity|].
  rewrite (slice_cons h s n 0%N) in H by lia. cbn [first_idx] in H.
  unfold mpos. cbn [seq filter]. destruct (p (nth s h 0%N)); [discriminate|].
  apply IH; [lia|]. destruct (first_idx p (slice h (S s) n)); [discriminate|reflexivity].
Qed.

Lemma mpos_first s n : s + n <= length h ->
  option_map (Nat.add s) (first_idx p (slice h s n)) = hd_error (mpos s n).
Proof.
  revert s; induction n as [|n IH]; intros s Hle; [reflexivity|].
  rewrite (slice_cons h s n 0%N) by lia. cbn [first_idx]. unfold mpos. cbn [seq filter].
  destruct (p (nth s h 0%N)); [cbn; f_equal; lia|].
  fold (mpos (S s) n). rewrite <- IH by lia.
  destruct (first_idx p (slice h (S s) n)); cbn; [f_equal; lia|reflexivity].
Qed.

Lemma mpos_last s n : s + n <= length h ->
  option_map (Nat.add s) (last_idx p (slice h s n)) = last_opt (mpos s n).
Proof.
  revert s; induction n as [|n IH]; intros s Hle; [reflexivity|].
  replace (S n) with (n + 1) by lia.
  rewrite slice_split, last_idx_app, mpos_split.
  rewrite (slice_one h (s + n) 0%N) by lia. unfold mpos at 2. cbn [seq filter last_idx].
  rewrite slice_length by lia.
  destruct (p (nth (s + n) h 0%N)).
  - rewrite last_opt_app. cbn. f_equal. lia.
  - rewrite app_nil_r. apply IH. lia.
Qed.

Lemma mpos_one s : mpos s 1 = if p (nth s h 0%N) then [s] else [].
Proof. reflexivity. Qed.

Lemma mpos_split3 s n i : i < n ->
  mpos s n = mpos s i ++ mpos (s + i) 1 ++ mpos (s + i + 1) (n - i - 1).
Proof.
  intros H. replace n with (i + (1 + (n - i - 1))) at 1 by lia.
  rewrite mpos_split, mpos_split. reflexivity.
Qed.

(* popping the front *)
Lemma mpos_pop_front s n i : s + n <= length h ->
  first_idx p (slice h s n) = Some i -> mpos (s + i + 1) (n - i - 1) = tl (mpos s n).
Proof.
  intros Hle Hi.
  pose proof (first_idx_lt _ _ _ Hi) as Hlt. rewrite slice_length in Hlt by lia.
  apply (first_idx_some p (slice h s n) i 0%N) in Hi as (_ & Hpi & Hbefore).
  rewrite (mpos_split3 s n i Hlt).
  assert (mpos s i = []) as E1.
  { apply mpos_none; [lia|]. apply first_idx_none. rewrite Forall_forall. intros x Hx.
    destruct (In_nth _ _ 0%N Hx) as (j & Hj & <-). rewrite slice_length in Hj by lia.
    rewrite nth_slice by lia. specialize (Hbefore j Hj). rewrite nth_slice in Hbefore by lia. exact Hbefore. }
  rewrite E1, mpos_one. rewrite nth_slice in Hpi by lia. rewrite Hpi.
  cbn [app tl]. reflexivity.
Qed.

(* popping the back *)
Lemma mpos_pop_back s n i : s + n <= length h ->
  last_idx p (slice h s n) = Some i -> mpos s i = removelast (mpos s n).
Proof.
  intros Hle Hi.
  pose proof (last_idx_lt _ _ _ Hi) as Hlt. rewrite slice_length in Hlt by lia.
  apply (last_idx_some p (slice h s n) i 0%N) in Hi as (_ & Hpi & Hafter).
  rewrite (mpos_split3 s n i Hlt).
  assert (mpos (s + i + 1) (n - i - 1) = []) as E1.
  { apply mpos_none; [lia|]. apply first_idx_none. rewrite Forall_forall. intros x Hx.
    destruct (In_nth _ _ 0%N Hx) as (j & Hj & <-). rewrite slice_length in Hj by lia.
    rewrite nth_slice by lia.
    specialize (Hafter (i + 1 + j) ltac:(lia)). rewrite slice_length in Hafter by lia.
    specialize (Hafter ltac:(lia)). rewrite nth_slice in Hafter by lia.
    replace (s + i + 1 + j) with (s + (i + 1 + j)) by lia. exact Hafter. }
  rewrite E1, mpos_one. rewrite nth_slice in Hpi by lia. rewrite Hpi.
  rewrite app_nil_r. rewrite removelast_last. reflexivity.
Qed.

Lemma mpos_count s n : s + n <= length h -> count_p p (slice h s n) = length (mpos s n).
Proof.
  revert s; induction n as [|n IH]; intros s Hle; [reflexivity|].
  rewrite (slice_cons h s n 0%N) by lia. cbn [count_p]. unfold mpos. cbn [seq filter].
  fold (mpos (S s) n). rewrite IH by lia. destruct (p (nth s h 0%N)); cbn; lia.
Qed.

(* the queue is strictly ascending, hence duplicate-free, and contains exactly the matches *)
Lemma mpos_In s n i : In i (mpos s n) <-> s <= i < s + n /\ p (nth i h 0%N) = true.
Proof. unfold mpos. rewrite filter_In, in_seq. tauto. Qed.

Lemma mpos_sorted s n : StronglySorted lt (mpos s n).
Proof.
  unfold mpos. revert s; induction n as [|n IH]; intros s; cbn; [constructor|].
  destruct (p (nth s h 0%N)); [|apply IH].
  constructor; [apply IH|]. rewrite Forall_forall. intros x Hx. apply filter_In in Hx as [Hx _].
  apply in_seq in Hx. lia.
Qed.

End Mpos.

Section Proofs.
Variables (b : backend) (ns : list N) (a : nat) (h : list N).
Hypothesis Hns : ns <> [].
Hypothesis Hbytes : Forall (fun x => (x < 256)%N) h.
Hypothesis Hneedles : Forall (fun x => (x < 256)%N) ns.
Let len := length h.
Notation p := (confirm ns).
Notation ok := (load_ok a len 0 0).

Definition absw (it : iter) : list nat := mpos p h (it_start it) (it_end it - it_start it).
Definition inv (it : iter) : Prop := it_start it <= it_end it /\ it_end it <= len.

Lemma slice_bytes_ok s n : Forall (fun x => (x < 256)%N) (slice h s n).
Proof. rewrite Forall_forall in *. intros x Hx. apply Hbytes. eapply In_slice. exact Hx. Qed.

Lemma on_window_satq {A} (it : iter) (f : nat -> list N -> M A) (P : A -> Prop) :
  inv it ->
  satq (load_ok (a + it_start it) (it_end it - it_start it) 0 0)
       (f (a + it_start it) (slice h (it_start it) (it_end it - it_start it))) P ->
  satq ok (on_window a h it f) P.
Proof.
  intros [H1 H2] (v & Hv & HP & Ht). exists v. unfold on_window. cbn [fst snd].
  split; [exact Hv|]. split; [exact HP|].
  apply Forall_forall. intros e He. apply in_map_iff in He as (e0 & <- & He0).
  rewrite Forall_forall in Ht. specialize (Ht e0 He0).
  destruct e0 as [r off w al| | |]; try exact I; try exact Ht.
  destruct r; [|exact Ht]. cbn in Ht |- *.
  destruct Ht as [Hb Hal]. split; [fold len; lia|]. intros E Hw. specialize (Hal E Hw).
  replace (a + (off + it_start it)) with (a + it_start it + off) by lia. exact Hal.
Qed.

Lemma window_len it : inv it -> length (slice h (it_start it) (it_end it - it_start it)) = it_end it - it_start it.
Proof. intros [H1 H2]. apply slice_length. fold len. lia. Qed.

Lemma iter_next_sat it : inv it ->
  satq ok (iter_next b ns a h it)
       (fun r => fst r = hd_error (absw it) /\ absw (snd r) = tl (absw it) /\ inv (snd r)).
Proof.
  intros Hinv. pose proof Hinv as [H1 H2]. unfold iter_next.
  eapply satq_bind.
  { apply on_window_satq; [exact Hinv|].
    pose proof (backend_find_sat ns (a + it_start it) (slice h (it_start it) (it_end it - it_start it))
                  Hns (slice_bytes_ok _ _) Hneedles b) as Hs.
    rewrite (window_len it Hinv) in Hs. exact Hs. }
  intros r ->.
  pose proof (mpos_first p h (it_start it) (it_end it - it_start it) ltac:(fold len; lia)) as Hf.
  destruct (first_idx p (slice h (it_start it) (it_end it - it_start it))) as [i|] eqn:Hi.
  - pose proof (first_idx_lt _ _ _ Hi) as Hlt. rewrite (window_len it Hinv) in Hlt.
    apply satq_ret. cbn [fst snd]. split; [exact Hf|]. split.
    + unfold absw. cbn [it_start it_end].
      replace (it_end it - (it_start it + i + 1)) with (it_end it - it_start it - i - 1) by lia.
      apply mpos_pop_front; [fold len; lia|exact Hi].
    + unfold inv. cbn [it_start it_end]. fold len. lia.
  - apply satq_ret. cbn [fst snd]. cbn in Hf. split; [exact Hf|]. split; [|exact Hinv].
    fold (absw it) in Hf. destruct (absw it); [reflexivity|discriminate].
Qed.

Lemma iter_next_back_sat it : inv it ->
  satq ok (iter_next_back b ns a h it)
       (fun r => fst r = last_opt (absw it) /\ absw (snd r) = removelast (absw it) /\ inv (snd r)).
Proof.
  intros Hinv. pose proof Hinv as [H1 H2]. unfold iter_next_back.
  eapply satq_bind.
  { apply on_window_satq; [exact Hinv|].
    pose proof (backend_rfind_sat ns (a + it_start it) (slice h (it_start it) (it_end it - it_start it))
                  Hns (slice_bytes_ok _ _) Hneedles b) as Hs.
    rewrite (window_len it Hinv) in Hs. exact Hs. }
  intros r ->.
  pose proof (mpos_last p h (it_start it) (it_end it - it_start it) ltac:(fold len; lia)) as Hf.
  destruct (last_idx p (slice h (it_start it) (it_end it - it_start it))) as [i|] eqn:Hi.
  - pose proof (last_idx_lt _ _ _ Hi) as Hlt. rewrite (window_len it Hinv) in Hlt.
    apply satq_ret. cbn [fst snd]. split; [exact Hf|]. split.
    + unfold absw. cbn [it_start it_end].
      replace (it_start it + i - it_start it) with i by lia.
      apply mpos_pop_back; [fold len; lia|exact Hi].
    + unfold inv. cbn [it_start it_end]. fold len. lia.
  - apply satq_ret. cbn [fst snd]. cbn in Hf. split; [exact Hf|]. split; [|exact Hinv].
    fold (absw it) in Hf. destruct (absw it) eqn:E; [reflexivity|].
    unfold last_opt in Hf. discriminate.
Qed.

Lemma iter_size_hint_ok it : inv it ->
  fst (iter_size_hint it) <= length (absw it) <= snd (iter_size_hint it).
Proof. intros _. unfold iter_size_hint, absw. cbn. split; [lia|apply mpos_length]. Qed.

Lemma iter_count_sat it : inv it -> length ns = 1 ->
  satq ok (iter_count b ns a h it) (fun n => n = length (absw it)).
Proof.
  intros Hinv Hl. pose proof Hinv as [H1 H2]. unfold iter_count.
  apply on_window_satq; [exact Hinv|].
  pose proof (backend_count_sat ns (a + it_start it) (slice h (it_start it) (it_end it - it_start it))
                Hns b Hl) as Hs.
  rewrite (window_len it Hinv) in Hs.
  eapply satq_weaken; [exact Hs|]. intros n ->. apply mpos_count. fold len. lia.
Qed.

(* what a history must output, given the queue *)
Fixpoint run_ok (ops : list iop) (d : list nat) (outs : list iout) : Prop :=
  match ops, outs with
  | [], [] => True
  | ONext :: r, RItem o :: t => o = hd_error d /\ run_ok r (tl d) t
  | OBack :: r, RItem o :: t => o = last_opt d /\ run_ok r (removelast d) t
  | OHint :: r, RHint lo hi :: t => lo <= length d <= hi /\ run_ok r d t
  | OCount :: r, RCount n :: t => n = length d /\ run_ok r d t
  | _, _ => False
  end.

Definition count_allowed (ops : list iop) : Prop := In OCount ops -> length ns = 1.

Theorem iter_run_sat ops : forall it,
  inv it -> count_allowed ops ->
  satq ok (iter_run b ns a h ops it) (fun outs => run_ok ops (absw it) outs).
Proof.
  induction ops as [|op rest IH]; intros it Hinv Hc; cbn [iter_run].
  - apply satq_ret. exact I.
  - assert (count_allowed rest) as Hc' by (intros Hin; apply Hc; right; exact Hin).
    destruct op.
    + eapply satq_bind. { apply iter_next_sat. exact Hinv. }
      intros [o it'] (Ho & Habs & Hinv'). cbn [fst snd] in *.
      eapply satq_bind. { apply IH; assumption. }
      intros outs Houts. apply satq_ret. cbn. rewrite Habs in Houts. split; assumption.
    + eapply satq_bind. { apply iter_next_back_sat. exact Hinv. }
      intros [o it'] (Ho & Habs & Hinv'). cbn [fst snd] in *.
      eapply satq_bind. { apply IH; assumption. }
      intros outs Houts. apply satq_ret. cbn. rewrite Habs in Houts. split; assumption.
    + eapply satq_bind. { apply IH; assumption. }
      intros outs Houts. apply satq_ret. cbn. split; [apply iter_size_hint_ok; exact Hinv|exact Houts].
    + eapply satq_bind. { apply iter_count_sat; [exact Hinv|]. apply Hc. left. reflexivity. }
      intros n ->.
      eapply satq_bind. { apply IH; assumption. }
      intros outs Houts. apply satq_ret. cbn. split; [reflexivity|exact Houts].
Qed.

Lemma inv_new : inv (iter_new h).
Proof. unfold inv, iter_new. cbn. fold len. lia. Qed.

Lemma absw_new : absw (iter_new h) = mpos p h 0 len.
Proof. unfold absw, iter_new. cbn. rewrite Nat.sub_0_r. reflexivity. Qed.

End Proofs.
