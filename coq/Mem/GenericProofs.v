(* Proofs about Mem/Generic.v: find = first_idx, rfind = last_idx, count = count_p,
   all loads in bounds and aligned when marked so; for every vector width B,
   unroll U, mask representation satisfying MaskLaws, start address a. *)
From Memchr Require Import Spec Mem.Generic Mem.BytewiseProofs.

(* ---------- list facts ---------- *)
Lemma first_idx_map {A B} (f : A -> B) (q : B -> bool) l :
  first_idx q (map f l) = first_idx (fun x => q (f x)) l.
Proof. induction l as [|x l IH]; cbn; [reflexivity|]. rewrite IH. reflexivity. Qed.

Lemma last_idx_map {A B} (f : A -> B) (q : B -> bool) l :
  last_idx q (map f l) = last_idx (fun x => q (f x)) l.
Proof. induction l as [|x l IH]; cbn; [reflexivity|]. rewrite IH. reflexivity. Qed.

Lemma count_p_map {A B} (f : A -> B) (q : B -> bool) l :
  count_p q (map f l) = count_p (fun x => q (f x)) l.
Proof. induction l as [|x l IH]; cbn; [reflexivity|]. rewrite IH. reflexivity. Qed.

Lemma existsb_map' {A B} (f : A -> B) (q : B -> bool) l :
  existsb q (map f l) = existsb (fun x => q (f x)) l.
Proof. induction l as [|x l IH]; cbn; [reflexivity|]. rewrite IH. reflexivity. Qed.

Lemma map2_length {A B C} (f : A -> B -> C) l1 l2 :
  length l1 = length l2 -> length (map2 f l1 l2) = length l1.
Proof.
  revert l2; induction l1 as [|x l1 IH]; intros [|y l2] H; cbn in *; try discriminate; [reflexivity|].
  rewrite IH by lia. reflexivity.
Qed.

Lemma map2_map_orb {A} (f g : A -> bool) l :
  map2 orb (map f l) (map g l) = map (fun x => f x || g x) l.
Proof. induction l as [|x l IH]; cbn; [reflexivity|]. rewrite IH. reflexivity. Qed.

Lemma existsb_map2_orb l1 l2 :
  length l1 = length l2 ->
  existsb idb (map2 orb l1 l2) = existsb idb l1 || existsb idb l2.
Proof.
  revert l2; induction l1 as [|x l1 IH]; intros [|y l2] H; cbn in *; try discriminate; [reflexivity|].
  rewrite IH by lia. unfold idb. destruct x, y; cbn; try reflexivity;
    destruct (existsb (fun b => b) l1); reflexivity.
Qed.

Lemma existsb_false_first_idx {A} (q : A -> bool) l :
  existsb q l = false <-> first_idx q l = None.
Proof.
  rewrite first_idx_none. induction l as [|x l IH]; cbn.
  - split; auto.
  - rewrite orb_false_iff, IH. split.
    + intros [H1 H2]. constructor; assumption.
    + intros H. inversion H; subst. split; assumption.
Qed.

Lemma existsb_true_first_idx {A} (q : A -> bool) l :
  existsb q l = true -> exists i, first_idx q l = Some i.
Proof.
  intros H. destruct (first_idx q l) eqn:E; [eauto|].
  apply existsb_false_first_idx in E. congruence.
Qed.

Lemma first_last_none {A} (q : A -> bool) l : first_idx q l = None <-> last_idx q l = None.
Proof. rewrite first_idx_none, last_idx_none. tauto. Qed.

Section Proofs.
Variable R : MaskRep.
Variables B U : nat.
Variable alf : bool.
Variable ps : list (N -> bool).
Variables (a : nat) (h : list N).
Hypothesis HL : MaskLaws R B.
Hypothesis HB : 0 < B.
Hypothesis HU : 0 < U.
Hypothesis Hps : ps <> [].

Let len := length h.
Definition pany (x : N) : bool := existsb (fun q => q x) ps.
Notation p := pany.

(* an event is acceptable: a haystack load inside the slice, aligned when marked *)
Definition okev : event -> Prop := load_ok a len 0 0.

(* ---------- masks of a chunk ---------- *)
Lemma or_lanes_gen (c : list N) qs (f : N -> bool) :
  fold_left (fun acc q' => map2 orb acc (eq_lanes q' c)) qs (map f c) =
  map (fun x => f x || existsb (fun q => q x) qs) c.
Proof.
  revert f; induction qs as [|q qs IH]; intros f; cbn [fold_left existsb].
  - apply map_ext. intros x. rewrite orb_false_r. reflexivity.
  - change (eq_lanes q c) with (map q c). rewrite map2_map_orb. rewrite IH.
    apply map_ext. intros x. rewrite orb_assoc. reflexivity.
Qed.

Lemma or_lanes_spec c : or_lanes ps c = map p c.
Proof.
  unfold or_lanes, pany. destruct ps as [|q qs]; [contradiction|].
  change (eq_lanes q c) with (map q c). rewrite or_lanes_gen. reflexivity.
Qed.

Lemma or_masks_gen (c : list N) qs (l0 : list bool) :
  length c = B -> length l0 = B ->
  fold_left (fun acc q' => m_or R acc (mm R (eq_lanes q' c))) qs (mm R l0) =
  mm R (fold_left (fun acc q' => map2 orb acc (eq_lanes q' c)) qs l0).
Proof.
  intros Hc. revert l0; induction qs as [|q qs IH]; intros l0 Hl; cbn [fold_left]; [reflexivity|].
  rewrite (law_or R B HL) by (unfold eq_lanes; rewrite ?map_length; lia).
  apply IH. rewrite map2_length; unfold eq_lanes; rewrite ?map_length; lia.
Qed.

Lemma or_masks_spec c : length c = B -> or_masks R ps c = mm R (map p c).
Proof.
  intros Hc. rewrite <- or_lanes_spec. unfold or_masks, or_lanes.
  destruct ps as [|q qs]; [contradiction|].
  apply or_masks_gen; [exact Hc|]. unfold eq_lanes. rewrite map_length. exact Hc.
Qed.

Lemma chunk_nz c : length c = B -> m_has_nz R (mm R (or_lanes ps c)) = existsb p c.
Proof.
  intros Hc. rewrite or_lanes_spec, (law_nz R B HL) by (rewrite map_length; exact Hc).
  rewrite existsb_map'. reflexivity.
Qed.

Lemma mask_nz c : length c = B -> m_has_nz R (or_masks R ps c) = existsb p c.
Proof.
  intros Hc. rewrite or_masks_spec by exact Hc. rewrite (law_nz R B HL) by (rewrite map_length; exact Hc).
  rewrite existsb_map'. reflexivity.
Qed.

Lemma mask_first c i : length c = B -> first_idx p c = Some i -> m_first R (or_masks R ps c) = i.
Proof.
  intros Hc Hi. rewrite or_masks_spec by exact Hc. apply (law_first R B HL); [rewrite map_length; exact Hc|].
  rewrite first_idx_map. exact Hi.
Qed.

Lemma mask_last c i : length c = B -> last_idx p c = Some i -> m_last R (or_masks R ps c) = Ok i.
Proof.
  intros Hc Hi. rewrite or_masks_spec by exact Hc. apply (law_last R B HL); [rewrite map_length; exact Hc|].
  rewrite last_idx_map. exact Hi.
Qed.

(* ---------- "no match before c" and its consequences ---------- *)
Definition nm (c : nat) : Prop := first_idx p (firstn c h) = None.
(* "no match at or after c" *)
Definition nma (c : nat) : Prop := first_idx p (skipn c h) = None.

Lemma nm_0 : nm 0.
Proof. reflexivity. Qed.

Lemma nm_mono c c' : c <= c' -> nm c' -> nm c.
Proof.
  unfold nm. intros Hle H. rewrite first_idx_none in *.
  replace (firstn c h) with (firstn c (firstn c' h)) by (rewrite firstn_firstn; f_equal; lia).
  rewrite <- (firstn_skipn c (firstn c' h)) in H. apply Forall_app in H. tauto.
Qed.

Lemma nm_extend c w : nm c -> first_idx p (slice h c w) = None -> nm (c + w).
Proof.
  unfold nm. intros H1 H2. rewrite firstn_chunk, first_idx_app, H1, H2. reflexivity.
Qed.

Lemma nm_hit c w i : c <= len -> nm c -> first_idx p (slice h c w) = Some i -> first_idx p h = Some (c + i).
Proof.
  unfold nm. intros Hc H1 H2.
  rewrite (split_at h c), first_idx_app, H1, (skipn_chunk h c w), first_idx_app, H2.
  cbn. rewrite firstn_length. f_equal. fold len. lia.
Qed.

Lemma nm_all c : len <= c -> nm c -> first_idx p h = None.
Proof. unfold nm. intros Hc H. rewrite firstn_all2 in H by exact Hc. exact H. Qed.

Lemma nma_len c : len <= c -> nma c.
Proof. intros H. unfold nma. rewrite skipn_all2 by exact H. reflexivity. Qed.

Lemma nma_mono c c' : c <= c' -> nma c -> nma c'.
Proof.
  unfold nma. intros Hle H. rewrite first_idx_none in *.
  replace (skipn c' h) with (skipn (c' - c) (skipn c h)) by (rewrite skipn_skipn'; f_equal; lia).
  rewrite <- (firstn_skipn (c' - c) (skipn c h)) in H. apply Forall_app in H. tauto.
Qed.

Lemma nma_extend c w : c + w <= len -> nma (c + w) -> last_idx p (slice h c w) = None -> nma c.
Proof.
  unfold nma. intros Hle H1 H2. rewrite (skipn_chunk h c w), first_idx_app, H1.
  apply first_last_none in H2. rewrite H2. reflexivity.
Qed.

Lemma nma_hit c w i : c + w <= len -> nma (c + w) -> last_idx p (slice h c w) = Some i ->
  last_idx p h = Some (c + i).
Proof.
  unfold nma. intros Hc H1 H2.
  rewrite (split_at h c), last_idx_app, (skipn_chunk h c w), last_idx_app.
  apply first_last_none in H1. rewrite H1, H2. rewrite firstn_length. f_equal. fold len. lia.
Qed.

Lemma nma_all : nma 0 -> last_idx p h = None.
Proof. unfold nma. cbn. apply first_last_none. Qed.

(* ---------- events ---------- *)
Lemma okev_unaligned off w : off + w <= len -> okev (Load RHay off w false).
Proof. intros H. cbn. split; [exact H|discriminate]. Qed.

Lemma okev_aligned off : off + B <= len -> (a + off) mod B = 0 -> okev (Load RHay off B alf).
Proof. intros H1 H2. cbn. split; [exact H1|]. intros _ _. exact H2. Qed.

Lemma mod_add_mul x k : (a + x) mod B = 0 -> (a + (x + k * B)) mod B = 0.
Proof.
  intros H. replace (a + (x + k * B)) with ((a + x) + k * B) by lia.
  rewrite Nat.mod_add by lia. exact H.
Qed.

Lemma align_up_ok : (a + (B - a mod B)) mod B = 0.
Proof.
  pose proof (Nat.mod_upper_bound a B ltac:(lia)) as Hm.
  pose proof (Nat.div_mod a B ltac:(lia)) as Hd.
  replace (a + (B - a mod B)) with ((1 + a / B) * B) by nia.
  apply Nat.mod_mul. lia.
Qed.

Lemma align_down_ok x : (x - x mod B) mod B = 0.
Proof.
  pose proof (Nat.div_mod x B ltac:(lia)) as Hd.
  replace (x - x mod B) with ((x / B) * B) by nia.
  apply Nat.mod_mul. lia.
Qed.

(* ---------- search_chunk ---------- *)
Lemma search_chunk_fwd_sat cur :
  cur + B <= len ->
  satq okev (search_chunk_fwd R B ps h cur)
       (fun r => r = option_map (Nat.add cur) (first_idx p (slice h cur B))).
Proof.
  intros Hc. unfold search_chunk_fwd.
  eapply satq_bind. { apply satq_load_eq; [exact Hc|apply okev_unaligned; exact Hc]. }
  intros c ->.
  assert (length (slice h cur B) = B) as Hl by (apply slice_length; exact Hc).
  rewrite chunk_nz by exact Hl.
  destruct (existsb p (slice h cur B)) eqn:E.
  - destruct (existsb_true_first_idx _ _ E) as [i Hi].
    apply satq_ret. rewrite Hi. cbn. rewrite (mask_first _ i Hl Hi). reflexivity.
  - apply existsb_false_first_idx in E. apply satq_ret. rewrite E. reflexivity.
Qed.

Lemma search_chunk_rev_sat cur :
  cur + B <= len ->
  satq okev (search_chunk_rev R B ps h cur)
       (fun r => r = option_map (Nat.add cur) (last_idx p (slice h cur B))).
Proof.
  intros Hc. unfold search_chunk_rev.
  eapply satq_bind. { apply satq_load_eq; [exact Hc|apply okev_unaligned; exact Hc]. }
  intros c ->.
  assert (length (slice h cur B) = B) as Hl by (apply slice_length; exact Hc).
  rewrite chunk_nz by exact Hl.
  destruct (existsb p (slice h cur B)) eqn:E.
  - destruct (last_idx p (slice h cur B)) as [i|] eqn:Hi.
    + eapply satq_bind. { apply satq_lift_eq. apply (mask_last _ i Hl Hi). }
      intros o ->. apply satq_ret. reflexivity.
    + apply first_last_none in Hi. apply existsb_false_first_idx in Hi. congruence.
  - apply existsb_false_first_idx in E. apply first_last_none in E. apply satq_ret. rewrite E. reflexivity.
Qed.


(* ---------- the unrolled body ---------- *)
Fixpoint chunks_at (cur : nat) (chs : list (list N)) : Prop :=
  match chs with
  | [] => True
  | c :: r => c = slice h cur B /\ cur + B <= len /\ chunks_at (cur + B) r
  end.

Lemma load_chunks_sat k : forall cur,
  cur + k * B <= len -> (a + cur) mod B = 0 ->
  satq okev (load_chunks B alf h cur k) (fun chs => chunks_at cur chs /\ length chs = k).
Proof.
  induction k as [|k IH]; intros cur Hle Hal; cbn [load_chunks].
  - apply satq_ret. split; [exact I|reflexivity].
  - eapply satq_bind. { apply satq_load_eq; [lia|apply okev_aligned; [lia|exact Hal]]. }
    intros c ->.
    eapply satq_bind. { apply IH; [lia|]. replace (cur + B) with (cur + 1 * B) by lia. apply mod_add_mul. exact Hal. }
    intros cs [Hcs Hlen]. apply satq_ret. split; [|cbn; lia].
    cbn. split; [reflexivity|]. split; [lia|exact Hcs].
Qed.

Lemma chunks_at_lengths cur chs : chunks_at cur chs -> Forall (fun c => length c = B) chs.
Proof.
  revert cur; induction chs as [|c r IH]; intros cur H; [constructor|].
  destruct H as (-> & Hle & Hr). constructor; [apply slice_length; exact Hle|eapply IH; exact Hr].
Qed.

Definition anyc (chs : list (list N)) : bool := existsb (fun c => existsb p c) chs.

Lemma all_or_gen cs : forall acc,
  length acc = B -> Forall (fun c => length c = B) cs ->
  existsb idb (fold_left (fun acc c' => map2 orb acc (or_lanes ps c')) cs acc) =
    existsb idb acc || anyc cs /\
  length (fold_left (fun acc c' => map2 orb acc (or_lanes ps c')) cs acc) = B.
Proof.
  induction cs as [|c cs IH]; intros acc Hacc Hcs; cbn [fold_left anyc existsb].
  - rewrite orb_false_r. split; [reflexivity|exact Hacc].
  - apply Forall_cons_iff in Hcs as [Hc Hcs'].
    assert (length (or_lanes ps c) = B) as Hol by (rewrite or_lanes_spec, map_length; exact Hc).
    destruct (IH (map2 orb acc (or_lanes ps c))) as [E1 E2];
      [rewrite map2_length; lia|exact Hcs'|].
    split; [|exact E2]. rewrite E1. rewrite existsb_map2_orb by lia.
    rewrite or_lanes_spec, existsb_map'. fold (anyc cs). rewrite orb_assoc. reflexivity.
Qed.

Lemma all_or_spec cur chs :
  chs <> [] -> chunks_at cur chs ->
  existsb idb (all_or ps chs) = anyc chs /\ length (all_or ps chs) = B.
Proof.
  intros Hne Hc. destruct chs as [|c cs]; [contradiction|]. unfold all_or.
  pose proof (chunks_at_lengths _ _ Hc) as Hl. apply Forall_cons_iff in Hl as [Hc1 Hcs].
  destruct (all_or_gen cs (or_lanes ps c)) as [E1 E2];
    [rewrite or_lanes_spec, map_length; exact Hc1|exact Hcs|].
  split; [|exact E2]. rewrite E1. rewrite or_lanes_spec, existsb_map'. reflexivity.
Qed.

Lemma chunks_none chs : forall cur,
  chunks_at cur chs -> nm cur -> anyc chs = false -> nm (cur + length chs * B).
Proof.
  induction chs as [|c r IH]; intros cur Hc Hn Ha.
  - cbn. replace (cur + 0) with cur by lia. exact Hn.
  - destruct Hc as (-> & Hle & Hr). cbn [anyc existsb] in Ha. apply orb_false_iff in Ha as [Ha1 Ha2].
    cbn [length]. replace (cur + S (length r) * B) with ((cur + B) + length r * B) by lia.
    apply IH; [exact Hr| |exact Ha2].
    apply nm_extend; [exact Hn|]. apply existsb_false_first_idx. exact Ha1.
Qed.

Lemma scan_fwd_sat chs : forall cur,
  chunks_at cur chs -> nm cur -> cur <= len -> anyc chs = true ->
  satq okev (scan_fwd R B ps cur chs) (fun i => first_idx p h = Some i).
Proof.
  induction chs as [|c r IH]; intros cur Hc Hn Hle Ha; [discriminate|].
  destruct Hc as (-> & Hle2 & Hr).
  assert (length (slice h cur B) = B) as Hl by (apply slice_length; exact Hle2).
  cbn [anyc existsb] in Ha. cbn [scan_fwd].
  destruct r as [|c2 r2].
  - cbn in Ha. rewrite orb_false_r in Ha.
    eapply satq_bind. { apply satq_guard_eq. rewrite mask_nz by exact Hl. exact Ha. }
    intros _ _. destruct (existsb_true_first_idx _ _ Ha) as [i Hi].
    apply satq_ret. rewrite (mask_first _ i Hl Hi). eapply nm_hit; eassumption.
  - rewrite mask_nz by exact Hl. destruct (existsb p (slice h cur B)) eqn:E.
    + destruct (existsb_true_first_idx _ _ E) as [i Hi].
      apply satq_ret. rewrite (mask_first _ i Hl Hi). eapply nm_hit; eassumption.
    + cbn [orb] in Ha. apply IH; [exact Hr| |destruct Hr as (_ & Hx & _); lia|exact Ha].
      apply nm_extend; [exact Hn|]. apply existsb_false_first_idx. exact E.
Qed.

(* ---------- find_raw ---------- *)
Definition fwd_post (c : ctl (option nat) nat) : Prop :=
  match c with
  | Ret r => r = first_idx p h
  | Go cur' => nm cur' /\ cur' <= len
  end.

Lemma fwd_unrolled_sat fuel : forall cur,
  len - cur < fuel -> U * B <= len -> cur <= len -> nm cur -> (a + cur) mod B = 0 ->
  satq okev (fwd_unrolled R B U alf ps a h fuel cur) fwd_post.
Proof.
  induction fuel as [|f IH]; intros cur Hf HUB Hle Hn Hal; [lia|].
  cbn [fwd_unrolled]. fold len.
  eapply satq_bind. { apply satq_lift_eq. apply psub_ok. exact HUB. }
  intros lim ->.
  destruct (cur <=? len - U * B) eqn:E.
  - apply Nat.leb_le in E.
    eapply satq_bind. { apply satq_guard_eq. apply Nat.eqb_eq. exact Hal. }
    intros _ _.
    eapply satq_bind. { apply load_chunks_sat; [lia|exact Hal]. }
    intros chs [Hc Hlen].
    assert (chs <> []) as Hne by (destruct chs; [cbn in Hlen; lia|discriminate]).
    destruct (all_or_spec cur chs Hne Hc) as [Eany Elen].
    rewrite (law_will R B HL) by exact Elen. rewrite Eany.
    destruct (anyc chs) eqn:Ea.
    + eapply satq_bind. { apply scan_fwd_sat; [exact Hc|exact Hn|exact Hle|exact Ea]. }
      intros i Hi. apply satq_ret. cbn. symmetry. exact Hi.
    + assert (0 < U * B) by nia.
      apply IH; [lia|exact HUB|lia| |apply mod_add_mul; exact Hal].
      rewrite <- Hlen. apply chunks_none; assumption.
  - apply satq_ret. cbn. split; assumption.
Qed.

Definition fwd_post2 (c : ctl (option nat) nat) : Prop :=
  match c with
  | Ret r => r = first_idx p h
  | Go cur' => nm cur' /\ cur' <= len /\ len - B < cur'
  end.

Lemma fwd_single_sat fuel : forall cur,
  len - cur < fuel -> B <= len -> cur <= len -> nm cur ->
  satq okev (fwd_single R B ps h fuel cur) fwd_post2.
Proof.
  induction fuel as [|f IH]; intros cur Hf HBl Hle Hn; [lia|].
  cbn [fwd_single]. fold len.
  eapply satq_bind. { apply satq_lift_eq. apply psub_ok. exact HBl. }
  intros lim ->.
  destruct (cur <=? len - B) eqn:E.
  - apply Nat.leb_le in E.
    eapply satq_bind. { apply search_chunk_fwd_sat. lia. }
    intros r ->.
    destruct (first_idx p (slice h cur B)) as [i|] eqn:Hi; cbn [option_map].
    + apply satq_ret. cbn. symmetry. eapply nm_hit; eassumption.
    + apply IH; [lia|exact HBl|lia|]. apply nm_extend; assumption.
  - apply Nat.leb_gt in E. apply satq_ret. cbn. repeat split; try assumption.
Qed.

Theorem gen_find_sat :
  B <= len -> satq okev (gen_find R B U alf ps a h) (fun r => r = first_idx p h).
Proof.
  intros HBl. unfold gen_find. fold len.
  eapply satq_bind. { apply satq_guard_eq. apply Nat.leb_le. exact HBl. }
  intros _ _.
  eapply satq_bind. { apply search_chunk_fwd_sat. lia. }
  intros r ->.
  destruct (first_idx p (slice h 0 B)) as [i|] eqn:Hi; cbn [option_map].
  { apply satq_ret. symmetry. apply (nm_hit 0 B i); [lia|exact nm_0|exact Hi]. }
  pose proof (Nat.mod_upper_bound a B ltac:(lia)) as Hm.
  assert (nm (B - a mod B)) as Hn0.
  { apply (nm_mono _ (0 + B)); [lia|]. apply nm_extend; [exact nm_0|exact Hi]. }
  eapply satq_bind.
  { apply satq_guard_eq. apply andb_true_iff. split; [apply Nat.ltb_lt; lia|apply Nat.leb_le; exact HBl]. }
  intros _ _.
  eapply satq_bind.
  { instantiate (1 := fwd_post).
    destruct (U * B <=? len) eqn:E.
    - apply Nat.leb_le in E. apply fwd_unrolled_sat; [lia|exact E|lia|exact Hn0|apply align_up_ok].
    - apply satq_ret. cbn. split; [exact Hn0|lia]. }
  intros c1 Hc1. destruct c1 as [r|cur1]; cbn in Hc1.
  { apply satq_ret. exact Hc1. }
  destruct Hc1 as [Hn1 Hle1].
  eapply satq_bind. { apply fwd_single_sat; [lia|exact HBl|exact Hle1|exact Hn1]. }
  intros c2 Hc2. destruct c2 as [r|cur2]; cbn in Hc2.
  { apply satq_ret. exact Hc2. }
  destruct Hc2 as (Hn2 & Hle2 & Hgt2).
  destruct (cur2 <? len) eqn:E.
  - apply Nat.ltb_lt in E.
    eapply satq_bind. { apply satq_guard_eq. apply Nat.ltb_lt. lia. }
    intros _ _.
    eapply satq_bind. { apply satq_lift_eq. apply psub_ok. lia. }
    intros cur3 ->.
    replace (cur2 - (B - (len - cur2))) with (len - B) by lia.
    eapply satq_bind. { apply satq_guard_eq. apply Nat.eqb_eq. lia. }
    intros _ _.
    eapply satq_weaken. { apply search_chunk_fwd_sat. lia. }
    intros r ->.
    assert (nm (len - B)) as Hn3 by (apply (nm_mono _ cur2); [lia|exact Hn2]).
    destruct (first_idx p (slice h (len - B) B)) as [i|] eqn:Hi3; cbn [option_map].
    + symmetry. eapply nm_hit; [lia|exact Hn3|exact Hi3].
    + symmetry. apply (nm_all (len - B + B)); [lia|]. apply nm_extend; assumption.
  - apply Nat.ltb_ge in E. apply satq_ret. symmetry. apply (nm_all cur2); [lia|exact Hn2].
Qed.


(* ---------- rfind_raw ---------- *)
Fixpoint rchunks_at (e : nat) (l : list (nat * list N)) : Prop :=
  match l with
  | [] => True
  | (off, c) :: r => off + B = e /\ e <= len /\ c = slice h off B /\ rchunks_at off r
  end.

Lemma rchunks_at_app l1 : forall e l2,
  rchunks_at e l1 -> rchunks_at (e - length l1 * B) l2 -> rchunks_at e (l1 ++ l2).
Proof.
  induction l1 as [|[off c] r IH]; intros e l2 H1 H2; cbn [app length] in *.
  - replace (e - 0 * B) with e in H2 by lia. exact H2.
  - destruct H1 as (A1 & A2 & A3 & A4). cbn. repeat split; try assumption.
    apply IH; [exact A4|]. replace (off - length r * B) with (e - S (length r) * B) by lia. exact H2.
Qed.

Lemma combine_offsets_length (chs : list (list N)) : forall cur, length (combine (offsets_from B cur (length chs)) chs) = length chs.
Proof. induction chs as [|c r IH]; intros cur; cbn; [reflexivity|]. rewrite IH. reflexivity. Qed.

Lemma rchunks_of_chunks chs : forall cur,
  chunks_at cur chs ->
  rchunks_at (cur + length chs * B) (rev (combine (offsets_from B cur (length chs)) chs)).
Proof.
  induction chs as [|c r IH]; intros cur Hc; cbn [length offsets_from combine rev]; [exact I|].
  destruct Hc as (-> & Hle & Hr).
  apply rchunks_at_app.
  - replace (cur + S (length r) * B) with ((cur + B) + length r * B) by lia. apply IH. exact Hr.
  - rewrite rev_length, combine_offsets_length.
    replace (cur + S (length r) * B - length r * B) with (cur + B) by lia.
    cbn. repeat split; try lia.
Qed.

Lemma existsb_rev {A} (f : A -> bool) l : existsb f (rev l) = existsb f l.
Proof.
  induction l as [|x l IH]; cbn; [reflexivity|]. rewrite existsb_app, IH. cbn.
  rewrite orb_false_r. apply orb_comm.
Qed.

Lemma map_snd_combine_offsets (chs : list (list N)) : forall cur, map snd (combine (offsets_from B cur (length chs)) chs) = chs.
Proof. induction chs as [|c r IH]; intros cur; cbn; [reflexivity|]. rewrite IH. reflexivity. Qed.

Lemma chunks_none_rev chs : forall cur,
  chunks_at cur chs -> anyc chs = false -> nma (cur + length chs * B) -> nma cur.
Proof.
  induction chs as [|c r IH]; intros cur Hc Ha Hn.
  - cbn in Hn. replace (cur + 0) with cur in Hn by lia. exact Hn.
  - destruct Hc as (-> & Hle & Hr). cbn [anyc existsb] in Ha. apply orb_false_iff in Ha as [Ha1 Ha2].
    cbn [length] in Hn. replace (cur + S (length r) * B) with ((cur + B) + length r * B) in Hn by lia.
    apply (nma_extend cur B); [exact Hle|apply IH; assumption|].
    apply first_last_none. apply existsb_false_first_idx. exact Ha1.
Qed.

Lemma scan_rev_sat l : forall e,
  rchunks_at e l -> nma e -> anyc (map snd l) = true ->
  satq okev (scan_rev R ps l) (fun i => last_idx p h = Some i).
Proof.
  induction l as [|[off c] r IH]; intros e Hc Hn Ha; [discriminate|].
  destruct Hc as (He & Hle & -> & Hr).
  assert (off + B <= len) as Hob by lia.
  assert (length (slice h off B) = B) as Hl by (apply slice_length; exact Hob).
  cbn [map snd anyc existsb] in Ha. cbn [scan_rev].
  assert (forall i, last_idx p (slice h off B) = Some i ->
          satq okev (o <- lift (m_last R (or_masks R ps (slice h off B)));; ret (off + o))
               (fun i => last_idx p h = Some i)) as Hhit.
  { intros i Hi. eapply satq_bind. { apply satq_lift_eq. apply (mask_last _ i Hl Hi). }
    intros o ->. apply satq_ret. eapply nma_hit; [exact Hob| |exact Hi]. rewrite He. exact Hn. }
  destruct r as [|c2 r2].
  - cbn in Ha. rewrite orb_false_r in Ha.
    eapply satq_bind. { apply satq_guard_eq. rewrite mask_nz by exact Hl. exact Ha. }
    intros _ _.
    destruct (last_idx p (slice h off B)) as [i|] eqn:Hi.
    + apply (Hhit i eq_refl).
    + apply first_last_none in Hi. apply existsb_false_first_idx in Hi. congruence.
  - rewrite mask_nz by exact Hl. destruct (existsb p (slice h off B)) eqn:E.
    + destruct (last_idx p (slice h off B)) as [i|] eqn:Hi.
      * apply (Hhit i eq_refl).
      * apply first_last_none in Hi. apply existsb_false_first_idx in Hi. congruence.
    + cbn [orb] in Ha. apply (IH off); [exact Hr| |exact Ha].
      apply (nma_extend off B); [exact Hob|rewrite He; exact Hn|].
      apply first_last_none. apply existsb_false_first_idx. exact E.
Qed.

Definition rev_post (c : ctl (option nat) nat) : Prop :=
  match c with
  | Ret r => r = last_idx p h
  | Go cur' => nma cur' /\ cur' <= len
  end.

Lemma rev_unrolled_sat fuel : forall cur,
  cur < fuel -> cur <= len -> nma cur -> (a + cur) mod B = 0 ->
  satq okev (rev_unrolled R B U alf ps a h fuel cur) rev_post.
Proof.
  induction fuel as [|f IH]; intros cur Hf Hle Hn Hal; [lia|].
  cbn [rev_unrolled].
  destruct (U * B <=? cur) eqn:E.
  - apply Nat.leb_le in E.
    eapply satq_bind. { apply satq_guard_eq. apply Nat.eqb_eq. exact Hal. }
    intros _ _.
    eapply satq_bind. { apply satq_lift_eq. apply psub_ok. exact E. }
    intros cur' ->.
    assert ((a + (cur - U * B)) mod B = 0) as Hal'.
    { pose proof (mod_add_mul (cur - U * B) U) as Hx.
      replace (cur - U * B + U * B) with cur in Hx by lia.
      destruct ((a + (cur - U * B)) mod B) eqn:Em; [reflexivity|].
      exfalso. pose proof (Nat.mod_upper_bound (a + (cur - U * B)) B ltac:(lia)) as Hub.
      replace (a + cur) with ((a + (cur - U * B)) + U * B) in Hal by lia.
      rewrite Nat.mod_add in Hal by lia. lia. }
    eapply satq_bind. { apply load_chunks_sat; [lia|exact Hal']. }
    intros chs [Hc Hlen].
    assert (chs <> []) as Hne by (destruct chs; [cbn in Hlen; lia|discriminate]).
    destruct (all_or_spec (cur - U * B) chs Hne Hc) as [Eany Elen].
    rewrite (law_will R B HL) by exact Elen. rewrite Eany.
    destruct (anyc chs) eqn:Ea.
    + eapply satq_bind.
      { apply (scan_rev_sat _ cur).
        - rewrite <- Hlen. replace cur with ((cur - length chs * B) + length chs * B) at 1 by (rewrite Hlen; lia).
          rewrite Hlen. replace (cur - U * B + U * B) with cur by lia.
          pose proof (rchunks_of_chunks chs (cur - U * B) Hc) as Hx. rewrite Hlen in Hx.
          replace (cur - U * B + U * B) with cur in Hx by lia. exact Hx.
        - exact Hn.
        - rewrite map_rev, <- Hlen, map_snd_combine_offsets. unfold anyc. rewrite existsb_rev. exact Ea. }
      intros i Hi. apply satq_ret. cbn. symmetry. exact Hi.
    + assert (0 < U * B) by nia.
      apply IH; [lia|lia| |exact Hal'].
      apply (chunks_none_rev chs); [exact Hc|exact Ea|].
      rewrite Hlen. replace (cur - U * B + U * B) with cur by lia. exact Hn.
  - apply satq_ret. cbn. split; assumption.
Qed.

Definition rev_post2 (c : ctl (option nat) nat) : Prop :=
  match c with
  | Ret r => r = last_idx p h
  | Go cur' => nma cur' /\ cur' < B
  end.

Lemma rev_single_sat fuel : forall cur,
  cur < fuel -> cur <= len -> nma cur ->
  satq okev (rev_single R B ps h fuel cur) rev_post2.
Proof.
  induction fuel as [|f IH]; intros cur Hf Hle Hn; [lia|].
  cbn [rev_single].
  destruct (B <=? cur) eqn:E.
  - apply Nat.leb_le in E.
    eapply satq_bind. { apply satq_lift_eq. apply psub_ok. exact E. }
    intros cur' ->.
    eapply satq_bind. { apply search_chunk_rev_sat. lia. }
    intros r ->.
    assert (nma (cur - B + B)) as Hn' by (replace (cur - B + B) with cur by lia; exact Hn).
    destruct (last_idx p (slice h (cur - B) B)) as [i|] eqn:Hi; cbn [option_map].
    + apply satq_ret. cbn. symmetry. eapply nma_hit; [|exact Hn'|exact Hi]. lia.
    + apply IH; [lia|lia|]. apply (nma_extend _ B); [lia|exact Hn'|exact Hi].
  - apply Nat.leb_gt in E. apply satq_ret. cbn. split; assumption.
Qed.

Theorem gen_rfind_sat :
  B <= len -> satq okev (gen_rfind R B U alf ps a h) (fun r => r = last_idx p h).
Proof.
  intros HBl. unfold gen_rfind. fold len.
  eapply satq_bind. { apply satq_guard_eq. apply Nat.leb_le. exact HBl. }
  intros _ _.
  eapply satq_bind. { apply satq_lift_eq. apply psub_ok. exact HBl. }
  intros s0 ->.
  eapply satq_bind. { apply search_chunk_rev_sat. lia. }
  intros r ->.
  assert (nma (len - B + B)) as Hnl by (apply nma_len; lia).
  destruct (last_idx p (slice h (len - B) B)) as [i|] eqn:Hi; cbn [option_map].
  { apply satq_ret. symmetry. eapply nma_hit; [|exact Hnl|exact Hi]. lia. }
  assert (nma (len - B)) as Hn0 by (apply (nma_extend _ B); [lia|exact Hnl|exact Hi]).
  pose proof (Nat.mod_upper_bound (a + len) B ltac:(lia)) as Hm.
  eapply satq_bind. { apply satq_lift_eq. apply psub_ok. lia. }
  intros cur0 ->.
  eapply satq_bind. { apply satq_guard_eq. apply Nat.leb_le. lia. }
  intros _ _.
  assert ((a + (len - (a + len) mod B)) mod B = 0) as Hal0.
  { replace (a + (len - (a + len) mod B)) with ((a + len) - (a + len) mod B) by lia. apply align_down_ok. }
  assert (nma (len - (a + len) mod B)) as Hnc by (apply (nma_mono (len - B)); [lia|exact Hn0]).
  eapply satq_bind.
  { instantiate (1 := rev_post).
    destruct (U * B <=? len) eqn:E.
    - apply rev_unrolled_sat; [lia|lia|exact Hnc|exact Hal0].
    - apply satq_ret. cbn. split; [exact Hnc|lia]. }
  intros c1 Hc1. destruct c1 as [r|cur1]; cbn in Hc1.
  { apply satq_ret. exact Hc1. }
  destruct Hc1 as [Hn1 Hle1].
  eapply satq_bind. { apply rev_single_sat; [lia|exact Hle1|exact Hn1]. }
  intros c2 Hc2. destruct c2 as [r|cur2]; cbn in Hc2.
  { apply satq_ret. exact Hc2. }
  destruct Hc2 as (Hn2 & Hlt2).
  destruct (0 <? cur2) eqn:E.
  - eapply satq_bind. { apply satq_guard_eq. apply Nat.ltb_lt. exact Hlt2. }
    intros _ _.
    eapply satq_weaken. { apply search_chunk_rev_sat. lia. }
    intros r ->.
    assert (nma (0 + B)) as Hn3 by (apply (nma_mono cur2); [lia|exact Hn2]).
    destruct (last_idx p (slice h 0 B)) as [i|] eqn:Hi3; cbn [option_map].
    + symmetry. eapply nma_hit; [|exact Hn3|exact Hi3]. lia.
    + symmetry. apply nma_all. apply (nma_extend 0 B); [lia|exact Hn3|exact Hi3].
  - apply Nat.ltb_ge in E. apply satq_ret. symmetry. apply nma_all.
    replace cur2 with 0 in Hn2 by lia. exact Hn2.
Qed.


(* ---------- count_raw ---------- *)
Notation q1 := (pred1 ps).

Lemma count_mask c : length c = B -> m_count R (mm R (eq_lanes q1 c)) = count_p q1 c.
Proof.
  intros Hc. unfold eq_lanes. rewrite (law_count R B HL) by (rewrite map_length; exact Hc).
  rewrite count_p_map. reflexivity.
Qed.

Lemma count_chunks chs : forall cur acc,
  chunks_at cur chs ->
  fold_left (fun s c => s + m_count R (mm R (eq_lanes q1 c))) chs acc =
  acc + count_p q1 (slice h cur (length chs * B)).
Proof.
  induction chs as [|c r IH]; intros cur acc Hc; cbn [fold_left length].
  - cbn. lia.
  - destruct Hc as (-> & Hle & Hr). rewrite (IH (cur + B)) by exact Hr.
    rewrite count_mask by (apply slice_length; exact Hle).
    replace (S (length r) * B) with (B + length r * B) by lia.
    rewrite slice_split, count_p_app. lia.
Qed.

Definition cinv (cur acc : nat) : Prop := acc = count_p q1 (firstn cur h) /\ cur <= len.

Lemma cinv_step cur acc w : cinv cur acc -> cur + w <= len -> cinv (cur + w) (acc + count_p q1 (slice h cur w)).
Proof.
  intros [-> Hle] Hw. split; [|exact Hw]. rewrite firstn_chunk, count_p_app. reflexivity.
Qed.

Lemma count_unrolled_sat fuel : forall cur acc,
  len - cur < fuel -> U * B <= len -> cinv cur acc -> (a + cur) mod B = 0 ->
  satq okev (count_unrolled R B U alf ps a h fuel cur acc) (fun r => cinv (fst r) (snd r)).
Proof.
  induction fuel as [|f IH]; intros cur acc Hf HUB Hinv Hal; [lia|].
  cbn [count_unrolled]. fold len.
  eapply satq_bind. { apply satq_lift_eq. apply psub_ok. exact HUB. }
  intros lim ->.
  destruct (cur <=? len - U * B) eqn:E.
  - apply Nat.leb_le in E.
    eapply satq_bind. { apply satq_guard_eq. apply Nat.eqb_eq. exact Hal. }
    intros _ _.
    eapply satq_bind. { apply load_chunks_sat; [lia|exact Hal]. }
    intros chs [Hc Hlen].
    rewrite (count_chunks chs cur acc Hc), Hlen.
    assert (0 < U * B) by nia.
    apply IH; [lia|exact HUB| |apply mod_add_mul; exact Hal].
    apply cinv_step; [exact Hinv|lia].
  - apply satq_ret. exact Hinv.
Qed.

Lemma count_single_sat fuel : forall cur acc,
  len - cur < fuel -> B <= len -> cinv cur acc ->
  satq okev (count_single R B ps h fuel cur acc) (fun r => cinv (fst r) (snd r) /\ len - B < fst r).
Proof.
  induction fuel as [|f IH]; intros cur acc Hf HBl Hinv; [lia|].
  cbn [count_single]. fold len.
  eapply satq_bind. { apply satq_lift_eq. apply psub_ok. exact HBl. }
  intros lim ->.
  destruct (cur <=? len - B) eqn:E.
  - apply Nat.leb_le in E.
    eapply satq_bind. { apply satq_load_eq; [lia|apply okev_unaligned; lia]. }
    intros c ->. rewrite count_mask by (apply slice_length; lia).
    apply IH; [lia|exact HBl|]. apply cinv_step; [exact Hinv|lia].
  - apply Nat.leb_gt in E. apply satq_ret. split; [exact Hinv|cbn; lia].
Qed.

Theorem gen_count_sat :
  B <= len -> satq okev (gen_count R B U alf ps a h) (fun r => r = count_p q1 h).
Proof.
  intros HBl. unfold gen_count. fold len.
  eapply satq_bind. { apply satq_guard_eq. apply Nat.leb_le. exact HBl. }
  intros _ _.
  pose proof (Nat.mod_upper_bound a B ltac:(lia)) as Hm.
  eapply satq_bind.
  { apply count_byte_by_byte_sat; [fold len; lia|]. intros i Hi. apply okev_unaligned. lia. }
  intros c0 ->. rewrite Nat.sub_0_r.
  eapply satq_bind.
  { apply satq_guard_eq. apply andb_true_iff. split; [apply Nat.ltb_lt; lia|apply Nat.leb_le; exact HBl]. }
  intros _ _.
  assert (cinv (B - a mod B) (count_p q1 (slice h 0 (B - a mod B)))) as Hinv0.
  { split; [reflexivity|lia]. }
  eapply satq_bind.
  { instantiate (1 := fun r => cinv (fst r) (snd r)).
    destruct (U * B <=? len) eqn:E.
    - apply Nat.leb_le in E. apply count_unrolled_sat; [lia|exact E|exact Hinv0|apply align_up_ok].
    - apply satq_ret. exact Hinv0. }
  intros [cur1 acc1] Hinv1. cbn [fst snd] in *.
  eapply satq_bind. { apply count_single_sat; [destruct Hinv1; lia|exact HBl|exact Hinv1]. }
  intros [cur2 acc2] [Hinv2 Hgt2]. cbn [fst snd] in *. destruct Hinv2 as [-> Hle2].
  eapply satq_bind.
  { apply count_byte_by_byte_sat; [fold len; lia|]. intros i Hi. apply okev_unaligned. lia. }
  intros ct ->. apply satq_ret.
  rewrite (split_at h cur2) at 3. rewrite count_p_app. f_equal.
  unfold slice. rewrite firstn_all2; [reflexivity|]. rewrite skipn_length. fold len. lia.
Qed.

End Proofs.
