(* Step bounds (Base/Cost.v) for the byte-search routines: the scalar loops, the
   generic vector routines, the SWAR routines and every backend wrapper.  All
   bounds are linear in the haystack length; for a forward search that stops at
   a hit they are linear in the position of the hit. *)
From Memchr Require Import Spec Params Base.Cost Vec.MaskLaws Mem.Wrappers Mem.GenericProofs Mem.WrappersProofs Mem.SwarProofs Mem.BytewiseProofs.

(* ---------- arithmetic helpers ---------- *)
Lemma div_bound x B y k : 0 < B -> x * B <= y + k * B -> x <= y / B + k.
Proof.
  intros HB H. rewrite <- Nat.div_add by lia. apply Nat.div_le_lower_bound; lia.
Qed.

Lemma div_bound0 x B y : 0 < B -> x * B <= y -> x <= y / B.
Proof. intros HB H. apply Nat.div_le_lower_bound; lia. Qed.

(* ================= scalar loops ================= *)
Section BytewiseCost.
Variables (p : N -> bool) (h : list N).

Lemma fwd_bb_c fuel : forall s e,
  e - s < fuel -> e <= length h ->
  satc (fwd_bb p h fuel s e)
       (fun r c => c <= e - s /\ (forall i, r = Some i -> s <= i /\ c + s <= i + 1)).
Proof.
  induction fuel as [|f IH]; intros s e Hf He; [lia|]. cbn [fwd_bb].
  destruct (s <? e) eqn:E.
  - apply Nat.ltb_lt in E.
    eapply satc_bind. { apply satc_load_eq. lia. }
    intros v c1 [_ ->].
    destruct (p (hd 0%N v)).
    + apply satc_ret. split; [lia|]. intros i Hi. injection Hi as <-. lia.
    + eapply satc_weaken. { apply (IH (S s) e); [lia|exact He]. }
      cbn beta. intros r c [H1 H2]. split; [lia|]. intros i Hi. specialize (H2 i Hi). lia.
  - apply satc_ret. split; [lia|]. intros i Hi. discriminate.
Qed.

Lemma rev_bb_c fuel : forall s e,
  e - s < fuel -> e <= length h ->
  satc (rev_bb p h fuel s e) (fun _ c => c <= e - s).
Proof.
  induction fuel as [|f IH]; intros s e Hf He; [lia|]. cbn [rev_bb].
  destruct (s <? e) eqn:E.
  - apply Nat.ltb_lt in E.
    eapply satc_bind. { apply satc_load_eq. lia. }
    intros v c1 [_ ->].
    destruct (p (hd 0%N v)).
    + apply satc_ret. lia.
    + eapply satc_weaken. { apply (IH s (e - 1)); lia. }
      cbn beta. intros r c H1. lia.
  - apply satc_ret. lia.
Qed.

(* hit-aware: a hit at i is found after at most e - i byte loads *)
Lemma rev_bb_ch fuel : forall s e,
  e - s < fuel -> e <= length h ->
  satc (rev_bb p h fuel s e) (fun r c => c <= e - s /\ (forall i, r = Some i -> c + i <= e)).
Proof.
  induction fuel as [|f IH]; intros s e Hf He; [lia|]. cbn [rev_bb].
  destruct (s <? e) eqn:E.
  - apply Nat.ltb_lt in E.
    eapply satc_bind. { apply satc_load_eq. lia. }
    intros v c1 [_ ->].
    destruct (p (hd 0%N v)).
    + apply satc_ret. split; [lia|]. intros i Hi. injection Hi as <-. lia.
    + eapply satc_weaken. { apply (IH s (e - 1)); lia. }
      cbn beta. intros r c [H1 H2]. split; [lia|]. intros i Hi. specialize (H2 i Hi). lia.
  - apply satc_ret. split; [lia|]. intros i Hi. discriminate.
Qed.

Lemma count_bb_c fuel : forall s e acc,
  e - s < fuel -> e <= length h ->
  satc (count_bb p h fuel s e acc) (fun _ c => c <= e - s).
Proof.
  induction fuel as [|f IH]; intros s e acc Hf He; [lia|]. cbn [count_bb].
  destruct (s <? e) eqn:E.
  - apply Nat.ltb_lt in E.
    eapply satc_bind. { apply satc_load_eq. lia. }
    intros v c1 [_ ->].
    eapply satc_weaken. { apply (IH (S s) e); [lia|exact He]. }
    cbn beta. intros r c H1. lia.
  - apply satc_ret. lia.
Qed.

(* with the lower bound on the index: used by the SWAR bounds *)
Lemma fwd_bb_cost_ge s e :
  e <= length h ->
  satc (fwd_byte_by_byte p h s e)
       (fun r c => c <= e - s /\ (forall i, r = Some i -> s <= i /\ c + s <= i + 1)).
Proof. intros He. apply fwd_bb_c; [lia|exact He]. Qed.

End BytewiseCost.

Theorem fwd_bb_cost : forall p h s e, e <= length h ->
  satc (fwd_byte_by_byte p h s e) (fun r c => c <= e - s /\ (forall i, r = Some i -> c <= i + 1 - s)).
Proof.
  intros p h s e He. eapply satc_weaken. { apply fwd_bb_cost_ge. exact He. }
  cbn beta. intros r c [H1 H2]. split; [exact H1|]. intros i Hi. specialize (H2 i Hi). lia.
Qed.

Theorem rev_bb_cost : forall p h s e, e <= length h ->
  satc (rev_byte_by_byte p h s e) (fun _ c => c <= e - s).
Proof. intros p h s e He. apply rev_bb_c; [lia|exact He]. Qed.

Theorem rev_bb_cost_hit : forall p h s e, e <= length h ->
  satc (rev_byte_by_byte p h s e) (fun r c => c <= e - s /\ (forall i, r = Some i -> c + i <= e)).
Proof. intros p h s e He. apply rev_bb_ch; [lia|exact He]. Qed.

Theorem count_bb_cost : forall p h s e, e <= length h ->
  satc (count_byte_by_byte p h s e) (fun _ c => c <= e - s).
Proof. intros p h s e He. apply count_bb_c; [lia|exact He]. Qed.

(* ---------- alignment arithmetic (stand-alone versions) ---------- *)
Lemma mod_add_mul' a B x k : 0 < B -> (a + x) mod B = 0 -> (a + (x + k * B)) mod B = 0.
Proof.
  intros HB H. replace (a + (x + k * B)) with ((a + x) + k * B) by lia.
  rewrite Nat.mod_add by lia. exact H.
Qed.

Lemma mod_sub_mul' a B x k : 0 < B -> k * B <= x -> (a + x) mod B = 0 -> (a + (x - k * B)) mod B = 0.
Proof.
  intros HB Hle H.
  destruct ((a + (x - k * B)) mod B) eqn:Em; [reflexivity|]. exfalso.
  replace (a + x) with ((a + (x - k * B)) + k * B) in H by lia.
  rewrite Nat.mod_add in H by lia. lia.
Qed.

Lemma align_up' a B : 0 < B -> (a + (B - a mod B)) mod B = 0.
Proof.
  intros HB.
  pose proof (Nat.mod_upper_bound a B ltac:(lia)) as Hm.
  pose proof (Nat.div_mod a B ltac:(lia)) as Hd.
  replace (a + (B - a mod B)) with ((1 + a / B) * B) by nia.
  apply Nat.mod_mul. lia.
Qed.

Lemma align_down' B x : 0 < B -> (x - x mod B) mod B = 0.
Proof.
  intros HB.
  pose proof (Nat.div_mod x B ltac:(lia)) as Hd.
  replace (x - x mod B) with ((x / B) * B) by nia.
  apply Nat.mod_mul. lia.
Qed.

(* ================= the generic vector routines ================= *)
Section GenericCost.
Variable R : MaskRep.
Variables B U : nat.
Variable alf : bool.
Variable ps : list (N -> bool).
Variables (a : nat) (h : list N).
Hypothesis HB : 0 < B.
Hypothesis HU : 0 < U.

Lemma load_chunks_c k : forall cur,
  cur + k * B <= length h ->
  satc (load_chunks B alf h cur k) (fun chs c => chunks_at B h cur chs /\ length chs = k /\ c = k).
Proof.
  induction k as [|k IH]; intros cur Hle; cbn [load_chunks].
  - apply satc_ret. repeat split.
  - eapply satc_bind. { apply satc_load_eq. lia. }
    intros c c1 [-> ->].
    eapply satc_bind. { apply IH. lia. }
    intros cs c2 (Hcs & Hlen & ->). apply satc_ret.
    split; [|split; [cbn [length]; lia|lia]].
    cbn [chunks_at]. split; [reflexivity|]. split; [lia|exact Hcs].
Qed.

(* ---------- count_raw ---------- *)
Lemma count_unrolled_c fuel : forall cur acc,
  length h - cur < fuel -> U * B <= length h -> cur <= length h -> (a + cur) mod B = 0 ->
  satc (count_unrolled R B U alf ps a h fuel cur acc)
       (fun r c => fst r <= length h /\ c * B + cur = fst r).
Proof.
  induction fuel as [|f IH]; intros cur acc Hf HUB Hle Hal; [lia|].
  cbn [count_unrolled].
  eapply satc_bind. { apply satc_lift_eq. apply psub_ok. exact HUB. }
  intros lim c0 [-> ->].
  destruct (cur <=? length h - U * B) eqn:E.
  - apply Nat.leb_le in E.
    eapply satc_bind. { apply satc_guard_eq. apply Nat.eqb_eq. exact Hal. }
    intros _ c1 ->.
    eapply satc_bind. { apply load_chunks_c. lia. }
    intros chs c2 (Hc & Hlen & ->).
    assert (0 < U * B) by nia.
    eapply satc_weaken.
    { apply (IH (cur + U * B)); [lia|exact HUB|lia|apply mod_add_mul'; assumption]. }
    cbn beta. intros r c [H1 H2]. split; [exact H1|]. lia.
  - apply satc_ret. cbn [fst]. lia.
Qed.

Lemma count_single_c fuel : forall cur acc,
  length h - cur < fuel -> B <= length h -> cur <= length h ->
  satc (count_single R B ps h fuel cur acc)
       (fun r c => fst r <= length h /\ length h - B < fst r /\ c * B + cur = fst r).
Proof.
  induction fuel as [|f IH]; intros cur acc Hf HBl Hle; [lia|].
  cbn [count_single].
  eapply satc_bind. { apply satc_lift_eq. apply psub_ok. exact HBl. }
  intros lim c0 [-> ->].
  destruct (cur <=? length h - B) eqn:E.
  - apply Nat.leb_le in E.
    eapply satc_bind. { apply satc_load_eq. lia. }
    intros v c1 [-> ->].
    eapply satc_weaken. { apply (IH (cur + B)); [lia|exact HBl|lia]. }
    cbn beta. intros r c (H1 & H2 & H3). split; [exact H1|]. split; [exact H2|]. lia.
  - apply Nat.leb_gt in E. apply satc_ret. cbn [fst]. lia.
Qed.

Theorem gen_count_c :
  B <= length h ->
  satc (gen_count R B U alf ps a h) (fun _ c => c <= length h / B + 2 * B + 2).
Proof.
  intros HBl. unfold gen_count.
  pose proof (Nat.mod_upper_bound a B ltac:(lia)) as Hm.
  eapply satc_bind. { apply satc_guard_eq. apply Nat.leb_le. exact HBl. }
  intros _ c0 ->.
  eapply satc_bind. { apply count_bb_cost. lia. }
  intros n0 ch Hch. cbn beta in Hch.
  eapply satc_bind.
  { apply satc_guard_eq. apply andb_true_iff. split; [apply Nat.ltb_lt; lia|apply Nat.leb_le; exact HBl]. }
  intros _ c1 ->.
  eapply satc_bind.
  { instantiate (1 := fun r c => fst r <= length h /\ c * B + (B - a mod B) = fst r).
    destruct (U * B <=? length h) eqn:E.
    - apply Nat.leb_le in E. apply count_unrolled_c; [lia|exact E|lia|apply align_up'; exact HB].
    - apply satc_ret. cbn [fst]. lia. }
  intros [cur1 acc1] ca [Hle1 Hca]. cbn [fst snd] in *.
  eapply satc_bind. { apply count_single_c; [lia|exact HBl|exact Hle1]. }
  intros [cur2 acc2] cb (Hle2 & Hgt2 & Hcb). cbn [fst snd] in *.
  eapply satc_bind. { apply count_bb_cost. lia. }
  intros n1 ct Hct. cbn beta in Hct. apply satc_ret.
  assert (ca + cb <= length h / B) as Hdiv by (apply div_bound0; [exact HB|nia]).
  lia.
Qed.

(* ---------- find_raw ---------- *)
Lemma search_chunk_fwd_c cur :
  cur + B <= length h ->
  satc (search_chunk_fwd R B ps h cur) (fun r c => c = 1 /\ (forall i, r = Some i -> cur <= i)).
Proof.
  intros Hc. unfold search_chunk_fwd.
  eapply satc_bind. { apply satc_load_eq. exact Hc. }
  intros v c1 [-> ->].
  destruct (m_has_nz R (mm R (or_lanes ps (slice h cur B)))).
  - apply satc_ret. split; [lia|]. intros i Hi. injection Hi as <-. lia.
  - apply satc_ret. split; [lia|]. intros i Hi. discriminate.
Qed.

Definition fs_post (cur : nat) (r : ctl (option nat) nat) (c : nat) : Prop :=
  match r with
  | Ret r' => c * B + cur <= length h /\ (forall i, r' = Some i -> c * B + cur <= i + B)
  | Go cur' => cur <= cur' <= length h /\ length h - B < cur' /\ c * B + cur = cur'
  end.

Lemma fwd_single_c fuel : forall cur,
  length h - cur < fuel -> B <= length h -> cur <= length h ->
  satc (fwd_single R B ps h fuel cur) (fs_post cur).
Proof.
  induction fuel as [|f IH]; intros cur Hf HBl Hle; [lia|].
  cbn [fwd_single].
  eapply satc_bind. { apply satc_lift_eq. apply psub_ok. exact HBl. }
  intros lim c0 [-> ->].
  destruct (cur <=? length h - B) eqn:E.
  - apply Nat.leb_le in E.
    eapply satc_bind. { apply search_chunk_fwd_c. lia. }
    intros r c1 [-> Hr].
    destruct r as [i|].
    + apply satc_ret. cbn [fs_post]. split; [lia|]. intros j Hj. injection Hj as <-.
      specialize (Hr i eq_refl). lia.
    + eapply satc_weaken. { apply (IH (cur + B)); [lia|exact HBl|lia]. }
      cbn beta. intros r c Hp. destruct r as [r'|cur']; cbn [fs_post] in *.
      * destruct Hp as [H1 H2]. split; [lia|]. intros i Hi. specialize (H2 i Hi). lia.
      * lia.
  - apply Nat.leb_gt in E. apply satc_ret. cbn [fs_post]. lia.
Qed.

Hypothesis HL : MaskLaws R B.
Hypothesis Hps : ps <> [].

Let mask_nz' := mask_nz R B U ps h HL HB HU Hps.
Let mask_last' := mask_last R B U ps h HL HB HU Hps.
Let chunk_nz' := chunk_nz R B ps HL Hps.
Let all_or_spec' := all_or_spec B U ps h HB HU Hps.

Lemma scan_fwd_c chs : forall cur,
  chunks_at B h cur chs -> anyc ps chs = true ->
  satc (scan_fwd R B ps cur chs) (fun i c => c = 0 /\ cur <= i).
Proof.
  induction chs as [|c r IH]; intros cur Hc Ha; [discriminate|].
  destruct Hc as (-> & Hle2 & Hr).
  assert (length (slice h cur B) = B) as Hl by (apply slice_length; exact Hle2).
  cbn [anyc existsb] in Ha. cbn [scan_fwd].
  destruct r as [|c2 r2].
  - cbn [existsb] in Ha. rewrite orb_false_r in Ha.
    eapply satc_bind. { apply satc_guard_eq. rewrite mask_nz' by exact Hl. exact Ha. }
    intros _ c1 ->. apply satc_ret. split; lia.
  - rewrite mask_nz' by exact Hl. destruct (existsb (pany ps) (slice h cur B)) eqn:E.
    + apply satc_ret. split; lia.
    + cbn [orb] in Ha. eapply satc_weaken. { apply (IH (cur + B)); [exact Hr|exact Ha]. }
      cbn beta. intros i c [-> Hi]. split; lia.
Qed.

Definition fu_post (cur : nat) (r : ctl (option nat) nat) (c : nat) : Prop :=
  match r with
  | Ret r' => c * B + cur <= length h /\ (forall i, r' = Some i -> c * B + cur <= i + U * B)
  | Go cur' => cur <= cur' <= length h /\ c * B + cur = cur'
  end.

Lemma fwd_unrolled_c fuel : forall cur,
  length h - cur < fuel -> U * B <= length h -> cur <= length h -> (a + cur) mod B = 0 ->
  satc (fwd_unrolled R B U alf ps a h fuel cur) (fu_post cur).
Proof.
  induction fuel as [|f IH]; intros cur Hf HUB Hle Hal; [lia|].
  cbn [fwd_unrolled].
  eapply satc_bind. { apply satc_lift_eq. apply psub_ok. exact HUB. }
  intros lim c0 [-> ->].
  destruct (cur <=? length h - U * B) eqn:E.
  - apply Nat.leb_le in E.
    eapply satc_bind. { apply satc_guard_eq. apply Nat.eqb_eq. exact Hal. }
    intros _ c1 ->.
    eapply satc_bind. { apply load_chunks_c. lia. }
    intros chs c2 (Hc & Hlen & ->).
    assert (chs <> []) as Hne by (destruct chs; [cbn in Hlen; lia|discriminate]).
    destruct (all_or_spec' cur chs Hne Hc) as [Eany Elen].
    rewrite (law_will R B HL) by exact Elen. rewrite Eany.
    destruct (anyc ps chs) eqn:Ea.
    + eapply satc_bind. { apply scan_fwd_c; [exact Hc|exact Ea]. }
      intros i c3 [-> Hi]. apply satc_ret. cbn [fu_post]. split; [lia|].
      intros j Hj. injection Hj as <-. lia.
    + assert (0 < U * B) by nia.
      eapply satc_weaken.
      { apply (IH (cur + U * B)); [lia|exact HUB|lia|apply mod_add_mul'; assumption]. }
      cbn beta. intros r c Hp. destruct r as [r'|cur']; cbn [fu_post] in *.
      * destruct Hp as [H1 H2]. split; [lia|]. intros i Hi. specialize (H2 i Hi). lia.
      * lia.
  - apply satc_ret. cbn [fu_post]. lia.
Qed.

Theorem gen_find_c :
  B <= length h ->
  satc (gen_find R B U alf ps a h)
       (fun r c => c <= length h / B + U + 2 /\ (forall i, r = Some i -> c <= i / B + U + 2)).
Proof.
  intros HBl. unfold gen_find.
  pose proof (Nat.mod_upper_bound a B ltac:(lia)) as Hm.
  eapply satc_bind. { apply satc_guard_eq. apply Nat.leb_le. exact HBl. }
  intros _ c0 ->.
  eapply satc_bind. { apply search_chunk_fwd_c. lia. }
  intros r ch [-> Hr].
  destruct r as [i|].
  { apply satc_ret. split; [lia|]. intros j Hj. lia. }
  eapply satc_bind.
  { apply satc_guard_eq. apply andb_true_iff. split; [apply Nat.ltb_lt; lia|apply Nat.leb_le; exact HBl]. }
  intros _ c1 ->.
  eapply satc_bind.
  { instantiate (1 := fu_post (B - a mod B)).
    destruct (U * B <=? length h) eqn:E.
    - apply Nat.leb_le in E. apply fwd_unrolled_c; [lia|exact E|lia|apply align_up'; exact HB].
    - apply satc_ret. cbn [fu_post]. lia. }
  intros r1 ca Hca. destruct r1 as [r1|cur1]; cbn [fu_post] in Hca.
  { destruct Hca as [H1 H2]. apply satc_ret. split.
    - assert (ca <= length h / B) by (apply div_bound0; [exact HB|lia]). lia.
    - intros i Hi. specialize (H2 i Hi).
      assert (ca <= i / B + U) by (apply div_bound; [exact HB|lia]). lia. }
  destruct Hca as [[Hge1 Hle1] Hca].
  eapply satc_bind. { apply fwd_single_c; [lia|exact HBl|exact Hle1]. }
  intros r2 cb Hcb. destruct r2 as [r2|cur2]; cbn [fs_post] in Hcb.
  { destruct Hcb as [H1 H2]. apply satc_ret. split.
    - assert (ca + cb <= length h / B) by (apply div_bound0; [exact HB|nia]). lia.
    - intros i Hi. specialize (H2 i Hi).
      assert (ca + cb <= i / B + 1) by (apply div_bound; [exact HB|nia]). lia. }
  destruct Hcb as ([Hge2 Hle2] & Hgt2 & Hcb).
  assert (ca + cb <= length h / B) as Hdiv by (apply div_bound0; [exact HB|nia]).
  destruct (cur2 <? length h) eqn:E.
  - apply Nat.ltb_lt in E.
    eapply satc_bind. { apply satc_guard_eq. apply Nat.ltb_lt. lia. }
    intros _ c2 ->.
    eapply satc_bind. { apply satc_lift_eq. apply psub_ok. lia. }
    intros cur3 c3 [-> ->].
    replace (cur2 - (B - (length h - cur2))) with (length h - B) by lia.
    eapply satc_bind. { apply satc_guard_eq. apply Nat.eqb_eq. lia. }
    intros _ c4 ->.
    eapply satc_weaken. { apply search_chunk_fwd_c. lia. }
    cbn beta. intros r c [-> Hr3]. split; [lia|].
    intros i Hi. specialize (Hr3 i Hi).
    assert (ca + cb <= i / B + 1) by (apply div_bound; [exact HB|nia]). lia.
  - apply satc_ret. split; [lia|]. intros i Hi. discriminate.
Qed.

(* ---------- rfind_raw ---------- *)
Lemma search_chunk_rev_c cur :
  cur + B <= length h ->
  satc (search_chunk_rev R B ps h cur) (fun _ c => c = 1).
Proof.
  intros Hc. unfold search_chunk_rev.
  eapply satc_bind. { apply satc_load_eq. exact Hc. }
  intros v c1 [-> ->].
  assert (length (slice h cur B) = B) as Hl by (apply slice_length; exact Hc).
  rewrite chunk_nz' by exact Hl.
  destruct (existsb (pany ps) (slice h cur B)) eqn:E.
  - destruct (last_idx (pany ps) (slice h cur B)) as [i|] eqn:Hi.
    + eapply satc_bind. { apply satc_lift_eq. apply (mask_last' _ i Hl Hi). }
      intros o c2 [-> ->]. apply satc_ret. lia.
    + apply first_last_none in Hi. apply existsb_false_first_idx in Hi. congruence.
  - apply satc_ret. lia.
Qed.

Lemma scan_rev_c l : forall e,
  rchunks_at B h e l -> anyc ps (map snd l) = true ->
  satc (scan_rev R ps l) (fun _ c => c = 0).
Proof.
  induction l as [|[off c] r IH]; intros e Hc Ha; [discriminate|].
  destruct Hc as (He & Hle & -> & Hr).
  assert (off + B <= length h) as Hob by lia.
  assert (length (slice h off B) = B) as Hl by (apply slice_length; exact Hob).
  cbn [map snd anyc existsb] in Ha. cbn [scan_rev].
  assert (existsb (pany ps) (slice h off B) = true ->
          satc (o <- lift (m_last R (or_masks R ps (slice h off B)));; ret (off + o))
               (fun _ c => c = 0)) as Hhit.
  { intros E. destruct (last_idx (pany ps) (slice h off B)) as [i|] eqn:Hi.
    - eapply satc_bind. { apply satc_lift_eq. apply (mask_last' _ i Hl Hi). }
      intros o c2 [-> ->]. apply satc_ret. lia.
    - apply first_last_none in Hi. apply existsb_false_first_idx in Hi. congruence. }
  destruct r as [|c2 r2].
  - cbn [map existsb] in Ha. rewrite orb_false_r in Ha.
    eapply satc_bind. { apply satc_guard_eq. rewrite mask_nz' by exact Hl. exact Ha. }
    intros _ c1 ->. eapply satc_weaken. { apply Hhit. exact Ha. }
    cbn beta. intros _ c ->. reflexivity.
  - rewrite mask_nz' by exact Hl. destruct (existsb (pany ps) (slice h off B)) eqn:E.
    + apply Hhit. reflexivity.
    + cbn [orb] in Ha. apply (IH off); [exact Hr|exact Ha].
Qed.

Definition ru_post (cur : nat) (r : ctl (option nat) nat) (c : nat) : Prop :=
  match r with
  | Ret _ => c * B <= cur
  | Go cur' => cur' <= cur /\ c * B + cur' = cur
  end.

Lemma rev_unrolled_c fuel : forall cur,
  cur < fuel -> cur <= length h -> (a + cur) mod B = 0 ->
  satc (rev_unrolled R B U alf ps a h fuel cur) (ru_post cur).
Proof.
  induction fuel as [|f IH]; intros cur Hf Hle Hal; [lia|].
  cbn [rev_unrolled].
  destruct (U * B <=? cur) eqn:E.
  - apply Nat.leb_le in E.
    eapply satc_bind. { apply satc_guard_eq. apply Nat.eqb_eq. exact Hal. }
    intros _ c0 ->.
    eapply satc_bind. { apply satc_lift_eq. apply psub_ok. exact E. }
    intros cur' c1 [-> ->].
    pose proof (mod_sub_mul' a B cur U HB E Hal) as Hal'.
    eapply satc_bind. { apply load_chunks_c. lia. }
    intros chs c2 (Hc & Hlen & ->).
    assert (chs <> []) as Hne by (destruct chs; [cbn in Hlen; lia|discriminate]).
    destruct (all_or_spec' (cur - U * B) chs Hne Hc) as [Eany Elen].
    rewrite (law_will R B HL) by exact Elen. rewrite Eany.
    destruct (anyc ps chs) eqn:Ea.
    + eapply satc_bind.
      { apply (scan_rev_c _ cur).
        - pose proof (rchunks_of_chunks B U h HB HU chs (cur - U * B) Hc) as Hx. rewrite Hlen in Hx.
          replace (cur - U * B + U * B) with cur in Hx by lia. exact Hx.
        - rewrite map_rev, <- Hlen, map_snd_combine_offsets. unfold anyc. rewrite existsb_rev. exact Ea. }
      intros i c3 ->. apply satc_ret. cbn [ru_post]. lia.
    + assert (0 < U * B) by nia.
      eapply satc_weaken. { apply (IH (cur - U * B)); [lia|lia|exact Hal']. }
      cbn beta. intros r c Hp. destruct r as [r'|cur']; cbn [ru_post] in *; lia.
  - apply satc_ret. cbn [ru_post]. lia.
Qed.

Definition rs_post (cur : nat) (r : ctl (option nat) nat) (c : nat) : Prop :=
  match r with
  | Ret _ => c * B <= cur
  | Go cur' => cur' < B /\ c * B + cur' = cur
  end.

Lemma rev_single_c fuel : forall cur,
  cur < fuel -> cur <= length h ->
  satc (rev_single R B ps h fuel cur) (rs_post cur).
Proof.
  induction fuel as [|f IH]; intros cur Hf Hle; [lia|].
  cbn [rev_single].
  destruct (B <=? cur) eqn:E.
  - apply Nat.leb_le in E.
    eapply satc_bind. { apply satc_lift_eq. apply psub_ok. exact E. }
    intros cur' c0 [-> ->].
    eapply satc_bind. { apply search_chunk_rev_c. lia. }
    intros r c1 ->.
    destruct r as [i|].
    + apply satc_ret. cbn [rs_post]. lia.
    + eapply satc_weaken. { apply (IH (cur - B)); lia. }
      cbn beta. intros r c Hp. destruct r as [r'|cur']; cbn [rs_post] in *; lia.
  - apply Nat.leb_gt in E. apply satc_ret. cbn [rs_post]. lia.
Qed.

Theorem gen_rfind_c :
  B <= length h ->
  satc (gen_rfind R B U alf ps a h) (fun _ c => c <= length h / B + U + 2).
Proof.
  intros HBl. unfold gen_rfind.
  eapply satc_bind. { apply satc_guard_eq. apply Nat.leb_le. exact HBl. }
  intros _ c0 ->.
  eapply satc_bind. { apply satc_lift_eq. apply psub_ok. exact HBl. }
  intros s0 c1 [-> ->].
  eapply satc_bind. { apply search_chunk_rev_c. lia. }
  intros r ch ->.
  destruct r as [i|].
  { apply satc_ret. lia. }
  pose proof (Nat.mod_upper_bound (a + length h) B ltac:(lia)) as Hm.
  eapply satc_bind. { apply satc_lift_eq. apply psub_ok. lia. }
  intros cur0 c2 [-> ->].
  eapply satc_bind. { apply satc_guard_eq. apply Nat.leb_le. lia. }
  intros _ c3 ->.
  assert ((a + (length h - (a + length h) mod B)) mod B = 0) as Hal0.
  { replace (a + (length h - (a + length h) mod B)) with ((a + length h) - (a + length h) mod B) by lia.
    apply align_down'. exact HB. }
  eapply satc_bind.
  { instantiate (1 := ru_post (length h - (a + length h) mod B)).
    destruct (U * B <=? length h) eqn:E.
    - apply rev_unrolled_c; [lia|lia|exact Hal0].
    - apply satc_ret. cbn [ru_post]. lia. }
  intros r1 ca Hca. destruct r1 as [r1|cur1]; cbn [ru_post] in Hca.
  { apply satc_ret.
    assert (ca <= length h / B) by (apply div_bound0; [exact HB|lia]). lia. }
  destruct Hca as [Hle1 Hca].
  eapply satc_bind. { apply rev_single_c; lia. }
  intros r2 cb Hcb. destruct r2 as [r2|cur2]; cbn [rs_post] in Hcb.
  { apply satc_ret.
    assert (ca + cb <= length h / B) by (apply div_bound0; [exact HB|nia]). lia. }
  destruct Hcb as [Hlt2 Hcb].
  assert (ca + cb <= length h / B) as Hdiv by (apply div_bound0; [exact HB|nia]).
  destruct (0 <? cur2) eqn:E.
  - eapply satc_bind. { apply satc_guard_eq. apply Nat.ltb_lt. exact Hlt2. }
    intros _ c4 ->.
    eapply satc_weaken. { apply search_chunk_rev_c. lia. }
    cbn beta. intros r c ->. lia.
  - apply satc_ret. lia.
Qed.

(* ---------- rfind_raw, hit-aware: a hit at i costs (|h| - i) / B chunk loads plus a constant ---------- *)
Lemma search_chunk_rev_ch cur :
  cur + B <= length h ->
  satc (search_chunk_rev R B ps h cur) (fun r c => c = 1 /\ (forall i, r = Some i -> i < cur + B)).
Proof.
  intros Hc. unfold search_chunk_rev.
  eapply satc_bind. { apply satc_load_eq. exact Hc. }
  intros v c1 [-> ->].
  assert (length (slice h cur B) = B) as Hl by (apply slice_length; exact Hc).
  rewrite chunk_nz' by exact Hl.
  destruct (existsb (pany ps) (slice h cur B)) eqn:E.
  - destruct (last_idx (pany ps) (slice h cur B)) as [i|] eqn:Hi.
    + eapply satc_bind. { apply satc_lift_eq. apply (mask_last' _ i Hl Hi). }
      intros o c2 [-> ->]. apply satc_ret. split; [lia|]. intros j Hj. injection Hj as <-.
      apply last_idx_lt in Hi. lia.
    + apply first_last_none in Hi. apply existsb_false_first_idx in Hi. congruence.
  - apply satc_ret. split; [lia|]. intros j Hj. discriminate.
Qed.

Lemma scan_rev_ch l : forall e,
  rchunks_at B h e l -> anyc ps (map snd l) = true ->
  satc (scan_rev R ps l) (fun i c => c = 0 /\ i < e).
Proof.
  induction l as [|[off c] r IH]; intros e Hc Ha; [discriminate|].
  destruct Hc as (He & Hle & -> & Hr).
  assert (off + B <= length h) as Hob by lia.
  assert (length (slice h off B) = B) as Hl by (apply slice_length; exact Hob).
  cbn [map snd anyc existsb] in Ha. cbn [scan_rev].
  assert (existsb (pany ps) (slice h off B) = true ->
          satc (o <- lift (m_last R (or_masks R ps (slice h off B)));; ret (off + o))
               (fun i c => c = 0 /\ i < e)) as Hhit.
  { intros E. destruct (last_idx (pany ps) (slice h off B)) as [i|] eqn:Hi.
    - eapply satc_bind. { apply satc_lift_eq. apply (mask_last' _ i Hl Hi). }
      intros o c2 [-> ->]. apply satc_ret. apply last_idx_lt in Hi. lia.
    - apply first_last_none in Hi. apply existsb_false_first_idx in Hi. congruence. }
  destruct r as [|c2 r2].
  - cbn [map existsb] in Ha. rewrite orb_false_r in Ha.
    eapply satc_bind. { apply satc_guard_eq. rewrite mask_nz' by exact Hl. exact Ha. }
    intros _ c1 ->. eapply satc_weaken. { apply Hhit. exact Ha. }
    cbn beta. intros i c [-> Hi]. split; [reflexivity|exact Hi].
  - rewrite mask_nz' by exact Hl. destruct (existsb (pany ps) (slice h off B)) eqn:E.
    + apply Hhit. reflexivity.
    + cbn [orb] in Ha. eapply satc_weaken. { apply (IH off); [exact Hr|exact Ha]. }
      cbn beta. intros i c [-> Hi]. split; [reflexivity|lia].
Qed.

Definition ru_post_h (cur : nat) (r : ctl (option nat) nat) (c : nat) : Prop :=
  match r with
  | Ret r' => c * B <= cur /\ (forall i, r' = Some i -> c * B + i < cur + U * B)
  | Go cur' => cur' <= cur /\ c * B + cur' = cur
  end.

Lemma rev_unrolled_ch fuel : forall cur,
  cur < fuel -> cur <= length h -> (a + cur) mod B = 0 ->
  satc (rev_unrolled R B U alf ps a h fuel cur) (ru_post_h cur).
Proof.
  induction fuel as [|f IH]; intros cur Hf Hle Hal; [lia|].
  cbn [rev_unrolled].
  destruct (U * B <=? cur) eqn:E.
  - apply Nat.leb_le in E.
    eapply satc_bind. { apply satc_guard_eq. apply Nat.eqb_eq. exact Hal. }
    intros _ c0 ->.
    eapply satc_bind. { apply satc_lift_eq. apply psub_ok. exact E. }
    intros cur' c1 [-> ->].
    pose proof (mod_sub_mul' a B cur U HB E Hal) as Hal'.
    eapply satc_bind. { apply load_chunks_c. lia. }
    intros chs c2 (Hc & Hlen & ->).
    assert (chs <> []) as Hne by (destruct chs; [cbn in Hlen; lia|discriminate]).
    destruct (all_or_spec' (cur - U * B) chs Hne Hc) as [Eany Elen].
    rewrite (law_will R B HL) by exact Elen. rewrite Eany.
    destruct (anyc ps chs) eqn:Ea.
    + eapply satc_bind.
      { apply (scan_rev_ch _ cur).
        - pose proof (rchunks_of_chunks B U h HB HU chs (cur - U * B) Hc) as Hx. rewrite Hlen in Hx.
          replace (cur - U * B + U * B) with cur in Hx by lia. exact Hx.
        - rewrite map_rev, <- Hlen, map_snd_combine_offsets. unfold anyc. rewrite existsb_rev. exact Ea. }
      intros i c3 [-> Hi]. apply satc_ret. cbn [ru_post_h]. split; [lia|].
      intros j Hj. injection Hj as <-. lia.
    + assert (0 < U * B) by nia.
      eapply satc_weaken. { apply (IH (cur - U * B)); [lia|lia|exact Hal']. }
      cbn beta. intros r c Hp. destruct r as [r'|cur']; cbn [ru_post_h] in *.
      * destruct Hp as [H1 H2]. split; [lia|]. intros i Hi. specialize (H2 i Hi). lia.
      * lia.
  - apply satc_ret. cbn [ru_post_h]. lia.
Qed.

Definition rs_post_h (cur : nat) (r : ctl (option nat) nat) (c : nat) : Prop :=
  match r with
  | Ret r' => c * B <= cur /\ (forall i, r' = Some i -> c * B + i < cur + B)
  | Go cur' => cur' < B /\ c * B + cur' = cur
  end.

Lemma rev_single_ch fuel : forall cur,
  cur < fuel -> cur <= length h ->
  satc (rev_single R B ps h fuel cur) (rs_post_h cur).
Proof.
  induction fuel as [|f IH]; intros cur Hf Hle; [lia|].
  cbn [rev_single].
  destruct (B <=? cur) eqn:E.
  - apply Nat.leb_le in E.
    eapply satc_bind. { apply satc_lift_eq. apply psub_ok. exact E. }
    intros cur' c0 [-> ->].
    eapply satc_bind. { apply search_chunk_rev_ch. lia. }
    intros r c1 [-> Hr].
    destruct r as [i|].
    + apply satc_ret. cbn [rs_post_h]. split; [lia|]. intros j Hj. injection Hj as <-.
      specialize (Hr i eq_refl). lia.
    + eapply satc_weaken. { apply (IH (cur - B)); lia. }
      cbn beta. intros r c Hp. destruct r as [r'|cur']; cbn [rs_post_h] in *.
      * destruct Hp as [H1 H2]. split; [lia|]. intros i Hi. specialize (H2 i Hi). lia.
      * lia.
  - apply Nat.leb_gt in E. apply satc_ret. cbn [rs_post_h]. lia.
Qed.

Theorem gen_rfind_ch :
  B <= length h ->
  satc (gen_rfind R B U alf ps a h)
       (fun r c => c <= length h / B + U + 2 /\ (forall i, r = Some i -> c <= (length h - i) / B + U + 2)).
Proof.
  intros HBl. unfold gen_rfind.
  eapply satc_bind. { apply satc_guard_eq. apply Nat.leb_le. exact HBl. }
  intros _ c0 ->.
  eapply satc_bind. { apply satc_lift_eq. apply psub_ok. exact HBl. }
  intros s0 c1 [-> ->].
  eapply satc_bind. { apply search_chunk_rev_ch. lia. }
  intros r ch [-> Hr0].
  destruct r as [i|].
  { apply satc_ret. split; [lia|]. intros j Hj. lia. }
  pose proof (Nat.mod_upper_bound (a + length h) B ltac:(lia)) as Hm.
  eapply satc_bind. { apply satc_lift_eq. apply psub_ok. lia. }
  intros cur0 c2 [-> ->].
  eapply satc_bind. { apply satc_guard_eq. apply Nat.leb_le. lia. }
  intros _ c3 ->.
  assert ((a + (length h - (a + length h) mod B)) mod B = 0) as Hal0.
  { replace (a + (length h - (a + length h) mod B)) with ((a + length h) - (a + length h) mod B) by lia.
    apply align_down'. exact HB. }
  eapply satc_bind.
  { instantiate (1 := ru_post_h (length h - (a + length h) mod B)).
    destruct (U * B <=? length h) eqn:E.
    - apply rev_unrolled_ch; [lia|lia|exact Hal0].
    - apply satc_ret. cbn [ru_post_h]. lia. }
  intros r1 ca Hca. destruct r1 as [r1|cur1]; cbn [ru_post_h] in Hca.
  { destruct Hca as [H1 H2]. apply satc_ret. split.
    - assert (ca <= length h / B) by (apply div_bound0; [exact HB|lia]). lia.
    - intros i Hi. specialize (H2 i Hi).
      assert (ca <= (length h - i) / B + U) by (apply div_bound; [exact HB|lia]). lia. }
  destruct Hca as [Hle1 Hca].
  eapply satc_bind. { apply rev_single_ch; lia. }
  intros r2 cb Hcb. destruct r2 as [r2|cur2]; cbn [rs_post_h] in Hcb.
  { destruct Hcb as [H1 H2]. apply satc_ret. split.
    - assert (ca + cb <= length h / B) by (apply div_bound0; [exact HB|nia]). lia.
    - intros i Hi. specialize (H2 i Hi).
      assert (ca + cb <= (length h - i) / B + 1) by (apply div_bound; [exact HB|nia]). lia. }
  destruct Hcb as [Hlt2 Hcb].
  assert (ca + cb <= length h / B) as Hdiv by (apply div_bound0; [exact HB|nia]).
  destruct (0 <? cur2) eqn:E.
  - eapply satc_bind. { apply satc_guard_eq. apply Nat.ltb_lt. exact Hlt2. }
    intros _ c4 ->.
    eapply satc_weaken. { apply search_chunk_rev_ch. lia. }
    cbn beta. intros r c [-> Hr]. split; [lia|].
    intros i Hi. specialize (Hr i Hi).
    assert (ca + cb <= (length h - i) / B + 1) by (apply div_bound; [exact HB|nia]). lia.
  - apply satc_ret. split; [lia|]. intros i Hi. discriminate.
Qed.

End GenericCost.

Theorem gen_find_cost : forall R B U al ps a h, MaskLaws R B -> 0 < B -> 0 < U -> ps <> [] -> B <= length h ->
  satc (gen_find R B U al ps a h)
       (fun r c => c <= length h / B + U + 2 /\ (forall i, r = Some i -> c <= i / B + U + 2)).
Proof. intros. apply gen_find_c; assumption. Qed.

Theorem gen_rfind_cost : forall R B U al ps a h, MaskLaws R B -> 0 < B -> 0 < U -> ps <> [] -> B <= length h ->
  satc (gen_rfind R B U al ps a h) (fun _ c => c <= length h / B + U + 2).
Proof. intros. apply gen_rfind_c; assumption. Qed.

Theorem gen_rfind_cost_hit : forall R B U al ps a h, MaskLaws R B -> 0 < B -> 0 < U -> ps <> [] -> B <= length h ->
  satc (gen_rfind R B U al ps a h)
       (fun r c => c <= length h / B + U + 2 /\ (forall i, r = Some i -> c <= (length h - i) / B + U + 2)).
Proof. intros. apply gen_rfind_ch; assumption. Qed.

Theorem gen_count_cost : forall R B U al ps a h, MaskLaws R B -> 0 < B -> 0 < U -> B <= length h ->
  satc (gen_count R B U al ps a h) (fun _ c => c <= length h / B + 2 * B + 2).
Proof. intros. apply gen_count_c; assumption. Qed.

(* ================= SWAR ================= *)
Section SwarCost.
Variables (W k : nat) (early : bool) (needles : list N) (a : nat) (h : list N).
Hypothesis HW : 0 < W.
Hypothesis Hk : 0 < k.
Notation p := (confirm needles).

Lemma load_words_c n : forall cur,
  cur + n * W <= length h ->
  satc (load_words W h cur n) (fun _ c => c = n).
Proof.
  induction n as [|n IH]; intros cur Hle; cbn [load_words].
  - apply satc_ret. reflexivity.
  - eapply satc_bind. { apply satc_load_eq. lia. }
    intros c c1 [-> ->].
    eapply satc_bind. { apply IH. lia. }
    intros cs c2 ->. apply satc_ret. lia.
Qed.

(* the loop stops at cur' after at most (cur' - cur) / W + k word loads *)
Lemma swar_fwd_loop_c fuel : forall cur,
  length h - cur < fuel -> k * W <= length h -> cur <= length h -> (a + cur) mod W = 0 ->
  satc (swar_fwd_loop W k needles a h fuel cur)
       (fun cur' c => cur <= cur' <= length h /\ c * W + cur <= cur' + k * W).
Proof.
  induction fuel as [|f IH]; intros cur Hf HkW Hle Hal; [lia|].
  cbn [swar_fwd_loop].
  eapply satc_bind. { apply satc_lift_eq. apply psub_ok. exact HkW. }
  intros lim c0 [-> ->].
  destruct (cur <=? length h - k * W) eqn:E.
  - apply Nat.leb_le in E.
    eapply satc_bind. { apply satc_guard_eq. apply Nat.eqb_eq. exact Hal. }
    intros _ c1 ->.
    eapply satc_bind. { apply load_words_c. lia. }
    intros ws c2 ->.
    destruct (existsb (has_needle W needles) ws).
    + apply satc_ret. lia.
    + assert (0 < k * W) by nia.
      eapply satc_weaken.
      { apply (IH (cur + k * W)); [lia|exact HkW|lia|apply mod_add_mul'; assumption]. }
      cbn beta. intros cur' c [H1 H2]. split; lia.
  - apply satc_ret. lia.
Qed.

Lemma swar_rev_loop_c fuel : forall cur,
  cur < fuel -> cur <= length h -> (a + cur) mod W = 0 ->
  satc (swar_rev_loop W k needles a h fuel cur)
       (fun cur' c => cur' <= cur /\ c * W + cur' <= cur + k * W).
Proof.
  induction fuel as [|f IH]; intros cur Hf Hle Hal; [lia|].
  cbn [swar_rev_loop].
  destruct (k * W <=? cur) eqn:E.
  - apply Nat.leb_le in E.
    eapply satc_bind. { apply satc_guard_eq. apply Nat.eqb_eq. exact Hal. }
    intros _ c0 ->.
    eapply satc_bind. { apply satc_lift_eq. apply psub_ok. exact E. }
    intros s c1 [-> ->].
    pose proof (mod_sub_mul' a W cur k HW E Hal) as Hal'.
    eapply satc_bind. { apply load_words_c. lia. }
    intros ws c2 ->.
    destruct (existsb (has_needle W needles) ws).
    + apply satc_ret. lia.
    + assert (0 < k * W) by nia.
      eapply satc_weaken. { apply (IH (cur - k * W)); [lia|lia|exact Hal']. }
      cbn beta. intros cur' c [H1 H2]. split; lia.
  - apply satc_ret. lia.
Qed.

(* c * W + x <= y + k * W gives c + x <= y + k when x <= y *)
Lemma words_le_bytes c x y : x <= y -> c * W + x <= y + k * W -> c + x <= y + k.
Proof. intros Hxy H. nia. Qed.

(* sharp form: one step per byte, plus the k words of the last iteration and the first word *)
Theorem swar_find_c :
  (early = true \/ k = 1) ->
  satc (swar_find W k early needles a h)
       (fun r c => c <= length h + k + 1 /\ (forall i, r = Some i -> c <= i + k + 2)).
Proof.
  intros Hek. unfold swar_find.
  destruct (length h =? 0) eqn:E0.
  { apply satc_ret. split; [lia|]. intros i Hi. discriminate. }
  apply Nat.eqb_neq in E0.
  destruct (length h <? W) eqn:EW.
  { eapply satc_weaken. { apply fwd_bb_cost_ge. lia. }
    cbn beta. intros r c [H1 H2]. split; [lia|]. intros i Hi. specialize (H2 i Hi). lia. }
  apply Nat.ltb_ge in EW.
  eapply satc_bind. { apply satc_load_eq. lia. }
  intros v c0 [-> ->].
  destruct (has_needle W needles (slice h 0 W)).
  { eapply satc_weaken. { apply fwd_bb_cost_ge. lia. }
    cbn beta. intros r c [H1 H2]. split; [lia|]. intros i Hi. specialize (H2 i Hi). lia. }
  pose proof (Nat.mod_upper_bound a W ltac:(lia)) as Hm.
  eapply satc_bind. { apply satc_guard_eq. apply Nat.ltb_lt. lia. }
  intros _ c1 ->.
  destruct (early && (length h <=? k * W)) eqn:Ee.
  { eapply satc_weaken. { apply fwd_bb_cost_ge. lia. }
    cbn beta. intros r c [H1 H2]. split; [lia|]. intros i Hi. specialize (H2 i Hi). lia. }
  assert (k * W <= length h) as HkW.
  { destruct Hek as [->| ->]; [|lia]. cbn [andb] in Ee. apply Nat.leb_gt in Ee. lia. }
  eapply satc_bind. { apply swar_fwd_loop_c; [lia|exact HkW|lia|apply align_up'; exact HW]. }
  intros cur cl [[Hge Hle] Hcl].
  pose proof (words_le_bytes _ _ _ Hge Hcl) as Hcl'.
  eapply satc_weaken. { apply fwd_bb_cost_ge. lia. }
  cbn beta. intros r c [H1 H2]. split; [lia|]. intros i Hi. specialize (H2 i Hi). lia.
Qed.

Theorem swar_rfind_c :
  satc (swar_rfind W k early needles a h) (fun _ c => c <= length h + k + 1).
Proof.
  unfold swar_rfind.
  destruct (length h =? 0) eqn:E0.
  { apply satc_ret. lia. }
  apply Nat.eqb_neq in E0.
  destruct (length h <? W) eqn:EW.
  { eapply satc_weaken. { apply rev_bb_cost. lia. } cbn beta. intros r c H1. lia. }
  apply Nat.ltb_ge in EW.
  eapply satc_bind. { apply satc_lift_eq. apply psub_ok. exact EW. }
  intros s0 c0 [-> ->].
  eapply satc_bind. { apply satc_load_eq. lia. }
  intros v c1 [-> ->].
  destruct (has_needle W needles (slice h (length h - W) W)).
  { eapply satc_weaken. { apply rev_bb_cost. lia. } cbn beta. intros r c H1. lia. }
  pose proof (Nat.mod_upper_bound (a + length h) W ltac:(lia)) as Hm.
  eapply satc_bind. { apply satc_lift_eq. apply psub_ok. lia. }
  intros cur0 c2 [-> ->].
  eapply satc_bind. { apply satc_guard_eq. apply Nat.leb_le. lia. }
  intros _ c3 ->.
  destruct (early && (length h <=? k * W)).
  { eapply satc_weaken. { apply rev_bb_cost. lia. } cbn beta. intros r c H1. lia. }
  eapply satc_bind.
  { apply swar_rev_loop_c; [lia|lia|].
    replace (a + (length h - (a + length h) mod W)) with ((a + length h) - (a + length h) mod W) by lia.
    apply align_down'. exact HW. }
  intros cur cl [Hle Hcl].
  pose proof (words_le_bytes _ _ _ Hle Hcl) as Hcl'.
  eapply satc_weaken. { apply rev_bb_cost. lia. } cbn beta. intros r c H1. lia.
Qed.

(* hit-aware: a hit at i is found after at most |h| - i + k + 1 steps *)
Theorem swar_rfind_ch :
  satc (swar_rfind W k early needles a h)
       (fun r c => c <= length h + k + 1 /\ (forall i, r = Some i -> c + i <= length h + k + 1)).
Proof.
  unfold swar_rfind.
  destruct (length h =? 0) eqn:E0.
  { apply satc_ret. split; [lia|]. intros i Hi. discriminate. }
  apply Nat.eqb_neq in E0.
  destruct (length h <? W) eqn:EW.
  { eapply satc_weaken. { apply rev_bb_cost_hit. lia. }
    cbn beta. intros r c [H1 H2]. split; [lia|]. intros i Hi. specialize (H2 i Hi). lia. }
  apply Nat.ltb_ge in EW.
  eapply satc_bind. { apply satc_lift_eq. apply psub_ok. exact EW. }
  intros s0 c0 [-> ->].
  eapply satc_bind. { apply satc_load_eq. lia. }
  intros v c1 [-> ->].
  destruct (has_needle W needles (slice h (length h - W) W)).
  { eapply satc_weaken. { apply rev_bb_cost_hit. lia. }
    cbn beta. intros r c [H1 H2]. split; [lia|]. intros i Hi. specialize (H2 i Hi). lia. }
  pose proof (Nat.mod_upper_bound (a + length h) W ltac:(lia)) as Hm.
  eapply satc_bind. { apply satc_lift_eq. apply psub_ok. lia. }
  intros cur0 c2 [-> ->].
  eapply satc_bind. { apply satc_guard_eq. apply Nat.leb_le. lia. }
  intros _ c3 ->.
  destruct (early && (length h <=? k * W)).
  { eapply satc_weaken. { apply rev_bb_cost_hit. lia. }
    cbn beta. intros r c [H1 H2]. split; [lia|]. intros i Hi. specialize (H2 i Hi). lia. }
  eapply satc_bind.
  { apply swar_rev_loop_c; [lia|lia|].
    replace (a + (length h - (a + length h) mod W)) with ((a + length h) - (a + length h) mod W) by lia.
    apply align_down'. exact HW. }
  intros cur cl [Hle Hcl].
  pose proof (words_le_bytes _ _ _ Hle Hcl) as Hcl'.
  eapply satc_weaken. { apply rev_bb_cost_hit. lia. }
  cbn beta. intros r c [H1 H2]. split; [lia|]. intros i Hi. specialize (H2 i Hi). lia.
Qed.

End SwarCost.

Theorem swar_count_c needles h : satc (swar_count needles h) (fun _ c => c <= length h).
Proof.
  unfold swar_count. destruct (length h =? 0).
  - apply satc_ret. lia.
  - eapply satc_weaken. { apply count_bb_cost. lia. } cbn beta. intros r c H1. lia.
Qed.

Theorem swar_find_cost : forall W k early needles a h, 0 < W -> 0 < k ->
  Forall (fun x => (x < 256)%N) h -> Forall (fun x => (x < 256)%N) needles ->
  (early = true \/ k = 1) ->
  satc (swar_find W k early needles a h)
       (fun r c => c <= 2 * length h + k + 2 /\ (forall i, r = Some i -> c <= 2 * i + k * W + W + 2)).
Proof.
  intros W k early needles a h HW Hk _ _ Hek.
  eapply satc_weaken. { apply swar_find_c; assumption. }
  cbn beta. intros r c [H1 H2]. split; [lia|]. intros i Hi. specialize (H2 i Hi). nia.
Qed.

(* ================= wrappers and the dispatcher ================= *)
Lemma unroll_le ns : unroll_of ns <= 4.
Proof. unfold unroll_of. destruct (length ns) as [|[|[|n]]]; vm_compute; lia. Qed.

Lemma swar_words_le ns : 0 < swar_words_of ns <= 2.
Proof. unfold swar_words_of. destruct (length ns) as [|[|n]]; vm_compute; lia. Qed.

Lemma div_le_self x B : 0 < B -> x / B <= x.
Proof. intros HB. apply Nat.div_le_upper_bound; [lia|nia]. Qed.

Section WrapCost.
Variables (ns : list N) (a : nat) (h : list N).
Notation conf := (confirm ns).

(* what the wrappers guarantee for any vector width B <= 32 with unroll <= 4 *)
Definition find_bound (r : option nat) (c : nat) : Prop :=
  c <= length h + 6 /\ (forall i, r = Some i -> c <= i + 6).

Lemma bb_find_bound : satc (fwd_byte_by_byte conf h 0 (length h)) find_bound.
Proof.
  eapply satc_weaken. { apply fwd_bb_cost_ge. lia. }
  cbn beta. intros r c [H1 H2]. split; [lia|]. intros i Hi. specialize (H2 i Hi). lia.
Qed.

Lemma gen_find_bound R B al : ns <> [] -> MaskLaws R B -> 0 < B -> B <= length h ->
  satc (gen_find R B (unroll_of ns) al (needle_preds ns) a h) find_bound.
Proof.
  intros Hns HL HB Hle. eapply satc_weaken.
  { apply gen_find_cost; [exact HL|exact HB|apply unroll_pos|apply preds_ne; exact Hns|exact Hle]. }
  cbn beta. intros r c [H1 H2]. pose proof (unroll_le ns) as HU.
  split.
  - pose proof (div_le_self (length h) B HB). lia.
  - intros i Hi. specialize (H2 i Hi). pose proof (div_le_self i B HB). lia.
Qed.

Lemma vec16_find_c R B al : ns <> [] -> MaskLaws R B -> 0 < B ->
  satc (vec16_find ns a h R B al) find_bound.
Proof.
  intros Hns HL HB. unfold vec16_find.
  destruct (length h =? 0). { apply satc_ret. split; [lia|]. intros i Hi. discriminate. }
  destruct (length h <? B) eqn:E1. { apply bb_find_bound. }
  apply Nat.ltb_ge in E1. apply gen_find_bound; assumption.
Qed.

Lemma avx2_find_c : ns <> [] -> satc (avx2_find ns a h) find_bound.
Proof.
  intros Hns. unfold avx2_find. destruct sens_sse2 as [L1 P1]. destruct sens_avx2 as [L2 P2].
  destruct (length h =? 0). { apply satc_ret. split; [lia|]. intros i Hi. discriminate. }
  destruct (length h <? avx2_bytes) eqn:E1.
  - destruct (length h <? sse2_bytes) eqn:E2. { apply bb_find_bound. }
    apply Nat.ltb_ge in E2. apply gen_find_bound; assumption.
  - apply Nat.ltb_ge in E1. apply gen_find_bound; assumption.
Qed.

Definition rfind_bound (_ : option nat) (c : nat) : Prop := c <= length h + 6.

Lemma bb_rfind_bound : satc (rev_byte_by_byte conf h 0 (length h)) rfind_bound.
Proof.
  eapply satc_weaken. { apply rev_bb_cost. lia. }
  cbn beta. intros r c H1. unfold rfind_bound. lia.
Qed.

Lemma gen_rfind_bound R B al : ns <> [] -> MaskLaws R B -> 0 < B -> B <= length h ->
  satc (gen_rfind R B (unroll_of ns) al (needle_preds ns) a h) rfind_bound.
Proof.
  intros Hns HL HB Hle. eapply satc_weaken.
  { apply gen_rfind_cost; [exact HL|exact HB|apply unroll_pos|apply preds_ne; exact Hns|exact Hle]. }
  cbn beta. intros r c H1. pose proof (unroll_le ns) as HU. unfold rfind_bound.
  pose proof (div_le_self (length h) B HB). lia.
Qed.

Lemma vec16_rfind_c R B al : ns <> [] -> MaskLaws R B -> 0 < B ->
  satc (vec16_rfind ns a h R B al) rfind_bound.
Proof.
  intros Hns HL HB. unfold vec16_rfind.
  destruct (length h =? 0). { apply satc_ret. unfold rfind_bound. lia. }
  destruct (length h <? B) eqn:E1. { apply bb_rfind_bound. }
  apply Nat.ltb_ge in E1. apply gen_rfind_bound; assumption.
Qed.

Lemma avx2_rfind_c : ns <> [] -> satc (avx2_rfind ns a h) rfind_bound.
Proof.
  intros Hns. unfold avx2_rfind. destruct sens_sse2 as [L1 P1]. destruct sens_avx2 as [L2 P2].
  destruct (length h =? 0). { apply satc_ret. unfold rfind_bound. lia. }
  destruct (length h <? avx2_bytes) eqn:E1.
  - destruct (length h <? sse2_bytes) eqn:E2. { apply bb_rfind_bound. }
    apply Nat.ltb_ge in E2. apply gen_rfind_bound; assumption.
  - apply Nat.ltb_ge in E1. apply gen_rfind_bound; assumption.
Qed.

(* hit-aware reverse bound *)
Definition rfind_bound_h (r : option nat) (c : nat) : Prop :=
  c <= length h + 6 /\ (forall i, r = Some i -> c <= length h - i + 6).

Lemma bb_rfind_bound_h : satc (rev_byte_by_byte conf h 0 (length h)) rfind_bound_h.
Proof.
  eapply satc_weaken. { apply rev_bb_cost_hit. lia. }
  cbn beta. intros r c [H1 H2]. split; [lia|]. intros i Hi. specialize (H2 i Hi). lia.
Qed.

Lemma gen_rfind_bound_h R B al : ns <> [] -> MaskLaws R B -> 0 < B -> B <= length h ->
  satc (gen_rfind R B (unroll_of ns) al (needle_preds ns) a h) rfind_bound_h.
Proof.
  intros Hns HL HB Hle. eapply satc_weaken.
  { apply gen_rfind_cost_hit; [exact HL|exact HB|apply unroll_pos|apply preds_ne; exact Hns|exact Hle]. }
  cbn beta. intros r c [H1 H2]. pose proof (unroll_le ns) as HU. split.
  - pose proof (div_le_self (length h) B HB). lia.
  - intros i Hi. specialize (H2 i Hi). pose proof (div_le_self (length h - i) B HB). lia.
Qed.

Lemma vec16_rfind_ch R B al : ns <> [] -> MaskLaws R B -> 0 < B ->
  satc (vec16_rfind ns a h R B al) rfind_bound_h.
Proof.
  intros Hns HL HB. unfold vec16_rfind.
  destruct (length h =? 0). { apply satc_ret. split; [lia|]. intros i Hi. discriminate. }
  destruct (length h <? B) eqn:E1. { apply bb_rfind_bound_h. }
  apply Nat.ltb_ge in E1. apply gen_rfind_bound_h; assumption.
Qed.

Lemma avx2_rfind_ch : ns <> [] -> satc (avx2_rfind ns a h) rfind_bound_h.
Proof.
  intros Hns. unfold avx2_rfind. destruct sens_sse2 as [L1 P1]. destruct sens_avx2 as [L2 P2].
  destruct (length h =? 0). { apply satc_ret. split; [lia|]. intros i Hi. discriminate. }
  destruct (length h <? avx2_bytes) eqn:E1.
  - destruct (length h <? sse2_bytes) eqn:E2. { apply bb_rfind_bound_h. }
    apply Nat.ltb_ge in E2. apply gen_rfind_bound_h; assumption.
  - apply Nat.ltb_ge in E1. apply gen_rfind_bound_h; assumption.
Qed.

Definition count_bound (_ : nat) (c : nat) : Prop := c <= length h + 66.

Lemma bb_count_bound : satc (count_byte_by_byte conf h 0 (length h)) count_bound.
Proof.
  eapply satc_weaken. { apply count_bb_cost. lia. }
  cbn beta. intros r c H1. unfold count_bound. lia.
Qed.

Lemma gen_count_bound R B al : MaskLaws R B -> 0 < B <= 32 -> B <= length h ->
  satc (gen_count R B (unroll_of ns) al (needle_preds ns) a h) count_bound.
Proof.
  intros HL [HB HB32] Hle. eapply satc_weaken.
  { apply gen_count_cost; [exact HL|exact HB|apply unroll_pos|exact Hle]. }
  cbn beta. intros r c H1. unfold count_bound.
  pose proof (div_le_self (length h) B HB). lia.
Qed.

Lemma vec16_count_c R B al : MaskLaws R B -> 0 < B <= 32 ->
  satc (vec16_count ns a h R B al) count_bound.
Proof.
  intros HL HB. unfold vec16_count.
  destruct (length h =? 0). { apply satc_ret. unfold count_bound. lia. }
  destruct (length h <? B) eqn:E1. { apply bb_count_bound. }
  apply Nat.ltb_ge in E1. apply gen_count_bound; assumption.
Qed.

Lemma avx2_count_c : satc (avx2_count ns a h) count_bound.
Proof.
  unfold avx2_count. destruct sens_sse2 as [L1 _]. destruct sens_avx2 as [L2 _].
  destruct params_mem_ok as (P1 & P2 & _).
  destruct (length h =? 0). { apply satc_ret. unfold count_bound. lia. }
  destruct (length h <? avx2_bytes) eqn:E1.
  - destruct (length h <? sse2_bytes) eqn:E2. { apply bb_count_bound. }
    apply Nat.ltb_ge in E2. apply gen_count_bound; assumption.
  - apply Nat.ltb_ge in E1. apply gen_count_bound; assumption.
Qed.

End WrapCost.

Theorem backend_find_cost : forall b ns a h, ns <> [] ->
  Forall (fun x => (x < 256)%N) h -> Forall (fun x => (x < 256)%N) ns ->
  satc (backend_find ns a h b) (fun r c => c <= 2 * length h + 16 /\ (forall i, r = Some i -> c <= 2 * i + 16)).
Proof.
  intros b ns a h Hns _ _.
  assert (forall m, satc m (find_bound h) ->
          satc m (fun r c => c <= 2 * length h + 16 /\ (forall i : nat, r = Some i -> c <= 2 * i + 16))) as Hw.
  { intros m Hm. eapply satc_weaken; [exact Hm|]. cbn beta. intros r c [H1 H2].
    split; [lia|]. intros i Hi. specialize (H2 i Hi). lia. }
  destruct b; cbn [backend_find].
  - pose proof (swar_words_le ns) as [Hk1 Hk2].
    eapply satc_weaken.
    { apply swar_find_c; [unfold usize_bytes; lia|exact Hk1|apply swar_shape]. }
    cbn beta. intros r c [H1 H2]. split; [lia|]. intros i Hi. specialize (H2 i Hi). lia.
  - apply Hw. destruct sens_sse2. apply vec16_find_c; assumption.
  - apply Hw. apply avx2_find_c. exact Hns.
  - apply Hw. destruct (neon_ok ns). apply vec16_find_c; assumption.
  - apply Hw. destruct sens_simd128. apply vec16_find_c; assumption.
Qed.

Theorem backend_rfind_cost : forall b ns a h, ns <> [] ->
  Forall (fun x => (x < 256)%N) h -> Forall (fun x => (x < 256)%N) ns ->
  satc (backend_rfind ns a h b) (fun _ c => c <= 2 * length h + 16).
Proof.
  intros b ns a h Hns _ _.
  assert (forall m, satc m (rfind_bound h) ->
          satc m (fun (_ : option nat) c => c <= 2 * length h + 16)) as Hw.
  { intros m Hm. eapply satc_weaken; [exact Hm|]. cbn beta. unfold rfind_bound. intros r c H1. lia. }
  destruct b; cbn [backend_rfind].
  - pose proof (swar_words_le ns) as [Hk1 Hk2].
    eapply satc_weaken.
    { apply swar_rfind_c; [unfold usize_bytes; lia|exact Hk1]. }
    cbn beta. intros r c H1. lia.
  - apply Hw. destruct sens_sse2. apply vec16_rfind_c; assumption.
  - apply Hw. apply avx2_rfind_c. exact Hns.
  - apply Hw. destruct (neon_ok ns). apply vec16_rfind_c; assumption.
  - apply Hw. destruct sens_simd128. apply vec16_rfind_c; assumption.
Qed.

(* memrchr, hit-aware: a hit at i is found after at most 2 * (|h| - i) + 16 steps *)
Theorem backend_rfind_cost_hit : forall b ns a h, ns <> [] ->
  satc (backend_rfind ns a h b)
       (fun r c => c <= 2 * length h + 16 /\ (forall i, r = Some i -> c <= 2 * (length h - i) + 16)).
Proof.
  intros b ns a h Hns.
  assert (forall m, satc m (rfind_bound_h h) ->
          satc m (fun r c => c <= 2 * length h + 16 /\ (forall i, r = Some i -> c <= 2 * (length h - i) + 16))) as Hw.
  { intros m Hm. eapply satc_weaken; [exact Hm|]. cbn beta. intros r c [H1 H2].
    split; [lia|]. intros i Hi. specialize (H2 i Hi). lia. }
  destruct b; cbn [backend_rfind].
  - pose proof (swar_words_le ns) as [Hk1 Hk2].
    eapply satc_weaken.
    { apply swar_rfind_ch; [unfold usize_bytes; lia|exact Hk1]. }
    cbn beta. intros r c [H1 H2]. split; [lia|]. intros i Hi. specialize (H2 i Hi). lia.
  - apply Hw. destruct sens_sse2. apply vec16_rfind_ch; assumption.
  - apply Hw. apply avx2_rfind_ch. exact Hns.
  - apply Hw. destruct (neon_ok ns). apply vec16_rfind_ch; assumption.
  - apply Hw. destruct sens_simd128. apply vec16_rfind_ch; assumption.
Qed.

Theorem backend_count_cost : forall b n a h,
  satc (backend_count [n] a h b) (fun _ c => c <= 2 * length h + 80).
Proof.
  intros b n a h.
  assert (forall m, satc m (count_bound h) ->
          satc m (fun (_ : nat) c => c <= 2 * length h + 80)) as Hw.
  { intros m Hm. eapply satc_weaken; [exact Hm|]. cbn beta. unfold count_bound. intros r c H1. lia. }
  destruct params_mem_ok as (P1 & P2 & P3 & P4 & _).
  destruct b; cbn [backend_count].
  - eapply satc_weaken. { apply swar_count_c. } cbn beta. intros r c H1. lia.
  - apply Hw. destruct sens_sse2. apply vec16_count_c; assumption.
  - apply Hw. apply avx2_count_c.
  - apply Hw. destruct (neon_ok [n]). apply vec16_count_c; [assumption|lia].
  - apply Hw. destruct sens_simd128. apply vec16_count_c; assumption.
Qed.

Print Assumptions fwd_bb_cost.
Print Assumptions rev_bb_cost.
Print Assumptions count_bb_cost.
Print Assumptions gen_find_cost.
Print Assumptions gen_rfind_cost.
Print Assumptions gen_count_cost.
Print Assumptions backend_find_cost.
Print Assumptions backend_rfind_cost.
Print Assumptions backend_count_cost.
Print Assumptions backend_rfind_cost_hit.
Print Assumptions swar_find_cost.
Print Assumptions swar_find_c.
Print Assumptions swar_rfind_c.
