(* "no match before c" / "no match at or after c" for an arbitrary predicate:
   the scan invariants shared by the SWAR and wrapper proofs. *)
From Memchr Require Import Base.ListX.

Section NoMatch.
Context {A : Type}.
Variables (p : A -> bool) (h : list A).
Let len := length h.

Definition nmb (c : nat) : Prop := first_idx p (firstn c h) = None.
Definition nmf (c : nat) : Prop := first_idx p (skipn c h) = None.

Lemma first_last_none' l : first_idx p l = None <-> last_idx p l = None.
Proof. rewrite first_idx_none, last_idx_none. tauto. Qed.

Lemma nmb_0 : nmb 0.
Proof. reflexivity. Qed.

Lemma nmb_mono c c' : c <= c' -> nmb c' -> nmb c.
Proof.
  unfold nmb. intros Hle H. rewrite first_idx_none in *.
  replace (firstn c h) with (firstn c (firstn c' h)) by (rewrite firstn_firstn; f_equal; lia).
  rewrite <- (firstn_skipn c (firstn c' h)) in H. apply Forall_app in H. tauto.
Qed.

Lemma nmb_extend c w : nmb c -> first_idx p (slice h c w) = None -> nmb (c + w).
Proof. unfold nmb. intros H1 H2. rewrite firstn_chunk, first_idx_app, H1, H2. reflexivity. Qed.

Lemma nmb_hit c w i : c <= len -> nmb c -> first_idx p (slice h c w) = Some i -> first_idx p h = Some (c + i).
Proof.
  unfold nmb. intros Hc H1 H2.
  rewrite (split_at h c), first_idx_app, H1, (skipn_chunk h c w), first_idx_app, H2.
  cbn. rewrite firstn_length. f_equal. fold len. lia.
Qed.

Lemma nmb_all c : len <= c -> nmb c -> first_idx p h = None.
Proof. unfold nmb. intros Hc H. rewrite firstn_all2 in H by exact Hc. exact H. Qed.

(* finishing a forward scan byte by byte from c *)
Lemma nmb_tail c : c <= len -> nmb c ->
  option_map (Nat.add c) (first_idx p (slice h c (len - c))) = first_idx p h.
Proof.
  intros Hc Hn. destruct (first_idx p (slice h c (len - c))) as [i|] eqn:E; cbn.
  - symmetry. eapply nmb_hit; eassumption.
  - symmetry. apply (nmb_all (c + (len - c))); [lia|]. apply nmb_extend; assumption.
Qed.

Lemma nmf_len c : len <= c -> nmf c.
Proof. intros H. unfold nmf. rewrite skipn_all2 by exact H. reflexivity. Qed.

Lemma nmf_mono c c' : c <= c' -> nmf c -> nmf c'.
Proof.
  unfold nmf. intros Hle H. rewrite first_idx_none in *.
  replace (skipn c' h) with (skipn (c' - c) (skipn c h)) by (rewrite skipn_skipn'; f_equal; lia).
  rewrite <- (firstn_skipn (c' - c) (skipn c h)) in H. apply Forall_app in H. tauto.
Qed.

Lemma nmf_extend c w : c + w <= len -> nmf (c + w) -> last_idx p (slice h c w) = None -> nmf c.
Proof.
  unfold nmf. intros Hle H1 H2. rewrite (skipn_chunk h c w), first_idx_app, H1.
  apply first_last_none' in H2. rewrite H2. reflexivity.
Qed.

Lemma nmf_hit c w i : c + w <= len -> nmf (c + w) -> last_idx p (slice h c w) = Some i ->
  last_idx p h = Some (c + i).
Proof.
  unfold nmf. intros Hc H1 H2.
  rewrite (split_at h c), last_idx_app, (skipn_chunk h c w), last_idx_app.
  apply first_last_none' in H1. rewrite H1, H2. rewrite firstn_length. f_equal. fold len. lia.
Qed.

Lemma nmf_all : nmf 0 -> last_idx p h = None.
Proof. unfold nmf. cbn. apply first_last_none'. Qed.

(* finishing a reverse scan byte by byte over [0, c) *)
Lemma nmf_head c : c <= len -> nmf c ->
  option_map (Nat.add 0) (last_idx p (slice h 0 (c - 0))) = last_idx p h.
Proof.
  intros Hc Hn. rewrite Nat.sub_0_r.
  destruct (last_idx p (slice h 0 c)) as [i|] eqn:E; cbn.
  - symmetry. apply (nmf_hit 0 c i); [lia|exact Hn|exact E].
  - symmetry. apply nmf_all. apply (nmf_extend 0 c); [lia|exact Hn|exact E].
Qed.

End NoMatch.
